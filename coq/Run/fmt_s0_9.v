From FP Require Import Lexer Parser ShowPT Digest Formatter.
From Coq Require Import String List NArith.
Import ListNotations.
Open Scope string_scope.
Set Printing Width 100000000.
Set Printing Depth 100000000.
Definition show_fres (r : fres) : string :=
  match r with
  | FOk s => "OK:" ++ sh_escaped s ""
  | FErr s => "ERR:" ++ sh_escaped s ""
  | FPanic p => "PANIC:" ++ p
  end.
Definition check (rs : list rune) : string := digest (show_fres (format_res rs)).
Definition full (rs : list rune) : string := show_fres (format_res rs).
Eval vm_compute in ("<<<M360>>>" ++ check (runes_of_ascii "options
{ MetaDataX =
// packet A { u8 x, }
// `tick` ""quote"" 'q'
true	}  root
// `tick` ""quote"" 'q'
/// triple
packet
u8x{ repeat
    uint16 u8x `" ++ [28040; 24687; 31867; 22411]%N ++ runes_of_ascii "` , @tag( //
42
// " ++ [128512]%N ++ runes_of_ascii " emoji
/// triple
) char[ /// triple
7 ]
    trueish @lengthOf(
    // " ++ [27880; 37322]%N ++ runes_of_ascii "
    Pad
    ), tag @lengthOf(A)`say ""hi""` , float rootA
, // " ++ [27880; 37322]%N ++ runes_of_ascii "
Foo , repeat uint32 calculatedFrom
, }
root packet u128 { repeat
Packet metadata, repeat
    zchar[
    0123456789 ] len
`u8 x,` ,
f32 BodyLength @lengthOf( Z9_ ) `it's` ,
match crc as Packet { 0
//x
//x
:
    i64_ , [ 255]
:rootA ,
    [""a	b""	,
    ""\" ++ [233]%N ++ runes_of_ascii """
    , ""\" ++ [233]%N ++ runes_of_ascii """	,// `tick` ""quote"" 'q'
0 /// triple
, 4294967296
] :
i8i8 , } , @tag( 1  )@calculatedFrom(	""\" ++ [233]%N ++ runes_of_ascii """
    )string f32a@calculatedFrom( ""abc"")  , repeat As{ matchKey
    {crc
    /// triple
    @calculatedFrom(
    ""// no comment"" //x
),
} ,lengthOf//
`crlf
line`
    // packet A { u8 x, }
    ,
// a // b
// a // b
T //
Pad `a\` , repeat i8i8 charz ,// a // b
}  , }
    packet	packetx{ @lengthOf( Packet
    )
repeat
    uint8x
//
// " ++ [128512]%N ++ runes_of_ascii " emoji
`line1
line2` ,@tag( 0123456789 ) string BodyLength @calculatedFrom(  """ ++ [28040; 24687]%N ++ runes_of_ascii """) ,// trailing space 
zchar[42
]
MetaDataX
    //
    , char
    A @lengthOf(
    /// triple
    tag ) `two words`, @tag(
    10 ) @calculatedFrom(""" ++ [28040; 24687]%N ++ runes_of_ascii """
// `tick` ""quote"" 'q'
//x
)
@calculatedFrom(
    ""x y"" ) char[ 7 ] repeatCount @calculatedFrom(
""// no comment""
    )	,@calculatedFrom(
""it's"" )	char[	65535 ]
packetx`// not a comment` ,
@leftPad //	t
( ' ' ) match  tag as packetx
{ 00 : int ,
    } , @tag( 7
//
// " ++ [128512]%N ++ runes_of_ascii " emoji
)@lengthOf(
    // @lengthOf(
    float
    ) @tag(  0123456789	) Z9_ , @tag( // c
00 )tag { uint16
MetaDataX
    ,
    u tag	`tab	here`,float64 Packet @calculatedFrom( ""{,}"" )	, x_y_z u128 ,
} , char[] msg_type @lengthOf( calculatedFrom ) `line1
line2`
    , } MetaData // " ++ [27880; 37322]%N ++ runes_of_ascii "
float{
    uint32
crc, charz msg_type , u128 crc , string stringy
`" ++ [233]%N ++ runes_of_ascii "`, }")).
Eval vm_compute in ("<<<M313>>>" ++ check (runes_of_ascii "options { BodyLength = char[ 7] ;	}
// c
// @lengthOf(
packet asx// " ++ [128512]%N ++ runes_of_ascii " emoji
{ int16
    x_y_z , @calculatedFrom(
    """" ) @lengthOf(
    /// triple
    chars) //
repeat repeatCount
charz
/// triple
// " ++ [27880; 37322]%N ++ runes_of_ascii "
, @leftPad ( ) i64_@calculatedFrom(
""\" ++ [233]%N ++ runes_of_ascii """	) `// not a comment` , tag Z9_
`two words` ,
@lengthOf( asx
)@calculatedFrom(
""`tick`""
    )match uint8x as
matchKey
    {0123456789
// packet A { u8 x, }
// a // b
: u8x ,1 : zchar , } ,u128 @lengthOf( u128 // packet A { u8 x, }
)// " ++ [128512]%N ++ runes_of_ascii " emoji
, } MetaData	msg_type  {
string
BodyLength  `two words` , options1// " ++ [128512]%N ++ runes_of_ascii " emoji
i64_ ,
    }// " ++ [128512]%N ++ runes_of_ascii " emoji
packet roots { u `` , @calculatedFrom( ""a	b"")match len as	msg_type{
    // c
    """ ++ [28040; 24687]%N ++ runes_of_ascii """
:
charz}, crc @calculatedFrom(
// packet A { u8 x, }
// packet A { u8 x, }
""it's"" ) `a\`
,@leftPad
( '0' )@tag( 007	) zchar[// trailing space 
3
    // trailing space 
    ] falsey ,  @calculatedFrom(// `tick` ""quote"" 'q'
""\n""
    )@calculatedFrom(""CRC32""// c
)
    // trailing space 
    match
    //x
    Packet as // @lengthOf(
stringy	{ 1:
Pad
, ""it's"" :f32a ,
} , @leftPad (
' '
)
    match // " ++ [27880; 37322]%N ++ runes_of_ascii "
int as	a1 { [ 0123456789 ,255]
    :
    options1
//x
//x
}
    ,BodyLength
    //
    @calculatedFrom( """ ++ [28040; 24687]%N ++ runes_of_ascii """ ),
float32
    zchar
@calculatedFrom( ""// no comment""
)
,	@tag( 10 ) zchar[
    // packet A { u8 x, }
    1  ] rootA , }
")).
Eval vm_compute in ("<<<M1690>>>" ++ check (runes_of_ascii "
root packet  asx 
{

    leftPad{ u128@calculatedFrom(
    ""1""  ) 
, 	 //x
	}
,

lengthOf// packet A { u8 x, }
      @calculatedFrom(
""" ++ [128512]%N ++ runes_of_ascii """ )  `a\` ,
i64 	 // `tick` ""quote"" 'q'
Packet

@lengthOf( calculatedFrom )

, @calculatedFrom(  """ ++ [233]%N ++ runes_of_ascii "t" ++ [233]%N ++ runes_of_ascii """

    ) stringy a1

`doc`  // `tick` ""quote"" 'q'
	,

    @rightPad
	(

    // a // b
  )  
      // c
    a1
`a\`
,
    char	Header
@lengthOf(

x  ) `say ""hi""`

    , 
uint8x
    Z9_ `tab	here`  , }

    options
    {  calculatedFrom	// packet A { u8 x, }

	=
0
}
packet metadata  {@leftPad (

'\x00')

f32

    pack 
//	t

  //
,

@tag(65535)

    u32
    uint8x @lengthOf(

    repeatCount 
) ``	,	MetaDataX {
	repeat 
options1
,match

matchKey

as

    len { 
""" ++ [128512]%N ++ runes_of_ascii """:  u8x
	,1
    :zchar, /// triple
	[
""a\\""	, ""x y""]
:charz

    0 :  x_y_z
    //
	,
[// trailing space 
    4294967296// `tick` ""quote"" 'q'
	  ]

    : 
asx
,	[	/// triple
    ""a\""b""
	,

    ""\n"" , ""\" ++ [233]%N ++ runes_of_ascii """
,
    10 
]

:  _x,
    } 
,uint8

metadata 
@lengthOf(
float )

    ,zchar[
	255
]i8i8
	, }

    , 
} root	packet
f32a{ }
")).
Eval vm_compute in ("<<<M1615>>>" ++ check (runes_of_ascii "packet MetaDataX {
    metadata trueish `" ++ [233]%N ++ runes_of_ascii "`,// trailing space 
    @calculatedFrom(""`tick`"")
    uint8x @calculatedFrom(""" ++ [128512]%N ++ runes_of_ascii """) `{ , }`,
    @calculatedFrom(""a\""b"")
    // packet A { u8 x, }
    match Packet as body {
        3 : repeatCount,
        ""x y"" : lengthOf,
        // `tick` ""quote"" 'q'
        4294967296 : packetx,
        [
            ""abc"", ""// no comment"", ""abc"",
            ""\n"", ""1""
        ] : u128,
        [00, 65535, ""x y"", ""{,}""] : calculatedFrom,
        7 : i8i8,
    },
    u8x,
    match int as matchKey {
        [1, ""CRC32""] : asx,
    },
    @lengthOf(a1)
    string x `it's`,
    repeat char matchKey,
    // a // b
    @leftPad()
    @rightPad()
    match metadata as Packet {
        [65535] : Header,
    },
    @tag(255)
    zchar[3] crc `u8 x,`,
}

MetaData rootA {
    i8i8 Pad,
    int8 packetx `{ , }`,
    int8 stringy,
    // `tick` ""quote"" 'q'
    body _x,
    body o,
}")).
Eval vm_compute in ("<<<M135>>>" ++ check (runes_of_ascii "
packet crc
    {@tag(	0)  @calculatedFrom(
    ""{,}""	) @rightPad ( ' ')	repeat uint8 lengthOf // a // b
,
    char[	42 ] float ,
    repeat a1 // packet A { u8 x, }
{ match
x_y_z as charz
    { [
00
, 4294967296,
//x
// a // b
""it's"",""" ++ [28040; 24687]%N ++ runes_of_ascii """ ] ://x
zchar,	[
    ""packet"" ,// c
""x y"",
""it's"" ,""abc"" ,
""it's""
    ] :string_ , 0 : Z9_
}
    // `tick` ""quote"" 'q'
    , // `tick` ""quote"" 'q'
} ,match u8x
as//x
pack {[ 0123456789
, ""x y""
] : // c
trueish /// triple
, }	,
    @calculatedFrom( ""a\""b""
    // c
    ) repeat string_ `a\`,
packetx@calculatedFrom(
""`tick`"" ) , int64 chars `say ""hi""` , @calculatedFrom(
""a	b"" )@leftPad (  '\x00'
) @lengthOf(
    repeatCount)u64
    falsey@calculatedFrom( ""\" ++ [233]%N ++ runes_of_ascii """
    )
,
repeat Header { repeat
    metadata , char[] chars`" ++ [28040; 24687; 31867; 22411]%N ++ runes_of_ascii "` , zchar[ 10] x_y_z `a\` ,	},
// trailing space 
// c
}
")).
Eval vm_compute in ("<<<M1355>>>" ++ check (runes_of_ascii "options	{StringPrefixLenType 
= 
u16

;ArrayPrefixLenType = u32
;FixedStringPadFromLeft

= true; 
FixedStringPadChar 
='0'
	;  }  packet
    Cancel { }	packet

Party
{  }packet Logon
{ }
    packet	Ack { 
}
    packet Logout	{

    repeat InSym87{

    InClordid94
{
string clOrdID
	,

}  ,string

Px ,	i16

Qty,

repeat
	InCount71
	{ repeat Cancel ,
	uint16

    Tail , char[ 2  ] x  ,
repeat

    string Ref,
    }	,Cancel
    ,},
    }

root
	packet Order  {repeat

    string

    tag7

    ,
@leftPad

    (

' '
	)
    char[3
] 
Px
,	u8

    Qty ,  match Qty 
as

    Body
    {
[

28 
,62 ]
    : Logon,148 : Ack , 88
	:  Party ,

184: Cancel ,
    } , 
u16

    Note
    @calculatedFrom(	""CRC32"") 
,
	}")).
Eval vm_compute in ("<<<M117>>>" ++ check (runes_of_ascii "// a // b
packet	u128  {
    repeat chars	{i64 u8x
`
`// a // b
, // c
_x
@lengthOf(  falsey
    )
,
    Logon
`" ++ [28040; 24687; 31867; 22411]%N ++ runes_of_ascii "` ,repeat char[]
trueish `tab	here` ,}
    , } root packet T { match Packet
as
trueish {
""packet"" : charz
    ,
    [4294967296 , ""1"" ] : A , 7 : x
    // " ++ [27880; 37322]%N ++ runes_of_ascii "
    , [
    // a // b
    7 ,""a	b""
    ]
:	u128 255 :
As
    3:
Packet,} ,
//	t
// trailing space 
pack
`a\` , @calculatedFrom( """ ++ [233]%N ++ runes_of_ascii "t" ++ [233]%N ++ runes_of_ascii """ //	t
)
    rootA matchKey  ,
char[ 65535]/// triple
leftPad @lengthOf( roots
    //
    ) , repeat MetaDataX { u64
    a1 @calculatedFrom(""x y"" ) `doc`  ,//	t
uint8 falsey
,
match BodyLength as A
{  [ ""\" ++ [233]%N ++ runes_of_ascii """,255 ,"""" ,
    ""it's"" ] :	Foo ,
3 : u128}	, } ,	}
")).
Eval vm_compute in ("<<<M366>>>" ++ check (runes_of_ascii "packet
// @lengthOf(
//	t
f32a { char[] Header`" ++ [233]%N ++ runes_of_ascii "` ,  @tag( 00
) zchar[ 255  ] int
    , @lengthOf(	trueish)
x @calculatedFrom( """ ++ [128512]%N ++ runes_of_ascii """
    )`say ""hi""` , @leftPad
    (	'\x00'
) @lengthOf( //	t
u128 )//	t
repeat BodyLength ,
falsey @lengthOf( uint8x ), //
@lengthOf( rootA) repeat uint8 T  `a\` , repeat  string
lengthOf
`it's` , @leftPad(
    '\x00' )
zchar[ 42
// packet A { u8 x, }
// a // b
] u`say ""hi""` ,// a // b
repeat packetx
// a // b
// packet A { u8 x, }
{
Pad  f32a
,// trailing space 
i8i8 msg_type `say ""hi""` , i64_ repeatCount , char[]chars , } ,}MetaData _x
{  x matchKey `" ++ [28040; 24687; 31867; 22411]%N ++ runes_of_ascii "`, }")).
Eval vm_compute in ("<<<M1570>>>" ++ check (runes_of_ascii "
root 
packet
Logon
    {

@calculatedFrom(

"""" ) @lengthOf(	int

    ) @tag(  3 )
match
_x 
as	// a // b
    i64_

    {
10 :
    asx

    // `tick` ""quote"" 'q'
	  /// triple
  """ ++ [128512]%N ++ runes_of_ascii """
:

crc	,
	[0
	,
007

]  :float
	,  // trailing space 
		} 
,

repeat 	 //	t
  	uint16

    leftPad

,
    } 

    // " ++ [27880; 37322]%N ++ runes_of_ascii "
  packet

charz{  }  MetaData
	int

{  
  //
// trailing space 
      zchar[
    4294967296

]matchKey
	, asx rootA
    `doc`

,Foo
	string_
	`// not a comment` , 
char[] u8x
,  // `tick` ""quote"" 'q'
    roots
    float, }")).
Eval vm_compute in ("<<<M1664>>>" ++ check (runes_of_ascii "packet tag {
    string matchKey `line1
        line2`,
    @tag(0)
    // c
    @calculatedFrom(""1"")
    @calculatedFrom(""a\""b"")
    float64 matchKey,
}

options {
    crc = true
    msg_type = true;
}

packet o {
    match roots as calculatedFrom {
        ""// no comment"" : msg_type,
        ""{,}"" : u128,
        [65535, 0123456789] : body,
        // " ++ [128512]%N ++ runes_of_ascii " emoji
    },
    @rightPad(' ')
    repeat string_ i64_,
    @lengthOf(lengthOf)
    @tag(255)
    @tag(00)
    char[] stringy,
}")).
Eval vm_compute in ("<<<M335>>>" ++ check (runes_of_ascii "//	t
packet u8x  {
u8x { body
@calculatedFrom(	""`tick`"") `say ""hi""`
,match a1	as
    asx // c
{
    //	t
    0
    :
// " ++ [27880; 37322]%N ++ runes_of_ascii "
// @lengthOf(
asx }
    ,}
, @rightPad ( )
    match Logon as	x { [
    00 , ""// no comment"" , ""a\\"",0123456789
    // trailing space 
    ,
    4294967296 ] : crc , 00:options1 , // " ++ [27880; 37322]%N ++ runes_of_ascii "
42
    :i8i8,0 : o 0123456789
: body , } ,@tag(
7 )float
    @lengthOf(
stringy) `" ++ [233]%N ++ runes_of_ascii "`,
u
    // c
    @lengthOf( msg_type )
,
    }")).
Eval vm_compute in ("<<<M1236>>>" ++ check (runes_of_ascii "// top
options // c0a
  // c0b
{ f32a
    // c2
= // c3
0 } // c5
packet trueish // c7a
  // c7b
{ // c8
}
    // c9
MetaData _x // c11
{ char[ // c13a
  // c13b
0123456789 // c14
] // c15a
  // c15b
zchar
    // c16
, // c17a
  // c17b
string // c18
crc ,
    // c20
char[
    // c21
1 ] // c23a
  // c23b
options1
    // c24
, uint8 // c26a
  // c26b
repeatCount
    // c27
, // c28
} // c29
")).
Eval vm_compute in ("<<<M236>>>" ++ check (runes_of_ascii "packet metadata{ //	t
float64	body
    @lengthOf( calculatedFrom ) , // a // b
@tag(42
    ) rootA ,
    x_y_z u8x`// not a comment`
    ,  @lengthOf(Pad)  match // " ++ [27880; 37322]%N ++ runes_of_ascii "
packetx  as leftPad
    {
    //
    65535 : tag ,
""" ++ [128512]%N ++ runes_of_ascii """ :_x} , x_y_z  metadata , @tag(7 )int64 zchar @lengthOf(
repeatCount ) `" ++ [233]%N ++ runes_of_ascii "`,@tag( 0123456789 ) repeat float chars ,	f32  MetaDataX
,}")).
Eval vm_compute in ("<<<M12>>>" ++ check (runes_of_ascii "options {falsey =int64; u8x = uint32	uint8x =// " ++ [128512]%N ++ runes_of_ascii " emoji
zchar[ 1
]
// @lengthOf(
/// triple
; leftPad =
    ""a	b"";
    calculatedFrom
=
    false ;	}
MetaData Packet
{  zchar[
7]  As ,} root packet	pack {
@leftPad ( )	@tag(// trailing space 
7 ) zchar[ 3 ] u	@lengthOf(
// @lengthOf(
// trailing space 
x ),
}
")).
Eval vm_compute in ("<<<M287>>>" ++ check (runes_of_ascii "root // trailing space 
packet int {
    f32a @calculatedFrom(""packet"" )
    `
`
    , } options
{
    rootA
    // @lengthOf(
    =
""\" ++ [233]%N ++ runes_of_ascii """; }
    packet
i8i8 {
    // trailing space 
    uint8
    uint8x
    @lengthOf( string_ ) //	t
, i32 tag //	t
@lengthOf(
Logon )  , }")).
Eval vm_compute in ("<<<M1453>>>" ++ check (runes_of_ascii "  packet 
P1
	{ u8 a
,	}packet P2{
	P1	, }

    packet

    P3{

    P2  ,
	P1
	, }	packet P4  {
	repeat
P3
	, P2, }  root
packet  P5

{ P4
	,	P3
, P1, u8

    K,
match K
	as
	Body{
	4 :
P4,
3
: P3  ,
2 
:P2  ,1
:

P1  ,
	} 
,}

")).
Eval vm_compute in ("<<<M82>>>" ++ check (runes_of_ascii "packet metadata
{int32 calculatedFrom , } options {} options { u128 = '\x00'	;
    string_ =	""abc""
    ; }root
packet i8i8
    {  @rightPad
( '\x00' ) repeat	metadata { string_,
    tag@lengthOf( falsey ) ,
} ,//x
}")).
Eval vm_compute in ("<<<M1323>>>" ++ check (runes_of_ascii "root packet Frame {
    u8 K,
    Logon first,
    match K as Body {
        1 : Logon,
        2 : Logout,
    },
}
packet Logon {
    string user,
}
packet Logout {
    u16 reason,
}
")).
Eval vm_compute in ("<<<M1609>>>" ++ check (runes_of_ascii "packet A

    {
match

    k
as

n

    {

    [1
	,
	22
,
    ""c c""
    , 4  , 
5
,

    ""f""
    ,
7

    ,  8

,

""i""
,10  ]  :

B
, 2	:
C } ,
	}")).
Eval vm_compute in ("<<<M501>>>" ++ check (runes_of_ascii "packet uint8x
{ match pack
    as msg_type	{
    0123456789 :	float
}
,
} packet //	t
a1
    { } options {packetx
    = '\x00' '\x00'	; u128= ""a	b""  ; }
")).
Eval vm_compute in ("<<<M543>>>" ++ check (runes_of_ascii "packet uint8x
{ mat'1'ch pack
    as msg_type	{
    0123456789 :	float
}
,
} packet //	t
a1
    { } options {packetx
    = '\x00'	; u128= ""a	b""  ; }
")).
Eval vm_compute in ("<<<M536>>>" ++ check (runes_of_ascii "packet uint8x
{ match pack
    as msg_type	{
    0123456789 :	float
}
,
} packet //	t
a1
    { } options {packetx
    = '\x00'	/; u128= ""a	b""  ; }
")).
Eval vm_compute in ("<<<M477>>>" ++ check (runes_of_ascii "packet uint8x
{ match pack
    as msg_type	{
    0123456789 :	float
}
,
} packet //	t
a1
    { options } {packetx
    = '\x00'	; u128= ""a	b""  ; }
")).
Eval vm_compute in ("<<<M530>>>" ++ check (runes_of_ascii "packet uint8x
{ match pack
    as msg_type	{
    0123456789 :	float
}
,
} packet //	t
a1
    { } options {packetx
    = '\x00'	; u128= ""a	b""  ; 
")).
Eval vm_compute in ("<<<M661>>>" ++ check (runes_of_ascii "// @lengthOf(
packet i8i8 { u128 o o , }
options { MetaDataX = true;
    BodyLength =""packet"" x_y_z= 007
crc //x
= ""abc"" ;
    msg_type =
i16 }")).
Eval vm_compute in ("<<<M662>>>" ++ check (runes_of_ascii "// @lengthOf(
packet i8i8 { u128 o , }
{ options MetaDataX = true;
    BodyLength =""packet"" x_y_z= 007
crc //x
= ""abc"" ;
    msg_type =
i16 }")).
Eval vm_compute in ("<<<M1260>>>" ++ check (runes_of_ascii "

  packet

B
    {

u8
	a

,
    }root
packet
P{ u8 K  , u8

L @lengthOf(
	Body )
,  match

K
    as Body
{

    1  :  B
	,  },
    } ")).
Eval vm_compute in ("<<<M37>>>" ++ check (runes_of_ascii "//
root /// triple
packet // trailing space 
pack {
@leftPad(
    ' ' )
    repeat trueish zchar ,	} root
    packet // " ++ [27880; 37322]%N ++ runes_of_ascii "
Header { }")).
Eval vm_compute in ("<<<M1945>>>" ++ check (runes_of_ascii "MetaData leftPad {
    chars MetaDataX,
}

packet repeatCount {
    char[255] uint8x `" ++ [233]%N ++ runes_of_ascii "`,
}

MetaData pack {
    As Foo,
}
// c")).
Eval vm_compute in ("<<<M1189>>>" ++ check (runes_of_ascii "MetaData leftPad { chars MetaDataX , } packet repeatCount { char[ 255 ] uint8x `" ++ [233]%N ++ runes_of_ascii "` , } MetaData pack { As Foo , } // c
")).
Eval vm_compute in ("<<<M1170>>>" ++ check (runes_of_ascii "MetaData leftPad { chars MetaDataX , } packet repeatCount { char[ 255 ] uint8x
// c
`" ++ [233]%N ++ runes_of_ascii "` , } MetaData pack { As Foo , }")).
Eval vm_compute in ("<<<M907>>>" ++ check (runes_of_ascii "packet A {
  match k as n {
    [""a"", ""bb"", ""c c"", ""d"", ""e"", ""f"", ""g"", ""h"", ""i"", ""j"", ""k"", ""l""] : B
    2 : C
  },
}")).
Eval vm_compute in ("<<<M25>>>" ++ check (runes_of_ascii "packet stringy	{
    } // packet A { u8 x, }
packet
    u128
    { u16 len@lengthOf( u128)	,
    //x
    }
")).
Eval vm_compute in ("<<<M352>>>" ++ check (runes_of_ascii "packet _x {
} // trailing space 
options
    { repeatCount
    =42 //x
;Pad = true;
x_y_z =
65535 ;}
")).
Eval vm_compute in ("<<<M620>>>" ++ check (runes_of_ascii "
packet
    asx {match u128 as lengthOf
{
//	t
// `tick` ""quote"" 'q'
255 : x ,
    } @lengthOf(	}")).
Eval vm_compute in ("<<<M573>>>" ++ check (runes_of_ascii "
packet
    asx {match u128 u128 as lengthOf
{
//	t
// `tick` ""quote"" 'q'
255 : x ,
    } ,	}")).
Eval vm_compute in ("<<<M585>>>" ++ check (runes_of_ascii "
packet
    asx {match u128 as @lengthOf(
{
//	t
// `tick` ""quote"" 'q'
255 : x ,
    } ,	}")).
Eval vm_compute in ("<<<M555>>>" ++ check (runes_of_ascii "
asx
    packet {match u128 as lengthOf
{
//	t
// `tick` ""quote"" 'q'
255 : x ,
    } ,	}")).
Eval vm_compute in ("<<<M577>>>" ++ check (runes_of_ascii "
packet
    asx {match u128  lengthOf
{
//	t
// `tick` ""quote"" 'q'
255 : x ,
    } ,	}")).
Eval vm_compute in ("<<<M836>>>" ++ check (runes_of_ascii "packet A {
  match k as n {
    [""a"", ""bb"", 007, ""d"", ""e"", 66] : B,
    2 : C
  },
}")).
Eval vm_compute in ("<<<M1750>>>" ++ check (runes_of_ascii "packet A {
    match k as n {
        [1, ""bb"", 007] : B,
        2 : C,
    },
}")).
Eval vm_compute in ("<<<M903>>>" ++ check (runes_of_ascii "packet A { Inner { match k as n { [1,22,007,4,5,66,7,8,9,10,11] : B, }, }, }")).
Eval vm_compute in ("<<<M960>>>" ++ check (runes_of_ascii "packet A {
    B b `tab
	x`,
    B `tab
	x`,
    repeat B bs `tab
	x`,
}")).
Eval vm_compute in ("<<<M739>>>" ++ check (runes_of_ascii "zchar[ i64 @calculatedFrom( match false ) Header char[ @lengthOf( :")).
Eval vm_compute in ("<<<M918>>>" ++ check (runes_of_ascii "packet A {
    B b `a
b`,
    B `a
b`,
    repeat B bs `a
b`,
}")).
Eval vm_compute in ("<<<M1574>>>" ++ check (runes_of_ascii "packet body {
    i32 f32a `{ , }`,
}

options {
    // c
}")).
Eval vm_compute in ("<<<M1885>>>" ++ check (runes_of_ascii "
packet

A
    {  u8
    x , 
    // c

	u8
y
	,	}

")).
Eval vm_compute in ("<<<M1217>>>" ++ check (runes_of_ascii "packet body { i32 f32a `{ , }` , } options { // c
}")).
Eval vm_compute in ("<<<M756>>>" ++ check (runes_of_ascii "zchar ( : f64 ) , repeat f32 u16 float64 , ; :")).
Eval vm_compute in ("<<<M1850>>>" ++ check (runes_of_ascii "
root
	packet

A
	{
    u8
	x
`x
`
,	}
")).
Eval vm_compute in ("<<<M1068>>>" ++ check (runes_of_ascii "options { a = 1 // c b = 2; // d}")).
Eval vm_compute in ("<<<M1284>>>" ++ check (runes_of_ascii "root packet P {
    string s,
}
")).
Eval vm_compute in ("<<<M1018>>>" ++ check (runes_of_ascii "packet A {
 u8 x `d" ++ [8233]%N ++ runes_of_ascii "`, // c" ++ [8233]%N ++ runes_of_ascii "
}")).
Eval vm_compute in ("<<<M1718>>>" ++ check (runes_of_ascii "packet A {
    char[3] x,
}")).
Eval vm_compute in ("<<<M1488>>>" ++ check (runes_of_ascii "
packet A
{ }// c" ++ [8203]%N ++ runes_of_ascii "
")).
Eval vm_compute in ("<<<M1137>>>" ++ check (runes_of_ascii "MetaData u { }
// c
")).
Eval vm_compute in ("<<<M982>>>" ++ check (runes_of_ascii "// c" ++ [12288]%N ++ runes_of_ascii "
packet A {
}")).
Eval vm_compute in ("<<<M1083>>>" ++ check (runes_of_ascii "packet A { // a
 }")).
Eval vm_compute in ("<<<M1231>>>" ++ check (runes_of_ascii "packet x {
// c
}")).
Eval vm_compute in ("<<<M1477>>>" ++ check (runes_of_ascii "
// " ++ [128512]%N ++ runes_of_ascii " emoji")).
Eval vm_compute in ("<<<M1030>>>" ++ check (runes_of_ascii "// c" ++ [11]%N)).
