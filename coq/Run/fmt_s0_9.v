From FP Require Import Lexer Parser ShowPT Digest Formatter.
From Coq Require Import String List NArith.
Import ListNotations.
Open Scope string_scope.
Set Printing Width 100000000.
Set Printing Depth 100000000.
Definition show_fres (r : fres) : string :=
  match r with
  | FOk s => "OK:" ++ sh_escaped s ""
  | FErr s => "ERR:" ++ sh_escaped s ""
  | FPanic p => "PANIC:" ++ p
  end.
Definition check (rs : list rune) : string := digest (show_fres (format_res rs)).
Definition full (rs : list rune) : string := show_fres (format_res rs).
Eval vm_compute in ("<<<M1621>>>" ++ check (runes_of_ascii "

  root packet  repeatCount  {

    repeat	tag As
, Logon

    @calculatedFrom(

""it's""  )
,	@calculatedFrom( 
""`tick`"" 
)
string
uint8x ,repeat/// triple
      Pad  u8x
	`line1
line2` ,
    @leftPad(
    )char[
	007

    ] string_ ,@lengthOf(	Packet
)	repeat 
int8 Header
	`it's` ,
	// `tick` ""quote"" 'q'

  }

root
packet pack 
{uint64 Packet
	@calculatedFrom(
	""\n"" 
)
    ,}

    options
{
    pack = ""// no comment""//x
  ;
    body // " ++ [128512]%N ++ runes_of_ascii " emoji
= 
""a	b""	;

    }	// trailing space 
  packet 
Logon// trailing space 
    {
	u8x {

    // 50% %s

trueish
    @lengthOf(
    tag
) 
`two words`
, match body  
      // trailing space 
  as

int

    {	// trailing space 
	0

    :
i8i8}, repeat	uint8x	o
	,

}	//	t
,	@tag(
	65535 )
    int16
falsey, zchar[	10

    ]
float	`100% of %d`
, 
repeat
	    // packet A { u8 x, }
  calculatedFrom	`a\`

,
zchar[
10 ] crc
    @lengthOf(
repeatCount 
)
`" ++ [28040; 24687; 31867; 22411]%N ++ runes_of_ascii "`
, // `tick` ""quote"" 'q'
	  match
    // trailing space 
  // " ++ [128512]%N ++ runes_of_ascii " emoji
  rootA
    as
	repeatCount

{3

:
    crc	""CRC32"" 
:	//x
    	x
//x
	,
007 
:
	A
7
    : chars ,

[

007

    ]  :
x

, [
//x
  007	// " ++ [27880; 37322]%N ++ runes_of_ascii "
  	, 255

, """ ++ [28040; 24687]%N ++ runes_of_ascii """
    , 42

]	: Z9_
    ,} ,@tag(
    007//	t

)
    repeat  string len
, int
    ,
	Foo
    {
match

roots	as
    _x  {""// no comment"" :

o	,
[  4294967296 ,

""" ++ [233]%N ++ runes_of_ascii "t" ++ [233]%N ++ runes_of_ascii """ ,
4294967296
    , 
7,""packet"" 
,
	3	]:

string_ ,""x y""  // " ++ [27880; 37322]%N ++ runes_of_ascii "
  	: float [""a\""b"" 	 //x
  , ""1""
	] 	 // packet A { u8 x, }

:
	zchar ,  },

    rootA

    {
repeat
metadata {
repeat
char[ 1 ] i64_  `100% of %d`	,
	match  matchKey	as
	stringy
{
[ ""`tick`""]

:
    x ,  [	3

, 65535	,
	255 ,""a\\""  ,""a\\""	,  ""x y"" //x
]  :  _x
, 
},
    }
,

} 
, repeat char 
stringy
,A `crlf
line` ,	//	t
      } 
,
@leftPad (
) Header{
i32
    asx
@lengthOf(
lengthOf

), }
	,}
")).
Eval vm_compute in ("<<<M1805>>>" ++ check (runes_of_ascii "options  {  StringPrefixLenType= u16 
;

ArrayPrefixLenType 
=  u16  ; }
packet	SampleBinary
	{
uint16	MsgType

    `" ++ [28040; 24687; 31867; 22411]%N ++ runes_of_ascii "`

    ,
	u16
	BodyLenght
    @lengthOf(  Body  )
`" ++ [28040; 24687; 20307; 38271; 24230]%N ++ runes_of_ascii "`
,
    match MsgType  as
Body {1
:  Logon

,
    2 : Logout

    ,

    3
:Heartbeat
,
	4 :
RiskControlRequest

    ,5: RiskControlResponse ,

} ,
@calculatedFrom(

    ""CRC32""
	) 
u32
Ckecksum
`" ++ [26657; 39564; 21644]%N ++ runes_of_ascii "`
    , } packet Logon
	{	@leftPad 
(
'0') char[ 10
]UserName
	`" ++ [29992; 25143; 21517]%N ++ runes_of_ascii "`,string Password `" ++ [23494; 30721]%N ++ runes_of_ascii "`
	,uint64 ClientId `" ++ [23458; 25143; 31471]%N ++ runes_of_ascii "ID`	,u16  HeartbeatInterval`" ++ [24515; 36339; 38388; 38548]%N ++ runes_of_ascii "` ,
    }
packet
	Logout
	{

    @rightPad (	'0'
    )char[ 10] 
UserName `" ++ [29992; 25143; 21517]%N ++ runes_of_ascii "`
    ,

    uint64 ClientId
    `" ++ [23458; 25143; 31471]%N ++ runes_of_ascii "ID` ,

    }packet

    Heartbeat { 
} 
packet
	RiskControlRequest 
{

    string UniqueOrderId

`" ++ [21807; 19968; 35746; 21333; 21495]%N ++ runes_of_ascii "` , char[ 16 ]ClOrdID `" ++ [23458; 25143; 35746; 21333; 21495]%N ++ runes_of_ascii "`  ,char[ 3
]
    MarketID	`" ++ [24066; 22330]%N ++ runes_of_ascii "id`
,
char[  12 ] SecurityID
`" ++ [35777; 21048; 20195; 30721]%N ++ runes_of_ascii "` 
,

    char

    Side `" ++ [20080; 21334; 26041; 21521]%N ++ runes_of_ascii "`

,
	char OrderType `" ++ [35746; 21333; 31867; 22411]%N ++ runes_of_ascii "`,u64 Price
`" ++ [20215; 26684]%N ++ runes_of_ascii "`  , u32

Qty

`" ++ [25968; 37327]%N ++ runes_of_ascii "`
    ,  repeat 
string	ExtraInfo

`" ++ [38468; 21152; 20449; 24687]%N ++ runes_of_ascii "`

,repeat SubOrder 
{
char[ 
16] ClOrdID	`" ++ [23376; 35746; 21333; 21495]%N ++ runes_of_ascii "`
, u64
    Price`" ++ [23376; 35746; 21333; 20215; 26684]%N ++ runes_of_ascii "`  , u32 Qty

`" ++ [23376; 35746; 21333; 25968; 37327]%N ++ runes_of_ascii "` ,
}

,}
packet	RiskControlResponse{ string 
UniqueOrderId 
`" ++ [21807; 19968; 35746; 21333; 21495]%N ++ runes_of_ascii "`,i32  Status 
`" ++ [29366; 24577]%N ++ runes_of_ascii "` ,

string
Msg

`" ++ [32467; 26524; 20449; 24687]%N ++ runes_of_ascii "`

,repeat  Detail	,
    }packet

    Detail
{ string  RuleName
`" ++ [35268; 21017; 21517; 31216]%N ++ runes_of_ascii "`,
u16
    Code
`" ++ [21407; 22240; 20195; 30721]%N ++ runes_of_ascii "`
,} ")).
Eval vm_compute in ("<<<M1896>>>" ++ check (runes_of_ascii "root
packet 
len

{	match x
as
	metadata  // " ++ [27880; 37322]%N ++ runes_of_ascii "
	{

    [
    1  
  // packet A { u8 x, }
    	//x
	,
    0
,""""	,""a	b"" 
, 00

]
    : pack
	,[""// no comment"",
""x y""
,
""" ++ [233]%N ++ runes_of_ascii "t" ++ [233]%N ++ runes_of_ascii """

    ]	:  Packet//
		,  }  ,	repeat
    lengthOf
u128 ,

@calculatedFrom( 
// " ++ [128512]%N ++ runes_of_ascii " emoji
  	""it's""	)  @lengthOf(calculatedFrom
    // trailing space 
  // 50% %s
      )
	@lengthOf( u

)
	metadata
{
	int8
lengthOf
`crlf
line`,
    } ,
@tag( // trailing space 
4294967296

)calculatedFrom	{  f32
    i64_ 	 // packet A { u8 x, }
`" ++ [233]%N ++ runes_of_ascii "` 
,
}
    , 
@lengthOf(

BodyLength

    )repeat 	 //x
	char[

65535] float 
	    // `tick` ""quote"" 'q'
	// c
      ,
@calculatedFrom(  ""\" ++ [233]%N ++ runes_of_ascii """  ) i64_{match
    stringy
as

    _x
{ 	 //	t
		[

    4294967296 ,
3
	] : i8i8 , [
""a\""b""

    ]	:  x_y_z
	,
3
	:len	,  }	, }
    ,
@tag(	// trailing space 
0

    )

zchar[

7]
    x_y_z	, @lengthOf(
Header)repeat
    // 50% %s
    /// triple
  u64  As`
`
,// " ++ [27880; 37322]%N ++ runes_of_ascii "
    @rightPad( )/// triple
	@rightPad 
('\x00'
) u16
Header
    `{ , }`
,} ")).
Eval vm_compute in ("<<<M224>>>" ++ check (runes_of_ascii "packet
leftPad {
@lengthOf( len
)  Pad u
`" ++ [28040; 24687; 31867; 22411]%N ++ runes_of_ascii "` , } root
packet As{ uint16
    calculatedFrom ,
    // c
    }packet
Header { }
packet
int{@rightPad ( // " ++ [27880; 37322]%N ++ runes_of_ascii "
'0'	)repeat
Foo// @lengthOf(
stringy ,
len
    // " ++ [27880; 37322]%N ++ runes_of_ascii "
    { float64
i64_ `it's` , } ,repeat
MetaDataX//x
{
rootA
`crlf
line`	, match string_ as roots {""it's""
    // @lengthOf(
    :x 7
    :
    A //x
, // @lengthOf(
}
,
char
u128 `" ++ [233]%N ++ runes_of_ascii "` ,}  , @lengthOf( MetaDataX ) @leftPad ('0' ) //
@leftPad ( ) char[] body , @calculatedFrom(
""""
) calculatedFrom
    trueish ,
    Packet ,repeat As{
    char[ 65535] Header , i8 /// triple
Packet ,
} ,  char[
    00]	packetx
@lengthOf(
u8x) `u8 x,` // " ++ [27880; 37322]%N ++ runes_of_ascii "
,
    // " ++ [128512]%N ++ runes_of_ascii " emoji
    @calculatedFrom( ""`tick`"" ) @lengthOf(
A
    )
    match
body
as //
i64_
{// a // b
[ 1 ] :
// trailing space 
// `tick` ""quote"" 'q'
f32a, },	i8 _x @calculatedFrom(	""// no comment"" )
// trailing space 
// a // b
``, }
// a // b
")).
Eval vm_compute in ("<<<M1629>>>" ++ check (runes_of_ascii "root packet rootA {
}

packet Z9_ {
    repeat char[007] f32a,
    @rightPad( )
    u32 Header `a\`,
    repeat Z9_,
    repeat i8i8 int `u8 x,`,// `tick` ""quote"" 'q'
    uint8x,
    f64 i8i8 `" ++ [28040; 24687; 31867; 22411]%N ++ runes_of_ascii "`,
    @tag(3)
    // `tick` ""quote"" 'q'
    @tag(3)
    @tag(10)
    repeat int {
        MetaDataX,
    },
    @tag(10)
    int8 pack @lengthOf(x),
}

packet metadata {
    @calculatedFrom(""" ++ [233]%N ++ runes_of_ascii "t" ++ [233]%N ++ runes_of_ascii """)
    repeat rootA uint8x,
    @calculatedFrom(""\n"")
    @lengthOf(len)
    BodyLength {
        matchKey f32a `a\`,
    },
    char[] leftPad `tab	here`,
    // " ++ [27880; 37322]%N ++ runes_of_ascii "
    u32 a1,
}

packet trueish {
    @tag(007)
    f64 f32a @calculatedFrom("""") `say ""hi""`,
    @calculatedFrom(""packet"")
    @calculatedFrom(""" ++ [28040; 24687]%N ++ runes_of_ascii """)
    repeat char[3] zchar `
    `,
}

MetaData tag {
}")).
Eval vm_compute in ("<<<M355>>>" ++ check (runes_of_ascii "options  { } root packet A {
@tag(
65535 ) @lengthOf( calculatedFrom )
match msg_type as
_x // `tick` ""quote"" 'q'
{// c
00
: MetaDataX// packet A { u8 x, }
, 0123456789 :matchKey , [	""""
    ]:
//	t
//x
stringy["""",255
, 4294967296 ,
    /// triple
    42 ,
3,""// no comment"" ] :  chars  [//	t
""abc"" , ""CRC32""
]// c
:A , ""\" ++ [233]%N ++ runes_of_ascii """
: stringy ,
    // `tick` ""quote"" 'q'
    }
    ,// @lengthOf(
match
// 50% %s
// " ++ [128512]%N ++ runes_of_ascii " emoji
trueish as repeatCount{ [ 4294967296 , """ ++ [233]%N ++ runes_of_ascii "t" ++ [233]%N ++ runes_of_ascii """] : //	t
crc ""a\\""
:falsey ,
""a\\"" : A
,	10 : // c
uint8x , ""it's"" :
    repeatCount
, } ,  asx float, @rightPad ( ) f64 int @lengthOf(roots
    )  `doc` , }
    // c
    options { string_=""packet"" ;}")).
Eval vm_compute in ("<<<M1842>>>" ++ check (runes_of_ascii "

  // top
  options 
    // c0
  {

    // c1
		f32a 
// c2
	=
	    // c3
    	0 
    // c4
} 

    // c5
    packet 

    // c6
    trueish 
      // c7
		{
    // c8
    	} 
	    // c9
MetaData
    // c10
  _x 

    // c11
    	{ 
    // c12

char[
	    // c13
  	0123456789
// c14
  ]
    // c15
    zchar
    // c16
	,
	// c17
	string
        // c18
  crc
    // c19
    ,  
  // c20

char[
// c21
      1

    // c22
	]
    // c23
    options1 

// c24

,
// c25
	uint8 
	    // c26

  repeatCount 
      // c27
    , 

    // c28
	  }
        // c29
 
")).
Eval vm_compute in ("<<<M1134>>>" ++ check (runes_of_ascii "packet float
    // c1
{ // c2
@rightPad // c3a
  // c3b
( // c4a
  // c4b
) // c5a
  // c5b
rootA // c6
@lengthOf( // c7a
  // c7b
trueish // c8
)
    // c9
,
    // c10
stringy // c11a
  // c11b
@lengthOf( // c12a
  // c12b
matchKey )
    // c14
, // c15a
  // c15b
char[ 4294967296 ]
    // c18
pack @lengthOf(
    // c20
uint8x
    // c21
) // c22a
  // c22b
,
    // c23
} // c24
root // c25
packet trueish {
    // c28
repeat uint64
    // c30
u128
    // c31
`say ""hi""` // c32
,
    // c33
}
    // c34
")).
Eval vm_compute in ("<<<M1866>>>" ++ check (runes_of_ascii "options {
    uint8x = 007;
    // c5
    lengthOf = i8;
    // c9
}

// c10
packet i64_ {
    // c13
    @calculatedFrom(""1"")
    // c16
    @tag(3)
    // c19
    @lengthOf(rootA)
    // c22a
    // c22b
    repeat int8 Packet `tab	here`,// c27a
    // c27b
}// c28

packet _x {
    // c31a
    // c31b
    matchKey x `" ++ [28040; 24687; 31867; 22411]%N ++ runes_of_ascii "`,// c35
    int32 calculatedFrom `100% of %d`,
    // c39
    @lengthOf(trueish)
    // c42
    Packet,
    repeat f32 o,// c48
}
// c49")).
Eval vm_compute in ("<<<M1550>>>" ++ check (runes_of_ascii "  packet uint8x  { }root
packet	repeatCount {

    @rightPad
    (	'\x00'
)  // 50% %s
    i16 roots
,@rightPad (	)repeat 	 // 50% %s
trueish
{
	tag@calculatedFrom(
""1""
    )	`line1
line2`

, string
	crc  `100% of %d`
	,

repeat
char[]

trueish//
    	`// not a comment` , repeat

    BodyLength

u	`{ , }`
,} ,

char tag,
    @lengthOf(
body 
) @tag(

007
    )
@calculatedFrom(	""" ++ [128512]%N ++ runes_of_ascii """ 
)

    char[
	007 ] uint8x, 
}
")).
Eval vm_compute in ("<<<M1956>>>" ++ check (runes_of_ascii "MetaData
Logon/// triple

{char[  255  ]
        // trailing space 
  // `tick` ""quote"" 'q'
		msg_type

, A

    msg_type  ,
	char[4294967296

]

    u	,  // 50% %s
} root

    packet 
/// triple
		uint8x
    {
    match
_x as
    len

    {
255: a1 , 10 
  // a // b
  :

    options1 
} ,
crc 
      // a // b

  ,
@lengthOf(Header
)  repeat roots	`say ""hi""` ,

    //
  // c
  }

")).
Eval vm_compute in ("<<<M67>>>" ++ check (runes_of_ascii "
options { } options { string_
=
    char[255 ] ;}packet
    stringy{
    match
len as	i8i8  { ""\" ++ [233]%N ++ runes_of_ascii """ :// " ++ [27880; 37322]%N ++ runes_of_ascii "
float
    , """ ++ [233]%N ++ runes_of_ascii "t" ++ [233]%N ++ runes_of_ascii """
: roots , """ ++ [233]%N ++ runes_of_ascii "t" ++ [233]%N ++ runes_of_ascii """ : // " ++ [27880; 37322]%N ++ runes_of_ascii "
lengthOf ,
65535: T """ ++ [233]%N ++ runes_of_ascii "t" ++ [233]%N ++ runes_of_ascii """ : falsey ,	4294967296: //
o }
,
    @lengthOf( Pad) @tag( 3 ) match options1 as As { [ ""\n"" , 255
    , 42 ,""CRC32"" ,	""CRC32"" ] :
roots// @lengthOf(
, 42:
pack, """ ++ [233]%N ++ runes_of_ascii "t" ++ [233]%N ++ runes_of_ascii """ : Z9_,
} , }")).
Eval vm_compute in ("<<<M333>>>" ++ check (runes_of_ascii "MetaData Pad
{ } MetaData BodyLength {
// trailing space 
// trailing space 
} root	packet MetaDataX // trailing space 
{// 50% %s
@lengthOf( a1
) match
    trueish // a // b
as
uint8x {[
""// no comment"" , ""CRC32""
    ,""" ++ [28040; 24687]%N ++ runes_of_ascii """ ,
""" ++ [128512]%N ++ runes_of_ascii """, ""// no comment"" ,""abc"" ] :Logon
    , } , match T as crc {
    ""\n"":	Z9_
    , } ,	}
")).
Eval vm_compute in ("<<<M1399>>>" ++ check (runes_of_ascii "  options

    {LittleEndian =

    true	;  }packet
	Sub  {u8 a
	, u16  SubSum @calculatedFrom(
	""CRC16"" ) ,

    }
	root

packet
    Frame {u16
MsgType,u16 BodyLen	@lengthOf(Body ) ,
    Sub Body ,
string
note , 
u16 Checksum

    @calculatedFrom( ""CRC16"" )
,u8  tail,
	}
")).
Eval vm_compute in ("<<<M1425>>>" ++ check (runes_of_ascii "// top
      root// c0
packet 	 // c1
	P // c2a
  	// c2b
  {	// c3a
      // c3b

	u8  // c4a
  // c4b

s_u8 // c5a

	// c5b
  ,  repeat
// c7

u8  // c8a
// c8b
		r_u8// c9a

	// c9b
	,
    // c10
u16
// c11
b_len 	 // c12

,  // c13a
    // c13b
    }
")).
Eval vm_compute in ("<<<M452>>>" ++ check (runes_of_ascii "packet
    asx { @calculatedFrom(
""""  ) @tag( 255 )repeat
// packet A { u8 x, }
// trailing space 
int16 u8x
,
@tag( @tag(
    //
    007 )
    @tag( 0
    /// triple
    ) @tag( 1) u
    @lengthOf( T ),
// `tick` ""quote"" 'q'
//x
} // " ++ [128512]%N ++ runes_of_ascii " emoji")).
Eval vm_compute in ("<<<M487>>>" ++ check (runes_of_ascii "packet
    asx { @calculatedFrom(
""""  ) @tag( 255 )repeat
// packet A { u8 x, }
// trailing space 
int16 u8x
,
@tag(
    //
    007 )
    @tag( 0
    /// triple
    ) @tag( 1 1) u
    @lengthOf( T ),
// `tick` ""quote"" 'q'
//x
} // " ++ [128512]%N ++ runes_of_ascii " emoji")).
Eval vm_compute in ("<<<M428>>>" ++ check (runes_of_ascii "packet
    asx { @calculatedFrom(
""""  ) @tag( 255 repeat)
// packet A { u8 x, }
// trailing space 
int16 u8x
,
@tag(
    //
    007 )
    @tag( 0
    /// triple
    ) @tag( 1) u
    @lengthOf( T ),
// `tick` ""quote"" 'q'
//x
} // " ++ [128512]%N ++ runes_of_ascii " emoji")).
Eval vm_compute in ("<<<M411>>>" ++ check (runes_of_ascii "packet
    asx { @calculatedFrom(
""""   @tag( 255 )repeat
// packet A { u8 x, }
// trailing space 
int16 u8x
,
@tag(
    //
    007 )
    @tag( 0
    /// triple
    ) @tag( 1) u
    @lengthOf( T ),
// `tick` ""quote"" 'q'
//x
} // " ++ [128512]%N ++ runes_of_ascii " emoji")).
Eval vm_compute in ("<<<M1658>>>" ++ check (runes_of_ascii "options {
    i8i8 = ""\n""
    Header = ""x y"";/// triple
}

root packet A {
    match charz as T {
        //
        0 : options1,
        // `tick` ""quote"" 'q'
    },
}

packet float {
    @rightPad( )
    repeat metadata `u8 x,`,
}")).
Eval vm_compute in ("<<<M1555>>>" ++ check (runes_of_ascii "  MetaData u128
{	zchar[
// " ++ [128512]%N ++ runes_of_ascii " emoji
// 50% %s
4294967296 ]

    lengthOf `a\`  ,  } 
packet

leftPad 
{
	@rightPad (
'0'

    )
calculatedFrom
	float	// 50% %s

	`" ++ [28040; 24687; 31867; 22411]%N ++ runes_of_ascii "`
,
char[
    255]

    metadata
    ,
}")).
Eval vm_compute in ("<<<M279>>>" ++ check (runes_of_ascii "MetaData zchar { }
packet
i8i8
    { @calculatedFrom(""\n"") i8 tag@lengthOf(Packet)
    // " ++ [128512]%N ++ runes_of_ascii " emoji
    , lengthOf{	char[] leftPad
`{ , }`  , i32 crc @calculatedFrom(  ""a\\"" /// triple
)
, },
}
")).
Eval vm_compute in ("<<<M1252>>>" ++ check (runes_of_ascii "// top
root // c0a
  // c0b
packet // c1a
  // c1b
P // c2a
  // c2b
{
    // c3
char
    // c4
c // c5
,
    // c6
u8 // c7a
  // c7b
x
    // c8
, // c9a
  // c9b
}
    // c10
")).
Eval vm_compute in ("<<<M664>>>" ++ check (runes_of_ascii "MetaData u
    { } MetaData o
{ float uint8x
`100% of %d` ,repeatCount u8x, string_ leftPad
, i32
    Foo , int64 x `two words` packet calculatedFrom
stringy `a\` ,
}
")).
Eval vm_compute in ("<<<M649>>>" ++ check (runes_of_ascii "MetaData u
    { } MetaData o
{ float uint8x
`100% of %d` ,repeatCount u8x, string_ leftPad
, i32
    Foo , options x `two words` , calculatedFrom
stringy `a\` ,
}
")).
Eval vm_compute in ("<<<M573>>>" ++ check (runes_of_ascii "MetaData u
    { } MetaData {
o float uint8x
`100% of %d` ,repeatCount u8x, string_ leftPad
, i32
    Foo , int64 x `two words` , calculatedFrom
stringy `a\` ,
}
")).
Eval vm_compute in ("<<<M571>>>" ++ check (runes_of_ascii "MetaData u
    { } MetaData 
{ float uint8x
`100% of %d` ,repeatCount u8x, string_ leftPad
, i32
    Foo , int64 x `two words` , calculatedFrom
stringy `a\` ,
}
")).
Eval vm_compute in ("<<<M581>>>" ++ check (runes_of_ascii "MetaData u
    { } MetaData o
{  uint8x
`100% of %d` ,repeatCount u8x, string_ leftPad
, i32
    Foo , int64 x `two words` , calculatedFrom
stringy `a\` ,
}
")).
Eval vm_compute in ("<<<M656>>>" ++ check (runes_of_ascii "MetaData u
    { } MetaData o
{ float uint8x
`100% of %d` ,repeatCount u8x, string_ leftPad
, i32
    Foo , int64 x  , calculatedFrom
stringy `a\` ,
}
")).
Eval vm_compute in ("<<<M1804>>>" ++ check (runes_of_ascii "options

{
    }  options{MetaDataX
= char ;// c

	}MetaData
    Pad 
{

    i8 metadata

,string
	stringy
    ,

    int8 
As

`{ , }`

, } ")).
Eval vm_compute in ("<<<M46>>>" ++ check (runes_of_ascii "packet u8x  { @leftPad ( //	t
'0'//x
)
    uint8x lengthOf
    `line1
line2`
    // 50% %s
    ,
}
packet msg_type{
}MetaData u {
}

")).
Eval vm_compute in ("<<<M1424>>>" ++ check (runes_of_ascii "
packet
    A {
    match  k
as n

    { 
[
1 ,  22  , ""c c""  ,
4,	5

    , ""f""
,
7
,

    8 ] :
B ,
2
: C } ,
} ")).
Eval vm_compute in ("<<<M460>>>" ++ check (runes_of_ascii "packet
    asx { @calculatedFrom(
""""  ) @tag( 255 )repeat
// packet A { u8 x, }
// trailing space 
int16 u8x
,
@tag(")).
Eval vm_compute in ("<<<M1207>>>" ++ check (runes_of_ascii "options { } // c
options { MetaDataX = char ; } MetaData Pad { i8 metadata , string stringy , int8 As `{ , }` , }")).
Eval vm_compute in ("<<<M1239>>>" ++ check (runes_of_ascii "options { } options { MetaDataX = char ; } MetaData Pad { i8 metadata , string stringy , // c
int8 As `{ , }` , }")).
Eval vm_compute in ("<<<M878>>>" ++ check (runes_of_ascii "packet A {
  match k as n {
    [""a"", ""bb"", ""c c"", ""d"", ""e"", ""f"", ""g"", ""h"", ""i"", ""j""] : B,
    2 : C
  },
}")).
Eval vm_compute in ("<<<M924>>>" ++ check (runes_of_ascii "packet A {
    Inner {
        u8 x `a
b`,
        Deep {
            u8 y `a
b`,
        },
    },
}")).
Eval vm_compute in ("<<<M110>>>" ++ check (runes_of_ascii "options
    {Foo= 00  ; Header =false calculatedFrom
    = true; }	root  packet
int //x
{ len , }
")).
Eval vm_compute in ("<<<M860>>>" ++ check (runes_of_ascii "packet A {
  match k as n {
    [""a"", ""bb"", 007, ""d"", ""e"", 66, ""g"", ""h""] : B,
    2 : C
  },
}")).
Eval vm_compute in ("<<<M871>>>" ++ check (runes_of_ascii "packet A {
  match k as n {
    [1, 22, ""c c"", 4, 5, ""f"", 7, 8, ""i""] : B,
    2 : C
  },
}")).
Eval vm_compute in ("<<<M1430>>>" ++ check (runes_of_ascii "

  packet 
A	{

    B 
b 
`%%d%!` ,
    B`%%d%!`
	,

repeat  B
bs
    `%%d%!` , }
")).
Eval vm_compute in ("<<<M813>>>" ++ check (runes_of_ascii "packet A {
  match k as n {
    [""a"", ""bb"", ""c c"", ""d"", ""e""] : B,
    2 : C
  },
}")).
Eval vm_compute in ("<<<M817>>>" ++ check (runes_of_ascii "packet A {
  match k as n {
    [""a"", 22, ""c c"", 4, ""e""] : B,
    2 : C
  },
}")).
Eval vm_compute in ("<<<M1571>>>" ++ check (runes_of_ascii "root packet
    P
    {
u16 a
,
	u32
	Sum @calculatedFrom(""CRC32""  )
, 
}")).
Eval vm_compute in ("<<<M1508>>>" ++ check (runes_of_ascii "packet
A {

B
    b

`a
b`,  B  `a
b`

, repeat

    B  bs	`a
b` 
,}")).
Eval vm_compute in ("<<<M849>>>" ++ check (runes_of_ascii "packet A { Inner { match k as n { [1,22,007,4,5,66,7] : B, }, }, }")).
Eval vm_compute in ("<<<M823>>>" ++ check (runes_of_ascii "packet A { Inner { match k as n { [1,22,007,4,5] : B, }, }, }")).
Eval vm_compute in ("<<<M928>>>" ++ check (runes_of_ascii "packet A {
    B b `
`,
    B `
`,
    repeat B bs `
`,
}")).
Eval vm_compute in ("<<<M961>>>" ++ check (runes_of_ascii "MetaData M {
    u8 x `tab
	x`,
    T t `tab
	x`,
}")).
Eval vm_compute in ("<<<M3>>>" ++ check (runes_of_ascii "packet // " ++ [27880; 37322]%N ++ runes_of_ascii "
MetaDataX {int64  leftPad , }
")).
Eval vm_compute in ("<<<M1856>>>" ++ check (runes_of_ascii "MetaData
M
{  u8 
x
`
`  , 
T

t `
`,
} ")).
Eval vm_compute in ("<<<M204>>>" ++ check (runes_of_ascii "MetaData  matchKey
{ char[] Foo , }")).
Eval vm_compute in ("<<<M525>>>" ++ check (runes_of_ascii "packet
    asx { @calculatedFrom(")).
Eval vm_compute in ("<<<M1591>>>" ++ check (runes_of_ascii "  packet
    A

{
    }// c" ++ [5760]%N ++ runes_of_ascii "
 
")).
Eval vm_compute in ("<<<M744>>>" ++ check (runes_of_ascii "=_?xc%p\XM[z`Z.E8&!3PsEU?W+/")).
Eval vm_compute in ("<<<M324>>>" ++ check (runes_of_ascii "packet
BodyLength { }

")).
Eval vm_compute in ("<<<M1602>>>" ++ check (runes_of_ascii "options {
    a = 1;
}")).
Eval vm_compute in ("<<<M1001>>>" ++ check (runes_of_ascii "// c" ++ [12288]%N ++ runes_of_ascii "
packet A {
}")).
Eval vm_compute in ("<<<M1102>>>" ++ check (runes_of_ascii "packet A { // a
 }")).
Eval vm_compute in ("<<<M1920>>>" ++ check (runes_of_ascii "MetaData f32a {
}")).
Eval vm_compute in ("<<<M764>>>" ++ check (runes_of_ascii "Ldg$cJ:9=")).
Eval vm_compute in ("<<<M734>>>" ++ check (runes_of_ascii " " ++ [12]%N ++ runes_of_ascii " ")).
