From FP Require Import Lexer Parser ShowPT Digest Formatter.
From Coq Require Import String List NArith.
Import ListNotations.
Open Scope string_scope.
Set Printing Width 100000000.
Set Printing Depth 100000000.
Definition show_fres (r : fres) : string :=
  match r with
  | FOk s => "OK:" ++ sh_escaped s ""
  | FErr s => "ERR:" ++ sh_escaped s ""
  | FPanic p => "PANIC:" ++ p
  end.
Definition check (rs : list rune) : string := digest (show_fres (format_res rs)).
Definition full (rs : list rune) : string := show_fres (format_res rs).
Eval vm_compute in ("<<<M360>>>" ++ check (runes_of_ascii "options
{ MetaDataX =
// packet A { u8 x, }
// `tick` ""quote"" 'q'
true	}  root
// `tick` ""quote"" 'q'
/// triple
packet
u8x{ repeat
    uint16 u8x `" ++ [28040; 24687; 31867; 22411]%N ++ runes_of_ascii "` , @tag( //
42
// " ++ [128512]%N ++ runes_of_ascii " emoji
/// triple
) char[ /// triple
7 ]
    trueish @lengthOf(
    // " ++ [27880; 37322]%N ++ runes_of_ascii "
    Pad
    ), tag @lengthOf(A)`say ""hi""` , float rootA
, // " ++ [27880; 37322]%N ++ runes_of_ascii "
Foo , repeat uint32 calculatedFrom
, }
root packet u128 { repeat
Packet metadata, repeat
    zchar[
    0123456789 ] len
`u8 x,` ,
f32 BodyLength @lengthOf( Z9_ ) `it's` ,
match crc as Packet { 0
//x
//x
:
    i64_ , [ 255]
:rootA ,
    [""a	b""	,
    ""\" ++ [233]%N ++ runes_of_ascii """
    , ""\" ++ [233]%N ++ runes_of_ascii """	,// `tick` ""quote"" 'q'
0 /// triple
, 4294967296
] :
i8i8 , } , @tag( 1  )@calculatedFrom(	""\" ++ [233]%N ++ runes_of_ascii """
    )string f32a@calculatedFrom( ""abc"")  , repeat As{ matchKey
    {crc
    /// triple
    @calculatedFrom(
    ""// no comment"" //x
),
} ,lengthOf//
`crlf
line`
    // packet A { u8 x, }
    ,
// a // b
// a // b
T //
Pad `a\` , repeat i8i8 charz ,// a // b
}  , }
    packet	packetx{ @lengthOf( Packet
    )
repeat
    uint8x
//
// " ++ [128512]%N ++ runes_of_ascii " emoji
`line1
line2` ,@tag( 0123456789 ) string BodyLength @calculatedFrom(  """ ++ [28040; 24687]%N ++ runes_of_ascii """) ,// trailing space 
zchar[42
]
MetaDataX
    //
    , char
    A @lengthOf(
    /// triple
    tag ) `two words`, @tag(
    10 ) @calculatedFrom(""" ++ [28040; 24687]%N ++ runes_of_ascii """
// `tick` ""quote"" 'q'
//x
)
@calculatedFrom(
    ""x y"" ) char[ 7 ] repeatCount @calculatedFrom(
""// no comment""
    )	,@calculatedFrom(
""it's"" )	char[	65535 ]
packetx`// not a comment` ,
@leftPad //	t
( ' ' ) match  tag as packetx
{ 00 : int ,
    } , @tag( 7
//
// " ++ [128512]%N ++ runes_of_ascii " emoji
)@lengthOf(
    // @lengthOf(
    float
    ) @tag(  0123456789	) Z9_ , @tag( // c
00 )tag { uint16
MetaDataX
    ,
    u tag	`tab	here`,float64 Packet @calculatedFrom( ""{,}"" )	, x_y_z u128 ,
} , char[] msg_type @lengthOf( calculatedFrom ) `line1
line2`
    , } MetaData // " ++ [27880; 37322]%N ++ runes_of_ascii "
float{
    uint32
crc, charz msg_type , u128 crc , string stringy
`" ++ [233]%N ++ runes_of_ascii "`, }")).
Eval vm_compute in ("<<<M53>>>" ++ check (runes_of_ascii "root
packet u {
    char[007 ]x_y_z
`two words` , int16 u8x
    @calculatedFrom( ""packet""
    )
    // @lengthOf(
    ,
    float64
    falsey
@calculatedFrom( ""\" ++ [233]%N ++ runes_of_ascii """ ) `u8 x,`
    ,
    trueish @calculatedFrom(
    """ ++ [233]%N ++ runes_of_ascii "t" ++ [233]%N ++ runes_of_ascii """ )
`tab	here` , @tag( 1	) repeat char[
4294967296 ]
    // " ++ [128512]%N ++ runes_of_ascii " emoji
    u , match
    // " ++ [27880; 37322]%N ++ runes_of_ascii "
    i8i8
    //
    as // " ++ [128512]%N ++ runes_of_ascii " emoji
o
    { [""a\\""
    ]:
    matchKey,[ 0123456789
    //x
    , ""x y""  , 0 ,
/// triple
/// triple
00 , ""a	b"" ,""{,}"" , // a // b
""{,}"" ,
007 ] :
u8x,
255 : u128 , [
""" ++ [28040; 24687]%N ++ runes_of_ascii """
    , 0123456789	,65535 ,
    // a // b
    ""\n"" ] : _x, 7 :
falsey} , @leftPad ( )// " ++ [128512]%N ++ runes_of_ascii " emoji
charz @lengthOf(A ) , // `tick` ""quote"" 'q'
} root packet stringy
{
    repeat
    MetaDataX {float32
T , string
    x_y_z `a\`
, repeat	_x  zchar`u8 x,` , }
    , } packet Foo {
    @lengthOf(  roots
    ) calculatedFrom a1, zchar[ 0123456789]	_x,
// @lengthOf(
// trailing space 
match //
roots as MetaDataX // c
{ /// triple
42 :	_x ,
3// a // b
:msg_type  7 : a1, """"	:i8i8 , //x
[ """ ++ [233]%N ++ runes_of_ascii "t" ++ [233]%N ++ runes_of_ascii """ ]: i8i8 , 00 : leftPad ,
    } , @calculatedFrom( // @lengthOf(
"""" ) char[  00 // c
]
Foo
@lengthOf( uint8x) ,  f32 chars , }packet
    metadata
    //	t
    { } MetaData i64_ // packet A { u8 x, }
{ lengthOf options1 ,
// @lengthOf(
//x
a1 A,
    x Header ,
    }
")).
Eval vm_compute in ("<<<M1324>>>" ++ check (runes_of_ascii "// top
options
    // c0
{ LittleEndian
    // c2
= false
    // c4
;
    // c5
StringPrefixLenType
    // c6
=
    // c7
u8
    // c8
; // c9
ArrayPrefixLenType // c10
= // c11a
  // c11b
u64
    // c12
; // c13a
  // c13b
FixedStringPadFromLeft
    // c14
= false ;
    // c17
FixedStringPadChar // c18a
  // c18b
=
    // c19
' ' // c20a
  // c20b
; }
    // c22
packet
    // c23
Reject // c24a
  // c24b
{ // c25a
  // c25b
repeat char[ 4 ] // c29a
  // c29b
seqNo // c30
, // c31
string // c32
Px
    // c33
,
    // c34
} root packet Trade // c38a
  // c38b
{ // c39a
  // c39b
@rightPad ( // c41
'0' // c42
)
    // c43
char[
    // c44
2 // c45
] msgKind // c47
, // c48
repeat
    // c49
f64
    // c50
price // c51a
  // c51b
, InAcct79
    // c53
{
    // c54
repeat // c55a
  // c55b
Reject
    // c56
,
    // c57
zchar[ // c58a
  // c58b
7 // c59
] // c60a
  // c60b
OrderId
    // c61
,
    // c62
} // c63
, // c64
Reject // c65a
  // c65b
, // c66
} ")).
Eval vm_compute in ("<<<M1727>>>" ++ check (runes_of_ascii "options {
    string_ = false;
    falsey = char[4294967296];
}

packet zchar {
    match float as len {
        [""" ++ [233]%N ++ runes_of_ascii "t" ++ [233]%N ++ runes_of_ascii """] : matchKey,
        3 : u,
        [4294967296, ""1""] : zchar,
    },
}

MetaData T {
}

packet packetx {
    uint16 uint8x @calculatedFrom(""it's""),
    stringy {
        i16 crc `{ , }`,
    },
    zchar[00] x,
    zchar {
        uint64 tag,
        zchar f32a `say ""hi""`,
        uint32 A `{ , }`,
        match _x as falsey {
            [007, """ ++ [128512]%N ++ runes_of_ascii """] : matchKey,
            // " ++ [128512]%N ++ runes_of_ascii " emoji
            [0123456789, 3] : T,
            // " ++ [128512]%N ++ runes_of_ascii " emoji
            // `tick` ""quote"" 'q'
            1 : Foo,
        },// trailing space 
    },
    A,
    zchar[4294967296] string_ @lengthOf(float),
    match rootA as As {
        [
            255, 0123456789, ""it's"", """ ++ [233]%N ++ runes_of_ascii "t" ++ [233]%N ++ runes_of_ascii """, ""{,}"",
            ""abc"", """ ++ [233]%N ++ runes_of_ascii "t" ++ [233]%N ++ runes_of_ascii """
        ] : int,
        4294967296 : tag,
    },
}")).
Eval vm_compute in ("<<<M322>>>" ++ check (runes_of_ascii "packet leftPad { //
i8 stringy @calculatedFrom( """ ++ [128512]%N ++ runes_of_ascii """	) , int@calculatedFrom(
// c
// " ++ [128512]%N ++ runes_of_ascii " emoji
""a	b"" )
`it's` ,
    @leftPad () @tag( 0123456789
    )int32 u8x , @lengthOf(A )float64	u128	@calculatedFrom(
    ""a\\"" ), //x
} options { //x
Pad = 0 u =
    ' ' }MetaData
    a1 { char[]
metadata	`// not a comment`
    // @lengthOf(
    ,
}	packet
Foo { @tag(
42 )	repeat BodyLength ,
    int8 metadata`{ , }` ,@leftPad ( // c
)// " ++ [27880; 37322]%N ++ runes_of_ascii "
@calculatedFrom(//
""`tick`""
    ) @calculatedFrom(	""a	b""	) u32 stringy , @lengthOf( roots ) zchar[ 0 ] msg_type @lengthOf( i64_
)`tab	here`	,i8 Header	`{ , }`
, char[ 7
] trueish @lengthOf(	packetx
    )
, u64	charz `
`
    ,
    zchar[
//	t
// c
65535]
repeatCount
`it's`
    ,match // @lengthOf(
calculatedFrom as calculatedFrom  {""a	b""
: roots 42	: MetaDataX	,
},
}")).
Eval vm_compute in ("<<<M1371>>>" ++ check (runes_of_ascii "// top
options // c0
{ LittleEndian // c2
= true // c4a
  // c4b
; // c5
} // c6a
  // c6b
packet // c7
Logon
    // c8
{
    // c9
u8 // c10a
  // c10b
x // c11a
  // c11b
, string // c13a
  // c13b
user // c14
, // c15a
  // c15b
} packet // c17a
  // c17b
Logout {
    // c19
u16
    // c20
reason
    // c21
, // c22
} // c23a
  // c23b
packet
    // c24
Empty // c25a
  // c25b
{ } root // c28
packet
    // c29
Frame // c30a
  // c30b
{
    // c31
u16
    // c32
MsgType ,
    // c34
u8 // c35a
  // c35b
BodyLen // c36a
  // c36b
@lengthOf( Body // c38
) , // c40a
  // c40b
u8
    // c41
flags // c42a
  // c42b
, // c43
Logon
    // c44
Body
    // c45
, // c46
u32 trailer // c48a
  // c48b
,
    // c49
} ")).
Eval vm_compute in ("<<<M1823>>>" ++ check (runes_of_ascii "packet stringy {
    repeat T {
        u64 lengthOf `tab	here`,
        repeat _x {
            match calculatedFrom as Header {
                [""" ++ [233]%N ++ runes_of_ascii "t" ++ [233]%N ++ runes_of_ascii """] : _x,
                // @lengthOf(
                [""packet""] : MetaDataX,
                255 : u128,
                42 : A,
                ""// no comment"" : body,
            },
            repeat crc Foo,
            charz,
        },
        zchar[1] i8i8 @calculatedFrom(""x y""),
        uint8x Pad `line1
                line2`,
    },
    @lengthOf(u)
    char[4294967296] crc,
    @tag(007)
    repeatCount,
    repeat char[] Header,
    @rightPad()
    char[] string_ `a\`,
}")).
Eval vm_compute in ("<<<M1357>>>" ++ check (runes_of_ascii "  options 
{
StringPrefixLenType
= 
u8
;
ArrayPrefixLenType=  u8 ;

FixedStringPadFromLeft
    =
false 
;
	FixedStringPadChar
=' '

;
    } packet Ack	{ 
char[]
	tag7,	}
	packet
    Reject 
{InSym61
    {

repeat

Ack
, zchar[4
]
	f1
, 
}
,}	packet
Logout{
char[

4

    ] clOrdID , 
}
	root
packet Cancel  {@leftPad
    ( 
' ')

char[

    10

]	price
,u8
	x
, u32 venue 
@lengthOf(
Body	) ,	match

    x  as Body  {
[ 
92 ,  175 ]
    : Logout ,  26
:
Reject

    , 144 
:
	Ack	, }
    ,u16  count	@calculatedFrom(
    ""CRC32""	)

    , }
")).
Eval vm_compute in ("<<<M1886>>>" ++ check (runes_of_ascii "
options
    // @lengthOf(

  {	} 
packet charz{

    @rightPad  (
' '

) @calculatedFrom( 
""a\\"" ) 
repeat
int crc `two words`
,string
	stringy
@calculatedFrom(""a	b""
    // " ++ [128512]%N ++ runes_of_ascii " emoji
) 
`// not a comment`, //
    char
	i8i8
,

    }MetaData
    crc
    { 	 // `tick` ""quote"" 'q'
crc

    i64_ `{ , }`,  
      // `tick` ""quote"" 'q'
  i32 // c
  u128
	,	// packet A { u8 x, }

BodyLength	Header ,char[0123456789  ] 
    /// triple
    //
    Packet	`u8 x,` ,
    uint8	repeatCount 
, //	t
    } ")).
Eval vm_compute in ("<<<M253>>>" ++ check (runes_of_ascii "packet
u	{ @lengthOf( //
zchar )match Header as len  {
    42// trailing space 
:
    x_y_z ,
    // " ++ [27880; 37322]%N ++ runes_of_ascii "
    },rootA	`
`	,	match u8x as pack {[ 1 , """" ]
    : float , ""abc""  :
string_ ,42 :
    i64_/// triple
,
1:zchar
// trailing space 
// " ++ [128512]%N ++ runes_of_ascii " emoji
} ,char[ 3 ] int ,
match options1 as u128 { [ ""`tick`"" ] : u
// packet A { u8 x, }
/// triple
, } ,	}
options {	len	= //	t
i8 // " ++ [27880; 37322]%N ++ runes_of_ascii "
; zchar = true; } packet T{char[ 42 ] asx@calculatedFrom(""CRC32"" ) , }
")).
Eval vm_compute in ("<<<M349>>>" ++ check (runes_of_ascii "root
packet body {
    @lengthOf(
int
// @lengthOf(
//x
)string tag
    ,	Pad BodyLength , Z9_ {
    /// triple
    u `` , zchar[ 7] u ,
},uint64 calculatedFrom, }packet
msg_type {match f32a// " ++ [128512]%N ++ runes_of_ascii " emoji
as pack
    { ""// no comment"" : trueish
, }
    // trailing space 
    , @calculatedFrom( // @lengthOf(
""abc""
)
    @leftPad (
' ') @calculatedFrom( """" //x
) // c
matchKey T ,// `tick` ""quote"" 'q'
}
")).
Eval vm_compute in ("<<<M1595>>>" ++ check (runes_of_ascii "MetaData Pad {
    i16 repeatCount,
    f32 pack `a\`,
}

packet f32a {
    @lengthOf(metadata)
    match msg_type as matchKey {
        00 : rootA,
    },
    @rightPad()
    match repeatCount as len {
        [10, ""x y""] : As,
        42 : i64_,
        """ ++ [128512]%N ++ runes_of_ascii """ : BodyLength,
        7 : f32a,
    },
    @lengthOf(BodyLength)
    repeat Foo `line1
    line2`,
}// @lengthOf(")).
Eval vm_compute in ("<<<M1927>>>" ++ check (runes_of_ascii "

  packet

int
	{
	T 	 /// triple

  {repeat
_x

,
}, 
i64_
_x  `
`, 
@calculatedFrom( ""x y"" )u32

    A 
,	match
a1

as
    i8i8
	{ [ 
""1"" 
,4294967296 
] :
a1

, 
"""" :a1
,007 :  a1,[ ""CRC32""

    ]
    :  Header
}
,
int64	As , int8
	a1
    ,	//
  char[]
float
`tab	here`	/// triple
  , repeat
	zchar[

1 ] u8x ,
	}  /// triple
")).
Eval vm_compute in ("<<<M1367>>>" ++ check (runes_of_ascii "options {
    LittleEndian = true;
}
packet Logon {
    u8 x,
}
packet Logout {
    u16 reason,
}
root packet Frame {
    u16 Kind,
    u16 Kind2,
    match Kind as Body {
        1 : Logon,
        [2, 3, 4] : Logout,
        100 : Logon,
    },
    match Kind2 as Trailer {
        0 : Logout,
    },
}
")).
Eval vm_compute in ("<<<M287>>>" ++ check (runes_of_ascii "root // trailing space 
packet int {
    f32a @calculatedFrom(""packet"" )
    `
`
    , } options
{
    rootA
    // @lengthOf(
    =
""\" ++ [233]%N ++ runes_of_ascii """; }
    packet
i8i8 {
    // trailing space 
    uint8
    uint8x
    @lengthOf( string_ ) //	t
, i32 tag //	t
@lengthOf(
Logon )  , }")).
Eval vm_compute in ("<<<M242>>>" ++ check (runes_of_ascii "packet len{} options	{ Z9_ =  4294967296;
_x =// a // b
0
    f32a = zchar[42	] ; } root packet
    // @lengthOf(
    BodyLength // trailing space 
{ }options {
string_ =u32	;	charz =
/// triple
// packet A { u8 x, }
string
; } packet len { }")).
Eval vm_compute in ("<<<M273>>>" ++ check (runes_of_ascii "root packet string_ { @leftPad (
    ' ' )  chars { repeat
zchar[ 0
]  tag ,string falsey,// " ++ [128512]%N ++ runes_of_ascii " emoji
repeat  char[ 007] body  `two words`
    , } , @calculatedFrom(
""// no comment"" ) Foo T
    , // " ++ [128512]%N ++ runes_of_ascii " emoji
}
")).
Eval vm_compute in ("<<<M1827>>>" ++ check (runes_of_ascii "packet A {
    match k as n {
        [
            ""a"", ""bb"", ""c c"", ""d"", ""e"",
            ""f"", ""g"", ""h"", ""i"", ""j"",
            ""k"", ""l""
        ] : B,
        2 : C,
    },
}")).
Eval vm_compute in ("<<<M431>>>" ++ check (runes_of_ascii "packet uint8x
{ match pack
    as msg_type	{
    0123456789 0123456789 :	float
}
,
} packet //	t
a1
    { } options {packetx
    = '\x00'	; u128= ""a	b""  ; }
")).
Eval vm_compute in ("<<<M411>>>" ++ check (runes_of_ascii "packet uint8x
{ match pack pack
    as msg_type	{
    0123456789 :	float
}
,
} packet //	t
a1
    { } options {packetx
    = '\x00'	; u128= ""a	b""  ; }
")).
Eval vm_compute in ("<<<M426>>>" ++ check (runes_of_ascii "packet uint8x
{ match pack
    as msg_type	{ {
    0123456789 :	float
}
,
} packet //	t
a1
    { } options {packetx
    = '\x00'	; u128= ""a	b""  ; }
")).
Eval vm_compute in ("<<<M547>>>" ++ check (runes_of_ascii "%packet uint8x
{ match pack
    as msg_type	{
    0123456789 :	float
}
,
} packet //	t
a1
    { } options {packetx
    = '\x00'	; u128= ""a	b""  ; }
")).
Eval vm_compute in ("<<<M507>>>" ++ check (runes_of_ascii "packet uint8x
{ match pack
    as msg_type	{
    0123456789 :	float
}
,
} packet //	t
a1
    { } options {packetx
    = '\x00'	u128 ;= ""a	b""  ; }
")).
Eval vm_compute in ("<<<M465>>>" ++ check (runes_of_ascii "packet uint8x
{ match pack
    as msg_type	{
    0123456789 :	float
}
,
} packet //	t

    { } options {packetx
    = '\x00'	; u128= ""a	b""  ; }
")).
Eval vm_compute in ("<<<M674>>>" ++ check (runes_of_ascii "// @lengthOf(
packet i8i8 { { u128 o , }
options { MetaDataX = true;
    BodyLength =""packet"" x_y_z= 007
crc //x
= ""abc"" ;
    msg_type =
i16 }")).
Eval vm_compute in ("<<<M675>>>" ++ check (runes_of_ascii "// @lengthOf(
packet i8i8 { u128 o , }
options { MetaDataX true =;
    BodyLength =""packet"" x_y_z= 007
crc //x
= ""abc"" ;
    msg_type =
i16 }")).
Eval vm_compute in ("<<<M1746>>>" ++ check (runes_of_ascii "packet A {
    match k as n {
        [
            007, 66, ""a"", ""bb"", ""d"",
            ""e"", ""g"", ""h""
        ] : B,
        2 : C,
    },
}")).
Eval vm_compute in ("<<<M1634>>>" ++ check (runes_of_ascii "
MetaData

leftPad {// c
  chars	MetaDataX ,
} packet
	repeatCount
	{	char[
	255
    ] uint8x 
`" ++ [233]%N ++ runes_of_ascii "` ,}

MetaData	pack
	{

As Foo 
,

}
")).
Eval vm_compute in ("<<<M1516>>>" ++ check (runes_of_ascii "  MetaData
leftPad {	chars
MetaDataX

, }packet repeatCount {char[ 255]
	uint8x `" ++ [233]%N ++ runes_of_ascii "` ,	}  MetaData 
pack {As
	Foo  ,
	}
	// c")).
Eval vm_compute in ("<<<M1760>>>" ++ check (runes_of_ascii "packet A {
    Inner {
        u8 x `x
        `,
        Deep {
            u8 y `x
            `,
        },
    },
}")).
Eval vm_compute in ("<<<M1172>>>" ++ check (runes_of_ascii "MetaData leftPad { chars MetaDataX , } packet repeatCount { char[ 255 ] uint8x `" ++ [233]%N ++ runes_of_ascii "`
// c
, } MetaData pack { As Foo , }")).
Eval vm_compute in ("<<<M1936>>>" ++ check (runes_of_ascii "  packet A
{
    match
	k

as

n{
	[ 1 , 
""bb""	,
    007

    , ""d"" ,	5 
, 
""f"" ,

    7  ]: B 2
    :  C }	,}")).
Eval vm_compute in ("<<<M908>>>" ++ check (runes_of_ascii "packet A {
  match k as n {
    [1, ""bb"", 007, ""d"", 5, ""f"", 7, ""h"", 9, ""j"", 11, ""l""] : B,
    2 : C
  },
}")).
Eval vm_compute in ("<<<M888>>>" ++ check (runes_of_ascii "packet A {
  match k as n {
    [""a"", ""bb"", 007, ""d"", ""e"", 66, ""g"", ""h"", 9, ""j""] : B,
    2 : C
  },
}")).
Eval vm_compute in ("<<<M904>>>" ++ check (runes_of_ascii "packet A {
  match k as n {
    [1, 22, 007, 4, 5, 66, 7, 8, 9, 10, 11, 12] : B,
    2 : C
  },
}")).
Eval vm_compute in ("<<<M593>>>" ++ check (runes_of_ascii "
packet
    asx {match u128 as lengthOf
{
//	t
// `tick` ""quote"" 'q'
255 255 : x ,
    } ,	}")).
Eval vm_compute in ("<<<M842>>>" ++ check (runes_of_ascii "packet A {
  match k as n {
    [""a"", ""bb"", ""c c"", ""d"", ""e"", ""f"", ""g""] : B
    2 : C
  },
}")).
Eval vm_compute in ("<<<M614>>>" ++ check (runes_of_ascii "
packet
    asx {match u128 as lengthOf
{
//	t
// `tick` ""quote"" 'q'
255 : x ,
    , }	}")).
Eval vm_compute in ("<<<M1729>>>" ++ check (runes_of_ascii "
packet
    Inner {
u8	a
    ,
	}root

packet 
P
{ Inner ref_obj ,	u8

    x 
,	}
")).
Eval vm_compute in ("<<<M116>>>" ++ check (runes_of_ascii "root packet Z9_ { repeat lengthOf
pack , repeat
    A {	repeatCount`doc` ,
    },	}")).
Eval vm_compute in ("<<<M834>>>" ++ check (runes_of_ascii "packet A {
  match k as n {
    [1, 22, ""c c"", 4, 5, ""f""] : B,
    2 : C
  },
}")).
Eval vm_compute in ("<<<M1732>>>" ++ check (runes_of_ascii "packet A {
    match k as n {
        [22, ""a""] : B,
        2 : C,
    },
}")).
Eval vm_compute in ("<<<M1099>>>" ++ check (runes_of_ascii "packet A {
    match k as n {
        1 : B // c
        , // d
    },
}")).
Eval vm_compute in ("<<<M739>>>" ++ check (runes_of_ascii "zchar[ i64 @calculatedFrom( match false ) Header char[ @lengthOf( :")).
Eval vm_compute in ("<<<M918>>>" ++ check (runes_of_ascii "packet A {
    B b `a
b`,
    B `a
b`,
    repeat B bs `a
b`,
}")).
Eval vm_compute in ("<<<M1712>>>" ++ check (runes_of_ascii "
// top
    	packet// c0
x 
{  // c2
	  }
        // c3
")).
Eval vm_compute in ("<<<M1408>>>" ++ check (runes_of_ascii "options {
    a = ""\
        "";
    b = ""\
        ""
}")).
Eval vm_compute in ("<<<M1214>>>" ++ check (runes_of_ascii "packet body { i32 f32a `{ , }` , }
// c
options { }")).
Eval vm_compute in ("<<<M693>>>" ++ check (runes_of_ascii "// @lengthOf(
packet i8i8 { u128 o , }
options")).
Eval vm_compute in ("<<<M772>>>" ++ check (runes_of_ascii "false int8 uint64 @lengthOf( , @leftPad :")).
Eval vm_compute in ("<<<M1905>>>" ++ check (runes_of_ascii "packet A {
    u8 x,// c
    u8 y,
}")).
Eval vm_compute in ("<<<M753>>>" ++ check (runes_of_ascii ":l" ++ [65533; 23]%N ++ runes_of_ascii "9" ++ [65533; 1549]%N ++ runes_of_ascii "F" ++ [65533; 65533; 65533; 65533]%N ++ runes_of_ascii "j)" ++ [65533; 65533; 27; 25; 65533; 65533; 261; 14; 65533]%N ++ runes_of_ascii "V" ++ [65533; 65533]%N ++ runes_of_ascii "4b-" ++ [65533; 65533]%N)).
Eval vm_compute in ("<<<M1809>>>" ++ check (runes_of_ascii "
MetaData 
u
{  
  // c
  }
")).
Eval vm_compute in ("<<<M1080>>>" ++ check (runes_of_ascii "options { a = 1 // a
 ; }")).
Eval vm_compute in ("<<<M153>>>" ++ check (runes_of_ascii "// trailing space 

")).
Eval vm_compute in ("<<<M1061>>>" ++ check (runes_of_ascii "packet A {
}
// c x")).
Eval vm_compute in ("<<<M1021>>>" ++ check (runes_of_ascii "packet A {
}
// c" ++ [8239]%N)).
Eval vm_compute in ("<<<M994>>>" ++ check (runes_of_ascii "packet A {
}// c" ++ [5760]%N)).
Eval vm_compute in ("<<<M762>>>" ++ check (runes_of_ascii "w|lL|]kVFeknSP9")).
Eval vm_compute in ("<<<M758>>>" ++ check (runes_of_ascii "LE]u'")).
Eval vm_compute in ("<<<M745>>>" ++ check ([65533]%N ++ runes_of_ascii "1")).
