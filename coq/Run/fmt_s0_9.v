From FP Require Import Lexer Parser ShowPT Digest Formatter.
From Coq Require Import String List NArith.
Import ListNotations.
Open Scope string_scope.
Set Printing Width 100000000.
Set Printing Depth 100000000.
Definition show_fres (r : fres) : string :=
  match r with
  | FOk s => "OK:" ++ sh_escaped s ""
  | FErr s => "ERR:" ++ sh_escaped s ""
  | FPanic p => "PANIC:" ++ p
  end.
Definition check (rs : list rune) : string := digest (show_fres (format_res rs)).
Definition full (rs : list rune) : string := show_fres (format_res rs).
Eval vm_compute in ("<<<M1357>>>" ++ check (runes_of_ascii "// top
options
    // c0
{ StringPrefixLenType = // c3a
  // c3b
u16 ; ArrayPrefixLenType // c6a
  // c6b
= // c7a
  // c7b
u32 // c8
; // c9
FixedStringPadFromLeft // c10
=
    // c11
true
    // c12
; // c13a
  // c13b
FixedStringPadChar // c14
= // c15a
  // c15b
'0'
    // c16
; // c17a
  // c17b
}
    // c18
packet Cancel // c20a
  // c20b
{ // c21
} // c22a
  // c22b
packet Party // c24a
  // c24b
{ // c25
} // c26
packet // c27a
  // c27b
Logon
    // c28
{ // c29
} packet // c31
Ack // c32
{ // c33
} packet
    // c35
Logout { // c37a
  // c37b
repeat // c38
InSym87 // c39a
  // c39b
{
    // c40
InClordid94 // c41a
  // c41b
{ // c42a
  // c42b
string // c43
clOrdID // c44
, // c45
} // c46a
  // c46b
,
    // c47
string
    // c48
Px // c49a
  // c49b
,
    // c50
i16 // c51
Qty // c52a
  // c52b
,
    // c53
repeat
    // c54
InCount71 // c55a
  // c55b
{ // c56
repeat
    // c57
Cancel // c58a
  // c58b
, // c59a
  // c59b
uint16 // c60a
  // c60b
Tail , // c62
char[
    // c63
2 // c64a
  // c64b
] // c65a
  // c65b
x
    // c66
, // c67a
  // c67b
repeat // c68a
  // c68b
string Ref
    // c70
,
    // c71
} // c72
, // c73
Cancel , } // c76
, // c77a
  // c77b
} // c78a
  // c78b
root // c79
packet // c80
Order
    // c81
{ // c82
repeat
    // c83
string tag7
    // c85
, // c86a
  // c86b
@leftPad // c87
( ' ' ) char[ // c91a
  // c91b
3 // c92
] // c93
Px , u8 // c96
Qty // c97
, match Qty // c100
as // c101
Body
    // c102
{ // c103
[
    // c104
28 // c105a
  // c105b
,
    // c106
62 // c107a
  // c107b
] // c108
:
    // c109
Logon ,
    // c111
148 // c112a
  // c112b
: Ack ,
    // c115
88 // c116
: Party
    // c118
, 184 : Cancel ,
    // c123
} // c124a
  // c124b
,
    // c125
u16 // c126
Note @calculatedFrom( // c128a
  // c128b
""CRC32"" // c129
) // c130
, } // c132
")).
Eval vm_compute in ("<<<M1580>>>" ++ check (runes_of_ascii "

  root
    packet metadata
	{
    @lengthOf(
options1)

    int32 zchar
	@calculatedFrom(""// no comment""

    )
	`
`
,

repeat
	calculatedFrom `it's`,	//
  match
BodyLength
	as	lengthOf  { 3  /// triple
	:leftPad	,} , repeat  u128  ,  char[
    10	]chars ,// @lengthOf(
	falsey @calculatedFrom(""x y"" )  // c
`{ , }`
,
	@tag(
42)

float64	i64_
// packet A { u8 x, }

	,
u8x @calculatedFrom( ""{,}""

    ) `two words`  
      //	t
    // trailing space 
  , 
@lengthOf(
T ) char[
    255
]pack `it's` 
,
	match 
MetaDataX
as

i64_  {  
      //
    """ ++ [28040; 24687]%N ++ runes_of_ascii """	// @lengthOf(

	:
Header

    ,

    0
//
  	: 
x_y_z

3
:// `tick` ""quote"" 'q'

int
""abc""
// @lengthOf(

:u8x

,

    } ,	}
    packet	i64_
{

@rightPad
(
    ) 	 /// triple
  	pack
    { 
match
	MetaDataX  as

    trueish
    {

1	// @lengthOf(
	:len
	00

:

falsey  // packet A { u8 x, }
  , """": x
,

    } 
,
}

,
    @tag( 1
) 
char[]
	int  @lengthOf( metadata )  // packet A { u8 x, }
	  ,  a1

@lengthOf(

    calculatedFrom ) ,@tag(	7
)
tag @lengthOf(
    u

)  ,
BodyLength 	 /// triple
	@calculatedFrom(
	""it's"" 
)
	`say ""hi""` , string msg_type , } MetaData	Logon { 
BodyLength 
_x
`it's`

,  int32	body  , 

// trailing space 
}
    root packet
    body
{
}

")).
Eval vm_compute in ("<<<M1355>>>" ++ check (runes_of_ascii "options	{ 
StringPrefixLenType 
=

    u64; ArrayPrefixLenType =u32 ;FixedStringPadFromLeft=	false ;
} 
packet	Party {
    zchar[ 7	]OrderId
	, InTail6

{  repeat 
char[

1 ]

msgKind
,
char[

    3 ]	Tail
	,
char[
3
]
    Flags , i16  tag7
    , }  ,
	@rightPad
	(

'0'
) char[  12
    ]clOrdID
	,
    }

    packet
	Quote
{ @leftPad

    ('0'  )

char[
    11]  price	,	repeat InCount7
{
i32

x,
Party
    ,  u8 Ref,
    u8 
tag7

    , 
} , char[]
    seqNo,

    Party 
,}
packet  Logon

    {

@rightPad 
(	'\x00'

    ) 
char[

5 
]	Note 
,	i16

    sym ,InPrice72
{
    char[

    9] Ref

    ,zchar[ 1
] venue ,

    }
,  char[]
clOrdID ,	}
	root
packet	Reject

{
repeat

    Logon	,

    @leftPad

    (	' ' ) char[  4

    ]

    seqNo

, zchar[ 5
	]
Acct ,
	u32

x 
,u16  f1
	@lengthOf(Body

)

    , 
match
x as
Body
{

    [  169 ,

    74	]	: Quote , 45
: 
Party
, 7 
: Logon

    ,
}

    ,

} ")).
Eval vm_compute in ("<<<M1880>>>" ++ check (runes_of_ascii "options {
    FixedStringPadFromLeft = true;
    FixedStringPadChar = '0';
}

packet Leg {
    repeat InSym93 {
        zchar[3] Acct,
        string Side2,
        i32 Flags,
        f32 Note,
        i32 msgKind,
    },
    f64 Note,
    uint16 Px,
}

packet Quote {
    zchar[2] OrderId,
}

packet Ack {
    repeat string lastPx,
    zchar[4] price,
    uint32 OrderId,
    Quote,
    int8 Acct,
}

packet Fill {
    repeat Leg,
    @rightPad('0')
    char[11] Note,
    f64 Px,
    @rightPad('\x00')
    char[5] Flags,
    zchar[9] x,
    string msgKind,
}

root packet Order {
    Leg,
    repeat Ack,
    @rightPad('\x00')
    char[3] Side2,
    repeat char[1] seqNo,
    u16 clOrdID,
    match clOrdID as Body {
        198 : Leg,
        23 : Quote,
        13 : Ack,
        159 : Fill,
    },
    u32 venue @calculatedFrom(""CR\
    C32""),
}")).
Eval vm_compute in ("<<<M1454>>>" ++ check (runes_of_ascii "packet calculatedFrom {
    // a // b
    string charz `two words`,
}

packet stringy {
    @lengthOf(msg_type)
    crc,
    @leftPad('0')
    crc @lengthOf(u128),
    @leftPad(' ')
    match x_y_z as rootA {
        [3, 255] : int,
        ""1"" : o,
        // a // b
        10 : tag,
        // c
        10 : Header,
        3 : a1,
        """ ++ [128512]%N ++ runes_of_ascii """ : packetx,
    },
    match o as x {
        ""a	b"" : u8x,
    },
    @rightPad()
    repeat u packetx,
    T,
    repeat Logon,
    T {
        repeat x_y_z,// a // b
        i8 crc `two words`,
        char[] calculatedFrom @calculatedFrom(""x y""),
    },
    roots calculatedFrom,
    @lengthOf(asx)
    repeat x_y_z {
        T matchKey,
    },
}

options {
    float = char[1];
    msg_type = i8
    x = zchar[7];
    f32a = ""\n""
}")).
Eval vm_compute in ("<<<M1416>>>" ++ check (runes_of_ascii "packet // packet A { u8 x, }
		u8x {
}  root
packet
    matchKey
{ repeat 
zchar[ 0123456789  ]// packet A { u8 x, }
	int
, 
char[ 
    // `tick` ""quote"" 'q'
      // a // b
4294967296 ]asx`{ , }`  ,

    repeat 
i8i8, repeat Packet {
    repeat leftPad{	f32

    u128

    @lengthOf(
	As ) ,
	body
	`two words`, 	 // packet A { u8 x, }
  rootA

    Pad,  }

    ,char[00
    ]msg_type

`tab	here`// " ++ [128512]%N ++ runes_of_ascii " emoji
  , repeat
//x
      i64_`doc`
, zchar x_y_z
, }

    ,} root

    packet int	{repeat f32a

{repeat
f32a  asx 
`u8 x,`
    , 
}, @lengthOf( 
// @lengthOf(
	//	t
	msg_type// packet A { u8 x, }
	)

    body
,  
  // c
//
Z9_ 	 // c

	zchar	`a\` //x
,}  //x
 
")).
Eval vm_compute in ("<<<M23>>>" ++ check (runes_of_ascii "MetaData lengthOf
{ }
MetaData falsey { // " ++ [27880; 37322]%N ++ runes_of_ascii "
falsey i64_
`
`	, zchar[ 255	] u `two words` ,	BodyLength int , matchKey	i8i8 `crlf
line` ,uint8x	asx ,
char[]options1 ,	}packet
    asx  {	@lengthOf( o
)@calculatedFrom(//
""\n"" ) char[] lengthOf  `two words`// c
,
    BodyLength `" ++ [233]%N ++ runes_of_ascii "` ,repeat u8x len // " ++ [27880; 37322]%N ++ runes_of_ascii "
`doc`
, int
@calculatedFrom(
""a\\""
    ) `line1
line2`,@lengthOf( MetaDataX
)
Packet packetx
    // `tick` ""quote"" 'q'
    , a1 {
    match Logon	as
// " ++ [128512]%N ++ runes_of_ascii " emoji
/// triple
len {	4294967296
:matchKey , [
1  , 10 , 10 ,
""{,}"" , """ ++ [233]%N ++ runes_of_ascii "t" ++ [233]%N ++ runes_of_ascii """ , 0123456789]: leftPad ,  3
    :msg_type ,
//	t
//x
1 : As
,} ,
    chars , }
    ,}
")).
Eval vm_compute in ("<<<M1680>>>" ++ check (runes_of_ascii "packet
A { 	 // c2a
// c2b
    	u8 
      // c3

	a, 
  // c5
      } 	 // c6a
// c6b
  packet
	B  // c8
{ // c9
  u16 

    // c10
	  b 	 // c11
    	,  // c12

} 	 // c13a
    // c13b
  root// c14a
      // c14b
    packet 	 // c15a

  // c15b
  P 
    // c16

	{u8	// c18a
  // c18b
      K	// c19
, match // c21

K// c22a

// c22b
  as// c23
M 	 // c24
  {  // c25a
  // c25b
		1

    : 	 // c27a
// c27b
	A  // c28a
	  // c28b
    , 
	    // c29
	1 
  // c30
    :
	B  
      // c32
	  , 
      // c33
    } 	 // c34a
  // c34b
, 
    // c35
  }
")).
Eval vm_compute in ("<<<M1440>>>" ++ check (runes_of_ascii "root packet lengthOf {
    char[3] Pad,
    @rightPad('0')
    crc `doc`,
    i32 uint8x,
    zchar {
        match Logon as int {
            [0, """ ++ [233]%N ++ runes_of_ascii "t" ++ [233]%N ++ runes_of_ascii """] : o,
            ""// no comment"" : len,
        },
        asx {
            //x
            char[10] u128 @lengthOf(x_y_z) `say ""hi""`,
        },
        char[1] A,
        u chars ``,
    },
    repeat matchKey {
        //x
        string trueish @calculatedFrom(""a	b""),
        repeat i8 msg_type `it's`,
    },/// triple
}

packet float {
}")).
Eval vm_compute in ("<<<M264>>>" ++ check (runes_of_ascii "options  {
    float
=
    char[]
} // packet A { u8 x, }
root packet
    Logon
    { @tag( 1 ) // a // b
@calculatedFrom( ""packet""
// a // b
// " ++ [128512]%N ++ runes_of_ascii " emoji
)zchar[ 3 ]
// c
//x
Z9_ ,@lengthOf( charz )
@calculatedFrom( ""1""
)match
roots
as int
    { ""a	b""
:MetaDataX , }
    ,@calculatedFrom( ""a\""b""	)
    match
    asx as lengthOf { """ ++ [128512]%N ++ runes_of_ascii """
    : _x,
[ 255 ] : BodyLength
    ,3 :
    u8x , 0123456789:T} ,
    len@lengthOf(leftPad )`u8 x,` , } // @lengthOf(")).
Eval vm_compute in ("<<<M1441>>>" ++ check (runes_of_ascii "// top
MetaData Packet {
    // c2
}

// c3
packet charz {
    // c6
    Foo asx `it's`,
    // c10
    @lengthOf(T)
    // c13
    @calculatedFrom("""")
    // c16
    @calculatedFrom(""x y"")
    // c19
    zchar[007] repeatCount @lengthOf(int) `a\`,
    // c28
    i8 string_,
    // c31
    repeat options1 Pad,
    // c35
}

// c36
root packet Packet {
    // c40
    int8 float `doc`,
    // c44
}
// c45")).
Eval vm_compute in ("<<<M1624>>>" ++ check (runes_of_ascii "// top
root packet _x {
    match Foo as Z9_ {
        // c8
        ""a	b"" : Pad,
        // c12
    },// c14
    repeat x `line1
        line2`,// c18
    @rightPad(' ')
    // c22
    @calculatedFrom(""a\\"")
    // c25a
    // c25b
    metadata MetaDataX,
    @tag(0)
    // c31
    Logon int ``,
    // c35
}// c36

options {
    // c38
    T = '\x00'
}// c42a
// c42b")).
Eval vm_compute in ("<<<M77>>>" ++ check (runes_of_ascii "
packet	float { char[ 42] int`say ""hi""` , @tag( 255// packet A { u8 x, }
) match// a // b
stringy  as
    x { [ 00 ,42
]: i64_ 42 : matchKey , [ ""1"" , 1
, 42
    ,
""" ++ [28040; 24687]%N ++ runes_of_ascii """ , ""abc"" ,
// a // b
//x
1 // trailing space 
]
: //
roots
,
    65535
: trueish ,	} ,@calculatedFrom( ""{,}"" )body @calculatedFrom(""" ++ [28040; 24687]%N ++ runes_of_ascii """ ) , zchar[
    007 ] lengthOf, }
")).
Eval vm_compute in ("<<<M368>>>" ++ check (runes_of_ascii "MetaData T
    {
uint8
float ,
repeatCount x ,	char[ 10  ] asx /// triple
, char[ 00]
metadata
    `" ++ [233]%N ++ runes_of_ascii "` ,u8x asx//	t
, } MetaData
    trueish {	charz	string_ `crlf
line`,  zchar[ 42 ]	_x
//
// `tick` ""quote"" 'q'
, }packet o { char[]u8x
    @calculatedFrom(""abc""  ) , } options{ x
=
    255 ; u // " ++ [27880; 37322]%N ++ runes_of_ascii "
= '0'	}
")).
Eval vm_compute in ("<<<M1751>>>" ++ check (runes_of_ascii "options {
    A = i16;
}

/// triple
root packet rootA {
    @tag(7)
    int16 pack,
    Logon @calculatedFrom(""a\""b"") `{ , }`,
    @rightPad('\x00')
    //
    //
    char[7] options1 `tab	here`,
    @calculatedFrom(""" ++ [233]%N ++ runes_of_ascii "t" ++ [233]%N ++ runes_of_ascii """)
    int @lengthOf(Packet) `crlf
        line`,
}")).
Eval vm_compute in ("<<<M267>>>" ++ check (runes_of_ascii "packet trueish{
@leftPad (// @lengthOf(
'0'  ) @tag(  3/// triple
) @tag(
7 ) repeat
//x
// @lengthOf(
matchKey
{ u32 u,
}  , @lengthOf( chars
) @calculatedFrom(
""a	b"") @tag( 0123456789
    )zchar[255 ]Pad ,  } root
    packet u { }
")).
Eval vm_compute in ("<<<M1710>>>" ++ check (runes_of_ascii "  root packet 
As 
{  //

char	charz
    @lengthOf(

    packetx ) `{ , }`

    ,  //

char[ 0123456789
    ] MetaDataX
    // " ++ [27880; 37322]%N ++ runes_of_ascii "
    // `tick` ""quote"" 'q'
    `it's`,

    zchar[
7

]
	o
	`u8 x,`
,

} ")).
Eval vm_compute in ("<<<M169>>>" ++ check (runes_of_ascii "root packet
    // `tick` ""quote"" 'q'
    string_ { repeat
char[00]  rootA
    ,
// " ++ [128512]%N ++ runes_of_ascii " emoji
// " ++ [27880; 37322]%N ++ runes_of_ascii "
}
    MetaData u {i32 options1,
}MetaData
rootA
{
u16  chars	,
/// triple
//x
}
")).
Eval vm_compute in ("<<<M1841>>>" ++ check (runes_of_ascii "packet crc {
    @leftPad()
    repeat charz float,
}

root packet options1 {
    @tag(65535)
    packetx {
        u128,
        f32 a1,
    },
}
// trailing space ")).
Eval vm_compute in ("<<<M195>>>" ++ check (runes_of_ascii "MetaData msg_type {} root packet
A{ repeat i32 leftPad
`it's`
,
    //x
    }  root
    packet a1
    {char[
    // c
    255 ]
    falsey // @lengthOf(
, }")).
Eval vm_compute in ("<<<M403>>>" ++ check (runes_of_ascii "packet uint8x
007 match pack
    as msg_type	{
    0123456789 :	float
}
,
} packet //	t
a1
    { } options {packetx
    = '\x00'	; u128= ""a	b""  ; }
")).
Eval vm_compute in ("<<<M550>>>" ++ check (runes_of_ascii "packet uint8x
{ match pack
    as msg_type	{
    0123456789 :	caf" ++ [233]%N ++ runes_of_ascii "_1
}
,
} packet //	t
a1
    { } options {packetx
    = '\x00'	; u128= ""a	b""  ; }
")).
Eval vm_compute in ("<<<M512>>>" ++ check (runes_of_ascii "packet uint8x
{ match pack
    as msg_type	{
    0123456789 :	float
}
,
} packet //	t
a1
    { } options {packetx
    = '\x00'	; =u128 ""a	b""  ; }
")).
Eval vm_compute in ("<<<M503>>>" ++ check (runes_of_ascii "packet uint8x
{ match pack
    as msg_type	{
    0123456789 :	float
}
,
} packet //	t
a1
    { } options {packetx
    = char	; u128= ""a	b""  ; }
")).
Eval vm_compute in ("<<<M691>>>" ++ check (runes_of_ascii "// @lengthOf(
packet i8i8 { u128 o , }
options f64 MetaDataX = true;
    BodyLength =""packet"" x_y_z= 007
crc //x
= ""abc"" ;
    msg_type =
i16 }")).
Eval vm_compute in ("<<<M715>>>" ++ check (runes_of_ascii "// @lengthOf(
packet i8i8 { u128 o , options
} { MetaDataX = true;
    BodyLength =""packet"" x_y_z= 007
crc //x
= ""abc"" ;
    msg_type =
i16 }")).
Eval vm_compute in ("<<<M1845>>>" ++ check (runes_of_ascii "packet A {
    match k as n {
        [
            ""a"", ""bb"", ""c c"", ""d"", ""e"",
            ""f"", ""g""
        ] : B,
        2 : C,
    },
}")).
Eval vm_compute in ("<<<M1494>>>" ++ check (runes_of_ascii "root packet As {
    //
    char charz @lengthOf(packetx) `{ , }`,//
    char[0123456789] MetaDataX `it's`,
    zchar[7] o `u8 x,`,
}")).
Eval vm_compute in ("<<<M1431>>>" ++ check (runes_of_ascii "packet A {
    match k as n {
        [
            1, 22, ""c c"", 4, 5,
            ""f""
        ] : B,
        2 : C,
    },
}")).
Eval vm_compute in ("<<<M1887>>>" ++ check (runes_of_ascii "MetaData Packet {
    u lengthOf `say ""hi""`,
}

MetaData metadata {
    crc chars `crlf
        line`,
    asx f32a,
}")).
Eval vm_compute in ("<<<M1171>>>" ++ check (runes_of_ascii "MetaData leftPad { chars MetaDataX , } packet repeatCount { char[ 255 ] uint8x `" ++ [233]%N ++ runes_of_ascii "` // c
, } MetaData pack { As Foo , }")).
Eval vm_compute in ("<<<M1852>>>" ++ check (runes_of_ascii "MetaData zchar {
    uint8 _x `doc`,
    float64 metadata `doc`,
    zchar[42] x_y_z,
    zchar[3] Logon `{ , }`,
}")).
Eval vm_compute in ("<<<M880>>>" ++ check (runes_of_ascii "packet A {
  match k as n {
    [""a"", ""bb"", ""c c"", ""d"", ""e"", ""f"", ""g"", ""h"", ""i"", ""j""] : B,
    2 : C
  },
}")).
Eval vm_compute in ("<<<M158>>>" ++ check (runes_of_ascii "
MetaData charz { As u128 , Logon options1 `say ""hi""` ,
    zchar[ 0
// @lengthOf(
//
]Logon ,
    }
")).
Eval vm_compute in ("<<<M479>>>" ++ check (runes_of_ascii "packet uint8x
{ match pack
    as msg_type	{
    0123456789 :	float
}
,
} packet //	t
a1
    {")).
Eval vm_compute in ("<<<M862>>>" ++ check (runes_of_ascii "packet A {
  match k as n {
    [""a"", ""bb"", 007, ""d"", ""e"", 66, ""g"", ""h""] : B,
    2 : C
  },
}")).
Eval vm_compute in ("<<<M598>>>" ++ check (runes_of_ascii "
packet
    asx {match u128 as lengthOf
{
//	t
// `tick` ""quote"" 'q'
255 : : x ,
    } ,	}")).
Eval vm_compute in ("<<<M555>>>" ++ check (runes_of_ascii "
asx
    packet {match u128 as lengthOf
{
//	t
// `tick` ""quote"" 'q'
255 : x ,
    } ,	}")).
Eval vm_compute in ("<<<M857>>>" ++ check (runes_of_ascii "packet A {
  match k as n {
    [1, ""bb"", 007, ""d"", 5, ""f"", 7, ""h""] : B
    2 : C
  },
}")).
Eval vm_compute in ("<<<M1657>>>" ++ check (runes_of_ascii "//
packet metadata {
}

MetaData chars {
    char[42] leftPad `crlf
        line`,
}")).
Eval vm_compute in ("<<<M853>>>" ++ check (runes_of_ascii "packet A {
  match k as n {
    [1, 22, 007, 4, 5, 66, 7, 8] : B
    2 : C
  },
}")).
Eval vm_compute in ("<<<M269>>>" ++ check (runes_of_ascii "options
{ Z9_ ='\x00'  } packet trueish
{ // " ++ [128512]%N ++ runes_of_ascii " emoji
u16 calculatedFrom
, }")).
Eval vm_compute in ("<<<M822>>>" ++ check (runes_of_ascii "packet A {
  match k as n {
    [1, 22, ""c c"", 4, 5] : B
    2 : C
  },
}")).
Eval vm_compute in ("<<<M791>>>" ++ check (runes_of_ascii "packet A {
  match k as n {
    [1, ""bb"", 007] : B,
    2 : C
  },
}")).
Eval vm_compute in ("<<<M155>>>" ++ check (runes_of_ascii "options
{calculatedFrom
= ""abc""
;float=i16
} // trailing space ")).
Eval vm_compute in ("<<<M1683>>>" ++ check (runes_of_ascii "packet msg_type {
    repeat zchar[007] Logon `two words`,
}")).
Eval vm_compute in ("<<<M148>>>" ++ check (runes_of_ascii "options
{
    a1	=""packet""// a // b
; } // @lengthOf(")).
Eval vm_compute in ("<<<M1211>>>" ++ check (runes_of_ascii "packet body { i32 f32a `{ , }` , // c
} options { }")).
Eval vm_compute in ("<<<M1125>>>" ++ check (runes_of_ascii "// top
MetaData // c0
u // c1
{ // c2
} // c3
")).
Eval vm_compute in ("<<<M772>>>" ++ check (runes_of_ascii "false int8 uint64 @lengthOf( , @leftPad :")).
Eval vm_compute in ("<<<M1081>>>" ++ check (runes_of_ascii "options { a = 1; // a
 b = 2 // b
 }")).
Eval vm_compute in ("<<<M105>>>" ++ check (runes_of_ascii "// " ++ [128512]%N ++ runes_of_ascii " emoji
MetaData crc
    {  }")).
Eval vm_compute in ("<<<M988>>>" ++ check (runes_of_ascii "packet A {
 u8 x `d" ++ [160]%N ++ runes_of_ascii "`, // c" ++ [160]%N ++ runes_of_ascii "
}")).
Eval vm_compute in ("<<<M581>>>" ++ check (runes_of_ascii "
packet
    asx {match u128")).
Eval vm_compute in ("<<<M380>>>" ++ check (runes_of_ascii "root packet	Packet { }
")).
Eval vm_compute in ("<<<M1109>>>" ++ check (runes_of_ascii "MetaData tag { // c
}")).
Eval vm_compute in ("<<<M278>>>" ++ check (runes_of_ascii "packet Packet { }
")).
Eval vm_compute in ("<<<M1052>>>" ++ check (runes_of_ascii "// c" ++ [65279]%N ++ runes_of_ascii "
packet A {
}")).
Eval vm_compute in ("<<<M1224>>>" ++ check (runes_of_ascii "// c
packet x { }")).
Eval vm_compute in ("<<<M742>>>" ++ check (runes_of_ascii "'j=KG=k_)FDOq")).
Eval vm_compute in ("<<<M1005>>>" ++ check (runes_of_ascii "// c" ++ [8202]%N)).
Eval vm_compute in ("<<<M734>>>" ++ check ([65279]%N)).
