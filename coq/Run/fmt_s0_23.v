From FP Require Import Lexer Parser ShowPT Digest Formatter.
From Coq Require Import String List NArith.
Import ListNotations.
Open Scope string_scope.
Set Printing Width 100000000.
Set Printing Depth 100000000.
Definition show_fres (r : fres) : string :=
  match r with
  | FOk s => "OK:" ++ sh_escaped s ""
  | FErr s => "ERR:" ++ sh_escaped s ""
  | FPanic p => "PANIC:" ++ p
  end.
Definition check (rs : list rune) : string := digest (show_fres (format_res rs)).
Definition full (rs : list rune) : string := show_fres (format_res rs).
Eval vm_compute in ("<<<M1618>>>" ++ check (runes_of_ascii "

  // top
  packet 	 // c0a
	// c0b
	  Frame // c1a
  	// c1b

{ // c2a
// c2b

u8 	 // c3
	HK  // c4
	, 
  // c5
  u8
// c6
	BK 	 // c7
,	// c8a
	  // c8b
  u8	// c9
	TK // c10

	,	// c11a

  // c11b
	match // c12
	HK
	as  Hdr// c15a
// c15b
    { // c16
1  
  // c17
:
    // c18
	HdrA
,
    2	// c21
	: 
// c22
      HdrB // c23
  ,// c24a

  // c24b
} ,
	    // c26
match

    // c27

BK	as 

// c29
    	Body	// c30

	{
    // c31

	1:// c33a

  // c33b

  BodyA  // c34
, 
        // c35
	  2 :
	    // c37
    	BodyB , 
}	// c40a
// c40b
	, // c41
    match	// c42
TK 
      // c43
  as // c44

Trl  // c45a

	// c45b
    { // c46a
	// c46b
	1 

// c47
  :// c48
TrlA
, 	 // c50a

  // c50b
	}	// c51a
    // c51b
,	// c52a
  // c52b
	} // c53a
  // c53b

packet	HdrA  // c55

{ u8// c57
  a// c58a
      // c58b
	,// c59

	}// c60
packet  // c61a
// c61b

	HdrB
	// c62

	{	// c63a

// c63b
    u16

// c64
b// c65
  	,// c66
  } 	 // c67

	packet // c68
      BodyA 
{	// c70a
    // c70b
	u32
    // c71
c // c72
  	,	}  // c74
packet 
// c75
  	BodyB

{ 
        // c77
u64	// c78a
      // c78b
  d// c79
,// c80a
    // c80b
	}// c81a

// c81b
  packet
TrlA // c83a
	// c83b
	{
// c84

  u8
e 	 // c86
	, 
// c87
}  // c88a
	// c88b
  root  // c89a
  	// c89b
    packet
    // c90
    	Msg

    // c91
    	{ Frame ,	// c94a
      // c94b
      u8  // c95a
		// c95b
    	x	// c96a
// c96b
      ,	// c97a
// c97b
    }
    // c98
")).
Eval vm_compute in ("<<<M1430>>>" ++ check (runes_of_ascii "
packet o
// trailing space 
//x
{repeat
	pack
stringy
	`two words`

, char[ 1 ]
leftPad , }
	/// triple
// @lengthOf(
MetaData  msg_type { zchar[
1
] Pad `" ++ [28040; 24687; 31867; 22411]%N ++ runes_of_ascii "`,uint32	//x
	charz 	 //

`a\` ,

A
    u8x`// not a comment`
,

    // `tick` ""quote"" 'q'
	} 
packet
options1
    {  @calculatedFrom(	""" ++ [233]%N ++ runes_of_ascii "t" ++ [233]%N ++ runes_of_ascii """)
@rightPad
()Pad
    @lengthOf(	// packet A { u8 x, }

pack )``,match	A
    as a1
{255:
msg_type
    , } , 
// " ++ [27880; 37322]%N ++ runes_of_ascii "

//
    @lengthOf(
tag
	)

@tag(00

    ) 
@rightPad	(  ' ')match 
Header
as

f32a
{
	"""" 
: float	,
} // @lengthOf(
  	,

char[]

T @calculatedFrom( 
    // packet A { u8 x, }
""packet"" )

    , repeat
    asx/// triple
    msg_type `crlf
line`,
@calculatedFrom(""\" ++ [233]%N ++ runes_of_ascii """
	)
@tag( 	 // trailing space 
	7 )  int64
o
	`line1
line2` ,
// trailing space 
  }	// " ++ [128512]%N ++ runes_of_ascii " emoji
	root	packet  // packet A { u8 x, }
    crc
    {int8 body

@lengthOf( matchKey )

`two words` ,
//	t

@lengthOf(u8x  ) zchar[

0123456789
]  i8i8
,

    }

MetaData a1 {falsey _x `
`, char[]body	`" ++ [28040; 24687; 31867; 22411]%N ++ runes_of_ascii "` 
, 
	// packet A { u8 x, }
	//
zchar[
    42]
	trueish
    `
`  , float

trueish  ,
	metadata //x
		o`{ , }`,

    }")).
Eval vm_compute in ("<<<M1523>>>" ++ check (runes_of_ascii "  options 
{
FixedStringPadFromLeft=

    true
    ; FixedStringPadChar =  '0' 
;  }
	packet Leg	{
    InPrice0 {
	repeat
string	clOrdID

    , int16
msgKind ,
zchar[
	5
    ]	Px	,	}
, i16
f1
    , repeat f64
Side2 
,string Acct ,

}

packet	Cancel  {
zchar[
	4 
] 
clOrdID ,string 
seqNo,
Leg
	,	@leftPad
( 
'0'	)

char[
	11]

    OrderId

,
}packet	Quote	{

repeat  char[ 4	]
sym
,
f64  OrderId

, repeat	Leg
	, repeat

i64

    f1 , 
int16 Note ,	zchar[	3	]
count
	,  } root
	packet
Ack
{@leftPad
( 
' ' 
)
	char[ 10
	]
    sym ,InPx60{
    Cancel  ,repeat 
char[ 1]f1	,
    string Tail,
    repeat

InNote55
    {  int8 count

    ,
    f64  f1 ,  repeat Cancel ,	} ,
    char[] 
tag7

    ,

    repeat 
string 
msgKind, }

    , u8
lastPx	,
match  lastPx
as
    Body
{ 152:Quote

,  173

    : 
Cancel

    , 4

    :  Leg
	,
}
,u16 Ref @calculatedFrom( ""CR\
C32"" ),

}

")).
Eval vm_compute in ("<<<M135>>>" ++ check (runes_of_ascii "
packet crc
    {@tag(	0)  @calculatedFrom(
    ""{,}""	) @rightPad ( ' ')	repeat uint8 lengthOf // a // b
,
    char[	42 ] float ,
    repeat a1 // packet A { u8 x, }
{ match
x_y_z as charz
    { [
00
, 4294967296,
//x
// a // b
""it's"",""" ++ [28040; 24687]%N ++ runes_of_ascii """ ] ://x
zchar,	[
    ""packet"" ,// c
""x y"",
""it's"" ,""abc"" ,
""it's""
    ] :string_ , 0 : Z9_
}
    // `tick` ""quote"" 'q'
    , // `tick` ""quote"" 'q'
} ,match u8x
as//x
pack {[ 0123456789
, ""x y""
] : // c
trueish /// triple
, }	,
    @calculatedFrom( ""a\""b""
    // c
    ) repeat string_ `a\`,
packetx@calculatedFrom(
""`tick`"" ) , int64 chars `say ""hi""` , @calculatedFrom(
""a	b"" )@leftPad (  '\x00'
) @lengthOf(
    repeatCount)u64
    falsey@calculatedFrom( ""\" ++ [233]%N ++ runes_of_ascii """
    )
,
repeat Header { repeat
    metadata , char[] chars`" ++ [28040; 24687; 31867; 22411]%N ++ runes_of_ascii "` , zchar[ 10] x_y_z `a\` ,	},
// trailing space 
// c
}
")).
Eval vm_compute in ("<<<M1896>>>" ++ check (runes_of_ascii "  options  {

    StringPrefixLenType

=

    u16

    ; ArrayPrefixLenType =u32 
;
FixedStringPadFromLeft 
=true
;

FixedStringPadChar
=
    '0'  ;
}
	packet 
Cancel  {}
	packet Party

    { } packet  Logon

    {}packet
    Ack{
    }
    packet
Logout

    {	repeat  InSym87
{ InClordid94
{ string
clOrdID 
,	}
	,

string  Px
	,
    i16
Qty ,

    repeat
	InCount71
{
    repeat	Cancel
,
uint16 Tail, 
char[ 
2  ] x ,
	repeat
    string

Ref
, 
},

    Cancel,},
    }
root 
packet 
Order { repeat
string

    tag7
, @leftPad

    (  ' '	) 
char[ 3

]  Px,

u8 Qty
,	match
Qty as 
Body  {

    [  28	, 
62 ]:Logon,

148  :Ack
	,88 
:	Party
,
184
    : Cancel  ,
}
    , u16
Note @calculatedFrom(  ""CRC32"" )
, }

")).
Eval vm_compute in ("<<<M1120>>>" ++ check (runes_of_ascii "// top
root
    // c0
packet
    // c1
_x
    // c2
{
    // c3
match
    // c4
Foo
    // c5
as
    // c6
Z9_
    // c7
{
    // c8
""a	b""
    // c9
:
    // c10
Pad
    // c11
,
    // c12
}
    // c13
,
    // c14
repeat
    // c15
x
    // c16
`line1
line2`
    // c17
,
    // c18
@rightPad
    // c19
(
    // c20
' '
    // c21
)
    // c22
@calculatedFrom(
    // c23
""a\\""
    // c24
)
    // c25
metadata
    // c26
MetaDataX
    // c27
,
    // c28
@tag(
    // c29
0
    // c30
)
    // c31
Logon
    // c32
int
    // c33
``
    // c34
,
    // c35
}
    // c36
options
    // c37
{
    // c38
T
    // c39
=
    // c40
'\x00'
    // c41
}
    // c42
")).
Eval vm_compute in ("<<<M1118>>>" ++ check (runes_of_ascii "MetaData Packet
    // c1
{ // c2
} packet // c4a
  // c4b
charz // c5a
  // c5b
{ // c6a
  // c6b
Foo // c7
asx `it's` ,
    // c10
@lengthOf( // c11
T )
    // c13
@calculatedFrom(
    // c14
"""" // c15
)
    // c16
@calculatedFrom(
    // c17
""x y"" // c18
) // c19a
  // c19b
zchar[ 007 // c21
] repeatCount @lengthOf(
    // c24
int // c25
)
    // c26
`a\`
    // c27
, // c28a
  // c28b
i8
    // c29
string_ // c30a
  // c30b
, // c31
repeat // c32
options1 // c33
Pad
    // c34
, } // c36a
  // c36b
root packet
    // c38
Packet { int8 // c41
float `doc` // c43
, // c44
}
    // c45
")).
Eval vm_compute in ("<<<M1423>>>" ++ check (runes_of_ascii "packet
rootA { options1
_x,u64	Header 
,
} packet
	lengthOf
{ 
@rightPad (
    ' ')
@lengthOf(
    u128 	 // trailing space 
    )
@calculatedFrom(""a\""b""
) 
A
{
string
i64_

`it's` , 
    //	t
    	// trailing space 
	uint8  body, 
match
pack as	u { 

// @lengthOf(
    // trailing space 
	00
    :
charz	,
    00
    : int ,

    3

: falsey

255 
: body
,
    [  0123456789

] :
x_y_z

    , 
// a // b
	//
  } 
, 
}
    ,
    }

    MetaData  chars
{
u128 zchar  , char[42
	]

    // a // b
	  // a // b
	  metadata
    ,
	}
")).
Eval vm_compute in ("<<<M334>>>" ++ check (runes_of_ascii "MetaData pack {
int16 rootA `{ , }` ,
    //	t
    int16 // c
x,// " ++ [27880; 37322]%N ++ runes_of_ascii "
u32 msg_type,
    }
packet i64_
    {// trailing space 
@leftPad
    ( '0') @rightPad ( '\x00' // packet A { u8 x, }
)
@lengthOf(options1	)
    string body @lengthOf( asx) `" ++ [233]%N ++ runes_of_ascii "` ,
    }
options { msg_type
    //	t
    = 00//
;} MetaData
    stringy// c
{
    zchar MetaDataX `line1
line2` , char[255] len `it's` , f32 pack ,
    uint16 Foo
`it's` , int16 i64_`two words` ,
    // `tick` ""quote"" 'q'
    }")).
Eval vm_compute in ("<<<M335>>>" ++ check (runes_of_ascii "//	t
packet u8x  {
u8x { body
@calculatedFrom(	""`tick`"") `say ""hi""`
,match a1	as
    asx // c
{
    //	t
    0
    :
// " ++ [27880; 37322]%N ++ runes_of_ascii "
// @lengthOf(
asx }
    ,}
, @rightPad ( )
    match Logon as	x { [
    00 , ""// no comment"" , ""a\\"",0123456789
    // trailing space 
    ,
    4294967296 ] : crc , 00:options1 , // " ++ [27880; 37322]%N ++ runes_of_ascii "
42
    :i8i8,0 : o 0123456789
: body , } ,@tag(
7 )float
    @lengthOf(
stringy) `" ++ [233]%N ++ runes_of_ascii "`,
u
    // c
    @lengthOf( msg_type )
,
    }")).
Eval vm_compute in ("<<<M1760>>>" ++ check (runes_of_ascii "
// top

  MetaData  // c0
uint8x  // c1
    	{  // c2
      char[]  // c3
	f32a// c4
    `// not a comment`	// c5
  ,	// c6
  float32  // c7
  roots // c8

,  // c9
char[ // c10

  7  // c11
	] // c12
    u8x // c13
	  ,	// c14
  zchar[// c15
  10// c16
		] 	 // c17
f32a 	 // c18
, 	 // c19
    u64 // c20
	pack // c21

,	// c22

u16 	 // c23
pack// c24
      , // c25
  } 	 // c26
")).
Eval vm_compute in ("<<<M1265>>>" ++ check (runes_of_ascii "// top
packet // c0
B // c1
{ // c2
u8 // c3
a , // c5a
  // c5b
} // c6
root // c7
packet P // c9a
  // c9b
{ // c10a
  // c10b
u8 // c11
K , // c13a
  // c13b
match K // c15a
  // c15b
as // c16a
  // c16b
Body { // c18
1 :
    // c20
B , }
    // c23
, // c24a
  // c24b
u16 // c25a
  // c25b
L // c26
@lengthOf( Body
    // c28
)
    // c29
,
    // c30
} ")).
Eval vm_compute in ("<<<M1501>>>" ++ check (runes_of_ascii "MetaData T {
    a1 Packet,// " ++ [128512]%N ++ runes_of_ascii " emoji
    uint8x Pad `" ++ [233]%N ++ runes_of_ascii "`,
    a1 MetaDataX,
    zchar[00] metadata `u8 x,`,
    Pad x `
    `,
    i8 u8x,
}

options {
    As = false;
}

root packet options1 {
    @calculatedFrom(""// no comment"")
    @lengthOf(_x)
    @tag(007)
    repeat f32 i8i8 `" ++ [233]%N ++ runes_of_ascii "`,
    @rightPad(' ')
    repeat Pad,
}")).
Eval vm_compute in ("<<<M1362>>>" ++ check (runes_of_ascii "

  options
{

    LittleEndian 
= false;	StringPrefixLenType=u16
;

}

    packet Heartbeat { 
@rightPad
	(
'0' )  char[7
    ] 
seqNo,

uint64

    Tail

,	i16
Flags,u16
msgKind , } 
root
packet	Reject {	zchar[

    3  ] tag7  ,
repeat 
Heartbeat ,  repeat string
    clOrdID , }

")).
Eval vm_compute in ("<<<M1694>>>" ++ check (runes_of_ascii "// top
options {
    // c1
    f32a = 0
    // c4
}

// c5
packet trueish {
    // c8
}

// c9
MetaData _x {
    // c12
    char[0123456789] zchar,
    // c17
    string crc,
    // c20
    char[1] options1,
    // c25
    uint8 repeatCount,
    // c28
}
// c29")).
Eval vm_compute in ("<<<M1532>>>" ++ check (runes_of_ascii "MetaData chars {
    uint64 A,
    msg_type asx,
    Z9_ a1,
    stringy i64_ `doc`,
}

packet x_y_z {
}

options {
    float = float32
    rootA = false;
    repeatCount = char[10];
}

packet Z9_ {
    zchar[007] charz,
}//x")).
Eval vm_compute in ("<<<M1693>>>" ++ check (runes_of_ascii "
// top
    	root // c0
    packet P // c2
{  // c3

hdr 
    // c4
	{ 
  // c5
u8 	 // c6
a	// c7a
    // c7b
  , 
    // c8
  }

, 	 // c10
  	u8 // c11

x // c12a
// c12b
  ,}
// c14
")).
Eval vm_compute in ("<<<M1293>>>" ++ check (runes_of_ascii "packet A {
    u8 a,
}
packet B {
    u16 b,
}
root packet P {
    u8 K1,
    u8 K2,
    match K1 as M1 {
        1 : A,
    },
    match K2 as M2 {
        1 : B,
    },
}
")).
Eval vm_compute in ("<<<M224>>>" ++ check (runes_of_ascii "root packet
T
{ zchar[ // a // b
0123456789
] // c
uint8x , }  root packet metadata { @rightPad( )  x_y_z @lengthOf( stringy )
// `tick` ""quote"" 'q'
// c
, }")).
Eval vm_compute in ("<<<M1869>>>" ++ check (runes_of_ascii "
packet
    A

    { match
    k  as

    n{

    [ 
""a""  , ""bb"" , 
007
,
    ""d"" , ""e""

,
66	, ""g"",
    ""h""  ,  9, 
""j""  ,
	""k"" ]: B,2 :
C
}

,}
")).
Eval vm_compute in ("<<<M531>>>" ++ check (runes_of_ascii "packet uint8x
{ match pack
    as msg_type	{
    0123456789 :	float
}
,
} packet //	t
a1
    { } options {packetx
    = '\x00'	; u128= ""a	b""  ; } }
")).
Eval vm_compute in ("<<<M432>>>" ++ check (runes_of_ascii "packet uint8x
{ match pack
    as msg_type	{
    : 0123456789	float
}
,
} packet //	t
a1
    { } options {packetx
    = '\x00'	; u128= ""a	b""  ; }
")).
Eval vm_compute in ("<<<M470>>>" ++ check (runes_of_ascii "packet uint8x
{ match pack
    as msg_type	{
    0123456789 :	float
}
,
} packet //	t
a1
     } options {packetx
    = '\x00'	; u128= ""a	b""  ; }
")).
Eval vm_compute in ("<<<M493>>>" ++ check (runes_of_ascii "packet uint8x
{ match pack
    as msg_type	{
    0123456789 :	float
}
,
} packet //	t
a1
    { } options {f64
    = '\x00'	; u128= ""a	b""  ; }
")).
Eval vm_compute in ("<<<M711>>>" ++ check (runes_of_ascii "// @lengthOf(
packet i8i8 { u128 o , }
options { MetaDataX = true;
    BodyLength =""packet"" x_y_z= 007
""crc //x
= ""abc"" ;
    msg_type =
i16 }")).
Eval vm_compute in ("<<<M704>>>" ++ check (runes_of_ascii "// @lengthOf(
packet i8i8 { u128 o , }
options { MetaDataX = true;
    BodyLength =""packet"" x_y_z 007
crc //x
= ""abc"" ;
    msg_type =
i16 }")).
Eval vm_compute in ("<<<M1463>>>" ++ check (runes_of_ascii "packet A {
    match k as n {
        [
            1, ""bb"", 007, ""d"", 5,
            ""f"", 7, ""h""
        ] : B,
        2 : C,
    },
}")).
Eval vm_compute in ("<<<M1783>>>" ++ check (runes_of_ascii "packet A {
    match k as n {
        [
            ""a"", ""bb"", 007, ""d"", ""e"",
            66
        ] : B,
        2 : C,
    },
}")).
Eval vm_compute in ("<<<M1550>>>" ++ check (runes_of_ascii "

  packet A

{ match
	k 
as
n {
    [

    ""a"", 
""bb"" ,
""c c""
	,

    ""d""
,""e"" ,
	""f"" ]
: B
    2
:
C}
    ,  }
")).
Eval vm_compute in ("<<<M1153>>>" ++ check (runes_of_ascii "MetaData leftPad { chars MetaDataX , // c
} packet repeatCount { char[ 255 ] uint8x `" ++ [233]%N ++ runes_of_ascii "` , } MetaData pack { As Foo , }")).
Eval vm_compute in ("<<<M1185>>>" ++ check (runes_of_ascii "MetaData leftPad { chars MetaDataX , } packet repeatCount { char[ 255 ] uint8x `" ++ [233]%N ++ runes_of_ascii "` , } MetaData pack { As Foo // c
, }")).
Eval vm_compute in ("<<<M1461>>>" ++ check (runes_of_ascii "packet asx {
    match u128 as lengthOf {
        //	t
        // `ti/ck` ""quote"" 'q'
        255 : x,
    },
}")).
Eval vm_compute in ("<<<M909>>>" ++ check (runes_of_ascii "packet A {
  match k as n {
    [1, ""bb"", 007, ""d"", 5, ""f"", 7, ""h"", 9, ""j"", 11, ""l""] : B
    2 : C
  },
}")).
Eval vm_compute in ("<<<M160>>>" ++ check (runes_of_ascii "
MetaData zchar { roots
A , char[] falsey `line1
line2` ,
// " ++ [128512]%N ++ runes_of_ascii " emoji
// @lengthOf(
int crc ,	} //	t")).
Eval vm_compute in ("<<<M876>>>" ++ check (runes_of_ascii "packet A {
  match k as n {
    [""a"", ""bb"", 007, ""d"", ""e"", 66, ""g"", ""h"", 9] : B
    2 : C
  },
}")).
Eval vm_compute in ("<<<M1732>>>" ++ check (runes_of_ascii "
options 
{ charz
=
""1""  _x	=
	""" ++ [128512]%N ++ runes_of_ascii """ u=
	string
;

    stringy
=""" ++ [28040; 24687]%N ++ runes_of_ascii """ 
} 
  // @lengthOf(
 
")).
Eval vm_compute in ("<<<M1909>>>" ++ check (runes_of_ascii "packet A {
    u32 crc @calculatedFrom(""\
    ""),
    @calculatedFrom(""\
    "")
    u8 y,
}")).
Eval vm_compute in ("<<<M856>>>" ++ check (runes_of_ascii "packet A {
  match k as n {
    [1, ""bb"", 007, ""d"", 5, ""f"", 7, ""h""] : B,
    2 : C
  },
}")).
Eval vm_compute in ("<<<M1737>>>" ++ check (runes_of_ascii "
packet	A
    {  match
    k
    as
n

    { 
[
    1]
	: B
	2  : C

    }

, }

")).
Eval vm_compute in ("<<<M837>>>" ++ check (runes_of_ascii "packet A {
  match k as n {
    [""a"", ""bb"", 007, ""d"", ""e"", 66] : B
    2 : C
  },
}")).
Eval vm_compute in ("<<<M834>>>" ++ check (runes_of_ascii "packet A {
  match k as n {
    [1, 22, ""c c"", 4, 5, ""f""] : B,
    2 : C
  },
}")).
Eval vm_compute in ("<<<M464>>>" ++ check (runes_of_ascii "packet uint8x
{ match pack
    as msg_type	{
    0123456789 :	float
}
,
}")).
Eval vm_compute in ("<<<M1830>>>" ++ check (runes_of_ascii "root packet P {
    u16 a,
    u32 Sum @calculatedFrom(""CR\
    C32""),
}")).
Eval vm_compute in ("<<<M924>>>" ++ check (runes_of_ascii "packet A {
    B b `a
b`,
    B `a
b`,
    repeat B bs `a
b`,
}")).
Eval vm_compute in ("<<<M2>>>" ++ check (runes_of_ascii "root
// trailing space 
// " ++ [27880; 37322]%N ++ runes_of_ascii "
packet
u{  } // trailing space ")).
Eval vm_compute in ("<<<M773>>>" ++ check (runes_of_ascii "packet A {
  match k as n {
    [1] : B,
    2 : C
  },
}")).
Eval vm_compute in ("<<<M1481>>>" ++ check (runes_of_ascii "
MetaData

    M
{ 
u8 
x  `
` 
,
	T
t  `
`	,	}
")).
Eval vm_compute in ("<<<M1079>>>" ++ check (runes_of_ascii "packet A { u8 x, } // a
// b
packet B {} // c
// d")).
Eval vm_compute in ("<<<M47>>>" ++ check (runes_of_ascii "MetaData	lengthOf
{
Header o `doc`
    ,}
")).
Eval vm_compute in ("<<<M1871>>>" ++ check (runes_of_ascii "root packet P {
    char c,
    u8 x,
}")).
Eval vm_compute in ("<<<M1663>>>" ++ check (runes_of_ascii "  MetaData
M{	}// c
	  options{ } ")).
Eval vm_compute in ("<<<M1915>>>" ++ check (runes_of_ascii "packet A {
    u8 x `d" ++ [11]%N ++ runes_of_ascii "`,// c" ++ [11]%N ++ runes_of_ascii "
}")).
Eval vm_compute in ("<<<M1076>>>" ++ check (runes_of_ascii "MetaData M {
}// c
packet A {}")).
Eval vm_compute in ("<<<M1614>>>" ++ check (runes_of_ascii "

  packet
A
{  }

// c" ++ [160]%N)).
Eval vm_compute in ("<<<M1695>>>" ++ check (runes_of_ascii "options {
    a = 1;
}")).
Eval vm_compute in ("<<<M244>>>" ++ check (runes_of_ascii "MetaData u128{} //x")).
Eval vm_compute in ("<<<M1006>>>" ++ check (runes_of_ascii "packet A {
}
// c" ++ [8202]%N)).
Eval vm_compute in ("<<<M729>>>" ++ check (runes_of_ascii "// only a comment")).
Eval vm_compute in ("<<<M1476>>>" ++ check (runes_of_ascii "MetaData tag {
}")).
Eval vm_compute in ("<<<M1560>>>" ++ check (runes_of_ascii "  // c" ++ [8232]%N ++ runes_of_ascii "
")).
Eval vm_compute in ("<<<M754>>>" ++ check (runes_of_ascii "Y )'")).
