From FP Require Import Lexer Parser ShowPT Digest Formatter.
From Coq Require Import String List NArith.
Import ListNotations.
Open Scope string_scope.
Set Printing Width 100000000.
Set Printing Depth 100000000.
Definition show_fres (r : fres) : string :=
  match r with
  | FOk s => "OK:" ++ sh_escaped s ""
  | FErr s => "ERR:" ++ sh_escaped s ""
  | FPanic p => "PANIC:" ++ p
  end.
Definition check (rs : list rune) : string := digest (show_fres (format_res rs)).
Definition full (rs : list rune) : string := show_fres (format_res rs).
Eval vm_compute in ("<<<M1443>>>" ++ check (runes_of_ascii "packet A {
    @rightPad('0')
    repeat i8i8 {
        zchar[007] packetx,
        metadata `" ++ [28040; 24687; 31867; 22411]%N ++ runes_of_ascii "`,
        repeat float64 T,
    },
    @tag(0)
    Z9_ {
        int @lengthOf(tag) `line1
                line2`,
        repeat i8i8 {
            zchar[00] stringy,
            repeat f32a {
                match i64_ as string_ {
                    [255, 0123456789, ""{,}""] : x_y_z,
                    """ ++ [233]%N ++ runes_of_ascii "t" ++ [233]%N ++ runes_of_ascii """ : A,
                    ""`tick`"" : len,
                },
            },
            //
            repeat u8x {
                u16 Z9_ @calculatedFrom(""" ++ [128512]%N ++ runes_of_ascii """) `line1
                                line2`,
                f32 matchKey,
            },// " ++ [27880; 37322]%N ++ runes_of_ascii "
            float64 u8x `
                        `,
        },//
    },// `tick` ""quote"" 'q'
    a1 {
        repeat zchar[007] Foo `two words`,
        f32a @calculatedFrom(""" ++ [28040; 24687]%N ++ runes_of_ascii """),
        int64 i64_ @calculatedFrom(""`tick`""),
    },
    @lengthOf(Header)
    f32 stringy @calculatedFrom(""x y"") `say ""hi""`,
    Foo,
    float64 BodyLength @calculatedFrom(""packet""),
    uint32 int,
}

packet string_ {
    @tag(4294967296)
    repeat u `two words`,
    repeat zchar[0] BodyLength,
    @tag(255)
    /// triple
    int `line1
        line2`,
    uint8x `it's`,
    @tag(65535)
    int8 metadata `" ++ [233]%N ++ runes_of_ascii "`,/// triple
    match options1 as float {
        3 : f32a,
        """ ++ [28040; 24687]%N ++ runes_of_ascii """ : charz,
    },
    match uint8x as string_ {
        ""CRC32"" : x,
    },
    uint8 packetx `crlf
        line`,
    @leftPad()
    zchar[0] Foo `say ""hi""`,
}")).
Eval vm_compute in ("<<<M1338>>>" ++ check (runes_of_ascii "// top
options
    // c0
{ ArrayPrefixLenType = // c3
u64 // c4a
  // c4b
; FixedStringPadFromLeft // c6a
  // c6b
= true ; // c9
FixedStringPadChar =
    // c11
'0' ; // c13
} // c14
packet // c15a
  // c15b
Quote // c16
{ // c17a
  // c17b
}
    // c18
packet
    // c19
Ack // c20a
  // c20b
{
    // c21
repeat InNote66 { u8 pad0
    // c26
, // c27a
  // c27b
}
    // c28
, // c29
}
    // c30
packet // c31a
  // c31b
Reject { // c33
} // c34
root // c35
packet // c36
Order { // c38
Quote
    // c39
,
    // c40
repeat
    // c41
Reject
    // c42
,
    // c43
string venue , // c46a
  // c46b
string // c47a
  // c47b
seqNo
    // c48
,
    // c49
uint32 Ref // c51a
  // c51b
, // c52a
  // c52b
u16 lastPx
    // c54
, // c55
u32
    // c56
clOrdID // c57
@lengthOf( // c58
Body ) ,
    // c61
match // c62a
  // c62b
lastPx as Body // c65
{ // c66a
  // c66b
190 : Reject ,
    // c70
186 // c71
: Quote // c73a
  // c73b
,
    // c74
22 // c75
:
    // c76
Ack ,
    // c78
} // c79a
  // c79b
, // c80
u16 // c81a
  // c81b
Flags // c82a
  // c82b
@calculatedFrom( ""CRC32"" ) ,
    // c86
} // c87a
  // c87b
")).
Eval vm_compute in ("<<<M1841>>>" ++ check (runes_of_ascii "options {
    FixedStringPadFromLeft = true;
    FixedStringPadChar = '0';
}

packet Leg {
    InPrice0 {
        repeat string clOrdID,
        int16 msgKind,
        zchar[5] Px,
    },
    i16 f1,
    repeat f64 Side2,
    string Acct,
}

packet Cancel {
    zchar[4] clOrdID,
    string seqNo,
    Leg,
    @leftPad('0')
    char[11] OrderId,
}

packet Quote {
    repeat char[4] sym,
    f64 OrderId,
    repeat Leg,
    repeat i64 f1,
    int16 Note,
    zchar[3] count,
}

root packet Ack {
    @leftPad(' ')
    char[10] sym,
    InPx60 {
        Cancel,
        repeat char[1] f1,
        string Tail,
        repeat InNote55 {
            int8 count,
            f64 f1,
            repeat Cancel,
        },
        char[] tag7,
        repeat string msgKind,
    },
    u8 lastPx,
    match lastPx as Body {
        152 : Quote,
        173 : Cancel,
        4 : Leg,
    },
    u16 Ref @calculatedFrom(""CR\
    C32""),
}")).
Eval vm_compute in ("<<<M221>>>" ++ check (runes_of_ascii "packet u128
{ @rightPad (
' ' )
i64_ { Logon ,char[ 4294967296
    // @lengthOf(
    ] MetaDataX@calculatedFrom( """ ++ [28040; 24687]%N ++ runes_of_ascii """ ) , } // " ++ [27880; 37322]%N ++ runes_of_ascii "
,	rootA{ zchar[
    // " ++ [128512]%N ++ runes_of_ascii " emoji
    1 // a // b
]rootA ,
asx { rootA @calculatedFrom( ""abc""  ), repeat uint16 x_y_z
,
    // packet A { u8 x, }
    zchar[
42
    ] stringy ,body , }, }, @leftPad
( '\x00' ) char[ 3]Z9_ @lengthOf(  roots )
    // trailing space 
    `" ++ [233]%N ++ runes_of_ascii "`	, @lengthOf( charz	) @leftPad ( '0')@calculatedFrom(  ""a\""b"" )
    zchar[//	t
7 ]
    // @lengthOf(
    a1 @calculatedFrom( ""\" ++ [233]%N ++ runes_of_ascii """
) //
`// not a comment` ,
@lengthOf( lengthOf ) repeat
i16
chars
,int
{
    //	t
    zchar[
    1 ] calculatedFrom`line1
line2`,Packet `" ++ [28040; 24687; 31867; 22411]%N ++ runes_of_ascii "` , } ,// " ++ [128512]%N ++ runes_of_ascii " emoji
@rightPad ( '\x00'  )
    zchar[255 // `tick` ""quote"" 'q'
]
    repeatCount @calculatedFrom(""\" ++ [233]%N ++ runes_of_ascii """ ) , repeat
    char[] Pad
`a\` ,  @lengthOf( pack )	i8 int , }")).
Eval vm_compute in ("<<<M1607>>>" ++ check (runes_of_ascii "packet leftPad {
    //
    i8 stringy @calculatedFrom(""" ++ [128512]%N ++ runes_of_ascii """),
    int @calculatedFrom(""a	b"") `it's`,
    @leftPad()
    @tag(0123456789)
    int32 u8x,
    @lengthOf(A)
    float64 u128 @calculatedFrom(""a\\""),//x
}

options {
    //x
    Pad = 0
    u = ' '
}

MetaData a1 {
    char[] metadata `// not a comment`,
}

packet Foo {
    @tag(42)
    repeat BodyLength,
    int8 metadata `{ , }`,
    @leftPad()
    @calculatedFrom(""`tick`"")
    @calculatedFrom(""a	b"")
    u32 stringy,
    @lengthOf(roots)
    zchar[0] msg_type @lengthOf(i64_) `tab	here`,
    i8 Header `{ , }`,
    char[7] trueish @lengthOf(packetx),
    u64 charz `
    `,
    zchar[65535] repeatCount `it's`,
    match calculatedFrom as calculatedFrom {
        ""a	b"" : roots,
        42 : MetaDataX,
    },
}")).
Eval vm_compute in ("<<<M369>>>" ++ check (runes_of_ascii "root
packet leftPad { @calculatedFrom( """ ++ [128512]%N ++ runes_of_ascii """) int64 len
`{ , }` , } packet
    u128
    { zchar[ 65535 ] chars @calculatedFrom( ""\" ++ [233]%N ++ runes_of_ascii """
    ), @lengthOf(  int
// packet A { u8 x, }
// @lengthOf(
) i64_ , crc { match	Z9_ as Logon
    {
10 : int ,
[ 0 ]
: u8x ,
// trailing space 
//x
42 :
    trueish , [ ""\" ++ [233]%N ++ runes_of_ascii """ , 4294967296
    ]
:Z9_
    ""\n""	: u128 ,	} ,
    repeat string_ uint8x, i8i8 , match u as body
{ 4294967296:
// " ++ [27880; 37322]%N ++ runes_of_ascii "
/// triple
Z9_, 10
:	Z9_,
[ """ ++ [128512]%N ++ runes_of_ascii """
    ,
    ""x y"" ]
: pack ,
    } , }
, @tag( // " ++ [128512]%N ++ runes_of_ascii " emoji
0123456789 )
    @lengthOf( calculatedFrom) @leftPad ( '\x00' // c
) zchar[ 3 ]
    T ,
match A  as
    leftPad{ [ """ ++ [28040; 24687]%N ++ runes_of_ascii """ ] :i64_""// no comment"" :
    string_
    ,
} , } // trailing space ")).
Eval vm_compute in ("<<<M1414>>>" ++ check (runes_of_ascii "packet stringy {
    repeat T {
        u64 lengthOf `tab	here`,
        repeat _x {
            match calculatedFrom as Header {
                [""" ++ [233]%N ++ runes_of_ascii "t" ++ [233]%N ++ runes_of_ascii """] : _x,
                // @lengthOf(
                [""packet""] : MetaDataX,
                255 : u128,
                42 : A,
                ""// no comment"" : body,
            },
            repeat crc Foo,
            charz,
        },
        zchar[1] i8i8 @calculatedFrom(""x y""),
        uint8x Pad `line1
                line2`,
    },
    @lengthOf(u)
    char[4294967296] crc,
    @tag(007)
    repeatCount,
    repeat char[] Header,
    @rightPad()
    char[] string_ `a\`,
}")).
Eval vm_compute in ("<<<M1781>>>" ++ check (runes_of_ascii "
options
{
    StringPrefixLenType	=
u8 ;
    ArrayPrefixLenType =

    u8
;
	FixedStringPadFromLeft
	=
false

;
	FixedStringPadChar = ' ' ; }packet Ack {  char[]
	tag7  , } packet	Reject

    {	InSym61
{  repeat
Ack
	, zchar[
	4
]f1	, 
},
}  packet  Logout

{char[ 
4 ]
    clOrdID ,  }
	root

    packet
Cancel { 
@leftPad
(

    ' '
    )
    char[10
	] price	,u8 x
, u32
venue @lengthOf(Body )

    ,
match

    x
as
	Body {[

    92 , 175

]:	Logout, 26 :
    Reject  ,
144

    :
	Ack ,
} , u16

    count
    @calculatedFrom(
""CR\
C32"" 
),	} ")).
Eval vm_compute in ("<<<M45>>>" ++ check (runes_of_ascii "
packet
tag{ string matchKey `line1
line2` , @tag( 0 )// c
@calculatedFrom( ""1"" )@calculatedFrom( // " ++ [128512]%N ++ runes_of_ascii " emoji
""a\""b"" ) float64 matchKey
,}options
{ crc
    = true
    msg_type
    //	t
    =
true;
} packet o { match  roots
as calculatedFrom { ""// no comment""
    // packet A { u8 x, }
    :
    msg_type	, ""{,}""
    :u128, [
    65535 , 0123456789
]/// triple
: body ,// " ++ [128512]%N ++ runes_of_ascii " emoji
} ,@rightPad ( ' '	) repeat
string_ i64_ ,
@lengthOf(
lengthOf )@tag( 255// packet A { u8 x, }
)	@tag( 00 )
char[]
stringy
, }
")).
Eval vm_compute in ("<<<M138>>>" ++ check (runes_of_ascii "packet Header{ char[	10
] A`it's` , @calculatedFrom(	""" ++ [28040; 24687]%N ++ runes_of_ascii """)calculatedFrom // a // b
@lengthOf( zchar ) `tab	here` ,  u32	BodyLength,
@lengthOf(
    stringy  ) //
@rightPad (
    ' ') @tag(
0123456789 )
body{ match i8i8 as
Foo
{ [ 7 ,	""CRC32"" ] : options1 ,[""a\""b"" , """ ++ [128512]%N ++ runes_of_ascii """ ,
    ""it's""
    , ""a	b"" ,
""// no comment"" , ""it's"" , 7,""abc""  ] :
As  ,
1 :
_x
// " ++ [128512]%N ++ runes_of_ascii " emoji
//
} , repeat  uint8x{crc
@calculatedFrom( ""a\\""
), } ,
    repeat  i8 tag ,// " ++ [128512]%N ++ runes_of_ascii " emoji
}
, }

")).
Eval vm_compute in ("<<<M1808>>>" ++ check (runes_of_ascii "options { LittleEndian
	=false
;
StringPrefixLenType
=	u8
;

ArrayPrefixLenType
=
    u64

    ;FixedStringPadFromLeft=

    false

    ; FixedStringPadChar =
	' '
; 
} 
packet	Reject	{

repeat char[	4

]

seqNo 
,
string
Px
,
}
	root packet Trade { 
@rightPad
(
'0' )

char[  2] 
msgKind
,
repeat	f64 price 
,

    InAcct79
{repeat  Reject ,	zchar[ 7 ]
OrderId
    ,

}
    , Reject
,

}
")).
Eval vm_compute in ("<<<M1800>>>" ++ check (runes_of_ascii "root

    packet

o
{

    }
	MetaData	uint8x{
    int64 rootA ,} MetaData As	{ 
i32  // packet A { u8 x, }
chars

    ,
}packet Z9_// trailing space 

  {
@leftPad

(
) 
char[] x_y_z
,
    } packet tag {
@leftPad 
(
    // " ++ [128512]%N ++ runes_of_ascii " emoji
	// " ++ [27880; 37322]%N ++ runes_of_ascii "
      ' '

    ) zchar[
    0  // `tick` ""quote"" 'q'
		] 
rootA 
@calculatedFrom(
	""a\\""
)`tab	here`

    ,}")).
Eval vm_compute in ("<<<M109>>>" ++ check (runes_of_ascii "MetaData Header{ } packet crc {	match zchar as leftPad // `tick` ""quote"" 'q'
{ 7 : As 0 : Packet , [
00 // " ++ [128512]%N ++ runes_of_ascii " emoji
]
: Pad ,
//x
//x
""// no comment""
    :
    calculatedFrom
,	3
    :
string_ , } ,falsey  packetx `crlf
line` , // " ++ [27880; 37322]%N ++ runes_of_ascii "
@tag( 42 )repeat
u64 packetx,
@calculatedFrom(  ""1"" ) repeat u16 calculatedFrom, }
")).
Eval vm_compute in ("<<<M1526>>>" ++ check (runes_of_ascii "  packet Z9_ {@calculatedFrom(
""packet""

)
	char  //
  BodyLength ,
	match
chars

    as falsey{
[
65535

    ,
        // c
	""" ++ [128512]%N ++ runes_of_ascii """, 
""" ++ [28040; 24687]%N ++ runes_of_ascii """,""`tick`"", 10 ,
	""a\\""

,  ""a\""b""	// @lengthOf(

] : 
repeatCount
,
""x y""
	:
chars
,  // " ++ [128512]%N ++ runes_of_ascii " emoji
65535
	: 	 //x
  calculatedFrom  ,

    }  , 
}

")).
Eval vm_compute in ("<<<M1905>>>" ++ check (runes_of_ascii "  options
{

    Z9_
=  // trailing space 
""packet""
;  float 
= 
false  ;
	A
	=

    ' ' 
}
        // c
    MetaData pack
    {
zchar[  3
    ]
leftPad  , 
zchar

    falsey`it's` ,
    char[]

repeatCount	, char[  65535	// " ++ [128512]%N ++ runes_of_ascii " emoji
	]	Z9_,	}
	//	t
")).
Eval vm_compute in ("<<<M1247>>>" ++ check (runes_of_ascii "options { LittleEndian // c2a
  // c2b
= // c3
true
    // c4
; } root
    // c7
packet P // c9a
  // c9b
{ repeat char // c12a
  // c12b
cs // c13a
  // c13b
, // c14a
  // c14b
u8
    // c15
x
    // c16
, // c17
}
    // c18
")).
Eval vm_compute in ("<<<M1877>>>" ++ check (runes_of_ascii "packet
repeatCount

{trueish
, } packet uint8x
{  /// triple
	match	u8x
    as  calculatedFrom	{

[ 4294967296  ]
    :	len,

    [
	""" ++ [128512]%N ++ runes_of_ascii """

, """ ++ [233]%N ++ runes_of_ascii "t" ++ [233]%N ++ runes_of_ascii """ 
,
	255,  //
      1  ] :falsey
	,} 
, }
")).
Eval vm_compute in ("<<<M44>>>" ++ check (runes_of_ascii "
packet repeatCount
    {
trueish , } packet uint8x
{/// triple
match u8x as calculatedFrom
    { [ 4294967296 ]: len ,
[ """ ++ [128512]%N ++ runes_of_ascii """ ,	""" ++ [233]%N ++ runes_of_ascii "t" ++ [233]%N ++ runes_of_ascii """ , 255 , //
1
] : falsey , } , }
")).
Eval vm_compute in ("<<<M491>>>" ++ check (runes_of_ascii "packet uint8x
{ match pack
    as msg_type	{
    0123456789 :	float
}
,
} packet //	t
a1
    { } options {packetx packetx
    = '\x00'	; u128= ""a	b""  ; }
")).
Eval vm_compute in ("<<<M1557>>>" ++ check (runes_of_ascii "MetaData leftPad

    {
	chars

    MetaDataX 
,}packet repeatCount{char[255

] uint8x`" ++ [233]%N ++ runes_of_ascii "`
	,
    }

    MetaData pack
{	As

    Foo
, 
}	// c
 
")).
Eval vm_compute in ("<<<M546>>>" ++ check (runes_of_ascii "packet uint8x
{ match pack
    as msg_type	{
    0123456789 :	float
}
,
} packet //	t
a1
    { } options {packetx
    = '\x00'	; @ u128= ""a	b""  ; }
")).
Eval vm_compute in ("<<<M447>>>" ++ check (runes_of_ascii "packet uint8x
{ match pack
    as msg_type	{
    0123456789 :	float
,
}
} packet //	t
a1
    { } options {packetx
    = '\x00'	; u128= ""a	b""  ; }
")).
Eval vm_compute in ("<<<M475>>>" ++ check (runes_of_ascii "packet uint8x
{ match pack
    as msg_type	{
    0123456789 :	float
}
,
} packet //	t
a1
    {  options {packetx
    = '\x00'	; u128= ""a	b""  ; }
")).
Eval vm_compute in ("<<<M668>>>" ++ check (runes_of_ascii "// @len'1'gthOf(
packet i8i8 { u128 o , }
options { MetaDataX = true;
    BodyLength =""packet"" x_y_z= 007
crc //x
= ""abc"" ;
    msg_type =
i16 }")).
Eval vm_compute in ("<<<M1487>>>" ++ check (runes_of_ascii "// top
packet Inner {
    // c2
    u8 a,
}// c6

root packet P {
    // c10a
    // c10b
    repeat Inner items,// c14
    u8 x,// c17a
}// c18")).
Eval vm_compute in ("<<<M709>>>" ++ check (runes_of_ascii "// @lengthOf(
packet i8i8 { u128 o , }
options { MetaDataX = true;
    BodyLength =""packet"" x_y_z= 007
crc //x
= ""abc"" 
    msg_type =
i16 }")).
Eval vm_compute in ("<<<M1751>>>" ++ check (runes_of_ascii "packet A {
    match k as n {
        [
            007, 66, ""a"", ""bb"", ""d"",
            ""e"", ""g""
        ] : B,
        2 : C,
    },
}")).
Eval vm_compute in ("<<<M259>>>" ++ check (runes_of_ascii "  MetaData repeatCount // c
{char[
42 // " ++ [27880; 37322]%N ++ runes_of_ascii "
]
    // " ++ [128512]%N ++ runes_of_ascii " emoji
    MetaDataX ,
    // @lengthOf(
    zchar[
// " ++ [27880; 37322]%N ++ runes_of_ascii "
//x
0] asx , }
")).
Eval vm_compute in ("<<<M1190>>>" ++ check (runes_of_ascii "MetaData leftPad { chars MetaDataX , } packet repeatCount { char[ 255 ] uint8x `" ++ [233]%N ++ runes_of_ascii "` , } MetaData pack { As Foo , }
// c
")).
Eval vm_compute in ("<<<M1170>>>" ++ check (runes_of_ascii "MetaData leftPad { chars MetaDataX , } packet repeatCount { char[ 255 ] uint8x
// c
`" ++ [233]%N ++ runes_of_ascii "` , } MetaData pack { As Foo , }")).
Eval vm_compute in ("<<<M302>>>" ++ check (runes_of_ascii "packet string_{@lengthOf(	float ) // @lengthOf(
BodyLength { match uint8x as i64_ { 0123456789
: As
    , } , } , }")).
Eval vm_compute in ("<<<M910>>>" ++ check (runes_of_ascii "packet A {
  match k as n {
    [""a"", 22, ""c c"", 4, ""e"", 66, ""g"", 8, ""i"", 10, ""k"", 12] : B,
    2 : C
  },
}")).
Eval vm_compute in ("<<<M898>>>" ++ check (runes_of_ascii "packet A {
  match k as n {
    [""a"", 22, ""c c"", 4, ""e"", 66, ""g"", 8, ""i"", 10, ""k""] : B
    2 : C
  },
}")).
Eval vm_compute in ("<<<M1558>>>" ++ check (runes_of_ascii "MetaData chars {
    x_y_z x `line1
    line2`,
    _x A `// not a comment`,
}// `tick` ""quote"" 'q'")).
Eval vm_compute in ("<<<M573>>>" ++ check (runes_of_ascii "
packet
    asx {match u128 u128 as lengthOf
{
//	t
// `tick` ""quote"" 'q'
255 : x ,
    } ,	}")).
Eval vm_compute in ("<<<M474>>>" ++ check (runes_of_ascii "packet uint8x
{ match pack
    as msg_type	{
    0123456789 :	float
}
,
} packet //	t
a1")).
Eval vm_compute in ("<<<M281>>>" ++ check (runes_of_ascii "
packet
    o	{  }
packet
Pad {
BodyLength // trailing space 
, } packet metadata //x
{}")).
Eval vm_compute in ("<<<M857>>>" ++ check (runes_of_ascii "packet A {
  match k as n {
    [1, ""bb"", 007, ""d"", 5, ""f"", 7, ""h""] : B
    2 : C
  },
}")).
Eval vm_compute in ("<<<M1492>>>" ++ check (runes_of_ascii "options {
    LittleEndian = true;
}

root packet P {
    repeat char cs,
    u8 x,
}")).
Eval vm_compute in ("<<<M816>>>" ++ check (runes_of_ascii "packet A {
  match k as n {
    [""a"", ""bb"", ""c c"", ""d"", ""e""] : B
    2 : C
  },
}")).
Eval vm_compute in ("<<<M611>>>" ++ check (runes_of_ascii "
packet
    asx {match u128 as lengthOf
{
//	t
// `tick` ""quote"" 'q'
255 : x")).
Eval vm_compute in ("<<<M459>>>" ++ check (runes_of_ascii "packet uint8x
{ match pack
    as msg_type	{
    0123456789 :	float
}
,")).
Eval vm_compute in ("<<<M877>>>" ++ check (runes_of_ascii "packet A { Inner { match k as n { [1,22,007,4,5,66,7,8,9] : B, }, }, }")).
Eval vm_compute in ("<<<M780>>>" ++ check (runes_of_ascii "packet A {
  match k as n {
    [""a"", ""bb""] : B,
    2 : C
  },
}")).
Eval vm_compute in ("<<<M778>>>" ++ check (runes_of_ascii "packet A {
  match k as n {
    [1, 22] : B,
    2 : C
  },
}")).
Eval vm_compute in ("<<<M767>>>" ++ check (runes_of_ascii "@rightPad char[] string u16 @tag( @lengthOf( as packet ,")).
Eval vm_compute in ("<<<M1204>>>" ++ check (runes_of_ascii "packet body {
// c
i32 f32a `{ , }` , } options { }")).
Eval vm_compute in ("<<<M1610>>>" ++ check (runes_of_ascii "MetaData _x {
    i64 u128,
    Packet Header,
}")).
Eval vm_compute in ("<<<M1223>>>" ++ check (runes_of_ascii "// top
packet // c0
x { // c2
}
    // c3
")).
Eval vm_compute in ("<<<M1473>>>" ++ check (runes_of_ascii "packet A {
    u8 x `a
        b`,
}")).
Eval vm_compute in ("<<<M179>>>" ++ check (runes_of_ascii "// `tick` ""quote"" 'q'
options {}")).
Eval vm_compute in ("<<<M1013>>>" ++ check (runes_of_ascii "packet A {
 u8 x `d" ++ [8232]%N ++ runes_of_ascii "`, // c" ++ [8232]%N ++ runes_of_ascii "
}")).
Eval vm_compute in ("<<<M1707>>>" ++ check (runes_of_ascii "

  packet
	A  {	} 
	// c" ++ [6158]%N)).
Eval vm_compute in ("<<<M1111>>>" ++ check (runes_of_ascii "MetaData tag { } // c
")).
Eval vm_compute in ("<<<M1136>>>" ++ check (runes_of_ascii "MetaData u { } // c
")).
Eval vm_compute in ("<<<M992>>>" ++ check (runes_of_ascii "// c" ++ [133]%N ++ runes_of_ascii "
packet A {
}")).
Eval vm_compute in ("<<<M1742>>>" ++ check (runes_of_ascii "// trailing space ")).
Eval vm_compute in ("<<<M11>>>" ++ check (runes_of_ascii "packet zchar { }")).
Eval vm_compute in ("<<<M241>>>" ++ check (runes_of_ascii "/// triple
")).
Eval vm_compute in ("<<<M1045>>>" ++ check (runes_of_ascii "// c" ++ [8203]%N)).
