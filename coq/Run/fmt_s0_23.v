From FP Require Import Lexer Parser ShowPT Digest Formatter.
From Coq Require Import String List NArith.
Import ListNotations.
Open Scope string_scope.
Set Printing Width 100000000.
Set Printing Depth 100000000.
Definition show_fres (r : fres) : string :=
  match r with
  | FOk s => "OK:" ++ sh_escaped s ""
  | FErr s => "ERR:" ++ sh_escaped s ""
  | FPanic p => "PANIC:" ++ p
  end.
Definition check (rs : list rune) : string := digest (show_fres (format_res rs)).
Definition full (rs : list rune) : string := show_fres (format_res rs).
Eval vm_compute in ("<<<M1334>>>" ++ check (runes_of_ascii "// top
options
    // c0
{ // c1
LittleEndian // c2
= false // c4
; ArrayPrefixLenType =
    // c7
u8 ; FixedStringPadFromLeft // c10a
  // c10b
= // c11
true // c12
;
    // c13
FixedStringPadChar // c14
= // c15
'0' // c16
; // c17
}
    // c18
packet Heartbeat
    // c20
{ string // c22a
  // c22b
lastPx ,
    // c24
uint8 // c25a
  // c25b
Qty // c26a
  // c26b
,
    // c27
i64 Acct // c29
, // c30a
  // c30b
char[ // c31
4 // c32a
  // c32b
] Ref , // c35a
  // c35b
} // c36a
  // c36b
packet
    // c37
Fill // c38
{ // c39a
  // c39b
uint8 // c40a
  // c40b
Ref , Heartbeat // c43
, // c44a
  // c44b
f32 OrderId , // c47a
  // c47b
repeat f32 // c49
x , // c51
} root packet // c54a
  // c54b
Order // c55a
  // c55b
{ // c56a
  // c56b
zchar[ // c57a
  // c57b
2 // c58
]
    // c59
OrderId // c60a
  // c60b
, zchar[
    // c62
2 // c63a
  // c63b
] // c64
Acct // c65a
  // c65b
, zchar[ // c67
1 // c68a
  // c68b
]
    // c69
Note // c70
, // c71a
  // c71b
zchar[
    // c72
9 // c73
] // c74a
  // c74b
Qty // c75a
  // c75b
, // c76
string
    // c77
price ,
    // c79
string // c80
tag7
    // c81
,
    // c82
u32 // c83
x // c84
,
    // c85
match // c86a
  // c86b
x // c87a
  // c87b
as
    // c88
Body {
    // c90
123 // c91
: Fill
    // c93
, 112 // c95
: Heartbeat // c97
, } // c99a
  // c99b
, // c100a
  // c100b
u32 // c101a
  // c101b
seqNo // c102
@calculatedFrom( // c103
""CRC32"" // c104a
  // c104b
) // c105
,
    // c106
} // c107a
  // c107b
")).
Eval vm_compute in ("<<<M1338>>>" ++ check (runes_of_ascii "// top
options
    // c0
{ ArrayPrefixLenType = // c3
u64 // c4a
  // c4b
; FixedStringPadFromLeft // c6a
  // c6b
= true ; // c9
FixedStringPadChar =
    // c11
'0' ; // c13
} // c14
packet // c15a
  // c15b
Quote // c16
{ // c17a
  // c17b
}
    // c18
packet
    // c19
Ack // c20a
  // c20b
{
    // c21
repeat InNote66 { u8 pad0
    // c26
, // c27a
  // c27b
}
    // c28
, // c29
}
    // c30
packet // c31a
  // c31b
Reject { // c33
} // c34
root // c35
packet // c36
Order { // c38
Quote
    // c39
,
    // c40
repeat
    // c41
Reject
    // c42
,
    // c43
string venue , // c46a
  // c46b
string // c47a
  // c47b
seqNo
    // c48
,
    // c49
uint32 Ref // c51a
  // c51b
, // c52a
  // c52b
u16 lastPx
    // c54
, // c55
u32
    // c56
clOrdID // c57
@lengthOf( // c58
Body ) ,
    // c61
match // c62a
  // c62b
lastPx as Body // c65
{ // c66a
  // c66b
190 : Reject ,
    // c70
186 // c71
: Quote // c73a
  // c73b
,
    // c74
22 // c75
:
    // c76
Ack ,
    // c78
} // c79a
  // c79b
, // c80
u16 // c81a
  // c81b
Flags // c82a
  // c82b
@calculatedFrom( ""CRC32"" ) ,
    // c86
} // c87a
  // c87b
")).
Eval vm_compute in ("<<<M1329>>>" ++ check (runes_of_ascii "options {
    FixedStringPadFromLeft = true;
    FixedStringPadChar = '0';
}
packet Leg {
    InPrice0 {
        repeat string clOrdID,
        int16 msgKind,
        zchar[5] Px,
    },
    i16 f1,
    repeat f64 Side2,
    string Acct,
}
packet Cancel {
    zchar[4] clOrdID,
    string seqNo,
    Leg,
    @leftPad('0') char[11] OrderId,
}
packet Quote {
    repeat char[4] sym,
    f64 OrderId,
    repeat Leg,
    repeat i64 f1,
    int16 Note,
    zchar[3] count,
}
root packet Ack {
    @leftPad(' ') char[10] sym,
    InPx60 {
        Cancel,
        repeat char[1] f1,
        string Tail,
        repeat InNote55 {
            int8 count,
            f64 f1,
            repeat Cancel,
        },
        char[] tag7,
        repeat string msgKind,
    },
    u8 lastPx,
    match lastPx as Body {
        152 : Quote,
        173 : Cancel,
        4 : Leg,
    },
    u16 Ref @calculatedFrom(""CRC32""),
}
")).
Eval vm_compute in ("<<<M1747>>>" ++ check (runes_of_ascii "packet u128 {
    @rightPad(' ')
    i64_ {
        Logon,
        char[4294967296] MetaDataX @calculatedFrom(""" ++ [28040; 24687]%N ++ runes_of_ascii """),
    },
    rootA {
        zchar[1] rootA,
        asx {
            rootA @calculatedFrom(""abc""),
            repeat uint16 x_y_z,
            // packet A { u8 x, }
            zchar[42] stringy,
            body,
        },
    },
    @leftPad('\x00')
    char[3] Z9_ @lengthOf(roots) `" ++ [233]%N ++ runes_of_ascii "`,
    @lengthOf(charz)
    @leftPad('0')
    @calculatedFrom(""a\""b"")
    zchar[7] a1 @calculatedFrom(""\" ++ [233]%N ++ runes_of_ascii """) `// not a comment`,
    @lengthOf(lengthOf)
    repeat i16 chars,
    int {
        //	t
        zchar[1] calculatedFrom `line1
                line2`,
        Packet `" ++ [28040; 24687; 31867; 22411]%N ++ runes_of_ascii "`,
    },// " ++ [128512]%N ++ runes_of_ascii " emoji
    @rightPad('\x00')
    zchar[255] repeatCount @calculatedFrom(""\" ++ [233]%N ++ runes_of_ascii """),
    repeat char[] Pad `a\`,
    @lengthOf(pack)
    i8 int,
}")).
Eval vm_compute in ("<<<M1670>>>" ++ check (runes_of_ascii "

  root
	packet

    matchKey

    { match

Foo
    as 
Z9_ { 	 // c
    [
""x y"",
""1""
,
    007 
, 7 ] :

    pack
,""`tick`""	:  u128 , 
""a	b"" :
    msg_type,
[ 
	    //
    //
  00

    , 65535

    ]
    : a1
    ,
	""it's"" : 
Foo , 	 // " ++ [128512]%N ++ runes_of_ascii " emoji
[//x

	""""	]
	:

    u , 
} ,
}
	packet

calculatedFrom // c
	{
    msg_type{  T@calculatedFrom( 
""\n""

), float64

i8i8
    , As `
`
	,u32 
rootA@lengthOf( 
// c

// `tick` ""quote"" 'q'
	float )
,  },
    }packet 

    // " ++ [27880; 37322]%N ++ runes_of_ascii "
	x_y_z	{ @tag(	//x
  0

)	i64_
	    // " ++ [27880; 37322]%N ++ runes_of_ascii "
  @lengthOf( 
    //

	MetaDataX
	),
}packet A { @calculatedFrom(""a\\""

    )@calculatedFrom(
""abc""
) _x

u

`say ""hi""`
,	}
    options  
      // `tick` ""quote"" 'q'
  	{  // trailing space 
  	metadata  =
""a\\""  ;// a // b
  	} ")).
Eval vm_compute in ("<<<M1354>>>" ++ check (runes_of_ascii "options {
    StringPrefixLenType = u8;
    ArrayPrefixLenType = u32;
    FixedStringPadFromLeft = true;
    FixedStringPadChar = ' ';
}
packet Leg {
}
packet Heartbeat {
    zchar[6] msgKind,
    @rightPad('0') char[3] Qty,
    zchar[9] Side2,
    i8 Acct,
}
packet Logout {
    int8 x,
}
packet Order {
    char[] Acct,
    zchar[8] count,
    u32 OrderId,
    uint8 lastPx,
    u16 clOrdID,
    zchar[7] Note,
}
root packet Reject {
    @leftPad(' ') char[8] Side2,
    i8 clOrdID,
    repeat f32 x,
    u32 lastPx,
    match lastPx as Body {
        [30, 147] : Heartbeat,
        134 : Leg,
        183 : Logout,
        40 : Order,
    },
    u16 Ref @calculatedFrom(""CR\
C32""),
}
")).
Eval vm_compute in ("<<<M1335>>>" ++ check (runes_of_ascii "
options {

LittleEndian = 
false

;
ArrayPrefixLenType

= 
u8
    ; FixedStringPadFromLeft
    =true;
    FixedStringPadChar

    = '0'  ; } packet
Heartbeat
    { string lastPx	,
    uint8  Qty

    ,
    i64
Acct  , char[ 4] Ref ,

    }packet Fill{
uint8
Ref
,
Heartbeat
,
f32
    OrderId 
,
	repeat f32 x

,}
	root packet	Order  {

    zchar[
2

]
OrderId ,zchar[ 2
]
Acct ,
	zchar[
1 ]

Note
    ,	zchar[
9  ]	Qty
    , string	price

    , string
    tag7 , u32

    x  ,	match x
as
Body
	{
    123	:Fill
    , 112
:

    Heartbeat
,
}
,u32
seqNo@calculatedFrom(  ""CRC32"" )	, } ")).
Eval vm_compute in ("<<<M64>>>" ++ check (runes_of_ascii "
MetaData //	t
body { T
    calculatedFrom, string f32a `line1
line2`, leftPad BodyLength
`tab	here` ,
}options {
}
MetaData
    options1	{
char[ 3 ] MetaDataX
// " ++ [128512]%N ++ runes_of_ascii " emoji
/// triple
`" ++ [28040; 24687; 31867; 22411]%N ++ runes_of_ascii "` ,  BodyLength x	`
`,u16 tag	`say ""hi""`, u8
float ,float32 As `
`
    ,
    i8i8 Z9_ `
`, } packet u { @tag( 42
) options1 // c
o `crlf
line` ,@calculatedFrom( ""`tick`""
// packet A { u8 x, }
// a // b
) repeat
    char[]	a1
    //x
    ,	} options
    { uint8x=
true
    A
= // `tick` ""quote"" 'q'
7 ; // packet A { u8 x, }
len=	""" ++ [128512]%N ++ runes_of_ascii """
    }")).
Eval vm_compute in ("<<<M1237>>>" ++ check (runes_of_ascii "// top
options // c0
{ // c1
zchar // c2
= // c3
true // c4
; // c5
Pad // c6
= // c7
char[ // c8
00 // c9
] // c10
a1 // c11
= // c12
uint32 // c13
BodyLength // c14
= // c15
true // c16
; // c17
} // c18
root // c19
packet // c20
T // c21
{ // c22
@lengthOf( // c23
repeatCount // c24
) // c25
@tag( // c26
1 // c27
) // c28
@calculatedFrom( // c29
""a	b"" // c30
) // c31
string // c32
stringy // c33
@calculatedFrom( // c34
""\n"" // c35
) // c36
`u8 x,` // c37
, // c38
} // c39
")).
Eval vm_compute in ("<<<M1464>>>" ++ check (runes_of_ascii "// packet A { u8 x, }
    MetaData roots{
	char[

    00 ] lengthOf

    ``
    ,
    As

stringy,

    x
calculatedFrom  ,
} packet
	i8i8

{
	crc	`crlf
line`  , @rightPad 	 // a // b

( 
) zchar[ 42  ] falsey // trailing space 
, 
/// triple
		@tag(
	42  ) u32

leftPad 
, @tag( 42
	)
a1	@lengthOf( Z9_
	)
    ,
match

    leftPad  as

    crc	{

    [
""a\""b"" 
,	1 
, 
255 ] : trueish

,	3  : float
, 0

:lengthOf
,
	},} ")).
Eval vm_compute in ("<<<M1722>>>" ++ check (runes_of_ascii "// top
options {
    // c1
    uint8x = 007;// c5
    lengthOf = i8;// c9
}// c10

packet i64_ {
    @calculatedFrom(""1"")
    @tag(3)
    @lengthOf(rootA)
    // c22
    repeat int8 Packet `u8 x,`,// c27
}// c28

root packet stringy {
    @rightPad(' ')
    // c36
    repeat char[10] repeatCount,// c42
    @tag(255)
    // c45
    float64 msg_type @calculatedFrom(""packet""),// c51
}// c52")).
Eval vm_compute in ("<<<M1265>>>" ++ check (runes_of_ascii "// top
packet // c0
B // c1
{ // c2
u8 // c3
a , // c5a
  // c5b
} // c6
root // c7
packet P // c9a
  // c9b
{ // c10a
  // c10b
u8 // c11
K , // c13a
  // c13b
match K // c15a
  // c15b
as // c16a
  // c16b
Body { // c18
1 :
    // c20
B , }
    // c23
, // c24a
  // c24b
u16 // c25a
  // c25b
L // c26
@lengthOf( Body
    // c28
)
    // c29
,
    // c30
} ")).
Eval vm_compute in ("<<<M1888>>>" ++ check (runes_of_ascii "  packet

body// @lengthOf(
		{ @lengthOf(	T
// " ++ [27880; 37322]%N ++ runes_of_ascii "

) @lengthOf(

int

)  @leftPad
(

'\x00'
)	asx //x
	len
	,
    repeat
    zchar[
	3 ]

    int	`" ++ [28040; 24687; 31867; 22411]%N ++ runes_of_ascii "`

    , @lengthOf(  
      // @lengthOf(
  options1 )
match x

    as	//x
    leftPad  // @lengthOf(
  {
7:
    x_y_z
,65535 
: u128
,42 
: x ,
    }  ,//
}

")).
Eval vm_compute in ("<<<M1543>>>" ++ check (runes_of_ascii "root packet a1 {
    tag Pad ``,
}

options {
}

root packet int {
    uint64 f32a,
}

packet MetaDataX {
    @leftPad(' ')
    /// triple
    repeat uint16 Header `{ , }`,
}

options {
    Z9_ = false
    falsey = ""x y"";
    rootA = false
    // a // b
    Foo = true
    lengthOf = float64
}")).
Eval vm_compute in ("<<<M1427>>>" ++ check (runes_of_ascii "packet P1 {
    u8 a,
}

packet P2 {
    P1,
}

packet P3 {
    P2,
    P1,
}

packet P4 {
    repeat P3,
    P2,
}

root packet P5 {
    P4,
    P3,
    P1,
    u8 K,
    match K as Body {
        4 : P4,
        3 : P3,
        2 : P2,
        1 : P1,
    },
}")).
Eval vm_compute in ("<<<M97>>>" ++ check (runes_of_ascii "packet
i8i8 { repeat char[	00 ] Pad
    `a\` ,
@leftPad
    (
'\x00') string	a1@lengthOf(tag )``, float64
    u128 @calculatedFrom( ""1""
)  ,	@lengthOf( x
    )
    u128 @lengthOf( tag )
`" ++ [28040; 24687; 31867; 22411]%N ++ runes_of_ascii "` , int64 u ,
A//x
T
    `say ""hi""`
, }
")).
Eval vm_compute in ("<<<M10>>>" ++ check (runes_of_ascii "MetaData //	t
x{
    } packet rootA
//x
//	t
{ i64	As
//x
// @lengthOf(
@lengthOf(
    A )
`// not a comment` ,
}
    options { asx =	string ; i8i8 =zchar[
0123456789 ];	Foo =10 ; As =true
; }
")).
Eval vm_compute in ("<<<M191>>>" ++ check (runes_of_ascii "options
{ Logon
=char[	00
]
;
zchar
    = false Logon =	i8
    ;}options { asx = '0' int = ""\" ++ [233]%N ++ runes_of_ascii """  calculatedFrom= '\x00'// packet A { u8 x, }
; // `tick` ""quote"" 'q'
}
")).
Eval vm_compute in ("<<<M1428>>>" ++ check (runes_of_ascii "
packet uint8x
{  match pack

    as msg_type {
""`tick`""	:	float
	}

    ,

}  packet //	t
	  a1 {
    }options{ packetx= '\x00'

;	u128
=""a	b""  ; }
")).
Eval vm_compute in ("<<<M1485>>>" ++ check (runes_of_ascii "packet A {
    match k as n {
        [
            ""a"", ""bb"", ""c c"", ""d"", ""e"",
            ""f"", ""g"", ""h"", ""i"", ""j""
        ] : B,
        2 : C,
    },
}")).
Eval vm_compute in ("<<<M540>>>" ++ check (runes_of_ascii "packet uint8x
{ match pack
    as msg_type	{
    0123456789 :	float
}
,
} packet //	t
a1
    { } options " ++ [65279]%N ++ runes_of_ascii " {packetx
    = '\x00'	; u128= ""a	b""  ; }
")).
Eval vm_compute in ("<<<M428>>>" ++ check (runes_of_ascii "packet uint8x
{ match pack
    as msg_type	}
    0123456789 :	float
}
,
} packet //	t
a1
    { } options {packetx
    = '\x00'	; u128= ""a	b""  ; }
")).
Eval vm_compute in ("<<<M455>>>" ++ check (runes_of_ascii "packet uint8x
{ match pack
    as msg_type	{
    0123456789 :	float
}
,
 packet //	t
a1
    { } options {packetx
    = '\x00'	; u128= ""a	b""  ; }
")).
Eval vm_compute in ("<<<M1642>>>" ++ check (runes_of_ascii "packet A {
    Inner {
        u8 x `tab
                	x`,
        Deep {
            u8 y `tab
                        	x`,
        },
    },
}")).
Eval vm_compute in ("<<<M500>>>" ++ check (runes_of_ascii "packet uint8x
{ match pack
    as msg_type	{
    0123456789 :	float
}
,
} packet //	t
a1
    { } options {packetx
    = 	; u128= ""a	b""  ; }
")).
Eval vm_compute in ("<<<M137>>>" ++ check (runes_of_ascii "
packet u128//x
{ @calculatedFrom(  ""x y""
    ) // `tick` ""quote"" 'q'
@rightPad (  ' ') char[ 42 ]  Header
    @calculatedFrom( ""abc"" ),  }

")).
Eval vm_compute in ("<<<M1263>>>" ++ check (runes_of_ascii "
packet B {u8 
a ,
}  root	packet P
{

    u8
K, 
u64	L
@lengthOf(

Body
)	, match
    K
as

    Body
{ 1

    : 
B

,
}	, }

")).
Eval vm_compute in ("<<<M144>>>" ++ check (runes_of_ascii "  MetaData falsey {o i8i8
,char[]
pack  ,
float32 lengthOf , len //x
BodyLength, BodyLength o
, stringy  u128	`crlf
line` , } 	 ")).
Eval vm_compute in ("<<<M1394>>>" ++ check (runes_of_ascii "packet A {
    u16 len @lengthOf(body) `
        x`,
    u32 crc @calculatedFrom(""CRC32"") `
        x`,
    string body,
}")).
Eval vm_compute in ("<<<M1154>>>" ++ check (runes_of_ascii "MetaData leftPad { chars MetaDataX ,
// c
} packet repeatCount { char[ 255 ] uint8x `" ++ [233]%N ++ runes_of_ascii "` , } MetaData pack { As Foo , }")).
Eval vm_compute in ("<<<M1186>>>" ++ check (runes_of_ascii "MetaData leftPad { chars MetaDataX , } packet repeatCount { char[ 255 ] uint8x `" ++ [233]%N ++ runes_of_ascii "` , } MetaData pack { As Foo
// c
, }")).
Eval vm_compute in ("<<<M290>>>" ++ check (runes_of_ascii "options {
    /// triple
    asx // " ++ [27880; 37322]%N ++ runes_of_ascii "
= 3 } MetaData T
{  f32/// triple
Pad `u8 x,` , } // `tick` ""quote"" 'q'")).
Eval vm_compute in ("<<<M535>>>" ++ check (runes_of_ascii "packet uint8x
{ match pack
    as msg_type	{
    0123456789 :	float
}
,
} packet //	t
a1
    { } opti")).
Eval vm_compute in ("<<<M950>>>" ++ check (runes_of_ascii "packet A {
    Inner {
        u8 x `x
`,
        Deep {
            u8 y `x
`,
        },
    },
}")).
Eval vm_compute in ("<<<M199>>>" ++ check (runes_of_ascii "packet falsey { string a1 @lengthOf( packetx ) , }
packet	int { Header	@lengthOf( stringy)
, }")).
Eval vm_compute in ("<<<M892>>>" ++ check (runes_of_ascii "packet A {
  match k as n {
    [1, 22, 007, 4, 5, 66, 7, 8, 9, 10, 11] : B
    2 : C
  },
}")).
Eval vm_compute in ("<<<M644>>>" ++ check (runes_of_ascii "
packet
    asx {match u128 as lengthOf
{
//	t
// `tick` ""quote"" 'q'
255 : x" ++ [178]%N ++ runes_of_ascii " ,
    } ,	}")).
Eval vm_compute in ("<<<M617>>>" ++ check (runes_of_ascii "
packet
    asx {match u128 as lengthOf
{
//	t
// `tick` ""quote"" 'q'
255 : x ,
    } 	}")).
Eval vm_compute in ("<<<M865>>>" ++ check (runes_of_ascii "packet A {
  match k as n {
    [1, 22, 007, 4, 5, 66, 7, 8, 9] : B,
    2 : C
  },
}")).
Eval vm_compute in ("<<<M690>>>" ++ check (runes_of_ascii "// @lengthOf(
packet i8i8 { u128 o , }
options { MetaDataX = true;
    BodyLength")).
Eval vm_compute in ("<<<M1903>>>" ++ check (runes_of_ascii "
root packet
    P	{

    u16 a

, 
u32  Sum@calculatedFrom( ""CRC32"" ) ,	}
")).
Eval vm_compute in ("<<<M821>>>" ++ check (runes_of_ascii "packet A {
  match k as n {
    [1, 22, ""c c"", 4, 5] : B,
    2 : C
  },
}")).
Eval vm_compute in ("<<<M1922>>>" ++ check (runes_of_ascii "packet A {
    match k as n {
        // b
        1 : B,
    },// h
}")).
Eval vm_compute in ("<<<M1707>>>" ++ check (runes_of_ascii "MetaData repeatCount {
    char[42] MetaDataX,
    zchar[0] asx,
}")).
Eval vm_compute in ("<<<M151>>>" ++ check (runes_of_ascii "packet
    stringy
{ } MetaData crc
/// triple
//x
{ u16 o ,}")).
Eval vm_compute in ("<<<M1711>>>" ++ check (runes_of_ascii "root packet string_ {
    char[] matchKey,
}

packet x {
}")).
Eval vm_compute in ("<<<M159>>>" ++ check (runes_of_ascii "root packet x  { roots @calculatedFrom(""a\""b"" ) , }")).
Eval vm_compute in ("<<<M1501>>>" ++ check (runes_of_ascii "  options 
{  a
	=
1 	 // c
b=2

;  // d
    }
")).
Eval vm_compute in ("<<<M1221>>>" ++ check (runes_of_ascii "// top
packet // c0
x // c1
{ // c2
} // c3
")).
Eval vm_compute in ("<<<M1487>>>" ++ check (runes_of_ascii "root packet P {
    char c,
    u8 x,
}")).
Eval vm_compute in ("<<<M1386>>>" ++ check (runes_of_ascii "

  root  packet
falsey
    { }
")).
Eval vm_compute in ("<<<M988>>>" ++ check (runes_of_ascii "packet A {
 u8 x `d" ++ [160]%N ++ runes_of_ascii "`, // c" ++ [160]%N ++ runes_of_ascii "
}")).
Eval vm_compute in ("<<<M1410>>>" ++ check (runes_of_ascii "  packet int{  } 

    //	t
")).
Eval vm_compute in ("<<<M1530>>>" ++ check (runes_of_ascii "
packet A
    {}// c" ++ [8232]%N ++ runes_of_ascii "
")).
Eval vm_compute in ("<<<M1624>>>" ++ check (runes_of_ascii "options {
}// " ++ [128512]%N ++ runes_of_ascii " emoji")).
Eval vm_compute in ("<<<M976>>>" ++ check (runes_of_ascii "packet A {
}
// c ")).
Eval vm_compute in ("<<<M1057>>>" ++ check (runes_of_ascii "// c" ++ [6158]%N ++ runes_of_ascii "
packet A {
}")).
Eval vm_compute in ("<<<M1226>>>" ++ check (runes_of_ascii "packet // c
x { }")).
Eval vm_compute in ("<<<M3>>>" ++ check (runes_of_ascii "options {}

")).
Eval vm_compute in ("<<<M1045>>>" ++ check (runes_of_ascii "// c" ++ [8203]%N)).
