From FP Require Import Lexer Parser ShowPT Digest Formatter.
From Coq Require Import String List NArith.
Import ListNotations.
Open Scope string_scope.
Set Printing Width 100000000.
Set Printing Depth 100000000.
Definition show_fres (r : fres) : string :=
  match r with
  | FOk s => "OK:" ++ sh_escaped s ""
  | FErr s => "ERR:" ++ sh_escaped s ""
  | FPanic p => "PANIC:" ++ p
  end.
Definition check (rs : list rune) : string := digest (show_fres (format_res rs)).
Definition full (rs : list rune) : string := show_fres (format_res rs).
Eval vm_compute in ("<<<M207>>>" ++ check (runes_of_ascii "root packet A {
    } packet int //
{
    @calculatedFrom( ""a\""b""	) u32 x_y_z @lengthOf( u
    ) , repeat
    _x charz`tab	here`
, stringy stringy ,
@calculatedFrom(
""" ++ [28040; 24687]%N ++ runes_of_ascii """ ) repeat
// `tick` ""quote"" 'q'
// a // b
falsey {
zchar[ 255
    ]
As @lengthOf(BodyLength ) , match Z9_
    as As	{ [
0123456789, 007, ""a\\"", ""\" ++ [233]%N ++ runes_of_ascii """// 50% %s
, ""x y"" ,3 ] : i8i8
    ,} ,	} , f32a
    {match leftPad as crc{	[ ""\" ++ [233]%N ++ runes_of_ascii """ , // " ++ [128512]%N ++ runes_of_ascii " emoji
""packet""
,
65535 ,""`tick`"",
""`tick`"" ,
""a\\"" , """" ,
    //x
    ""// no comment""
// @lengthOf(
//	t
]// 50% %s
: calculatedFrom""packet""
    :
// c
//
Packet // c
, [ //x
4294967296 ,
    // c
    4294967296
    ,//x
""{,}""
// " ++ [128512]%N ++ runes_of_ascii " emoji
// `tick` ""quote"" 'q'
]  :T [0 ,0  , """ ++ [233]%N ++ runes_of_ascii "t" ++ [233]%N ++ runes_of_ascii """ , 42 ,
""a	b"", 7
]: tag 3: As  , }
, char[]
matchKey
    `crlf
line`
, // packet A { u8 x, }
}
,repeat zchar[
    //	t
    4294967296 ] As , rootA	T
,
// @lengthOf(
// " ++ [128512]%N ++ runes_of_ascii " emoji
@tag( 65535
)
    @calculatedFrom(
""{,}"" // a // b
)
    /// triple
    repeat// @lengthOf(
i16 Z9_ `{ , }` , @calculatedFrom( ""{,}"") len {
match// trailing space 
u128 //
as
zchar {[	00 , 4294967296
    ] // 50% %s
:  charz
,""a\\""
    :	i8i8  ,""" ++ [233]%N ++ runes_of_ascii "t" ++ [233]%N ++ runes_of_ascii """ :
    x_y_z,65535 :uint8x
,
}, repeat leftPad { f32 u128	@lengthOf(
As ) ,
    body `" ++ [28040; 24687; 31867; 22411]%N ++ runes_of_ascii "` , rootA// @lengthOf(
Pad
,} ,
char[ 00 ] msg_type `say ""hi""`// `tick` ""quote"" 'q'
,
    /// triple
    zchar[ // @lengthOf(
0123456789	] falsey,
    // " ++ [27880; 37322]%N ++ runes_of_ascii "
    } ,
    repeat int
`a\`
, } root
packet f32a { int8
    Header ``,
    }

")).
Eval vm_compute in ("<<<M1377>>>" ++ check (runes_of_ascii "// top
options
    // c0
{ ArrayPrefixLenType // c2a
  // c2b
=
    // c3
u64 // c4
;
    // c5
FixedStringPadFromLeft
    // c6
= // c7a
  // c7b
true // c8
;
    // c9
FixedStringPadChar // c10
= // c11
'0'
    // c12
; // c13a
  // c13b
}
    // c14
packet // c15
Order {
    // c17
}
    // c18
root // c19a
  // c19b
packet // c20
Leg // c21a
  // c21b
{ // c22a
  // c22b
char[] Ref
    // c24
, // c25a
  // c25b
repeat // c26
Order // c27a
  // c27b
, // c28a
  // c28b
f32 // c29
Acct
    // c30
,
    // c31
@leftPad
    // c32
( // c33a
  // c33b
'0'
    // c34
) char[ 10 ] // c38
venue // c39a
  // c39b
, // c40
@rightPad // c41a
  // c41b
(
    // c42
'0' // c43a
  // c43b
) char[ 3
    // c46
] // c47
seqNo // c48
,
    // c49
repeat u64 // c51
Px // c52a
  // c52b
,
    // c53
u8 // c54
Flags , // c56
u32
    // c57
lastPx // c58
@lengthOf( Body )
    // c61
,
    // c62
match // c63
Flags
    // c64
as
    // c65
Body // c66a
  // c66b
{
    // c67
185 : Order , // c71a
  // c71b
}
    // c72
, // c73
u16 // c74
sym // c75a
  // c75b
@calculatedFrom( // c76
""CRC32"" // c77a
  // c77b
)
    // c78
, // c79a
  // c79b
}
    // c80
")).
Eval vm_compute in ("<<<M376>>>" ++ check (runes_of_ascii "packet
    rootA
{
// a // b
// " ++ [128512]%N ++ runes_of_ascii " emoji
@tag( 00
) match i8i8 as	f32a{ 0
: u8x	,[ ""a\\""]: BodyLength ,[""{,}"" ]: body
,4294967296 : options1, // c
""CRC32""
: A
    ,}
// c
// " ++ [27880; 37322]%N ++ runes_of_ascii "
,
Logon
    @lengthOf(
T ) , @lengthOf( stringy)char[
    0123456789]zchar ,	zchar[ 1] i8i8 `it's`, @calculatedFrom(
// 50% %s
// packet A { u8 x, }
""1"" )
    // `tick` ""quote"" 'q'
    repeat zchar[
42] A
    `u8 x,` , i16 A @calculatedFrom( //
""packet""
// " ++ [128512]%N ++ runes_of_ascii " emoji
/// triple
) , /// triple
@lengthOf( MetaDataX
    ) match
    // " ++ [27880; 37322]%N ++ runes_of_ascii "
    falsey
    as repeatCount { 0123456789:T, } ,@leftPad
( // " ++ [27880; 37322]%N ++ runes_of_ascii "
'\x00' ) @rightPad ( '0'
) @tag(
0 ) repeat len {
trueish rootA`" ++ [28040; 24687; 31867; 22411]%N ++ runes_of_ascii "` ,
    char[
    7 ] repeatCount
@calculatedFrom( ""// no comment""
) , string_ @calculatedFrom( ""it's"" ) ,
} , repeat Header `say ""hi""` ,
//x
//x
match
    packetx as Packet {[
""`tick`""] :
    asx 7	:
    asx
    [ ""a\\""	]// `tick` ""quote"" 'q'
: /// triple
float ,
""packet"" :
lengthOf ""x y"" : len , }  ,}")).
Eval vm_compute in ("<<<M353>>>" ++ check (runes_of_ascii "root packet rootA {} packet // 50% %s
Z9_ { repeat char[ 007] f32a , @rightPad ( )
u32 Header `a\`,repeat Z9_, repeat i8i8
    // 50% %s
    int `u8 x,` // a // b
, // `tick` ""quote"" 'q'
uint8x , f64
// @lengthOf(
// `tick` ""quote"" 'q'
i8i8  `" ++ [28040; 24687; 31867; 22411]%N ++ runes_of_ascii "` , @tag(
//x
// 50% %s
3 ) // `tick` ""quote"" 'q'
@tag(  3 ) @tag( 10
) repeat int{ MetaDataX ,	} , @tag( 10 ) int8
    // " ++ [128512]%N ++ runes_of_ascii " emoji
    pack@lengthOf(	x ) ,
    } packet metadata {
    @calculatedFrom(""" ++ [233]%N ++ runes_of_ascii "t" ++ [233]%N ++ runes_of_ascii """ ) repeat
    rootA uint8x, @calculatedFrom( ""\n"" ) @lengthOf(len ) BodyLength{ matchKey f32a `a\`
,} ,
char[]leftPad
`tab	here`
    ,
    // " ++ [27880; 37322]%N ++ runes_of_ascii "
    u32  a1,} packet
trueish { @tag( 007 ) f64 f32a  @calculatedFrom( """")`say ""hi""`/// triple
, @calculatedFrom( ""packet""
    ) @calculatedFrom(
    """ ++ [28040; 24687]%N ++ runes_of_ascii """// trailing space 
)repeat char[	3 ]zchar`
` , } MetaData tag
{
}
")).
Eval vm_compute in ("<<<M295>>>" ++ check (runes_of_ascii "root
    packet
charz { float32 matchKey @lengthOf(falsey ) ``,	@lengthOf( stringy )trueish
    {uint16 f32a@lengthOf(Foo // 50% %s
)
// " ++ [27880; 37322]%N ++ runes_of_ascii "
//	t
, }  ,// a // b
@leftPad( ) repeat char[ 1 ] asx
, @calculatedFrom(	""" ++ [233]%N ++ runes_of_ascii "t" ++ [233]%N ++ runes_of_ascii """)/// triple
uint8 Foo , char metadata`crlf
line`,// " ++ [27880; 37322]%N ++ runes_of_ascii "
repeat x_y_z
`tab	here` , @tag(65535 )  o{ uint16 rootA
`100% of %d` ,match
charz as
    tag { 10 : float , 1 // trailing space 
:
Foo, } ,repeat char[ 0 ] _x, repeat Packet,
} , @calculatedFrom(
""" ++ [128512]%N ++ runes_of_ascii """ )@rightPad
(
    )matchKey { char[] roots `crlf
line` ,uint8 trueish @calculatedFrom( ""CRC32"") `doc`	,// " ++ [27880; 37322]%N ++ runes_of_ascii "
int64 crc @calculatedFrom( """ ++ [128512]%N ++ runes_of_ascii """ ) , } , @tag( 7 // @lengthOf(
) zchar[ 42
] uint8x @lengthOf( tag ) ,
    } // " ++ [27880; 37322]%N)).
Eval vm_compute in ("<<<M201>>>" ++ check (runes_of_ascii "//x
packet body {leftPad
@calculatedFrom( // " ++ [128512]%N ++ runes_of_ascii " emoji
""it's""
)//x
`line1
line2` , char[ 3 ]	matchKey , char[] MetaDataX `a\`,
    repeat
string_ { tag
// c
// packet A { u8 x, }
`crlf
line` , repeat x	metadata
, u @calculatedFrom( """ ++ [128512]%N ++ runes_of_ascii """ )
    , } ,@tag( 10 )
// c
// packet A { u8 x, }
@lengthOf( T
)@tag( 7// `tick` ""quote"" 'q'
)repeatCount
    lengthOf `tab	here`
    , @rightPad( '\x00') zchar[ 7
] rootA
,
@lengthOf( len // 50% %s
) match
    body as matchKey { 0123456789: stringy
//
// packet A { u8 x, }
, ""x y""
:	As
, """ ++ [233]%N ++ runes_of_ascii "t" ++ [233]%N ++ runes_of_ascii """ : charz, 4294967296 : leftPad
    ,	""" ++ [233]%N ++ runes_of_ascii "t" ++ [233]%N ++ runes_of_ascii """
    : leftPad
    ,
//
// @lengthOf(
},} //	t")).
Eval vm_compute in ("<<<M189>>>" ++ check (runes_of_ascii "packet body	{ @leftPad (
    '\x00'
    ) @tag(42
    ) @tag( 65535  ) repeat
    tag u `a\` // `tick` ""quote"" 'q'
,Z9_ , //	t
@tag(	10 )
//	t
// @lengthOf(
f32 msg_type `// not a comment` , int16 matchKey
    @calculatedFrom( ""a	b""
    // a // b
    )
    `it's`  , }
    packet T/// triple
{	zchar[7
    ]matchKey, falsey @lengthOf( stringy	) //x
`crlf
line`
, } root packet options1
    { @calculatedFrom( ""{,}""
)
matchKey @calculatedFrom(  ""`tick`""), zchar[0
    ] stringy @lengthOf(int ) ,  } packet// packet A { u8 x, }
msg_type
{ } 	 ")).
Eval vm_compute in ("<<<M2>>>" ++ check (runes_of_ascii "packet Logon { @lengthOf( leftPad )repeat calculatedFrom { match
x_y_z
as Z9_ {
7 : MetaDataX [
    /// triple
    ""a\""b"" , 42 ]:uint8x, 00 :
// a // b
//	t
stringy , // packet A { u8 x, }
0
    : leftPad,
65535
    : tag ,
    [ 4294967296 , ""packet""// `tick` ""quote"" 'q'
, 1,0123456789 , 1
,""{,}"" , 42
    ,""abc""] :
uint8x ,
}
    , string
    rootA `two words` // " ++ [27880; 37322]%N ++ runes_of_ascii "
,  uint32 A ,char[0 ] T , }
    ,  @tag(007 )
    repeat zchar[ 7] f32a//
`
` , @lengthOf(T)float32 stringy `two words`, }")).
Eval vm_compute in ("<<<M1308>>>" ++ check (runes_of_ascii "// top
packet // c0
A { // c2a
  // c2b
u8 a // c4a
  // c4b
, // c5a
  // c5b
}
    // c6
packet // c7a
  // c7b
B { // c9a
  // c9b
u16
    // c10
b // c11a
  // c11b
, // c12a
  // c12b
} root
    // c14
packet // c15
P
    // c16
{ // c17a
  // c17b
u8 K // c19a
  // c19b
, // c20a
  // c20b
match // c21
K as M // c24a
  // c24b
{
    // c25
1 // c26
: // c27
A , 1 // c30
: B // c32a
  // c32b
,
    // c33
} , // c35a
  // c35b
} // c36
")).
Eval vm_compute in ("<<<M1447>>>" ++ check (runes_of_ascii "packet uint8x {
}

root packet repeatCount {
    @rightPad( '\x00')
    // 50% %s
    i16 roots,
    @rightPad()
    repeat trueish {
        tag @calculatedFrom(""1"") `line1
        line2`,
        string crc `100% of %d`,
        repeat char[] trueish `// not a comment`,
        repeat BodyLength u `{ , }`,
    },
    char tag,
    @lengthOf(body)
    @tag(007)
    @calculatedFrom(""" ++ [128512]%N ++ runes_of_ascii """)
    char[007] uint8x,
}")).
Eval vm_compute in ("<<<M0>>>" ++ check (runes_of_ascii "packet leftPad// 50% %s
{@tag(10 )@tag( 007) @lengthOf( a1 )repeat
metadata , }
    options
{ // " ++ [128512]%N ++ runes_of_ascii " emoji
lengthOf
    // @lengthOf(
    = """ ++ [128512]%N ++ runes_of_ascii """
; }	packet
T  {A
    // " ++ [27880; 37322]%N ++ runes_of_ascii "
    { tag
@calculatedFrom(
//
// `tick` ""quote"" 'q'
""abc""),}
, @lengthOf(
    matchKey ) string
    Header @lengthOf(	metadata ) ,
leftPad @calculatedFrom(""a\""b""
    // trailing space 
    )
`tab	here` ,}")).
Eval vm_compute in ("<<<M180>>>" ++ check (runes_of_ascii "packet Logon{char[ 0123456789 ]Pad	`a\`
, match pack //	t
as As {
[ ""1"" , ""a	b"" ,
0,""packet"" ] // @lengthOf(
: u, 7
    :
asx  , } , @lengthOf(
Logon
) match
    A as zchar //
{10 :
o ,
    }
,
    @leftPad (// " ++ [128512]%N ++ runes_of_ascii " emoji
'0') o {
repeat f32
Logon
,
repeatCount
    @calculatedFrom(
    ""\n"" ),
// @lengthOf(
// `tick` ""quote"" 'q'
} , }")).
Eval vm_compute in ("<<<M307>>>" ++ check (runes_of_ascii "packet
a1
{ zchar[ 0] x`say ""hi""` , } packet // trailing space 
BodyLength {
    match Pad
as A {""\n"" : len } , } MetaData repeatCount
    {
string tag ,
    }
    MetaData trueish {u128 string_ ,
char[ 00 // trailing space 
] o
    , string tag,  } packet calculatedFrom { BodyLength `tab	here`, }

")).
Eval vm_compute in ("<<<M1834>>>" ++ check (runes_of_ascii "// trailing space 
options {
    MetaDataX = zchar[3];
    packetx = true
    u128 = ""\" ++ [233]%N ++ runes_of_ascii """;
    x = 1
    x = true;
}

MetaData u8x {
    float64 leftPad,
    a1 As `it's`,
    int16 metadata,
    As Packet `100% of %d`,
    leftPad uint8x `it's`,
    As Foo,// 50% %s
}")).
Eval vm_compute in ("<<<M1545>>>" ++ check (runes_of_ascii "packet float {
    @leftPad(' ')
    repeat char[] MetaDataX,
    @leftPad(
        )
    i16 x_y_z @calculatedFrom(""CRC32""),
}

packet chars {
}

packet asx {
    @tag(255)
    @tag(4294967296)
    @calculatedFrom(""{,}"")
    matchKey o `
        `,
}")).
Eval vm_compute in ("<<<M424>>>" ++ check (runes_of_ascii "packet
    asx { @calculatedFrom(
""""  ) @tag( options )repeat
// packet A { u8 x, }
// trailing space 
int16 u8x
,
@tag(
    //
    007 )
    @tag( 0
    /// triple
    ) @tag( 1) u
    @lengthOf( T ),
// `tick` ""quote"" 'q'
//x
} // " ++ [128512]%N ++ runes_of_ascii " emoji")).
Eval vm_compute in ("<<<M531>>>" ++ check (runes_of_ascii "packet
    asx { @calculatedFrom(
""""  ) @tag( 255 )repeat
// packet A { u8 x, }
// trailing space 
int16 u8x
,
@tag(
    //
    007 )
    @tag( 0" ++ [8232]%N ++ runes_of_ascii "
    /// triple
    ) @tag( 1) u
    @lengthOf( T ),
// `tick` ""quote"" 'q'
//x
} // " ++ [128512]%N ++ runes_of_ascii " emoji")).
Eval vm_compute in ("<<<M473>>>" ++ check (runes_of_ascii "packet
    asx { @calculatedFrom(
""""  ) @tag( 255 )repeat
// packet A { u8 x, }
// trailing space 
int16 u8x
,
@tag(
    //
    007 )
    @tag( )
    /// triple
    0 @tag( 1) u
    @lengthOf( T ),
// `tick` ""quote"" 'q'
//x
} // " ++ [128512]%N ++ runes_of_ascii " emoji")).
Eval vm_compute in ("<<<M1543>>>" ++ check (runes_of_ascii "// " ++ [27880; 37322]%N ++ runes_of_ascii "
packet Header {
    @tag(00)
    u32 charz @lengthOf(f32a) `" ++ [233]%N ++ runes_of_ascii "`,
    int32 Pad `doc`,
    @leftPad(  '\x00'
        // " ++ [27880; 37322]%N ++ runes_of_ascii "
        )
    BodyLength T `" ++ [233]%N ++ runes_of_ascii "`,
}

packet stringy {
    /// triple
    msg_type,
}

MetaData f32a {
}// " ++ [128512]%N ++ runes_of_ascii " emoji")).
Eval vm_compute in ("<<<M1908>>>" ++ check (runes_of_ascii "options {
    //
    u128 = zchar[10];
    body = '0'
    Z9_ = float64;
    i8i8 = ""a\\"";
}

packet T {
    char[42] asx @calculatedFrom(""CRC32""),
}

// trailing space 
// " ++ [128512]%N ++ runes_of_ascii " emoji
root packet x {
    Pad u128 `100% of %d`,
}")).
Eval vm_compute in ("<<<M1706>>>" ++ check (runes_of_ascii "packet Logon {
    string user,
}

root packet Frame {
    u8 K,
    match K as Body {
        1 : Logon,
        2 : Logout,
    },
    Tail,
}

packet Logout {
    u16 reason,
}

packet Tail {
    u32 crc,
}")).
Eval vm_compute in ("<<<M318>>>" ++ check (runes_of_ascii "packet pack	{} options
    {_x
    =""1""	; tag = 007
    matchKey= ""it's"";
charz
    =
uint16 ; } // @lengthOf(
options {
msg_type =007  ;
    stringy
=
    ""`tick`""stringy =
    007 ;}
")).
Eval vm_compute in ("<<<M567>>>" ++ check (runes_of_ascii "MetaData u
    { } MetaData MetaData o
{ float uint8x
`100% of %d` ,repeatCount u8x, string_ leftPad
, i32
    Foo , int64 x `two words` , calculatedFrom
stringy `a\` ,
}
")).
Eval vm_compute in ("<<<M688>>>" ++ check (runes_of_ascii "MetaData u
    { } MetaData o
{ float uint8x
`100% of %d` ,repeatCount u8x, string_ leftPad
, i32
    Foo , int64 x `two words` , calculatedFrom
stringy `a\` ,
char
")).
Eval vm_compute in ("<<<M1697>>>" ++ check (runes_of_ascii "MetaData u {
}

MetaData o {
    float uint8x `100% of %d`,
    u64 u8x,
    string_ leftPad,
    i32 Foo,
    int64 x `two words`,
    calculatedFrom stringy `a\`,
}")).
Eval vm_compute in ("<<<M633>>>" ++ check (runes_of_ascii "MetaData u
    { } MetaData o
{ float uint8x
`100% of %d` ,repeatCount u8x, string_ leftPad
, Foo
    i32 , int64 x `two words` , calculatedFrom
stringy `a\` ,
}
")).
Eval vm_compute in ("<<<M358>>>" ++ check (runes_of_ascii "  packet
// 50% %s
// @lengthOf(
len{ @rightPad ( ' '
)uint8x asx `// not a comment` , @calculatedFrom( ""// no comment""
) // @lengthOf(
repeat f64 uint8x`a\` , }")).
Eval vm_compute in ("<<<M691>>>" ++ check (runes_of_ascii "MetaData u
    { } MetaData o
{ float uint8x
`100% of %d` ,repeatCount u8x, string_ leftPad
, i32
    Foo , int64 x `two words` , calculatedFrom
stringy `a")).
Eval vm_compute in ("<<<M666>>>" ++ check (runes_of_ascii "MetaData u
    { } MetaData o
{ float uint8x
`100% of %d` ,repeatCount u8x, string_ leftPad
, i32
    Foo , int64 x `two words` , 
stringy `a\` ,
}
")).
Eval vm_compute in ("<<<M1404>>>" ++ check (runes_of_ascii "packet A {
    Inner {
        u8 x `x
                `,
        Deep {
            u8 y `x
                        `,
        },
    },
}")).
Eval vm_compute in ("<<<M1738>>>" ++ check (runes_of_ascii "packet A {
    match k as n {
        [
            1, 22, 007, 4, 5,
            66, 7, 8, 9
        ] : B,
        2 : C,
    },
}")).
Eval vm_compute in ("<<<M1904>>>" ++ check (runes_of_ascii "packet  A
    {
match k
as  n
{ [ 1,22,""c c""

, 4, 5 ,

""f""
    ,
	7
	,

    8
    ,
	""i""
	]	:
	B
	2
	:  C

    }, }
")).
Eval vm_compute in ("<<<M992>>>" ++ check (runes_of_ascii "packet A {
    match k as n {
        ""%d%s"" : B,
        [""%d%s"", 1] : C,
        [1,2,3,4,5,""%d%s""] : D,
    },
}")).
Eval vm_compute in ("<<<M1221>>>" ++ check (runes_of_ascii "options { } options { MetaDataX = char ; } // c
MetaData Pad { i8 metadata , string stringy , int8 As `{ , }` , }")).
Eval vm_compute in ("<<<M891>>>" ++ check (runes_of_ascii "packet A {
  match k as n {
    [""a"", ""bb"", ""c c"", ""d"", ""e"", ""f"", ""g"", ""h"", ""i"", ""j"", ""k""] : B,
    2 : C
  },
}")).
Eval vm_compute in ("<<<M1953>>>" ++ check (runes_of_ascii "
packet B {	u8 
a, string
    s
,
} 
root	packet P { u16
    L@lengthOf( B  )

    ,B ,

    u8 t , }")).
Eval vm_compute in ("<<<M1737>>>" ++ check (runes_of_ascii "packet  A
{

    match 
k
as n	{

    [	""a""
,

    22 , ""c c""  , 4 
]	: 
B , 
2  :
	C} ,
}

")).
Eval vm_compute in ("<<<M930>>>" ++ check (runes_of_ascii "packet A {
    Inner {
        u8 x `
`,
        Deep {
            u8 y `
`,
        },
    },
}")).
Eval vm_compute in ("<<<M1519>>>" ++ check (runes_of_ascii "options 
        //
  {
	MetaDataX // " ++ [128512]%N ++ runes_of_ascii " emoji
    =

false	crc = char[]
	// a // b
  //x
}
")).
Eval vm_compute in ("<<<M848>>>" ++ check (runes_of_ascii "packet A {
  match k as n {
    [""a"", ""bb"", 007, ""d"", ""e"", 66, ""g""] : B
    2 : C
  },
}")).
Eval vm_compute in ("<<<M625>>>" ++ check (runes_of_ascii "MetaData u
    { } MetaData o
{ float uint8x
`100% of %d` ,repeatCount u8x, string_")).
Eval vm_compute in ("<<<M851>>>" ++ check (runes_of_ascii "packet A {
  match k as n {
    [1, 22, 007, 4, 5, 66, 7, 8] : B
    2 : C
  },
}")).
Eval vm_compute in ("<<<M1409>>>" ++ check (runes_of_ascii "packet
    A{ 
match	k
    as
n
{[""a"" ,
    ""bb""]:

B
,
	2
	:

C}
	,
    }")).
Eval vm_compute in ("<<<M805>>>" ++ check (runes_of_ascii "packet A {
  match k as n {
    [""a"", 22, ""c c"", 4] : B
    2 : C
  },
}")).
Eval vm_compute in ("<<<M1618>>>" ++ check (runes_of_ascii "MetaData u8x {
    uint8 T `" ++ [233]%N ++ runes_of_ascii "`,
    i32 MetaDataX,
    float32 crc,
}")).
Eval vm_compute in ("<<<M1120>>>" ++ check (runes_of_ascii "// top
MetaData
    // c0
tag
    // c1
{
    // c2
}
    // c3
")).
Eval vm_compute in ("<<<M773>>>" ++ check (runes_of_ascii "packet A {
  match k as n {
    [""a""] : B,
    2 : C
  },
}")).
Eval vm_compute in ("<<<M1089>>>" ++ check (runes_of_ascii "packet A { match k as n { 1 : B // a // b 2 : C }, }")).
Eval vm_compute in ("<<<M1092>>>" ++ check (runes_of_ascii "packet A {} packet B {} MetaData M {} options {}")).
Eval vm_compute in ("<<<M990>>>" ++ check (runes_of_ascii "options {
    a = ""%d%s"";
    b = ""%d%s""
}")).
Eval vm_compute in ("<<<M762>>>" ++ check (runes_of_ascii "= options match """ ++ [233]%N ++ runes_of_ascii "t" ++ [233]%N ++ runes_of_ascii """ uint32 ; ""CRC32""")).
Eval vm_compute in ("<<<M1190>>>" ++ check (runes_of_ascii "options { A =
// c
""// no comment"" }")).
Eval vm_compute in ("<<<M192>>>" ++ check (runes_of_ascii "
options
    { asx = false
;  }
")).
Eval vm_compute in ("<<<M1042>>>" ++ check (runes_of_ascii "packet A {
 u8 x `d" ++ [8239]%N ++ runes_of_ascii "`, // c" ++ [8239]%N ++ runes_of_ascii "
}")).
Eval vm_compute in ("<<<M1522>>>" ++ check (runes_of_ascii "  packet int {	} 
	//	t
 
")).
Eval vm_compute in ("<<<M1144>>>" ++ check (runes_of_ascii "root
// c
packet a1 { }")).
Eval vm_compute in ("<<<M1847>>>" ++ check (runes_of_ascii "MetaData tag {
}
// c")).
Eval vm_compute in ("<<<M1036>>>" ++ check (runes_of_ascii "// c" ++ [8233]%N ++ runes_of_ascii "
packet A {
}")).
Eval vm_compute in ("<<<M1028>>>" ++ check (runes_of_ascii "packet A {
}// c" ++ [8232]%N)).
Eval vm_compute in ("<<<M123>>>" ++ check (runes_of_ascii "
packet _x {}
")).
Eval vm_compute in ("<<<M1014>>>" ++ check (runes_of_ascii "// c" ++ [5760]%N)).
