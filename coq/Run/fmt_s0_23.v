From FP Require Import Lexer Parser ShowPT Digest Formatter.
From Coq Require Import String List NArith.
Import ListNotations.
Open Scope string_scope.
Set Printing Width 100000000.
Set Printing Depth 100000000.
Definition show_fres (r : fres) : string :=
  match r with
  | FOk s => "OK:" ++ sh_escaped s ""
  | FErr s => "ERR:" ++ sh_escaped s ""
  | FPanic p => "PANIC:" ++ p
  end.
Definition check (rs : list rune) : string := digest (show_fres (format_res rs)).
Definition full (rs : list rune) : string := show_fres (format_res rs).
Eval vm_compute in ("<<<M1582>>>" ++ check (runes_of_ascii "
MetaData Logon
    {	zchar[ 7 ]
	BodyLength	,
	char
Header
    , 

// @lengthOf(
int8 
x_y_z  // @lengthOf(
    `u8 x,`,
	i32
falsey ,//
int16

lengthOf`two words` ,

    }
    root packet options1
{

repeat A BodyLength, metadata {
	u64
	calculatedFrom
``  ,
	}

    ,	body{ i16
matchKey ,
uint16 packetx`// not a comment`

    , 
a1 	 // 50% %s
  `` ,repeat

    packetx 
    // " ++ [27880; 37322]%N ++ runes_of_ascii "
  , }
    ,body u8x
`a\` 
,

@tag( 
10
	)
    @tag(

00  )
    // c
	@rightPad (  '\x00'  )
repeat tag 
{
i16  u

    `" ++ [233]%N ++ runes_of_ascii "`
	, 
}
,
        // a // b
  // c
@lengthOf( u
	)	@calculatedFrom( """ ++ [128512]%N ++ runes_of_ascii """  )
i16

    falsey  ,f32a  @lengthOf(  uint8x ) `it's` , asx

@lengthOf( 	 // 50% %s

Header
)	`two words`
	,
        // `tick` ""quote"" 'q'
	@lengthOf( A//
	)

    @lengthOf( 
int )@calculatedFrom( ""1"" 
)	char[]	uint8x

    ,x_y_z@lengthOf(
    Foo

) 
`crlf
line` 
, 
} packet	// @lengthOf(
    stringy { repeat 
string len

    ,
@calculatedFrom( 
""{,}""
)repeat
	o //

{ u64 float,

    }, 
match  i64_ as 
Pad  {
[1
] :
    roots
    ,""it's"" 
	// packet A { u8 x, }
	: 	 // @lengthOf(
	uint8x 
1

    :

MetaDataX	,
[

255
    ,	""a\""b""	,	// `tick` ""quote"" 'q'
	""" ++ [233]%N ++ runes_of_ascii "t" ++ [233]%N ++ runes_of_ascii """  //	t
    ,65535 ,
4294967296,7
	,	0123456789 ] 
: 
len 
,
255:metadata, ""it's"" 
:
calculatedFrom ,
// `tick` ""quote"" 'q'
    	}  ,
    @lengthOf(  msg_type
    ) falsey@calculatedFrom(	""" ++ [28040; 24687]%N ++ runes_of_ascii """	)
,repeat	char[]	trueish ,zchar[1  ]  A ,  // `tick` ""quote"" 'q'
  repeat
	metadata 
{
zchar[ 
  // c

  //x

	7
    ]

Pad  ,	} 
,@tag( 3  //
) i32  body

`u8 x,`
    ,	} // trailing space ")).
Eval vm_compute in ("<<<M1503>>>" ++ check (runes_of_ascii "  options { packetx 	 /// triple
	  =42
;	}  root packet 
falsey{ @tag(  1 )
	crc {	repeat 
char[007

] charz	// 50% %s
	  `it's`
	,repeat
u8  len `
`
    ,
	crc
trueish 
,
}
	,	match
float  as

string_
{	""x y"" 
:  
      // " ++ [27880; 37322]%N ++ runes_of_ascii "
	  //
zchar ,""" ++ [128512]%N ++ runes_of_ascii """
	    // " ++ [128512]%N ++ runes_of_ascii " emoji
	  : string_ 
// trailing space 
  	// @lengthOf(
  ,
""CRC32""
	:

options1 ,  [ ""1"" 	 // c
  ]:	crc  ,

""packet""	// " ++ [27880; 37322]%N ++ runes_of_ascii "
	:
options1	,
	[	42,	""a	b""
    , 
      // trailing space 
    """ ++ [233]%N ++ runes_of_ascii "t" ++ [233]%N ++ runes_of_ascii """	/// triple

	,
""abc""

    ,

0123456789
,

    ""{,}""
,	// trailing space 
	  00 , """ ++ [233]%N ++ runes_of_ascii "t" ++ [233]%N ++ runes_of_ascii """// packet A { u8 x, }
    ]:
asx
}
	,repeat f64 charz  , @tag(10  )repeat
charz

Logon

,
	@lengthOf(

u8x )
@calculatedFrom(""a\""b"")
	@rightPad// @lengthOf(
	(
' '
) 
u8 
a1	`u8 x,` ,
}
	packet falsey
{ repeat
    char[]zchar
, @tag(255
    ) @calculatedFrom(
	""`tick`"" )char[] asx 
`say ""hi""`
	,	u8
	As 
`u8 x,` , 	 // 50% %s
  zchar[

00	]
    uint8x	@lengthOf(// packet A { u8 x, }
  zchar  )
	,
char[  255  ]	uint8x ,
    Pad	@lengthOf(

    // packet A { u8 x, }
  _x )
`" ++ [233]%N ++ runes_of_ascii "`
    , _x 
,
@rightPad (  ' '

    )uint16
    BodyLength/// triple
  ,	@lengthOf(
	int  // " ++ [128512]%N ++ runes_of_ascii " emoji
  )
metadata
tag
	,
	int64 string_  `
` , 
} root

    packet

    o
{ } options // packet A { u8 x, }

  {
} ")).
Eval vm_compute in ("<<<M237>>>" ++ check (runes_of_ascii "options
    { }
packet
x{ repeat // trailing space 
rootA {
    repeat string Header , } ,
chars	float , @tag(65535
)
x_y_z { repeat	T`// not a comment` ,string string_ /// triple
@lengthOf( x_y_z) `say ""hi""`, Header len  ``,	string lengthOf , }, @tag(  0123456789
)match crc
as BodyLength{ ""\" ++ [233]%N ++ runes_of_ascii """	:	repeatCount 65535//x
: i8i8 ,
0  : A  ,
    [ ""a	b"" ,  7	] :packetx , }, @lengthOf(charz	) match
    body as uint8x{// 50% %s
00:	stringy
    [007 , ""`tick`"" // 50% %s
, ""\n"" ]	:
T [ ""// no comment"", ""a\\""] : float , [ 10
] : //x
A , ""a	b"": //	t
roots	}
    , pack { match // a // b
Pad as
    calculatedFrom { 255
    :string_""" ++ [28040; 24687]%N ++ runes_of_ascii """
    :  i64_,}  , // " ++ [27880; 37322]%N ++ runes_of_ascii "
uint32  matchKey@calculatedFrom(
    ""1""
    // 50% %s
    ) ,len leftPad , repeat MetaDataX{ i64
// " ++ [128512]%N ++ runes_of_ascii " emoji
//
len , }
    ,
    } ,char[]tag
// packet A { u8 x, }
//x
@calculatedFrom( ""packet"" )
// `tick` ""quote"" 'q'
// a // b
`line1
line2`, float , uint8x
    @lengthOf(
crc )
    `it's`,
    @tag(	007 )
float32 tag @calculatedFrom(""" ++ [233]%N ++ runes_of_ascii "t" ++ [233]%N ++ runes_of_ascii """) , }
")).
Eval vm_compute in ("<<<M1913>>>" ++ check (runes_of_ascii "
// a // b
root

packet 
uint8x { repeat
x

    {	tag

@calculatedFrom( ""// no comment"") `it's` ,  } ,
    //x
	A 
	//	t
    // @lengthOf(
  @calculatedFrom( // trailing space 
  ""abc""
    ), uint64 zchar	, 

    //	t
    //	t
	zchar[

7
    ]
msg_type,

@calculatedFrom(  """ ++ [28040; 24687]%N ++ runes_of_ascii """ 
// " ++ [27880; 37322]%N ++ runes_of_ascii "
  )
    crc  ,
        // `tick` ""quote"" 'q'
f32a
Pad , 
Header

// 50% %s
	//x
  ,  // trailing space 

zchar[
42] x
    @calculatedFrom(  ""\n""  )  `" ++ [28040; 24687; 31867; 22411]%N ++ runes_of_ascii "`
,

string len
,  }  packet

    falsey{

// " ++ [27880; 37322]%N ++ runes_of_ascii "
  i64_ 
@calculatedFrom( ""{,}"") ,repeat
    string

    chars
    ,
	// `tick` ""quote"" 'q'
  	zchar[	7 ]

calculatedFrom , Header

    {char
	u
	`crlf
line`	, repeat

char[] 
tag `a\`
    ,
	Z9_

@lengthOf(

T
	)  // " ++ [27880; 37322]%N ++ runes_of_ascii "
	  `say ""hi""`,

    } 
, 
    /// triple
  // " ++ [27880; 37322]%N ++ runes_of_ascii "
  msg_type@calculatedFrom(  ""// no comment"" 
)
,  @rightPad	(
'\x00' 
)  @lengthOf(
	asx 
)
falsey ,
} 	 // a // b
")).
Eval vm_compute in ("<<<M44>>>" ++ check (runes_of_ascii "MetaData BodyLength {} packet x_y_z
{
@lengthOf(  roots )
    A { // " ++ [128512]%N ++ runes_of_ascii " emoji
repeat
    zchar[0123456789  ]
    Z9_`a\`, },
}
    options // packet A { u8 x, }
{ Pad =
    ""x y"" ; // trailing space 
trueish
=
true body =
3 ; matchKey=
true //x
; i64_ =
    char[] ; }packet Packet  {char[]
// " ++ [128512]%N ++ runes_of_ascii " emoji
// `tick` ""quote"" 'q'
float@calculatedFrom( ""`tick`"" ) ,char[] charz @calculatedFrom( ""abc"" ) ,match As as
    // packet A { u8 x, }
    asx // @lengthOf(
{ [ """ ++ [28040; 24687]%N ++ runes_of_ascii """, ""`tick`""
, ""{,}"" ,
""{,}"" , ""a	b""
    // " ++ [27880; 37322]%N ++ runes_of_ascii "
    , 1
, ""\" ++ [233]%N ++ runes_of_ascii """	] :	rootA
,
    255:	asx 42
    : a1 , 42 : x_y_z  """" :
    msg_type
,7 : f32a ,	}
,  @leftPad
( '0'
) repeatCount crc `// not a comment`
    ,
@lengthOf(MetaDataX) float64 falsey@calculatedFrom( ""\" ++ [233]%N ++ runes_of_ascii """ ) `" ++ [233]%N ++ runes_of_ascii "` , }

")).
Eval vm_compute in ("<<<M1959>>>" ++ check (runes_of_ascii "packet crc {
    // a // b
    @tag(4294967296)
    @leftPad('\x00')
    repeat zchar[4294967296] Packet,
    @leftPad('0')
    @tag(3)
    @tag(7)
    repeat matchKey {
        u32 u,
    },
    @lengthOf(chars)
    /// triple
    @calculatedFrom(""a	b"")
    @tag(0123456789)
    zchar[255] Pad,
    repeat uint64 u128 `two words`,
    @calculatedFrom(""abc"")
    i8 packetx,
    string lengthOf,// " ++ [27880; 37322]%N ++ runes_of_ascii "
}

root packet stringy {
    @leftPad('0')
    matchKey roots,
    // @lengthOf(
    // trailing space 
    @tag(7)
    int8 A @lengthOf(repeatCount) `{ , }`,
    repeat u {
        // " ++ [27880; 37322]%N ++ runes_of_ascii "
        int16 Foo `it's`,
        string u,
    },
}// @lengthOf(")).
Eval vm_compute in ("<<<M1344>>>" ++ check (runes_of_ascii "// top
packet // c0a
  // c0b
u128
    // c1
{ // c2a
  // c2b
u8
    // c3
a ,
    // c5
} // c6a
  // c6b
root // c7a
  // c7b
packet // c8a
  // c8b
Msg // c9
{ // c10a
  // c10b
u8
    // c11
k // c12a
  // c12b
, u24 // c14a
  // c14b
{ // c15
u8 // c16a
  // c16b
Hi
    // c17
, u16 // c19
Lo , // c21
} , // c23a
  // c23b
repeat
    // c24
i24
    // c25
{ // c26
u32
    // c27
q
    // c28
, // c29
} // c30
, // c31
u128 // c32
, // c33
u16 // c34a
  // c34b
float32x , // c36
string // c37a
  // c37b
s // c38a
  // c38b
, // c39a
  // c39b
} // c40a
  // c40b
")).
Eval vm_compute in ("<<<M1515>>>" ++ check (runes_of_ascii "
packet string_ 	 /// triple
  { match

    MetaDataX as  
      /// triple
	  matchKey  {
[
	""1"" ,

    ""x y""	]
: chars  , }

,@leftPad ( ) char[] 
    // c
//	t
      body
@lengthOf( // `tick` ""quote"" 'q'
	int

    ),
	int16

    T
	, string 
      // 50% %s
    	/// triple
  	int@lengthOf(
uint8x)  ,	repeat chars Foo	// `tick` ""quote"" 'q'
  ,}

options { msg_type 

// a // b

=

    true

    f32a
    =""packet"" 
}
root packet u128  { zchar[007 ]
    metadata
	@lengthOf( int) `100% of %d`  ,
	}")).
Eval vm_compute in ("<<<M1527>>>" ++ check (runes_of_ascii "MetaData o {
    charz calculatedFrom `
    `,
    float64 rootA,
}

packet A {
    asx @lengthOf(packetx) `u8 x,`,
    @lengthOf(packetx)
    a1 {
        int32 matchKey @lengthOf(asx) `" ++ [28040; 24687; 31867; 22411]%N ++ runes_of_ascii "`,
        Header `{ , }`,
        repeat f64 falsey `100% of %d`,
    },
    repeat u32 lengthOf,
    u64 Z9_,
    /// triple
    @lengthOf(_x)
    packetx {
        _x,/// triple
    },
    zchar[1] a1 @lengthOf(chars),
    u64 crc `100% of %d`,
    char[65535] chars,
}

root packet int {
}")).
Eval vm_compute in ("<<<M77>>>" ++ check (runes_of_ascii "packet string_ /// triple
{ match
MetaDataX as
    /// triple
    matchKey {[ ""1"" , ""x y"" ]
: chars,
}, @leftPad
    ( ) char[]
// c
//	t
body @lengthOf( // `tick` ""quote"" 'q'
int ) , int16
T
, string
// 50% %s
/// triple
int  @lengthOf( uint8x ),repeat chars Foo // `tick` ""quote"" 'q'
, }	options {
    msg_type
    // a // b
    =true
    f32a =  ""packet"" } root packet u128{	zchar[
007] metadata  @lengthOf( int)
`100% of %d`,
    }")).
Eval vm_compute in ("<<<M95>>>" ++ check (runes_of_ascii "root packet leftPad  {T
@lengthOf(	A )
`" ++ [28040; 24687; 31867; 22411]%N ++ runes_of_ascii "` , Header@lengthOf( // trailing space 
As  ) ,
string calculatedFrom
`" ++ [233]%N ++ runes_of_ascii "` , @calculatedFrom(// " ++ [128512]%N ++ runes_of_ascii " emoji
""a	b"") repeat x_y_z {
    char[]T , uint8x { char[
007]
    Packet @calculatedFrom( ""`tick`""
)`100% of %d`
,
    } ,
} ,
char[]
    T @lengthOf( f32a
) ,
    //x
    options1 Z9_//	t
,
char[ 007 ] body `it's` , repeat zchar[42 ]
Packet `{ , }` , } // a // b")).
Eval vm_compute in ("<<<M1534>>>" ++ check (runes_of_ascii "packet o {
    zchar[7] f32a @calculatedFrom(""a\""b""),
    @lengthOf(pack)
    options1,
    @calculatedFrom(""abc"")
    Header,
    @lengthOf(Logon)
    zchar[4294967296] asx @lengthOf(u) `100% of %d`,
    @leftPad(' ')
    @calculatedFrom(""`tick`"")
    uint16 x_y_z `doc`,
    @tag(00)
    zchar[1] u,
    @calculatedFrom(""a\""b"")
    //
    u8x uint8x,
    char[1] metadata,
}")).
Eval vm_compute in ("<<<M1919>>>" ++ check (runes_of_ascii "
packet
B 	 // c1a

	// c1b
  { 

    // c2
  u8	// c3
a 	 // c4
  ,

    string // c6a
  // c6b
s
,  }  root	// c10a
      // c10b
  packet 
      // c11
  P	// c12a
  // c12b
  	{  // c13
  u16	// c14
      L@lengthOf(	// c16
    B	// c17a
    // c17b
		)

    // c18
      ,	// c19
B
, 	 // c21
	  u8 t ,

    }	// c25a
// c25b
 
")).
Eval vm_compute in ("<<<M1763>>>" ++ check (runes_of_ascii "packet A {
    u8 a,
}

packet B {
    u16 b,
}

packet C {
    u32 c,
}

root packet M {
    u16 Kc,
    u16 Kb,
    u16 Ka,
    match Kc as X {
        9 : A,
        10 : B,
    },
    match Kb as Y {
        2 : C,
        1 : A,
    },
    match Ka as Z {
        1 : B,
    },
    A,
    B,
    C,
}")).
Eval vm_compute in ("<<<M1198>>>" ++ check (runes_of_ascii "// top
options // c0
{ // c1
} // c2
options // c3
{ // c4
MetaDataX // c5
= // c6
char // c7
; // c8
} // c9
MetaData // c10
Pad // c11
{ // c12
i8 // c13
metadata // c14
, // c15
string // c16
stringy // c17
, // c18
int8 // c19
As // c20
`{ , }` // c21
, // c22
} // c23
")).
Eval vm_compute in ("<<<M308>>>" ++ check (runes_of_ascii "MetaData packetx
    { zchar[ 255 ]	u128`" ++ [233]%N ++ runes_of_ascii "` ,  } packet Pad {
repeat crc ,
zchar[
10 ]  calculatedFrom `{ , }`
,}packet _x
    {@lengthOf(
roots )match Header
as metadata
    // " ++ [27880; 37322]%N ++ runes_of_ascii "
    {  [ 10
    ]	:pack } , char[
255 ] // 50% %s
Logon
, } // a // b")).
Eval vm_compute in ("<<<M162>>>" ++ check (runes_of_ascii "options {i8i8
    =	""\n"" Header =
""x y""
; /// triple
} root
    packet
    A { match charz as
    T
    {
    //
    0:// trailing space 
options1// `tick` ""quote"" 'q'
}, }  packet float/// triple
{ @rightPad ( ) repeat metadata`u8 x,` , }
")).
Eval vm_compute in ("<<<M539>>>" ++ check (runes_of_ascii "packet
    asx { @calculatedFrom(
""""  ) @tag( 255 )repeat
// packet A { u8 x, ?}
// trailing space 
int16 u8x
,
@tag(
    //
    007 )
    @tag( 0
    /// triple
    ) @tag( 1) u
    @lengthOf( T ),
// `tick` ""quote"" 'q'
//x
} // " ++ [128512]%N ++ runes_of_ascii " emoji")).
Eval vm_compute in ("<<<M503>>>" ++ check (runes_of_ascii "packet
    asx { @calculatedFrom(
""""  ) @tag( 255 )repeat
// packet A { u8 x, }
// trailing space 
int16 u8x
,
@tag(
    //
    007 )
    @tag( 0
    /// triple
    ) @tag( 1) u
    T @lengthOf( ),
// `tick` ""quote"" 'q'
//x
} // " ++ [128512]%N ++ runes_of_ascii " emoji")).
Eval vm_compute in ("<<<M456>>>" ++ check (runes_of_ascii "packet
    asx { @calculatedFrom(
""""  ) @tag( 255 )repeat
// packet A { u8 x, }
// trailing space 
int16 u8x
,
@tag(
    //
     )
    @tag( 0
    /// triple
    ) @tag( 1) u
    @lengthOf( T ),
// `tick` ""quote"" 'q'
//x
} // " ++ [128512]%N ++ runes_of_ascii " emoji")).
Eval vm_compute in ("<<<M221>>>" ++ check (runes_of_ascii "packet msg_type { }  packet
Z9_ {
roots i8i8,	@lengthOf( string_	)
char[
255
]i64_ , repeat u16 packetx `it's`
, char[ 255  ]
u8x	,
@rightPad(
'0') @tag(  0123456789
) zchar[ 7 ]tag
    `tab	here` ,u32
charz ``, }
")).
Eval vm_compute in ("<<<M1336>>>" ++ check (runes_of_ascii "  root

packet

Frame

{

    u8  K
	,

    Logon

first , match

K as Body

{
1
	:
	Logon,
	2
: Logout
    ,
}  , } packet

Logon {string user	,
    }

packet

    Logout
{u16 reason	,	} ")).
Eval vm_compute in ("<<<M151>>>" ++ check (runes_of_ascii "
MetaData u128 {zchar[
// " ++ [128512]%N ++ runes_of_ascii " emoji
// 50% %s
4294967296 ]
lengthOf`a\`, } packet
    leftPad {
@rightPad('0') calculatedFrom float // 50% %s
`" ++ [28040; 24687; 31867; 22411]%N ++ runes_of_ascii "` , char[255	]
    metadata , }")).
Eval vm_compute in ("<<<M302>>>" ++ check (runes_of_ascii "MetaData o	{ } MetaData
Header{  repeatCount matchKey  ,}
packet	As{// c
@tag(0123456789 ) char[]
    //	t
    tag
,
    @calculatedFrom(
""x y""
) crc
    `it's` ,
    }
")).
Eval vm_compute in ("<<<M597>>>" ++ check (runes_of_ascii "MetaData u
    { } MetaData o
{ float uint8x
`100% of %d` , ,repeatCount u8x, string_ leftPad
, i32
    Foo , int64 x `two words` , calculatedFrom
stringy `a\` ,
}
")).
Eval vm_compute in ("<<<M554>>>" ++ check (runes_of_ascii "MetaData [
    { } MetaData o
{ float uint8x
`100% of %d` ,repeatCount u8x, string_ leftPad
, i32
    Foo , int64 x `two words` , calculatedFrom
stringy `a\` ,
}
")).
Eval vm_compute in ("<<<M250>>>" ++ check (runes_of_ascii "packet _x { @calculatedFrom( ""packet"" ) char[]
    T
    `" ++ [28040; 24687; 31867; 22411]%N ++ runes_of_ascii "`
,@calculatedFrom(
""" ++ [28040; 24687]%N ++ runes_of_ascii """	) f64
pack `" ++ [233]%N ++ runes_of_ascii "` , @calculatedFrom(
""a	b"" ) repeat crc`100% of %d` //
,
}
")).
Eval vm_compute in ("<<<M706>>>" ++ check (runes_of_ascii "MetaData u
    { } MetaData o
{ float x" ++ [178]%N ++ runes_of_ascii "
`100% of %d` ,repeatCount u8x, string_ leftPad
, i32
    Foo , int64 x `two words` , calculatedFrom
stringy `a\` ,
}
")).
Eval vm_compute in ("<<<M601>>>" ++ check (runes_of_ascii "MetaData u
    { } MetaData o
{ float uint8x
`100% of %d` , u8x, string_ leftPad
, i32
    Foo , int64 x `two words` , calculatedFrom
stringy `a\` ,
}
")).
Eval vm_compute in ("<<<M1903>>>" ++ check (runes_of_ascii "

  packet
	A {
match

k
as 
n
{[ 1 ,

    22	,

    007 
, 
4  ,

    5	,
66
,
	7  , 8 ,
9
,  10
    ,
11
    ] :B

,
2 : C } ,
    } ")).
Eval vm_compute in ("<<<M465>>>" ++ check (runes_of_ascii "packet
    asx { @calculatedFrom(
""""  ) @tag( 255 )repeat
// packet A { u8 x, }
// trailing space 
int16 u8x
,
@tag(
    //
    007")).
Eval vm_compute in ("<<<M54>>>" ++ check (runes_of_ascii "// trailing space 
packet
stringy
{	repeat char[]  roots , @leftPad
    //x
    (// c
' '  )char T `// not a comment`
    ,//
}
")).
Eval vm_compute in ("<<<M1473>>>" ++ check (runes_of_ascii "options {
    charz = ""a\\""
    // trailing space 
    rootA = ""packet"";
    x = ""a	b"";
    // " ++ [27880; 37322]%N ++ runes_of_ascii "
    rootA = string
}")).
Eval vm_compute in ("<<<M1212>>>" ++ check (runes_of_ascii "options { } options {
// c
MetaDataX = char ; } MetaData Pad { i8 metadata , string stringy , int8 As `{ , }` , }")).
Eval vm_compute in ("<<<M1244>>>" ++ check (runes_of_ascii "options { } options { MetaDataX = char ; } MetaData Pad { i8 metadata , string stringy , int8 As
// c
`{ , }` , }")).
Eval vm_compute in ("<<<M899>>>" ++ check (runes_of_ascii "packet A {
  match k as n {
    [""a"", ""bb"", 007, ""d"", ""e"", 66, ""g"", ""h"", 9, ""j"", ""k""] : B,
    2 : C
  },
}")).
Eval vm_compute in ("<<<M886>>>" ++ check (runes_of_ascii "packet A {
  match k as n {
    [""a"", ""bb"", 007, ""d"", ""e"", 66, ""g"", ""h"", 9, ""j""] : B,
    2 : C
  },
}")).
Eval vm_compute in ("<<<M345>>>" ++ check (runes_of_ascii "
options
    { Packet//x
=""a\\""
Logon
    = true f32a
    = true // 50% %s
;falsey = false
; }")).
Eval vm_compute in ("<<<M385>>>" ++ check (runes_of_ascii "root packet SimpleMessage {
    uint16 MsgType `" ++ [28040; 24687; 31867; 22411]%N ++ runes_of_ascii "`,
    string JsonBody `Json" ++ [23383; 31526; 20018; 28040; 24687; 20307]%N ++ runes_of_ascii "`,
}")).
Eval vm_compute in ("<<<M876>>>" ++ check (runes_of_ascii "packet A {
  match k as n {
    [1, 22, 007, 4, 5, 66, 7, 8, 9, 10] : B,
    2 : C
  },
}")).
Eval vm_compute in ("<<<M286>>>" ++ check (runes_of_ascii "// a // b
root packet falsey {
    }	options {Pad//
= // " ++ [27880; 37322]%N ++ runes_of_ascii "
f32 } root packet T { }")).
Eval vm_compute in ("<<<M831>>>" ++ check (runes_of_ascii "packet A {
  match k as n {
    [""a"", 22, ""c c"", 4, ""e"", 66] : B
    2 : C
  },
}")).
Eval vm_compute in ("<<<M620>>>" ++ check (runes_of_ascii "MetaData u
    { } MetaData o
{ float uint8x
`100% of %d` ,repeatCount u8x,")).
Eval vm_compute in ("<<<M1910>>>" ++ check (runes_of_ascii "// c
packet options1 {
    options1 x,
}

options {
    Logon = float32
}")).
Eval vm_compute in ("<<<M1294>>>" ++ check (runes_of_ascii "root packet P {
    u16 a,
    u32 Sum @calculatedFrom(""CR\
C32""),
}
")).
Eval vm_compute in ("<<<M1120>>>" ++ check (runes_of_ascii "// top
MetaData
    // c0
tag
    // c1
{
    // c2
}
    // c3
")).
Eval vm_compute in ("<<<M773>>>" ++ check (runes_of_ascii "packet A {
  match k as n {
    [""a""] : B,
    2 : C
  },
}")).
Eval vm_compute in ("<<<M280>>>" ++ check (runes_of_ascii "packet T{ zchar[  7
]  charz , } packet MetaDataX { }
")).
Eval vm_compute in ("<<<M222>>>" ++ check (runes_of_ascii "options// packet A { u8 x, }
{ i8i8 = '\x00' }
")).
Eval vm_compute in ("<<<M124>>>" ++ check (runes_of_ascii "packet A { repeat f64 A , } // @lengthOf(")).
Eval vm_compute in ("<<<M190>>>" ++ check (runes_of_ascii "MetaData i8i8 {// a // b
int8 As , }
")).
Eval vm_compute in ("<<<M1553>>>" ++ check (runes_of_ascii "root
packet

    P { string 
s ,} ")).
Eval vm_compute in ("<<<M1933>>>" ++ check (runes_of_ascii "MetaData u128 {
    body float,
}")).
Eval vm_compute in ("<<<M1012>>>" ++ check (runes_of_ascii "packet A {
 u8 x `d" ++ [133]%N ++ runes_of_ascii "`, // c" ++ [133]%N ++ runes_of_ascii "
}")).
Eval vm_compute in ("<<<M1929>>>" ++ check (runes_of_ascii "  packet  A
	{}
	    // c 
")).
Eval vm_compute in ("<<<M157>>>" ++ check (runes_of_ascii "MetaData x_y_z
    { }
")).
Eval vm_compute in ("<<<M1128>>>" ++ check (runes_of_ascii "MetaData tag { // c
}")).
Eval vm_compute in ("<<<M1035>>>" ++ check (runes_of_ascii "packet A {
}
// c" ++ [8233]%N)).
Eval vm_compute in ("<<<M1018>>>" ++ check (runes_of_ascii "packet A {
}// c" ++ [8192]%N)).
Eval vm_compute in ("<<<M1832>>>" ++ check (runes_of_ascii "packet i64_ {
}")).
Eval vm_compute in ("<<<M994>>>" ++ check (runes_of_ascii "// c ")).
Eval vm_compute in ("<<<M729>>>" ++ check (runes_of_ascii "/")).
