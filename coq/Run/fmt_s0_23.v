From FP Require Import Lexer Parser ShowPT Digest Formatter.
From Coq Require Import String List NArith.
Import ListNotations.
Open Scope string_scope.
Set Printing Width 100000000.
Set Printing Depth 100000000.
Definition show_fres (r : fres) : string :=
  match r with
  | FOk s => "OK:" ++ sh_escaped s ""
  | FErr s => "ERR:" ++ sh_escaped s ""
  | FPanic p => "PANIC:" ++ p
  end.
Definition check (rs : list rune) : string := digest (show_fres (format_res rs)).
Definition full (rs : list rune) : string := show_fres (format_res rs).
Eval vm_compute in ("<<<M1736>>>" ++ check (runes_of_ascii "// top
options  // c0a
// c0b

	{	// c1
ArrayPrefixLenType 

    // c2
=

// c3
    	u64  // c4a
      // c4b
		;// c5
    FixedStringPadFromLeft

    // c6
		= true 
    // c8
  ;  // c9a

// c9b
    FixedStringPadChar// c10
    =  
  // c11

	'0'
	    // c12

; } 
// c14
    packet
    // c15

Quote 	 // c16

{	// c17a
      // c17b
    }  // c18a
		// c18b
packet	// c19
    Ack// c20a
      // c20b
    	{

    repeat  // c22
  InNote66 {  // c24a
// c24b
    u8 	 // c25a
    	// c25b
	  pad0 	 // c26

, 

    // c27
	}// c28

, // c29
	}	// c30

  packet 
// c31
  Reject	// c32a
	// c32b
	{ 
// c33
	}// c34a
    // c34b
    	root  // c35
	  packet// c36a
    // c36b
      Order
// c37
    {  // c38

  Quote // c39
,
	repeat // c41
    Reject ,// c43a
  	// c43b
    string
// c44
  venue

    // c45
  ,

string
    // c47

	seqNo// c48a
	// c48b
		, // c49
  uint32
    // c50
      Ref	// c51a
		// c51b
,	// c52a
  // c52b
	u16  // c53a
	// c53b
	lastPx

// c54
  	,

    // c55
  u32  // c56a
// c56b
	  clOrdID 	 // c57
  @lengthOf(
    // c58
	Body)	// c60
  ,  // c61a
// c61b
	match

// c62

lastPx 	 // c63
as// c64a

	// c64b
Body 	 // c65a
  // c65b
		{
    190 // c67
    : // c68a
// c68b
Reject // c69
      ,
// c70
  186:	// c72a

  // c72b

Quote
	,

    // c74
		22
: 
      // c76
  Ack 
    // c77
  , 	 // c78

  }	// c79
, 

    // c80
    u16 // c81a
      // c81b
    Flags// c82
@calculatedFrom(// c83a
		// c83b
  ""CRC32""
	) ,	// c86
} 	 // c87a

// c87b
")).
Eval vm_compute in ("<<<M1786>>>" ++ check (runes_of_ascii "
// trailing space 
    packet 
charz

{	@calculatedFrom(  ""1""

)match	x
as
    tag
    { [
    7 ,// @lengthOf(
0, 65535
	, 
	    // `tick` ""quote"" 'q'
  ""it's""	/// triple

,
0

    ,

    ""x y""

,255 ]	: tag,[

""1""  // a // b
	, 	 //	t

	3
, 007	, // " ++ [27880; 37322]%N ++ runes_of_ascii "
	255 
, ""x y""
	    // @lengthOf(
] 
:

pack
	,

    [
    """ ++ [233]%N ++ runes_of_ascii "t" ++ [233]%N ++ runes_of_ascii """
    ,7 ,
    10  ,	3
,

    0,""a\""b""	] : 
    // packet A { u8 x, }

  leftPad ,
[  65535
// " ++ [27880; 37322]%N ++ runes_of_ascii "
	,

""x y"" 
]
:
chars
	[
""\n""  , 65535
	,""a\\""
]

:
A	,	""\n"" :lengthOf, } , 
match

string_ as  i8i8 {

    7	:msg_type

    , 	 // c
    ""abc"" 
:tag  , ""a\""b"":  metadata	,

    255
	:
matchKey ,[	""CRC32"",
""1"" 
      // " ++ [27880; 37322]%N ++ runes_of_ascii "
// " ++ [128512]%N ++ runes_of_ascii " emoji

, 007 ,	""packet""  , ""a\\""/// triple
      ,
""a\""b"" 
        // " ++ [128512]%N ++ runes_of_ascii " emoji
	  ,007
	,
4294967296
] :
    lengthOf
    , }
,

uint16
pack
    ,	string  Pad @lengthOf(o )
`say ""hi""`

, 
repeat
    i8	body
    ,
@lengthOf(  //x
      crc 
)float64 
body

`// not a comment`
,
    repeat  rootA	{
	int16 
x_y_z

    `tab	here`

    ,

    falsey @calculatedFrom(  ""{,}""
)
, trueish	@lengthOf(  crc) `{ , }`
	,

    } , match
    Pad
	as  Header {	4294967296:Header 
,  ""\n""

    :

msg_type

    , 
""a	b"" 
:
	x_y_z 
,}
,
//	t
  	Logon  ,
}
")).
Eval vm_compute in ("<<<M8>>>" ++ check (runes_of_ascii "// @lengthOf(
packet Pad { zchar[
    0 ]Header @calculatedFrom(
""a	b"" ) // " ++ [27880; 37322]%N ++ runes_of_ascii "
`say ""hi""` , @calculatedFrom(
    ""a\""b"" // a // b
)  body @lengthOf( body// `tick` ""quote"" 'q'
)`say ""hi""` , u16 stringy@lengthOf(
    // trailing space 
    trueish ) , @lengthOf( rootA) f64 Foo `say ""hi""` // c
,u16 Z9_ , x_y_z , }
    MetaData metadata { uint64 x , trueish chars//
,
    asx lengthOf `u8 x,`  ,
} options { body // a // b
=	""packet"" } root
    packet MetaDataX {zchar[
42	]
a1
,Packet x_y_z // " ++ [27880; 37322]%N ++ runes_of_ascii "
, u8 Foo
    `u8 x,` , u64
//	t
/// triple
tag, @tag( 1 //x
)  string x_y_z @calculatedFrom( ""x y"" ) ,f32 Logon	, _x ,charz // a // b
{
    rootA metadata `crlf
line`
    , Header @calculatedFrom( ""\" ++ [233]%N ++ runes_of_ascii """ ) `` ,
i64_`line1
line2`
    // @lengthOf(
    , } ,@lengthOf(
a1// `tick` ""quote"" 'q'
) string
As	`doc`
    , @tag(
1 ) match As
    as	trueish
    //	t
    {
    [ ""`tick`""
    // trailing space 
    ] :charz,  ""packet"": asx , 42  :
packetx, [ ""a\\"" ] :
u }
,
}
/// triple
")).
Eval vm_compute in ("<<<M1791>>>" ++ check (runes_of_ascii "options {
    StringPrefixLenType = u64;
    ArrayPrefixLenType = u32;
    FixedStringPadFromLeft = false;
}

packet Party {
    zchar[7] OrderId,
    InTail6 {
        repeat char[1] msgKind,
        char[3] Tail,
        char[3] Flags,
        i16 tag7,
    },
    @rightPad('0')
    char[12] clOrdID,
}

packet Quote {
    @leftPad('0')
    char[11] price,
    repeat InCount7 {
        i32 x,
        Party,
        u8 Ref,
        u8 tag7,
    },
    char[] seqNo,
    Party,
}

packet Logon {
    @rightPad('\x00')
    char[5] Note,
    i16 sym,
    InPrice72 {
        char[9] Ref,
        zchar[1] venue,
    },
    char[] clOrdID,
}

root packet Reject {
    repeat Logon,
    @leftPad(' ')
    char[4] seqNo,
    zchar[5] Acct,
    u32 x,
    u16 f1 @lengthOf(Body),
    match x as Body {
        [169, 74] : Quote,
        45 : Party,
        7 : Logon,
    },
}")).
Eval vm_compute in ("<<<M1863>>>" ++ check (runes_of_ascii "  packet
	falsey
	{	// `tick` ""quote"" 'q'
repeat
charz 
    /// triple
float	// a // b
  `tab	here`
,

char[] stringy
, 
Logon

    f32a ,char[]

string_ /// triple
	  ,int16  _x

    `` 
,	match /// triple
    crc
	as
    stringy {
""abc"" : Pad
	[""\n""

, 10

    ,4294967296	, 0123456789

,
""abc""	,
	""" ++ [28040; 24687]%N ++ runes_of_ascii """

] :i8i8,10:  
  //x
  Header, 10: 	 // c
  	calculatedFrom
    ,
	0123456789 : charz	10 
:repeatCount
    }
    , leftPad

    @lengthOf( 
u8x
)  ,
	@lengthOf( a1
    )
    repeat

    x
    body , }	MetaData string_

    {
float64
    f32a	,  zchar[
    255]  T,u32	trueish ,BodyLength
roots `two words`	, } 
      // " ++ [128512]%N ++ runes_of_ascii " emoji
    	//	t
    packet

stringy  { zchar[255 ]
    Foo
, }MetaData
	leftPad {	} 	 //

options {
    x	//x
=
true ;
zchar= """"

    } //
")).
Eval vm_compute in ("<<<M93>>>" ++ check (runes_of_ascii "packet float { char[]
    u8x
@lengthOf( roots ) ,
}MetaData leftPad	{ string
    // `tick` ""quote"" 'q'
    a1, }root
packet // " ++ [27880; 37322]%N ++ runes_of_ascii "
pack { falsey,
    /// triple
    match Logon
as // " ++ [128512]%N ++ runes_of_ascii " emoji
trueish
{""packet""
    : Foo ,"""" : len, 0123456789: i64_ , ""it's"" : packetx
    ,
    255
    : len
, }
    , repeat
As As `" ++ [233]%N ++ runes_of_ascii "` , @tag( 3  ) uint32 a1
, repeat  zchar[ 4294967296]
pack	,@leftPad (' ' )  zchar  @lengthOf( string_ ) `// not a comment` , repeat int ,
repeat
i8i8 // " ++ [27880; 37322]%N ++ runes_of_ascii "
{ u64
    // a // b
    tag `say ""hi""`	,u8x , char trueish  , repeat // packet A { u8 x, }
float32
    stringy `line1
line2` ,} ,match o
as	o { 007  : float },
// packet A { u8 x, }
// c
repeat
    Pad ,
// " ++ [27880; 37322]%N ++ runes_of_ascii "
// trailing space 
}")).
Eval vm_compute in ("<<<M58>>>" ++ check (runes_of_ascii "packet pack
// c
// packet A { u8 x, }
{u8 a1
// trailing space 
/// triple
`say ""hi""` // packet A { u8 x, }
, @leftPad (
'\x00' )  uint8 Logon	`
` // `tick` ""quote"" 'q'
,
char[]lengthOf // " ++ [27880; 37322]%N ++ runes_of_ascii "
`" ++ [233]%N ++ runes_of_ascii "` ,
//
//x
repeat char[] As,
    //	t
    @lengthOf(string_ )  @calculatedFrom(
""a\\"" )
    repeat
    u8x	o	, char string_ @calculatedFrom(
""a\""b"" )
`tab	here`
    , repeat As { char[
    // packet A { u8 x, }
    0 ] i64_//	t
@lengthOf( T)
`" ++ [233]%N ++ runes_of_ascii "` , char[4294967296	]
T @calculatedFrom( ""\" ++ [233]%N ++ runes_of_ascii """ )
, trueish
, repeat int
{string Logon @calculatedFrom(	""1"" ) , metadata  ,
uint32
Z9_  , // " ++ [27880; 37322]%N ++ runes_of_ascii "
} , },@tag( 00 ) //	t
i16  a1 `a\`
    ,
    }
")).
Eval vm_compute in ("<<<M1893>>>" ++ check (runes_of_ascii "
packet  charz
{  
  // " ++ [27880; 37322]%N ++ runes_of_ascii "
	/// triple
    repeat	// c
      string

    int

    `" ++ [28040; 24687; 31867; 22411]%N ++ runes_of_ascii "` ,  @calculatedFrom(
""it's"" )
@tag(

255 ) 
f64 	 // a // b
    asx

    ,string
    T`doc` , zchar[

    007 
]
	tag @lengthOf(//
    Z9_	)
`// not a comment`
, } options	{

u
=
u16;}	MetaData
	chars

    { i16
falsey 
,	f64
pack ,

char[ 
1

    ]
    asx	`it's`
	,
char[] body
, 
	    // `tick` ""quote"" 'q'

  //x

  }  packet
	leftPad
    {  @rightPad

    (
// @lengthOf(
    //x
) repeat  Pad  float`{ , }` ,  } options

    {

roots
    =
    true ;

    }
")).
Eval vm_compute in ("<<<M1348>>>" ++ check (runes_of_ascii "  options
{ ArrayPrefixLenType = u64
    ; FixedStringPadFromLeft = true
    ;

    FixedStringPadChar 
=	'0'
	;
}
packet Quote
    {}

packet
Ack	{ repeat
	InNote66
    {
u8
pad0 ,}
, }packet
    Reject

    {
	}

    root packet
    Order
	{	Quote

, repeat	Reject ,

string

venue,
string
seqNo,uint32	Ref
	, 
u16
lastPx
, 
u32 clOrdID
@lengthOf(Body)

,

    match 
lastPx as

    Body { 
190 
:
Reject ,
    186

: Quote,  22:
Ack

,
    }
,u16  Flags @calculatedFrom(  ""CRC32""

    ),	}")).
Eval vm_compute in ("<<<M133>>>" ++ check (runes_of_ascii "MetaData  falsey
{ } root packet // `tick` ""quote"" 'q'
o {@tag(3// " ++ [128512]%N ++ runes_of_ascii " emoji
) @calculatedFrom( """") @lengthOf(
    pack)char[ 65535
    ]falsey
    @lengthOf(falsey ) , }  root packet roots
    {@lengthOf(
chars )match Logon as chars{ ""`tick`"" :charz
    // packet A { u8 x, }
    ""a\\"" :Z9_ 007 : trueish ""CRC32"" :	msg_type , [
3
    ,3 // `tick` ""quote"" 'q'
,
00 ,4294967296 ,
0
,7 , //
""x y"",""\" ++ [233]%N ++ runes_of_ascii """
    //	t
    ] : metadata ,""a	b""
//x
// " ++ [27880; 37322]%N ++ runes_of_ascii "
:	crc } , }
")).
Eval vm_compute in ("<<<M1193>>>" ++ check (runes_of_ascii "// top
MetaData
    // c0
uint8x // c1
{ char[]
    // c3
f32a // c4a
  // c4b
`// not a comment`
    // c5
, // c6a
  // c6b
float32 // c7
roots
    // c8
, // c9
char[ // c10a
  // c10b
7 // c11
] // c12
u8x // c13
, // c14a
  // c14b
zchar[
    // c15
10
    // c16
] // c17
f32a // c18
, // c19a
  // c19b
u64
    // c20
pack // c21a
  // c21b
, u16
    // c23
pack // c24a
  // c24b
,
    // c25
}
    // c26
")).
Eval vm_compute in ("<<<M1794>>>" ++ check (runes_of_ascii "// top
options {
    // c1a
    // c1b
    FixedStringPadChar = '0';
}

packet Q {
    // c9a
    // c9b
    zchar[4] z,// c14
    @rightPad('\x00')
    // c18a
    // c18b
    char[3] n,
    // c23
    char[5] d,
}// c29a

// c29b
root packet R {
    // c33
    Q,// c35a
    // c35b
    zchar[8] top,// c40a
    // c40b
    repeat zchar[2] zs,// c46a
    // c46b
}// c47")).
Eval vm_compute in ("<<<M1670>>>" ++ check (runes_of_ascii "

  root packet
	int{

match MetaDataX as

    charz
    {
255
:

uint8x
,

65535 : // @lengthOf(

u128""\" ++ [233]%N ++ runes_of_ascii """

:
	o  , 0123456789
	:  _x 
""{,}""	: 
matchKey
	// `tick` ""quote"" 'q'
    // `tick` ""quote"" 'q'
[

4294967296
    , 
"""",	10 ] : charz , 
}	,@lengthOf(  roots

    )	x  @calculatedFrom(
	""\n"" ),
    i32	tag  ,
    }")).
Eval vm_compute in ("<<<M1771>>>" ++ check (runes_of_ascii "  options 
{
	LittleEndian
=

true ; }

packet
Logon { u8
	x 
,
}

    packet
Logout
{  u16 reason
, } root packet Frame 
{u8

Kind , 
u8 Kind2 , 
match Kind as
    Body 
{ 1
    :Logon	,
[ 2 , 
3
	,	4

]
	: Logout
	,
    100
: Logon , }
,	match Kind2	as	Trailer{

    0 :
    Logout,} ,
    }")).
Eval vm_compute in ("<<<M1357>>>" ++ check (runes_of_ascii "options {
    LittleEndian = false;
    StringPrefixLenType = u16;
}
packet Heartbeat {
    @rightPad('0') char[7] seqNo,
    uint64 Tail,
    i16 Flags,
    u16 msgKind,
}
root packet Reject {
    zchar[3] tag7,
    repeat Heartbeat,
    repeat string clOrdID,
}
")).
Eval vm_compute in ("<<<M214>>>" ++ check (runes_of_ascii "MetaData tag {body Packet	, int16 // @lengthOf(
body // `tick` ""quote"" 'q'
, f32a uint8x , } packet falsey {
x { char[ 7 ] lengthOf , char[] o
    `say ""hi""`
    // `tick` ""quote"" 'q'
    ,
//
/// triple
}
,}
// `tick` ""quote"" 'q'
")).
Eval vm_compute in ("<<<M1500>>>" ++ check (runes_of_ascii "

  options
{As
=	true
    MetaDataX
    =
    true
}

packet A
{
repeat
	calculatedFrom
`say ""hi""` ,

    }	MetaData crc

    {

u
crc , uint32

body

    ,
    i16  stringy

    `u8 x,`,}
")).
Eval vm_compute in ("<<<M1293>>>" ++ check (runes_of_ascii "packet A {
    u8 a,
}
packet B {
    u16 b,
}
root packet P {
    u8 K1,
    u8 K2,
    match K1 as M1 {
        1 : A,
    },
    match K2 as M2 {
        1 : B,
    },
}
")).
Eval vm_compute in ("<<<M73>>>" ++ check (runes_of_ascii "root
    packet As { //
char	charz @lengthOf( packetx
) `{ , }`,//
char[0123456789
]
MetaDataX
// " ++ [27880; 37322]%N ++ runes_of_ascii "
// `tick` ""quote"" 'q'
`it's` , zchar[
    7]o `u8 x,`
, }")).
Eval vm_compute in ("<<<M458>>>" ++ check (runes_of_ascii "packet uint8x
{ match pack
    as msg_type	{
    0123456789 :	float
}
,
char[] packet //	t
a1
    { } options {packetx
    = '\x00'	; u128= ""a	b""  ; }
")).
Eval vm_compute in ("<<<M476>>>" ++ check (runes_of_ascii "packet uint8x
{ match pack
    as msg_type	{
    0123456789 :	float
}
,
} packet //	t
a1
    { } } options {packetx
    = '\x00'	; u128= ""a	b""  ; }
")).
Eval vm_compute in ("<<<M402>>>" ++ check (runes_of_ascii "packet uint8x
match { pack
    as msg_type	{
    0123456789 :	float
}
,
} packet //	t
a1
    { } options {packetx
    = '\x00'	; u128= ""a	b""  ; }
")).
Eval vm_compute in ("<<<M1621>>>" ++ check (runes_of_ascii "
packet
string_
{  @lengthOf(  float

    )  // @lengthOf(

BodyLength
	{
match uint8x

    as  i64_
	{0123456789
	:
	As

    ,}

,

}
    ,}

")).
Eval vm_compute in ("<<<M408>>>" ++ check (runes_of_ascii "packet uint8x
{ i8 pack
    as msg_type	{
    0123456789 :	float
}
,
} packet //	t
a1
    { } options {packetx
    = '\x00'	; u128= ""a	b""  ; }
")).
Eval vm_compute in ("<<<M500>>>" ++ check (runes_of_ascii "packet uint8x
{ match pack
    as msg_type	{
    0123456789 :	float
}
,
} packet //	t
a1
    { } options {packetx
    = 	; u128= ""a	b""  ; }
")).
Eval vm_compute in ("<<<M420>>>" ++ check (runes_of_ascii "packet uint8x
{ match pack
    as 	{
    0123456789 :	float
}
,
} packet //	t
a1
    { } options {packetx
    = '\x00'	; u128= ""a	b""  ; }
")).
Eval vm_compute in ("<<<M686>>>" ++ check (runes_of_ascii "// @lengthOf(
packet i8i8 { u128 o , }
options { f64 = true;
    BodyLength =""packet"" x_y_z= 007
crc //x
= ""abc"" ;
    msg_type =
i16 }")).
Eval vm_compute in ("<<<M1296>>>" ++ check (runes_of_ascii "packet A {
    u8 a,
}
packet B {
    u16 b,
}
root packet P {
    u8 K,
    match K as M {
        1 : A,
        1 : B,
    },
}
")).
Eval vm_compute in ("<<<M1936>>>" ++ check (runes_of_ascii "

  packet u 
{

    @tag(

10// a // b
  )  tag
@lengthOf(
    A 

// " ++ [128512]%N ++ runes_of_ascii " emoji
// a // b
    )
    ,  repeat options1, }")).
Eval vm_compute in ("<<<M1152>>>" ++ check (runes_of_ascii "MetaData leftPad { chars MetaDataX
// c
, } packet repeatCount { char[ 255 ] uint8x `" ++ [233]%N ++ runes_of_ascii "` , } MetaData pack { As Foo , }")).
Eval vm_compute in ("<<<M1184>>>" ++ check (runes_of_ascii "MetaData leftPad { chars MetaDataX , } packet repeatCount { char[ 255 ] uint8x `" ++ [233]%N ++ runes_of_ascii "` , } MetaData pack { As
// c
Foo , }")).
Eval vm_compute in ("<<<M893>>>" ++ check (runes_of_ascii "packet A {
  match k as n {
    [""a"", ""bb"", ""c c"", ""d"", ""e"", ""f"", ""g"", ""h"", ""i"", ""j"", ""k""] : B,
    2 : C
  },
}")).
Eval vm_compute in ("<<<M949>>>" ++ check (runes_of_ascii "packet A {
    u16 len @lengthOf(body) `x
`,
    u32 crc @calculatedFrom(""CRC32"") `x
`,
    string body,
}")).
Eval vm_compute in ("<<<M895>>>" ++ check (runes_of_ascii "packet A {
  match k as n {
    [1, ""bb"", 007, ""d"", 5, ""f"", 7, ""h"", 9, ""j"", 11] : B,
    2 : C
  },
}")).
Eval vm_compute in ("<<<M904>>>" ++ check (runes_of_ascii "packet A {
  match k as n {
    [1, 22, 007, 4, 5, 66, 7, 8, 9, 10, 11, 12] : B,
    2 : C
  },
}")).
Eval vm_compute in ("<<<M630>>>" ++ check (runes_of_ascii "
packet
    a@tagsx {match u128 as lengthOf
{
//	t
// `tick` ""quote"" 'q'
255 : x ,
    } ,	}")).
Eval vm_compute in ("<<<M229>>>" ++ check (runes_of_ascii "// a // b
options{
Foo
= '\x00'
    pack
= zchar[ 65535]
// " ++ [128512]%N ++ runes_of_ascii " emoji
//x
;	int = ""\n"" ;	}
")).
Eval vm_compute in ("<<<M856>>>" ++ check (runes_of_ascii "packet A {
  match k as n {
    [1, ""bb"", 007, ""d"", 5, ""f"", 7, ""h""] : B,
    2 : C
  },
}")).
Eval vm_compute in ("<<<M829>>>" ++ check (runes_of_ascii "packet A {
  match k as n {
    [""a"", ""bb"", ""c c"", ""d"", ""e"", ""f""] : B
    2 : C
  },
}")).
Eval vm_compute in ("<<<M966>>>" ++ check (runes_of_ascii "packet A {
    u32 crc @calculatedFrom(""x\
y""),
    @calculatedFrom(""x\
y"") u8 y,
}")).
Eval vm_compute in ("<<<M835>>>" ++ check (runes_of_ascii "packet A {
  match k as n {
    [1, 22, ""c c"", 4, 5, ""f""] : B
    2 : C
  },
}")).
Eval vm_compute in ("<<<M345>>>" ++ check (runes_of_ascii "
options
{ } // " ++ [128512]%N ++ runes_of_ascii " emoji
options { float // `tick` ""quote"" 'q'
=	65535 }
")).
Eval vm_compute in ("<<<M809>>>" ++ check (runes_of_ascii "packet A {
  match k as n {
    [1, 22, ""c c"", 4] : B
    2 : C
  },
}")).
Eval vm_compute in ("<<<M1290>>>" ++ check (runes_of_ascii "root packet P {
    u8 s_u8,
    repeat u8 r_u8,
    u16 b_len,
}
")).
Eval vm_compute in ("<<<M939>>>" ++ check (runes_of_ascii "MetaData M {
    u8 x `a
    b
  c`,
    T t `a
    b
  c`,
}")).
Eval vm_compute in ("<<<M1088>>>" ++ check (runes_of_ascii "packet A { @tag(1) // a
 @leftPad('0') // b
 char[4] x, }")).
Eval vm_compute in ("<<<M1199>>>" ++ check (runes_of_ascii "packet // c
body { i32 f32a `{ , }` , } options { }")).
Eval vm_compute in ("<<<M1566>>>" ++ check (runes_of_ascii "MetaData M {
    u8 x `
    `,
    T t `
    `,
}")).
Eval vm_compute in ("<<<M1221>>>" ++ check (runes_of_ascii "// top
packet // c0
x // c1
{ // c2
} // c3
")).
Eval vm_compute in ("<<<M752>>>" ++ check (runes_of_ascii "repeatCount u32 as false uint64 0 @tag(")).
Eval vm_compute in ("<<<M928>>>" ++ check (runes_of_ascii "root packet A {
    u8 x `a
b`,
}")).
Eval vm_compute in ("<<<M959>>>" ++ check (runes_of_ascii "packet A {
    u8 x `tab
	x`,
}")).
Eval vm_compute in ("<<<M923>>>" ++ check (runes_of_ascii "packet A {
    u8 x `a
b`,
}")).
Eval vm_compute in ("<<<M1526>>>" ++ check (runes_of_ascii "// c x
    packet A { }

")).
Eval vm_compute in ("<<<M1106>>>" ++ check (runes_of_ascii "MetaData
// c
tag { }")).
Eval vm_compute in ("<<<M1128>>>" ++ check (runes_of_ascii "// c
MetaData u { }")).
Eval vm_compute in ("<<<M1017>>>" ++ check (runes_of_ascii "// c" ++ [8233]%N ++ runes_of_ascii "
packet A {
}")).
Eval vm_compute in ("<<<M999>>>" ++ check (runes_of_ascii "packet A {
}// c" ++ [8192]%N)).
Eval vm_compute in ("<<<M761>>>" ++ check (runes_of_ascii "{];z" ++ [65533]%N ++ runes_of_ascii """t" ++ [65533; 65533; 65533]%N ++ runes_of_ascii "XKU" ++ [65533; 2]%N)).
Eval vm_compute in ("<<<M84>>>" ++ check (runes_of_ascii " // " ++ [27880; 37322]%N)).
Eval vm_compute in ("<<<M733>>>" ++ check (runes_of_ascii "


")).
