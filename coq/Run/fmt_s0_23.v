From FP Require Import Lexer Parser ShowPT Digest Formatter.
From Coq Require Import String List NArith.
Import ListNotations.
Open Scope string_scope.
Set Printing Width 100000000.
Set Printing Depth 100000000.
Definition show_fres (r : fres) : string :=
  match r with
  | FOk s => "OK:" ++ sh_escaped s ""
  | FErr s => "ERR:" ++ sh_escaped s ""
  | FPanic p => "PANIC:" ++ p
  end.
Definition check (rs : list rune) : string := digest (show_fres (format_res rs)).
Definition full (rs : list rune) : string := show_fres (format_res rs).
Eval vm_compute in ("<<<M1778>>>" ++ check (runes_of_ascii "MetaData asx {
    char[] MetaDataX,
    lengthOf Z9_,
    crc Foo,
    char[4294967296] BodyLength,
    Foo leftPad `doc`,
    tag u128,
}

root packet stringy {
    // trailing space 
    match Header as repeatCount {
        [""{,}""] : Header,
        255 : repeatCount,
        00 : pack,
        1 : trueish,
        7 : A,
    },
    T {
        Z9_ `
        `,
    },
    int16 o @calculatedFrom(""it's"") `line1
    line2`,
    match zchar as As {
        ""CRC32"" : a1,
        42 : Header,
        [10] : zchar,
    },
    @tag(42)
    repeat i64_ {
        // c
        char[00] _x `{ , }`,
    },
    repeat char[] uint8x `crlf
    line`,
    @leftPad('\x00')
    @tag(7)
    int32 repeatCount @calculatedFrom(""x y"") `// not a comment`,
    u32 zchar `
    `,
    repeat stringy {
        i8i8 lengthOf,
    },// packet A { u8 x, }
    @calculatedFrom(""abc"")
    @lengthOf(tag)
    @lengthOf(rootA)
    char[3] rootA `" ++ [233]%N ++ runes_of_ascii "`,// c
}

MetaData crc {
    float32 asx `" ++ [233]%N ++ runes_of_ascii "`,
    string i64_,
}

root packet Packet {
    charz @lengthOf(zchar),
    f32 f32a `{ , }`,
    i64 matchKey @lengthOf(leftPad),
    string trueish,
    @leftPad('0')
    // trailing space 
    tag @lengthOf(string_) `doc`,
    match stringy as calculatedFrom {
        [0123456789] : repeatCount,
    },// trailing space 
    char[3] Header,
    int64 MetaDataX,
    @leftPad()
    len {
        packetx @lengthOf(chars) ``,
    },
    @rightPad('0')
    x_y_z,
}

options {
    rootA = '0';
    Foo = char;
    A = zchar[0123456789];
    packetx = """ ++ [233]%N ++ runes_of_ascii "t" ++ [233]%N ++ runes_of_ascii """
    float = true
}//x")).
Eval vm_compute in ("<<<M1787>>>" ++ check (runes_of_ascii "
// trailing space 
    packet 
charz

{	@calculatedFrom(  ""1""

)match	x
as
    tag
    { [
    7 ,// @lengthOf(
0, 65535
	, 
	    // `tick` ""quote"" 'q'
  ""it's""	/// triple

,
0

    ,

    ""x y""

,255 ]	: tag,[

""1""  // a // b
	, 	 //	t

	3
, 007	, // " ++ [27880; 37322]%N ++ runes_of_ascii "
	255 
, ""x y""
	    // @lengthOf(
] 
:

pack
	,

    [
    """ ++ [233]%N ++ runes_of_ascii "t" ++ [233]%N ++ runes_of_ascii """
    ,7 ,
    10  ,	3
,

    0,""a\""b""	] : 
    // packet A { u8 x, }

  leftPad ,
[  65535
// " ++ [27880; 37322]%N ++ runes_of_ascii "
	,

""x y"" 
]
:
chars
	[
""\n""  , 65535
	,""a\\""
]

:
A	,	""\n"" :lengthOf, } , 
match

string_ as  i8i8 {

    7	:msg_type

    , 	 // c
    ""abc"" 
:tag  , ""a\""b"":  metadata	,

    255
	:
matchKey ,[	""CRC32"",
""1"" 
      // " ++ [27880; 37322]%N ++ runes_of_ascii "
// " ++ [128512]%N ++ runes_of_ascii " emoji

, 007 ,	""packet""  , ""a\\""/// triple
      ,
""a\""b"" 
        // " ++ [128512]%N ++ runes_of_ascii " emoji
	  ,007
	,
4294967296
] :
    lengthOf
    , }
,

uint16
pack
    ,	string  Pad @lengthOf(o )
`say ""hi""`

, 
repeat
    i8	body
    ,
@lengthOf(  //x
      crc 
)float64 
body

`// not a comment`
,
    repeat  rootA	{
	int16 
x_y_z

    `tab	here`

    ,

    falsey @calculatedFrom(  ""{,}""
)
, trueish	@lengthOf(  crc) `{ , }`
	,

    } , match
    Pad
	as  Header {	4294967296:Header 
,  ""\n""

    :

msg_type

    , 
""a	b"" 
:
	x_y_z 
,}
,
//	t
  	Logon  ,
}
")).
Eval vm_compute in ("<<<M1876>>>" ++ check (runes_of_ascii "packet x {
    //x
    lengthOf @calculatedFrom(""abc"") `u8 x,`,
    @rightPad()
    //x
    // @lengthOf(
    float32 Packet @lengthOf(falsey),
    char[10] falsey,
    @tag(3)
    repeat zchar[4294967296] repeatCount,
    repeatCount `say ""hi""`,
    int16 u128,
    char[3] crc @calculatedFrom(""x y""),// trailing space 
    @leftPad('\x00')
    match chars as i8i8 {
        42 : charz,
    },
}

options {
}

MetaData metadata {
    char[4294967296] i8i8,
    float rootA,
    i64 packetx,
    i8 roots `crlf
        line`,
    tag i64_,
    uint8 Pad `" ++ [233]%N ++ runes_of_ascii "`,
}

root packet Header {
    u64 options1 `two words`,
    @calculatedFrom(""a\\"")
    // " ++ [128512]%N ++ runes_of_ascii " emoji
    i32 x_y_z @calculatedFrom(""a\""b"") `tab	here`,
    match A as len {
        [""CRC32"", ""it's""] : Z9_,
        ""a	b"" : o,
    },
    match asx as pack {
        0 : x_y_z,
    },
    char[] i64_ `{ , }`,
}

MetaData stringy {
    // trailing space 
    lengthOf o,
    string u8x,
    f32 string_ `doc`,
}")).
Eval vm_compute in ("<<<M1487>>>" ++ check (runes_of_ascii "options {
    matchKey = ""x y"";
    MetaDataX = '0';
}

packet msg_type {
    @rightPad(' ')
    repeat u128 body,
    match body as pack {
        [""\" ++ [233]%N ++ runes_of_ascii """, ""1""] : BodyLength,
        [
            255, ""a	b"", ""a\\"", ""{,}"", 007,
            007, 0123456789
        ] : options1,
    },
    @leftPad()
    @lengthOf(charz)
    @tag(42)
    o {
        i32 msg_type @lengthOf(A) `doc`,
        zchar[1] charz,// c
        i8 packetx `{ , }`,
        msg_type `crlf
        line`,
    },
    @calculatedFrom(""\" ++ [233]%N ++ runes_of_ascii """)
    Z9_ @calculatedFrom(""" ++ [128512]%N ++ runes_of_ascii """) `tab	here`,
    repeat char[] Foo,
    repeat zchar[0123456789] u128,
}

packet f32a {
    f32a @lengthOf(matchKey),
    @rightPad(' ')
    @lengthOf(chars)
    _x Foo ``,
    match body as body {
        [4294967296, ""packet"", 3, """ ++ [128512]%N ++ runes_of_ascii """, 0123456789] : T,
        [""a\\""] : T,
        ""\n"" : u8x,
    },
}//x

root packet lengthOf {
}")).
Eval vm_compute in ("<<<M1873>>>" ++ check (runes_of_ascii "  packet
	falsey
	{	// `tick` ""quote"" 'q'
repeat
charz 
    /// triple
float	// a // b
  `tab	here`
,

char[] stringy
, 
Logon

    f32a ,char[]

string_ /// triple
	  ,int16  _x

    `` 
,	match /// triple
    crc
	as
    stringy {
""abc"" : Pad
	[""\n""

, 10

    ,4294967296	, 0123456789

,
""abc""	,
	""" ++ [28040; 24687]%N ++ runes_of_ascii """

] :i8i8,10:  
  //x
  Header, 10: 	 // c
  	calculatedFrom
    ,
	0123456789 : charz	10 
:repeatCount
    }
    , leftPad

    @lengthOf( 
u8x
)  ,
	@lengthOf( a1
    )
    repeat

    x
    body , }	MetaData string_

    {
float64
    f32a	,  zchar[
    255]  T,u32	trueish ,BodyLength
roots `two words`	, } 
      // " ++ [128512]%N ++ runes_of_ascii " emoji
    	//	t
    packet

stringy  { zchar[255 ]
    Foo
, }MetaData
	leftPad {	} 	 //

options {
    x	//x
=
true ;
zchar= """"

    } //
")).
Eval vm_compute in ("<<<M219>>>" ++ check (runes_of_ascii "
packet
falsey{ // `tick` ""quote"" 'q'
repeat charz
    /// triple
    float // a // b
`tab	here`
    ,
char[]stringy  , Logon
    f32a,
    char[] string_/// triple
,
int16
_x
`` ,
    match/// triple
crc as stringy { ""abc"" :Pad
    [ ""\n"" , 10, 4294967296, 0123456789 , ""abc"" ,	""" ++ [28040; 24687]%N ++ runes_of_ascii """
    ] :
i8i8 , 10 :
    //x
    Header , 10:// c
calculatedFrom
    , 0123456789: charz
10
    :
    repeatCount} ,
    leftPad @lengthOf(
u8x )  , @lengthOf(a1) repeat x body ,
} MetaData
string_
{ float64  f32a	, zchar[
255] T, u32 trueish, BodyLength roots
`two words` , }
// " ++ [128512]%N ++ runes_of_ascii " emoji
//	t
packet stringy{ zchar[
    255
    ]Foo ,
}
MetaData
leftPad {
    } //
options { x //x
=
true
    ;
zchar = """" } //")).
Eval vm_compute in ("<<<M78>>>" ++ check (runes_of_ascii "options {
Header	=u32; } options {
i8i8	=
    f64 ; body
    =  zchar[
// " ++ [128512]%N ++ runes_of_ascii " emoji
/// triple
00//
] ; }
    //
    MetaData BodyLength  { // trailing space 
}// " ++ [27880; 37322]%N ++ runes_of_ascii "
options
{ Logon= u64 As =
    true i64_
= '\x00' ;
} root packet asx {
@tag(
// `tick` ""quote"" 'q'
//	t
4294967296
    )
    roots @lengthOf( A ) ,repeat uint8 u128
    , int32 i64_  ,
    u8 u `` ,
@lengthOf(
// c
// c
len ) uint64
    //x
    matchKey ,	match rootA
    as stringy {
1 : string_, 7 : charz , 255 : u128, [ // trailing space 
0
,0123456789 ,1,007  ]: len
    , 10
    :trueish } ,
@rightPad	()
    char[ 7] int //
@lengthOf(
x ) `two words`
, }")).
Eval vm_compute in ("<<<M348>>>" ++ check (runes_of_ascii "root // c
packet asx { @rightPad
    (
' ' ) @lengthOf(  int)@tag( 0 ) u64 uint8x @calculatedFrom( ""packet"")
    ,  uint32 i64_ ,
    // c
    repeat options1 o,match f32a as /// triple
falsey// " ++ [27880; 37322]%N ++ runes_of_ascii "
{ 42 : stringy 10 :
As, """" :
    Packet ,
} ,@calculatedFrom(""it's""
) // " ++ [128512]%N ++ runes_of_ascii " emoji
f64	a1 ,
    @lengthOf(
    tag )
    match roots as MetaDataX
{
""" ++ [128512]%N ++ runes_of_ascii """:  f32a
    , ""\n"" :
    As [ 255 ]: A ,  }, a1 @calculatedFrom(	""abc"" )
`` , @rightPad(
)
    @rightPad (
    '\x00'
)@calculatedFrom(
""CRC32"" )body As , }  root packet packetx
{
//x
//
repeat lengthOf Logon `" ++ [28040; 24687; 31867; 22411]%N ++ runes_of_ascii "` , //	t
}")).
Eval vm_compute in ("<<<M45>>>" ++ check (runes_of_ascii "
packet
tag{ string matchKey `line1
line2` , @tag( 0 )// c
@calculatedFrom( ""1"" )@calculatedFrom( // " ++ [128512]%N ++ runes_of_ascii " emoji
""a\""b"" ) float64 matchKey
,}options
{ crc
    = true
    msg_type
    //	t
    =
true;
} packet o { match  roots
as calculatedFrom { ""// no comment""
    // packet A { u8 x, }
    :
    msg_type	, ""{,}""
    :u128, [
    65535 , 0123456789
]/// triple
: body ,// " ++ [128512]%N ++ runes_of_ascii " emoji
} ,@rightPad ( ' '	) repeat
string_ i64_ ,
@lengthOf(
lengthOf )@tag( 255// packet A { u8 x, }
)	@tag( 00 )
char[]
stringy
, }
")).
Eval vm_compute in ("<<<M133>>>" ++ check (runes_of_ascii "MetaData  falsey
{ } root packet // `tick` ""quote"" 'q'
o {@tag(3// " ++ [128512]%N ++ runes_of_ascii " emoji
) @calculatedFrom( """") @lengthOf(
    pack)char[ 65535
    ]falsey
    @lengthOf(falsey ) , }  root packet roots
    {@lengthOf(
chars )match Logon as chars{ ""`tick`"" :charz
    // packet A { u8 x, }
    ""a\\"" :Z9_ 007 : trueish ""CRC32"" :	msg_type , [
3
    ,3 // `tick` ""quote"" 'q'
,
00 ,4294967296 ,
0
,7 , //
""x y"",""\" ++ [233]%N ++ runes_of_ascii """
    //	t
    ] : metadata ,""a	b""
//x
// " ++ [27880; 37322]%N ++ runes_of_ascii "
:	crc } , }
")).
Eval vm_compute in ("<<<M1561>>>" ++ check (runes_of_ascii "packet Frame {
    u8 HK,
    u8 BK,
    u8 TK,
    match HK as Hdr {
        1 : HdrA,
        2 : HdrB,
    },
    match BK as Body {
        1 : BodyA,
        2 : BodyB,
    },
    match TK as Trl {
        1 : TrlA,
    },
}

packet HdrA {
    u8 a,
}

packet HdrB {
    u16 b,
}

packet BodyA {
    u32 c,
}

packet BodyB {
    u64 d,
}

packet TrlA {
    u8 e,
}

root packet Msg {
    Frame,
    u8 x,
}")).
Eval vm_compute in ("<<<M114>>>" ++ check (runes_of_ascii "packet
a1 {@calculatedFrom(""`tick`"" ) uint32 charz	`crlf
line` ,
// c
//x
a1 `tab	here`, }
    options
    {
// " ++ [27880; 37322]%N ++ runes_of_ascii "
// " ++ [128512]%N ++ runes_of_ascii " emoji
stringy =
// c
// a // b
255 ;
    metadata =	4294967296 pack
    = /// triple
string	; crc= string
    ; }  root  packet
crc	{ @tag(  42  )
@calculatedFrom( ""abc""  )
@rightPad ( '0'
) u128 u8x
/// triple
//x
,@lengthOf(len) uint16 int, }
")).
Eval vm_compute in ("<<<M1568>>>" ++ check (runes_of_ascii "
packet tag

    {

}
packet	falsey  {string
    charz
	@lengthOf(

    zchar)

,
string // trailing space 
    u@calculatedFrom(""" ++ [233]%N ++ runes_of_ascii "t" ++ [233]%N ++ runes_of_ascii """ )

`// not a comment` 
,@leftPad
    (  '0') 
char[]
leftPad 
@calculatedFrom( ""a	b""
    )
`// not a comment`, @calculatedFrom(	""`tick`""
)  @lengthOf( roots )repeat
MetaDataX
    ,}
")).
Eval vm_compute in ("<<<M32>>>" ++ check (runes_of_ascii "packet int { T/// triple
{ repeat _x ,	} ,
    i64_ _x
    `
`, @calculatedFrom( ""x y"" )u32 A
,  match a1 as
    i8i8 { [ ""1""
,
4294967296
]:
    a1 ,"""":	a1
    , 007: a1 , [ ""CRC32"" ] :Header} , int64 As, int8 a1 , //
char[] float
`tab	here`/// triple
,
repeat zchar[ 1	]u8x,
} /// triple")).
Eval vm_compute in ("<<<M1618>>>" ++ check (runes_of_ascii "
options
{ pack 	 // `tick` ""quote"" 'q'
		=	0123456789
}packet
metadata{
@leftPad(' '
    ) stringy  @lengthOf(	_x
    ) ,

repeat u8
int 
`{ , }`
,
	@leftPad	//	t
      (
'0'	)repeat	char msg_type `it's`  ,
	}
	MetaData
x_y_z {// trailing space 
	}
")).
Eval vm_compute in ("<<<M1544>>>" ++ check (runes_of_ascii "packet
rootA
    { } 	 // trailing space 
	  packet
f32a//	t
		{ match zchar
    as

    zchar { 65535:

f32a,	7 :
charz  // trailing space 

,  ""{,}"" 
  //	t
	//x
  :  Header,42:

a1 // packet A { u8 x, }

,
    } ,} ")).
Eval vm_compute in ("<<<M1549>>>" ++ check (runes_of_ascii "
MetaData	// a // b

	o
{  string  Foo 
,
}
MetaData
    msg_type

    { Header len
    `" ++ [28040; 24687; 31867; 22411]%N ++ runes_of_ascii "`

, }	options

{	tag
	='0'
;

    o
=

    ""CRC32""

;
Logon
	=
""`tick`""
;  // a // b
    }
")).
Eval vm_compute in ("<<<M1410>>>" ++ check (runes_of_ascii "packet A {
    match k as n {
        [
            ""a"", ""bb"", ""c c"", ""d"", ""e"",
            ""f"", ""g"", ""h"", ""i"", ""j"",
            ""k""
        ] : B,
        2 : C,
    },
}")).
Eval vm_compute in ("<<<M481>>>" ++ check (runes_of_ascii "packet uint8x
{ match pack
    as msg_type	{
    0123456789 :	float
}
,
} packet //	t
a1
    { } options options {packetx
    = '\x00'	; u128= ""a	b""  ; }
")).
Eval vm_compute in ("<<<M1806>>>" ++ check (runes_of_ascii "MetaData x_y_z {
    int32 o,
    zchar[65535] Packet,
    i64_ o,
    i64 o `
    `,
}

options {
    x = u8;
    // " ++ [27880; 37322]%N ++ runes_of_ascii "
    // a // b
}// trailing space ")).
Eval vm_compute in ("<<<M546>>>" ++ check (runes_of_ascii "packet uint8x
{ match pack
    as msg_type	{
    0123456789 :	float
}
,
} packet //	t
a1
    { } options {packetx
    = '\x00'	; @ u128= ""a	b""  ; }
")).
Eval vm_compute in ("<<<M448>>>" ++ check (runes_of_ascii "packet uint8x
{ match pack
    as msg_type	{
    0123456789 :	float
=
,
} packet //	t
a1
    { } options {packetx
    = '\x00'	; u128= ""a	b""  ; }
")).
Eval vm_compute in ("<<<M483>>>" ++ check (runes_of_ascii "packet uint8x
{ match pack
    as msg_type	{
    0123456789 :	float
}
,
} packet //	t
a1
    { } '\x00' {packetx
    = '\x00'	; u128= ""a	b""  ; }
")).
Eval vm_compute in ("<<<M703>>>" ++ check (runes_of_ascii "// @lengthOf(
packet i8i8 { u128 o , }
options '1'{ MetaDataX = true;
    BodyLength =""packet"" x_y_z= 007
crc //x
= ""abc"" ;
    msg_type =
i16 }")).
Eval vm_compute in ("<<<M1607>>>" ++ check (runes_of_ascii "packet A {
    match k as n {
        [
            1, ""bb"", 007, ""d"", 5,
            ""f"", 7, ""h"", 9, ""j""
        ] : B,
        2 : C,
    },
}")).
Eval vm_compute in ("<<<M688>>>" ++ check (runes_of_ascii "// @lengthOf(
packet i8i8 { u128 o , }
options { MetaDataX = true;
    BodyLength =""packet"" x_y_z= 007
crc //x
= ""abc"" ;
    msg_type =
i16")).
Eval vm_compute in ("<<<M1763>>>" ++ check (runes_of_ascii "packet A {
    match k as n {
        [
            1, 22, 007, 4, 5,
            66, 7, 8, 9, 10
        ] : B,
        2 : C,
    },
}")).
Eval vm_compute in ("<<<M1425>>>" ++ check (runes_of_ascii "

  packet
A
{match k as
n

    {

    [
1
	,
22,	""c c""  , 
4
	,	5
    ,
    ""f"" ,
7 , 
8
    ]: B

    , 
2  :
	C }

, }")).
Eval vm_compute in ("<<<M1698>>>" ++ check (runes_of_ascii "packet B {
    u8 a,
}

root packet P {
    u8 K,
    match K as Body {
        1 : B,
    },
    u16 L @lengthOf(Body),
}")).
Eval vm_compute in ("<<<M1158>>>" ++ check (runes_of_ascii "MetaData leftPad { chars MetaDataX , } packet
// c
repeatCount { char[ 255 ] uint8x `" ++ [233]%N ++ runes_of_ascii "` , } MetaData pack { As Foo , }")).
Eval vm_compute in ("<<<M1675>>>" ++ check (runes_of_ascii "
MetaData
    zchar 
{ roots A ,  char[]
falsey  `line1
line2`
	,
// " ++ [128512]%N ++ runes_of_ascii " emoji
  // @lengthOf(
	int 
crc  ,
}//	t
 
")).
Eval vm_compute in ("<<<M915>>>" ++ check (runes_of_ascii "packet A {
  match k as n {
    [""a"", ""bb"", 007, ""d"", ""e"", 66, ""g"", ""h"", 9, ""j"", ""k"", 12] : B
    2 : C
  },
}")).
Eval vm_compute in ("<<<M1278>>>" ++ check (runes_of_ascii "  options{ 
LittleEndian =	true
	; } root	packet
	P {	u16  a ,u32 
Sum
@calculatedFrom(
""CRC32""  )	, }

")).
Eval vm_compute in ("<<<M641>>>" ++ check (runes_of_ascii "
packet
    asx {match u128 as lengthOf
{
//	t
// `tick` ""quote"" 'q'
255 : x ,
    } @lengthOf ,	}")).
Eval vm_compute in ("<<<M1519>>>" ++ check (runes_of_ascii "packet uint8x {
    match pack as msg_type {
        0123456789 : float,
    },
}

packet a1 {
}")).
Eval vm_compute in ("<<<M642>>>" ++ check (runes_of_ascii "
packet
    asx {match u128 as lengthOf
{'1'
//	t
// `tick` ""quote"" 'q'
255 : x ,
    } ,	}")).
Eval vm_compute in ("<<<M638>>>" ++ check (runes_of_ascii "
packet
    asx {match u128 as leng""thOf
{
//	t
// `tick` ""quote"" 'q'
255 : x ,
    } ,	}")).
Eval vm_compute in ("<<<M597>>>" ++ check (runes_of_ascii "
packet
    asx {match u128 as lengthOf
{
//	t
// `tick` ""quote"" 'q'
255  x ,
    } ,	}")).
Eval vm_compute in ("<<<M860>>>" ++ check (runes_of_ascii "packet A {
  match k as n {
    [1, 22, ""c c"", 4, 5, ""f"", 7, 8] : B,
    2 : C
  },
}")).
Eval vm_compute in ("<<<M582>>>" ++ check (runes_of_ascii "
packet
    asx {match u128 as 
{
//	t
// `tick` ""quote"" 'q'
255 : x ,
    } ,	}")).
Eval vm_compute in ("<<<M1916>>>" ++ check (runes_of_ascii "
MetaData
x
{x
    Packet ,
i32	lengthOf
	, 	 // `tick` ""quote"" 'q'
	  }
")).
Eval vm_compute in ("<<<M601>>>" ++ check (runes_of_ascii "
packet
    asx {match u128 as lengthOf
{
//	t
// `tick` ""quote"" 'q'
255")).
Eval vm_compute in ("<<<M108>>>" ++ check (runes_of_ascii "packet int {}
options {leftPad ='0' ;metadata= char[] Foo=
'0' ; }
")).
Eval vm_compute in ("<<<M1431>>>" ++ check (runes_of_ascii "

  packet

body
{ i32
f32a `{ , }`
    ,
}  options
{}	// c
")).
Eval vm_compute in ("<<<M948>>>" ++ check (runes_of_ascii "packet A {
    B b `x
`,
    B `x
`,
    repeat B bs `x
`,
}")).
Eval vm_compute in ("<<<M27>>>" ++ check (runes_of_ascii "options{Logon = """ ++ [28040; 24687]%N ++ runes_of_ascii """
    ; BodyLength =
    false
; }
")).
Eval vm_compute in ("<<<M1203>>>" ++ check (runes_of_ascii "packet body { // c
i32 f32a `{ , }` , } options { }")).
Eval vm_compute in ("<<<M1645>>>" ++ check (runes_of_ascii "root packet A {
    u8 x `a
        b
      c`,
}")).
Eval vm_compute in ("<<<M1535>>>" ++ check (runes_of_ascii "options {
    trueish = '0';
    a1 = u64;
}")).
Eval vm_compute in ("<<<M1493>>>" ++ check (runes_of_ascii "  options 
{

a= 1	;  // a
	b=2// b
}")).
Eval vm_compute in ("<<<M424>>>" ++ check (runes_of_ascii "packet uint8x
{ match pack
    as")).
Eval vm_compute in ("<<<M1586>>>" ++ check (runes_of_ascii "options {
    options1 = ' ';
}")).
Eval vm_compute in ("<<<M1077>>>" ++ check (runes_of_ascii "MetaData M {
}// c
options {}")).
Eval vm_compute in ("<<<M1084>>>" ++ check (runes_of_ascii "packet A { // a
 u8 x, }")).
Eval vm_compute in ("<<<M1108>>>" ++ check (runes_of_ascii "MetaData tag
// c
{ }")).
Eval vm_compute in ("<<<M1134>>>" ++ check (runes_of_ascii "MetaData u { // c
}")).
Eval vm_compute in ("<<<M1031>>>" ++ check (runes_of_ascii "packet A {
}
// c" ++ [11]%N)).
Eval vm_compute in ("<<<M1019>>>" ++ check (runes_of_ascii "packet A {
}// c" ++ [8239]%N)).
Eval vm_compute in ("<<<M1071>>>" ++ check (runes_of_ascii "packet A {
}


")).
Eval vm_compute in ("<<<M741>>>" ++ check ([65533; 65533]%N ++ runes_of_ascii "1" ++ [65533]%N ++ runes_of_ascii "dcV")).
Eval vm_compute in ("<<<M111>>>" ++ check (runes_of_ascii "

")).
