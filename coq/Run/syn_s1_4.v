From FP Require Import Lexer Parser ShowPT Digest.
From Coq Require Import String List NArith.
Import ListNotations.
Open Scope string_scope.
Set Printing Width 100000000.
Set Printing Depth 100000000.
Definition nl : string := String (Ascii.ascii_of_nat 10) EmptyString.
Definition model_lex (rs : list rune) : string := show_toks (lex rs).
Definition model_parse (rs : list rune) : string :=
  show_pt (match lex rs with Some ts => parse ts | None => None end).
(* coqc is slow at printing long strings: digests first (Digest.v), full texts on demand *)
Definition check (rs : list rune) : string :=
  digest (model_lex rs) ++ " " ++ digest (model_parse rs).
Definition full (rs : list rune) : string := model_lex rs ++ nl ++ model_parse rs.
Definition terms (ts : list tok) (t : pt) : string :=
  digest (show_toks (Some ts)) ++ " " ++ digest (show_pt (Some t)) ++ " " ++ digest (show_pt (parse ts)).
Definition terms_full (ts : list tok) (t : pt) : string :=
  show_toks (Some ts) ++ nl ++ show_pt (Some t) ++ nl ++ show_pt (parse ts).
Eval vm_compute in ("<<<M4>>>" ++ check (runes_of_ascii "packet //x
body {
    @tag(  007 ) repeat T asx `two words`
, @calculatedFrom( """ ++ [128512]%N ++ runes_of_ascii """ )// c
zchar[ 65535]  charz @lengthOf( trueish
)	,
    // a // b
    string packetx	`// not a comment` ,
@rightPad ( ' ') match u8x as	charz {""x y"" :
int ,}  , // c
}

")).
Eval vm_compute in ("<<<M14>>>" ++ check (runes_of_ascii "packet
x_y_z{ @calculatedFrom( // `tick` ""quote"" 'q'
""" ++ [128512]%N ++ runes_of_ascii """ ) uint16 a1 , string
    crc //
, char[0123456789 ]charz
`doc`
    //x
    ,//x
match As	as packetx { ""a\""b"":
MetaDataX , ""{,}""  : f32a
,42 : metadata // " ++ [27880; 37322]%N ++ runes_of_ascii "
[""1"" , 7 ]:
chars ,  } , }  MetaData
T
    { //x
uint8 f32a`
`
    , string MetaDataX, char[ // 50% %s
0123456789 // @lengthOf(
]MetaDataX `tab	here`
    , } packet //
uint8x	{ }	packet
    matchKey{ @tag( 00 // c
) @tag(
    255
    // `tick` ""quote"" 'q'
    ) @calculatedFrom(
    //	t
    ""a	b""
    )body @calculatedFrom( ""`tick`"" ) , // trailing space 
@lengthOf( matchKey ) match i8i8
as msg_type  { 00: float
, ""{,}"" :T	} ,@rightPad
    ( '\x00') f64 trueish,  @lengthOf(
chars )repeat string	A ,match Z9_ // trailing space 
as /// triple
metadata {	[ 42
    , ""packet""]	: charz
7 : body// 50% %s
7 :	Z9_ , } ,	zchar[ 00 ]  float
`
` , @lengthOf(
    leftPad
    // c
    ) repeat x_y_z
    metadata ,// 50% %s
@calculatedFrom( ""a\\"")
@calculatedFrom(
    """ ++ [28040; 24687]%N ++ runes_of_ascii """ )match MetaDataX as Pad { ""// no comment"": pack , }, @tag(007
)
    /// triple
    crc { // @lengthOf(
Z9_ {
u128 { repeat repeatCount trueish ,As `crlf
line` ,repeat
    char[ 0123456789
    // " ++ [128512]%N ++ runes_of_ascii " emoji
    ]uint8x ,
string
repeatCount,
    } , repeat int16 i64_ , repeat
f32a Packet ``
,
    }, }	,
    }
")).
Eval vm_compute in ("<<<M24>>>" ++ check (runes_of_ascii "packet // " ++ [27880; 37322]%N ++ runes_of_ascii "
BodyLength { f64	body@lengthOf( o ), }
")).
Eval vm_compute in ("<<<M34>>>" ++ check (runes_of_ascii "options
    //	t
    { //x
}")).
Eval vm_compute in ("<<<T34>>>" ++ terms [mkTok 1 "options" 1 0 false; mkTok 44 (string_of_bytes [47; 47; 9; 116]%N) 2 4 true; mkTok 2 "{" 3 4 false; mkTok 44 "//x" 3 6 true; mkTok 3 "}" 4 0 false; mkTok 0 "<EOF>" 4 1 false] (mkPacket (mkPtok 1 "options" 1 0 0) (Some (mkPtok 3 "}" 4 0 4)) [(DOption (mkOptionDef (mkSpan (mkPtok 1 "options" 1 0 0) (mkPtok 3 "}" 4 0 4)) (mkPtok 1 "options" 1 0 0) (mkPtok 2 "{" 3 4 2) [] (mkPtok 3 "}" 4 0 4)))])).
Eval vm_compute in ("<<<M44>>>" ++ check (runes_of_ascii "//x
options{
x= ""1"" x= ""x y""
    //
    ; calculatedFrom= ""a	b"" calculatedFrom = zchar[
// c
// c
00 ] ;// `tick` ""quote"" 'q'
_x =false ;
    } packet Logon // 50% %s
{
    } packet
x_y_z { match
    f32a as repeatCount { 10// 50% %s
: zchar , } ,char[] options1`u8 x,`
    ,} packet options1
{@calculatedFrom( ""it's""  )@calculatedFrom(""packet"") // " ++ [128512]%N ++ runes_of_ascii " emoji
repeat string repeatCount ``
,char[] msg_type ,
i16 Z9_ @calculatedFrom( ""\n"" // 50% %s
)	, @leftPad (' ') repeat
BodyLength calculatedFrom
,
char[
    4294967296
    ] u128 , u128 repeatCount`
`, @lengthOf(rootA )int64 Pad
    @calculatedFrom( ""x y""
// " ++ [128512]%N ++ runes_of_ascii " emoji
// 50% %s
), @lengthOf(
int)repeat As ,stringy
`u8 x,` ,
    @leftPad( '0' )uint32 // @lengthOf(
A
,
}root packet string_ // " ++ [27880; 37322]%N ++ runes_of_ascii "
{ }")).
Eval vm_compute in ("<<<M54>>>" ++ check (runes_of_ascii "options { /// triple
BodyLength =
// a // b
// c
""`tick`"" ;  }
packet Header
{// c
u8x { T
    {i64_ ,
} ,match tag as//
u128 // a // b
{
00	: crc ,""\n""	:metadata 255 :
    trueish [ 0 ]
    : msg_type , [
""a\\""] :u
, } , f32
i64_`" ++ [233]%N ++ runes_of_ascii "`	, repeat u
,}
,
u16
T ,
f64 BodyLength , } 	 ")).
Eval vm_compute in ("<<<M64>>>" ++ check (runes_of_ascii "root packet
f32a {
    // a // b
    }")).
Eval vm_compute in ("<<<M74>>>" ++ check (runes_of_ascii "packet	x_y_z
{ @tag( 00 // @lengthOf(
) i16 packetx
,string stringy @lengthOf( u
    ) , repeat packetx
,	@rightPad
    (
'\x00' ) @tag(
007 ) uint64 f32a
@lengthOf( asx
) ,
    msg_type@calculatedFrom(
    ""a\""b"" ), string_
    @lengthOf( packetx	), char[]calculatedFrom, @lengthOf( msg_type)  @calculatedFrom( """" )
    @rightPad
( '0' ) rootA , @leftPad(
' ' )  match
_x  as
    string_{ 00 :
chars ,
    } ,
u32 Z9_ `" ++ [233]%N ++ runes_of_ascii "` , }MetaData i64_
//
//x
{u8x//	t
Logon
    , char	Z9_
, char[] Packet`u8 x,` , char[ 10
    ] // a // b
options1
    , }")).
Eval vm_compute in ("<<<M84>>>" ++ check (runes_of_ascii "
packet tag  {}")).
Eval vm_compute in ("<<<M94>>>" ++ check (runes_of_ascii "
packet Header{ @lengthOf( options1 )
@lengthOf( matchKey ) @tag( 10 )i8
options1 @lengthOf( //	t
Foo ) `tab	here` ,
// " ++ [128512]%N ++ runes_of_ascii " emoji
//	t
@lengthOf( Pad // " ++ [128512]%N ++ runes_of_ascii " emoji
) match
Pad	as u8x { 4294967296 :	i8i8 // `tick` ""quote"" 'q'
,} ,} packet roots { // " ++ [128512]%N ++ runes_of_ascii " emoji
packetx @lengthOf(msg_type )
    , char[0123456789
// trailing space 
// @lengthOf(
] calculatedFrom,i8 Logon , @tag(10 ) @tag( 00 ) zchar[ 65535]
float  @lengthOf( int )
, stringy@calculatedFrom(
// " ++ [128512]%N ++ runes_of_ascii " emoji
// 50% %s
""" ++ [233]%N ++ runes_of_ascii "t" ++ [233]%N ++ runes_of_ascii """ /// triple
)	,
repeat roots u128 , @calculatedFrom(
""{,}""
)chars
    {
match roots
    as	Foo
{ 10
:
trueish,}
,
}
    , // @lengthOf(
i8i8 , @calculatedFrom(
    ""x y"")	@calculatedFrom( ""a\""b"")repeat Z9_
{
    f32a msg_type
    , repeat o	{ zchar[ 0
    // `tick` ""quote"" 'q'
    ] charz @calculatedFrom( /// triple
""CRC32"" ) , } , } ,	}root // " ++ [27880; 37322]%N ++ runes_of_ascii "
packet BodyLength  {calculatedFrom {
char[] x @calculatedFrom( ""\n""
)
    , _x @calculatedFrom(
""`tick`"" ), repeat u128 ,
    float	Packet `
` ,
    } ,	repeat
Foo {
    uint64 a1 ,	}
    , repeat char[ 42 ]
matchKey
`line1
line2` ,  match /// triple
rootA as lengthOf { // `tick` ""quote"" 'q'
""it's"" :
    u128 , //x
1 :
    uint8x
    ""it's"": charz } ,
repeat int16  zchar , repeat char[] BodyLength , @leftPad
// " ++ [27880; 37322]%N ++ runes_of_ascii "
// 50% %s
( )
    @calculatedFrom( ""it's""
    ) @rightPad
    (  ' '
)char[
// " ++ [128512]%N ++ runes_of_ascii " emoji
// a // b
007 ] Logon @lengthOf(
BodyLength ) , @tag(42
)
zchar[00 ] T @calculatedFrom(
""" ++ [233]%N ++ runes_of_ascii "t" ++ [233]%N ++ runes_of_ascii """
    ) , u8x {//x
float{	packetx
    `a\` , A	{
    uint8 charz
`a\`
, _x matchKey
`" ++ [28040; 24687; 31867; 22411]%N ++ runes_of_ascii "`
//	t
// packet A { u8 x, }
,
match trueish // trailing space 
as options1 { ""{,}"" : A , """" :Z9_
/// triple
// trailing space 
""1""	: // `tick` ""quote"" 'q'
f32a , 1 :msg_type , ""a\\"" :
    Packet ,  [ """ ++ [128512]%N ++ runes_of_ascii """
    ,""a\\"" ] :
    chars, } ,
match  len
as
    BodyLength { 65535:
    int
//x
// a // b
,
""\n"" : f32a,	[""packet"" ,
00 ,
""CRC32""
// @lengthOf(
// `tick` ""quote"" 'q'
,
""`tick`""
//x
// 50% %s
, 0 ,
    ""a	b"" ,
    // 50% %s
    """"  ,""1"" ] // " ++ [128512]%N ++ runes_of_ascii " emoji
:
repeatCount
""1"" // @lengthOf(
:// " ++ [27880; 37322]%N ++ runes_of_ascii "
leftPad,""CRC32""
:
lengthOf // @lengthOf(
,	[7 ,	""a	b"" ] : //
repeatCount
    , }, } ,	char[]
    falsey @calculatedFrom(""" ++ [233]%N ++ runes_of_ascii "t" ++ [233]%N ++ runes_of_ascii """) `" ++ [28040; 24687; 31867; 22411]%N ++ runes_of_ascii "`, zchar[007 ] lengthOf @lengthOf(
x_y_z )`say ""hi""`, } //	t
, } ,
    MetaDataX ,
}
")).
Eval vm_compute in ("<<<M104>>>" ++ check (runes_of_ascii "options // packet A { u8 x, }
{
}")).
Eval vm_compute in ("<<<T104>>>" ++ terms [mkTok 1 "options" 1 0 false; mkTok 44 "// packet A { u8 x, }" 1 8 true; mkTok 2 "{" 2 0 false; mkTok 3 "}" 3 0 false; mkTok 0 "<EOF>" 3 1 false] (mkPacket (mkPtok 1 "options" 1 0 0) (Some (mkPtok 3 "}" 3 0 3)) [(DOption (mkOptionDef (mkSpan (mkPtok 1 "options" 1 0 0) (mkPtok 3 "}" 3 0 3)) (mkPtok 1 "options" 1 0 0) (mkPtok 2 "{" 2 0 2) [] (mkPtok 3 "}" 3 0 3)))])).
Eval vm_compute in ("<<<M114>>>" ++ check (runes_of_ascii "// trailing space 
root
    packet	repeatCount
{ @lengthOf(
    _x
) msg_type repeatCount
    // a // b
    ,repeat
//	t
// @lengthOf(
uint16 u
//
/// triple
,	zchar[65535 ] f32a `100% of %d` ,}
/// triple
// " ++ [27880; 37322]%N ++ runes_of_ascii "
packet i64_ {
@rightPad
( )  BodyLength @calculatedFrom(
    ""abc"" )
`line1
line2` ,
}
MetaData o {zchar[ 65535 ]// `tick` ""quote"" 'q'
uint8x // 50% %s
, zchar[1 ]
i64_
,
    zchar[ 4294967296 ]As , }
")).
Eval vm_compute in ("<<<M124>>>" ++ check (runes_of_ascii "root packet
A
// packet A { u8 x, }
// `tick` ""quote"" 'q'
{
    int64
    //	t
    Header@calculatedFrom(
""packet"" ) , f32 o `it's` ,
@calculatedFrom(// @lengthOf(
"""" )zchar[
0123456789 ] A @calculatedFrom(
    ""\" ++ [233]%N ++ runes_of_ascii """ )
    ,@calculatedFrom( ""abc""
// a // b
//	t
) repeat
    // `tick` ""quote"" 'q'
    char[] a1,
    repeat int trueish ,@rightPad
(
'\x00'
) zchar[4294967296] _x , } root packet Z9_ {
    } packet calculatedFrom { @lengthOf( int )repeat chars // trailing space 
body, options1// " ++ [27880; 37322]%N ++ runes_of_ascii "
@lengthOf(int) ,@lengthOf(a1 ) repeat char[
    //x
    1 ]  Pad `" ++ [28040; 24687; 31867; 22411]%N ++ runes_of_ascii "` , @calculatedFrom( """" )rootA u
// " ++ [27880; 37322]%N ++ runes_of_ascii "
//
`doc`,
int8 matchKey @calculatedFrom( ""CRC32""	) , @lengthOf( packetx ) @lengthOf(  msg_type ) u16 Foo	,	packetx crc `u8 x,`, zchar[ 255  ] A	,}")).
Eval vm_compute in ("<<<M134>>>" ++ check (runes_of_ascii "// packet A { u8 x, }
packet u128 {} options	{Z9_// a // b
=u32
}options { }	MetaData
a1
{char[  42 ] roots `" ++ [28040; 24687; 31867; 22411]%N ++ runes_of_ascii "` , }
// " ++ [128512]%N ++ runes_of_ascii " emoji
")).
Eval vm_compute in ("<<<M144>>>" ++ check (runes_of_ascii "
packet T {
    f32a {
a1 , }// @lengthOf(
, zchar[ 7 ]stringy `100% of %d` // @lengthOf(
, // `tick` ""quote"" 'q'
}
    options {  } packet A
{
    @rightPad
( )
    @lengthOf( lengthOf// `tick` ""quote"" 'q'
)	@tag( 1)T
@calculatedFrom(
    ""a\""b"" )
`` , Header , @tag(
// `tick` ""quote"" 'q'
// trailing space 
4294967296
) options1
    {char[] A//
`{ , }` , match Z9_ // packet A { u8 x, }
as rootA {
[3, """ ++ [233]%N ++ runes_of_ascii "t" ++ [233]%N ++ runes_of_ascii """]
    // packet A { u8 x, }
    :Logon
,}, options1
Header`" ++ [233]%N ++ runes_of_ascii "`, repeat
f64 /// triple
MetaDataX `it's`
,
    },
    // trailing space 
    float64 BodyLength, }")).
Eval vm_compute in ("<<<M154>>>" ++ check (runes_of_ascii "
root  packet	uint8x { // trailing space 
@lengthOf(	a1 )uint64 i8i8
@calculatedFrom(""it's"" ) , repeat float32 a1 ,@tag(
1 ) @tag( 65535 )u32 options1, @lengthOf( i8i8
) @lengthOf( int ) @leftPad ( ) char[42 ]len  @calculatedFrom( ""packet"")	, }
root packet
    u128 {}
")).
Eval vm_compute in ("<<<M164>>>" ++ check (runes_of_ascii "root packet
a1 {
@calculatedFrom( """") int8 u128 , match
    i64_  as leftPad {
007 : tag ,[ 0123456789 ] : // 50% %s
string_	,
""" ++ [233]%N ++ runes_of_ascii "t" ++ [233]%N ++ runes_of_ascii """  :trueish , [ 255 ,  ""a	b"" ] :
trueish , }
, zchar[ 255
    ]o ,
    @tag( 65535
    ) @rightPad (' ' ) @tag( 7 )i8 pack
    @calculatedFrom( ""\n"" )
    //	t
    , repeat char[]
    charz `say ""hi""`  ,	}	options{ Header = int16 } options{ rootA= """ ++ [128512]%N ++ runes_of_ascii """ body= ""// no comment"" ;
}

")).
Eval vm_compute in ("<<<M174>>>" ++ check (runes_of_ascii "packet
    // `tick` ""quote"" 'q'
    asx {
    zchar[
007] Pad
`100% of %d` //x
,
}
root packet u128 { char[ 65535] crc , }")).
Eval vm_compute in ("<<<T174>>>" ++ terms [mkTok 35 "packet" 1 0 false; mkTok 44 "// `tick` ""quote"" 'q'" 2 4 true; mkTok 42 "asx" 3 4 false; mkTok 2 "{" 3 8 false; mkTok 14 "zchar[" 4 4 false; mkTok 30 "007" 5 0 false; mkTok 13 "]" 5 3 false; mkTok 42 "Pad" 5 5 false; mkTok 43 "`100% of %d`" 6 0 false; mkTok 44 "//x" 6 13 true; mkTok 40 "," 7 0 false; mkTok 3 "}" 8 0 false; mkTok 34 "root" 9 0 false; mkTok 35 "packet" 9 5 false; mkTok 42 "u128" 9 12 false; mkTok 2 "{" 9 17 false; mkTok 12 "char[" 9 19 false; mkTok 30 "65535" 9 25 false; mkTok 13 "]" 9 30 false; mkTok 42 "crc" 9 32 false; mkTok 40 "," 9 36 false; mkTok 3 "}" 9 38 false; mkTok 0 "<EOF>" 9 39 false] (mkPacket (mkPtok 35 "packet" 1 0 0) (Some (mkPtok 3 "}" 9 38 21)) [(DPacket (mkPacketDef (mkSpan (mkPtok 35 "packet" 1 0 0) (mkPtok 3 "}" 8 0 11)) None (mkPtok 35 "packet" 1 0 0) (mkPtok 42 "asx" 3 4 2) (mkPtok 2 "{" 3 8 3) [(mkFieldWithAttr (mkSpan (mkPtok 14 "zchar[" 4 4 4) (mkPtok 40 "," 7 0 10)) [] (MetaField (mkSpan (mkPtok 14 "zchar[" 4 4 4) (mkPtok 40 "," 7 0 10)) None (mkMetaDecl (mkSpan (mkPtok 14 "zchar[" 4 4 4) (mkPtok 40 "," 7 0 10)) (TyFixed (mkSpan (mkPtok 14 "zchar[" 4 4 4) (mkPtok 13 "]" 5 3 6)) (mkFixedString (mkSpan (mkPtok 14 "zchar[" 4 4 4) (mkPtok 13 "]" 5 3 6)) (mkPtok 14 "zchar[" 4 4 4) (mkPtok 30 "007" 5 0 5) (mkPtok 13 "]" 5 3 6))) (mkPtok 42 "Pad" 5 5 7) (Some (mkPtok 43 "`100% of %d`" 6 0 8)) (mkPtok 40 "," 7 0 10))))] (mkPtok 3 "}" 8 0 11))); (DPacket (mkPacketDef (mkSpan (mkPtok 34 "root" 9 0 12) (mkPtok 3 "}" 9 38 21)) (Some (mkPtok 34 "root" 9 0 12)) (mkPtok 35 "packet" 9 5 13) (mkPtok 42 "u128" 9 12 14) (mkPtok 2 "{" 9 17 15) [(mkFieldWithAttr (mkSpan (mkPtok 12 "char[" 9 19 16) (mkPtok 40 "," 9 36 20)) [] (MetaField (mkSpan (mkPtok 12 "char[" 9 19 16) (mkPtok 40 "," 9 36 20)) None (mkMetaDecl (mkSpan (mkPtok 12 "char[" 9 19 16) (mkPtok 40 "," 9 36 20)) (TyFixed (mkSpan (mkPtok 12 "char[" 9 19 16) (mkPtok 13 "]" 9 30 18)) (mkFixedString (mkSpan (mkPtok 12 "char[" 9 19 16) (mkPtok 13 "]" 9 30 18)) (mkPtok 12 "char[" 9 19 16) (mkPtok 30 "65535" 9 25 17) (mkPtok 13 "]" 9 30 18))) (mkPtok 42 "crc" 9 32 19) None (mkPtok 40 "," 9 36 20))))] (mkPtok 3 "}" 9 38 21)))])).
Eval vm_compute in ("<<<M184>>>" ++ check (runes_of_ascii "packet Pad {	repeat uint8x { char[]
Z9_, }
    , repeat zchar[	10
    ] i8i8,
    x, repeat
    string_
    { // @lengthOf(
repeat asx Foo ,int16	i8i8 ,  char[]matchKey, match
calculatedFrom
as roots { 3//
:x_y_z , }
, } , @lengthOf( x // packet A { u8 x, }
)
repeat // trailing space 
o`a\` , char[] /// triple
string_
    `{ , }` ,} options{ f32a
=false A= false } packet u128{
@calculatedFrom( """ ++ [128512]%N ++ runes_of_ascii """ ) string a1,@tag( 00 )
char[
10
]  A
`" ++ [233]%N ++ runes_of_ascii "`,char[65535 ] len , @tag(	00 ) @rightPad ( '\x00' )@calculatedFrom( ""1"" )
zchar[ 7
] // trailing space 
body ,
    @calculatedFrom( ""{,}"") i64_ { repeat
    // a // b
    uint8x tag	`u8 x,` ,
}, string_ A  , @calculatedFrom( ""x y"" )  @tag( 42 )
i16 pack // a // b
,	@rightPad (
)A{ Z9_
,  }
// packet A { u8 x, }
// @lengthOf(
,
tag
BodyLength ,
    }")).
Eval vm_compute in ("<<<M194>>>" ++ check (runes_of_ascii "MetaData
Logon	{ chars
metadata `u8 x,` , uint64 x_y_z, u32
    Z9_ ,
    // 50% %s
    uint64
// packet A { u8 x, }
// a // b
pack
, body asx
,
    }")).
Eval vm_compute in ("<<<M204>>>" ++ check (runes_of_ascii "packet x
    {
    string msg_type ,match roots  as // @lengthOf(
pack { ""\" ++ [233]%N ++ runes_of_ascii """: leftPad ,
    //	t
    0  : u8x 255 : options1
,""x y""
: i8i8// " ++ [27880; 37322]%N ++ runes_of_ascii "
, ""x y"" : len ""`tick`"": metadata ,
    }
    ,}
")).
Eval vm_compute in ("<<<M214>>>" ++ check (runes_of_ascii "
")).
Eval vm_compute in ("<<<M224>>>" ++ check (runes_of_ascii "packet T { } MetaData MetaDataX {matchKey
    trueish , }
    options { tag
=  false ;	zchar
= i64; //
lengthOf =
    007;T = f32 Pad =
//x
// `tick` ""quote"" 'q'
i32;}packet  uint8x { match
o
as
    u128{
""a\""b""
: Pad ,}
    , } options {
    Logon // " ++ [128512]%N ++ runes_of_ascii " emoji
= string ; } 	 ")).
Eval vm_compute in ("<<<M234>>>" ++ check (runes_of_ascii "MetaData stringy
{
    char[]
    u
    ,	leftPad body, char[] matchKey , u32
    Z9_	, crc body `" ++ [28040; 24687; 31867; 22411]%N ++ runes_of_ascii "`, uint8 packetx , } root //	t
packet
    pack// " ++ [128512]%N ++ runes_of_ascii " emoji
{ @rightPad( ' ' ) float
    int ,
@calculatedFrom( """" )
body
    {
match
lengthOf
    // a // b
    as a1 { 255 // `tick` ""quote"" 'q'
: trueish
    ,""\" ++ [233]%N ++ runes_of_ascii """
:
// 50% %s
// @lengthOf(
trueish 1
:rootA	}
    ,	},
}	options { }")).
Eval vm_compute in ("<<<M244>>>" ++ check (runes_of_ascii "packet string_ { // c
matchKey
@calculatedFrom(  ""it's""
)  , @tag( 65535
)
    char[  255
]stringy , @leftPad (' ')	@rightPad
(
'0' )  u64 leftPad
    @calculatedFrom( // trailing space 
""abc"" )
, @calculatedFrom( """ ++ [233]%N ++ runes_of_ascii "t" ++ [233]%N ++ runes_of_ascii """ ) repeat
u
    //	t
    , match
string_ as packetx {
    ""packet"" : Pad , 1
    : metadata
    ,	""`tick`"" // `tick` ""quote"" 'q'
:a1 // 50% %s
""" ++ [128512]%N ++ runes_of_ascii """ :charz ,
} , repeat zchar[
    10]	_x
,
    }
")).
Eval vm_compute in ("<<<T244>>>" ++ terms [mkTok 35 "packet" 1 0 false; mkTok 42 "string_" 1 7 false; mkTok 2 "{" 1 15 false; mkTok 44 "// c" 1 17 true; mkTok 42 "matchKey" 2 0 false; mkTok 5 "@calculatedFrom(" 3 0 false; mkTok 31 """it's""" 3 18 false; mkTok 6 ")" 4 0 false; mkTok 40 "," 4 3 false; mkTok 9 "@tag(" 4 5 false; mkTok 30 "65535" 4 11 false; mkTok 6 ")" 5 0 false; mkTok 12 "char[" 6 4 false; mkTok 30 "255" 6 11 false; mkTok 13 "]" 7 0 false; mkTok 42 "stringy" 7 1 false; mkTok 40 "," 7 9 false; mkTok 32 "@leftPad" 7 11 false; mkTok 8 "(" 7 20 false; mkTok 33 "' '" 7 21 false; mkTok 6 ")" 7 24 false; mkTok 32 "@rightPad" 7 26 false; mkTok 8 "(" 8 0 false; mkTok 33 "'0'" 9 0 false; mkTok 6 ")" 9 4 false; mkTok 23 "u64" 9 7 false; mkTok 42 "leftPad" 9 11 false; mkTok 5 "@calculatedFrom(" 10 4 false; mkTok 44 "// trailing space " 10 21 true; mkTok 31 """abc""" 11 0 false; mkTok 6 ")" 11 6 false; mkTok 40 "," 12 0 false; mkTok 5 "@calculatedFrom(" 12 2 false; mkTok 31 (string_of_bytes [34; 195; 169; 116; 195; 169; 34]%N) 12 19 false; mkTok 6 ")" 12 25 false; mkTok 36 "repeat" 12 27 false; mkTok 42 "u" 13 0 false; mkTok 44 (string_of_bytes [47; 47; 9; 116]%N) 14 4 true; mkTok 40 "," 15 4 false; mkTok 38 "match" 15 6 false; mkTok 42 "string_" 16 0 false; mkTok 17 "as" 16 8 false; mkTok 42 "packetx" 16 11 false; mkTok 2 "{" 16 19 false; mkTok 31 """packet""" 17 4 false; mkTok 39 ":" 17 13 false; mkTok 42 "Pad" 17 15 false; mkTok 40 "," 17 19 false; mkTok 30 "1" 17 21 false; mkTok 39 ":" 18 4 false; mkTok 42 "metadata" 18 6 false; mkTok 40 "," 19 4 false; mkTok 31 """`tick`""" 19 6 false; mkTok 44 "// `tick` ""quote"" 'q'" 19 15 true; mkTok 39 ":" 20 0 false; mkTok 42 "a1" 20 1 false; mkTok 44 "// 50% %s" 20 4 true; mkTok 31 (string_of_bytes [34; 240; 159; 152; 128; 34]%N) 21 0 false; mkTok 39 ":" 21 4 false; mkTok 42 "charz" 21 5 false; mkTok 40 "," 21 11 false; mkTok 3 "}" 22 0 false; mkTok 40 "," 22 2 false; mkTok 36 "repeat" 22 4 false; mkTok 14 "zchar[" 22 11 false; mkTok 30 "10" 23 4 false; mkTok 13 "]" 23 6 false; mkTok 42 "_x" 23 8 false; mkTok 40 "," 24 0 false; mkTok 3 "}" 25 4 false; mkTok 0 "<EOF>" 26 0 false] (mkPacket (mkPtok 35 "packet" 1 0 0) (Some (mkPtok 3 "}" 25 4 69)) [(DPacket (mkPacketDef (mkSpan (mkPtok 35 "packet" 1 0 0) (mkPtok 3 "}" 25 4 69)) None (mkPtok 35 "packet" 1 0 0) (mkPtok 42 "string_" 1 7 1) (mkPtok 2 "{" 1 15 2) [(mkFieldWithAttr (mkSpan (mkPtok 42 "matchKey" 2 0 4) (mkPtok 40 "," 4 3 8)) [] (CheckSumField (mkSpan (mkPtok 42 "matchKey" 2 0 4) (mkPtok 40 "," 4 3 8)) (mkChecksumFieldDecl (mkSpan (mkPtok 42 "matchKey" 2 0 4) (mkPtok 40 "," 4 3 8)) None (mkPtok 42 "matchKey" 2 0 4) (mkCalculatedFrom (mkSpan (mkPtok 5 "@calculatedFrom(" 3 0 5) (mkPtok 6 ")" 4 0 7)) (mkPtok 5 "@calculatedFrom(" 3 0 5) (mkPtok 31 """it's""" 3 18 6) (mkPtok 6 ")" 4 0 7)) None (mkPtok 40 "," 4 3 8)))); (mkFieldWithAttr (mkSpan (mkPtok 9 "@tag(" 4 5 9) (mkPtok 40 "," 7 9 16)) [(FATag (mkSpan (mkPtok 9 "@tag(" 4 5 9) (mkPtok 6 ")" 5 0 11)) (mkTagAttr (mkSpan (mkPtok 9 "@tag(" 4 5 9) (mkPtok 6 ")" 5 0 11)) (mkPtok 9 "@tag(" 4 5 9) (mkPtok 30 "65535" 4 11 10) (mkPtok 6 ")" 5 0 11)))] (MetaField (mkSpan (mkPtok 12 "char[" 6 4 12) (mkPtok 40 "," 7 9 16)) None (mkMetaDecl (mkSpan (mkPtok 12 "char[" 6 4 12) (mkPtok 40 "," 7 9 16)) (TyFixed (mkSpan (mkPtok 12 "char[" 6 4 12) (mkPtok 13 "]" 7 0 14)) (mkFixedString (mkSpan (mkPtok 12 "char[" 6 4 12) (mkPtok 13 "]" 7 0 14)) (mkPtok 12 "char[" 6 4 12) (mkPtok 30 "255" 6 11 13) (mkPtok 13 "]" 7 0 14))) (mkPtok 42 "stringy" 7 1 15) None (mkPtok 40 "," 7 9 16)))); (mkFieldWithAttr (mkSpan (mkPtok 32 "@leftPad" 7 11 17) (mkPtok 40 "," 12 0 31)) [(FAPadding (mkSpan (mkPtok 32 "@leftPad" 7 11 17) (mkPtok 6 ")" 7 24 20)) (mkPaddingAttr (mkSpan (mkPtok 32 "@leftPad" 7 11 17) (mkPtok 6 ")" 7 24 20)) (mkPtok 32 "@leftPad" 7 11 17) (mkPtok 8 "(" 7 20 18) (Some (mkPtok 33 "' '" 7 21 19)) (mkPtok 6 ")" 7 24 20))); (FAPadding (mkSpan (mkPtok 32 "@rightPad" 7 26 21) (mkPtok 6 ")" 9 4 24)) (mkPaddingAttr (mkSpan (mkPtok 32 "@rightPad" 7 26 21) (mkPtok 6 ")" 9 4 24)) (mkPtok 32 "@rightPad" 7 26 21) (mkPtok 8 "(" 8 0 22) (Some (mkPtok 33 "'0'" 9 0 23)) (mkPtok 6 ")" 9 4 24)))] (CheckSumField (mkSpan (mkPtok 23 "u64" 9 7 25) (mkPtok 40 "," 12 0 31)) (mkChecksumFieldDecl (mkSpan (mkPtok 23 "u64" 9 7 25) (mkPtok 40 "," 12 0 31)) (Some (TyBasic (mkSpan (mkPtok 23 "u64" 9 7 25) (mkPtok 23 "u64" 9 7 25)) (mkBasicType (mkSpan (mkPtok 23 "u64" 9 7 25) (mkPtok 23 "u64" 9 7 25)) (mkPtok 23 "u64" 9 7 25)))) (mkPtok 42 "leftPad" 9 11 26) (mkCalculatedFrom (mkSpan (mkPtok 5 "@calculatedFrom(" 10 4 27) (mkPtok 6 ")" 11 6 30)) (mkPtok 5 "@calculatedFrom(" 10 4 27) (mkPtok 31 """abc""" 11 0 29) (mkPtok 6 ")" 11 6 30)) None (mkPtok 40 "," 12 0 31)))); (mkFieldWithAttr (mkSpan (mkPtok 5 "@calculatedFrom(" 12 2 32) (mkPtok 40 "," 15 4 38)) [(FACalculatedFrom (mkSpan (mkPtok 5 "@calculatedFrom(" 12 2 32) (mkPtok 6 ")" 12 25 34)) (mkCalculatedFrom (mkSpan (mkPtok 5 "@calculatedFrom(" 12 2 32) (mkPtok 6 ")" 12 25 34)) (mkPtok 5 "@calculatedFrom(" 12 2 32) (mkPtok 31 (string_of_bytes [34; 195; 169; 116; 195; 169; 34]%N) 12 19 33) (mkPtok 6 ")" 12 25 34)))] (ObjectField (mkSpan (mkPtok 36 "repeat" 12 27 35) (mkPtok 40 "," 15 4 38)) (Some (mkPtok 36 "repeat" 12 27 35)) (mkPtok 42 "u" 13 0 36) None None (mkPtok 40 "," 15 4 38))); (mkFieldWithAttr (mkSpan (mkPtok 38 "match" 15 6 39) (mkPtok 40 "," 22 2 62)) [] (MatchField (mkSpan (mkPtok 38 "match" 15 6 39) (mkPtok 40 "," 22 2 62)) (mkMatchFieldDecl (mkSpan (mkPtok 38 "match" 15 6 39) (mkPtok 3 "}" 22 0 61)) (mkPtok 38 "match" 15 6 39) (mkPtok 42 "string_" 16 0 40) (mkPtok 17 "as" 16 8 41) (mkPtok 42 "packetx" 16 11 42) (mkPtok 2 "{" 16 19 43) [(mkMatchPair (mkSpan (mkPtok 31 """packet""" 17 4 44) (mkPtok 40 "," 17 19 47)) (MKString (mkPtok 31 """packet""" 17 4 44)) (mkPtok 39 ":" 17 13 45) (mkPtok 42 "Pad" 17 15 46) (Some (mkPtok 40 "," 17 19 47))); (mkMatchPair (mkSpan (mkPtok 30 "1" 17 21 48) (mkPtok 40 "," 19 4 51)) (MKDigits (mkPtok 30 "1" 17 21 48)) (mkPtok 39 ":" 18 4 49) (mkPtok 42 "metadata" 18 6 50) (Some (mkPtok 40 "," 19 4 51))); (mkMatchPair (mkSpan (mkPtok 31 """`tick`""" 19 6 52) (mkPtok 42 "a1" 20 1 55)) (MKString (mkPtok 31 """`tick`""" 19 6 52)) (mkPtok 39 ":" 20 0 54) (mkPtok 42 "a1" 20 1 55) None); (mkMatchPair (mkSpan (mkPtok 31 (string_of_bytes [34; 240; 159; 152; 128; 34]%N) 21 0 57) (mkPtok 40 "," 21 11 60)) (MKString (mkPtok 31 (string_of_bytes [34; 240; 159; 152; 128; 34]%N) 21 0 57)) (mkPtok 39 ":" 21 4 58) (mkPtok 42 "charz" 21 5 59) (Some (mkPtok 40 "," 21 11 60)))] (mkPtok 3 "}" 22 0 61)) (mkPtok 40 "," 22 2 62))); (mkFieldWithAttr (mkSpan (mkPtok 36 "repeat" 22 4 63) (mkPtok 40 "," 24 0 68)) [] (MetaField (mkSpan (mkPtok 36 "repeat" 22 4 63) (mkPtok 40 "," 24 0 68)) (Some (mkPtok 36 "repeat" 22 4 63)) (mkMetaDecl (mkSpan (mkPtok 14 "zchar[" 22 11 64) (mkPtok 40 "," 24 0 68)) (TyFixed (mkSpan (mkPtok 14 "zchar[" 22 11 64) (mkPtok 13 "]" 23 6 66)) (mkFixedString (mkSpan (mkPtok 14 "zchar[" 22 11 64) (mkPtok 13 "]" 23 6 66)) (mkPtok 14 "zchar[" 22 11 64) (mkPtok 30 "10" 23 4 65) (mkPtok 13 "]" 23 6 66))) (mkPtok 42 "_x" 23 8 67) None (mkPtok 40 "," 24 0 68))))] (mkPtok 3 "}" 25 4 69)))])).
Eval vm_compute in ("<<<M254>>>" ++ check (runes_of_ascii "packet i64_ {
Logon{ u8
// a // b
// " ++ [27880; 37322]%N ++ runes_of_ascii "
i8i8//	t
@calculatedFrom(""" ++ [233]%N ++ runes_of_ascii "t" ++ [233]%N ++ runes_of_ascii """)
    ,} //x
, } packet lengthOf
// c
// c
{ }
")).
Eval vm_compute in ("<<<M264>>>" ++ check (runes_of_ascii "
MetaData i8i8 { char[]	Header
    `// not a comment`  ,u8 roots `
` , int64 T,	} options { }
")).
Eval vm_compute in ("<<<M274>>>" ++ check (runes_of_ascii "packet calculatedFrom
    { // @lengthOf(
repeat uint64 i8i8 // 50% %s
, @lengthOf(matchKey
)
    float32 Logon
    `crlf
line` , @calculatedFrom( // trailing space 
"""" )  char[ 42  ]
uint8x , options1 // a // b
{ char[]	chars @lengthOf( // " ++ [128512]%N ++ runes_of_ascii " emoji
u
    // `tick` ""quote"" 'q'
    ) , match // " ++ [27880; 37322]%N ++ runes_of_ascii "
zchar as pack
    {
    [
    ""1""
, """ ++ [233]%N ++ runes_of_ascii "t" ++ [233]%N ++ runes_of_ascii """ ]	: x
, 3  : u  ,0// 50% %s
: f32a , 007// c
:A
, 7 : // c
As 3 :
T  , } ,	} , }
    options{ //	t
BodyLength
    =
00
// trailing space 
// a // b
} options
    // c
    {pack = ""x y"" body
    = true; charz
    = zchar[ 4294967296 ]
;// " ++ [27880; 37322]%N ++ runes_of_ascii "
metadata
=
    string
    }
MetaData a1 { uint64 Z9_ ,
    asx Z9_
`" ++ [233]%N ++ runes_of_ascii "`
    //
    , }packet packetx
    {
// packet A { u8 x, }
/// triple
@rightPad (
    ) f64 int @lengthOf(// `tick` ""quote"" 'q'
Pad ) , u32 BodyLength ,
float64 trueish//x
@lengthOf( lengthOf ) `tab	here` , }
")).
Eval vm_compute in ("<<<M284>>>" ++ check (runes_of_ascii "
")).
Eval vm_compute in ("<<<M294>>>" ++ check (runes_of_ascii "options//
{ repeatCount  =
0 ; msg_type =	float64 ;options1 =  ""`tick`""
    // `tick` ""quote"" 'q'
    ;// packet A { u8 x, }
tag  =// c
""\" ++ [233]%N ++ runes_of_ascii """ } options {
// @lengthOf(
// 50% %s
calculatedFrom=true
; Foo =	7
crc =	""it's"" u =
    false ;
    }

")).
Eval vm_compute in ("<<<M304>>>" ++ check (runes_of_ascii "options {
    StringPrefixLenType = u16;
    ArrayPrefixLenType = u16;
}

packet SampleBinary {
    uint16 MsgType `" ++ [28040; 24687; 31867; 22411]%N ++ runes_of_ascii "`,
    u16 BodyLenght @lengthOf(Body) `" ++ [28040; 24687; 20307; 38271; 24230]%N ++ runes_of_ascii "`,
    match MsgType as Body {
        1 : Logon,
        2 : Logout,
        3 : Heartbeat,
        4 : RiskControlRequest,
        5 : RiskControlResponse,
    },
    @calculatedFrom(""CRC32"")
    u32 Ckecksum `" ++ [26657; 39564; 21644]%N ++ runes_of_ascii "`,
}

packet Logon {
    @leftPad('0')
    char[10] UserName `" ++ [29992; 25143; 21517]%N ++ runes_of_ascii "`,
    string Password `" ++ [23494; 30721]%N ++ runes_of_ascii "`,
    uint64 ClientId `" ++ [23458; 25143; 31471]%N ++ runes_of_ascii "ID`,
    u16 HeartbeatInterval `" ++ [24515; 36339; 38388; 38548]%N ++ runes_of_ascii "`,
}

packet Logout {
    @rightPad('0')
    char[10] UserName `" ++ [29992; 25143; 21517]%N ++ runes_of_ascii "`,
    uint64 ClientId `" ++ [23458; 25143; 31471]%N ++ runes_of_ascii "ID`,
}

packet Heartbeat {
}

packet RiskControlRequest {
    string UniqueOrderId `" ++ [21807; 19968; 35746; 21333; 21495]%N ++ runes_of_ascii "`,
    char[16] ClOrdID `" ++ [23458; 25143; 35746; 21333; 21495]%N ++ runes_of_ascii "`,
    char[3] MarketID `" ++ [24066; 22330]%N ++ runes_of_ascii "id`,
    char[12] SecurityID `" ++ [35777; 21048; 20195; 30721]%N ++ runes_of_ascii "`,
    char Side `" ++ [20080; 21334; 26041; 21521]%N ++ runes_of_ascii "`,
    char OrderType `" ++ [35746; 21333; 31867; 22411]%N ++ runes_of_ascii "`,
    u64 Price `" ++ [20215; 26684]%N ++ runes_of_ascii "`,
    u32 Qty `" ++ [25968; 37327]%N ++ runes_of_ascii "`,
    repeat string ExtraInfo `" ++ [38468; 21152; 20449; 24687]%N ++ runes_of_ascii "`,
    repeat SubOrder {
        char[16] ClOrdID `" ++ [23376; 35746; 21333; 21495]%N ++ runes_of_ascii "`,
        u64 Price `" ++ [23376; 35746; 21333; 20215; 26684]%N ++ runes_of_ascii "`,
        u32 Qty `" ++ [23376; 35746; 21333; 25968; 37327]%N ++ runes_of_ascii "`,
    },
}

packet RiskControlResponse {
    string UniqueOrderId `" ++ [21807; 19968; 35746; 21333; 21495]%N ++ runes_of_ascii "`,
    i32 Status `" ++ [29366; 24577]%N ++ runes_of_ascii "`,
    string Msg `" ++ [32467; 26524; 20449; 24687]%N ++ runes_of_ascii "`,
    repeat Detail,
}

packet Detail {
    string RuleName `" ++ [35268; 21017; 21517; 31216]%N ++ runes_of_ascii "`,
    u16 Code `" ++ [21407; 22240; 20195; 30721]%N ++ runes_of_ascii "`,
}")).
Eval vm_compute in ("<<<M314>>>" ++ check (runes_of_ascii "MetaData
	{ char[] Z9_`{ , }`,} options { tag =
    false } packet
// a // b
// @lengthOf(
Pad {Foo @calculatedFrom( // `tick` ""quote"" 'q'
""a\\"" ) ,
    trueish ,
    char[ 00]
    // " ++ [128512]%N ++ runes_of_ascii " emoji
    packetx , }
")).
Eval vm_compute in ("<<<M324>>>" ++ check (runes_of_ascii "MetaData
crc	{  Z9_`{ , }`,} options { tag =
    false } packet
// a // b
// @lengthOf(
Pad {Foo @calculatedFrom( // `tick` ""quote"" 'q'
""a\\"" ) ,
    trueish ,
    char[ 00]
    // " ++ [128512]%N ++ runes_of_ascii " emoji
    packetx , }
")).
Eval vm_compute in ("<<<M334>>>" ++ check (runes_of_ascii "MetaData
crc	{ char[] Z9_,} options { tag =
    false } packet
// a // b
// @lengthOf(
Pad {Foo @calculatedFrom( // `tick` ""quote"" 'q'
""a\\"" ) ,
    trueish ,
    char[ 00]
    // " ++ [128512]%N ++ runes_of_ascii " emoji
    packetx , }
")).
Eval vm_compute in ("<<<M344>>>" ++ check (runes_of_ascii "MetaData
crc	{ char[] Z9_`{ , }`, options { tag =
    false } packet
// a // b
// @lengthOf(
Pad {Foo @calculatedFrom( // `tick` ""quote"" 'q'
""a\\"" ) ,
    trueish ,
    char[ 00]
    // " ++ [128512]%N ++ runes_of_ascii " emoji
    packetx , }
")).
Eval vm_compute in ("<<<M354>>>" ++ check (runes_of_ascii "MetaData
crc	{ char[] Z9_`{ , }`,} options  tag =
    false } packet
// a // b
// @lengthOf(
Pad {Foo @calculatedFrom( // `tick` ""quote"" 'q'
""a\\"" ) ,
    trueish ,
    char[ 00]
    // " ++ [128512]%N ++ runes_of_ascii " emoji
    packetx , }
")).
Eval vm_compute in ("<<<M364>>>" ++ check (runes_of_ascii "MetaData
crc	{ char[] Z9_`{ , }`,} options { tag 
    false } packet
// a // b
// @lengthOf(
Pad {Foo @calculatedFrom( // `tick` ""quote"" 'q'
""a\\"" ) ,
    trueish ,
    char[ 00]
    // " ++ [128512]%N ++ runes_of_ascii " emoji
    packetx , }
")).
Eval vm_compute in ("<<<M374>>>" ++ check (runes_of_ascii "MetaData
crc	{ char[] Z9_`{ , }`,} options { tag =
    false  packet
// a // b
// @lengthOf(
Pad {Foo @calculatedFrom( // `tick` ""quote"" 'q'
""a\\"" ) ,
    trueish ,
    char[ 00]
    // " ++ [128512]%N ++ runes_of_ascii " emoji
    packetx , }
")).
Eval vm_compute in ("<<<M384>>>" ++ check (runes_of_ascii "MetaData
crc	{ char[] Z9_`{ , }`,} options { tag =
    false } packet
// a // b
// @lengthOf(
 {Foo @calculatedFrom( // `tick` ""quote"" 'q'
""a\\"" ) ,
    trueish ,
    char[ 00]
    // " ++ [128512]%N ++ runes_of_ascii " emoji
    packetx , }
")).
Eval vm_compute in ("<<<M394>>>" ++ check (runes_of_ascii "MetaData
crc	{ char[] Z9_`{ , }`,} options { tag =
    false } packet
// a // b
// @lengthOf(
Pad { @calculatedFrom( // `tick` ""quote"" 'q'
""a\\"" ) ,
    trueish ,
    char[ 00]
    // " ++ [128512]%N ++ runes_of_ascii " emoji
    packetx , }
")).
Eval vm_compute in ("<<<M404>>>" ++ check (runes_of_ascii "MetaData
crc	{ char[] Z9_`{ , }`,} options { tag =
    false } packet
// a // b
// @lengthOf(
Pad {Foo @calculatedFrom( // `tick` ""quote"" 'q'
 ) ,
    trueish ,
    char[ 00]
    // " ++ [128512]%N ++ runes_of_ascii " emoji
    packetx , }
")).
Eval vm_compute in ("<<<M414>>>" ++ check (runes_of_ascii "MetaData
crc	{ char[] Z9_`{ , }`,} options { tag =
    false } packet
// a // b
// @lengthOf(
Pad {Foo @calculatedFrom( // `tick` ""quote"" 'q'
""a\\"" ) 
    trueish ,
    char[ 00]
    // " ++ [128512]%N ++ runes_of_ascii " emoji
    packetx , }
")).
Eval vm_compute in ("<<<M424>>>" ++ check (runes_of_ascii "MetaData
crc	{ char[] Z9_`{ , }`,} options { tag =
    false } packet
// a // b
// @lengthOf(
Pad {Foo @calculatedFrom( // `tick` ""quote"" 'q'
""a\\"" ) ,
    trueish 
    char[ 00]
    // " ++ [128512]%N ++ runes_of_ascii " emoji
    packetx , }
")).
Eval vm_compute in ("<<<M434>>>" ++ check (runes_of_ascii "MetaData
crc	{ char[] Z9_`{ , }`,} options { tag =
    false } packet
// a // b
// @lengthOf(
Pad {Foo @calculatedFrom( // `tick` ""quote"" 'q'
""a\\"" ) ,
    trueish ,
    char[ ]
    // " ++ [128512]%N ++ runes_of_ascii " emoji
    packetx , }
")).
Eval vm_compute in ("<<<M444>>>" ++ check (runes_of_ascii "MetaData
crc	{ char[] Z9_`{ , }`,} options { tag =
    false } packet
// a // b
// @lengthOf(
Pad {Foo @calculatedFrom( // `tick` ""quote"" 'q'
""a\\"" ) ,
    trueish ,
    char[ 00]
    // " ++ [128512]%N ++ runes_of_ascii " emoji
     , }
")).
Eval vm_compute in ("<<<M454>>>" ++ check (runes_of_ascii "MetaData
crc	{ char[] Z9_`{ , }`,} options { tag =
    false } packet
// a // b
// @lengthOf(
Pad {Foo @calculatedFrom( // `tick` ""quote"" 'q'
""a\\"" ) ,
    trueish ,
    char[ 00]
    // " ++ [128512]%N ++ runes_of_ascii " emoji
    packetx , 
")).
Eval vm_compute in ("<<<M464>>>" ++ check (runes_of_ascii "MetaData
crc	{ char[] Z9_`{ , }`,} options { tag =
 " ++ [0]%N ++ runes_of_ascii "   false } packet
// a // b
// @lengthOf(
Pad {Foo @calculatedFrom( // `tick` ""quote"" 'q'
""a\\"" ) ,
    trueish ,
    char[ 00]
    // " ++ [128512]%N ++ runes_of_ascii " emoji
    packetx , }
")).
Eval vm_compute in ("<<<M474>>>" ++ check (runes_of_ascii "MetaData
crc	{ char[] Z9_`{ , }`,} options { tag =
    false } packet
// a // b
// @lengthOf(
Pad {Foo @calculatedFrom( // `tick` ""quote"" 'q'
""a\\"" ) ,
    trueish ,
 %   char[ 00]
    // " ++ [128512]%N ++ runes_of_ascii " emoji
    packetx , }
")).
Eval vm_compute in ("<<<M484>>>" ++ check (runes_of_ascii "root packet _x	{ @rightPad (
' ' ) string u8x @lengthOf(")).
Eval vm_compute in ("<<<M494>>>" ++ check (runes_of_ascii "root packet _x	{ @rightPad (
' ' ) string u8x @lengthOf(
    _x
) , repeat Pad  { // " ++ [128512]%N ++ runes_of_ascii " emoji
As
// `tick` ""quote"" 'q'
//x
{matchKey chars,
} , }@lengthOf( }")).
Eval vm_compute in ("<<<M504>>>" ++ check (runes_of_ascii "root packet _x	{ @rightPad (
' ' ) string")).
Eval vm_compute in ("<<<M514>>>" ++ check (runes_of_ascii "root packet _x	{ @rightPad (
' ' ) u8x string @lengthOf(
    _x
) , repeat Pad  { // " ++ [128512]%N ++ runes_of_ascii " emoji
As
// `tick` ""quote"" 'q'
//x
{matchKey chars,
} , }, }")).
Eval vm_compute in ("<<<M524>>>" ++ check (runes_of_ascii "root packet _x	{ @rightPad (
' ' ) string u8x @lengthOf(
    _x
) , repeat Pad  { // " ++ [128512]%N ++ runes_of_ascii " emoji
As
// `tick` ""quote"" 'q'
//x
{matchKey ,,
} , }, }")).
Eval vm_compute in ("<<<M534>>>" ++ check (runes_of_ascii "root packet _x	{ @rightPad (
' ' ) string u8x @lengthOf(
    _x
) , repeat Pad  { // " ++ [128512]%N ++ runes_of_ascii " emoji
As
// `tick` ""quote"" 'q'
//x
{ chars,
} , }, }")).
Eval vm_compute in ("<<<M544>>>" ++ check (runes_of_ascii "root packet _x	{ @rightPad (
' ' ) string u8x")).
Eval vm_compute in ("<<<M554>>>" ++ check (runes_of_ascii "root packet _x	{ @rightPad (
' ' ) string u8x @lengthOf(
    _x
) , repeat Pad  { // " ++ [128512]%N ++ runes_of_ascii " emoji
As
// `tick` ""quote"" 'q'
//x
{matchKey chars,
} , }, } }")).
Eval vm_compute in ("<<<M564>>>" ++ check (runes_of_ascii " ")).
Eval vm_compute in ("<<<M574>>>" ++ check ([65279]%N)).
Eval vm_compute in ("<<<M584>>>" ++ check (runes_of_ascii "u32 : @lengthOf( '\x00' } char string @tag( char true false MetaData ""a	b"" `// not a comment`")).
Eval vm_compute in ("<<<M594>>>" ++ check (runes_of_ascii ")w?!zV^]xyN'&nd8Gq!2G H,AUM]Rq]n;B]tk~")).
