From FP Require Import Lexer Parser ShowPT Digest.
From Coq Require Import String List NArith.
Import ListNotations.
Open Scope string_scope.
Set Printing Width 100000000.
Set Printing Depth 100000000.
Definition nl : string := String (Ascii.ascii_of_nat 10) EmptyString.
Definition model_lex (rs : list rune) : string := show_toks (lex rs).
Definition model_parse (rs : list rune) : string :=
  show_pt (match lex rs with Some ts => parse ts | None => None end).
(* coqc is slow at printing long strings: digests first (Digest.v), full texts on demand *)
Definition check (rs : list rune) : string :=
  digest (model_lex rs) ++ " " ++ digest (model_parse rs).
Definition full (rs : list rune) : string := model_lex rs ++ nl ++ model_parse rs.
Definition terms (ts : list tok) (t : pt) : string :=
  digest (show_toks (Some ts)) ++ " " ++ digest (show_pt (Some t)) ++ " " ++ digest (show_pt (parse ts)).
Definition terms_full (ts : list tok) (t : pt) : string :=
  show_toks (Some ts) ++ nl ++ show_pt (Some t) ++ nl ++ show_pt (parse ts).
Eval vm_compute in ("<<<M4>>>" ++ check (runes_of_ascii "root packet pack  { match Pad as// a // b
f32a
    {	[
/// triple
//	t
"""" ]: leftPad
, [""" ++ [233]%N ++ runes_of_ascii "t" ++ [233]%N ++ runes_of_ascii """,007 ] : //	t
f32a //x
, 65535 :  body
    ,
    // @lengthOf(
    10:u128,42	: // trailing space 
pack, } ,}options{// " ++ [27880; 37322]%N ++ runes_of_ascii "
o=
    // c
    f64 ; x_y_z //
= /// triple
u32 len =
    42;
falsey
    = true	;}")).
Eval vm_compute in ("<<<M14>>>" ++ check (runes_of_ascii "
")).
Eval vm_compute in ("<<<M24>>>" ++ check (runes_of_ascii "root // c
packet msg_type	{ repeat// packet A { u8 x, }
A { repeat a1
    { repeat  len// trailing space 
, }
    ,pack string_,	zchar[ 7 ] msg_type  @lengthOf(u
) , } ,
    repeat
zchar[ // `tick` ""quote"" 'q'
00] tag, u64 o@calculatedFrom(""a\\""
    // trailing space 
    ) ,  }
    packet charz {@tag( 0
) // c
repeat
    // a // b
    u {
char[007 ] T,}, repeatCount @calculatedFrom( ""\n""
)
,
}packet
trueish {
@calculatedFrom( ""a\\"") @rightPad
    ('0' ) // `tick` ""quote"" 'q'
@lengthOf( BodyLength
) string asx @lengthOf( A	),
//x
/// triple
@rightPad (
' '
) match pack
    // @lengthOf(
    as leftPad
{  [
1 ]// a // b
:
body , [ ""a	b""]
:msg_type , // `tick` ""quote"" 'q'
10 :calculatedFrom ,7 : packetx,
""" ++ [233]%N ++ runes_of_ascii "t" ++ [233]%N ++ runes_of_ascii """
: roots ,	}
    ,@calculatedFrom(""1""
    )  repeat roots
    // c
    u8x
    ,}
")).
Eval vm_compute in ("<<<M34>>>" ++ check (runes_of_ascii "root/// triple
packet int{
f32 i8i8 , uint8x /// triple
zchar
    `// not a comment`// a // b
,
    u64 u8x @lengthOf( u ) ,char[] i64_@lengthOf( crc
    ), @lengthOf( packetx
    )metadata i64_
, } packet a1	{ zchar[ 65535
] float, zchar[ 00
    //	t
    ]
    matchKey
,
} options { crc =u64 } MetaData leftPad { trueish string_ ,  uint64 Header
`" ++ [28040; 24687; 31867; 22411]%N ++ runes_of_ascii "` , }
    // " ++ [128512]%N ++ runes_of_ascii " emoji
    MetaData//x
tag { zchar
chars
// " ++ [27880; 37322]%N ++ runes_of_ascii "
//x
,  repeatCount  lengthOf`
` , i16
u /// triple
`tab	here` , lengthOf
a1 ,u16 o
    , char
i64_  `two words` , }
//x
")).
Eval vm_compute in ("<<<T34>>>" ++ terms [mkTok 34 "root" 1 0 false; mkTok 44 "/// triple" 1 4 true; mkTok 35 "packet" 2 0 false; mkTok 42 "int" 2 7 false; mkTok 2 "{" 2 10 false; mkTok 28 "f32" 3 0 false; mkTok 42 "i8i8" 3 4 false; mkTok 40 "," 3 9 false; mkTok 42 "uint8x" 3 11 false; mkTok 44 "/// triple" 3 18 true; mkTok 42 "zchar" 4 0 false; mkTok 43 "`// not a comment`" 5 4 false; mkTok 44 "// a // b" 5 22 true; mkTok 40 "," 6 0 false; mkTok 23 "u64" 7 4 false; mkTok 42 "u8x" 7 8 false; mkTok 7 "@lengthOf(" 7 12 false; mkTok 42 "u" 7 23 false; mkTok 6 ")" 7 25 false; mkTok 40 "," 7 27 false; mkTok 16 "char[]" 7 28 false; mkTok 42 "i64_" 7 35 false; mkTok 7 "@lengthOf(" 7 39 false; mkTok 42 "crc" 7 50 false; mkTok 6 ")" 8 4 false; mkTok 40 "," 8 5 false; mkTok 7 "@lengthOf(" 8 7 false; mkTok 42 "packetx" 8 18 false; mkTok 6 ")" 9 4 false; mkTok 42 "metadata" 9 5 false; mkTok 42 "i64_" 9 14 false; mkTok 40 "," 10 0 false; mkTok 3 "}" 10 2 false; mkTok 35 "packet" 10 4 false; mkTok 42 "a1" 10 11 false; mkTok 2 "{" 10 14 false; mkTok 14 "zchar[" 10 16 false; mkTok 30 "65535" 10 23 false; mkTok 13 "]" 11 0 false; mkTok 42 "float" 11 2 false; mkTok 40 "," 11 7 false; mkTok 14 "zchar[" 11 9 false; mkTok 30 "00" 11 16 false; mkTok 44 (string_of_bytes [47; 47; 9; 116]%N) 12 4 true; mkTok 13 "]" 13 4 false; mkTok 42 "matchKey" 14 4 false; mkTok 40 "," 15 0 false; mkTok 3 "}" 16 0 false; mkTok 1 "options" 16 2 false; mkTok 2 "{" 16 10 false; mkTok 42 "crc" 16 12 false; mkTok 4 "=" 16 16 false; mkTok 23 "u64" 16 17 false; mkTok 3 "}" 16 21 false; mkTok 37 "MetaData" 16 23 false; mkTok 42 "leftPad" 16 32 false; mkTok 2 "{" 16 40 false; mkTok 42 "trueish" 16 42 false; mkTok 42 "string_" 16 50 false; mkTok 40 "," 16 58 false; mkTok 23 "uint64" 16 61 false; mkTok 42 "Header" 16 68 false; mkTok 43 (string_of_bytes [96; 230; 182; 136; 230; 129; 175; 231; 177; 187; 229; 158; 139; 96]%N) 17 0 false; mkTok 40 "," 17 7 false; mkTok 3 "}" 17 9 false; mkTok 44 (string_of_bytes [47; 47; 32; 240; 159; 152; 128; 32; 101; 109; 111; 106; 105]%N) 18 4 true; mkTok 37 "MetaData" 19 4 false; mkTok 44 "//x" 19 12 true; mkTok 42 "tag" 20 0 false; mkTok 2 "{" 20 4 false; mkTok 42 "zchar" 20 6 false; mkTok 42 "chars" 21 0 false; mkTok 44 (string_of_bytes [47; 47; 32; 230; 179; 168; 233; 135; 138]%N) 22 0 true; mkTok 44 "//x" 23 0 true; mkTok 40 "," 24 0 false; mkTok 42 "repeatCount" 24 3 false; mkTok 42 "lengthOf" 24 16 false; mkTok 43 (string_of_bytes [96; 10; 96]%N) 24 24 false; mkTok 40 "," 25 2 false; mkTok 25 "i16" 25 4 false; mkTok 42 "u" 26 0 false; mkTok 44 "/// triple" 26 2 true; mkTok 43 (string_of_bytes [96; 116; 97; 98; 9; 104; 101; 114; 101; 96]%N) 27 0 false; mkTok 40 "," 27 11 false; mkTok 42 "lengthOf" 27 13 false; mkTok 42 "a1" 28 0 false; mkTok 40 "," 28 3 false; mkTok 21 "u16" 28 4 false; mkTok 42 "o" 28 8 false; mkTok 40 "," 29 4 false; mkTok 19 "char" 29 6 false; mkTok 42 "i64_" 30 0 false; mkTok 43 "`two words`" 30 6 false; mkTok 40 "," 30 18 false; mkTok 3 "}" 30 20 false; mkTok 44 "//x" 31 0 true; mkTok 0 "<EOF>" 32 0 false] (mkPacket (mkPtok 34 "root" 1 0 0) (Some (mkPtok 3 "}" 30 20 94)) [(DPacket (mkPacketDef (mkSpan (mkPtok 34 "root" 1 0 0) (mkPtok 3 "}" 10 2 32)) (Some (mkPtok 34 "root" 1 0 0)) (mkPtok 35 "packet" 2 0 2) (mkPtok 42 "int" 2 7 3) (mkPtok 2 "{" 2 10 4) [(mkFieldWithAttr (mkSpan (mkPtok 28 "f32" 3 0 5) (mkPtok 40 "," 3 9 7)) [] (MetaField (mkSpan (mkPtok 28 "f32" 3 0 5) (mkPtok 40 "," 3 9 7)) None (mkMetaDecl (mkSpan (mkPtok 28 "f32" 3 0 5) (mkPtok 40 "," 3 9 7)) (TyBasic (mkSpan (mkPtok 28 "f32" 3 0 5) (mkPtok 28 "f32" 3 0 5)) (mkBasicType (mkSpan (mkPtok 28 "f32" 3 0 5) (mkPtok 28 "f32" 3 0 5)) (mkPtok 28 "f32" 3 0 5))) (mkPtok 42 "i8i8" 3 4 6) None (mkPtok 40 "," 3 9 7)))); (mkFieldWithAttr (mkSpan (mkPtok 42 "uint8x" 3 11 8) (mkPtok 40 "," 6 0 13)) [] (ObjectField (mkSpan (mkPtok 42 "uint8x" 3 11 8) (mkPtok 40 "," 6 0 13)) None (mkPtok 42 "uint8x" 3 11 8) (Some (mkPtok 42 "zchar" 4 0 10)) (Some (mkPtok 43 "`// not a comment`" 5 4 11)) (mkPtok 40 "," 6 0 13))); (mkFieldWithAttr (mkSpan (mkPtok 23 "u64" 7 4 14) (mkPtok 40 "," 7 27 19)) [] (LengthField (mkSpan (mkPtok 23 "u64" 7 4 14) (mkPtok 40 "," 7 27 19)) (mkLengthFieldDecl (mkSpan (mkPtok 23 "u64" 7 4 14) (mkPtok 40 "," 7 27 19)) (Some (TyBasic (mkSpan (mkPtok 23 "u64" 7 4 14) (mkPtok 23 "u64" 7 4 14)) (mkBasicType (mkSpan (mkPtok 23 "u64" 7 4 14) (mkPtok 23 "u64" 7 4 14)) (mkPtok 23 "u64" 7 4 14)))) (mkPtok 42 "u8x" 7 8 15) (mkLengthOf (mkSpan (mkPtok 7 "@lengthOf(" 7 12 16) (mkPtok 6 ")" 7 25 18)) (mkPtok 7 "@lengthOf(" 7 12 16) (mkPtok 42 "u" 7 23 17) (mkPtok 6 ")" 7 25 18)) None (mkPtok 40 "," 7 27 19)))); (mkFieldWithAttr (mkSpan (mkPtok 16 "char[]" 7 28 20) (mkPtok 40 "," 8 5 25)) [] (LengthField (mkSpan (mkPtok 16 "char[]" 7 28 20) (mkPtok 40 "," 8 5 25)) (mkLengthFieldDecl (mkSpan (mkPtok 16 "char[]" 7 28 20) (mkPtok 40 "," 8 5 25)) (Some (TyDynamic (mkSpan (mkPtok 16 "char[]" 7 28 20) (mkPtok 16 "char[]" 7 28 20)) (mkDynamicString (mkSpan (mkPtok 16 "char[]" 7 28 20) (mkPtok 16 "char[]" 7 28 20)) (mkPtok 16 "char[]" 7 28 20)))) (mkPtok 42 "i64_" 7 35 21) (mkLengthOf (mkSpan (mkPtok 7 "@lengthOf(" 7 39 22) (mkPtok 6 ")" 8 4 24)) (mkPtok 7 "@lengthOf(" 7 39 22) (mkPtok 42 "crc" 7 50 23) (mkPtok 6 ")" 8 4 24)) None (mkPtok 40 "," 8 5 25)))); (mkFieldWithAttr (mkSpan (mkPtok 7 "@lengthOf(" 8 7 26) (mkPtok 40 "," 10 0 31)) [(FALengthOf (mkSpan (mkPtok 7 "@lengthOf(" 8 7 26) (mkPtok 6 ")" 9 4 28)) (mkLengthOf (mkSpan (mkPtok 7 "@lengthOf(" 8 7 26) (mkPtok 6 ")" 9 4 28)) (mkPtok 7 "@lengthOf(" 8 7 26) (mkPtok 42 "packetx" 8 18 27) (mkPtok 6 ")" 9 4 28)))] (ObjectField (mkSpan (mkPtok 42 "metadata" 9 5 29) (mkPtok 40 "," 10 0 31)) None (mkPtok 42 "metadata" 9 5 29) (Some (mkPtok 42 "i64_" 9 14 30)) None (mkPtok 40 "," 10 0 31)))] (mkPtok 3 "}" 10 2 32))); (DPacket (mkPacketDef (mkSpan (mkPtok 35 "packet" 10 4 33) (mkPtok 3 "}" 16 0 47)) None (mkPtok 35 "packet" 10 4 33) (mkPtok 42 "a1" 10 11 34) (mkPtok 2 "{" 10 14 35) [(mkFieldWithAttr (mkSpan (mkPtok 14 "zchar[" 10 16 36) (mkPtok 40 "," 11 7 40)) [] (MetaField (mkSpan (mkPtok 14 "zchar[" 10 16 36) (mkPtok 40 "," 11 7 40)) None (mkMetaDecl (mkSpan (mkPtok 14 "zchar[" 10 16 36) (mkPtok 40 "," 11 7 40)) (TyFixed (mkSpan (mkPtok 14 "zchar[" 10 16 36) (mkPtok 13 "]" 11 0 38)) (mkFixedString (mkSpan (mkPtok 14 "zchar[" 10 16 36) (mkPtok 13 "]" 11 0 38)) (mkPtok 14 "zchar[" 10 16 36) (mkPtok 30 "65535" 10 23 37) (mkPtok 13 "]" 11 0 38))) (mkPtok 42 "float" 11 2 39) None (mkPtok 40 "," 11 7 40)))); (mkFieldWithAttr (mkSpan (mkPtok 14 "zchar[" 11 9 41) (mkPtok 40 "," 15 0 46)) [] (MetaField (mkSpan (mkPtok 14 "zchar[" 11 9 41) (mkPtok 40 "," 15 0 46)) None (mkMetaDecl (mkSpan (mkPtok 14 "zchar[" 11 9 41) (mkPtok 40 "," 15 0 46)) (TyFixed (mkSpan (mkPtok 14 "zchar[" 11 9 41) (mkPtok 13 "]" 13 4 44)) (mkFixedString (mkSpan (mkPtok 14 "zchar[" 11 9 41) (mkPtok 13 "]" 13 4 44)) (mkPtok 14 "zchar[" 11 9 41) (mkPtok 30 "00" 11 16 42) (mkPtok 13 "]" 13 4 44))) (mkPtok 42 "matchKey" 14 4 45) None (mkPtok 40 "," 15 0 46))))] (mkPtok 3 "}" 16 0 47))); (DOption (mkOptionDef (mkSpan (mkPtok 1 "options" 16 2 48) (mkPtok 3 "}" 16 21 53)) (mkPtok 1 "options" 16 2 48) (mkPtok 2 "{" 16 10 49) [(mkOptionDecl (mkSpan (mkPtok 42 "crc" 16 12 50) (mkPtok 23 "u64" 16 17 52)) (mkPtok 42 "crc" 16 12 50) (mkPtok 4 "=" 16 16 51) (VType (mkSpan (mkPtok 23 "u64" 16 17 52) (mkPtok 23 "u64" 16 17 52)) (TyBasic (mkSpan (mkPtok 23 "u64" 16 17 52) (mkPtok 23 "u64" 16 17 52)) (mkBasicType (mkSpan (mkPtok 23 "u64" 16 17 52) (mkPtok 23 "u64" 16 17 52)) (mkPtok 23 "u64" 16 17 52)))) None)] (mkPtok 3 "}" 16 21 53))); (DMeta (mkMetaDef (mkSpan (mkPtok 37 "MetaData" 16 23 54) (mkPtok 3 "}" 17 9 64)) (mkPtok 37 "MetaData" 16 23 54) (mkPtok 42 "leftPad" 16 32 55) (mkPtok 2 "{" 16 40 56) [(MIRef (mkRefMetaDecl (mkSpan (mkPtok 42 "trueish" 16 42 57) (mkPtok 40 "," 16 58 59)) (mkPtok 42 "trueish" 16 42 57) (mkPtok 42 "string_" 16 50 58) None (mkPtok 40 "," 16 58 59))); (MIDecl (mkMetaDecl (mkSpan (mkPtok 23 "uint64" 16 61 60) (mkPtok 40 "," 17 7 63)) (TyBasic (mkSpan (mkPtok 23 "uint64" 16 61 60) (mkPtok 23 "uint64" 16 61 60)) (mkBasicType (mkSpan (mkPtok 23 "uint64" 16 61 60) (mkPtok 23 "uint64" 16 61 60)) (mkPtok 23 "uint64" 16 61 60))) (mkPtok 42 "Header" 16 68 61) (Some (mkPtok 43 (string_of_bytes [96; 230; 182; 136; 230; 129; 175; 231; 177; 187; 229; 158; 139; 96]%N) 17 0 62)) (mkPtok 40 "," 17 7 63)))] (mkPtok 3 "}" 17 9 64))); (DMeta (mkMetaDef (mkSpan (mkPtok 37 "MetaData" 19 4 66) (mkPtok 3 "}" 30 20 94)) (mkPtok 37 "MetaData" 19 4 66) (mkPtok 42 "tag" 20 0 68) (mkPtok 2 "{" 20 4 69) [(MIRef (mkRefMetaDecl (mkSpan (mkPtok 42 "zchar" 20 6 70) (mkPtok 40 "," 24 0 74)) (mkPtok 42 "zchar" 20 6 70) (mkPtok 42 "chars" 21 0 71) None (mkPtok 40 "," 24 0 74))); (MIRef (mkRefMetaDecl (mkSpan (mkPtok 42 "repeatCount" 24 3 75) (mkPtok 40 "," 25 2 78)) (mkPtok 42 "repeatCount" 24 3 75) (mkPtok 42 "lengthOf" 24 16 76) (Some (mkPtok 43 (string_of_bytes [96; 10; 96]%N) 24 24 77)) (mkPtok 40 "," 25 2 78))); (MIDecl (mkMetaDecl (mkSpan (mkPtok 25 "i16" 25 4 79) (mkPtok 40 "," 27 11 83)) (TyBasic (mkSpan (mkPtok 25 "i16" 25 4 79) (mkPtok 25 "i16" 25 4 79)) (mkBasicType (mkSpan (mkPtok 25 "i16" 25 4 79) (mkPtok 25 "i16" 25 4 79)) (mkPtok 25 "i16" 25 4 79))) (mkPtok 42 "u" 26 0 80) (Some (mkPtok 43 (string_of_bytes [96; 116; 97; 98; 9; 104; 101; 114; 101; 96]%N) 27 0 82)) (mkPtok 40 "," 27 11 83))); (MIRef (mkRefMetaDecl (mkSpan (mkPtok 42 "lengthOf" 27 13 84) (mkPtok 40 "," 28 3 86)) (mkPtok 42 "lengthOf" 27 13 84) (mkPtok 42 "a1" 28 0 85) None (mkPtok 40 "," 28 3 86))); (MIDecl (mkMetaDecl (mkSpan (mkPtok 21 "u16" 28 4 87) (mkPtok 40 "," 29 4 89)) (TyBasic (mkSpan (mkPtok 21 "u16" 28 4 87) (mkPtok 21 "u16" 28 4 87)) (mkBasicType (mkSpan (mkPtok 21 "u16" 28 4 87) (mkPtok 21 "u16" 28 4 87)) (mkPtok 21 "u16" 28 4 87))) (mkPtok 42 "o" 28 8 88) None (mkPtok 40 "," 29 4 89))); (MIDecl (mkMetaDecl (mkSpan (mkPtok 19 "char" 29 6 90) (mkPtok 40 "," 30 18 93)) (TyBasic (mkSpan (mkPtok 19 "char" 29 6 90) (mkPtok 19 "char" 29 6 90)) (mkBasicType (mkSpan (mkPtok 19 "char" 29 6 90) (mkPtok 19 "char" 29 6 90)) (mkPtok 19 "char" 29 6 90))) (mkPtok 42 "i64_" 30 0 91) (Some (mkPtok 43 "`two words`" 30 6 92)) (mkPtok 40 "," 30 18 93)))] (mkPtok 3 "}" 30 20 94)))])).
Eval vm_compute in ("<<<M44>>>" ++ check (runes_of_ascii "
packet A
{ repeat lengthOf {
len ,
    } , @tag(// trailing space 
42	) match Header
    as falsey
{ [
""" ++ [128512]%N ++ runes_of_ascii """//
, ""\n"", 4294967296 ]
    : Packet
1 :	falsey,
""\" ++ [233]%N ++ runes_of_ascii """ // " ++ [128512]%N ++ runes_of_ascii " emoji
:
    charz } , zchar[255
]
// packet A { u8 x, }
// trailing space 
rootA , repeat  char[ 10 ]// `tick` ""quote"" 'q'
f32a
// trailing space 
//x
,@calculatedFrom(  ""// no comment"") char[ 00 ]trueish@calculatedFrom(
    // " ++ [27880; 37322]%N ++ runes_of_ascii "
    ""a\""b"" )`line1
line2` ,}")).
Eval vm_compute in ("<<<M54>>>" ++ check (runes_of_ascii "  root packet _x// " ++ [128512]%N ++ runes_of_ascii " emoji
{@lengthOf(// c
Packet ) float32 stringy  @calculatedFrom(
""x y"" ) `say ""hi""`, match Pad as
x_y_z{ ""a\\"" : float , 65535 : stringy 007: /// triple
uint8x ,
    } , }
")).
Eval vm_compute in ("<<<M64>>>" ++ check (runes_of_ascii "MetaData Packet { // `tick` ""quote"" 'q'
Header
// " ++ [27880; 37322]%N ++ runes_of_ascii "
// c
uint8x
`{ , }`, x_y_z u8x `it's`
// packet A { u8 x, }
// packet A { u8 x, }
,
} // trailing space 
root packet packetx { repeat char[]  packetx , string zchar@lengthOf( a1
)	`tab	here`
    // @lengthOf(
    ,
match
    string_ as float { ""a\""b""  : Logon , 00
    :
    Foo 42 : stringy	[ 255
    , 0, ""a\\""] :f32a // @lengthOf(
[7 ,	""`tick`""
] : float , 0 : // c
len //	t
,} , @lengthOf( Header	)
    //
    len`doc`
, repeat
Pad { // " ++ [27880; 37322]%N ++ runes_of_ascii "
repeat	Pad `it's`,// @lengthOf(
char[ 65535
    ]i64_
    @calculatedFrom( //
""1"" )
    `a\` , crc
    // `tick` ""quote"" 'q'
    `two words` , match len
// a // b
/// triple
as
BodyLength { ""abc""
    // " ++ [27880; 37322]%N ++ runes_of_ascii "
    :a1, [ ""packet""
    /// triple
    ,
    7
    ]
    : crc
,
    // c
    3 :
    asx , }	,	} ,
int8 rootA @lengthOf(crc ),@lengthOf( chars)
    // trailing space 
    @tag( 7 ) @tag(7 ) repeat char[ 10 ] packetx	, }

")).
Eval vm_compute in ("<<<M74>>>" ++ check (runes_of_ascii "MetaData len //	t
{ f64 calculatedFrom , x_y_z	x
,} packet repeatCount { @lengthOf(pack ) match
x_y_z as o // " ++ [27880; 37322]%N ++ runes_of_ascii "
{ 7:
Header
// `tick` ""quote"" 'q'
// a // b
} , } options { lengthOf  = true; }
packet  leftPad
    {
    MetaDataX @lengthOf( T ) `two words` ,
    }")).
Eval vm_compute in ("<<<M84>>>" ++ check (runes_of_ascii "packet
zchar {@rightPad (// a // b
) uint8 a1 `line1
line2` , @calculatedFrom( ""x y"" ) match pack as	matchKey
{
    /// triple
    """ ++ [28040; 24687]%N ++ runes_of_ascii """  : //x
u128 ,
    3 : i64_
    ""a\""b""
    : As , } ,
// " ++ [27880; 37322]%N ++ runes_of_ascii "
// @lengthOf(
u8 Packet	@calculatedFrom( ""// no comment"" ) //x
,
    }
//
")).
Eval vm_compute in ("<<<M94>>>" ++ check (runes_of_ascii "packet charz {repeat char[ 3 ]
BodyLength,As stringy, match
    tag as uint8x { //
[ ""it's"" , 007
    , 4294967296
    // c
    ] : uint8x ,
}, // a // b
@tag( 0
)/// triple
repeat char[	7	] u	,}
    // packet A { u8 x, }
    MetaData options1
    { Z9_  _x ,	} packet BodyLength
{} MetaData chars { float Foo,
}")).
Eval vm_compute in ("<<<M104>>>" ++ check (runes_of_ascii "
options{ calculatedFrom = false ; } packet i64_
{
    body,
//	t
//x
}/// triple
options { float
=	true ;// @lengthOf(
charz =// a // b
char[65535 ]; u=/// triple
true ;metadata = ""\" ++ [233]%N ++ runes_of_ascii """  matchKey = '\x00'
    } // " ++ [27880; 37322]%N)).
Eval vm_compute in ("<<<T104>>>" ++ terms [mkTok 1 "options" 2 0 false; mkTok 2 "{" 2 7 false; mkTok 42 "calculatedFrom" 2 9 false; mkTok 4 "=" 2 24 false; mkTok 11 "false" 2 26 false; mkTok 41 ";" 2 32 false; mkTok 3 "}" 2 34 false; mkTok 35 "packet" 2 36 false; mkTok 42 "i64_" 2 43 false; mkTok 2 "{" 3 0 false; mkTok 42 "body" 4 4 false; mkTok 40 "," 4 8 false; mkTok 44 (string_of_bytes [47; 47; 9; 116]%N) 5 0 true; mkTok 44 "//x" 6 0 true; mkTok 3 "}" 7 0 false; mkTok 44 "/// triple" 7 1 true; mkTok 1 "options" 8 0 false; mkTok 2 "{" 8 8 false; mkTok 42 "float" 8 10 false; mkTok 4 "=" 9 0 false; mkTok 10 "true" 9 2 false; mkTok 41 ";" 9 7 false; mkTok 44 "// @lengthOf(" 9 8 true; mkTok 42 "charz" 10 0 false; mkTok 4 "=" 10 6 false; mkTok 44 "// a // b" 10 7 true; mkTok 12 "char[" 11 0 false; mkTok 30 "65535" 11 5 false; mkTok 13 "]" 11 11 false; mkTok 41 ";" 11 12 false; mkTok 42 "u" 11 14 false; mkTok 4 "=" 11 15 false; mkTok 44 "/// triple" 11 16 true; mkTok 10 "true" 12 0 false; mkTok 41 ";" 12 5 false; mkTok 42 "metadata" 12 6 false; mkTok 4 "=" 12 15 false; mkTok 31 (string_of_bytes [34; 92; 195; 169; 34]%N) 12 17 false; mkTok 42 "matchKey" 12 23 false; mkTok 4 "=" 12 32 false; mkTok 33 "'\x00'" 12 34 false; mkTok 3 "}" 13 4 false; mkTok 44 (string_of_bytes [47; 47; 32; 230; 179; 168; 233; 135; 138]%N) 13 6 true; mkTok 0 "<EOF>" 13 11 false] (mkPacket (mkPtok 1 "options" 2 0 0) (Some (mkPtok 3 "}" 13 4 41)) [(DOption (mkOptionDef (mkSpan (mkPtok 1 "options" 2 0 0) (mkPtok 3 "}" 2 34 6)) (mkPtok 1 "options" 2 0 0) (mkPtok 2 "{" 2 7 1) [(mkOptionDecl (mkSpan (mkPtok 42 "calculatedFrom" 2 9 2) (mkPtok 41 ";" 2 32 5)) (mkPtok 42 "calculatedFrom" 2 9 2) (mkPtok 4 "=" 2 24 3) (VFalse (mkSpan (mkPtok 11 "false" 2 26 4) (mkPtok 11 "false" 2 26 4)) (mkPtok 11 "false" 2 26 4)) (Some (mkPtok 41 ";" 2 32 5)))] (mkPtok 3 "}" 2 34 6))); (DPacket (mkPacketDef (mkSpan (mkPtok 35 "packet" 2 36 7) (mkPtok 3 "}" 7 0 14)) None (mkPtok 35 "packet" 2 36 7) (mkPtok 42 "i64_" 2 43 8) (mkPtok 2 "{" 3 0 9) [(mkFieldWithAttr (mkSpan (mkPtok 42 "body" 4 4 10) (mkPtok 40 "," 4 8 11)) [] (ObjectField (mkSpan (mkPtok 42 "body" 4 4 10) (mkPtok 40 "," 4 8 11)) None (mkPtok 42 "body" 4 4 10) None None (mkPtok 40 "," 4 8 11)))] (mkPtok 3 "}" 7 0 14))); (DOption (mkOptionDef (mkSpan (mkPtok 1 "options" 8 0 16) (mkPtok 3 "}" 13 4 41)) (mkPtok 1 "options" 8 0 16) (mkPtok 2 "{" 8 8 17) [(mkOptionDecl (mkSpan (mkPtok 42 "float" 8 10 18) (mkPtok 41 ";" 9 7 21)) (mkPtok 42 "float" 8 10 18) (mkPtok 4 "=" 9 0 19) (VTrue (mkSpan (mkPtok 10 "true" 9 2 20) (mkPtok 10 "true" 9 2 20)) (mkPtok 10 "true" 9 2 20)) (Some (mkPtok 41 ";" 9 7 21))); (mkOptionDecl (mkSpan (mkPtok 42 "charz" 10 0 23) (mkPtok 41 ";" 11 12 29)) (mkPtok 42 "charz" 10 0 23) (mkPtok 4 "=" 10 6 24) (VType (mkSpan (mkPtok 12 "char[" 11 0 26) (mkPtok 13 "]" 11 11 28)) (TyFixed (mkSpan (mkPtok 12 "char[" 11 0 26) (mkPtok 13 "]" 11 11 28)) (mkFixedString (mkSpan (mkPtok 12 "char[" 11 0 26) (mkPtok 13 "]" 11 11 28)) (mkPtok 12 "char[" 11 0 26) (mkPtok 30 "65535" 11 5 27) (mkPtok 13 "]" 11 11 28)))) (Some (mkPtok 41 ";" 11 12 29))); (mkOptionDecl (mkSpan (mkPtok 42 "u" 11 14 30) (mkPtok 41 ";" 12 5 34)) (mkPtok 42 "u" 11 14 30) (mkPtok 4 "=" 11 15 31) (VTrue (mkSpan (mkPtok 10 "true" 12 0 33) (mkPtok 10 "true" 12 0 33)) (mkPtok 10 "true" 12 0 33)) (Some (mkPtok 41 ";" 12 5 34))); (mkOptionDecl (mkSpan (mkPtok 42 "metadata" 12 6 35) (mkPtok 31 (string_of_bytes [34; 92; 195; 169; 34]%N) 12 17 37)) (mkPtok 42 "metadata" 12 6 35) (mkPtok 4 "=" 12 15 36) (VString (mkSpan (mkPtok 31 (string_of_bytes [34; 92; 195; 169; 34]%N) 12 17 37) (mkPtok 31 (string_of_bytes [34; 92; 195; 169; 34]%N) 12 17 37)) (mkPtok 31 (string_of_bytes [34; 92; 195; 169; 34]%N) 12 17 37)) None); (mkOptionDecl (mkSpan (mkPtok 42 "matchKey" 12 23 38) (mkPtok 33 "'\x00'" 12 34 40)) (mkPtok 42 "matchKey" 12 23 38) (mkPtok 4 "=" 12 32 39) (VPaddingChar (mkSpan (mkPtok 33 "'\x00'" 12 34 40) (mkPtok 33 "'\x00'" 12 34 40)) (mkPtok 33 "'\x00'" 12 34 40)) None)] (mkPtok 3 "}" 13 4 41)))])).
Eval vm_compute in ("<<<M114>>>" ++ check (runes_of_ascii "packet i64_
{	@tag( // a // b
0123456789) x_y_z@calculatedFrom( ""it's"" ) , @rightPad ( ' ' ) @tag( 007
    ) leftPad {
    zchar[00 ]Pad , }
,int32 _x@lengthOf( BodyLength
/// triple
//
) ,
}
")).
Eval vm_compute in ("<<<M124>>>" ++ check (runes_of_ascii "packet
Pad {
@lengthOf(stringy)MetaDataX  @calculatedFrom(""" ++ [28040; 24687]%N ++ runes_of_ascii """ ) `{ , }` ,
//x
/// triple
char[ 0123456789 ]leftPad @lengthOf( float
), asx leftPad `u8 x,` ,
    @calculatedFrom(""\" ++ [233]%N ++ runes_of_ascii """ )
    repeat  rootA
    matchKey `" ++ [28040; 24687; 31867; 22411]%N ++ runes_of_ascii "`, @lengthOf( stringy
    ) /// triple
uint8x msg_type `u8 x,`, // c
char[ 3
]
stringy `tab	here`  ,
}
MetaData metadata{ string_ zchar , float32 u128	,
char[]
    //	t
    u128//x
,} options
    // trailing space 
    { zchar =""" ++ [28040; 24687]%N ++ runes_of_ascii """ ;
msg_type = 007 ;	repeatCount = '\x00' ;	} packet
_x { }  options
{
    asx
=
true;
lengthOf =
'0'  i8i8= '0'  crc =
""abc""
    /// triple
    ; Packet
// " ++ [128512]%N ++ runes_of_ascii " emoji
// trailing space 
= ' ' } // a // b")).
Eval vm_compute in ("<<<M134>>>" ++ check (runes_of_ascii "
")).
Eval vm_compute in ("<<<M144>>>" ++ check (runes_of_ascii "options
{ MetaDataX=""\n""
    /// triple
    stringy = 4294967296 ; Packet=
    false	; As = ""a\\"" /// triple
; stringy = ' ';} options {
}
    MetaData roots {
stringy MetaDataX
    , }")).
Eval vm_compute in ("<<<M154>>>" ++ check (runes_of_ascii "packet
    zchar { @lengthOf(Header )f32 string_ `a\`
    , } // packet A { u8 x, }")).
Eval vm_compute in ("<<<M164>>>" ++ check (runes_of_ascii "root
packet o { @leftPad (
    '0'  )repeat uint16 o // `tick` ""quote"" 'q'
,// `tick` ""quote"" 'q'
@tag( 1
    // `tick` ""quote"" 'q'
    )
//x
// " ++ [128512]%N ++ runes_of_ascii " emoji
@tag( 65535 ) u32 options1 ,@lengthOf( i8i8) @lengthOf(int ) @leftPad// " ++ [27880; 37322]%N ++ runes_of_ascii "
() char[  42 ] len @calculatedFrom( ""packet"" ) ,
    u32 Foo @calculatedFrom( ""a\\"") ,
    } packet a1 {@lengthOf(
    A /// triple
)	Foo MetaDataX `it's`, Z9_ metadata
    //
    `" ++ [28040; 24687; 31867; 22411]%N ++ runes_of_ascii "` ,
match MetaDataX
    as falsey { [ 42
    ]
    :body // " ++ [128512]%N ++ runes_of_ascii " emoji
[""packet""	, 4294967296]
    :  A} , Z9_ ,}")).
Eval vm_compute in ("<<<M174>>>" ++ check (runes_of_ascii "options { roots
=//x
int64 }
// @lengthOf(
// @lengthOf(
packet
    int {
char  zchar, repeat len {
    f32a `" ++ [28040; 24687; 31867; 22411]%N ++ runes_of_ascii "`, } ,zchar[
007 ]As
    `it's`
,  zchar[007
    // a // b
    ] uint8x @lengthOf(
    //x
    Foo)
    ,
// packet A { u8 x, }
// packet A { u8 x, }
}
")).
Eval vm_compute in ("<<<T174>>>" ++ terms [mkTok 1 "options" 1 0 false; mkTok 2 "{" 1 8 false; mkTok 42 "roots" 1 10 false; mkTok 4 "=" 2 0 false; mkTok 44 "//x" 2 1 true; mkTok 27 "int64" 3 0 false; mkTok 3 "}" 3 6 false; mkTok 44 "// @lengthOf(" 4 0 true; mkTok 44 "// @lengthOf(" 5 0 true; mkTok 35 "packet" 6 0 false; mkTok 42 "int" 7 4 false; mkTok 2 "{" 7 8 false; mkTok 19 "char" 8 0 false; mkTok 42 "zchar" 8 6 false; mkTok 40 "," 8 11 false; mkTok 36 "repeat" 8 13 false; mkTok 42 "len" 8 20 false; mkTok 2 "{" 8 24 false; mkTok 42 "f32a" 9 4 false; mkTok 43 (string_of_bytes [96; 230; 182; 136; 230; 129; 175; 231; 177; 187; 229; 158; 139; 96]%N) 9 9 false; mkTok 40 "," 9 15 false; mkTok 3 "}" 9 17 false; mkTok 40 "," 9 19 false; mkTok 14 "zchar[" 9 20 false; mkTok 30 "007" 10 0 false; mkTok 13 "]" 10 4 false; mkTok 42 "As" 10 5 false; mkTok 43 "`it's`" 11 4 false; mkTok 40 "," 12 0 false; mkTok 14 "zchar[" 12 3 false; mkTok 30 "007" 12 9 false; mkTok 44 "// a // b" 13 4 true; mkTok 13 "]" 14 4 false; mkTok 42 "uint8x" 14 6 false; mkTok 7 "@lengthOf(" 14 13 false; mkTok 44 "//x" 15 4 true; mkTok 42 "Foo" 16 4 false; mkTok 6 ")" 16 7 false; mkTok 40 "," 17 4 false; mkTok 44 "// packet A { u8 x, }" 18 0 true; mkTok 44 "// packet A { u8 x, }" 19 0 true; mkTok 3 "}" 20 0 false; mkTok 0 "<EOF>" 21 0 false] (mkPacket (mkPtok 1 "options" 1 0 0) (Some (mkPtok 3 "}" 20 0 41)) [(DOption (mkOptionDef (mkSpan (mkPtok 1 "options" 1 0 0) (mkPtok 3 "}" 3 6 6)) (mkPtok 1 "options" 1 0 0) (mkPtok 2 "{" 1 8 1) [(mkOptionDecl (mkSpan (mkPtok 42 "roots" 1 10 2) (mkPtok 27 "int64" 3 0 5)) (mkPtok 42 "roots" 1 10 2) (mkPtok 4 "=" 2 0 3) (VType (mkSpan (mkPtok 27 "int64" 3 0 5) (mkPtok 27 "int64" 3 0 5)) (TyBasic (mkSpan (mkPtok 27 "int64" 3 0 5) (mkPtok 27 "int64" 3 0 5)) (mkBasicType (mkSpan (mkPtok 27 "int64" 3 0 5) (mkPtok 27 "int64" 3 0 5)) (mkPtok 27 "int64" 3 0 5)))) None)] (mkPtok 3 "}" 3 6 6))); (DPacket (mkPacketDef (mkSpan (mkPtok 35 "packet" 6 0 9) (mkPtok 3 "}" 20 0 41)) None (mkPtok 35 "packet" 6 0 9) (mkPtok 42 "int" 7 4 10) (mkPtok 2 "{" 7 8 11) [(mkFieldWithAttr (mkSpan (mkPtok 19 "char" 8 0 12) (mkPtok 40 "," 8 11 14)) [] (MetaField (mkSpan (mkPtok 19 "char" 8 0 12) (mkPtok 40 "," 8 11 14)) None (mkMetaDecl (mkSpan (mkPtok 19 "char" 8 0 12) (mkPtok 40 "," 8 11 14)) (TyBasic (mkSpan (mkPtok 19 "char" 8 0 12) (mkPtok 19 "char" 8 0 12)) (mkBasicType (mkSpan (mkPtok 19 "char" 8 0 12) (mkPtok 19 "char" 8 0 12)) (mkPtok 19 "char" 8 0 12))) (mkPtok 42 "zchar" 8 6 13) None (mkPtok 40 "," 8 11 14)))); (mkFieldWithAttr (mkSpan (mkPtok 36 "repeat" 8 13 15) (mkPtok 40 "," 9 19 22)) [] (InerObjectField (mkSpan (mkPtok 36 "repeat" 8 13 15) (mkPtok 40 "," 9 19 22)) (Some (mkPtok 36 "repeat" 8 13 15)) (InerObjectDecl (mkSpan (mkPtok 42 "len" 8 20 16) (mkPtok 3 "}" 9 17 21)) (mkPtok 42 "len" 8 20 16) (mkPtok 2 "{" 8 24 17) [(ObjectField (mkSpan (mkPtok 42 "f32a" 9 4 18) (mkPtok 40 "," 9 15 20)) None (mkPtok 42 "f32a" 9 4 18) None (Some (mkPtok 43 (string_of_bytes [96; 230; 182; 136; 230; 129; 175; 231; 177; 187; 229; 158; 139; 96]%N) 9 9 19)) (mkPtok 40 "," 9 15 20))] (mkPtok 3 "}" 9 17 21)) (mkPtok 40 "," 9 19 22))); (mkFieldWithAttr (mkSpan (mkPtok 14 "zchar[" 9 20 23) (mkPtok 40 "," 12 0 28)) [] (MetaField (mkSpan (mkPtok 14 "zchar[" 9 20 23) (mkPtok 40 "," 12 0 28)) None (mkMetaDecl (mkSpan (mkPtok 14 "zchar[" 9 20 23) (mkPtok 40 "," 12 0 28)) (TyFixed (mkSpan (mkPtok 14 "zchar[" 9 20 23) (mkPtok 13 "]" 10 4 25)) (mkFixedString (mkSpan (mkPtok 14 "zchar[" 9 20 23) (mkPtok 13 "]" 10 4 25)) (mkPtok 14 "zchar[" 9 20 23) (mkPtok 30 "007" 10 0 24) (mkPtok 13 "]" 10 4 25))) (mkPtok 42 "As" 10 5 26) (Some (mkPtok 43 "`it's`" 11 4 27)) (mkPtok 40 "," 12 0 28)))); (mkFieldWithAttr (mkSpan (mkPtok 14 "zchar[" 12 3 29) (mkPtok 40 "," 17 4 38)) [] (LengthField (mkSpan (mkPtok 14 "zchar[" 12 3 29) (mkPtok 40 "," 17 4 38)) (mkLengthFieldDecl (mkSpan (mkPtok 14 "zchar[" 12 3 29) (mkPtok 40 "," 17 4 38)) (Some (TyFixed (mkSpan (mkPtok 14 "zchar[" 12 3 29) (mkPtok 13 "]" 14 4 32)) (mkFixedString (mkSpan (mkPtok 14 "zchar[" 12 3 29) (mkPtok 13 "]" 14 4 32)) (mkPtok 14 "zchar[" 12 3 29) (mkPtok 30 "007" 12 9 30) (mkPtok 13 "]" 14 4 32)))) (mkPtok 42 "uint8x" 14 6 33) (mkLengthOf (mkSpan (mkPtok 7 "@lengthOf(" 14 13 34) (mkPtok 6 ")" 16 7 37)) (mkPtok 7 "@lengthOf(" 14 13 34) (mkPtok 42 "Foo" 16 4 36) (mkPtok 6 ")" 16 7 37)) None (mkPtok 40 "," 17 4 38))))] (mkPtok 3 "}" 20 0 41)))])).
Eval vm_compute in ("<<<M184>>>" ++ check (runes_of_ascii "root packet
repeatCount{ } // trailing space ")).
Eval vm_compute in ("<<<M194>>>" ++ check (runes_of_ascii "root packet u128 { char[  7 ]tag@calculatedFrom(
""\" ++ [233]%N ++ runes_of_ascii """
    ) // " ++ [128512]%N ++ runes_of_ascii " emoji
`" ++ [233]%N ++ runes_of_ascii "`, @rightPad ( )
    packetx , @lengthOf(  o
    )	lengthOf
@lengthOf( float )
`// not a comment`,
}
")).
Eval vm_compute in ("<<<M204>>>" ++ check (runes_of_ascii "packet	zchar { char[]  i64_,
    // " ++ [128512]%N ++ runes_of_ascii " emoji
    @calculatedFrom(	""// no comment"" ) match charz
    as tag
{ [""it's""
, 4294967296
    ,/// triple
""a	b""
    , """ ++ [28040; 24687]%N ++ runes_of_ascii """
,""" ++ [128512]%N ++ runes_of_ascii """
    ,  255 ,007 ] // packet A { u8 x, }
: i64_
, [	0123456789 ,3
, 00 ]: // `tick` ""quote"" 'q'
Packet , [ """ ++ [233]%N ++ runes_of_ascii "t" ++ [233]%N ++ runes_of_ascii """ ]
:a1 ,	}
,
    }
")).
Eval vm_compute in ("<<<M214>>>" ++ check (runes_of_ascii "options{ }root // a // b
packet
    uint8x {  @tag( 3 ) @lengthOf(  falsey ) lengthOf @calculatedFrom(
""`tick`"" ), A { i8 msg_type
`crlf
line` ,
Foo @lengthOf( u8x
) ,float ,
    //
    }
, string // a // b
lengthOf
@calculatedFrom(	""abc"" )
, @lengthOf(charz )
    repeat string_	{// " ++ [128512]%N ++ runes_of_ascii " emoji
zchar[
    0
    // a // b
    ] T @calculatedFrom( ""a\\"" ) //	t
, zchar[
    42 ] repeatCount @lengthOf(
Z9_ )`u8 x,`,}
,  zchar[1
    ]
crc @calculatedFrom( // " ++ [27880; 37322]%N ++ runes_of_ascii "
""// no comment"" )
    `it's`
    // `tick` ""quote"" 'q'
    , @calculatedFrom(""{,}"")
    tag
int//
, //x
}
MetaData f32a { // trailing space 
i64 int // c
,string int
    , // c
asx
    //x
    Pad
    //x
    `crlf
line` , string lengthOf,
    uint32
pack ,// " ++ [27880; 37322]%N ++ runes_of_ascii "
msg_type
    u `it's` ,
}")).
Eval vm_compute in ("<<<M224>>>" ++ check (runes_of_ascii "
packet uint8x	{	}")).
Eval vm_compute in ("<<<M234>>>" ++ check (runes_of_ascii "
MetaData options1 { zchar[
    007 ] // `tick` ""quote"" 'q'
zchar	`a\` , uint32 As ,
    i8i8
Foo ,
// packet A { u8 x, }
//x
}
    packet falsey { }")).
Eval vm_compute in ("<<<M244>>>" ++ check (runes_of_ascii "// " ++ [128512]%N ++ runes_of_ascii " emoji
options {repeatCount = u32 ;tag = ' ' ; } // a // b")).
Eval vm_compute in ("<<<T244>>>" ++ terms [mkTok 44 (string_of_bytes [47; 47; 32; 240; 159; 152; 128; 32; 101; 109; 111; 106; 105]%N) 1 0 true; mkTok 1 "options" 2 0 false; mkTok 2 "{" 2 8 false; mkTok 42 "repeatCount" 2 9 false; mkTok 4 "=" 2 21 false; mkTok 22 "u32" 2 23 false; mkTok 41 ";" 2 27 false; mkTok 42 "tag" 2 28 false; mkTok 4 "=" 2 32 false; mkTok 33 "' '" 2 34 false; mkTok 41 ";" 2 38 false; mkTok 3 "}" 2 40 false; mkTok 44 "// a // b" 2 42 true; mkTok 0 "<EOF>" 2 51 false] (mkPacket (mkPtok 1 "options" 2 0 1) (Some (mkPtok 3 "}" 2 40 11)) [(DOption (mkOptionDef (mkSpan (mkPtok 1 "options" 2 0 1) (mkPtok 3 "}" 2 40 11)) (mkPtok 1 "options" 2 0 1) (mkPtok 2 "{" 2 8 2) [(mkOptionDecl (mkSpan (mkPtok 42 "repeatCount" 2 9 3) (mkPtok 41 ";" 2 27 6)) (mkPtok 42 "repeatCount" 2 9 3) (mkPtok 4 "=" 2 21 4) (VType (mkSpan (mkPtok 22 "u32" 2 23 5) (mkPtok 22 "u32" 2 23 5)) (TyBasic (mkSpan (mkPtok 22 "u32" 2 23 5) (mkPtok 22 "u32" 2 23 5)) (mkBasicType (mkSpan (mkPtok 22 "u32" 2 23 5) (mkPtok 22 "u32" 2 23 5)) (mkPtok 22 "u32" 2 23 5)))) (Some (mkPtok 41 ";" 2 27 6))); (mkOptionDecl (mkSpan (mkPtok 42 "tag" 2 28 7) (mkPtok 41 ";" 2 38 10)) (mkPtok 42 "tag" 2 28 7) (mkPtok 4 "=" 2 32 8) (VPaddingChar (mkSpan (mkPtok 33 "' '" 2 34 9) (mkPtok 33 "' '" 2 34 9)) (mkPtok 33 "' '" 2 34 9)) (Some (mkPtok 41 ";" 2 38 10)))] (mkPtok 3 "}" 2 40 11)))])).
Eval vm_compute in ("<<<M254>>>" ++ check (runes_of_ascii "
")).
Eval vm_compute in ("<<<M264>>>" ++ check (runes_of_ascii "packet rootA {	}
// `tick` ""quote"" 'q'
/// triple
options  {stringy
    =
0123456789
;
T =42 ;
string_ = ""a\""b""
    ; }
//
")).
Eval vm_compute in ("<<<M274>>>" ++ check (runes_of_ascii "root
packet i8i8 { @lengthOf(
Packet)
    u32 u8x, }")).
Eval vm_compute in ("<<<M284>>>" ++ check (runes_of_ascii "// " ++ [27880; 37322]%N ++ runes_of_ascii "
options
    {
zchar // a // b
= ""x y""
; options1 = u16
;} packet
Pad{ Z9_@calculatedFrom(
"""")`
` , @tag( 42
    ) //
@tag( 00 ) @lengthOf( zchar	) match _x// packet A { u8 x, }
as metadata	{
007: As ""`tick`""// packet A { u8 x, }
: lengthOf,255 :lengthOf ""a	b""
// trailing space 
// " ++ [27880; 37322]%N ++ runes_of_ascii "
:
Packet 255: a1
    , // c
[ 00 ,
    0 , 10 ,	""a\\"" , ""it's"" ,
10, 7	]
: Foo , }
    , match Header
as  o{
[// packet A { u8 x, }
255 ]
    : zchar ,0123456789 :leftPad
    [	007	, 3 ] : leftPad , // c
0: packetx
, } , } MetaData
    Pad { // packet A { u8 x, }
} packet T
    // packet A { u8 x, }
    {
    // " ++ [27880; 37322]%N ++ runes_of_ascii "
    charz
    @lengthOf(asx) `` , }
packet
matchKey
{  @tag( 3
) @calculatedFrom( ""a	b""
/// triple
// c
)
@calculatedFrom("""" ) pack	rootA
    ,  repeat //	t
leftPad `` , repeat uint32 Foo `u8 x,` , @calculatedFrom(
""" ++ [233]%N ++ runes_of_ascii "t" ++ [233]%N ++ runes_of_ascii """) repeat char[ 65535 ] u , @lengthOf( _x )@lengthOf( u8x ) repeat zchar[ 0123456789 ] x
, match i64_ // " ++ [27880; 37322]%N ++ runes_of_ascii "
as falsey{ // trailing space 
255 :
f32a , ""{,}"" : x ,""\" ++ [233]%N ++ runes_of_ascii """	: matchKey
,
[	"""",
    // trailing space 
    ""{,}"" ,
    10 , """ ++ [128512]%N ++ runes_of_ascii """
// a // b
// packet A { u8 x, }
, ""a	b"", 0
,
""1"",65535
]: len , ""\" ++ [233]%N ++ runes_of_ascii """ :
    T
, [ ""CRC32"" ,
    // " ++ [128512]%N ++ runes_of_ascii " emoji
    1 , ""// no comment""
, 007,1 ,	""`tick`"", """ ++ [128512]%N ++ runes_of_ascii """
]// packet A { u8 x, }
: a1  },match
x as
As
{
    ""a	b"":	o , 007
:MetaDataX  ,  [
""a	b""
]:
falsey , ""// no comment""
    : Z9_""packet"":
    _x
    // " ++ [128512]%N ++ runes_of_ascii " emoji
    , },repeat rootA {	uint8 MetaDataX
    @calculatedFrom(
    ""abc""
    ) ,
    match // `tick` ""quote"" 'q'
int as// a // b
asx {	[10	,
10 , ""`tick`""  , 00 , 4294967296 ]
    :
    o ,
    ""CRC32"" :
string_ , [ 0
]
:	roots 65535 :
// " ++ [27880; 37322]%N ++ runes_of_ascii "
// trailing space 
_x //
, ""it's"" : Pad, 4294967296 : Pad , }
,	u16	chars
`line1
line2`
, //x
}
    ,
}")).
Eval vm_compute in ("<<<M294>>>" ++ check (runes_of_ascii "
options
{charz =""x y"" calculatedFrom =	'0'	} packet msg_type {msg_type asx, string// packet A { u8 x, }
packetx ,MetaDataX,
Header { i64 packetx`tab	here`
,  }, } options { // @lengthOf(
uint8x = 0 x_y_z =	""x y""
// packet A { u8 x, }
//	t
; }")).
Eval vm_compute in ("<<<M304>>>" ++ check (runes_of_ascii "options {
    StringPrefixLenType = u16;
    ArrayPrefixLenType = u16;
}

packet SampleBinary {
    uint16 MsgType `" ++ [28040; 24687; 31867; 22411]%N ++ runes_of_ascii "`,
    u16 BodyLenght @lengthOf(Body) `" ++ [28040; 24687; 20307; 38271; 24230]%N ++ runes_of_ascii "`,
    match MsgType as Body {
        1 : Logon,
        2 : Logout,
        3 : Heartbeat,
        4 : RiskControlRequest,
        5 : RiskControlResponse,
    },
    @calculatedFrom(""CRC32"")
    u32 Ckecksum `" ++ [26657; 39564; 21644]%N ++ runes_of_ascii "`,
}

packet Logon {
    @leftPad('0')
    char[10] UserName `" ++ [29992; 25143; 21517]%N ++ runes_of_ascii "`,
    string Password `" ++ [23494; 30721]%N ++ runes_of_ascii "`,
    uint64 ClientId `" ++ [23458; 25143; 31471]%N ++ runes_of_ascii "ID`,
    u16 HeartbeatInterval `" ++ [24515; 36339; 38388; 38548]%N ++ runes_of_ascii "`,
}

packet Logout {
    @rightPad('0')
    char[10] UserName `" ++ [29992; 25143; 21517]%N ++ runes_of_ascii "`,
    uint64 ClientId `" ++ [23458; 25143; 31471]%N ++ runes_of_ascii "ID`,
}

packet Heartbeat {
}

packet RiskControlRequest {
    string UniqueOrderId `" ++ [21807; 19968; 35746; 21333; 21495]%N ++ runes_of_ascii "`,
    char[16] ClOrdID `" ++ [23458; 25143; 35746; 21333; 21495]%N ++ runes_of_ascii "`,
    char[3] MarketID `" ++ [24066; 22330]%N ++ runes_of_ascii "id`,
    char[12] SecurityID `" ++ [35777; 21048; 20195; 30721]%N ++ runes_of_ascii "`,
    char Side `" ++ [20080; 21334; 26041; 21521]%N ++ runes_of_ascii "`,
    char OrderType `" ++ [35746; 21333; 31867; 22411]%N ++ runes_of_ascii "`,
    u64 Price `" ++ [20215; 26684]%N ++ runes_of_ascii "`,
    u32 Qty `" ++ [25968; 37327]%N ++ runes_of_ascii "`,
    repeat string ExtraInfo `" ++ [38468; 21152; 20449; 24687]%N ++ runes_of_ascii "`,
    repeat SubOrder {
        char[16] ClOrdID `" ++ [23376; 35746; 21333; 21495]%N ++ runes_of_ascii "`,
        u64 Price `" ++ [23376; 35746; 21333; 20215; 26684]%N ++ runes_of_ascii "`,
        u32 Qty `" ++ [23376; 35746; 21333; 25968; 37327]%N ++ runes_of_ascii "`,
    },
}

packet RiskControlResponse {
    string UniqueOrderId `" ++ [21807; 19968; 35746; 21333; 21495]%N ++ runes_of_ascii "`,
    i32 Status `" ++ [29366; 24577]%N ++ runes_of_ascii "`,
    string Msg `" ++ [32467; 26524; 20449; 24687]%N ++ runes_of_ascii "`,
    repeat Detail,
}

packet Detail {
    string RuleName `" ++ [35268; 21017; 21517; 31216]%N ++ runes_of_ascii "`,
    u16 Code `" ++ [21407; 22240; 20195; 30721]%N ++ runes_of_ascii "`,
}")).
Eval vm_compute in ("<<<M314>>>" ++ check (runes_of_ascii "packet

{ Z9_ Header// " ++ [128512]%N ++ runes_of_ascii " emoji
,} packet pack
    { }
")).
Eval vm_compute in ("<<<M324>>>" ++ check (runes_of_ascii "packet
asx
{  Header// " ++ [128512]%N ++ runes_of_ascii " emoji
,} packet pack
    { }
")).
Eval vm_compute in ("<<<M334>>>" ++ check (runes_of_ascii "packet
asx
{ Z9_ Header// " ++ [128512]%N ++ runes_of_ascii " emoji
} packet pack
    { }
")).
Eval vm_compute in ("<<<M344>>>" ++ check (runes_of_ascii "packet
asx
{ Z9_ Header// " ++ [128512]%N ++ runes_of_ascii " emoji
,}  pack
    { }
")).
Eval vm_compute in ("<<<M354>>>" ++ check (runes_of_ascii "packet
asx
{ Z9_ Header// " ++ [128512]%N ++ runes_of_ascii " emoji
,} packet pack
     }
")).
Eval vm_compute in ("<<<M364>>>" ++ check (runes_of_ascii "packet
asx
{ Z9_ Header// " ++ [128512]%N ++ runes_of_ascii " emoji
,} p")).
Eval vm_compute in ("<<<M374>>>" ++ check (runes_of_ascii "packet
asx
{ " ++ [127]%N ++ runes_of_ascii "Z9_ Header// " ++ [128512]%N ++ runes_of_ascii " emoji
,} packet pack
    { }
")).
Eval vm_compute in ("<<<M384>>>" ++ check (runes_of_ascii "packet
asx
{ Z9_ Header// " ++ [128512]%N ++ runes_of_ascii " emoji
,} packet x" ++ [178]%N ++ runes_of_ascii "
    { }
")).
Eval vm_compute in ("<<<M394>>>" ++ check (runes_of_ascii "MetaData")).
Eval vm_compute in ("<<<M404>>>" ++ check (runes_of_ascii "MetaData o {")).
Eval vm_compute in ("<<<M414>>>" ++ check (runes_of_ascii "MetaData o { char[ // `tick` ""quote"" 'q'
3")).
Eval vm_compute in ("<<<M424>>>" ++ check (runes_of_ascii "MetaData o { char[ // `tick` ""quote"" 'q'
3] body")).
Eval vm_compute in ("<<<M434>>>" ++ check (runes_of_ascii "MetaData o { char[ // `tick` ""quote"" 'q'
3] body, }")).
Eval vm_compute in ("<<<M444>>>" ++ check (runes_of_ascii "MetaData o { char[ // `tick` ""quote"" 'q'
3] body, } packet o")).
Eval vm_compute in ("<<<M454>>>" ++ check (runes_of_ascii "MetaData o { char[ // `tick` ""quote"" 'q'
3] body, } packet o{
u8")).
Eval vm_compute in ("<<<M464>>>" ++ check (runes_of_ascii "MetaData o { char[ // `tick` """)).
Eval vm_compute in ("<<<M474>>>" ++ check (runes_of_ascii "MetaData o { char[ // `tick` ""quote""" ++ [65279]%N ++ runes_of_ascii " 'q'
3] body, } packet o{
u8
charz ,
    }")).
Eval vm_compute in ("<<<M484>>>" ++ check (runes_of_ascii "MetaData o { char[ // `tick` ""quote"" 'q'
3] body, } packet o{
u8
" ++ [252]%N ++ runes_of_ascii "ber ,
    }")).
Eval vm_compute in ("<<<M494>>>" ++ check (runes_of_ascii "options char[calculatedFrom =	int8 ;}

")).
Eval vm_compute in ("<<<M504>>>" ++ check (runes_of_ascii "options {calculatedFrom ;	int8 ;}

")).
Eval vm_compute in ("<<<M514>>>" ++ check (runes_of_ascii "options {calculatedFrom =	int8 @lengthOf(}

")).
Eval vm_compute in ("<<<M524>>>" ++ check (runes_of_ascii "options {calculatedFrom =	int8 ;")).
Eval vm_compute in ("<<<M534>>>" ++ check (runes_of_ascii "o?ptions {calculatedFrom =	int8 ;}

")).
Eval vm_compute in ("<<<M544>>>" ++ check (runes_of_ascii "
MetaData chars {Logon packetx,
    float calculatedFrom
uint8  u32 i64_ ,	}")).
Eval vm_compute in ("<<<M554>>>" ++ check (runes_of_ascii "
MetaData chars Logon{ packetx,
    float calculatedFrom
,  u32 i64_ ,	}")).
Eval vm_compute in ("<<<M564>>>" ++ check (runes_of_ascii " ")).
Eval vm_compute in ("<<<M574>>>" ++ check ([65279]%N)).
Eval vm_compute in ("<<<M584>>>" ++ check (runes_of_ascii "f32 match i32 } uint8 ; MetaData , char[] ] ( `{ , }` @calculatedFrom( true")).
Eval vm_compute in ("<<<M594>>>" ++ check (runes_of_ascii "9\qh,>>]4eOYQ=VK")).
