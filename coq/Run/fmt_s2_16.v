From FP Require Import Lexer Parser ShowPT Digest Formatter.
From Coq Require Import String List NArith.
Import ListNotations.
Open Scope string_scope.
Set Printing Width 100000000.
Set Printing Depth 100000000.
Definition show_fres (r : fres) : string :=
  match r with
  | FOk s => "OK:" ++ sh_escaped s ""
  | FErr s => "ERR:" ++ sh_escaped s ""
  | FPanic p => "PANIC:" ++ p
  end.
Definition check (rs : list rune) : string := digest (show_fres (format_res rs)).
Definition full (rs : list rune) : string := show_fres (format_res rs).
Eval vm_compute in ("<<<M4488>>>" ++ check (runes_of_ascii "packet lengthOf {
    @leftPad(' ')
    // c
    // packet A { u8 x, }
    match len as As {
        ""1"" : leftPad,
        255 : Pad,
        ""1"" : x,
        4294967296 : u128,
        // " ++ [27880; 37322]%N ++ runes_of_ascii "
    },
    @rightPad()
    crc `line1
    line2`,
    @lengthOf(leftPad)
    @calculatedFrom(""a\\"")
    repeat char[] _x `a\`,
    repeatCount asx,
    repeat u {
        match falsey as i8i8 {
            //x
            """ ++ [233]%N ++ runes_of_ascii "t" ++ [233]%N ++ runes_of_ascii """ : float,
            [""\n""] : _x,
            ""CRC32"" : roots,
            7 : matchKey,
            ""packet"" : Foo,
            ""1"" : int,
        },
    },
    i8 x `" ++ [233]%N ++ runes_of_ascii "`,
    @tag(3)
    f32a,
    repeat lengthOf {
        //x
        int @lengthOf(calculatedFrom),
        int64 falsey `doc`,
    },// @lengthOf(
    @calculatedFrom(""x y"")
    //	t
    match x_y_z as Z9_ {
        1 : lengthOf,
        255 : u128,
        ""it's"" : Z9_,
        // @lengthOf(
        42 : len,
    },
    match calculatedFrom as crc {
        [
            0123456789, 255, 0, 1, 0123456789,
            ""packet"", ""it's"", ""\n""
        ] : calculatedFrom,
        65535 : _x,
        ""CRC32"" : tag,
        [""`tick`""] : T,
        [
            0123456789, 4294967296, ""it's"", ""it's"", """ ++ [128512]%N ++ runes_of_ascii """,
            ""`tick`""
        ] : pack,
    },
}

packet u8x {
}

root packet string_ {
    @tag(3)
    char[] crc,
    @rightPad('\x00')
    @leftPad(' ')
    repeat char[42] Foo,
    @calculatedFrom(""{,}"")
    string stringy @lengthOf(chars),
    @tag(1)
    // " ++ [128512]%N ++ runes_of_ascii " emoji
    zchar[007] charz `two words`,
    repeat msg_type {
        char uint8x `line1
        line2`,
        char[00] options1 @calculatedFrom(""" ++ [233]%N ++ runes_of_ascii "t" ++ [233]%N ++ runes_of_ascii """) `say ""hi""`,
        matchKey @calculatedFrom(""1""),//
    },
    @tag(0123456789)
    //	t
    zchar[00] lengthOf,
    @tag(3)
    falsey As,
}

packet lengthOf {
    chars {
        Packet `tab	here`,
        metadata,
        repeat zchar,
    },
    match matchKey as roots {
        ""x y"" : float,
    },
    @tag(1)
    @tag(4294967296)
    T {
        int32 string_ `a\`,
        i8 Pad @calculatedFrom(""a\""b"") `u8 x,`,
        repeat char[] zchar `" ++ [233]%N ++ runes_of_ascii "`,
        u8x {
            repeat char[] x_y_z,
        },
    },
    @rightPad('\x00')
    repeat zchar[7] i8i8,
}")).
Eval vm_compute in ("<<<M956>>>" ++ check (runes_of_ascii "packet o { crc
{ string leftPad
@calculatedFrom(
""\n"" ) /// triple
`it's` , uint16
x_y_z ,Logon,
    string crc
    @lengthOf( crc // a // b
) ,} ,
    @calculatedFrom( //x
"""" ) u64
matchKey `` , match  leftPad as len {00
: //x
charz, }
    , @tag(
007 ) @tag( 65535 )
// a // b
//	t
repeat
// packet A { u8 x, }
//x
stringy crc, @lengthOf(
f32a)match tag  as leftPad{ ""1""
:// " ++ [128512]%N ++ runes_of_ascii " emoji
_x
    ,
// trailing space 
//x
} , roots { tag
    , float64 body , // packet A { u8 x, }
f64 As
@lengthOf( // trailing space 
tag)
`line1
line2`,
} , i64_ @calculatedFrom(
    // trailing space 
    ""x y"" // `tick` ""quote"" 'q'
) , // " ++ [128512]%N ++ runes_of_ascii " emoji
Packet @calculatedFrom(
""\n""), @lengthOf(
    BodyLength)
char[ 42
    // a // b
    ]int @lengthOf( lengthOf ) `say ""hi""` ,
} MetaData u{ f64 msg_type , uint8
As `say ""hi""`, leftPad
packetx
, int32 As // " ++ [27880; 37322]%N ++ runes_of_ascii "
`tab	here`,	i64 trueish	, uint16
    calculatedFrom ,} packet
f32a{ roots x_y_z , match body as  f32a
// @lengthOf(
//	t
{ [ 255, 10
]
// packet A { u8 x, }
// `tick` ""quote"" 'q'
: BodyLength , ""// no comment""
    :
packetx
    , [ ""{,}"" , 65535 ,
4294967296
, 255
, 7
, //x
""{,}"" // a // b
,"""" ,0 ]
: uint8x 255 : trueish , 7 : u128
    ,0123456789 :
    asx , } , // " ++ [128512]%N ++ runes_of_ascii " emoji
match
    //	t
    A as  o {  0
:
    trueish // `tick` ""quote"" 'q'
,""1""
: i8i8 , 42 : Z9_ ,
    }
    , options1  , @tag(	0123456789 )repeat
    /// triple
    zchar { Foo
    @lengthOf( float), /// triple
}// c
, match msg_type as u{// packet A { u8 x, }
0123456789
:
    repeatCount,
    } , @calculatedFrom( ""it's"" )i64_ @lengthOf( x_y_z  )
, char[  00
    ]Packet `" ++ [28040; 24687; 31867; 22411]%N ++ runes_of_ascii "` ,u16 // @lengthOf(
lengthOf `a\` ,
@calculatedFrom( ""\" ++ [233]%N ++ runes_of_ascii """) i64_ int , } packet uint8x{ string Header @lengthOf(matchKey )	`" ++ [28040; 24687; 31867; 22411]%N ++ runes_of_ascii "`
,}
    packet
crc {
// " ++ [128512]%N ++ runes_of_ascii " emoji
// `tick` ""quote"" 'q'
}
")).
Eval vm_compute in ("<<<M180>>>" ++ check (runes_of_ascii "// @lengthOf(
MetaData
zchar {string
o
`crlf
line`	, char[]
pack // c
`crlf
line` , char[]
    // trailing space 
    Foo,
} options { stringy =
""`tick`""
    } packet leftPad {
    packetx
    @lengthOf(  roots), @lengthOf(int
// a // b
// " ++ [27880; 37322]%N ++ runes_of_ascii "
) @calculatedFrom( ""a\""b"" )
    @calculatedFrom( """ ++ [28040; 24687]%N ++ runes_of_ascii """ ) int32
MetaDataX `" ++ [233]%N ++ runes_of_ascii "` // " ++ [27880; 37322]%N ++ runes_of_ascii "
, u8 int// `tick` ""quote"" 'q'
,
@lengthOf( options1
    ) repeat u8 BodyLength// `tick` ""quote"" 'q'
,
    @tag( 1
    ) Logon
    ,repeat int32 u8x
`say ""hi""`, match int
as
charz	{ ""abc"" : roots } ,string_ {zchar	@lengthOf( calculatedFrom ) ``
,
} , } root packet lengthOf {
@tag( 4294967296 )A // packet A { u8 x, }
@lengthOf( i64_ )`doc` , body@lengthOf( lengthOf ) `it's`
    // packet A { u8 x, }
    , zchar[ 10 ] // " ++ [27880; 37322]%N ++ runes_of_ascii "
i8i8, @calculatedFrom( """ ++ [233]%N ++ runes_of_ascii "t" ++ [233]%N ++ runes_of_ascii """	) i64 int `u8 x,`,	repeat trueish { string  options1 , zchar[
    0123456789 ]_x
`tab	here` ,
Pad
    { repeat string repeatCount , repeat string _x , Packet
@lengthOf( roots ) `
`
    , string crc@calculatedFrom(""abc""),
} , match i8i8 as  string_ {// c
[ ""it's""
]
:
options1 ,
//
// @lengthOf(
""a	b"":
string_ , [
""a	b""
, 00 ] //	t
: // `tick` ""quote"" 'q'
metadata  ,
    0 :	o
    ""\" ++ [233]%N ++ runes_of_ascii """
    : Pad // packet A { u8 x, }
,}
,} , char[7 ]  i8i8 `tab	here`
    , roots { repeat uint8 _x`tab	here`,	}  ,
    repeat int64 f32a	,
match asx
as calculatedFrom { 65535 : asx
// trailing space 
//x
, [ 1
] :  uint8x,
42 :x
[ ""x y"" , ""1"",""`tick`"" , ""1"" ,
""1""
,	""a	b"" ]
    :
    MetaDataX }
,} MetaData
chars
    { }")).
Eval vm_compute in ("<<<M1402>>>" ++ check (runes_of_ascii "options {
	StringPrefixLenType = u16;
	ArrayPrefixLenType = u16;
}

packet SampleBinary {
    uint16 MsgType `" ++ [28040; 24687; 31867; 22411]%N ++ runes_of_ascii "`,
    u16 BodyLenght @lengthOf(Body) `" ++ [28040; 24687; 20307; 38271; 24230]%N ++ runes_of_ascii "`,
    match MsgType as Body {
        1 : Logon,
        2 : Logout,
        3 : Heartbeat,
        4 : RiskControlRequest,
        5 : RiskControlResponse,
    },
        @calculatedFrom(""CRC32"")
    u32 Ckecksum `" ++ [26657; 39564; 21644]%N ++ runes_of_ascii "`,
}

packet Logon {
     @leftPad('0')
    char[10] UserName `" ++ [29992; 25143; 21517]%N ++ runes_of_ascii "`,
    string Password `" ++ [23494; 30721]%N ++ runes_of_ascii "`,
    uint64 ClientId `" ++ [23458; 25143; 31471]%N ++ runes_of_ascii "ID`,
    u16 HeartbeatInterval `" ++ [24515; 36339; 38388; 38548]%N ++ runes_of_ascii "`,
}

packet Logout {
      @rightPad('0')
    char[10] UserName `" ++ [29992; 25143; 21517]%N ++ runes_of_ascii "`,
    uint64 ClientId `" ++ [23458; 25143; 31471]%N ++ runes_of_ascii "ID`,
}

packet Heartbeat {
}

packet RiskControlRequest {
    string UniqueOrderId `" ++ [21807; 19968; 35746; 21333; 21495]%N ++ runes_of_ascii "`,
    char[16] ClOrdID `" ++ [23458; 25143; 35746; 21333; 21495]%N ++ runes_of_ascii "`,
    char[3] MarketID `" ++ [24066; 22330]%N ++ runes_of_ascii "id`,
    char[12] SecurityID `" ++ [35777; 21048; 20195; 30721]%N ++ runes_of_ascii "`,
    char Side `" ++ [20080; 21334; 26041; 21521]%N ++ runes_of_ascii "`,
    char OrderType `" ++ [35746; 21333; 31867; 22411]%N ++ runes_of_ascii "`,
    u64 Price `" ++ [20215; 26684]%N ++ runes_of_ascii "`,
    u32 Qty `" ++ [25968; 37327]%N ++ runes_of_ascii "`,
    repeat string ExtraInfo `" ++ [38468; 21152; 20449; 24687]%N ++ runes_of_ascii "`,
    repeat SubOrder {
    		char[16] ClOrdID `" ++ [23376; 35746; 21333; 21495]%N ++ runes_of_ascii "`,
    		u64 Price `" ++ [23376; 35746; 21333; 20215; 26684]%N ++ runes_of_ascii "`,
    		u32 Qty `" ++ [23376; 35746; 21333; 25968; 37327]%N ++ runes_of_ascii "`,
    	},
}

packet RiskControlResponse {
    string UniqueOrderId `" ++ [21807; 19968; 35746; 21333; 21495]%N ++ runes_of_ascii "`,
    i32 Status `" ++ [29366; 24577]%N ++ runes_of_ascii "`,
    string Msg `" ++ [32467; 26524; 20449; 24687]%N ++ runes_of_ascii "`,
    repeat Detail,
}

packet Detail {
    string RuleName `" ++ [35268; 21017; 21517; 31216]%N ++ runes_of_ascii "`,
    u16 Code `" ++ [21407; 22240; 20195; 30721]%N ++ runes_of_ascii "`,
}")).
Eval vm_compute in ("<<<M873>>>" ++ check (runes_of_ascii "packet i8i8  {
@lengthOf( body )
// trailing space 
// " ++ [128512]%N ++ runes_of_ascii " emoji
@lengthOf(  T
    )calculatedFrom @calculatedFrom( """" ) , uint32 x`crlf
line`
    , uint64 string_ `{ , }` ,i64 _x // `tick` ""quote"" 'q'
@calculatedFrom(""a	b""
    )
`doc` , @lengthOf( len )
asx `doc`,charz `two words`,
}  packet	u { @rightPad (	) repeat u128 u8x
    , // trailing space 
float64 stringy @calculatedFrom(
    """ ++ [128512]%N ++ runes_of_ascii """)`crlf
line` ,
@rightPad( ) @tag(10 ) repeat
    options1 `crlf
line`, zchar[ 0 ] i8i8 , int16 // " ++ [128512]%N ++ runes_of_ascii " emoji
matchKey@calculatedFrom(""CRC32"" )
,}packet string_	{ zchar
    // @lengthOf(
    @calculatedFrom( ""packet"" ), repeat
asx chars `tab	here` , }packet falsey { body
BodyLength`two words`
// a // b
// trailing space 
,
match Z9_	as lengthOf{
4294967296 : roots // " ++ [27880; 37322]%N ++ runes_of_ascii "
} , char[	3
    // @lengthOf(
    ]asx `crlf
line` , }root packet float	{
repeat  i8i8 , @lengthOf(options1 ) roots
roots  ,
repeat zchar[ 1 ]
    /// triple
    pack , i64_ , falsey`` , match options1 as
    // @lengthOf(
    x_y_z { 0// packet A { u8 x, }
: int , } ,	zchar[ 007 ] A@calculatedFrom( ""a	b""	)
, trueish {repeat char[]i8i8 `doc` , }  , i8i8 `
`
    //
    , uint8 roots `two words`// c
,} 	 ")).
Eval vm_compute in ("<<<M3955>>>" ++ check (runes_of_ascii "root
packet MetaDataX {  } options 
{ matchKey = ""abc""

    ; i64_= 	 // a // b
	7
    ;
    len
    =
1 x_y_z=	//x
	'0'
;
}
options{
A = 7

len  
      // a // b
    //x
  = zchar[

    4294967296	]  ;
    o = string
; int

    = false

f32a = 	 // trailing space 
""CRC32"" ; }
root
packet	crc 
	    // " ++ [27880; 37322]%N ++ runes_of_ascii "
  {
char[]	string_
, match  i8i8 	 // c
	as 
tag  { //x
3
:

    packetx }

,
@rightPad

(' ' ) 
repeat _x 
        // packet A { u8 x, }
//x
    	{
	a1  trueish
    `// not a comment`
	,

    }, int16	// packet A { u8 x, }
Z9_ ,  @lengthOf(uint8x 
      // @lengthOf(
	)
	// `tick` ""quote"" 'q'
	// `tick` ""quote"" 'q'
      zchar[ 
        // " ++ [128512]%N ++ runes_of_ascii " emoji
  4294967296
]	A

@lengthOf(
    i64_
	) 	 //	t
    `two words`
,  repeat // " ++ [27880; 37322]%N ++ runes_of_ascii "
	uint64 metadata ,

    @calculatedFrom( ""packet""

    )
	string
    //x
	//	t
  x `it's` ,match

T  as  asx

// " ++ [27880; 37322]%N ++ runes_of_ascii "
//	t
      {
    ""abc"" :
A 
,
	""it's""
    :  Logon

,
}

, 	 // packet A { u8 x, }
  @calculatedFrom(

//
    // a // b

	""\n"" ) string
	_x

,uint64 zchar
    @lengthOf( 
lengthOf),  }

    packet

    uint8x
	{  }// a // b
 
")).
Eval vm_compute in ("<<<M1311>>>" ++ check (runes_of_ascii "root packet body{
    // `tick` ""quote"" 'q'
    @tag(
    10
)repeat // trailing space 
len { // c
repeat
    i32
BodyLength ,	zchar[ 0123456789
    ]trueish@lengthOf(tag )/// triple
, }
, u64 rootA ,
@tag( 0123456789 //
)
    char[ 1
] i64_
`
` ,@tag(//	t
0123456789)repeat
    char[]_x
    ,
    @tag(
7 ) zchar[// packet A { u8 x, }
0 ] calculatedFrom
    @lengthOf(repeatCount ) , match i64_
// a // b
//
as Packet { 3 : charz,[
    ""a\\""] : options1, [
""`tick`"" ,  0123456789 , 4294967296 ,  ""a	b"", 0123456789  ,""x y"" , """ ++ [128512]%N ++ runes_of_ascii """ ,""x y""] :
    _x	, ""a\""b""  :
    pack , ""it's""	:
crc,} , }
MetaData i8i8 {
f32 u ,} packet A{ zchar[42
    ] Pad ,
    u128 , @calculatedFrom( ""x y"") repeat // `tick` ""quote"" 'q'
u16 u ,
    char[00 ]/// triple
u128  , //	t
repeat char[] u8x `doc` , }packet _x
    { @lengthOf( rootA ) @tag( 3 )uint32	msg_type ,	options1
    u128 ,char[] Pad
, @tag(
007 )  f32a @lengthOf(lengthOf ) `// not a comment` , }
packet // @lengthOf(
metadata
    { @leftPad ( '0' ) @tag(0123456789 ) @rightPad (
    ) f32a,
    } 	 ")).
Eval vm_compute in ("<<<M3209>>>" ++ check (runes_of_ascii "// top
root
    // c0
packet
    // c1
msg_type
    // c2
{
    // c3
i64
    // c4
options1
    // c5
,
    // c6
@lengthOf(
    // c7
f32a
    // c8
)
    // c9
repeat
    // c10
uint16
    // c11
Foo
    // c12
,
    // c13
@calculatedFrom(
    // c14
""x y""
    // c15
)
    // c16
repeat
    // c17
int64
    // c18
pack
    // c19
,
    // c20
@leftPad
    // c21
(
    // c22
' '
    // c23
)
    // c24
uint8
    // c25
Foo
    // c26
,
    // c27
}
    // c28
packet
    // c29
rootA
    // c30
{
    // c31
f32a
    // c32
x
    // c33
`two words`
    // c34
,
    // c35
char
    // c36
asx
    // c37
@lengthOf(
    // c38
falsey
    // c39
)
    // c40
`u8 x,`
    // c41
,
    // c42
@lengthOf(
    // c43
i64_
    // c44
)
    // c45
uint16
    // c46
chars
    // c47
,
    // c48
@tag(
    // c49
0
    // c50
)
    // c51
string
    // c52
_x
    // c53
@calculatedFrom(
    // c54
""abc""
    // c55
)
    // c56
`// not a comment`
    // c57
,
    // c58
}
    // c59
")).
Eval vm_compute in ("<<<M3821>>>" ++ check (runes_of_ascii "MetaData T {
    char[007] x `// not a comment`,
    u8 x_y_z `// not a comment`,
    As body,
    T chars `tab	here`,
}

root packet len {
    A,
    @calculatedFrom(""" ++ [128512]%N ++ runes_of_ascii """)
    crc,
    x_y_z {
        falsey {
            Foo {
                x @lengthOf(MetaDataX) `u8 x,`,
                u64 As `// not a comment`,
            },
            u32 lengthOf `two words`,
            char[42] x_y_z @lengthOf(Z9_),
        },
        uint64 asx `it's`,
        pack packetx,
    },
    @rightPad()
    match Foo as Packet {
        3 : float,
        ""x y"" : chars,
        [7] : trueish,
        ""`tick`"" : x,
        ""\" ++ [233]%N ++ runes_of_ascii """ : Pad,
        ""// no comment"" : MetaDataX,
    },
    x repeatCount `" ++ [28040; 24687; 31867; 22411]%N ++ runes_of_ascii "`,
    repeat char[7] falsey,
    @lengthOf(int)
    @calculatedFrom("""")
    @tag(255)
    match u as chars {
        0 : Pad,
        0 : charz,
        ""a\""b"" : matchKey,
        42 : x,
    },
    @calculatedFrom(""abc"")
    repeat int64 len,
}")).
Eval vm_compute in ("<<<M850>>>" ++ check (runes_of_ascii "packet Packet {
match
    a1
    as calculatedFrom//
{
    // `tick` ""quote"" 'q'
    00
    : falsey""" ++ [233]%N ++ runes_of_ascii "t" ++ [233]%N ++ runes_of_ascii """ : string_ ,
[	00 ] :o , ""it's"": u , //	t
10 : BodyLength ""1"" : BodyLength
, } ,}  root packet	calculatedFrom {  repeat
    uint64
    int `line1
line2`
,
string rootA ``,
    @lengthOf( i64_)leftPad@calculatedFrom( ""\" ++ [233]%N ++ runes_of_ascii """ )	`line1
line2`  ,uint8 x_y_z // `tick` ""quote"" 'q'
`" ++ [28040; 24687; 31867; 22411]%N ++ runes_of_ascii "`
, } options {}
MetaData crc
{ pack	asx`" ++ [233]%N ++ runes_of_ascii "` , }packet
    rootA { @lengthOf( x_y_z )repeat T Pad
// a // b
// " ++ [128512]%N ++ runes_of_ascii " emoji
, string
len ,
match float as matchKey { ""a\""b"" : x
    //	t
    ,
007 :
calculatedFrom
,
    255 :// @lengthOf(
crc , }
,int32
//x
//
float ,@leftPad ( ' ' ) @lengthOf(
    stringy)  @calculatedFrom( ""`tick`"" )
    repeat
    float {
zchar[ 00 ] crc @calculatedFrom(
    ""1""
    )`// not a comment` ,
    //x
    string stringy`doc`, } , i16
asx `doc` ,
    // `tick` ""quote"" 'q'
    }
")).
Eval vm_compute in ("<<<M1381>>>" ++ check (runes_of_ascii "packet
chars{ @lengthOf(
zchar )@tag( 42) match	roots as As {
255 : x
    ,
    0123456789
    : charz
, 3	:
T}
// @lengthOf(
// @lengthOf(
, match body as Logon
    {
    ""packet"" : metadata , },  match
As
as i64_ { 7
:metadata ,00: i64_ , [ ""a\""b"", ""\n"" , """ ++ [28040; 24687]%N ++ runes_of_ascii """
    ] // a // b
:// c
falsey  ""abc"" : i8i8 , 7	: u128  , } , //
BodyLength  @lengthOf(//x
stringy )
`// not a comment`, repeat f64
    // trailing space 
    BodyLength,
int64  Z9_
    ,
    @calculatedFrom( ""// no comment""
    // `tick` ""quote"" 'q'
    ) @leftPad( '0' )	@tag(	3 )repeat char[	007 ]	chars, f64 x_y_z , stringy
`u8 x,` ,@lengthOf( // a // b
i8i8) // trailing space 
roots rootA
, } options { matchKey =
float32
    ;Z9_ = u8 f32a= true } root packet u128 { @rightPad (
'\x00' ) Pad falsey`// not a comment` , //x
int32 Z9_ @lengthOf( falsey ) ,
//
// @lengthOf(
}
")).
Eval vm_compute in ("<<<M688>>>" ++ check (runes_of_ascii "packet
Header
{
    @lengthOf( o)
zchar[
255
    ] pack	@lengthOf( len) `a\`
, @calculatedFrom( """ ++ [128512]%N ++ runes_of_ascii """
) repeat Foo {
float @lengthOf(
    asx ) // packet A { u8 x, }
, repeat body ,repeat x{	As @lengthOf(
// packet A { u8 x, }
// a // b
Foo	) // a // b
`doc` ,	string uint8x
// packet A { u8 x, }
// packet A { u8 x, }
@lengthOf(msg_type) , } ,
    // `tick` ""quote"" 'q'
    },@leftPad ('0'
)
    @rightPad
    //x
    (
'0'
    ) x@calculatedFrom(	""" ++ [233]%N ++ runes_of_ascii "t" ++ [233]%N ++ runes_of_ascii """ ) ,@tag( // " ++ [27880; 37322]%N ++ runes_of_ascii "
00 ) msg_type
    @calculatedFrom( """ ++ [128512]%N ++ runes_of_ascii """ ), @tag(65535 ) repeat
// " ++ [128512]%N ++ runes_of_ascii " emoji
//	t
x_y_z ,@tag( 1 )
// c
// " ++ [27880; 37322]%N ++ runes_of_ascii "
zchar[4294967296] matchKey
    , packetx , repeat charz packetx
    `line1
line2`  ,
int32 x  @calculatedFrom(
""\n"") ,	} root
    packet int { @leftPad(
/// triple
// trailing space 
) char zchar	@lengthOf(Pad
    )
`// not a comment`
,} //x")).
Eval vm_compute in ("<<<M1039>>>" ++ check (runes_of_ascii "packet a1 { chars { len{ Logon len , string string_ , u8x @calculatedFrom(
    ""a\\""
// a // b
// c
) ,  repeat
    float{ body int `" ++ [233]%N ++ runes_of_ascii "`
, }
    ,	}, repeat As { repeat i64_
    f32a `{ , }` , A@calculatedFrom( ""\" ++ [233]%N ++ runes_of_ascii """
) , int64	float
    //	t
    ,
    }
,match x as chars {[
    """ ++ [128512]%N ++ runes_of_ascii """
    ,
007	, ""x y"" ,
00 , ""x y"",
10 ] :  string_ 10 : float , 4294967296:	x_y_z , [ """ ++ [233]%N ++ runes_of_ascii "t" ++ [233]%N ++ runes_of_ascii """ //	t
, 10 , 42  ,""" ++ [28040; 24687]%N ++ runes_of_ascii """ ,
0123456789 ,	42
    ,10]  : T 00
: leftPad// trailing space 
,  }, crc @lengthOf( u128
// " ++ [128512]%N ++ runes_of_ascii " emoji
// trailing space 
) //x
,  } ,
    char[] packetx@calculatedFrom( ""abc"" )`line1
line2`
,	int32 repeatCount @lengthOf(
Foo ) `it's` //	t
, match Packet /// triple
as string_  {
42
/// triple
// trailing space 
:f32a , 255 :
    MetaDataX
1: i8i8
"""" : a1  ,//	t
} , _x@lengthOf( chars) ,	}")).
Eval vm_compute in ("<<<M3529>>>" ++ check (runes_of_ascii "
options{
StringPrefixLenType =
u16 ; ArrayPrefixLenType
= u32  ; FixedStringPadFromLeft
    =false ; FixedStringPadChar
= '0' 
; }
    packet	Logout{f64
	f1,
i16 Note 
, @rightPad

( '\x00'
)  char[

11 ] Flags,	}packet Cancel {
	float64 msgKind 
,
    }
packet Reject
{
    InQty43	{  float32
    sym
,
    char[

    10 ]
Tail 
, uint8
venue

, uint16 f1

    , char[  9 ] 
Acct, },
	}packet Trade {
char[] x ,
zchar[	6  ]
	Note	,repeat
    Reject ,
	} root packet
Order
{ Cancel,Logout

    , u64
    Acct	,
    u32 OrderId
    ,match OrderId

    as
Body  {

[
    127  , 
70
    ]

    :
	Reject

    , 
177 : Trade

    ,	58  :

    Logout
	, 75 :
Cancel	,

}	,	u32  Tail@calculatedFrom(

""CRC32""

)
,

    }
")).
Eval vm_compute in ("<<<M280>>>" ++ check (runes_of_ascii "options{
    metadata
= '0' int = 007 ; zchar
// " ++ [27880; 37322]%N ++ runes_of_ascii "
// `tick` ""quote"" 'q'
=
'\x00' ;
    }
    packet charz {
@leftPad
    ( '0'
    ) @tag(
42
    // " ++ [128512]%N ++ runes_of_ascii " emoji
    ) @calculatedFrom(
    // " ++ [27880; 37322]%N ++ runes_of_ascii "
    ""a\""b"" )char[]
    packetx
    @calculatedFrom(""\" ++ [233]%N ++ runes_of_ascii """
    )`
`
,	match charz as msg_type  {
//
// trailing space 
4294967296:
o 0123456789: // packet A { u8 x, }
trueish ,  ""// no comment"" : asx //x
[ 65535 ,
65535 ,
    3,""a\""b""
,	""a\\""	,""" ++ [28040; 24687]%N ++ runes_of_ascii """
, 0123456789 ,
    ""a	b"" ]
: T
,
}
, @rightPad (
' '
    )
crc , repeat char[]
    // packet A { u8 x, }
    stringy  `a\` , }
// " ++ [128512]%N ++ runes_of_ascii " emoji
// " ++ [128512]%N ++ runes_of_ascii " emoji
MetaData// c
tag { uint64 metadata ,int64 trueish `{ , }`,
uint32 a1 , f32 Packet `// not a comment` , }
")).
Eval vm_compute in ("<<<M1134>>>" ++ check (runes_of_ascii "packet	MetaDataX
    { T@lengthOf(
//x
// a // b
trueish )
`` , @rightPad( ' '
) repeat options1 // @lengthOf(
A /// triple
`" ++ [233]%N ++ runes_of_ascii "` //x
,options1 @lengthOf( lengthOf
)
    // `tick` ""quote"" 'q'
    `u8 x,`  , } root packet As {repeat Logon `
` , @calculatedFrom( """ ++ [28040; 24687]%N ++ runes_of_ascii """  )// packet A { u8 x, }
zchar[ 3 ] T ,match Foo as u{[
""`tick`"" ]
// `tick` ""quote"" 'q'
// @lengthOf(
: As ,}
    , } packet//	t
charz
    {
@lengthOf( u ) match charz // @lengthOf(
as zchar
{ [
//	t
// @lengthOf(
""" ++ [128512]%N ++ runes_of_ascii """,
""packet""
]:
    crc [ 7
, 10
    ,	7  , 3 // packet A { u8 x, }
,4294967296
    // trailing space 
    ,
""a\\"" ] : string_ , [3  ]:
    As 10 : uint8x,	65535: matchKey, }
    , }")).
Eval vm_compute in ("<<<M3959>>>" ++ check (runes_of_ascii "options {
}

root packet A {
    @rightPad()
    @lengthOf(u128)
    @calculatedFrom(""\" ++ [233]%N ++ runes_of_ascii """)
    repeat u {
        string body,
        zchar @lengthOf(roots),
        // @lengthOf(
        // @lengthOf(
        uint64 Pad,// `tick` ""quote"" 'q'
        repeat metadata,
    },
    @tag(3)
    Pad @calculatedFrom(""a\""b"") `two words`,
    @leftPad('\x00')
    T x `crlf
        line`,
    match BodyLength as crc {
        [007] : uint8x,
        00 : u,
        ""a\""b"" : tag,
        00 : options1,
        ""\" ++ [233]%N ++ runes_of_ascii """ : trueish,
        [65535, 3, ""x y"", """"] : float,
    },
}

options {
    x_y_z = 42
}

options {
    zchar = false;
}")).
Eval vm_compute in ("<<<M834>>>" ++ check (runes_of_ascii "  packet Pad
{ @tag(	0123456789)	float64 metadata `a\`
, @calculatedFrom( ""a\""b""
)	@lengthOf( //	t
matchKey )uint8
leftPad `it's`, i32 chars `two words` , @leftPad ( ' ')@calculatedFrom(
""{,}"" ) leftPad	`" ++ [233]%N ++ runes_of_ascii "` , char[
00 ] options1 `" ++ [233]%N ++ runes_of_ascii "` ,
    repeat repeatCount
    { repeat zchar
{ char[ 65535 ]
    // a // b
    lengthOf@lengthOf( As ) `{ , }`
    ,}
,
As _x , a1 //
``	,
calculatedFrom `{ , }` ,
    } ,@lengthOf(  calculatedFrom )match
    o as  x_y_z{  00: A ,
    42: lengthOf , [""packet"" ,
    10 ] :charz , [""{,}""
//
// `tick` ""quote"" 'q'
, 1
]  : tag // trailing space 
[""{,}""] :int
, }  ,	}
")).
Eval vm_compute in ("<<<M4468>>>" ++ check (runes_of_ascii "  MetaData
T
{ 
	    //
  // @lengthOf(
	  u64 BodyLength
	`say ""hi""` ,
    i16

    a1 ,int64
msg_type
`// not a comment`

,
x_y_z	zchar, u64

T , float32 
calculatedFrom

,
	} 
packet

    Logon { 
@lengthOf(
    options1
    ) 
int64  x@lengthOf(

Z9_)`{ , }`

,  }

    packet
lengthOf {
        // `tick` ""quote"" 'q'
	@calculatedFrom(
""`tick`""  )  A 	 // `tick` ""quote"" 'q'
	`" ++ [233]%N ++ runes_of_ascii "`// `tick` ""quote"" 'q'
    , falsey

    lengthOf 
,
@lengthOf(
x_y_z )@lengthOf(
	options1  ) 
char[
    4294967296 ]body@calculatedFrom(  """ ++ [28040; 24687]%N ++ runes_of_ascii """

    ) 
    // c

	,	}
")).
Eval vm_compute in ("<<<M1099>>>" ++ check (runes_of_ascii "packet
    trueish {
    repeat
chars
    ``
,
match
    // trailing space 
    u128
as leftPad { """ ++ [233]%N ++ runes_of_ascii "t" ++ [233]%N ++ runes_of_ascii """ : msg_type , } ,	string metadata ,zchar[ 10 ] pack `a\`,u8x {match u128
as
    Pad
{
    [ ""\n"" , 0 ] : len }
    // @lengthOf(
    , // trailing space 
char[] Logon	@lengthOf(  Foo ) ,	uint64 metadata ,}
,
    u16 repeatCount
@lengthOf( T
    // trailing space 
    ) , @lengthOf(u128 )T
    @lengthOf(
    f32a ),int8// `tick` ""quote"" 'q'
i64_ `" ++ [233]%N ++ runes_of_ascii "`, @lengthOf(uint8x ) uint8 charz @calculatedFrom( """"	) , rootA
    tag
    ,
}
")).
Eval vm_compute in ("<<<M795>>>" ++ check (runes_of_ascii "
packet rootA { string calculatedFrom@lengthOf(
matchKey )
, }packet rootA
    {
// " ++ [27880; 37322]%N ++ runes_of_ascii "
//
repeat string
string_ ,
} packet	x_y_z{ repeat	string i64_
    //x
    `two words` ,@leftPad (
// " ++ [27880; 37322]%N ++ runes_of_ascii "
// " ++ [128512]%N ++ runes_of_ascii " emoji
) repeat int64 Foo ,
match chars
as int {""" ++ [28040; 24687]%N ++ runes_of_ascii """
: o
    /// triple
    """ ++ [233]%N ++ runes_of_ascii "t" ++ [233]%N ++ runes_of_ascii """: crc,
4294967296 : repeatCount
// a // b
// @lengthOf(
, [1 ]  : As,
[ 255,""" ++ [128512]%N ++ runes_of_ascii """
    //
    , ""x y""	,
    ""{,}"", 4294967296,
"""" ,
    ""a\""b"" ,
00 ] : u128 , // " ++ [128512]%N ++ runes_of_ascii " emoji
""\" ++ [233]%N ++ runes_of_ascii """ : lengthOf ,
    } , int64 uint8x
    // c
    , }
")).
Eval vm_compute in ("<<<M1169>>>" ++ check (runes_of_ascii "root
    packet metadata {
repeat
    zchar[ 255 ]	matchKey `line1
line2` ,
@tag( 0
)
    // " ++ [128512]%N ++ runes_of_ascii " emoji
    match // packet A { u8 x, }
A as msg_type{ ""packet"":len 255 : roots	""" ++ [233]%N ++ runes_of_ascii "t" ++ [233]%N ++ runes_of_ascii """ : leftPad, ""CRC32"": Z9_
    , //	t
} , @leftPad
(' ' ) char[] Logon , //x
char[3 ]T
`{ , }`	, uint64 metadata @calculatedFrom( // `tick` ""quote"" 'q'
""1"" ) , @rightPad	()
match
    u as len  {[ ""\" ++ [233]%N ++ runes_of_ascii """ ,
    ""1"" ] : f32a
    }, u128 falsey , @calculatedFrom(	""" ++ [28040; 24687]%N ++ runes_of_ascii """ )As
    @lengthOf( falsey ) ,
}")).
Eval vm_compute in ("<<<M852>>>" ++ check (runes_of_ascii "packet charz	{ @lengthOf(
x_y_z
    )match
msg_type as msg_type{ ""a	b"" :
packetx ,}
, repeat	zchar[255 ] // a // b
i8i8 `tab	here` ,
    char[	255] i8i8 @lengthOf(
    i64_/// triple
)// c
, }
root
packet matchKey { zchar[3 ] body`crlf
line` ,
@calculatedFrom(
    ""x y"" )
char[	00 ]leftPad `u8 x,` ,} // packet A { u8 x, }
packet u8x  { @tag(00 ) metadata
    {
    repeat lengthOf
    {zchar[
0 ] _x @calculatedFrom( ""it's""  ) `say ""hi""`
, } , }	,
}
")).
Eval vm_compute in ("<<<M726>>>" ++ check (runes_of_ascii "packet u
{
    @calculatedFrom( """"
)float64 i8i8
, @tag(42
)@lengthOf( Z9_ ) @tag(  00	) Logon  metadata , float64 packetx
// trailing space 
// a // b
,// c
char[]trueish@calculatedFrom(""// no comment"" )	`" ++ [28040; 24687; 31867; 22411]%N ++ runes_of_ascii "`	,leftPad
    , repeat  i32 x ,@calculatedFrom(	""" ++ [233]%N ++ runes_of_ascii "t" ++ [233]%N ++ runes_of_ascii """ )u16
    As,
repeat
    char[] Header , match
T
as falsey {
10
:
    string_ }
// " ++ [27880; 37322]%N ++ runes_of_ascii "
//x
, } packet A {zchar[ 42]
rootA
    ,f32	pack
@lengthOf(
    zchar)  , // @lengthOf(
}
")).
Eval vm_compute in ("<<<M439>>>" ++ check (runes_of_ascii "MetaData
/// triple
//	t
matchKey {
    MetaDataX
trueish `say ""hi""` , char[] stringy `u8 x,` ,
}
    /// triple
    packet
zchar {
u64 a1
,
@leftPad  (
    )match zchar as MetaDataX//
{
//
// `tick` ""quote"" 'q'
""a\\"" : x_y_z} , @leftPad ('\x00'
)
match lengthOf as _x
    // " ++ [27880; 37322]%N ++ runes_of_ascii "
    {
7:  leftPad , } ,//
@calculatedFrom(""" ++ [28040; 24687]%N ++ runes_of_ascii """ )	@lengthOf(
crc
)
//x
//
match BodyLength as calculatedFrom  {
255: x_y_z ""// no comment""
:T }, }
")).
Eval vm_compute in ("<<<M599>>>" ++ check (runes_of_ascii "
packet i64_ // `tick` ""quote"" 'q'
{ uint8x @calculatedFrom(""abc"" // " ++ [27880; 37322]%N ++ runes_of_ascii "
) , char stringy ,@lengthOf( i8i8
) match BodyLength
as o{""" ++ [233]%N ++ runes_of_ascii "t" ++ [233]%N ++ runes_of_ascii """ :	Z9_
,
    ""x y""
    : stringy , } ,@rightPad
    /// triple
    ('0'  )
repeat T
    {  repeatCount
    , uint16
As @lengthOf( // `tick` ""quote"" 'q'
Packet )
    ,	repeat	len
, }, @lengthOf( packetx )
Pad , @calculatedFrom(""" ++ [28040; 24687]%N ++ runes_of_ascii """
    ) // @lengthOf(
o ,zchar[ 00 ] rootA
,
}
")).
Eval vm_compute in ("<<<M3500>>>" ++ check (runes_of_ascii "options

{ 
LittleEndian = 
false  ;StringPrefixLenType
=
u32

    ; ArrayPrefixLenType= u16	; }
	packet
Party { @leftPad(
	'0' )char[ 12]
    Ref
,
repeat	char[ 
6

    ] x
	, 
}
	packet	Logon
{

uint32

clOrdID
, Party	, }	root packet  Ack{

zchar[2 ]
f1
, u32 seqNo
,
	u32

    Side2

    @lengthOf(
Body)

,
match	seqNo 
as
	Body{43  :Logon

    ,
	93:  Party, 
}  ,

}
")).
Eval vm_compute in ("<<<M768>>>" ++ check (runes_of_ascii "
packet Pad
{@lengthOf(
x ) match Header as // c
A
// " ++ [27880; 37322]%N ++ runes_of_ascii "
// @lengthOf(
{  """ ++ [128512]%N ++ runes_of_ascii """
    : // c
x_y_z [""" ++ [233]%N ++ runes_of_ascii "t" ++ [233]%N ++ runes_of_ascii """ ]: body }// `tick` ""quote"" 'q'
, @calculatedFrom( ""a\""b""	)float32 uint8x ,	int16 roots, @calculatedFrom( ""abc"" ) i8 len
    // `tick` ""quote"" 'q'
    @lengthOf(
x_y_z ), }
    packet chars
    { string Packet `doc`	, rootA {
    repeat o , }
, pack stringy	`" ++ [28040; 24687; 31867; 22411]%N ++ runes_of_ascii "` , }")).
Eval vm_compute in ("<<<M505>>>" ++ check (runes_of_ascii "root packet len{
@lengthOf( matchKey ) repeat	repeatCount { repeat falsey ,  float64 Z9_
    , repeat
    i8i8 {
i8i8 matchKey, // a // b
} ,
} ,
    } packet
    //	t
    Z9_{	@calculatedFrom(
    ""a	b""
)match Z9_ as Packet { ""it's"" : lengthOf ,} ,
// " ++ [27880; 37322]%N ++ runes_of_ascii "
//
} MetaData msg_type {
    crc roots
    // packet A { u8 x, }
    ,
uint8
BodyLength , }
// " ++ [128512]%N ++ runes_of_ascii " emoji
")).
Eval vm_compute in ("<<<M1157>>>" ++ check (runes_of_ascii "MetaData
rootA
{ }
// a // b
// c
root
    packet i8i8 { roots	@lengthOf(
    // trailing space 
    metadata )
`a\` , @leftPad( ) @calculatedFrom( """ ++ [233]%N ++ runes_of_ascii "t" ++ [233]%N ++ runes_of_ascii """ ) @rightPad (
) repeat	Packet// " ++ [27880; 37322]%N ++ runes_of_ascii "
, @lengthOf(
falsey) f64 x
    , len @calculatedFrom( ""// no comment"" ) ,	@leftPad (  )
    Pad { int64
    stringy // a // b
``, i8 charz, Header x  , }	, }
")).
Eval vm_compute in ("<<<M4341>>>" ++ check (runes_of_ascii "  // " ++ [27880; 37322]%N ++ runes_of_ascii "
	options	//x
		{  msg_type 
    //x

  //	t

  =
    '0'} packet 
_x
	{  // `tick` ""quote"" 'q'
  @tag(  00)
@tag(1  ) 
char[]
    a1 ,
    // packet A { u8 x, }
	/// triple
    }  packet float 
        //	t
// " ++ [128512]%N ++ runes_of_ascii " emoji
{
    } 
    //	t
    // packet A { u8 x, }
	  MetaData  
  // `tick` ""quote"" 'q'
  Foo
{
    }
")).
Eval vm_compute in ("<<<M3634>>>" ++ check (runes_of_ascii "
packet
zchar 
{stringy //

  @lengthOf(
MetaDataX 
) 
`it's`
    ,

@tag(1)

match
    Z9_
as
	calculatedFrom
{

    """ ++ [28040; 24687]%N ++ runes_of_ascii """
:Header ,	0123456789 
: asx
    [ 
255] //	t
: 	 // " ++ [128512]%N ++ runes_of_ascii " emoji

	rootA	""\n"":  zchar , }, repeat float64 rootA
, char[]  repeatCount 
,repeat
int32
metadata
`" ++ [233]%N ++ runes_of_ascii "`,
repeat  char[ 
7	]
u8x,

}
")).
Eval vm_compute in ("<<<M4313>>>" ++ check (runes_of_ascii "root packet packetx {
    char[65535] u,
    @lengthOf(MetaDataX)
    @lengthOf(rootA)
    @lengthOf(u8x)
    zchar[3] zchar `
    `,
    // packet A { u8 x, }
    //	t
    lengthOf len,
    repeat A {
        // c
        lengthOf @calculatedFrom(""x y""),
        zchar[007] zchar @lengthOf(float),
    },
}")).
Eval vm_compute in ("<<<M1510>>>" ++ check (runes_of_ascii "root packet Foo // " ++ [128512]%N ++ runes_of_ascii " emoji
{ } options {
    // a // b
    tag // `tick` ""quote"" 'q'
= //	t
""""
    ; u8x = zchar[0  ] }
MetaData
    int {zchar[ zchar[ 10]
lengthOf	`` , i64 u8x`// not a comment` ,MetaDataX pack// `tick` ""quote"" 'q'
`crlf
line`
, Logon charz `crlf
line`
    ,
    // a // b
    }
")).
Eval vm_compute in ("<<<M1517>>>" ++ check (runes_of_ascii "root packet Foo // " ++ [128512]%N ++ runes_of_ascii " emoji
{ } options {
    // a // b
    tag // `tick` ""quote"" 'q'
= //	t
""""
    ; u8x = zchar[0  ] }
MetaData
    int {zchar[ int32]
lengthOf	`` , i64 u8x`// not a comment` ,MetaDataX pack// `tick` ""quote"" 'q'
`crlf
line`
, Logon charz `crlf
line`
    ,
    // a // b
    }
")).
Eval vm_compute in ("<<<M3290>>>" ++ check (runes_of_ascii "// top
packet
    // c0
o
    // c1
{
    // c2
@tag(
    // c3
42
    // c4
)
    // c5
repeat
    // c6
x
    // c7
{
    // c8
char[
    // c9
0123456789
    // c10
]
    // c11
i64_
    // c12
,
    // c13
}
    // c14
,
    // c15
}
    // c16
options
    // c17
{
    // c18
}
    // c19
")).
Eval vm_compute in ("<<<M1491>>>" ++ check (runes_of_ascii "root packet Foo // " ++ [128512]%N ++ runes_of_ascii " emoji
{ } options {
    // a // b
    tag // `tick` ""quote"" 'q'
= //	t
""""
    ; u8x = zchar[0  ] MetaData
}
    int {zchar[ 10]
lengthOf	`` , i64 u8x`// not a comment` ,MetaDataX pack// `tick` ""quote"" 'q'
`crlf
line`
, Logon charz `crlf
line`
    ,
    // a // b
    }
")).
Eval vm_compute in ("<<<M1469>>>" ++ check (runes_of_ascii "root packet Foo // " ++ [128512]%N ++ runes_of_ascii " emoji
{ } options {
    // a // b
    tag // `tick` ""quote"" 'q'
= //	t
""""
    ; u8x  zchar[0  ] }
MetaData
    int {zchar[ 10]
lengthOf	`` , i64 u8x`// not a comment` ,MetaDataX pack// `tick` ""quote"" 'q'
`crlf
line`
, Logon charz `crlf
line`
    ,
    // a // b
    }
")).
Eval vm_compute in ("<<<M4400>>>" ++ check (runes_of_ascii "packet stringy {
    string_,
}

packet rootA {
    f32 A @lengthOf(lengthOf),
    @calculatedFrom(""" ++ [233]%N ++ runes_of_ascii "t" ++ [233]%N ++ runes_of_ascii """)
    zchar[4294967296] float @lengthOf(Foo),
    @rightPad('0')
    // `tick` ""quote"" 'q'
    // packet A { u8 x, }
    string body `" ++ [233]%N ++ runes_of_ascii "`,
    char[42] Logon @lengthOf(uint8x) `u8 x,`,
}")).
Eval vm_compute in ("<<<M887>>>" ++ check (runes_of_ascii "
MetaData
// " ++ [128512]%N ++ runes_of_ascii " emoji
//
i8i8
{ int8 charz	`doc` ,}
    packet Header
    {  repeat
    int32 lengthOf `line1
line2` // trailing space 
,
}
    options {float= char[] ;
}packet i8i8 //
{uint8	u128 @lengthOf(
//	t
//x
repeatCount )`crlf
line` ,} options {
    Packet =
char[ 007 ]}
")).
Eval vm_compute in ("<<<M3672>>>" ++ check (runes_of_ascii "packet  calculatedFrom {
	@lengthOf(zchar )
char[] // `tick` ""quote"" 'q'
  chars	`line1
line2`
, 
string

    Logon

@calculatedFrom(

    ""it's""

)
,
matchKey `say ""hi""`, 
@lengthOf( T
    // c

	)  x_y_z@calculatedFrom( 
""it's""
)
    `// not a comment`
, 
}
")).
Eval vm_compute in ("<<<M3495>>>" ++ check (runes_of_ascii "packet P1 {
    u8 a,
}
packet P2 {
    P1,
}
packet P3 {
    P2,
    P1,
}
packet P4 {
    repeat P3,
    P2,
}
root packet P5 {
    P4,
    P3,
    P1,
    u8 K,
    match K as Body {
        4 : P4,
        3 : P3,
        2 : P2,
        1 : P1,
    },
}
")).
Eval vm_compute in ("<<<M3551>>>" ++ check (runes_of_ascii "options {
    LittleEndian = true;
}
packet Logon {
    u8 x,
    string user,
}
packet Logout {
    u16 reason,
}
packet Empty {
}
root packet Frame {
    u16 MsgType,
    @lengthOf(Body) u8 BodyLen,
    u8 flags,
    Logon Body,
    u32 trailer,
}
")).
Eval vm_compute in ("<<<M4088>>>" ++ check (runes_of_ascii "MetaData i64_ {
    char[255] tag,
    uint32 Z9_,
    T options1 `a\`,
    options1 Pad,
    f32 leftPad `line1
    line2`,
}

options {
}

root packet uint8x {
    @lengthOf(float)
    falsey int `
    `,
}

MetaData A {
    u8 Packet,
}")).
Eval vm_compute in ("<<<M4165>>>" ++ check (runes_of_ascii "options {
    o = ""CRC32"";
}

options {
    Header = u32;// packet A { u8 x, }
    packetx = char[]
    T = char[65535];
    // packet A { u8 x, }
    // a // b
    u8x = ""// no comment"";
    string_ = true;
}

root packet tag {
}")).
Eval vm_compute in ("<<<M2372>>>" ++ check (runes_of_ascii "MetaData Packet { }packet	asx  { @lengthOf( asx) falsey`crlf
line`
,
    }
    packet x	{uint32// @lengthOf(
rootA	,u32 options1 `say ""hi""` , @tag( 7
    )// packet A { u8 x, }
msg_type @lengthOf(
stringy	)	, @rightPad

")).
Eval vm_compute in ("<<<M2251>>>" ++ check (runes_of_ascii "MetaData Packet { }packet	asx  { @lengthOf( asx asx) falsey`crlf
line`
,
    }
    packet x	{uint32// @lengthOf(
rootA	,u32 options1 `say ""hi""` , @tag( 7
    )// packet A { u8 x, }
msg_type @lengthOf(
stringy	)	, }

")).
Eval vm_compute in ("<<<M313>>>" ++ check (runes_of_ascii "
packet	stringy
//	t
// " ++ [128512]%N ++ runes_of_ascii " emoji
{ match calculatedFrom // a // b
as MetaDataX { [ ""a\\"", """ ++ [28040; 24687]%N ++ runes_of_ascii """,// `tick` ""quote"" 'q'
""CRC32"" ,
10 ]:x,
    /// triple
    0
:  falsey
, 1 :u8x ,
//x
// c
65535
    :	Foo , }
,
    }")).
Eval vm_compute in ("<<<M2277>>>" ++ check (runes_of_ascii "MetaData Packet { }packet	asx  { @lengthOf( asx) falsey`crlf
line`
,
    packet
    } x	{uint32// @lengthOf(
rootA	,u32 options1 `say ""hi""` , @tag( 7
    )// packet A { u8 x, }
msg_type @lengthOf(
stringy	)	, }

")).
Eval vm_compute in ("<<<M2305>>>" ++ check (runes_of_ascii "MetaData Packet { }packet	asx  { @lengthOf( asx) falsey`crlf
line`
,
    }
    packet x	{uint32// @lengthOf(
rootA	u32 options1 `say ""hi""` , @tag( 7
    )// packet A { u8 x, }
msg_type @lengthOf(
stringy	)	, }

")).
Eval vm_compute in ("<<<M2300>>>" ++ check (runes_of_ascii "MetaData Packet { }packet	asx  { @lengthOf( asx) falsey`crlf
line`
,
    }
    packet x	{uint32// @lengthOf(
	,u32 options1 `say ""hi""` , @tag( 7
    )// packet A { u8 x, }
msg_type @lengthOf(
stringy	)	, }

")).
Eval vm_compute in ("<<<M2353>>>" ++ check (runes_of_ascii "MetaData Packet { }packet	asx  { @lengthOf( asx) falsey`crlf
line`
,
    }
    packet x	{uint32// @lengthOf(
rootA	,u32 options1 `say ""hi""` , @tag( 7
    )// packet A { u8 x, }
msg_type [
stringy	)	, }

")).
Eval vm_compute in ("<<<M701>>>" ++ check (runes_of_ascii "// @lengthOf(
MetaData pack { char[
255
    ]
    options1
,uint64
    lengthOf,	int32 roots, }root packet Packet // @lengthOf(
{// c
@calculatedFrom( ""{,}"" ) string
// " ++ [27880; 37322]%N ++ runes_of_ascii "
// " ++ [128512]%N ++ runes_of_ascii " emoji
zchar `" ++ [28040; 24687; 31867; 22411]%N ++ runes_of_ascii "`,	}")).
Eval vm_compute in ("<<<M3764>>>" ++ check (runes_of_ascii "root packet Foo {
    float32 Logon `doc`,
}

MetaData x_y_z {
    Header Z9_ `line1
    line2`,
    o crc,
    string Header,
    _x packetx `say ""hi""`,
}

packet stringy {
    uint8 i64_,
}")).
Eval vm_compute in ("<<<M1162>>>" ++ check (runes_of_ascii "options { A = false
    ;Packet = false ; Packet =
zchar[0123456789 ]
; charz
= true
    ; } MetaData	float
{ u8x
    Header
    `" ++ [28040; 24687; 31867; 22411]%N ++ runes_of_ascii "`	,}packet
    Header {Pad @lengthOf(u8x ) ,  }")).
Eval vm_compute in ("<<<M4356>>>" ++ check (runes_of_ascii "options {
    f32a = ""packet""
}

MetaData float {
    zchar[0] Z9_ `
        `,
    u64 roots,
    uint64 zchar ``,
    int32 trueish,
    uint64 roots,
}// `tick` ""quote"" 'q'")).
Eval vm_compute in ("<<<M1140>>>" ++ check (runes_of_ascii "packet MetaDataX{repeat Z9_ Header , @lengthOf( rootA
)  stringy
`it's` ,
@tag(65535
    )
repeat
    Pad// packet A { u8 x, }
x
    `
`//x
, char[ 42 ] As `doc`
,	}
")).
Eval vm_compute in ("<<<M1538>>>" ++ check (runes_of_ascii "root packet Foo // " ++ [128512]%N ++ runes_of_ascii " emoji
{ } options {
    // a // b
    tag // `tick` ""quote"" 'q'
= //	t
""""
    ; u8x = zchar[0  ] }
MetaData
    int {zchar[ 10]
lengthOf	``")).
Eval vm_compute in ("<<<M4156>>>" ++ check (runes_of_ascii "packet MetaDataX {
    repeat Z9_ Header,
    @lengthOf(rootA)
    stringy `it's`,
    @tag(65535)
    repeat Pad x `
        `,
    char[42] As `doc`,
}")).
Eval vm_compute in ("<<<M1523>>>" ++ check (runes_of_ascii "root packet Foo // " ++ [128512]%N ++ runes_of_ascii " emoji
{ } options {
    // a // b
    tag // `tick` ""quote"" 'q'
= //	t
""""
    ; u8x = zchar[0  ] }
MetaData
    int {zchar[ 10")).
Eval vm_compute in ("<<<M2329>>>" ++ check (runes_of_ascii "MetaData Packet { }packet	asx  { @lengthOf( asx) falsey`crlf
line`
,
    }
    packet x	{uint32// @lengthOf(
rootA	,u32 options1 `say ""hi""`")).
Eval vm_compute in ("<<<M615>>>" ++ check (runes_of_ascii "root packet a1	{ repeat T`it's`	,@calculatedFrom( ""a\""b"" ) repeat char[]metadata , float64 roots `crlf
line` ,f64 Logon `doc` , }
// c
")).
Eval vm_compute in ("<<<M4215>>>" ++ check (runes_of_ascii "
root packet	charz 
{ @tag( 

// trailing space 
    	0123456789

    )
string
	a1 `// not a comment`
    ,
}
	options {

    } ")).
Eval vm_compute in ("<<<M3745>>>" ++ check (runes_of_ascii "packet A {
    match k as n {
        [
            1, 007, 5, 7, ""bb"",
            ""d"", ""f""
        ] : B,
        2 : C,
    },
}")).
Eval vm_compute in ("<<<M1635>>>" ++ check (runes_of_ascii "root packet /// triple
{ rootA	i32
MetaDataX@calculatedFrom( ""CRC32"" ) `line1
line2` , } MetaData BodyLength {
u8
rootA, } // c")).
Eval vm_compute in ("<<<M1889>>>" ++ check (runes_of_ascii "packet
    Pad // a // b
{ i8i8 @calculatedFrom( ""a	b"") `u8 x,` ,
} options{ float// " ++ [128512]%N ++ runes_of_ascii " emoji
= @lengthOf f64 i64_
=//	t
00 }
")).
Eval vm_compute in ("<<<M3934>>>" ++ check (runes_of_ascii "// top
packet B {
    u8 a,
    string s,// c8
}// c9

root packet P {
    u16 L @lengthOf(B),// c19
    B,
    u8 t,
}// c25")).
Eval vm_compute in ("<<<M1660>>>" ++ check (runes_of_ascii "root packet /// triple
rootA {	i32
MetaDataX@calculatedFrom( : ) `line1
line2` , } MetaData BodyLength {
u8
rootA, } // c")).
Eval vm_compute in ("<<<M4196>>>" ++ check (runes_of_ascii "  packet
B 
{u8  a,

    string
s

,
    }	root packet
P
    {
    u16  L	@lengthOf( B ) ,B,
    u8

t
	,

    }

")).
Eval vm_compute in ("<<<M1853>>>" ++ check (runes_of_ascii "packet
    Pad // a // b
{ i8i8 @calculatedFrom( ""a	b"") `u8 x,` ,
} options{ float// " ++ [128512]%N ++ runes_of_ascii " emoji
= root i64_
=//	t
00 }
")).
Eval vm_compute in ("<<<M1848>>>" ++ check (runes_of_ascii "packet
    Pad // a // b
{ i8i8 @calculatedFrom( ""a	b"") `u8 x,` ,
} options{ float// " ++ [128512]%N ++ runes_of_ascii " emoji
{ f64 i64_
=//	t
00 }
")).
Eval vm_compute in ("<<<M1378>>>" ++ check (runes_of_ascii "packet f32a
    {int16 int
    ,
    } MetaData f32a { char i8i8 , /// triple
string Pad, zchar
f32a ,
    x	T,
}
")).
Eval vm_compute in ("<<<M1483>>>" ++ check (runes_of_ascii "root packet Foo // " ++ [128512]%N ++ runes_of_ascii " emoji
{ } options {
    // a // b
    tag // `tick` ""quote"" 'q'
= //	t
""""
    ; u8x = zchar[")).
Eval vm_compute in ("<<<M1815>>>" ++ check (runes_of_ascii "packet
    Pad // a // b
{ i8i8 @calculatedFrom( ""a	b"")  ,
} options{ float// " ++ [128512]%N ++ runes_of_ascii " emoji
= f64 i64_
=//	t
00 }
")).
Eval vm_compute in ("<<<M2965>>>" ++ check (runes_of_ascii "packet A {
  match k as n {
    [""a"", ""bb"", ""c c"", ""d"", ""e"", ""f"", ""g"", ""h"", ""i"", ""j""] : B,
    2 : C
  },
}")).
Eval vm_compute in ("<<<M3376>>>" ++ check (runes_of_ascii "packet calculatedFrom { @tag( 4294967296 ) u msg_type , char[ 3 ] crc @lengthOf( len ) `u8 x,` , }
// c
")).
Eval vm_compute in ("<<<M3358>>>" ++ check (runes_of_ascii "packet calculatedFrom { @tag( 4294967296 ) u msg_type , char[
// c
3 ] crc @lengthOf( len ) `u8 x,` , }")).
Eval vm_compute in ("<<<M2974>>>" ++ check (runes_of_ascii "packet A {
  match k as n {
    [""a"", ""bb"", 007, ""d"", ""e"", 66, ""g"", ""h"", 9, ""j""] : B
    2 : C
  },
}")).
Eval vm_compute in ("<<<M572>>>" ++ check (runes_of_ascii "MetaData //	t
calculatedFrom {	uint32 trueish`crlf
line`
, i32 roots `doc`
,float64 lengthOf
,}")).
Eval vm_compute in ("<<<M635>>>" ++ check (runes_of_ascii "packet// trailing space 
len
{f32 MetaDataX @calculatedFrom(	""{,}"" )
,
} // packet A { u8 x, }")).
Eval vm_compute in ("<<<M3240>>>" ++ check (runes_of_ascii "packet Logon { @tag( 42 ) @rightPad ( ' ' ) @leftPad ( ) // c
repeat trueish { string T , } , }")).
Eval vm_compute in ("<<<M3983>>>" ++ check (runes_of_ascii "  MetaData  uint8x {  // " ++ [27880; 37322]%N ++ runes_of_ascii "
    	packetx
body 
`// not a comment` ,
    zchar[  7
] rootA ,}

")).
Eval vm_compute in ("<<<M3880>>>" ++ check (runes_of_ascii "

  MetaData calculatedFrom {  // a // b
	u64
A  ,

float32

    u8x ,

} 
    // " ++ [27880; 37322]%N ++ runes_of_ascii "
 
")).
Eval vm_compute in ("<<<M2012>>>" ++ check (runes_of_ascii "root
packet crc
    { f32a @calculatedFrom( """ ++ [233]%N ++ runes_of_ascii "t" ++ [233]%N ++ runes_of_ascii """ )
    `say ""hi""`, lengthOf `` `` ,  }")).
Eval vm_compute in ("<<<M2033>>>" ++ check (runes_of_ascii "root
packet crc
    { f32a @calculatedFrom(# """ ++ [233]%N ++ runes_of_ascii "t" ++ [233]%N ++ runes_of_ascii """ )
    `say ""hi""`, lengthOf `` ,  }")).
Eval vm_compute in ("<<<M2800>>>" ++ check (runes_of_ascii "@tag( ) true @calculatedFrom( repeat ] as `say ""hi""` char[ MetaData i32 int16 i32 f32")).
Eval vm_compute in ("<<<M4151>>>" ++ check (runes_of_ascii "MetaData Packet {
}

packet asx {
    @lengthOf(asx)
    falsey `crlf
    line`,
}")).
Eval vm_compute in ("<<<M3299>>>" ++ check (runes_of_ascii "packet o {
// c
@tag( 42 ) repeat x { char[ 0123456789 ] i64_ , } , } options { }")).
Eval vm_compute in ("<<<M3331>>>" ++ check (runes_of_ascii "packet o { @tag( 42 ) repeat x { char[ 0123456789 ] i64_ , } , } options {
// c
}")).
Eval vm_compute in ("<<<M3057>>>" ++ check (runes_of_ascii "packet A {
    u32 crc @calculatedFrom(""\
""),
    @calculatedFrom(""\
"") u8 y,
}")).
Eval vm_compute in ("<<<M2734>>>" ++ check (runes_of_ascii "@lengthOf( float64 @calculatedFrom( f64 uint16 int8 char i16 packet = repeat")).
Eval vm_compute in ("<<<M4445>>>" ++ check (runes_of_ascii "// `tick` ""quote"" 'q'
options {
    leftPad = float32
}

root packet o {
}")).
Eval vm_compute in ("<<<M2875>>>" ++ check (runes_of_ascii "packet A {
  match k as n {
    [""a"", ""bb"", ""c c""] : B
    2 : C
  },
}")).
Eval vm_compute in ("<<<M3403>>>" ++ check (runes_of_ascii "MetaData _x { zchar[ 4294967296 // c
] lengthOf `// not a comment` , }")).
Eval vm_compute in ("<<<M884>>>" ++ check (runes_of_ascii "packet trueish { repeat rootA
    // " ++ [128512]%N ++ runes_of_ascii " emoji
    ,i64_
lengthOf,
}
")).
Eval vm_compute in ("<<<M2274>>>" ++ check (runes_of_ascii "MetaData Packet { }packet	asx  { @lengthOf( asx) falsey`crlf
line`")).
Eval vm_compute in ("<<<M4051>>>" ++ check (runes_of_ascii "MetaData charz {
    int8 _x `tab	here`,
    u64 Pad `say ""hi""`,
}")).
Eval vm_compute in ("<<<M416>>>" ++ check (runes_of_ascii "  root packet u
//	t
//	t
{ Foo
int ,// `tick` ""quote"" 'q'
}
")).
Eval vm_compute in ("<<<M2185>>>" ++ check (runes_of_ascii "root
    // `tick` ""quote"" 'q'
    packet As { trueish Packet")).
Eval vm_compute in ("<<<M1210>>>" ++ check (runes_of_ascii "options
    {matchKey // `tick` ""quote"" 'q'
='0' // " ++ [27880; 37322]%N ++ runes_of_ascii "
; }
")).
Eval vm_compute in ("<<<M1931>>>" ++ check (runes_of_ascii "
packet	As { @calculatedFrom(//x
""{,}""	)lengthOf , , } 	 ")).
Eval vm_compute in ("<<<M3967>>>" ++ check (runes_of_ascii "MetaData u128 {
    options1 falsey,
    zchar[007] x,
}")).
Eval vm_compute in ("<<<M1397>>>" ++ check (runes_of_ascii "root
    packet f32a// a // b
{ zchar[ 00
    ]a1, }
")).
Eval vm_compute in ("<<<M3377>>>" ++ check (runes_of_ascii "// top
packet // c0
lengthOf // c1
{ // c2
} // c3
")).
Eval vm_compute in ("<<<M1809>>>" ++ check (runes_of_ascii "packet
    Pad // a // b
{ i8i8 @calculatedFrom(")).
Eval vm_compute in ("<<<M4465>>>" ++ check (runes_of_ascii "  MetaData

    Packet

    {
}
// a // b
")).
Eval vm_compute in ("<<<M1769>>>" ++ check (runes_of_ascii "options |{ }options {  } // `tick` ""quote"" 'q'")).
Eval vm_compute in ("<<<M3006>>>" ++ check (runes_of_ascii "MetaData M {
    u8 x `a
b`,
    T t `a
b`,
}")).
Eval vm_compute in ("<<<M2851>>>" ++ check (runes_of_ascii ", string [ f32 = repeatCount f64 { MetaData")).
Eval vm_compute in ("<<<M2127>>>" ++ check (runes_of_ascii "MetaData x
{// " ++ [128512]%N ++ runes_of_ascii " emoji
i16 stringy root }")).
Eval vm_compute in ("<<<M2190>>>" ++ check (runes_of_ascii "root
    // `tick` ""quote"" 'q'
    packe")).
Eval vm_compute in ("<<<M3998>>>" ++ check (runes_of_ascii "// top
options {
    // c1
    u8x = 3
}")).
Eval vm_compute in ("<<<M2103>>>" ++ check (runes_of_ascii "x MetaData
{// " ++ [128512]%N ++ runes_of_ascii " emoji
i16 stringy , }")).
Eval vm_compute in ("<<<M2612>>>" ++ check (runes_of_ascii "packet A { match as as n { 1 : B }, }")).
Eval vm_compute in ("<<<M542>>>" ++ check (runes_of_ascii "packet chars
    { repeat pack , }
")).
Eval vm_compute in ("<<<M3031>>>" ++ check (runes_of_ascii "root packet A {
    u8 x `a

b`,
}")).
Eval vm_compute in ("<<<M3037>>>" ++ check (runes_of_ascii "root packet A {
    u8 x `x
`,
}")).
Eval vm_compute in ("<<<M1368>>>" ++ check (runes_of_ascii "// trailing space 
options {
}")).
Eval vm_compute in ("<<<M3948>>>" ++ check (runes_of_ascii "options {
    falsey = false
}")).
Eval vm_compute in ("<<<M2795>>>" ++ check (runes_of_ascii "<|FXC|?SbA8$TVGm\{-S%&F;R{X5")).
Eval vm_compute in ("<<<M288>>>" ++ check (runes_of_ascii "packet
repeatCount {
    }")).
Eval vm_compute in ("<<<M1720>>>" ++ check (runes_of_ascii "root packet /// triple
r")).
Eval vm_compute in ("<<<M1034>>>" ++ check (runes_of_ascii "root packet a1 //	t
{ }")).
Eval vm_compute in ("<<<M3386>>>" ++ check (runes_of_ascii "packet lengthOf { // c
}")).
Eval vm_compute in ("<<<M979>>>" ++ check (runes_of_ascii "packet //
roots  { }
")).
Eval vm_compute in ("<<<M2572>>>" ++ check (runes_of_ascii "packet A { x y `d`, }")).
Eval vm_compute in ("<<<M3588>>>" ++ check (runes_of_ascii "MetaData leftPad {
}")).
Eval vm_compute in ("<<<M567>>>" ++ check (runes_of_ascii "root packet a1 { }")).
Eval vm_compute in ("<<<M3092>>>" ++ check (runes_of_ascii "// c" ++ [8202]%N ++ runes_of_ascii "
packet A {
}")).
Eval vm_compute in ("<<<M2569>>>" ++ check (runes_of_ascii "packet A { x y, }")).
Eval vm_compute in ("<<<M184>>>" ++ check (runes_of_ascii "packet As
{
}
")).
Eval vm_compute in ("<<<M2711>>>" ++ check ([65533; 65533]%N ++ runes_of_ascii "S" ++ [65533; 65533; 65533; 65533]%N ++ runes_of_ascii "L" ++ [65533]%N ++ runes_of_ascii "w" ++ [65533; 65533; 65533; 21; 65533]%N)).
Eval vm_compute in ("<<<M303>>>" ++ check (runes_of_ascii "options	{
}
")).
Eval vm_compute in ("<<<M2538>>>" ++ check (runes_of_ascii ":,;=()[]{}")).
Eval vm_compute in ("<<<M4423>>>" ++ check (runes_of_ascii "
// c" ++ [8232]%N ++ runes_of_ascii "
")).
Eval vm_compute in ("<<<M2466>>>" ++ check (runes_of_ascii "Packet")).
Eval vm_compute in ("<<<M2511>>>" ++ check (runes_of_ascii """ab""")).
Eval vm_compute in ("<<<M2446>>>" ++ check (runes_of_ascii "true")).
Eval vm_compute in ("<<<M2497>>>" ++ check (runes_of_ascii "///")).
Eval vm_compute in ("<<<M2495>>>" ++ check (runes_of_ascii "//")).
Eval vm_compute in ("<<<M2678>>>" ++ check (runes_of_ascii " ")).
