From FP Require Import Lexer Parser ShowPT Digest Formatter.
From Coq Require Import String List NArith.
Import ListNotations.
Open Scope string_scope.
Set Printing Width 100000000.
Set Printing Depth 100000000.
Definition show_fres (r : fres) : string :=
  match r with
  | FOk s => "OK:" ++ sh_escaped s ""
  | FErr s => "ERR:" ++ sh_escaped s ""
  | FPanic p => "PANIC:" ++ p
  end.
Definition check (rs : list rune) : string := digest (show_fres (format_res rs)).
Definition full (rs : list rune) : string := show_fres (format_res rs).
Eval vm_compute in ("<<<M487>>>" ++ check (runes_of_ascii "packet// " ++ [27880; 37322]%N ++ runes_of_ascii "
len{ // a // b
match // trailing space 
Pad as x_y_z {""abc"" :	float, [ ""CRC32""
    ,""CRC32""
,0 , """ ++ [233]%N ++ runes_of_ascii "t" ++ [233]%N ++ runes_of_ascii """
    , 255
// packet A { u8 x, }
//x
,
255 , //x
""`tick`"" , """ ++ [233]%N ++ runes_of_ascii "t" ++ [233]%N ++ runes_of_ascii """ ] : A	, 0123456789 : // trailing space 
rootA ,	""a\""b""  :
trueish
    ,
    }
, repeat  int `{ , }` ,@lengthOf( trueish
)	roots @lengthOf( body)	, float32 lengthOf// a // b
,
@rightPad  ( ' ')	repeatCount @lengthOf( calculatedFrom)
`line1
line2` , uint64 string_  @calculatedFrom(""x y"" ) , // @lengthOf(
Header _x`two words` ,
i64 roots  `
`
    , } // a // b
options {repeatCount = // " ++ [27880; 37322]%N ++ runes_of_ascii "
false
// @lengthOf(
//	t
; MetaDataX = int16 }root packet As// packet A { u8 x, }
{
    @rightPad // trailing space 
(
'0' ) uint32 BodyLength `u8 x,` ,stringy
//	t
//
`crlf
line` ,
int64 body `a\`
, uint32 u128
,
@tag(	255
// packet A { u8 x, }
// @lengthOf(
) zchar[ 7 ]	pack `line1
line2` ,
@rightPad( '\x00' )
    repeat MetaDataX { x_y_z
    { repeat _x { zchar //
rootA  `
` ,
    // " ++ [128512]%N ++ runes_of_ascii " emoji
    }
    /// triple
    , repeat string_ {
// a // b
// packet A { u8 x, }
zchar[0123456789
] lengthOf	,
    }
    , u128
    asx `
` , match chars as i64_
{ ""`tick`"" ://	t
int ,
[  ""a\\"" ,1 ]  :x 7 : x_y_z //x
,""" ++ [233]%N ++ runes_of_ascii "t" ++ [233]%N ++ runes_of_ascii """ : string_, [ 42	,""1""
    ,	""x y"" ,""`tick`""
    ] : options1 ,}  ,} ,
msg_type  @calculatedFrom( ""a\""b""  )// " ++ [128512]%N ++ runes_of_ascii " emoji
,char[ 4294967296
] asx `" ++ [28040; 24687; 31867; 22411]%N ++ runes_of_ascii "`//
, match _x
as i8i8 { [	""x y"" // @lengthOf(
]
    : charz , 4294967296
    : x_y_z,} ,  }// " ++ [128512]%N ++ runes_of_ascii " emoji
,@calculatedFrom( ""CRC32"" ) As
_x , @rightPad ('\x00' ) //	t
@tag(0123456789 ) @calculatedFrom( ""it's"")
    zchar[3 ]
f32a`doc` , } // @lengthOf(
MetaData	u {rootA //
len `
`
,
}	packet Packet // trailing space 
{ @lengthOf(	len
)repeat
    u64 body  ,
    repeat
    leftPad i64_ , // c
@lengthOf( zchar ) i16 x
,
    // trailing space 
    BodyLength // packet A { u8 x, }
{ repeat packetx tag, }
    //
    ,
    char[
    3 ]Logon
    @calculatedFrom( ""{,}"" // @lengthOf(
) , @tag(  0
)match tag as int { 0123456789 :	float , }
    , match trueish as// c
Logon
{ //	t
""`tick`"" :As
    ,}	, char[ 00]Header, }
")).
Eval vm_compute in ("<<<M4436>>>" ++ check (runes_of_ascii "
packet
rootA

    {
    @rightPad (
'0'
)
string

    leftPad@calculatedFrom(

""" ++ [233]%N ++ runes_of_ascii "t" ++ [233]%N ++ runes_of_ascii """
)
	`two words`
	,	}
	packet	// a // b

  A {
	@calculatedFrom( ""it's""  )char[]	// @lengthOf(
	msg_type

@lengthOf( asx )

`u8 x,`
    ,

    charz
o
,@calculatedFrom(

    ""`tick`"")

    @lengthOf(  // @lengthOf(
		crc
// " ++ [27880; 37322]%N ++ runes_of_ascii "
  // trailing space 
  ) 
    //
  match// " ++ [128512]%N ++ runes_of_ascii " emoji
falsey

    as metadata
    {
    // @lengthOf(

  [
65535

,
    65535

]:u8x

,""\n""
	    // @lengthOf(
    	// @lengthOf(
: int // " ++ [128512]%N ++ runes_of_ascii " emoji

,
    007 :

MetaDataX

,
    ""it's""
: f32a,
	0

    : i8i8,
[	65535
    ,
	255

]
	:
u8x , } , 
} packet

charz

{

string
	MetaDataX 	 // a // b
  , 
    // packet A { u8 x, }

  repeat

    char[] 
_x	,	@rightPad
	( )

match pack as
    //	t
	string_ {""a	b"" : trueish
    ,
	""it's""

// trailing space 

//
    :  A 
10:

T

0

:  // trailing space 
	msg_type	, [
7
, 1

,	""1""
	,// `tick` ""quote"" 'q'
00 	 // " ++ [27880; 37322]%N ++ runes_of_ascii "
		,
	10
, 
4294967296  ,10	]
:
Pad
, 
} ,  // a // b
    A {	repeat
	u128  {char[
00 ]
	a1 `line1
line2`
	, //x
uint8x  rootA
	`say ""hi""` , match
    uint8x
	as i64_{	""" ++ [28040; 24687]%N ++ runes_of_ascii """ :	msg_type

, ""\n""	:
    i8i8 , }
,	i64
x_y_z	`{ , }` 
,
} 
// a // b
      // a // b
      ,
	match
zchar  
  //	t
  	// c
	as  Header
{
3 
:
pack
,""x y"" 
: packetx ,  
      //x
    	255
	:  u8x,
	""abc""

    :

Z9_, ""x y"":msg_type [""a\\""
, 10	// @lengthOf(
  ]	// `tick` ""quote"" 'q'
: o
    }

, char[ 

// `tick` ""quote"" 'q'
0
	]

    leftPad
`{ , }` ,	string stringy @calculatedFrom( ""`tick`""  )

`u8 x,`	,	}  , 
repeat

zchar[
	00 ] // packet A { u8 x, }
	Packet

,
repeat

u16
	tag	,
	@tag(
    65535  )repeat
	uint64

MetaDataX
	, }
    MetaData pack{ 
} ")).
Eval vm_compute in ("<<<M89>>>" ++ check (runes_of_ascii "packet
x
    // `tick` ""quote"" 'q'
    { len// c
{// " ++ [27880; 37322]%N ++ runes_of_ascii "
repeat
i32	crc `say ""hi""` , match
    chars as Packet
{ 0123456789//	t
: Pad 0123456789 :
falsey
    // " ++ [27880; 37322]%N ++ runes_of_ascii "
    [
4294967296
    , 3
    ,
4294967296 , 0, ""1"" ] :roots,
""a\\""
:
_x 3
    : packetx } , repeat string
    stringy `tab	here`
,  match roots as lengthOf{
""abc"" //	t
:
packetx , } // packet A { u8 x, }
, } ,@lengthOf( chars )match  rootA
    // trailing space 
    as roots{
""\n"" //
:
    Packet ,} , // `tick` ""quote"" 'q'
string As `" ++ [28040; 24687; 31867; 22411]%N ++ runes_of_ascii "` , @rightPad (
'\x00' ) int64 trueish @lengthOf( lengthOf )  `" ++ [233]%N ++ runes_of_ascii "` , } packet	len {	} options
    {a1
    // packet A { u8 x, }
    = false
    // a // b
    }packet Z9_{ repeat zchar[ 00
]  options1
    //x
    ,	@lengthOf( falsey ) repeat//	t
i8 options1 `two words`
, @rightPad//
() i8 msg_type, char[3]
lengthOf `{ , }`	,  string _x,@leftPad (
) // c
uint16	chars,
// @lengthOf(
//
@lengthOf(
crc
    )@leftPad
    (
    // " ++ [128512]%N ++ runes_of_ascii " emoji
    '0' ) repeat
stringy calculatedFrom , string
// " ++ [27880; 37322]%N ++ runes_of_ascii "
//
int `line1
line2`, @rightPad
( ' '
    ) match Foo as
    rootA //x
{ [ ""packet"", ""a\""b"", """ ++ [128512]%N ++ runes_of_ascii """
    ,""""	,
    42 ] : u
// a // b
// packet A { u8 x, }
,
0 // " ++ [27880; 37322]%N ++ runes_of_ascii "
:	A
    , // trailing space 
00
:
asx
//x
// trailing space 
0 :  x_y_z
    ,
""CRC32"" : i64_
, 42 : x
// c
// " ++ [128512]%N ++ runes_of_ascii " emoji
, } , roots{ repeat zchar[10 ] stringy `" ++ [28040; 24687; 31867; 22411]%N ++ runes_of_ascii "` ,	} , } MetaData
    // `tick` ""quote"" 'q'
    tag{ f32 tag
    ``, }
")).
Eval vm_compute in ("<<<M3950>>>" ++ check (runes_of_ascii "
packet 
tag

{ 
zchar[	65535 ]T

    ,match
i64_  as

chars
{

    007	:

    asx , 
[

    ""a\""b""
,

""a\""b""
,  7 	 // a // b
,

    0
, 
""\" ++ [233]%N ++ runes_of_ascii """,""abc""
    ,
""x y"" 	 // trailing space 
	  ,
    0
] 
:

u8x 7
: 	 // c
  	leftPad 
7

:
body
,

""`tick`""	:// `tick` ""quote"" 'q'
	  lengthOf  ,

}

    , @leftPad
    ( )
@rightPad
(
	)

repeat
    //
	i64_	charz	,	repeat//	t
    charz  u8x

, repeat	float32
    uint8x ,
	} packet
falsey{ }
packet 	 // trailing space 
Z9_
{ 
repeat u{int32 i8i8 ,	// " ++ [128512]%N ++ runes_of_ascii " emoji
repeat

BodyLength

    {

    match

string_ as charz	{

    ""\" ++ [233]%N ++ runes_of_ascii """
	//
  /// triple
  :
    As } , //x
i64_ @calculatedFrom(
	""packet"")
,
	}

    , 
    //x
    } 
,  asx{	//x
    	char[ 4294967296
	]
pack ,// @lengthOf(
	}
,@rightPad
(
'0' 
)  falsey
repeatCount
    // c
    // " ++ [27880; 37322]%N ++ runes_of_ascii "
	, 
@tag(

    // packet A { u8 x, }
  0 ) 
uint16
chars

    `" ++ [233]%N ++ runes_of_ascii "` , 
x	@lengthOf(asx 
    /// triple
  // a // b
	)

`line1
line2`  ,

    repeat
	options1 
a1,
	@tag( 
        // @lengthOf(
      42 
    /// triple
	// packet A { u8 x, }
  ) 
@leftPad
    (  '\x00' )

match T
    as

x
	{ [

""a\\""]
	:

falsey
    }// `tick` ""quote"" 'q'
	, x,
	trueish

    i8i8
    ,
    }MetaData
	T
{
MetaDataX

    i8i8`it's`  ,} // `tick` ""quote"" 'q'
")).
Eval vm_compute in ("<<<M4366>>>" ++ check (runes_of_ascii "packet Z9_ {
    repeat charz {
        match chars as T {
            // trailing space 
            ""// no comment"" : float,
            42 : string_,
        },// " ++ [128512]%N ++ runes_of_ascii " emoji
    },
    @calculatedFrom(""CRC32"")
    trueish @lengthOf(As) `" ++ [28040; 24687; 31867; 22411]%N ++ runes_of_ascii "`,
    @lengthOf(_x)
    falsey @lengthOf(zchar) `two words`,
    @lengthOf(x)
    string chars @lengthOf(int),
    f32 options1,
    @lengthOf(Pad)
    match len as leftPad {
        4294967296 : rootA,
        42 : Z9_,
    },
}

options {
    T = true
}

MetaData repeatCount {
    char[] string_ `" ++ [233]%N ++ runes_of_ascii "`,
    f64 Z9_,
    f32 _x,
}/// triple

packet chars {
    match trueish as asx {
        0123456789 : chars,
    },
    @tag(10)
    repeat rootA `" ++ [233]%N ++ runes_of_ascii "`,
    zchar[255] MetaDataX `doc`,
    u16 Header `" ++ [233]%N ++ runes_of_ascii "`,
    @leftPad(' ')
    match trueish as a1 {
        """ ++ [28040; 24687]%N ++ runes_of_ascii """ : As,
        1 : pack,
        1 : repeatCount,
        [7] : u,
    },
    @lengthOf(tag)
    u128 {
        int32 tag @lengthOf(u8x),
    },// trailing space 
    @lengthOf(u)
    @calculatedFrom(""a	b"")
    @tag(00)
    // c
    i64 calculatedFrom @lengthOf(calculatedFrom) `" ++ [28040; 24687; 31867; 22411]%N ++ runes_of_ascii "`,
}

packet pack {
    @calculatedFrom(""\n"")
    string i8i8 `line1
        line2`,
}")).
Eval vm_compute in ("<<<M3834>>>" ++ check (runes_of_ascii "

  packet  Logon {@leftPad
    ( '0'
    ) @calculatedFrom(	""CRC32""	) match  x_y_z
as calculatedFrom{

[
// trailing space 
  // " ++ [128512]%N ++ runes_of_ascii " emoji
65535,
10	] : 
asx 0

    :BodyLength ,

} 
      //
	// a // b

	,@lengthOf(
    metadata
)int16	leftPad,match

charz as i8i8  {
	[ 65535	// a // b
	  ]  :	repeatCount	,

    ""CRC32"": Packet 
,
""a\""b""
    :Z9_ 
,

    00 
:
falsey ,
7

    :

    falsey

    ,	}	, // " ++ [27880; 37322]%N ++ runes_of_ascii "
@lengthOf(  body	)
i32
i8i8  `two words` 
,
    @calculatedFrom( ""`tick`""  )
body	{

    zchar[0 
] BodyLength

    `doc`

, u `
` 
,}
	,  @tag( 0123456789

)

@leftPad (  '\x00' )

@calculatedFrom(""a	b""	)	match
As
	as x_y_z 
{	""" ++ [128512]%N ++ runes_of_ascii """  :
i64_
,	0123456789
:	Foo
,65535  :	matchKey ,

65535:
lengthOf
	4294967296  // a // b

	: f32a
, } 
,
zchar[0

]

string_ @lengthOf( packetx
)
`" ++ [233]%N ++ runes_of_ascii "`

, @calculatedFrom(""x y""
)
    BodyLength	{ 
char[	1

    ] 
int,
f32a ,

    repeat  Pad 
tag  `say ""hi""`  , 
} 
,
	//x
  zchar[
	    // `tick` ""quote"" 'q'

0
	]
Foo
	@calculatedFrom(
""// no comment"" )
, @tag(

00 
)
	u16 roots  `it's`	, 
} root

    packet
roots{  }

")).
Eval vm_compute in ("<<<M729>>>" ++ check (runes_of_ascii "
MetaData
charz{
zchar[  3 ]Z9_ ,u8 a1
    ,
repeatCount metadata ,
}options
// trailing space 
// @lengthOf(
{ u
=zchar[ 0123456789 ]; } //
options
    //
    { T = 1	;
    }
packet
_x { a1 @lengthOf(	falsey  ) ,
    @leftPad(
// packet A { u8 x, }
// trailing space 
'\x00'
) @leftPad ( '0' ) @leftPad //
( '0' ) repeat f32
Header
    `{ , }` ,@tag(
    3	) o { repeat
    //
    f32a {
    repeat //	t
string o , Pad
@lengthOf(stringy	)`u8 x,`, repeat zchar
A
    ,	repeat i8i8 ,
}
,
uint8x
    @lengthOf(zchar  )`two words` , match asx	as repeatCount { 255 :
    u128 , ""`tick`"" //	t
:calculatedFrom""\" ++ [233]%N ++ runes_of_ascii """ :
    zchar
    , 1 :f32a,
    4294967296:  u128 ,""// no comment""  :Pad,} ,} , @tag( 255
) // c
chars { As Z9_
    `u8 x,`,}
    ,  @leftPad	(
'\x00' )match uint8x as uint8x {""a\""b"": // " ++ [27880; 37322]%N ++ runes_of_ascii "
charz , } , len @lengthOf(	i8i8 ) ,}
    options { a1 =
//x
// trailing space 
1
pack = // " ++ [27880; 37322]%N ++ runes_of_ascii "
false /// triple
; // trailing space 
Z9_ =
// " ++ [27880; 37322]%N ++ runes_of_ascii "
// `tick` ""quote"" 'q'
' 'pack=
// packet A { u8 x, }
// trailing space 
0123456789 }
")).
Eval vm_compute in ("<<<M3518>>>" ++ check (runes_of_ascii "options {
    StringPrefixLenType = u8;
    ArrayPrefixLenType = u8;
    FixedStringPadFromLeft = true;
    FixedStringPadChar = ' ';
}
packet Logout {
    repeat string Px,
    repeat string seqNo,
    InMsgkind64 {
        uint16 OrderId,
        char[] count,
        repeat i32 venue,
    },
}
packet Heartbeat {
    float32 tag7,
    repeat InPrice50 {
        repeat char[5] lastPx,
        InRef42 {
            u8 pad0,
        },
        uint32 Acct,
        repeat Logout,
        repeat char[5] Qty,
    },
    repeat InSeqno30 {
        repeat Logout,
    },
    @leftPad('0') char[12] Acct,
    char[] Side2,
    repeat string msgKind,
}
packet Ack {
    Heartbeat,
    char[8] seqNo,
    float64 clOrdID,
}
packet Trade {
    char[] OrderId,
    f64 Side2,
    zchar[8] f1,
    string Qty,
    float64 seqNo,
    repeat Logout,
}
packet Order {
    f32 OrderId,
    repeat u8 x,
    Ack,
    zchar[7] Note,
}
root packet Logon {
    @rightPad('\x00') char[9] f1,
}
")).
Eval vm_compute in ("<<<M954>>>" ++ check (runes_of_ascii "
packet
    zchar{
repeat
    // trailing space 
    trueish _x,
    @calculatedFrom(
    ""\n"" )uint16  stringy `// not a comment`
    , @rightPad /// triple
( ' ' )
    body
    { leftPad	i8i8 ,	lengthOf {
// " ++ [128512]%N ++ runes_of_ascii " emoji
// " ++ [27880; 37322]%N ++ runes_of_ascii "
int64 asx `// not a comment` ,
leftPad {packetx @lengthOf(
MetaDataX
)
, } , i32
// trailing space 
//	t
o ,}
// c
/// triple
,
    }, f32 Z9_ `crlf
line` ,
    @calculatedFrom( ""abc""
)calculatedFrom charz,
repeat	zchar
//x
// `tick` ""quote"" 'q'
Z9_, match T as
o{	00 :
    calculatedFrom  ,
0123456789 : charz
,
    ""\" ++ [233]%N ++ runes_of_ascii """ :
    a1} , @lengthOf( A
) repeat
    len
, }root
packet Pad { }
    options
    { msg_type = ""\n"" // packet A { u8 x, }
trueish
    // trailing space 
    =int8
;
// " ++ [128512]%N ++ runes_of_ascii " emoji
// `tick` ""quote"" 'q'
repeatCount = ' ' u128 =  ""\" ++ [233]%N ++ runes_of_ascii """ ;  charz =
    char[
    // " ++ [128512]%N ++ runes_of_ascii " emoji
    007]	}	MetaData string_ {
    i64
    Foo
//
// packet A { u8 x, }
`say ""hi""`
    , chars calculatedFrom
//x
//x
,	}")).
Eval vm_compute in ("<<<M1219>>>" ++ check (runes_of_ascii "packet int// " ++ [128512]%N ++ runes_of_ascii " emoji
{@tag( 7 ) BodyLength { // @lengthOf(
float32 f32a	, char[ 255 ] u8x @lengthOf( Z9_)`line1
line2` ,
repeat char[
65535
    ]
// `tick` ""quote"" 'q'
// a // b
tag `" ++ [233]%N ++ runes_of_ascii "` ,
match Header//x
as  int {""" ++ [128512]%N ++ runes_of_ascii """
// trailing space 
//	t
://	t
body, [
""" ++ [233]%N ++ runes_of_ascii "t" ++ [233]%N ++ runes_of_ascii """  ,
    """ ++ [128512]%N ++ runes_of_ascii """ , ""packet"", 00 ,4294967296, 255
    ]: int	[ 0 ,""a	b"" ]
: Z9_ , [
65535// " ++ [128512]%N ++ runes_of_ascii " emoji
] : tag
,/// triple
""" ++ [233]%N ++ runes_of_ascii "t" ++ [233]%N ++ runes_of_ascii """:
    // `tick` ""quote"" 'q'
    options1
//
//x
}
,} ,
zchar[
255 ] MetaDataX@lengthOf(Z9_  ) `crlf
line`
, stringy
/// triple
// @lengthOf(
{ repeat	string A	, // packet A { u8 x, }
crc{ zchar[ 1 ]
    // c
    uint8x,
}
, uint16 Packet @calculatedFrom(
""a	b"" )
    ,	len @calculatedFrom(
    ""a	b""
    )
`two words` , } ,
zchar[ 255] As ``
,i16// `tick` ""quote"" 'q'
calculatedFrom ,
@tag( 42 // `tick` ""quote"" 'q'
)
repeat x_y_z `two words`
    // " ++ [128512]%N ++ runes_of_ascii " emoji
    , uint8 lengthOf , @tag(
0 )
u128, }
")).
Eval vm_compute in ("<<<M1394>>>" ++ check (runes_of_ascii "root packet
    // c
    stringy { match
    repeatCount as matchKey { ""a\\""
: // trailing space 
roots  ,} ,i8 o
`" ++ [233]%N ++ runes_of_ascii "`
, pack `" ++ [28040; 24687; 31867; 22411]%N ++ runes_of_ascii "`, u16  o , @tag(	0123456789 )zchar[  42	]
repeatCount
@calculatedFrom(
"""" ) ,
@leftPad( ' ' ) //
repeat Header
    {
match asx // " ++ [128512]%N ++ runes_of_ascii " emoji
as falsey {
""\n""
: asx  , 0
    : Z9_ ,
    // packet A { u8 x, }
    00
: repeatCount ,
7 // a // b
: a1 /// triple
,
    255 :A	,}
    ,match crc// @lengthOf(
as Foo
// trailing space 
//	t
{
    7 :
    // @lengthOf(
    packetx ,4294967296: lengthOf ,1
:
    pack , [
    007 ]: Z9_ ""\" ++ [233]%N ++ runes_of_ascii """	: trueish ,
} ,  int64
i64_
    // a // b
    @calculatedFrom( ""\" ++ [233]%N ++ runes_of_ascii """ ) , }// @lengthOf(
, repeat
int64
Foo ,@tag( 0123456789
) u16	u8x , char[3]
charz
    `" ++ [233]%N ++ runes_of_ascii "` ,} MetaData pack
    { //
string pack
// a // b
// c
, f32a
Packet ,
i64 u128 ,uint16 i8i8 , } // " ++ [128512]%N ++ runes_of_ascii " emoji")).
Eval vm_compute in ("<<<M846>>>" ++ check (runes_of_ascii "// " ++ [128512]%N ++ runes_of_ascii " emoji
options
{ }// a // b
packet/// triple
a1  {char[ 10]
//	t
// " ++ [128512]%N ++ runes_of_ascii " emoji
msg_type @calculatedFrom(
""packet"" )
    `u8 x,`
,	crc
{ float x
,repeat i32 MetaDataX,}
    , @calculatedFrom(
""// no comment"" )//x
repeat float
matchKey
`" ++ [233]%N ++ runes_of_ascii "` ,// `tick` ""quote"" 'q'
match	lengthOf
    as asx { [
    //x
    1,
    1
    ]
: x_y_z , }
,
    @lengthOf(
tag )
repeat f32 //x
A `tab	here` , @calculatedFrom(	""x y"" ) match
u128 as rootA { 3 : pack , [ ""CRC32"", ""1"" , ""CRC32"" , 7,
""`tick`"" ,
""a\\"" ,""{,}""
, 65535
] :	repeatCount ,
3 : f32a
,
007 : falsey ""// no comment"" :Header 00 :Foo,}
, repeat string falsey , @lengthOf( string_
)// a // b
stringy, @rightPad	( )@rightPad ( // c
' '
    ) @leftPad
// `tick` ""quote"" 'q'
// " ++ [128512]%N ++ runes_of_ascii " emoji
(
) repeatCount,	@rightPad ( ) // " ++ [27880; 37322]%N ++ runes_of_ascii "
repeat trueish	,}
// c
")).
Eval vm_compute in ("<<<M900>>>" ++ check (runes_of_ascii "// " ++ [128512]%N ++ runes_of_ascii " emoji
MetaData int {	As
options1 ,
char[
    // a // b
    42]  a1, int32 Foo
`// not a comment`, int32// trailing space 
float
    , zchar[4294967296] uint8x
// c
// `tick` ""quote"" 'q'
`// not a comment` ,	char[] Pad ,  }  root packet
MetaDataX { @tag( 1
    ) u128 { repeatCount	Packet
    , } , A
    , @lengthOf(u128 ) @leftPad
    ( )@leftPad ( '\x00' )repeat i16
    uint8x `u8 x,` ,
int16
float @calculatedFrom( ""abc""
) `" ++ [28040; 24687; 31867; 22411]%N ++ runes_of_ascii "`// packet A { u8 x, }
, body @lengthOf( _x )  , @leftPad	( '0')
    //x
    match roots
as Header // `tick` ""quote"" 'q'
{""{,}""
:Packet , 0123456789
:
pack  00 : matchKey[ """ ++ [28040; 24687]%N ++ runes_of_ascii """
    ,
4294967296  ] : string_
    ,
    } , }  packet
    charz{// trailing space 
char[ 00
    ]u8x , i32 chars ,
}
packet matchKey
    { }")).
Eval vm_compute in ("<<<M3861>>>" ++ check (runes_of_ascii "options
	{ StringPrefixLenType 
= 
u16 ;

    ArrayPrefixLenType

    =
    u32

    ;
	FixedStringPadFromLeft
	=
false;
FixedStringPadChar	=
    '0' ;}
	packet
Logout

{
f64  f1
	,

i16 Note , @rightPad
	(
'\x00'
)  char[11 ] 
Flags , } packet Cancel{	float64 msgKind,	}

packet

Reject
{
	InQty43{ 
float32  sym ,
    char[  10]  Tail

    ,uint8 venue
,	uint16
f1 
, 
char[ 9
]Acct
, } 
, } packet
Trade
	{

char[]x
,zchar[
6
	]	Note
	,  repeat
	Reject , 
}

root
    packet

    Order
{
    Cancel

,	Logout ,
    u64 
Acct ,
u32	OrderId, match

OrderId

    as
Body {
    [
127 ,70 ] : Reject ,  177
: Trade
,
58 : Logout
,
75

    :
    Cancel
, }
,u32

    Tail  @calculatedFrom( ""CRC32""

)

,}
")).
Eval vm_compute in ("<<<M3608>>>" ++ check (runes_of_ascii "packet Z9_ {
    repeat options1 {
        repeat i16 o `two words`,
        match charz as o {
            [4294967296, ""// no comment""] : u,
        },
        match float as tag {
            [00] : leftPad,
            [
                """ ++ [233]%N ++ runes_of_ascii "t" ++ [233]%N ++ runes_of_ascii """, ""\n"", 0, ""CRC32"", 1,
                """ ++ [28040; 24687]%N ++ runes_of_ascii """, 255, 1
            ] : options1,
            255 : x,
            00 : x,
        },
        repeat string asx `u8 x,`,
    },
    // " ++ [27880; 37322]%N ++ runes_of_ascii "
    // a // b
    zchar[3] falsey,
}

packet u {
    //x
    // trailing space 
    zchar[0] asx,
    @tag(10)
    @rightPad(' ')
    @rightPad('\x00')
    Logon @calculatedFrom(""" ++ [128512]%N ++ runes_of_ascii """),
    repeat char[255] calculatedFrom,
    uint16 lengthOf,
}

root packet pack {
}")).
Eval vm_compute in ("<<<M1134>>>" ++ check (runes_of_ascii "packet	MetaDataX
    { T@lengthOf(
//x
// a // b
trueish )
`` , @rightPad( ' '
) repeat options1 // @lengthOf(
A /// triple
`" ++ [233]%N ++ runes_of_ascii "` //x
,options1 @lengthOf( lengthOf
)
    // `tick` ""quote"" 'q'
    `u8 x,`  , } root packet As {repeat Logon `
` , @calculatedFrom( """ ++ [28040; 24687]%N ++ runes_of_ascii """  )// packet A { u8 x, }
zchar[ 3 ] T ,match Foo as u{[
""`tick`"" ]
// `tick` ""quote"" 'q'
// @lengthOf(
: As ,}
    , } packet//	t
charz
    {
@lengthOf( u ) match charz // @lengthOf(
as zchar
{ [
//	t
// @lengthOf(
""" ++ [128512]%N ++ runes_of_ascii """,
""packet""
]:
    crc [ 7
, 10
    ,	7  , 3 // packet A { u8 x, }
,4294967296
    // trailing space 
    ,
""a\\"" ] : string_ , [3  ]:
    As 10 : uint8x,	65535: matchKey, }
    , }")).
Eval vm_compute in ("<<<M1261>>>" ++ check (runes_of_ascii "MetaData o  {
    } packet leftPad{ charz
{ match u as repeatCount{[
    1]
:	x_y_z , 00
: matchKey// c
[""\" ++ [233]%N ++ runes_of_ascii """ , 7 ,""abc"" ,""`tick`"" ]
: MetaDataX
    // packet A { u8 x, }
    ,
    65535:
    o , ""abc""
: matchKey ,
} , } ,
    // trailing space 
    len
`say ""hi""` , // @lengthOf(
@rightPad (
    ' ' ) char[	00] Pad , }packet Pad{
@leftPad ( // @lengthOf(
'\x00' )u128@calculatedFrom( ""a\\"" ) , @rightPad	('\x00'
    )@rightPad
( )
    @calculatedFrom( ""a\""b"" )
    // trailing space 
    Z9_ metadata``
    , @calculatedFrom(
""x y""  ) tag @lengthOf(matchKey) , repeat zchar //
{
    uint8x u, } ,
    // `tick` ""quote"" 'q'
    }")).
Eval vm_compute in ("<<<M3561>>>" ++ check (runes_of_ascii "options { // c1a
  // c1b
LittleEndian // c2a
  // c2b
= // c3a
  // c3b
true // c4
; } // c6
packet Logon // c8a
  // c8b
{ u8 // c10
x , string // c13
user
    // c14
,
    // c15
} // c16
packet // c17a
  // c17b
Logout // c18
{ // c19a
  // c19b
u16 // c20
reason , } // c23
packet // c24a
  // c24b
Empty { // c26
} root packet Frame // c30
{ // c31
u16
    // c32
MsgType , @lengthOf( // c35
Body ) // c37a
  // c37b
u8 BodyLen // c39
, // c40
u8 // c41a
  // c41b
flags // c42a
  // c42b
, // c43
Logon
    // c44
Body
    // c45
, u32 // c47
trailer // c48a
  // c48b
,
    // c49
} // c50a
  // c50b
")).
Eval vm_compute in ("<<<M3876>>>" ++ check (runes_of_ascii "MetaData zchar {
}

packet Packet {
    u16 x @calculatedFrom(""" ++ [28040; 24687]%N ++ runes_of_ascii """) ``,
    // " ++ [128512]%N ++ runes_of_ascii " emoji
    @tag(7)
    @tag(00)
    Packet u128,
    @lengthOf(float)
    match A as charz {
        00 : x,
        [0, 255, ""it's"", 10] : Packet,
        ""a\\"" : metadata,
        [""`tick`"", 10] : chars,
        [""a\""b""] : trueish,
    },
    uint64 string_,
    @rightPad(' ')
    float64 stringy `line1
    line2`,
    @tag(00)
    uint16 As,
}//	t

options {
    Logon = false;
    // a // b
    body = f64;
}

MetaData asx {
}

packet leftPad {
    float @lengthOf(A) `a\`,
}
// " ++ [27880; 37322]%N)).
Eval vm_compute in ("<<<M3672>>>" ++ check (runes_of_ascii "
root	/// triple
    packet//	t
  	options1
{

float64
u128 
`" ++ [28040; 24687; 31867; 22411]%N ++ runes_of_ascii "`	// a // b

	,@tag( 
0
	) //	t
  match 
int as
float {4294967296  //
  : metadata
,

    ""a\\""

    : x 	 // packet A { u8 x, }
    ,
3
    :	u 
  // packet A { u8 x, }
	,
    // c
    	// " ++ [128512]%N ++ runes_of_ascii " emoji
0
:falsey

    }	,
}
options 
    // @lengthOf(

//x

{ As 
    // " ++ [128512]%N ++ runes_of_ascii " emoji
	//
    =
    // a // b
// `tick` ""quote"" 'q'
  	float64
    ;
        //	t

	//	t
Logon	=
""// no comment""
    ; float
	=  char[255

]
	string_
= 007
	;

    u
=
	'\x00'  }
")).
Eval vm_compute in ("<<<M549>>>" ++ check (runes_of_ascii "packet int	{ @lengthOf( body
) @leftPad
    // @lengthOf(
    ( )@lengthOf( pack ) u32 o , int32
// c
// packet A { u8 x, }
u8x
    , @calculatedFrom(""a\\"" // @lengthOf(
)x
chars	,//	t
@tag( 65535) charz
{  msg_type u128 , } ,Pad charz ,repeat len { zchar[ 0
] roots `doc`, char[ 7
    ] o `a\` ,
repeat int64 pack
    ,
} ,  @rightPad	( ' ' // c
) repeat
options1	{
    /// triple
    zchar[ 3 ] Foo ,
char[
    7 ]
x_y_z
    @calculatedFrom(
/// triple
//	t
""a\""b"" ) ,
repeat
packetx , }//x
, }
")).
Eval vm_compute in ("<<<M3680>>>" ++ check (runes_of_ascii "packet i64_ {
}

packet crc {
}

options {
}

root packet charz {
}

packet trueish {
    repeat char[255] lengthOf `" ++ [28040; 24687; 31867; 22411]%N ++ runes_of_ascii "`,
    zchar[00] x `it's`,/// triple
    repeat char[] Packet `say ""hi""`,
    @calculatedFrom(""x y"")
    char[1] lengthOf,
    lengthOf `crlf
        line`,
    match charz as MetaDataX {
        ""a	b"" : uint8x,
        ""\n"" : calculatedFrom,
    },
    @tag(10)
    float64 i8i8 @calculatedFrom(""" ++ [128512]%N ++ runes_of_ascii """) `say ""hi""`,
    @rightPad('\x00')
    i32 Foo `it's`,
}")).
Eval vm_compute in ("<<<M179>>>" ++ check (runes_of_ascii "  packet
    body
//x
/// triple
{ } packet Foo {int @lengthOf( x
    ) , float32 len
    `" ++ [28040; 24687; 31867; 22411]%N ++ runes_of_ascii "`, repeat f32a Packet ,	i8 // @lengthOf(
stringy
/// triple
// trailing space 
@calculatedFrom(""// no comment"" )
`line1
line2`
    ,
@tag( 0
    // a // b
    ) match  u
    as
    falsey
    //
    { [ 10 , 3, ""`tick`"" , 42	, 3// `tick` ""quote"" 'q'
]
    : Pad  ,
7 : repeatCount// c
, 0 :
    Foo}, }MetaData Packet { string// c
u , }options { uint8x = true
; }
")).
Eval vm_compute in ("<<<M1130>>>" ++ check (runes_of_ascii "packet
matchKey
{
    repeat matchKey,	@rightPad(
)uint64 i64_ @calculatedFrom(""1"" )`crlf
line`
// trailing space 
//	t
, repeat	crc crc, // c
roots
// " ++ [27880; 37322]%N ++ runes_of_ascii "
// packet A { u8 x, }
{ string lengthOf `doc` , }
, i16	pack , Foo , u128 { repeat
uint8 T ,} ,
string	Packet ,  uint64
f32a
@calculatedFrom( ""\" ++ [233]%N ++ runes_of_ascii """ ) , repeat
    T{
u64 roots@calculatedFrom( ""CRC32"" ) `// not a comment` ,
    int16 msg_type ,stringy trueish  , repeat
    T
float
, } , }")).
Eval vm_compute in ("<<<M369>>>" ++ check (runes_of_ascii "
MetaData
// packet A { u8 x, }
// @lengthOf(
calculatedFrom {  zchar[
    3 ] u8x
, i32 o
,
    zchar[42
//x
// @lengthOf(
]
leftPad ,roots u
//x
//
, }
packet
    trueish{ @leftPad
    ( )asx
    //	t
    @lengthOf(
i8i8
) ,
    @rightPad ( '\x00' )tag
@lengthOf( Packet ) , Pad
    // `tick` ""quote"" 'q'
    options1 `doc` ,	@lengthOf(
Header) match Z9_
// c
/// triple
as zchar
{ 4294967296 : o ,
    } ,  } /// triple")).
Eval vm_compute in ("<<<M3287>>>" ++ check (runes_of_ascii "// top
packet
    // c0
u128
    // c1
{
    // c2
@lengthOf(
    // c3
body
    // c4
)
    // c5
match
    // c6
x_y_z
    // c7
as
    // c8
u
    // c9
{
    // c10
""x y""
    // c11
:
    // c12
i8i8
    // c13
,
    // c14
}
    // c15
,
    // c16
@tag(
    // c17
255
    // c18
)
    // c19
char[]
    // c20
roots
    // c21
@lengthOf(
    // c22
int
    // c23
)
    // c24
,
    // c25
}
    // c26
")).
Eval vm_compute in ("<<<M298>>>" ++ check (runes_of_ascii "// a // b
packet int  { //	t
pack
    // trailing space 
    @lengthOf(// " ++ [27880; 37322]%N ++ runes_of_ascii "
leftPad
// @lengthOf(
// c
),
u128 MetaDataX,	char[] charz
    // a // b
    @calculatedFrom(
""\" ++ [233]%N ++ runes_of_ascii """ ) ,calculatedFrom{
float
BodyLength,
}
, @calculatedFrom(
""" ++ [233]%N ++ runes_of_ascii "t" ++ [233]%N ++ runes_of_ascii """
    )  @lengthOf( MetaDataX) match Logon //
as  i64_{  [0 ,255 , 10, 7
    // `tick` ""quote"" 'q'
    , 0123456789 ]
    :  asx // " ++ [128512]%N ++ runes_of_ascii " emoji
}
,
    }")).
Eval vm_compute in ("<<<M1354>>>" ++ check (runes_of_ascii "root
packet i8i8 {repeat
x float
, @rightPad // c
( '\x00'
)As {
    matchKey `two words` , zchar[ 255// c
]
x
`line1
line2` ,} ,// c
}packet metadata {
    } packet
    A{ char[
65535]
    crc , u64 trueish
    // `tick` ""quote"" 'q'
    @lengthOf( o
)
,@calculatedFrom( ""// no comment""
) falsey
@lengthOf(A  )
,//x
@calculatedFrom(
""CRC32"" ) u8
    matchKey`tab	here` ,}
")).
Eval vm_compute in ("<<<M505>>>" ++ check (runes_of_ascii "root packet len{
@lengthOf( matchKey ) repeat	repeatCount { repeat falsey ,  float64 Z9_
    , repeat
    i8i8 {
i8i8 matchKey, // a // b
} ,
} ,
    } packet
    //	t
    Z9_{	@calculatedFrom(
    ""a	b""
)match Z9_ as Packet { ""it's"" : lengthOf ,} ,
// " ++ [27880; 37322]%N ++ runes_of_ascii "
//
} MetaData msg_type {
    crc roots
    // packet A { u8 x, }
    ,
uint8
BodyLength , }
// " ++ [128512]%N ++ runes_of_ascii " emoji
")).
Eval vm_compute in ("<<<M3789>>>" ++ check (runes_of_ascii "packet 	 // a // b
	  i64_
	{
repeat
	int64
asx

`line1
line2`
,}	options { 
    // trailing space 
chars = 
255

    ;

    tag = 
// c
  3;matchKey
    =  0123456789 
} MetaData
packetx	{
	charz BodyLength
, 	 //x
  MetaDataX _x 
`two words`,	MetaDataX 
BodyLength, 
float32 f32a
`line1
line2`,zchar[
0
    ]

    stringy,

    }")).
Eval vm_compute in ("<<<M659>>>" ++ check (runes_of_ascii "packet lengthOf { repeat options1
A
,repeatCount @calculatedFrom(
    """ ++ [128512]%N ++ runes_of_ascii """ )`two words`,i64 _x `{ , }` ,
string
_x
@lengthOf( Pad  ) , match
body // " ++ [27880; 37322]%N ++ runes_of_ascii "
as u128 {1 : f32a, } , @lengthOf( /// triple
MetaDataX  )
    float64 _x,} packet calculatedFrom {
i16 rootA ,}
//x
// c
MetaData
repeatCount
    {} options {o
    = 1 }
")).
Eval vm_compute in ("<<<M3914>>>" ++ check (runes_of_ascii "  options	{
	LittleEndian
    =
    true
;
ArrayPrefixLenType
    =

u64
;FixedStringPadFromLeft
    =

false

;  }
    packet Quote { 
}root packet	Order

    { i64 Side2,

    Quote  ,	u32
Px	,	match 
Px as
Body{
    [
	119
	,
    147

]
    :	Quote 
,	} 
,u16	Flags 
@calculatedFrom(

    ""CR\
C32"" ),
	}

")).
Eval vm_compute in ("<<<M3557>>>" ++ check (runes_of_ascii "options {
    LittleEndian = true;
}
packet Logon {
    u8 x,
}
packet Logout {
    u16 reason,
}
root packet Frame {
    i32 Kind,
    i32 Kind2,
    match Kind as Body {
        1 : Logon,
        [2, 3, 4] : Logout,
        100 : Logon,
    },
    match Kind2 as Trailer {
        0 : Logout,
    },
}
")).
Eval vm_compute in ("<<<M3630>>>" ++ check (runes_of_ascii "packet metadata {
    char[0] Z9_ `line1
    line2`,
}

root packet chars {
    /// triple
    // @lengthOf(
    As {
        zchar[3] BodyLength @calculatedFrom(""it's"") `line1
        line2`,
    },
}

packet o {
    @rightPad('\x00')
    string f32a @calculatedFrom(""it's"") `// not a comment`,
}")).
Eval vm_compute in ("<<<M1440>>>" ++ check (runes_of_ascii "root packet Foo // " ++ [128512]%N ++ runes_of_ascii " emoji
{ } options { {
    // a // b
    tag // `tick` ""quote"" 'q'
= //	t
""""
    ; u8x = zchar[0  ] }
MetaData
    int {zchar[ 10]
lengthOf	`` , i64 u8x`// not a comment` ,MetaDataX pack// `tick` ""quote"" 'q'
`crlf
line`
, Logon charz `crlf
line`
    ,
    // a // b
    }
")).
Eval vm_compute in ("<<<M1618>>>" ++ check (runes_of_ascii "root packet Foo // " ++ [128512]%N ++ runes_of_ascii " emoji
{ } options {
    // a // b
    tag // `tick` ""quote"" 'q'
= //	t
""""
    ; u8x = zchar[0  ] }
MetaData
    int {zchar[ 10]
lengthOf	`` , i64 u8x`// not a comment` ,MetaDataX pack// `tick` ""quote"" 'q'
`crlf
line`
, " ++ [233]%N ++ runes_of_ascii "Logon charz `crlf
line`
    ,
    // a // b
    }
")).
Eval vm_compute in ("<<<M1546>>>" ++ check (runes_of_ascii "root packet Foo // " ++ [128512]%N ++ runes_of_ascii " emoji
{ } options {
    // a // b
    tag // `tick` ""quote"" 'q'
= //	t
""""
    ; u8x = zchar[0  ] }
MetaData
    int {zchar[ 10]
lengthOf	`` , i64 `// not a comment`u8x ,MetaDataX pack// `tick` ""quote"" 'q'
`crlf
line`
, Logon charz `crlf
line`
    ,
    // a // b
    }
")).
Eval vm_compute in ("<<<M1594>>>" ++ check (runes_of_ascii "root packet Foo // " ++ [128512]%N ++ runes_of_ascii " emoji
{ } options {
    // a // b
    tag // `tick` ""quote"" 'q'
= //	t
""""
    ; u8x = zchar[0  ] }
MetaData
    int {zchar[ 10]
lengthOf	`` , i64 u8x`// not a comment` ,MetaDataX pack// `tick` ""quote"" 'q'
`crlf
line`
, Logon charz `crlf
line`
    
    // a // b
    }
")).
Eval vm_compute in ("<<<M3729>>>" ++ check (runes_of_ascii "options {
    calculatedFrom = i32;// @lengthOf(
    string_ = 7
    uint8x = true;
}

packet chars {
    string stringy @lengthOf(stringy),
}

options {
    lengthOf = '\x00'
    // c
    /// triple
    matchKey = '0';
    Z9_ = string;
    calculatedFrom = true;
    metadata = ""a	b"";
}")).
Eval vm_compute in ("<<<M1589>>>" ++ check (runes_of_ascii "root packet Foo // " ++ [128512]%N ++ runes_of_ascii " emoji
{ } options {
    // a // b
    tag // `tick` ""quote"" 'q'
= //	t
""""
    ; u8x = zchar[0  ] }
MetaData
    int {zchar[ 10]
lengthOf	`` , i64 u8x`// not a comment` ,MetaDataX pack// `tick` ""quote"" 'q'
`crlf
line`
, Logon charz 
    ,
    // a // b
    }
")).
Eval vm_compute in ("<<<M1265>>>" ++ check (runes_of_ascii "root packet metadata {// packet A { u8 x, }
@tag(
    7)
@rightPad (
'0')
match
o as
asx {
// packet A { u8 x, }
// packet A { u8 x, }
[ 65535/// triple
, ""a	b""] :tag , 0 :
// c
// " ++ [128512]%N ++ runes_of_ascii " emoji
matchKey ,  4294967296:o// `tick` ""quote"" 'q'
, ""it's"": /// triple
_x	,}	, }
")).
Eval vm_compute in ("<<<M951>>>" ++ check (runes_of_ascii "root packet
    pack {
body ,
char[
10
]	options1 ,	@tag( 007 )
    //	t
    @rightPad ( )@calculatedFrom( ""\n""
)
    // " ++ [128512]%N ++ runes_of_ascii " emoji
    char[] tag
    , repeat char[] Header  `` , asx {
    repeat u8x
    { repeat	u8 x_y_z , }// c
, }
,
}MetaData pack { }
")).
Eval vm_compute in ("<<<M1588>>>" ++ check (runes_of_ascii "root packet Foo // " ++ [128512]%N ++ runes_of_ascii " emoji
{ } options {
    // a // b
    tag // `tick` ""quote"" 'q'
= //	t
""""
    ; u8x = zchar[0  ] }
MetaData
    int {zchar[ 10]
lengthOf	`` , i64 u8x`// not a comment` ,MetaDataX pack// `tick` ""quote"" 'q'
`crlf
line`
, Logon")).
Eval vm_compute in ("<<<M4015>>>" ++ check (runes_of_ascii "packet  Logon {

    @lengthOf(
    Pad) 
int{

match
matchKey as
Pad  { ""CRC32""
    :
body

, }

,len
	    // `tick` ""quote"" 'q'

  @lengthOf(	// `tick` ""quote"" 'q'
    	chars
)
    /// triple
,
    float@lengthOf(
Foo 
)
	, }
	,	}")).
Eval vm_compute in ("<<<M3503>>>" ++ check (runes_of_ascii "packet
Logon { string
user
	,

    }

    root
packet
Frame

{
u8	K 
,
	match
K	as  Body{

    1
	:Logon  ,2 
:  Logout

,
}

, 
Tail,}
	packet
	Logout	{
    u16
    reason,
    }
packet Tail	{

u32

    crc

, } ")).
Eval vm_compute in ("<<<M2281>>>" ++ check (runes_of_ascii "MetaData Packet { }packet	asx  { @lengthOf( asx) falsey`crlf
line`
,
    }
    packet packet x	{uint32// @lengthOf(
rootA	,u32 options1 `say ""hi""` , @tag( 7
    )// packet A { u8 x, }
msg_type @lengthOf(
stringy	)	, }

")).
Eval vm_compute in ("<<<M2226>>>" ++ check (runes_of_ascii "MetaData Packet { } }packet	asx  { @lengthOf( asx) falsey`crlf
line`
,
    }
    packet x	{uint32// @lengthOf(
rootA	,u32 options1 `say ""hi""` , @tag( 7
    )// packet A { u8 x, }
msg_type @lengthOf(
stringy	)	, }

")).
Eval vm_compute in ("<<<M2388>>>" ++ check (runes_of_ascii "MetaData Packet { }packet	asx  { @lengthO" ++ [8232]%N ++ runes_of_ascii "f( asx) falsey`crlf
line`
,
    }
    packet x	{uint32// @lengthOf(
rootA	,u32 options1 `say ""hi""` , @tag( 7
    )// packet A { u8 x, }
msg_type @lengthOf(
stringy	)	, }

")).
Eval vm_compute in ("<<<M2347>>>" ++ check (runes_of_ascii "MetaData Packet { }packet	asx  { @lengthOf( asx) falsey`crlf
line`
,
    }
    packet x	{uint32// @lengthOf(
rootA	,u32 options1 `say ""hi""` , @tag( 7
    )// packet A { u8 x, }
@lengthOf( msg_type
stringy	)	, }

")).
Eval vm_compute in ("<<<M686>>>" ++ check (runes_of_ascii "// " ++ [27880; 37322]%N ++ runes_of_ascii "
MetaData T{char[// @lengthOf(
3 ] stringy`a\`
,
char[
/// triple
//x
007 ] u // trailing space 
`u8 x,` ,  char[]
    int //x
`" ++ [28040; 24687; 31867; 22411]%N ++ runes_of_ascii "`,	zchar[
// " ++ [128512]%N ++ runes_of_ascii " emoji
// a // b
4294967296 ] leftPad
, char[]
uint8x , }

")).
Eval vm_compute in ("<<<M173>>>" ++ check (runes_of_ascii "//
packet
    u { }
    packet
    u8x { }options  {
    Logon =string ; calculatedFrom ='\x00'
;
BodyLength// " ++ [27880; 37322]%N ++ runes_of_ascii "
= 1; //	t
_x// " ++ [27880; 37322]%N ++ runes_of_ascii "
=""CRC32""; } root
/// triple
// " ++ [27880; 37322]%N ++ runes_of_ascii "
packet Z9_ {
}
    MetaData chars  {
}
")).
Eval vm_compute in ("<<<M699>>>" ++ check (runes_of_ascii "packet
    Header { @calculatedFrom(""a	b"" ) match u128
    /// triple
    as // trailing space 
A
    { 42// " ++ [128512]%N ++ runes_of_ascii " emoji
: Header [ 3 ,
// trailing space 
// " ++ [27880; 37322]%N ++ runes_of_ascii "
""packet"" , ""x y"" , ""a	b""
    ]: zchar , },
}")).
Eval vm_compute in ("<<<M1309>>>" ++ check (runes_of_ascii "MetaData  asx { /// triple
uint16 //
leftPad , char[ 4294967296 ] matchKey	`
` ,
// @lengthOf(
/// triple
u32 options1 , zchar[ // @lengthOf(
0 ] falsey
`it's`
, char leftPad
    `u8 x,` , }
")).
Eval vm_compute in ("<<<M2354>>>" ++ check (runes_of_ascii "MetaData Packet { }packet	asx  { @lengthOf( asx) falsey`crlf
line`
,
    }
    packet x	{uint32// @lengthOf(
rootA	,u32 options1 `say ""hi""` , @tag( 7
    )// packet A { u8 x, }
msg_type")).
Eval vm_compute in ("<<<M494>>>" ++ check (runes_of_ascii "packet u128
{
} MetaData
    int {int16 crc//	t
,
    uint32 Pad,}packet string_ {} packet// @lengthOf(
BodyLength {	msg_type	leftPad `a\` , }
options{ tag = false charz = 3
; }
")).
Eval vm_compute in ("<<<M1553>>>" ++ check (runes_of_ascii "root packet Foo // " ++ [128512]%N ++ runes_of_ascii " emoji
{ } options {
    // a // b
    tag // `tick` ""quote"" 'q'
= //	t
""""
    ; u8x = zchar[0  ] }
MetaData
    int {zchar[ 10]
lengthOf	`` , i64 u8x")).
Eval vm_compute in ("<<<M693>>>" ++ check (runes_of_ascii "
options
    {a1
=char[ 1]// " ++ [27880; 37322]%N ++ runes_of_ascii "
; x=f64; Z9_ =
//x
//
char[
3 ]
; Z9_= '\x00' x_y_z
    = zchar[ 10 ]
; }
    packet x_y_z { chars trueish `it's`
// " ++ [128512]%N ++ runes_of_ascii " emoji
//x
, }")).
Eval vm_compute in ("<<<M4100>>>" ++ check (runes_of_ascii "

  packet 
crc	{@lengthOf(

/// triple
calculatedFrom 
	    /// triple
      ) i64_ {	uint64 
_x,} 
,@rightPad  (

'0')

uint8x,
	// packet A { u8 x, }
	}")).
Eval vm_compute in ("<<<M3474>>>" ++ check (runes_of_ascii "packet A {
    u8 a,
}
packet B {
    u16 b,
}
root packet P {
    u8 K,
    match K as M {
        [1, 2] : A,
        3 : B,
        7 : A,
    },
}
")).
Eval vm_compute in ("<<<M1296>>>" ++ check (runes_of_ascii "packet
    u128 { u128  @lengthOf( matchKey
)
,	u64 //x
crc	`a\`
,@calculatedFrom(
""x y"" )
float32 zchar  ,
repeat char[007 ] uint8x ,
a1
, }
")).
Eval vm_compute in ("<<<M3752>>>" ++ check (runes_of_ascii "packet A {
    match k as n {
        [
            1, ""bb"", 007, ""d"", 5,
            ""f"", 7, ""h"", 9
        ] : B,
        2 : C,
    },
}")).
Eval vm_compute in ("<<<M1230>>>" ++ check (runes_of_ascii "packet Z9_ { match leftPad as options1{
65535
    : //	t
matchKey ,
    // packet A { u8 x, }
    } , T
//x
// `tick` ""quote"" 'q'
,}

")).
Eval vm_compute in ("<<<M3963>>>" ++ check (runes_of_ascii "// top
packet Inner {
    // c2a
    // c2b
    u8 a,
}

root packet P {
    // c10
    Inner ref_obj,
    u8 x,
    // c16
}
// c17")).
Eval vm_compute in ("<<<M4334>>>" ++ check (runes_of_ascii "options {
    // c
    stringy = ""1"";
    float = i64;// a // b
    calculatedFrom = ""it's"";// c
    Z9_ = ""// no comment"";// " ++ [27880; 37322]%N ++ runes_of_ascii "
}")).
Eval vm_compute in ("<<<M1710>>>" ++ check (runes_of_ascii "root packet /// triple
rootA {	i32
MetaDataX@calculatedFrom( ""CRC32"" ) `line1
line2` , } MetaData BodyLength {
u8
rootA( } // c")).
Eval vm_compute in ("<<<M1642>>>" ++ check (runes_of_ascii "root packet /// triple
rootA {	
MetaDataX@calculatedFrom( ""CRC32"" ) `line1
line2` , } MetaData BodyLength {
u8
rootA, } // c")).
Eval vm_compute in ("<<<M1702>>>" ++ check (runes_of_ascii "root packet /// triple
rootA {	i32
MetaDataX@calculatedFrom( ""CRC32"" ) `line1
line2` , } MetaData BodyLength {
u8
, } // c")).
Eval vm_compute in ("<<<M2319>>>" ++ check (runes_of_ascii "MetaData Packet { }packet	asx  { @lengthOf( asx) falsey`crlf
line`
,
    }
    packet x	{uint32// @lengthOf(
rootA	,u32")).
Eval vm_compute in ("<<<M1861>>>" ++ check (runes_of_ascii "packet
    Pad // a // b
{ i8i8 @calculatedFrom( ""a	b"") `u8 x,` ,
} options{ float// " ++ [128512]%N ++ runes_of_ascii " emoji
= f64 i64_
= =//	t
00 }
")).
Eval vm_compute in ("<<<M4079>>>" ++ check (runes_of_ascii "
packet
	Pad{

}	packet
	options1{ 	 // trailing space 
	}  
  // @lengthOf(

root packet crc {
repeat	crc 
len ,	} ")).
Eval vm_compute in ("<<<M241>>>" ++ check (runes_of_ascii "packet Pad {}packet
    options1{// trailing space 
}
    // @lengthOf(
    root
packet
crc
{
    repeat crc len , }")).
Eval vm_compute in ("<<<M75>>>" ++ check (runes_of_ascii "options { pack =0 } MetaData int{ char[	00
    ]
    T
    `crlf
line` ,  i8 string_
,//	t
int16
matchKey , }
")).
Eval vm_compute in ("<<<M4295>>>" ++ check (runes_of_ascii "
packet	Logon{ @tag(  42// c
  )
@rightPad
    (
' '
) @leftPad ( 
)
repeat	trueish { string	T  ,
} ,	}
")).
Eval vm_compute in ("<<<M1391>>>" ++ check (runes_of_ascii "options
{
x_y_z =
    uint32 asx = float64 body  = '0'
u = '\x00' ; Header = '0'
;  }
    options { } // " ++ [27880; 37322]%N)).
Eval vm_compute in ("<<<M3034>>>" ++ check (runes_of_ascii "packet A {
    u16 len @lengthOf(body) `x
`,
    u32 crc @calculatedFrom(""CRC32"") `x
`,
    string body,
}")).
Eval vm_compute in ("<<<M1275>>>" ++ check (runes_of_ascii "root
packet  len{ @rightPad (
    ' ' ) @tag(0 ) int16 msg_type `{ , }` ,
}
packet
    leftPad
    {	}
")).
Eval vm_compute in ("<<<M3365>>>" ++ check (runes_of_ascii "packet calculatedFrom { @tag( 4294967296 ) u msg_type , char[ 3 ] crc @lengthOf( // c
len ) `u8 x,` , }")).
Eval vm_compute in ("<<<M3862>>>" ++ check (runes_of_ascii "  packet orderItem{
    u8

    a

    , }
root
	packet
	newOrder{

    orderItem
, u8 
x , }
")).
Eval vm_compute in ("<<<M969>>>" ++ check (runes_of_ascii "packet charz { // trailing space 
@tag(255	) @calculatedFrom(""packet"" ) u32 repeatCount	,// c
}
")).
Eval vm_compute in ("<<<M777>>>" ++ check (runes_of_ascii "
options
    {	matchKey =
0 BodyLength =
uint64 ; pack  = ""1"" ;
    f32a = i64 Foo=
    ""a	b"" }")).
Eval vm_compute in ("<<<M3241>>>" ++ check (runes_of_ascii "packet Logon { @tag( 42 ) @rightPad ( ' ' ) @leftPad ( )
// c
repeat trueish { string T , } , }")).
Eval vm_compute in ("<<<M1878>>>" ++ check (runes_of_ascii "packet
    Pad // a // b
{ i8i8 @calculatedFrom( ""a	b"") `u8 x,` ,
} options{ float// " ++ [128512]%N ++ runes_of_ascii " emoji")).
Eval vm_compute in ("<<<M3599>>>" ++ check (runes_of_ascii "packet o {
    @tag(42)
    repeat x {
        char[0123456789] i64_,
    },
}

options {
}")).
Eval vm_compute in ("<<<M3658>>>" ++ check (runes_of_ascii "packet A {
    match k as n {
        [1, ""bb"", 007, ""d"", 5] : B,
        2 : C,
    },
}")).
Eval vm_compute in ("<<<M3584>>>" ++ check (runes_of_ascii "  packet
	trueish 

    //x
    {@calculatedFrom(

    ""abc""  )body
	`tab	here`
	,}

")).
Eval vm_compute in ("<<<M1960>>>" ++ check (runes_of_ascii "packet
root crc
    { f32a @calculatedFrom( """ ++ [233]%N ++ runes_of_ascii "t" ++ [233]%N ++ runes_of_ascii """ )
    `say ""hi""`, lengthOf `` ,  }")).
Eval vm_compute in ("<<<M2045>>>" ++ check (runes_of_ascii "root
packet crc
    { a" ++ [769]%N ++ runes_of_ascii "b @calculatedFrom( """ ++ [233]%N ++ runes_of_ascii "t" ++ [233]%N ++ runes_of_ascii """ )
    `say ""hi""`, lengthOf `` ,  }")).
Eval vm_compute in ("<<<M2932>>>" ++ check (runes_of_ascii "packet A {
  match k as n {
    [1, 22, ""c c"", 4, 5, ""f"", 7] : B,
    2 : C
  },
}")).
Eval vm_compute in ("<<<M3308>>>" ++ check (runes_of_ascii "packet o { @tag( 42 ) repeat x // c
{ char[ 0123456789 ] i64_ , } , } options { }")).
Eval vm_compute in ("<<<M856>>>" ++ check (runes_of_ascii "MetaData
    uint8x{ // " ++ [27880; 37322]%N ++ runes_of_ascii "
packetx body
`// not a comment`, zchar[ 7 ]rootA , }")).
Eval vm_compute in ("<<<M46>>>" ++ check (runes_of_ascii "options
    {
    }packet
    repeatCount { // `tick` ""quote"" 'q'
}options{}
")).
Eval vm_compute in ("<<<M2284>>>" ++ check (runes_of_ascii "MetaData Packet { }packet	asx  { @lengthOf( asx) falsey`crlf
line`
,
    }")).
Eval vm_compute in ("<<<M3806>>>" ++ check (runes_of_ascii "packet
A
{match	k as  n
{
    [
1,
	""bb""
    ] :B
, 
2
    : 
C }	, }")).
Eval vm_compute in ("<<<M417>>>" ++ check (runes_of_ascii "MetaData uint8x
{ zchar[ 10]
//x
// trailing space 
Foo `tab	here` , }
")).
Eval vm_compute in ("<<<M3400>>>" ++ check (runes_of_ascii "MetaData _x {
// c
zchar[ 4294967296 ] lengthOf `// not a comment` , }")).
Eval vm_compute in ("<<<M4336>>>" ++ check (runes_of_ascii "
packet	Z9_
    {

    body
MetaDataX
, 
}	MetaData asx
{
	}//	t
")).
Eval vm_compute in ("<<<M2196>>>" ++ check (runes_of_ascii "root
    // `t" ++ [65279]%N ++ runes_of_ascii "ick` ""quote"" 'q'
    packet As { trueish Packet , }
")).
Eval vm_compute in ("<<<M3465>>>" ++ check (runes_of_ascii "root packet P {
    u8 s_u8,
    repeat u8 r_u8,
    u16 b_len,
}
")).
Eval vm_compute in ("<<<M4361>>>" ++ check (runes_of_ascii "
packet
x_y_z {	i8

    As 
@calculatedFrom(

""a	b"" )
,
	}

")).
Eval vm_compute in ("<<<M1916>>>" ++ check (runes_of_ascii "
packet	As { @calculatedFrom(//x
""{,}"" ""{,}""	)lengthOf , } 	 ")).
Eval vm_compute in ("<<<M2171>>>" ++ check (runes_of_ascii "root
    // `tick` ""quote"" 'q'
    packet As {  Packet , }
")).
Eval vm_compute in ("<<<M1931>>>" ++ check (runes_of_ascii "
packet	As { @calculatedFrom(//x
""{,}""	)lengthOf , , } 	 ")).
Eval vm_compute in ("<<<M2788>>>" ++ check (runes_of_ascii "repeat } ( f32 char[ repeat false int32 uint64 @rightPad")).
Eval vm_compute in ("<<<M1397>>>" ++ check (runes_of_ascii "root
    packet f32a// a // b
{ zchar[ 00
    ]a1, }
")).
Eval vm_compute in ("<<<M3769>>>" ++ check (runes_of_ascii "packet A
    {

    u8 x
`d" ++ [11]%N ++ runes_of_ascii "`
    ,  // c" ++ [11]%N ++ runes_of_ascii "
	}

")).
Eval vm_compute in ("<<<M1957>>>" ++ check (runes_of_ascii "
packet	As { @calculatedFrom(//x
""{,}""	)" ++ [21517; 23383]%N ++ runes_of_ascii " , } 	 ")).
Eval vm_compute in ("<<<M837>>>" ++ check (runes_of_ascii "MetaData // @lengthOf(
tag{  lengthOf Pad
, }
")).
Eval vm_compute in ("<<<M591>>>" ++ check (runes_of_ascii "
root
packet BodyLength { } packet uint8x { }")).
Eval vm_compute in ("<<<M2817>>>" ++ check (runes_of_ascii "i8 root char[] as `a\` uint8x f64 @rightPad ]")).
Eval vm_compute in ("<<<M2254>>>" ++ check (runes_of_ascii "MetaData Packet { }packet	asx  { @lengthOf(")).
Eval vm_compute in ("<<<M824>>>" ++ check (runes_of_ascii "MetaData trueish {i8 MetaDataX // " ++ [27880; 37322]%N ++ runes_of_ascii "
, }")).
Eval vm_compute in ("<<<M2130>>>" ++ check (runes_of_ascii "MetaData x
{// " ++ [128512]%N ++ runes_of_ascii " emoji
i16 stringy , } }")).
Eval vm_compute in ("<<<M3697>>>" ++ check (runes_of_ascii "  root packet

A
    {u8 
x 
`a
b`	, } ")).
Eval vm_compute in ("<<<M2103>>>" ++ check (runes_of_ascii "x MetaData
{// " ++ [128512]%N ++ runes_of_ascii " emoji
i16 stringy , }")).
Eval vm_compute in ("<<<M2405>>>" ++ check (runes_of_ascii "MetaData A
{
i64
chars	, } // `tick` ")).
Eval vm_compute in ("<<<M1198>>>" ++ check (runes_of_ascii "// packet A { u8 x, }
options { }
")).
Eval vm_compute in ("<<<M4455>>>" ++ check (runes_of_ascii "  root
	packet
P
{
string  s , } ")).
Eval vm_compute in ("<<<M3878>>>" ++ check (runes_of_ascii "packet A {
    x @lengthOf(y),
}")).
Eval vm_compute in ("<<<M2600>>>" ++ check (runes_of_ascii "packet A { match k as n { }, }")).
Eval vm_compute in ("<<<M2067>>>" ++ check (runes_of_ascii "MetaData A { u64 pack pack, }")).
Eval vm_compute in ("<<<M4418>>>" ++ check (runes_of_ascii "
packet
    A {
	}  // c 
 
")).
Eval vm_compute in ("<<<M819>>>" ++ check (runes_of_ascii "  packet
repeatCount  {}

")).
Eval vm_compute in ("<<<M2089>>>" ++ check (runes_of_ascii "MetaData A @{ u64 pack, }")).
Eval vm_compute in ("<<<M2049>>>" ++ check (runes_of_ascii "A MetaData { u64 pack, }")).
Eval vm_compute in ("<<<M3764>>>" ++ check (runes_of_ascii "packet lengthOf {
}
// c")).
Eval vm_compute in ("<<<M772>>>" ++ check (runes_of_ascii "packet
    crc {
    }")).
Eval vm_compute in ("<<<M2645>>>" ++ check (runes_of_ascii "MetaData M { x y z, }")).
Eval vm_compute in ("<<<M4329>>>" ++ check (runes_of_ascii "packet o {
    //x
}")).
Eval vm_compute in ("<<<M4208>>>" ++ check (runes_of_ascii "options

    {  }")).
Eval vm_compute in ("<<<M3082>>>" ++ check (runes_of_ascii "// c" ++ [5760]%N ++ runes_of_ascii "
packet A {
}")).
Eval vm_compute in ("<<<M2229>>>" ++ check (runes_of_ascii "MetaData Packet {")).
Eval vm_compute in ("<<<M3167>>>" ++ check (runes_of_ascii "options { // a
 }")).
Eval vm_compute in ("<<<M2689>>>" ++ check (runes_of_ascii "= u32 """" uint64")).
Eval vm_compute in ("<<<M906>>>" ++ check (runes_of_ascii "
// " ++ [128512]%N ++ runes_of_ascii " emoji
")).
Eval vm_compute in ("<<<M2626>>>" ++ check (runes_of_ascii "packet { }")).
Eval vm_compute in ("<<<M2433>>>" ++ check (runes_of_ascii "zchar [")).
Eval vm_compute in ("<<<M2775>>>" ++ check (runes_of_ascii ";>/7""#")).
Eval vm_compute in ("<<<M3060>>>" ++ check (runes_of_ascii "// c ")).
Eval vm_compute in ("<<<M2507>>>" ++ check (runes_of_ascii """a\""")).
Eval vm_compute in ("<<<M2526>>>" ++ check (runes_of_ascii "1 2")).
Eval vm_compute in ("<<<M2534>>>" ++ check (runes_of_ascii "_1")).
