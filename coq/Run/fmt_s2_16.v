From FP Require Import Lexer Parser ShowPT Digest Formatter.
From Coq Require Import String List NArith.
Import ListNotations.
Open Scope string_scope.
Set Printing Width 100000000.
Set Printing Depth 100000000.
Definition show_fres (r : fres) : string :=
  match r with
  | FOk s => "OK:" ++ sh_escaped s ""
  | FErr s => "ERR:" ++ sh_escaped s ""
  | FPanic p => "PANIC:" ++ p
  end.
Definition check (rs : list rune) : string := digest (show_fres (format_res rs)).
Definition full (rs : list rune) : string := show_fres (format_res rs).
Eval vm_compute in ("<<<M3546>>>" ++ check (runes_of_ascii "options { // c1
LittleEndian // c2a
  // c2b
= // c3a
  // c3b
true // c4a
  // c4b
; // c5a
  // c5b
StringPrefixLenType // c6a
  // c6b
= // c7a
  // c7b
u32
    // c8
; ArrayPrefixLenType
    // c10
= // c11a
  // c11b
u16 // c12a
  // c12b
; } packet
    // c15
Party { // c17a
  // c17b
repeat // c18
char[ // c19a
  // c19b
1 ] // c21a
  // c21b
seqNo
    // c22
, char[]
    // c24
Qty // c25
, // c26
zchar[ // c27
2
    // c28
] tag7
    // c30
, } // c32
packet Logon { Party // c36
, char[] // c38
msgKind // c39a
  // c39b
, repeat // c41a
  // c41b
char[
    // c42
3 // c43
]
    // c44
OrderId // c45a
  // c45b
, // c46
} root // c48a
  // c48b
packet
    // c49
Reject // c50a
  // c50b
{
    // c51
zchar[ 5 ] // c54
lastPx , // c56
InFlags86 // c57a
  // c57b
{ Party // c59a
  // c59b
,
    // c60
string // c61
OrderId // c62a
  // c62b
,
    // c63
repeat // c64
InFlags75
    // c65
{ // c66
repeat // c67a
  // c67b
string
    // c68
Side2 // c69a
  // c69b
, // c70
uint8 // c71a
  // c71b
Flags // c72a
  // c72b
, zchar[ 8
    // c75
]
    // c76
Ref ,
    // c78
repeat // c79a
  // c79b
char[ 4 // c81a
  // c81b
] // c82
Tail , // c84a
  // c84b
repeat char[ // c86
1
    // c87
] // c88a
  // c88b
price , // c90
} // c91a
  // c91b
, // c92
}
    // c93
,
    // c94
InMsgkind60 { // c96a
  // c96b
repeat
    // c97
string // c98
lastPx
    // c99
, // c100
u32 // c101
msgKind // c102
, // c103a
  // c103b
zchar[ // c104a
  // c104b
9
    // c105
] // c106
tag7 // c107
, // c108
zchar[ 1 ] seqNo , // c113a
  // c113b
u64 // c114a
  // c114b
OrderId // c115a
  // c115b
,
    // c116
} ,
    // c118
zchar[ // c119a
  // c119b
6 // c120a
  // c120b
] Note
    // c122
, repeat
    // c124
InF148 // c125
{ // c126
char[ // c127
7 // c128
] sym // c130
, // c131a
  // c131b
} , // c133a
  // c133b
zchar[ 9 // c135a
  // c135b
] // c136a
  // c136b
clOrdID // c137
, // c138a
  // c138b
u8 Ref , // c141
match // c142
Ref // c143a
  // c143b
as
    // c144
Body {
    // c146
[ // c147a
  // c147b
81 , // c149
118 // c150a
  // c150b
] // c151a
  // c151b
: // c152
Party , // c154
104 // c155a
  // c155b
: Logon // c157a
  // c157b
,
    // c158
} // c159
, }
    // c161
")).
Eval vm_compute in ("<<<M3610>>>" ++ check (runes_of_ascii "packet packetx {
    @tag(00)
    float32 calculatedFrom,
    packetx,
    BodyLength,
    @calculatedFrom(""1"")
    //
    //	t
    char[65535] Foo,
    repeat char[3] x_y_z,
    @calculatedFrom(""" ++ [128512]%N ++ runes_of_ascii """)
    repeat Pad,
    @rightPad(' ')
    char[] pack `line1
    line2`,
    u8x,// c
    int32 packetx,
    falsey,
}

packet asx {
}

packet i8i8 {
    char[0123456789] charz @lengthOf(_x),
    repeat repeatCount `u8 x,`,
    repeat options1,
    x,
    @lengthOf(As)
    match pack as BodyLength {
        /// triple
        ""1"" : tag,
        [65535] : msg_type,
        [""`tick`""] : falsey,
        ""// no comment"" : u128,
    },
    match len as Z9_ {
        [""a	b"", 10] : Foo,
        255 : int,
        0123456789 : tag,
        1 : metadata,
        [00, 4294967296, """ ++ [28040; 24687]%N ++ runes_of_ascii """] : roots,
        [42, 4294967296, 10, 00, 4294967296] : int,
    },
    @calculatedFrom(""{,}"")
    // 50% %s
    repeat _x {
        tag ``,// a // b
    },
    @lengthOf(BodyLength)
    zchar @lengthOf(msg_type) `" ++ [233]%N ++ runes_of_ascii "`,
    match string_ as zchar {
        42 : MetaDataX,
        [""abc"", ""\" ++ [233]%N ++ runes_of_ascii """] : tag,
        007 : charz,
        ["""", ""// no comment""] : u128,
        [""1"", """ ++ [128512]%N ++ runes_of_ascii """] : Foo,
    },
}

packet _x {
    A {
        Z9_ @lengthOf(u),
    },
    @lengthOf(T)
    @tag(00)
    char[] i8i8 @lengthOf(f32a),
    repeat Z9_ {
        lengthOf {
            rootA,
            repeat len i8i8 `// not a comment`,// packet A { u8 x, }
            i8i8 @lengthOf(string_) `" ++ [28040; 24687; 31867; 22411]%N ++ runes_of_ascii "`,
            char[10] chars `two words`,
        },
        repeat string o,
    },
    crc @calculatedFrom(""1""),//
}

packet Foo {
    @calculatedFrom(""\" ++ [233]%N ++ runes_of_ascii """)
    pack u128 `tab	here`,
    /// triple
    int64 lengthOf @calculatedFrom(""// no comment"") `a\`,
    match MetaDataX as roots {
        0 : a1,
    },
}")).
Eval vm_compute in ("<<<M4218>>>" ++ check (runes_of_ascii "root packet trueish {
    @tag(00)
    repeat char[] _x,
    repeat float32 Packet `
        `,
    @calculatedFrom(""" ++ [233]%N ++ runes_of_ascii "t" ++ [233]%N ++ runes_of_ascii """)
    matchKey a1,
    u128,
    @calculatedFrom(""x y"")
    a1 {
        roots {
            match packetx as a1 {
                [0123456789, 0123456789] : tag,
                ""\n"" : uint8x,
                00 : Z9_,
                ""\" ++ [233]%N ++ runes_of_ascii """ : i64_,
                // trailing space 
                [""// no comment"", ""`tick`""] : asx,
            },// `tick` ""quote"" 'q'
        },
    },
    @lengthOf(trueish)
    //
    repeat uint8 Foo `
        `,
    @calculatedFrom(""{,}"")
    i8i8 f32a,
    repeat MetaDataX o `// not a comment`,
}

options {
}

packet matchKey {
    @tag(42)
    @lengthOf(metadata)
    options1 `tab	here`,
    int64 trueish @lengthOf(asx) `a\`,
    @lengthOf(chars)
    f32 u8x @calculatedFrom(""// no comment""),
}

packet f32a {
    zchar[42] Pad @lengthOf(repeatCount),
    @leftPad('\x00')
    uint64 string_ `a\`,
    @calculatedFrom(""CRC32"")
    char MetaDataX,
    repeat zchar[00] body,
    repeat trueish {
        matchKey MetaDataX `u8 x,`,
        repeat u32 u8x `it's`,
    },
    char[255] u128,
    BodyLength @lengthOf(asx) `it's`,// a // b
    string MetaDataX @calculatedFrom(""packet""),// packet A { u8 x, }
    match lengthOf as metadata {
        ""{,}"" : MetaDataX,
    },
    @rightPad('\x00')
    i16 A,
}

packet _x {
    // packet A { u8 x, }
    @lengthOf(_x)
    @lengthOf(u128)
    @rightPad('\x00')
    zchar[4294967296] charz,
}")).
Eval vm_compute in ("<<<M464>>>" ++ check (runes_of_ascii "packet
rootA
{ msg_type
    { calculatedFrom Foo, // " ++ [128512]%N ++ runes_of_ascii " emoji
Logon // a // b
{o
    ,
    // " ++ [128512]%N ++ runes_of_ascii " emoji
    repeat
As { crc , zchar[ 1
    ] roots
    @lengthOf(tag ) ,} ,
_x
    o	,  } , zchar[007]	x_y_z ,
uint16 trueish
, }
,zchar[ //
42 ]
    Packet @calculatedFrom(	""" ++ [28040; 24687]%N ++ runes_of_ascii """ )`doc` , float
    BodyLength	, @tag( 65535 )Logon // `tick` ""quote"" 'q'
@calculatedFrom( ""a	b"")
    , repeat
matchKey _x`100% of %d` ,
    // a // b
    @calculatedFrom(
    """ ++ [28040; 24687]%N ++ runes_of_ascii """ )len u8x ,
}packet falsey {@lengthOf(//x
rootA ) char[]
    i64_	@lengthOf( BodyLength	) , // 50% %s
@tag( //x
00 )
    @lengthOf( u8x)  @leftPad ( ) stringy a1//	t
,
repeat pack {match  Logon  as A{ ""\n"" //
: x ,  } , // @lengthOf(
pack	u8x
,match  Logon
    as A	{10
:uint8x , }
, } ,
    @calculatedFrom( ""`tick`""
)
//
/// triple
@tag( 255
) @calculatedFrom(
    // @lengthOf(
    ""it's""
)
    match x_y_z as body
{ ""\" ++ [233]%N ++ runes_of_ascii """ :u // " ++ [128512]%N ++ runes_of_ascii " emoji
[ ""x y""
    , 10
]  : u8x ,// " ++ [27880; 37322]%N ++ runes_of_ascii "
""// no comment"":crc ,[  ""x y"" // c
,
    // trailing space 
    0123456789
]:crc ""a\\"" : tag , //
""" ++ [233]%N ++ runes_of_ascii "t" ++ [233]%N ++ runes_of_ascii """ : leftPad
,
// @lengthOf(
// `tick` ""quote"" 'q'
}
    ,@lengthOf(
f32a	)
@rightPad ( ) char[7 ] chars
    @lengthOf( // trailing space 
packetx ) ,// 50% %s
@tag( 3 ) f32 // @lengthOf(
Packet
`line1
line2`
,  @tag( 3 )	repeat zchar[ 00]
    lengthOf,
    }
// @lengthOf(
")).
Eval vm_compute in ("<<<M1133>>>" ++ check (runes_of_ascii "MetaData u
    { /// triple
} MetaData repeatCount {} root packet asx	{// trailing space 
@calculatedFrom( """ ++ [28040; 24687]%N ++ runes_of_ascii """ ) body
f32a ,
uint16 stringy , /// triple
calculatedFrom{match metadata
as
    rootA { ""{,}"" :roots
,""x y"":
i8i8
""\n"" : Foo// `tick` ""quote"" 'q'
,65535  : pack , [3
,
    //	t
    10
, ""1"",
42 ,	""\n""	,
// @lengthOf(
// 50% %s
""a	b"" // c
,
    // " ++ [128512]%N ++ runes_of_ascii " emoji
    ""1"" ]
: packetx ,
3 :
    // " ++ [128512]%N ++ runes_of_ascii " emoji
    MetaDataX , },
repeat rootA { options1
,
} , zchar[
255// c
] roots `" ++ [28040; 24687; 31867; 22411]%N ++ runes_of_ascii "` ,
char[42 ] roots , }, repeat zchar , match i64_ as
stringy
{//	t
00 :roots
    ,
[ 0 ,/// triple
""" ++ [233]%N ++ runes_of_ascii "t" ++ [233]%N ++ runes_of_ascii """ , //
255 , ""\n"" , 255, ""a\""b""
,
1 , 0123456789
    // " ++ [27880; 37322]%N ++ runes_of_ascii "
    ]
: stringy ,42  :metadata""// no comment""
: trueish
    [ ""\" ++ [233]%N ++ runes_of_ascii """ , 10
    ] : u128 , } , match u8x
as
    int	{ 255 : string_ ,""it's"" :
options1,
    } , match metadata as BodyLength {""\n"" : o,	42 : int
} , @rightPad (	'\x00')	roots
MetaDataX
,
u32 Pad	,
string
repeatCount`" ++ [233]%N ++ runes_of_ascii "` , } options { Pad	=
char[ 42 ] ; Foo = char[]
;
/// triple
//x
roots
    = ""`tick`""
    ;
    }packet
int {	@leftPad ( '0' )@tag(4294967296 )  u8x @lengthOf(
    matchKey	)
    `line1
line2`, int16 packetx  `say ""hi""` , Z9_ `u8 x,`, // 50% %s
uint8 i64_ , Header chars ,
    }")).
Eval vm_compute in ("<<<M4202>>>" ++ check (runes_of_ascii "
// top
	options	// c0a
    	// c0b
  	{// c1a
    // c1b
StringPrefixLenType =	// c3a

  // c3b
    	u32;// c5a
    // c5b
  FixedStringPadFromLeft 	 // c6
= 	 // c7a
		// c7b
  	false

    ; 
// c9
    } // c10
	packet// c11
	Logout 
	// c12
    	{ 	 // c13
	f64

    Flags// c15a
  // c15b
	, 	 // c16a
    // c16b
		repeat  // c17a

// c17b
	InTail1// c18a
	  // c18b
    { // c19
int32	// c20a
	// c20b
	  Flags 	 // c21a

// c21b

,// c22a
  	// c22b
zchar[ // c23a
  	// c23b
    1 
      // c24
    ]  // c25a
  // c25b
	tag7 
,  }// c28a
  	// c28b
	,// c29
repeat// c30
      string
    // c31
	x 	 // c32a
  // c32b
	, 	 // c33a
  // c33b
} 
root 	 // c35a

  // c35b
packet  Trade
{
repeat

    f32	// c40a
// c40b
  Acct 	 // c41a
  // c41b
	, 	 // c42
InTail62  
      // c43
    {	// c44
u32  // c45a
  // c45b
    Qty// c46
  ,  zchar[ // c48
1  // c49a
  // c49b
	] 
      // c50
    	x// c51a
    // c51b

	,
    }	// c53a
  // c53b
	  ,  // c54
	  repeat	// c55
    string  Side2 
        // c57
  ,  // c58
    u16 // c59
  	Ref	// c60
		,// c61a
    // c61b
    	}	// c62a
	// c62b")).
Eval vm_compute in ("<<<M13>>>" ++ check (runes_of_ascii "packet
BodyLength{
matchKey
    { chars
    , match // 50% %s
leftPad as options1{ 42
    // " ++ [27880; 37322]%N ++ runes_of_ascii "
    :
u , // `tick` ""quote"" 'q'
0 :T
, }
    , char[]  Header `line1
line2`
    // trailing space 
    ,
    } ,  @tag(/// triple
10) zchar  {
repeat /// triple
_x { i8i8 , }	, zchar[	00
    ] // `tick` ""quote"" 'q'
len	@lengthOf( u128
) // " ++ [128512]%N ++ runes_of_ascii " emoji
, //	t
repeat options1 // @lengthOf(
,repeat Pad
{
    int64 roots `
` ,u64 //
Header @lengthOf( tag ) ,uint16 roots
@calculatedFrom(
""" ++ [28040; 24687]%N ++ runes_of_ascii """ )
    , match rootA as matchKey
{
    1	: BodyLength[""1"" ] :
    Z9_  ""it's"" : // packet A { u8 x, }
Packet 0 :stringy ,
} , } , } ,
    // `tick` ""quote"" 'q'
    @lengthOf(Logon )x
    pack
,
    //
    @tag( 65535
) // packet A { u8 x, }
repeat
o Header `u8 x,`
    ,
Header u8x `doc`, @tag( 42 ) // packet A { u8 x, }
char[// " ++ [128512]%N ++ runes_of_ascii " emoji
0123456789 ]
    lengthOf
    ,
float{
    // c
    f32a
As , repeat matchKey
`{ , }` ,
// 50% %s
// " ++ [128512]%N ++ runes_of_ascii " emoji
}
, repeat char[]// " ++ [27880; 37322]%N ++ runes_of_ascii "
o , @tag(
1 ) options1 @calculatedFrom(
""a	b"") `100% of %d`	, float32 int@lengthOf(
calculatedFrom) , }
")).
Eval vm_compute in ("<<<M1019>>>" ++ check (runes_of_ascii "packet roots
{
i32
trueish `crlf
line` , zchar[
    4294967296
]
    // " ++ [128512]%N ++ runes_of_ascii " emoji
    u128 `100% of %d` , @rightPad
    (
    ) charz
    { i64_	`tab	here` ,
// a // b
// a // b
i16 len @calculatedFrom( ""x y""),
    leftPad
`it's`
    ,	}
    ,char[] calculatedFrom , char[65535
]
    int  @calculatedFrom( ""a\""b"")
`doc` ,@calculatedFrom( ""abc""
    )i8
Pad @lengthOf(
    falsey ), @lengthOf(	A ) int16 Header  @lengthOf( repeatCount // trailing space 
) , i8
// 50% %s
/// triple
i8i8 @calculatedFrom( ""{,}""
) , }
root packet
trueish{
MetaDataX{
match
//x
// " ++ [27880; 37322]%N ++ runes_of_ascii "
uint8x
    // trailing space 
    as BodyLength {
    65535 : roots
, },
//	t
// " ++ [27880; 37322]%N ++ runes_of_ascii "
zchar[
    // 50% %s
    10 ] uint8x@lengthOf(
string_ )`" ++ [28040; 24687; 31867; 22411]%N ++ runes_of_ascii "` , // packet A { u8 x, }
char[
0]trueish `100% of %d` , Pad
    @calculatedFrom( ""\n"" ) ,}
// 50% %s
// packet A { u8 x, }
,
}
// @lengthOf(
// " ++ [128512]%N ++ runes_of_ascii " emoji
options { // a // b
packetx = //
""a\""b"" ; metadata
// " ++ [128512]%N ++ runes_of_ascii " emoji
// @lengthOf(
=int32; float
=char[]; i64_
=
    10 ;Pad
= false
}")).
Eval vm_compute in ("<<<M4535>>>" ++ check (runes_of_ascii "// " ++ [27880; 37322]%N ++ runes_of_ascii "
packet chars {
    // c
}

packet Z9_ {
    falsey @calculatedFrom(""x y"") `// not a comment`,
    string Foo @calculatedFrom(""""),
    repeat o i64_,
    @tag(0123456789)
    repeat uint16 T,
    match trueish as MetaDataX {
        0123456789 : MetaDataX,
        3 : trueish,
        // `tick` ""quote"" 'q'
        [42, 7] : u8x,
        /// triple
        ""1"" : Z9_,
    },
    uint32 zchar,
    As {
        Z9_,
        Z9_ {
            //
            zchar[7] float `it's`,
            Z9_ @lengthOf(options1),
            stringy @lengthOf(i64_),/// triple
        },
        u8 metadata `u8 x,`,
    },
    @calculatedFrom(""x y"")
    @calculatedFrom(""" ++ [28040; 24687]%N ++ runes_of_ascii """)
    @lengthOf(int)
    match float as matchKey {
        7 : rootA,
    },
    @calculatedFrom(""" ++ [128512]%N ++ runes_of_ascii """)
    repeat string Logon,
}

options {
    metadata = float32
    packetx = true;
    Foo = '\x00';
    A = u16;
}

MetaData crc {
    // " ++ [27880; 37322]%N ++ runes_of_ascii "
    int8 uint8x,
    zchar[0] A,
}")).
Eval vm_compute in ("<<<M3986>>>" ++ check (runes_of_ascii "// c
      MetaData options1

    {
Pad 
body
	,	int64 As,	uint8
f32a
`" ++ [233]%N ++ runes_of_ascii "`	,/// triple
		char 
	    // trailing space 
	repeatCount

,  } 
root
packet  calculatedFrom  // @lengthOf(
  {	match  Packet as calculatedFrom { 3
//
:  lengthOf , [  65535] 
:
roots,  //
    0123456789
	:	// trailing space 

  A	, 42

    :  // c

  Logon, [ 
65535
	] :	i64_[	007 , 4294967296	] : o, 
}
, 
}packet BodyLength {

    @tag(// trailing space 
    	007)
    @tag(0123456789

)

match
	Pad as// 50% %s

  i8i8 
{	""" ++ [233]%N ++ runes_of_ascii "t" ++ [233]%N ++ runes_of_ascii """:	chars

,
4294967296

    :	A , 10
: x 	 //	t
,
""" ++ [233]%N ++ runes_of_ascii "t" ++ [233]%N ++ runes_of_ascii """:	crc

    ""\n"" 
: options1, }	// " ++ [27880; 37322]%N ++ runes_of_ascii "
  , 
}  packet

    matchKey 
        //

  // packet A { u8 x, }
    { u8
repeatCount
,repeat
zchar[ 
0123456789 ] 
stringy
	, 
@leftPad

    (
    )	@tag(

    10	)
    @tag(255 
      // `tick` ""quote"" 'q'

)
    //
    	// 50% %s
	options1 
@lengthOf(

x_y_z	) 
,
}
")).
Eval vm_compute in ("<<<M786>>>" ++ check (runes_of_ascii "options
    { options1 =
    // a // b
    0
; u= true _x =
    true;	uint8x= false
    ; } packet falsey  { }	packet falsey
{
    repeat zchar[
00 ] len	,
    // " ++ [27880; 37322]%N ++ runes_of_ascii "
    } packet u128 {  len
    //	t
    `100% of %d`
, // " ++ [27880; 37322]%N ++ runes_of_ascii "
uint8	roots `{ , }`,
    @rightPad (
    ' ' // @lengthOf(
)	repeat int,@calculatedFrom( ""// no comment""
    ) Header @calculatedFrom(  """ ++ [233]%N ++ runes_of_ascii "t" ++ [233]%N ++ runes_of_ascii """
    ) , string
    roots ,
    repeat Pad
{ char[]i64_ @lengthOf( //	t
lengthOf
//x
/// triple
)
    // trailing space 
    `" ++ [28040; 24687; 31867; 22411]%N ++ runes_of_ascii "`,
char body, i8 a1
@lengthOf( o ) ,
    } , match x_y_z
/// triple
// @lengthOf(
as roots { [ ""CRC32"" ,	""a\\"" ]  :
    MetaDataX, 7 : repeatCount , ""// no comment"" : T [// @lengthOf(
007
, ""\" ++ [233]%N ++ runes_of_ascii """] // 50% %s
: _x ,
    //	t
    [ """ ++ [28040; 24687]%N ++ runes_of_ascii """ ,
    ""abc"" ] : u ,  [ """" //
]
:
    i8i8 // `tick` ""quote"" 'q'
}
, // " ++ [128512]%N ++ runes_of_ascii " emoji
int64 repeatCount `// not a comment` , }
")).
Eval vm_compute in ("<<<M564>>>" ++ check (runes_of_ascii "MetaData body	{ // packet A { u8 x, }
rootA i8i8
`// not a comment` , uint64 rootA , // " ++ [128512]%N ++ runes_of_ascii " emoji
string metadata
,i64 pack, }	MetaData // packet A { u8 x, }
stringy
{	}
// @lengthOf(
// " ++ [128512]%N ++ runes_of_ascii " emoji
packet uint8x{ lengthOf{f64 body @calculatedFrom(
""x y""), /// triple
repeat o u8x , repeatCount@lengthOf( x // 50% %s
)
    // trailing space 
    `// not a comment` ,
    //	t
    repeat
    char[ 4294967296] Header ,}
, @lengthOf(len // `tick` ""quote"" 'q'
) x_y_z @lengthOf(
    zchar )
, repeat char[
00
    ] Packet ,char string_
,	@tag(
10
    )
    T
@calculatedFrom( """ ++ [28040; 24687]%N ++ runes_of_ascii """	)
    , @rightPad ('\x00'
)
// `tick` ""quote"" 'q'
// a // b
calculatedFrom@calculatedFrom(  ""\" ++ [233]%N ++ runes_of_ascii """) //x
,}
options { roots
=
    // trailing space 
    int32 ;	a1 =
""\n"" ;
charz
= '\x00';f32a // @lengthOf(
=
"""" ; }  options // " ++ [27880; 37322]%N ++ runes_of_ascii "
{ }")).
Eval vm_compute in ("<<<M770>>>" ++ check (runes_of_ascii "packet o { @lengthOf( metadata )match repeatCount //	t
as  repeatCount {
    """ ++ [233]%N ++ runes_of_ascii "t" ++ [233]%N ++ runes_of_ascii """ : options1
// " ++ [27880; 37322]%N ++ runes_of_ascii "
// `tick` ""quote"" 'q'
}
,
@calculatedFrom(
    ""abc"" )@lengthOf( string_ )@leftPad
( ' ' // c
)
match u128 as
calculatedFrom{
255:// " ++ [27880; 37322]%N ++ runes_of_ascii "
a1 ""packet"" :BodyLength ,
// " ++ [27880; 37322]%N ++ runes_of_ascii "
//x
""""
    :
Pad,
[
    ""CRC32"" ,
3 // a // b
,65535 , 1  , 255 ,
// a // b
// 50% %s
""packet"" ,""\" ++ [233]%N ++ runes_of_ascii """, ""a	b"" ]
    :
// a // b
// @lengthOf(
len	,
7: asx // " ++ [27880; 37322]%N ++ runes_of_ascii "
,
255 : crc ,}
, }
    MetaData stringy
    // trailing space 
    { } // @lengthOf(
root
    // " ++ [128512]%N ++ runes_of_ascii " emoji
    packet metadata { @calculatedFrom( """"
) string calculatedFrom, Pad @calculatedFrom( // @lengthOf(
""" ++ [128512]%N ++ runes_of_ascii """ )
// `tick` ""quote"" 'q'
// " ++ [27880; 37322]%N ++ runes_of_ascii "
,
u64 roots	,char[
    255 ]
// 50% %s
// " ++ [128512]%N ++ runes_of_ascii " emoji
u@calculatedFrom(""// no comment""
    ) , }
//	t
")).
Eval vm_compute in ("<<<M1206>>>" ++ check (runes_of_ascii "MetaData o { u128 a1 , _x trueish	`crlf
line`
,chars i64_
,uint8x//
repeatCount , T	Pad	`a\`,zchar[ 65535
    /// triple
    ]Foo , }
    packet roots
{ zchar[ 7 ] zchar
`` , float `" ++ [233]%N ++ runes_of_ascii "` ,@lengthOf( //	t
float ) @lengthOf(
charz) repeat a1 ,
@tag( //
42
) char[]
    //
    crc,
// `tick` ""quote"" 'q'
//	t
@rightPad	(
// packet A { u8 x, }
//	t
)trueish `it's` ,@tag( 65535 )
    /// triple
    repeat float32	pack
, @tag(
    7
) string packetx  ``  , match Packet as BodyLength { ""\n"" : u ,
    }
, }
    options{u128 = u16 // packet A { u8 x, }
}
    packet calculatedFrom // c
{i16
rootA `two words`
,
// `tick` ""quote"" 'q'
// trailing space 
} options
    {
    roots =
    1 a1  ='\x00' ;// 50% %s
Packet
=  i8 ; // @lengthOf(
}
")).
Eval vm_compute in ("<<<M3573>>>" ++ check (runes_of_ascii "options {
    StringPrefixLenType = u64;
    ArrayPrefixLenType = u8;
    FixedStringPadFromLeft = true;
    FixedStringPadChar = '0';
}
packet Ack {
    @rightPad('0') char[7] Px,
    u64 msgKind,
    i8 x,
}
packet Party {
    i8 sym,
    repeat Ack,
    repeat InPx10 {
        repeat Ack,
        zchar[1] Ref,
        uint64 Qty,
        u16 tag7,
    },
    int8 clOrdID,
}
packet Fill {
}
packet Order {
}
root packet Quote {
    Order,
    @leftPad('0') char[1] Side2,
    string venue,
    char[7] lastPx,
    u16 tag7,
    u32 clOrdID,
    match clOrdID as Body {
        30 : Order,
        196 : Party,
        10 : Fill,
        28 : Ack,
    },
    u32 sym @calculatedFrom(""CR\
C32""),
}
")).
Eval vm_compute in ("<<<M853>>>" ++ check (runes_of_ascii "
root packet falsey { @calculatedFrom(""1""	) //	t
@tag( 3 ) float32 u @lengthOf(
roots
) ,
chars
    BodyLength, @lengthOf(
    // " ++ [27880; 37322]%N ++ runes_of_ascii "
    BodyLength
)	repeat i64_ T
, int64 u
    ,}  packet// `tick` ""quote"" 'q'
Packet{
@calculatedFrom( ""packet"" )char[  7
    ] chars `" ++ [233]%N ++ runes_of_ascii "` , repeat i64_ `u8 x,`, }
root packet MetaDataX
    { @rightPad // `tick` ""quote"" 'q'
(
    ) @calculatedFrom(  ""a\""b""
    ) @tag( 65535) chars @calculatedFrom( //
""// no comment"") `// not a comment`  ,// `tick` ""quote"" 'q'
@calculatedFrom(
""it's"" ) @tag(  00 ) @lengthOf(
i8i8) lengthOf ,
    // a // b
    f32 x_y_z @lengthOf(
A )
, @lengthOf(
uint8x ) repeat //x
zchar[ 7
    ]//
uint8x , }
")).
Eval vm_compute in ("<<<M1199>>>" ++ check (runes_of_ascii "// 50% %s
packet  As{ @leftPad
() char[ // trailing space 
7 ] crc @lengthOf( u128 ) , repeat u8x zchar
,
    repeatCount @lengthOf(// " ++ [27880; 37322]%N ++ runes_of_ascii "
u ) `line1
line2` , @lengthOf(// @lengthOf(
asx ) u8x `crlf
line`	, // @lengthOf(
zchar
, trueish ,u64 u128
@lengthOf(
    packetx )
    `{ , }` , uint32  pack@calculatedFrom( ""\n"" ), @tag(
    //
    1)float32 len, @tag( 7 )float32 falsey// a // b
, }
root packet Foo { } MetaData zchar
{
BodyLength msg_type
    , // " ++ [128512]%N ++ runes_of_ascii " emoji
f32a _x , char[] roots,
i16 asx
,
    // packet A { u8 x, }
    } // `tick` ""quote"" 'q'
packet lengthOf
    {	@tag(0
    // " ++ [27880; 37322]%N ++ runes_of_ascii "
    )
char[]	pack	`crlf
line` , /// triple
}
")).
Eval vm_compute in ("<<<M1216>>>" ++ check (runes_of_ascii "  packet Packet
{ matchKey`tab	here` , @calculatedFrom( ""// no comment"")options1 `a\` , @tag( 65535
) zchar[10
]
u128
    `it's` , @lengthOf( repeatCount )repeat char[] Logon , len
    //x
    @lengthOf(leftPad
) `100% of %d` , @lengthOf( charz
    // a // b
    )
@lengthOf(
x_y_z )@leftPad ( '\x00' )// c
trueish @lengthOf( string_
) , repeat
    zchar {
repeat
    char[	0 ]o // " ++ [27880; 37322]%N ++ runes_of_ascii "
`100% of %d` , match
Packet as f32a {  0 :/// triple
a1,
65535 :
leftPad
    // `tick` ""quote"" 'q'
    } ,match rootA as
    stringy	{ 42 //
: _x ,
} , repeat string float , } ,	char[
42
    ] charz @calculatedFrom( """ ++ [28040; 24687]%N ++ runes_of_ascii """
    ), }
")).
Eval vm_compute in ("<<<M177>>>" ++ check (runes_of_ascii "packet
    f32a { match /// triple
zchar as
float {	1: BodyLength , ""CRC32"": int	}, char[ 007 ] zchar@lengthOf(
    /// triple
    Z9_ // " ++ [27880; 37322]%N ++ runes_of_ascii "
)`" ++ [233]%N ++ runes_of_ascii "` , // trailing space 
} root
packet  options1 {
@lengthOf( charz )
// c
// @lengthOf(
zchar[
4294967296 ] Packet ``
    ,
@calculatedFrom( ""\" ++ [233]%N ++ runes_of_ascii """ ) @calculatedFrom(
    ""a\""b"" ) @tag( 4294967296 ) char  asx ,
    @lengthOf( msg_type ) @tag( 1	) u16 leftPad`u8 x,` , o	{	repeat
int32 zchar
    // " ++ [128512]%N ++ runes_of_ascii " emoji
    , u128{ i8i8 rootA`a\`//
, } ,
} ,
repeat i8 Logon `
`	,
@tag( 10
)
@tag( 7)
repeat a1 u128 `100% of %d` ,packetx//	t
i64_ , }
")).
Eval vm_compute in ("<<<M3935>>>" ++ check (runes_of_ascii "packet T {
    u8 Packet,
    @leftPad(' ')
    match o as BodyLength {
        [""it's""] : charz,
        0 : T,
        ""`tick`"" : stringy,
    },
    Logon A,
}

root packet Logon {
    @lengthOf(u8x)
    repeat metadata Logon `tab	here`,
    @lengthOf(x)
    @tag(42)
    @leftPad('\x00')
    _x @calculatedFrom(""" ++ [128512]%N ++ runes_of_ascii """),
    zchar[0] asx,
    repeat char o,
    body Logon,
    @tag(0123456789)
    repeat lengthOf {
        repeat asx tag,// @lengthOf(
        lengthOf `line1
                line2`,
    },
    _x,
    f64 roots @calculatedFrom(""a\""b""),
}")).
Eval vm_compute in ("<<<M240>>>" ++ check (runes_of_ascii "packet As {
    f32a { uint16 u8x, } , zchar[ 007 ] metadata  @calculatedFrom(	""\n"") ,	@lengthOf(
    len	) @rightPad ( ) char[10	] Pad ,repeat options1 `two words` , @lengthOf( repeatCount
) lengthOf @lengthOf( calculatedFrom) `doc` ,
    @lengthOf(
    lengthOf )
repeat char[ 65535
    //	t
    ]leftPad
    , @calculatedFrom(	""{,}""
) repeat leftPad {
repeat Z9_ `tab	here`,  } , @leftPad ( '0')// packet A { u8 x, }
i64  roots// a // b
`" ++ [28040; 24687; 31867; 22411]%N ++ runes_of_ascii "` , repeat int32
i8i8, } root packet calculatedFrom
    // " ++ [27880; 37322]%N ++ runes_of_ascii "
    { // packet A { u8 x, }
}")).
Eval vm_compute in ("<<<M784>>>" ++ check (runes_of_ascii "root
packet
u8x
{// 50% %s
@lengthOf(x_y_z
//	t
/// triple
) char[
0
    ]i8i8 , repeat asx { repeat A o ,
repeat
    calculatedFrom As, // a // b
match
crc as
    A{  3
:
    tag
3
    :
    asx , 42 : A ""a	b""
:
    charz
    // @lengthOf(
    , 1:
//	t
//x
roots
,42
: u8x  , },
a1
@lengthOf(
    lengthOf )
    //	t
    `a\` , }
, @calculatedFrom( ""// no comment"" )
uint16
options1
`two words` ,
u8x
`
` ,}
    MetaData msg_type	{ }options
    {len =	""packet"";
i8i8 = '\x00'; chars = 42 ; u =
    0123456789
    }
")).
Eval vm_compute in ("<<<M628>>>" ++ check (runes_of_ascii "options {x_y_z=int32 charz =
    false ;
    o  = true ;
pack// " ++ [27880; 37322]%N ++ runes_of_ascii "
=""CRC32"";}	root// @lengthOf(
packet  asx
{  @tag(0) match
    Foo /// triple
as rootA
    // trailing space 
    {00:crc
    // @lengthOf(
    } , metadata {f32 u, }
/// triple
// packet A { u8 x, }
, @tag(
7 )
    /// triple
    As
    @calculatedFrom( ""CRC32"" ) `// not a comment` ,  }
MetaData x { char[]
    //x
    msg_type`" ++ [233]%N ++ runes_of_ascii "` , char uint8x `line1
line2`,falsey
charz
`" ++ [28040; 24687; 31867; 22411]%N ++ runes_of_ascii "` // trailing space 
,  string
    chars `a\`, }
")).
Eval vm_compute in ("<<<M4160>>>" ++ check (runes_of_ascii "packet 
BodyLength

{  zchar[ 
7
    ]	leftPad
    ,  @tag( 0123456789 )
@calculatedFrom(	""`tick`""
    ) 
Foo
T ,zchar[ 00
] charz  @lengthOf(// trailing space 
  tag) ,

    @lengthOf(
zchar
	    // " ++ [128512]%N ++ runes_of_ascii " emoji
) char[65535

    ]
u128

@lengthOf( rootA  )  , 
    //x
	// 50% %s
  	int64

    Header 	 // c
    ,  
      // packet A { u8 x, }
    @calculatedFrom(""\n"" 
        // @lengthOf(

  // " ++ [27880; 37322]%N ++ runes_of_ascii "
  )
match
leftPad  as
pack

{4294967296

: options1} 
,
}
")).
Eval vm_compute in ("<<<M472>>>" ++ check (runes_of_ascii "root packet
    Z9_	{ char[ 10// packet A { u8 x, }
]
// a // b
//x
falsey @calculatedFrom( ""a	b"" )`// not a comment` , }
root packet pack { Header{ match
f32a as u128 {
42	:i8i8
,[ ""\" ++ [233]%N ++ runes_of_ascii """, ""a\""b"", 00  , 007
, 42	] : chars , }
,repeat
    MetaDataX`" ++ [233]%N ++ runes_of_ascii "`,
//
// packet A { u8 x, }
}
    , uint16
u @lengthOf(As  )
`crlf
line` ,char[0123456789
    ] BodyLength ,
charz, }MetaData float {char[]
/// triple
// trailing space 
stringy`` , float falsey,}
")).
Eval vm_compute in ("<<<M3491>>>" ++ check (runes_of_ascii "packet A // c1a
  // c1b
{
    // c2
u8 // c3
a , // c5
} // c6
packet // c7
B // c8
{ // c9
u16 // c10
b // c11
, // c12a
  // c12b
} // c13a
  // c13b
root packet // c15
P
    // c16
{ u8 // c18a
  // c18b
K // c19
, // c20a
  // c20b
match // c21a
  // c21b
K as
    // c23
M
    // c24
{ // c25a
  // c25b
1
    // c26
:
    // c27
A
    // c28
,
    // c29
1 // c30a
  // c30b
: // c31
B // c32a
  // c32b
, } , // c35
} // c36
")).
Eval vm_compute in ("<<<M1349>>>" ++ check (runes_of_ascii "packet
    roots { char[
10  ]
a1 , @leftPad/// triple
( '\x00'// " ++ [128512]%N ++ runes_of_ascii " emoji
) @calculatedFrom( """ ++ [28040; 24687]%N ++ runes_of_ascii """
)	@calculatedFrom(
    ""`tick`"" ) repeat  chars As
, @lengthOf( roots
    )	repeat string_ {
    char[
7 ] As
@calculatedFrom(""packet"" // trailing space 
)
// `tick` ""quote"" 'q'
// 50% %s
,
i16
x_y_z @calculatedFrom(
    """ ++ [128512]%N ++ runes_of_ascii """
) ,repeat zchar
    // @lengthOf(
    MetaDataX // @lengthOf(
`100% of %d`
,
// " ++ [27880; 37322]%N ++ runes_of_ascii "
//x
}	,}
")).
Eval vm_compute in ("<<<M233>>>" ++ check (runes_of_ascii "
packet pack { @lengthOf(  roots
//	t
/// triple
)  match As as
repeatCount  {	42 : Foo
    , // " ++ [27880; 37322]%N ++ runes_of_ascii "
} , @leftPad ( ' '
)
@lengthOf( zchar  ) u32
chars , } packet
    u{@lengthOf( pack )repeat	Packet {
tag,}, @lengthOf(matchKey ) @lengthOf( a1 ) u16 float@calculatedFrom(""" ++ [128512]%N ++ runes_of_ascii """	) , char[ 3 ]matchKey	`" ++ [28040; 24687; 31867; 22411]%N ++ runes_of_ascii "`,  @lengthOf( stringy	) T @calculatedFrom( ""a	b"" // `tick` ""quote"" 'q'
) `
`
,
} // trailing space ")).
Eval vm_compute in ("<<<M334>>>" ++ check (runes_of_ascii "root// 50% %s
packet i64_
    //	t
    { @rightPad
('0'
    )@tag(255) match charz as Pad{007 : body
    , }
    , } packet Z9_{@calculatedFrom( ""`tick`"")
string
    // 50% %s
    A `tab	here` //
, repeat crc{
    repeat u8x
, char[ 42] x @lengthOf( o
// a // b
/// triple
) , }	, } MetaData
tag { uint16
    falsey`a\`/// triple
,	i32	asx ,
    char[ 007
    //
    ] As
, } // a // b")).
Eval vm_compute in ("<<<M3834>>>" ++ check (runes_of_ascii "packet tag {
    @rightPad(' ')
    zchar packetx,
    // packet A { u8 x, }
    repeat asx {
        zchar[10] Header ``,
    },
    string_ x_y_z,// @lengthOf(
    @tag(7)
    @leftPad()
    float64 metadata `
        `,
    @lengthOf(Foo)
    Packet matchKey `{ , }`,
    repeat falsey,
    Foo u `// not a comment`,
    int32 BodyLength @calculatedFrom(""\" ++ [233]%N ++ runes_of_ascii """) `it's`,
}")).
Eval vm_compute in ("<<<M774>>>" ++ check (runes_of_ascii "packet Logon
{ }
    options { }
root packet	u128 { @calculatedFrom( """ ++ [128512]%N ++ runes_of_ascii """) float64 options1, zchar[ 007] matchKey@lengthOf( A // " ++ [128512]%N ++ runes_of_ascii " emoji
),
    T
//	t
/// triple
calculatedFrom // trailing space 
, @lengthOf(
    stringy )repeat Z9_ {
u64
    repeatCount,
    // @lengthOf(
    MetaDataX
    `two words`,
matchKey, }	,
}
MetaData  crc
    {Pad MetaDataX ,}")).
Eval vm_compute in ("<<<M3831>>>" ++ check (runes_of_ascii "  packet  chars {

    string_

    { 
repeat
zchar { match	u128
    as
	A 

    // `tick` ""quote"" 'q'
	//
    	{ 42 :
    pack ,

    }
	, 	 // " ++ [27880; 37322]%N ++ runes_of_ascii "
	int64
u128 // trailing space 
	  ,
repeatCount

`it's` 
, a1
Z9_

//
    // trailing space 
    , 

    // packet A { u8 x, }
/// triple
  }
,
matchKey@calculatedFrom(
""1""
    ),
	}
,
} ")).
Eval vm_compute in ("<<<M133>>>" ++ check (runes_of_ascii "packet	x_y_z{ x_y_z
u8x ,a1 {
    char// c
_x `line1
line2`  , char[
1 ]// trailing space 
rootA  ,match A as  chars	{	7 :
    MetaDataX,  ""abc"":Pad//x
,
[007  ] : tag, 65535 :	falsey,} , matchKey@lengthOf(
As ) `a\`
    ,} , @calculatedFrom( ""\n""
) string i8i8,zchar[ 1 ]Packet `` ,// `tick` ""quote"" 'q'
} packet metadata { }
")).
Eval vm_compute in ("<<<M1140>>>" ++ check (runes_of_ascii "root packet Header{ repeat
lengthOf { match pack as body { """ ++ [128512]%N ++ runes_of_ascii """
: options1 , //	t
}
,  repeat int8 lengthOf
, } ,float ,
    rootA float `say ""hi""`,}  packet stringy {
    Z9_ `// not a comment`,
@lengthOf( Pad
) packetx
{ string BodyLength ,
    }// 50% %s
, string BodyLength  ,// @lengthOf(
repeat
    i64 o ,}
")).
Eval vm_compute in ("<<<M3510>>>" ++ check (runes_of_ascii "
packet	MDSnapshotZZ
    {
u8

    a, 
}
packet

    OrderACK
	{u16

    b

    , 
}packet

    HTTPServerInfo { string s  , }
root packet
	FIXMsg {
u8 KType

,
MDSnapshotZZ,
	repeat
    OrderACK
,
    match
    KType
    as
    Body { 
1  :HTTPServerInfo
,
2

    : OrderACK, }	, }

")).
Eval vm_compute in ("<<<M1129>>>" ++ check (runes_of_ascii "
root packet zchar
    {
@calculatedFrom(""x y"") f32
u // @lengthOf(
@lengthOf(_x )
    , }options { Foo = string falsey = ""\n""//x
;calculatedFrom
    = char[ 42  ]	roots =string ; }	packet	int
{
@tag( 10 ) @calculatedFrom(""""	)
metadata
    ,	} options {packetx ='\x00' ; _x = ""packet""; }
")).
Eval vm_compute in ("<<<M2047>>>" ++ check (runes_of_ascii "packet	packetx { // trailing space 
x_y_z
{
string
charz ,
string x// @lengthOf(
`two words`
    ,  u8x { // `tick` ""quote"" 'q'
charz `100% o@leftpadf %d` // packet A { u8 x, }
,}// " ++ [27880; 37322]%N ++ runes_of_ascii "
,} , }
    // a // b
    packet metadata {  @leftPad ( '0') repeat i32 options1 ,u64 uint8x , }
")).
Eval vm_compute in ("<<<M3579>>>" ++ check (runes_of_ascii "options 
{LittleEndian=true;
}packet Sub

    {
    u8

a ,
	@calculatedFrom(	""CRC16""
	)	i16 SubSum ,	}

    root
	packet
Frame {
u16 MsgType ,

u16

BodyLen
	@lengthOf( Body
)

,
	Sub
Body , string	note

    ,
@calculatedFrom(
""CRC16"") i16

    Checksum ,

u8 tail	,
}
")).
Eval vm_compute in ("<<<M2027>>>" ++ check (runes_of_ascii "packet	packetx { // trailing space 
x_y_z
{
string
charz ,
string x// @lengthOf(
`two words`
    ,  u8x { // `tick` ""quote"" 'q'
charz `100% of %d` // packet A { u8 x, }
,}// " ++ [27880; 37322]%N ++ runes_of_ascii "
,} , }
    // a // b
    packet metadata {  @leftPad ( '0') repeat i32 options1 ,u64 uint8x , } }
")).
Eval vm_compute in ("<<<M1933>>>" ++ check (runes_of_ascii "packet	packetx { // trailing space 
x_y_z
{
string
charz ,
string x// @lengthOf(
`two words`
    ,  u8x { // `tick` ""quote"" 'q'
charz `100% of %d` // packet A { u8 x, }
,,// " ++ [27880; 37322]%N ++ runes_of_ascii "
}} , }
    // a // b
    packet metadata {  @leftPad ( '0') repeat i32 options1 ,u64 uint8x , }
")).
Eval vm_compute in ("<<<M1931>>>" ++ check (runes_of_ascii "packet	packetx { // trailing space 
x_y_z
{
string
charz ,
string x// @lengthOf(
`two words`
    ,  u8x { // `tick` ""quote"" 'q'
charz `100% of %d` // packet A { u8 x, }
,// " ++ [27880; 37322]%N ++ runes_of_ascii "
,} , }
    // a // b
    packet metadata {  @leftPad ( '0') repeat i32 options1 ,u64 uint8x , }
")).
Eval vm_compute in ("<<<M4099>>>" ++ check (runes_of_ascii "packet  // packet A { u8 x, }
	repeatCount
	{	// packet A { u8 x, }
@leftPad  (  '\x00'

    )
repeat MetaDataX
    `crlf
line` 
, repeat char[] MetaDataX,
u64  uint8x
@calculatedFrom(""a\""b"" 

// c
	  // packet A { u8 x, }
		)

`tab	here`,	//
}  MetaData
	pack

{
	}
")).
Eval vm_compute in ("<<<M179>>>" ++ check (runes_of_ascii "MetaData charz {float32 u `say ""hi""` , BodyLength charz`
` , char[
    10 ] Foo,
    int64 float , i32 charz ,	char[ // @lengthOf(
007
/// triple
// trailing space 
]zchar `u8 x,`
,
    }
options {
    // a // b
    BodyLength =  true
    ;
    }
    //
    options { }")).
Eval vm_compute in ("<<<M814>>>" ++ check (runes_of_ascii "MetaData
stringy { tag // c
Z9_`{ , }`	,
// packet A { u8 x, }
// trailing space 
crc
    _x
`two words` , i64_
trueish `say ""hi""`,
float32 trueish
// @lengthOf(
// packet A { u8 x, }
,
    /// triple
    char[
0123456789 ] tag ,
uint8 Packet , } MetaData x_y_z { }
")).
Eval vm_compute in ("<<<M3818>>>" ++ check (runes_of_ascii "packet

    calculatedFrom

//	t
  {

@leftPad (
    '\x00'

    )
    match
i8i8

as 

// " ++ [27880; 37322]%N ++ runes_of_ascii "
    	BodyLength  {

    255 :

o , 0

    :	Header // " ++ [27880; 37322]%N ++ runes_of_ascii "
	,""CRC32""
:	asx , 
7

    :
u  [	10
    ,0

    ] : 
packetx
,	0 :

    Foo
,
} 
,

    }")).
Eval vm_compute in ("<<<M2206>>>" ++ check (runes_of_ascii "packet// packet A { u8 x, }
rep" ++ [233]%N ++ runes_of_ascii "eatCount	{// packet A { u8 x, }
@leftPad ( '\x00'
) repeat u8x MetaDataX `crlf
line`,
    repeat
    char[] MetaDataX
    ,
u64	uint8x@calculatedFrom(""a\""b""
// c
// packet A { u8 x, }
) `tab	here`
,//
}MetaData pack
    {
    }
")).
Eval vm_compute in ("<<<M2131>>>" ++ check (runes_of_ascii "packet// packet A { u8 x, }
repeatCount	{// packet A { u8 x, }
@leftPad ( '\x00'
) repeat u8x MetaDataX `crlf
line`,
    repeat
    char[] MetaDataX
    ,
uint8x	u64@calculatedFrom(""a\""b""
// c
// packet A { u8 x, }
) `tab	here`
,//
}MetaData pack
    {
    }
")).
Eval vm_compute in ("<<<M923>>>" ++ check (runes_of_ascii "root packet zchar {o @lengthOf(i8i8  ) ,@lengthOf(
    chars )
repeat zchar[
00]
    A `" ++ [28040; 24687; 31867; 22411]%N ++ runes_of_ascii "` // c
,}packet//	t
tag // c
{ @tag( 1
)
    msg_type
    `" ++ [233]%N ++ runes_of_ascii "` // 50% %s
,
// " ++ [128512]%N ++ runes_of_ascii " emoji
/// triple
u16 string_ , int8	crc@calculatedFrom(""{,}"" ),  uint64 tag
    , }
")).
Eval vm_compute in ("<<<M3497>>>" ++ check (runes_of_ascii "// top
packet
    // c0
order_item
    // c1
{
    // c2
u8 // c3a
  // c3b
a , // c5a
  // c5b
} // c6a
  // c6b
root // c7
packet // c8
new_order // c9
{ // c10a
  // c10b
order_item // c11a
  // c11b
, u8
    // c13
x
    // c14
, // c15
}
    // c16
")).
Eval vm_compute in ("<<<M2058>>>" ++ check (runes_of_ascii "packet// packet A { u8 x, }
10	{// packet A { u8 x, }
@leftPad ( '\x00'
) repeat u8x MetaDataX `crlf
line`,
    repeat
    char[] MetaDataX
    ,
u64	uint8x@calculatedFrom(""a\""b""
// c
// packet A { u8 x, }
) `tab	here`
,//
}MetaData pack
    {
    }
")).
Eval vm_compute in ("<<<M1619>>>" ++ check (runes_of_ascii "packet calculatedFrom
{ @calculatedFrom( ""a\\"" ) zchar[ 4294967296 ]
calculatedFrom@lengthOf( pack )	`100% of %d` ? ,char[]body@calculatedFrom( ""// no comment"" )  ,
@tag( 007) //x
int8
leftPad`it's` , repeat pack
    { repeat char[ 3] body
,},
}")).
Eval vm_compute in ("<<<M1010>>>" ++ check (runes_of_ascii "root
// packet A { u8 x, }
// 50% %s
packet charz
//x
//	t
{	}
MetaData
calculatedFrom { // trailing space 
charz // trailing space 
Foo  ,// packet A { u8 x, }
leftPad
    /// triple
    Z9_
    `doc`  ,uint32 _x `100% of %d` // 50% %s
, } //	t")).
Eval vm_compute in ("<<<M1570>>>" ++ check (runes_of_ascii "packet calculatedFrom
{ @calculatedFrom( ""a\\"" ) zchar[ 4294967296 ]
calculatedFrom@lengthOf( pack )	`100% of %d` ,char[]body@calculatedFrom( ""// no comment"" )  ,
@tag( 007) //x
int8
leftPad`it's` , repeat pack
    { char[ repeat 3] body
,},
}")).
Eval vm_compute in ("<<<M1526>>>" ++ check (runes_of_ascii "packet calculatedFrom
{ @calculatedFrom( ""a\\"" ) zchar[ 4294967296 ]
calculatedFrom@lengthOf( pack )	`100% of %d` ,char[]body@calculatedFrom( ""// no comment"" )  ,
@tag( ]) //x
int8
leftPad`it's` , repeat pack
    { repeat char[ 3] body
,},
}")).
Eval vm_compute in ("<<<M1602>>>" ++ check (runes_of_ascii "packet calculatedFrom
{ @calculatedFrom( ""a\\"" ) zchar[ 4294967296 ]
calculatedFrom@lengthOf( pack )	`100% of %d` ,char[]body@calculatedFrom( ""// no comment"" )  ,
@tag( 007) //x
int8
leftPad`it's` , repeat pack
    { repeat char[ 3] body
,")).
Eval vm_compute in ("<<<M1592>>>" ++ check (runes_of_ascii "packet calculatedFrom
{ @calculatedFrom( ""a\\"" ) zchar[ 4294967296 ]
calculatedFrom@lengthOf( pack )	`100% of %d` ,char[]body@calculatedFrom( ""// no comment"" )  ,
@tag( 007) //x
int8
leftPad`it's` , repeat pack
    { repeat char[ 3]")).
Eval vm_compute in ("<<<M44>>>" ++ check (runes_of_ascii "options { stringy = 7 packetx = char[
    // trailing space 
    1 ] ;
msg_type = uint16 // " ++ [27880; 37322]%N ++ runes_of_ascii "
; Foo	=
    ' ' len= '\x00' ;
} options {msg_type = char[ // " ++ [27880; 37322]%N ++ runes_of_ascii "
007 ] ;i8i8 =
""" ++ [28040; 24687]%N ++ runes_of_ascii """
    ; stringy = ""it's"" MetaDataX  = false }
")).
Eval vm_compute in ("<<<M487>>>" ++ check (runes_of_ascii "MetaData // " ++ [27880; 37322]%N ++ runes_of_ascii "
lengthOf{
    char[ // packet A { u8 x, }
3	] metadata ,//	t
char[
    7 ] float,
roots
    // " ++ [128512]%N ++ runes_of_ascii " emoji
    o
    , repeatCount
    // @lengthOf(
    calculatedFrom `say ""hi""`, u64
asx `{ , }` ,}
")).
Eval vm_compute in ("<<<M67>>>" ++ check (runes_of_ascii "packet // c
repeatCount
    { } MetaData calculatedFrom
{
}root packet Header
{
repeat	f32a metadata `doc` ,
}
root packet u128 { @calculatedFrom( """"
)
    zchar[
    4294967296	] A@lengthOf( A  ) , }")).
Eval vm_compute in ("<<<M1149>>>" ++ check (runes_of_ascii "packet body {@lengthOf( leftPad	) i8 matchKey , match u
    as
len
    { ""a\""b""
    :string_
,
    [
""\n"" ]
    :int , ""{,}"": Header , [
    0 ,0 ]
    //
    : lengthOf,10 :  As ,
    }
    ,}

")).
Eval vm_compute in ("<<<M1960>>>" ++ check (runes_of_ascii "packet	packetx { // trailing space 
x_y_z
{
string
charz ,
string x// @lengthOf(
`two words`
    ,  u8x { // `tick` ""quote"" 'q'
charz `100% of %d` // packet A { u8 x, }
,}// " ++ [27880; 37322]%N ++ runes_of_ascii "
,} , }")).
Eval vm_compute in ("<<<M1945>>>" ++ check (runes_of_ascii "packet	packetx { // trailing space 
x_y_z
{
string
charz ,
string x// @lengthOf(
`two words`
    ,  u8x { // `tick` ""quote"" 'q'
charz `100% of %d` // packet A { u8 x, }
,}// " ++ [27880; 37322]%N ++ runes_of_ascii "
,")).
Eval vm_compute in ("<<<M1537>>>" ++ check (runes_of_ascii "packet calculatedFrom
{ @calculatedFrom( ""a\\"" ) zchar[ 4294967296 ]
calculatedFrom@lengthOf( pack )	`100% of %d` ,char[]body@calculatedFrom( ""// no comment"" )  ,
@tag( 007)")).
Eval vm_compute in ("<<<M1304>>>" ++ check (runes_of_ascii "packet Logon{ i8 MetaDataX
, }
options
    {
    stringy = ""packet"" u8x=
""abc"" ; Logon = false ; trueish
= """ ++ [28040; 24687]%N ++ runes_of_ascii """	u
// `tick` ""quote"" 'q'
// a // b
=
""1"" // " ++ [128512]%N ++ runes_of_ascii " emoji
; }
")).
Eval vm_compute in ("<<<M2442>>>" ++ check (runes_of_ascii "
packet MetaDataX
{
    @leftPad
( // a // b
'0'
) i8 u @lengthOf(
MetaDataX
    ) `say ""hi""` ,	'\x01'} MetaData BodyLength {
    asx
x_y_z `" ++ [233]%N ++ runes_of_ascii "`
, uint64 u128 , }
")).
Eval vm_compute in ("<<<M1753>>>" ++ check (runes_of_ascii "options { } packet Packet{char[] i64_ ,
@tag(
    255) match
crc as i8i8{""{,}"" : trueish """" : Pad , ""a\\"" ""a\\"" :
Foo ,
    1 :packetx
, """ ++ [128512]%N ++ runes_of_ascii """ : trueish , } , }")).
Eval vm_compute in ("<<<M3457>>>" ++ check (runes_of_ascii "packet 
B

    { 
u8
    a
,
}root
packet 
P{

u8  K

,

    u64 L @lengthOf(Body

    )

,match K as

    Body{
	1
	:

    B

    , }
,
    }

")).
Eval vm_compute in ("<<<M2361>>>" ++ check (runes_of_ascii "
packet MetaDataX
{
    @leftPad
( // a // b
'0'
) i8 u @lengthOf(
MetaDataX
    ) `say ""hi""` ,	} MetaData BodyLength {
    asx
x_y_z `" ++ [233]%N ++ runes_of_ascii "`
, u128 uint64 , }
")).
Eval vm_compute in ("<<<M1768>>>" ++ check (runes_of_ascii "options { } packet Packet{char[] i64_ ,
@tag(
    255) match
crc as i8i8{""{,}"" : trueish """" : Pad , ""a\\"" :
Foo , ,
    1 :packetx
, """ ++ [128512]%N ++ runes_of_ascii """ : trueish , } , }")).
Eval vm_compute in ("<<<M1659>>>" ++ check (runes_of_ascii "options { } packet Packet char[]{ i64_ ,
@tag(
    255) match
crc as i8i8{""{,}"" : trueish """" : Pad , ""a\\"" :
Foo ,
    1 :packetx
, """ ++ [128512]%N ++ runes_of_ascii """ : trueish , } , }")).
Eval vm_compute in ("<<<M1699>>>" ++ check (runes_of_ascii "options { } packet Packet{char[] i64_ ,
@tag(
    255) match
as crc i8i8{""{,}"" : trueish """" : Pad , ""a\\"" :
Foo ,
    1 :packetx
, """ ++ [128512]%N ++ runes_of_ascii """ : trueish , } , }")).
Eval vm_compute in ("<<<M2398>>>" ++ check (runes_of_ascii "
packet MetaDataX
{
    @leftPad
( // a // b
'0'
) i8 u @lengthOf(
MetaDataX
    ) `say ""hi""` ,	} MetaData BodyLength {
    asx
x_y_z `" ++ [233]%N ++ runes_of_ascii "`
, uint64 u128 ,")).
Eval vm_compute in ("<<<M3736>>>" ++ check (runes_of_ascii "
options {  f32a= 
  // @lengthOf(
    false  // packet A { u8 x, }
stringy 
= 
255 ;  len

    =

    ""// no comment""  // packet A { u8 x, }
	;} ")).
Eval vm_compute in ("<<<M1792>>>" ++ check (runes_of_ascii "options { } packet Packet{char[] i64_ ,
@tag(
    255) match
crc as i8i8{""{,}"" : trueish """" : Pad , ""a\\"" :
Foo ,
    1 :packetx
,  : trueish , } , }")).
Eval vm_compute in ("<<<M1293>>>" ++ check (runes_of_ascii "MetaData trueish {
i64 As ,char[ 3 ] x
, char[
42
    //x
    ]
    BodyLength
,
    i32 //	t
chars,
char[]i64_ `it's` , string matchKey , } //x")).
Eval vm_compute in ("<<<M3786>>>" ++ check (runes_of_ascii "packet len {
    char[42] rootA @calculatedFrom(""a	b""),
}

packet stringy {
    @leftPad('\x00')
    i16 Packet @lengthOf(zchar) `100% of %d`,
}")).
Eval vm_compute in ("<<<M1137>>>" ++ check (runes_of_ascii "packet msg_type{ a1 @lengthOf(body ) `crlf
line` , zchar[ 7 ] BodyLength
// 50% %s
// @lengthOf(
@lengthOf( Logon ) , i16 charz //	t
,  }")).
Eval vm_compute in ("<<<M3603>>>" ++ check (runes_of_ascii "MetaData metadata {
}

MetaData rootA {
    i8 i64_,
    roots options1 `a\`,
    lengthOf Header,
    Z9_ Foo,
    int16 BodyLength,
}")).
Eval vm_compute in ("<<<M3490>>>" ++ check (runes_of_ascii "packet A {
    u8 a,
}
packet B {
    u16 b,
}
root packet P {
    u8 K,
    match K as M {
        1 : A,
        1 : B,
    },
}
")).
Eval vm_compute in ("<<<M1502>>>" ++ check (runes_of_ascii "packet calculatedFrom
{ @calculatedFrom( ""a\\"" ) zchar[ 4294967296 ]
calculatedFrom@lengthOf( pack )	`100% of %d` ,char[]body")).
Eval vm_compute in ("<<<M3280>>>" ++ check (runes_of_ascii "MetaData metadata { } MetaData rootA { i8 i64_ , // c
roots options1 `a\` , lengthOf Header , Z9_ Foo , int16 BodyLength , }")).
Eval vm_compute in ("<<<M4390>>>" ++ check (runes_of_ascii "MetaData float {
    uint8 BodyLength,
}

MetaData charz {
    float32 trueish `a\`,
    // c
    i16 metadata `say ""hi""`,
}")).
Eval vm_compute in ("<<<M3013>>>" ++ check (runes_of_ascii "packet A {
  match k as n {
    [""a"", ""bb"", ""c c"", ""d"", ""e"", ""f"", ""g"", ""h"", ""i"", ""j"", ""k"", ""l""] : B,
    2 : C
  },
}")).
Eval vm_compute in ("<<<M4174>>>" ++ check (runes_of_ascii "packet A {
    u16 len @lengthOf(body) `
    x`,
    u32 crc @calculatedFrom(""CRC32"") `
    x`,
    string body,
}")).
Eval vm_compute in ("<<<M3319>>>" ++ check (runes_of_ascii "MetaData
// c
float { uint8 BodyLength , } MetaData charz { float32 trueish `a\` , i16 metadata `say ""hi""` , }")).
Eval vm_compute in ("<<<M3351>>>" ++ check (runes_of_ascii "MetaData float { uint8 BodyLength , } MetaData charz { float32 trueish `a\` , i16 metadata `say ""hi""`
// c
, }")).
Eval vm_compute in ("<<<M3018>>>" ++ check (runes_of_ascii "packet A {
  match k as n {
    [""a"", 22, ""c c"", 4, ""e"", 66, ""g"", 8, ""i"", 10, ""k"", 12] : B
    2 : C
  },
}")).
Eval vm_compute in ("<<<M3051>>>" ++ check (runes_of_ascii "packet A {
    Inner {
        u8 x `a

b`,
        Deep {
            u8 y `a

b`,
        },
    },
}")).
Eval vm_compute in ("<<<M3511>>>" ++ check (runes_of_ascii "packet FooBar {
    u8 a,
}
packet foo_bar {
    u16 b,
}
root packet R {
    FooBar,
    foo_bar,
}
")).
Eval vm_compute in ("<<<M2276>>>" ++ check (runes_of_ascii "MetaData _x {string x @lengthOf`// not a comment` , string
i64_ // trailing space 
`a\` ,
    }
")).
Eval vm_compute in ("<<<M2646>>>" ++ check (runes_of_ascii "packet A { @rightPad(' ') @lengthOf(b) @calculatedFrom(""c"") @tag(007) match k as n { 1 : B }, }")).
Eval vm_compute in ("<<<M2998>>>" ++ check (runes_of_ascii "packet A {
  match k as n {
    [1, 22, 007, 4, 5, 66, 7, 8, 9, 10, 11] : B,
    2 : C
  },
}")).
Eval vm_compute in ("<<<M2240>>>" ++ check (runes_of_ascii "MetaData _x {string x `// not a comment` , , string
i64_ // trailing space 
`a\` ,
    }
")).
Eval vm_compute in ("<<<M2966>>>" ++ check (runes_of_ascii "packet A {
  match k as n {
    [""a"", 22, ""c c"", 4, ""e"", 66, ""g"", 8] : B
    2 : C
  },
}")).
Eval vm_compute in ("<<<M2239>>>" ++ check (runes_of_ascii "MetaData _x {string x `// not a comment`  string
i64_ // trailing space 
`a\` ,
    }
")).
Eval vm_compute in ("<<<M3094>>>" ++ check (runes_of_ascii "packet A {
    u32 crc @calculatedFrom(""x\
y""),
    @calculatedFrom(""x\
y"") u8 y,
}")).
Eval vm_compute in ("<<<M3091>>>" ++ check (runes_of_ascii "packet A {
    u32 crc @calculatedFrom(""x\
y""),
    @calculatedFrom(""x\
y"") u8 y,
}")).
Eval vm_compute in ("<<<M3694>>>" ++ check (runes_of_ascii "  packet
	A{ Inner {
u8
	x `
x` ,

    Deep

{

u8 y `
x` 
,
    }
    ,}, }
")).
Eval vm_compute in ("<<<M2941>>>" ++ check (runes_of_ascii "packet A {
  match k as n {
    [1, 22, ""c c"", 4, 5, ""f""] : B,
    2 : C
  },
}")).
Eval vm_compute in ("<<<M499>>>" ++ check (runes_of_ascii "packet
    lengthOf { } options { options1
// c
// 50% %s
= 0123456789 ; }

")).
Eval vm_compute in ("<<<M3384>>>" ++ check (runes_of_ascii "MetaData _x { f64 charz `tab	here` , } options { BodyLength // c
= """ ++ [233]%N ++ runes_of_ascii "t" ++ [233]%N ++ runes_of_ascii """ ; }")).
Eval vm_compute in ("<<<M4058>>>" ++ check (runes_of_ascii "

  MetaData  M
{ u8
x `100% of %s %d %v`
, T 
t
`100% of %s %d %v` ,	}")).
Eval vm_compute in ("<<<M4133>>>" ++ check (runes_of_ascii "packet Logon {
    //
    // `tick` ""quote"" 'q'
    int `100% of %d`,
}")).
Eval vm_compute in ("<<<M2908>>>" ++ check (runes_of_ascii "packet A {
  match k as n {
    [1, 22, 007, 4] : B
    2 : C
  },
}")).
Eval vm_compute in ("<<<M320>>>" ++ check (runes_of_ascii "MetaData string_
{
    uint8	a1`a\` , float64
int ,
} // @lengthOf(")).
Eval vm_compute in ("<<<M3636>>>" ++ check (runes_of_ascii "packet o {
    @tag(4294967296)
    options1 @lengthOf(u8x) `" ++ [233]%N ++ runes_of_ascii "`,
}")).
Eval vm_compute in ("<<<M2794>>>" ++ check (runes_of_ascii "' ' root int8 as uint8 packet zchar[ = true string int8 float64")).
Eval vm_compute in ("<<<M889>>>" ++ check (runes_of_ascii "packet
    T {} MetaData o
    {
}
options {
// 50% %s
//
}")).
Eval vm_compute in ("<<<M4229>>>" ++ check (runes_of_ascii "
packet 
A { B{// a
	u8
x ,	// b
    }// c
	, // d
	}")).
Eval vm_compute in ("<<<M2743>>>" ++ check (runes_of_ascii """it's"" string as uint16 float32 char[] @calculatedFrom(")).
Eval vm_compute in ("<<<M3997>>>" ++ check (runes_of_ascii "packet metadata {
    i8 Z9_ @lengthOf(Z9_) `it's`,
}")).
Eval vm_compute in ("<<<M2296>>>" ++ check (runes_of_ascii "
MetaData char[{
u32 rootA `line1
line2` ,
    }
")).
Eval vm_compute in ("<<<M2723>>>" ++ check (runes_of_ascii "@lengthOf( = i64 float32 3 uint16 root [ MetaData")).
Eval vm_compute in ("<<<M2323>>>" ++ check (runes_of_ascii "
MetaData Pad{
u32 rootA `line1
line2` ,
    
")).
Eval vm_compute in ("<<<M3681>>>" ++ check (runes_of_ascii "

  packet  A{ u8	x `d `

    ,	// c 
    }")).
Eval vm_compute in ("<<<M3223>>>" ++ check (runes_of_ascii "packet A { char[ // a
 3 // b
 ] // c
 x, }")).
Eval vm_compute in ("<<<M4193>>>" ++ check (runes_of_ascii "

  root 
packet
A
	{
u8 x

`x
` ,  }

")).
Eval vm_compute in ("<<<M955>>>" ++ check (runes_of_ascii "MetaData charz { chars u `u8 x,`,
} 	 ")).
Eval vm_compute in ("<<<M2328>>>" ++ check (runes_of_ascii "
MetaData Pad{
u32 rootA `line1
line")).
Eval vm_compute in ("<<<M4372>>>" ++ check (runes_of_ascii "

  options	{  float  =	""packet""; } ")).
Eval vm_compute in ("<<<M2753>>>" ++ check (runes_of_ascii "a/<gQx\e""%K$)=p{<a69Ria#wlx3""A,!*1")).
Eval vm_compute in ("<<<M481>>>" ++ check (runes_of_ascii "packet Packet
{  } options
{ }
")).
Eval vm_compute in ("<<<M2622>>>" ++ check (runes_of_ascii "packet A { match k as n { }, }")).
Eval vm_compute in ("<<<M3205>>>" ++ check (runes_of_ascii "MetaData M {
}// c
options {}")).
Eval vm_compute in ("<<<M3193>>>" ++ check (runes_of_ascii "packet A {
}// a// b// c
")).
Eval vm_compute in ("<<<M1661>>>" ++ check (runes_of_ascii "options { } packet Packet")).
Eval vm_compute in ("<<<M4323>>>" ++ check (runes_of_ascii "packet
	a1 
{

    }

")).
Eval vm_compute in ("<<<M942>>>" ++ check (runes_of_ascii "
MetaData	string_ { }")).
Eval vm_compute in ("<<<M516>>>" ++ check (runes_of_ascii "packet Foo { } //	t")).
Eval vm_compute in ("<<<M2678>>>" ++ check (runes_of_ascii "options { a = b; }")).
Eval vm_compute in ("<<<M3175>>>" ++ check (runes_of_ascii "// c" ++ [8203]%N ++ runes_of_ascii "
packet A {
}")).
Eval vm_compute in ("<<<M3112>>>" ++ check (runes_of_ascii "packet A {
}// c" ++ [160]%N)).
Eval vm_compute in ("<<<M3954>>>" ++ check (runes_of_ascii "

  options{
} ")).
Eval vm_compute in ("<<<M3851>>>" ++ check (runes_of_ascii "packet tag {
}")).
Eval vm_compute in ("<<<M525>>>" ++ check (runes_of_ascii "
 // a // b")).
Eval vm_compute in ("<<<M2858>>>" ++ check (runes_of_ascii "f64 false")).
Eval vm_compute in ("<<<M2511>>>" ++ check (runes_of_ascii "@tag(1)")).
Eval vm_compute in ("<<<M986>>>" ++ check (runes_of_ascii "   	 ")).
Eval vm_compute in ("<<<M3148>>>" ++ check (runes_of_ascii "// c" ++ [8239]%N)).
Eval vm_compute in ("<<<M2752>>>" ++ check ([65533]%N ++ runes_of_ascii "<f" ++ [65533]%N)).
Eval vm_compute in ("<<<M2569>>>" ++ check (runes_of_ascii "a" ++ [12]%N ++ runes_of_ascii "b")).
Eval vm_compute in ("<<<M2824>>>" ++ check ([65533; 65533]%N)).
