From FP Require Import Lexer Parser ShowPT Digest Formatter.
From Coq Require Import String List NArith.
Import ListNotations.
Open Scope string_scope.
Set Printing Width 100000000.
Set Printing Depth 100000000.
Definition show_fres (r : fres) : string :=
  match r with
  | FOk s => "OK:" ++ sh_escaped s ""
  | FErr s => "ERR:" ++ sh_escaped s ""
  | FPanic p => "PANIC:" ++ p
  end.
Definition check (rs : list rune) : string := digest (show_fres (format_res rs)).
Definition full (rs : list rune) : string := show_fres (format_res rs).
Eval vm_compute in ("<<<M1710>>>" ++ check (runes_of_ascii "  // top
		options 
    // c0
  {  // c1
	  LittleEndian	// c2a
      // c2b

=	// c3
  	true 	 // c4
	;// c5a
	// c5b
  FixedStringPadFromLeft  // c6a
	// c6b
	=  true// c8
	;
FixedStringPadChar
=	// c11
'0'// c12
	; 
    // c13
  }
	// c14
	packet  // c15a
      // c15b

Trade 
	    // c16

	{

    string

    clOrdID
    // c19
,char[] 
// c21

Px 	 // c22
,	// c23
  u32	// c24a
  // c24b

x // c25

,// c26a
	// c26b
    	}	// c27

packet// c28
  Reject 
	// c29
		{  // c30
int32 Side2// c32
    	, 

// c33
  repeat 	 // c34
    	char[  // c35a
  	// c35b

3
    ] // c37

	clOrdID // c38a
      // c38b
  ,

i32 	 // c40
  tag7// c41a
// c41b

  ,	// c42a
// c42b
    	} // c43a
// c43b
packet
	// c44
  Leg 
  // c45
  	{
    }
    root 
      // c48
      packet 
Quote  
      // c50

	{
    // c51
		string// c52
		Side2  ,string
        // c55
  lastPx 
    // c56
  ,
        // c57
  InSym58  {  int16 OrderId 	 // c61a
// c61b
      ,	// c62a
	// c62b
    	Reject 	 // c63
	  , // c64
  i8 
Qty 	 // c66

	,

    // c67
	  i64 
// c68
  venue
	, 
f32	// c71
	  Note	,// c73
      }	// c74
  , // c75a
// c75b
  char[] 

// c76
  count  // c77
  ,
	zchar[ 
9 
]// c81a
  // c81b
  	price
        // c82
	  ,  // c83
  u16	// c84a

// c84b
Qty 

    // c85

,  
      // c86
match  // c87a
  // c87b
	  Qty  // c88

  as  // c89
  Body

    // c90
	{ // c91
    69// c92a

// c92b
	  :  // c93
	  Leg
,  48 // c96a
    // c96b
    :// c97
  	Trade  // c98a
  // c98b
  , 
    // c99
	51 
	// c100
    : // c101

Reject// c102a
  // c102b
, // c103
} 	 // c104

	,u16
	    // c106

Acct	// c107
    @calculatedFrom(// c108
    	""CRC32"" // c109a
	// c109b
) ,	// c111a
    // c111b

  }
")).
Eval vm_compute in ("<<<M1537>>>" ++ check (runes_of_ascii "
packet
    As
{@lengthOf(// c

  u8x
    )
repeat

u32

    T
	,

string
	Foo
@calculatedFrom( ""it's""
    )`doc`,

    @tag(
        // a // b
    // " ++ [27880; 37322]%N ++ runes_of_ascii "
  00) 	 //
    	@tag( 42 
) repeatCount  {packetx{repeat  // @lengthOf(
	f64
x_y_z

    `doc`//x
	, 
repeat 
char[
    65535
] crc,
}	,
    u16 A  ,
    o @lengthOf(  MetaDataX
)

    `// not a comment`
    ,
repeat string
    BodyLength	`
` 
	    /// triple
	,
}
,repeatCount @lengthOf(	chars ) ,
match  //	t
    	uint8x
as As 
{ 007

: 
Packet""""  :

Header
3
    :
	zchar
    7
    // packet A { u8 x, }
// " ++ [27880; 37322]%N ++ runes_of_ascii "
  :u128  , [

    4294967296 
,
    ""x y""  // " ++ [128512]%N ++ runes_of_ascii " emoji

	]	:  crc
[ 
""1"",
00  ] : 
      //x
		// @lengthOf(
      int
    ,

    }
	,
	@lengthOf(

Foo)repeat// " ++ [128512]%N ++ runes_of_ascii " emoji
    	u  {
string
    float
    // packet A { u8 x, }
      /// triple
    	, string

matchKey @calculatedFrom(
""it's"" // " ++ [128512]%N ++ runes_of_ascii " emoji
)
`it's`
,repeat Packet  repeatCount  ,} ,  @lengthOf(
T ) A 

//x
  @lengthOf(
    rootA  // c
    	)

``

, repeatCount 	 // " ++ [128512]%N ++ runes_of_ascii " emoji
		@calculatedFrom( ""packet"" ) 
,char[]x

    // `tick` ""quote"" 'q'
// packet A { u8 x, }
		@calculatedFrom( ""abc""	)`crlf
line`,}
packet
    i8i8 
    // c
// trailing space 
{
	}
options	{MetaDataX = true
	;	//x
charz  =
    true;
}
")).
Eval vm_compute in ("<<<M154>>>" ++ check (runes_of_ascii "root packet // packet A { u8 x, }
a1 {
    // " ++ [27880; 37322]%N ++ runes_of_ascii "
    repeat leftPad {
    // a // b
    lengthOf
, }
    ,
    @tag(// c
0123456789)int64 repeatCount ``,	match
int as len {
1 : repeatCount , """" : lengthOf,
[
""a\""b""
    , 255,
7 ,""it's"" ,255,
    00 , 7 , ""`tick`""
    //
    ]
    : msg_type , 42 :body
    ,
    } ,
    repeat asx { charz { char[ 007 ]f32a ,
    // a // b
    } ,match
    u as
    Z9_ { """ ++ [233]%N ++ runes_of_ascii "t" ++ [233]%N ++ runes_of_ascii """ : float
,
    // c
    ""1""
: Pad , [
    """", 10 ] // packet A { u8 x, }
: Header , [ 42 ]: repeatCount , 00// a // b
: T , } , } ,
@rightPad ( ' ' )
falsey,
    @tag( 0) @calculatedFrom(	""1"" )
@leftPad (
    '\x00') o , }
    MetaData i64_{ } packet x{
@lengthOf( Header) repeat
msg_type {
    repeat char[ 0123456789 ] u,
    // packet A { u8 x, }
    uint32
BodyLength	@lengthOf( _x) `crlf
line` , },} MetaData Header { Header
    options1,
    f32a
stringy ,
    char[] uint8x `a\` , char[ // trailing space 
1
    // packet A { u8 x, }
    ] u128, i32 Z9_
    ,
    float32 // a // b
msg_type,
    }

")).
Eval vm_compute in ("<<<M1688>>>" ++ check (runes_of_ascii "packet chars {
    int32 trueish,
    match Pad as repeatCount {
        [0] : Pad,
        /// triple
        3 : Foo,
        ""abc"" : i64_,
        [255, 3] : Packet,
        [0123456789, ""// no comment""] : Packet,
    },// c
    match a1 as u {
        [""abc"", """ ++ [233]%N ++ runes_of_ascii "t" ++ [233]%N ++ runes_of_ascii """, """", 0, 255] : u,
    },
    @tag(10)
    match a1 as a1 {
        [42] : packetx,
    },
    @lengthOf(As)
    repeat char[0123456789] repeatCount `tab	here`,
    string o `crlf
    line`,
    //x
    // a // b
    As @lengthOf(i8i8),
    string repeatCount @lengthOf(u128),
    //
    @tag(00)
    repeat pack Logon,
}

root packet Foo {
    @tag(1)
    char[3] i64_,
    f32 charz,// `tick` ""quote"" 'q'
    i8 zchar @lengthOf(MetaDataX),
    @tag(007)
    u8 _x,
    @tag(255)
    msg_type @calculatedFrom(""`tick`"") `doc`,
    @calculatedFrom(""" ++ [233]%N ++ runes_of_ascii "t" ++ [233]%N ++ runes_of_ascii """)
    match len as As {
        ""// no comment"" : falsey,
    },
}

MetaData leftPad {
    x i8i8,
}//")).
Eval vm_compute in ("<<<M1909>>>" ++ check (runes_of_ascii "packet options1 {
    @leftPad()
    @calculatedFrom(""\n"")
    @leftPad(' ')
    chars T `say ""hi""`,
    // @lengthOf(
    repeat zchar {
        metadata {
            // @lengthOf(
            // c
            match A as x_y_z {
                ""1"" : string_,
                // @lengthOf(
                [""// no comment"", 10] : Foo,
                ""a\\"" : Packet,
                [""a	b"", 65535] : x,
            },
        },
    },
    @rightPad()
    f32 msg_type,
    match f32a as body {
        [
            ""`tick`"", ""\n"", ""a	b"", ""{,}"", 255,
            ""x y"", 3
        ] : x,
        ""CRC32"" : zchar,
        ""x y"" : rootA,
        // `tick` ""quote"" 'q'
        [00, ""it's"", 4294967296, ""CRC32""] : roots,
        4294967296 : Logon,
    },
    @leftPad('0')
    pack `crlf
        line`,
}")).
Eval vm_compute in ("<<<M1438>>>" ++ check (runes_of_ascii "options {
    LittleEndian = false;
    StringPrefixLenType = u16;
    ArrayPrefixLenType = u32;
}
packet Order {
    uint8 x,
    repeat string venue,
}
packet Heartbeat {
    i64 count,
    zchar[1] Qty,
    repeat InX29 {
        InSeqno26 {
            int64 f1,
            char[5] Acct,
            Order,
        },
        repeat InSide285 {
            repeat Order,
            char[10] Px,
            zchar[9] OrderId,
        },
        char[] venue,
        Order,
    },
    @rightPad('\x00') char[4] clOrdID,
}
root packet Party {
    zchar[3] f1,
    u32 clOrdID,
    u32 Px @lengthOf(Body),
    match clOrdID as Body {
        [180, 64] : Heartbeat,
        11 : Order,
    },
    u32 Side2 @calculatedFrom(""CRC32""),
}
")).
Eval vm_compute in ("<<<M28>>>" ++ check (runes_of_ascii "root
// c
// packet A { u8 x, }
packet
    // packet A { u8 x, }
    f32a {@rightPad ()// packet A { u8 x, }
options1 ,uint64
    MetaDataX ,
x_y_z `two words` ,
// packet A { u8 x, }
// trailing space 
i8i8
    `" ++ [28040; 24687; 31867; 22411]%N ++ runes_of_ascii "` ,int16 f32a@lengthOf( zchar	) ,}
//x
//x
root
    packet u8x { @rightPad	(
' ' ) repeat a1
    { repeat string_ stringy  ,
    } , stringy// `tick` ""quote"" 'q'
a1
`// not a comment` ,
@tag(	4294967296 ) float64 o, @lengthOf(a1 )
repeat string_ {
    // `tick` ""quote"" 'q'
    match BodyLength// trailing space 
as int {65535:u
, } , pack
    options1`a\` ,
repeat lengthOf	matchKey , }
    , repeat
char[65535 ] BodyLength
    , }
")).
Eval vm_compute in ("<<<M1469>>>" ++ check (runes_of_ascii "// top
packet // c0a
  // c0b
Sub // c1
{ u8
    // c3
a , // c5a
  // c5b
u32 // c6a
  // c6b
SubSum
    // c7
@calculatedFrom( // c8
""CRC16"" )
    // c10
, } root // c13
packet Frame
    // c15
{ u16 MsgType
    // c18
, // c19a
  // c19b
u16
    // c20
BodyLen // c21
@lengthOf( // c22
Body // c23a
  // c23b
) // c24a
  // c24b
,
    // c25
Sub Body // c27
, string
    // c29
note , // c31a
  // c31b
u32 // c32a
  // c32b
Checksum @calculatedFrom( ""CRC16""
    // c35
) ,
    // c37
u8 // c38a
  // c38b
tail // c39a
  // c39b
, } // c41a
  // c41b
")).
Eval vm_compute in ("<<<M11>>>" ++ check (runes_of_ascii "packet u128 {
@rightPad ( )
@tag( 7) stringy
body , }// packet A { u8 x, }
root
    packet // " ++ [27880; 37322]%N ++ runes_of_ascii "
i64_
    { }
    packet falsey	{
float@lengthOf(_x //	t
)`" ++ [233]%N ++ runes_of_ascii "`
, i32 a1 ,
u {//	t
string	crc
,  } ,@leftPad
    // a // b
    (
)repeat
    options1 { calculatedFrom @calculatedFrom(
    ""it's"" ) `{ , }`	, zchar falsey `u8 x,` ,repeat falsey  , }
// packet A { u8 x, }
//x
, }root // " ++ [128512]%N ++ runes_of_ascii " emoji
packet pack
    { @tag( 0123456789 ) // @lengthOf(
repeat
//
// " ++ [27880; 37322]%N ++ runes_of_ascii "
uint32
roots, }")).
Eval vm_compute in ("<<<M1845>>>" ++ check (runes_of_ascii "  packet

    Pad 
{	@leftPad ('0'
	)

    @calculatedFrom(

""`tick`""
)// @lengthOf(
	match 
i64_ 
as
x	{ 
/// triple
    00

:

zchar ,}
	, i8i8
	o  // " ++ [27880; 37322]%N ++ runes_of_ascii "
      , char[]_x 
,	repeat
zchar[ 007 ]

    trueish,
zchar @lengthOf(
trueish
)
	`{ , }` 
, // c

  @calculatedFrom( 
""a\""b"" )	@tag( 1

)	trueish zchar  ,char[3

]  rootA

@calculatedFrom(""a\""b""  )
`tab	here` 
    //	t
    // trailing space 
    ,  }
")).
Eval vm_compute in ("<<<M1197>>>" ++ check (runes_of_ascii "// top
packet // c0
trueish // c1
{ // c2
repeat // c3
u32 // c4
MetaDataX // c5
`doc` // c6
, // c7
Header // c8
{ // c9
packetx // c10
o // c11
`u8 x,` // c12
, // c13
} // c14
, // c15
@leftPad // c16
( // c17
'\x00' // c18
) // c19
repeat // c20
char[ // c21
0123456789 // c22
] // c23
repeatCount // c24
, // c25
} // c26
packet // c27
Packet // c28
{ // c29
} // c30
")).
Eval vm_compute in ("<<<M45>>>" ++ check (runes_of_ascii "
packet stringy
{	falsey @lengthOf( MetaDataX )`crlf
line`
,match tag as uint8x{
""a\""b"" : charz
    , 00 :
    repeatCount , 10
: Header
    ""a	b""
    /// triple
    : Pad
,65535
    :
metadata
    ,
},
    @calculatedFrom( ""a\""b""
    )
    //x
    char[
    255 ]falsey , x_y_z
@calculatedFrom(  ""packet"")
    `tab	here` , }
")).
Eval vm_compute in ("<<<M265>>>" ++ check (runes_of_ascii "MetaData x { char[]crc , char[7 ]float, u64 //	t
f32a	,}
    packet
int
    {Pad/// triple
@lengthOf(Pad )
`{ , }`, }
    MetaData
/// triple
//
T {
A
i8i8`it's` ,
u8x options1 , roots zchar // `tick` ""quote"" 'q'
,	int16 u8x , char[] a1
`say ""hi""`, char
//	t
/// triple
Pad ,
    } // a // b")).
Eval vm_compute in ("<<<M1625>>>" ++ check (runes_of_ascii "packet
    crc

{ calculatedFrom  { 
string_
u
	,
rootA
	calculatedFrom	, } // packet A { u8 x, }
		,@lengthOf( len
)match	//x
  	roots 
    /// triple
	  as
    x{  ""// no comment""
: msg_type
,
	7: calculatedFrom
,

}
	,
    }
	packet  zchar 
{

    }
")).
Eval vm_compute in ("<<<M312>>>" ++ check (runes_of_ascii "options {
f32a= 3	;Logon
    =
    ""x y"";
len
=
10	}packet string_ {@lengthOf( MetaDataX ) // c
int32 f32a , _x @lengthOf( rootA) ,@rightPad ( ) stringy ,
@tag( 0123456789 )
    // a // b
    repeatCount @calculatedFrom( """ ++ [128512]%N ++ runes_of_ascii """
    ), }
")).
Eval vm_compute in ("<<<M563>>>" ++ check (runes_of_ascii "options
{
matchKey = 42/// triple
x='0' ;
// packet A { u8 x, }
//
charz
=
// packet A { u8 x, }
// trailing space 
true  ; } MetaData BodyLength
{
uint8
pack,zchar[ 1]float ,  float32 x_y_z `` ,u32
_x,i16 body  , ""CRC32""
")).
Eval vm_compute in ("<<<M417>>>" ++ check (runes_of_ascii "options
{
matchKey = 42/// triple
x= ='0' ;
// packet A { u8 x, }
//
charz
=
// packet A { u8 x, }
// trailing space 
true  ; } MetaData BodyLength
{
uint8
pack,zchar[ 1]float ,  float32 x_y_z `` ,u32
_x,i16 body  , }
")).
Eval vm_compute in ("<<<M543>>>" ++ check (runes_of_ascii "options
{
matchKey = 42/// triple
x='0' ;
// packet A { u8 x, }
//
charz
=
// packet A { u8 x, }
// trailing space 
true  ; } MetaData BodyLength
{
uint8
pack,zchar[ 1]float ,  float32 x_y_z `` ,u32
_x i16, body  , }
")).
Eval vm_compute in ("<<<M503>>>" ++ check (runes_of_ascii "options
{
matchKey = 42/// triple
x='0' ;
// packet A { u8 x, }
//
charz
=
// packet A { u8 x, }
// trailing space 
true  ; } MetaData BodyLength
{
uint8
pack,zchar[ 1], float  float32 x_y_z `` ,u32
_x,i16 body  , }
")).
Eval vm_compute in ("<<<M536>>>" ++ check (runes_of_ascii "options
{
matchKey = 42/// triple
x='0' ;
// packet A { u8 x, }
//
charz
=
// packet A { u8 x, }
// trailing space 
true  ; } MetaData BodyLength
{
uint8
pack,zchar[ 1]float ,  float32 x_y_z `` ,u32
,i16 body  , }
")).
Eval vm_compute in ("<<<M1579>>>" ++ check (runes_of_ascii "options {
    matchKey = 42/// triple
    x = '0';
    // packet A { u8 x, }
    //
    charz = true
}

MetaData BodyLength {
    uint8 pack,
    zchar[1] float,
    float32 x_y_z ``,
    u32 _x,
    i16 body,
}")).
Eval vm_compute in ("<<<M1536>>>" ++ check (runes_of_ascii "packet crc {
    @tag(0123456789)
    i64 uint8x,
}

MetaData i8i8 {
    zchar[65535] int,
}

packet lengthOf {
    // trailing space 
    //	t
    @leftPad('0')
    falsey int,
}
// @lengthOf(")).
Eval vm_compute in ("<<<M34>>>" ++ check (runes_of_ascii "options{// `tick` ""quote"" 'q'
len // `tick` ""quote"" 'q'
= """ ++ [28040; 24687]%N ++ runes_of_ascii """;
options1 = // " ++ [27880; 37322]%N ++ runes_of_ascii "
int32 zchar	=
    ""1"" ;float
= true tag =""" ++ [28040; 24687]%N ++ runes_of_ascii """ ; } MetaData u128 { msg_type i8i8 `doc` ,	o body
, }
")).
Eval vm_compute in ("<<<M1370>>>" ++ check (runes_of_ascii "// top
root // c0
packet P // c2a
  // c2b
{ u16 // c4
a // c5a
  // c5b
, // c6
u32 // c7
Sum @calculatedFrom(
    // c9
""CRC32"" // c10
) , // c12a
  // c12b
} // c13a
  // c13b
")).
Eval vm_compute in ("<<<M505>>>" ++ check (runes_of_ascii "options
{
matchKey = 42/// triple
x='0' ;
// packet A { u8 x, }
//
charz
=
// packet A { u8 x, }
// trailing space 
true  ; } MetaData BodyLength
{
uint8
pack,zchar[ 1]")).
Eval vm_compute in ("<<<M1361>>>" ++ check (runes_of_ascii "options
    { LittleEndian =	true
	;
} 
packet  B{ u8

a
    ,  string s

,

    } root

packet	P	{

u16	L  @lengthOf( B
)
,

    B
	, u8
    t  ,
	}
")).
Eval vm_compute in ("<<<M1507>>>" ++ check (runes_of_ascii "packet

    A
{
    Inner {

    match

k as

    n  {	[
1
	,
    22 ,
007 
,

    4 
,5  , 
66	,

    7 ]

: B

, } ,
	} 
,

    }
")).
Eval vm_compute in ("<<<M1861>>>" ++ check (runes_of_ascii "packet A {
    match k as n {
        [
            1, 22, 007, 4, 5,
            66, 7, 8, 9, 10
        ] : B,
        2 : C,
    },
}")).
Eval vm_compute in ("<<<M1947>>>" ++ check (runes_of_ascii "  packet

A
{match k
	as n {
[  ""a"" ,
    ""bb"" ,

    007	,  ""d"",""e""
	, 66  ,
    ""g"", ""h""  ,  9 ]	: B

,
2
:
    C
    }
,
}")).
Eval vm_compute in ("<<<M1564>>>" ++ check (runes_of_ascii "  packet

A {	match k

as  n{
[  1  ,

    22 , 007  ,
4
	, 5
	,
66,
	7
,8, 
9
, 10
,

    11]
: B
    , 2 : C } ,}")).
Eval vm_compute in ("<<<M1525>>>" ++ check (runes_of_ascii "options {
    Pad = 3;
    float = false;
    Z9_ = ""packet""
    chars = ""a\""b""
    float = ""a\\""
}

MetaData zchar {
}")).
Eval vm_compute in ("<<<M623>>>" ++ check (runes_of_ascii "MetaData
    // trailing space 
    matchKey
{ u64 chars // a // b
,char[] `// not a comment` lengthOf
    , //	t
}")).
Eval vm_compute in ("<<<M99>>>" ++ check (runes_of_ascii "// c
packet Logon
    {
@tag(
42 )
    repeat i64_ {As crc , }, } packet x_y_z { @lengthOf( x_y_z ) i8
u `it's`, }")).
Eval vm_compute in ("<<<M1789>>>" ++ check (runes_of_ascii "

  MetaData
	// " ++ [128512]%N ++ runes_of_ascii " emoji
  msg_type
{

    As
roots  , i32
	rootA  ,
	f64
    falsey
, char[] rootA
	,}
")).
Eval vm_compute in ("<<<M1970>>>" ++ check (runes_of_ascii "
packet	// c
    o
	{ @tag( 42
)	repeat x { char[	0123456789
]
    i64_

    , 
}
	, }	options
    {
} ")).
Eval vm_compute in ("<<<M1264>>>" ++ check (runes_of_ascii "packet calculatedFrom { @tag( 4294967296 )
// c
u msg_type , char[ 3 ] crc @lengthOf( len ) `u8 x,` , }")).
Eval vm_compute in ("<<<M912>>>" ++ check (runes_of_ascii "packet A {
  match k as n {
    [1, 22, ""c c"", 4, 5, ""f"", 7, 8, ""i"", 10, 11, ""l""] : B
    2 : C
  },
}")).
Eval vm_compute in ("<<<M899>>>" ++ check (runes_of_ascii "packet A {
  match k as n {
    [1, 22, ""c c"", 4, 5, ""f"", 7, 8, ""i"", 10, 11] : B
    2 : C
  },
}")).
Eval vm_compute in ("<<<M1142>>>" ++ check (runes_of_ascii "packet Logon { @tag( 42 ) @rightPad // c
( ' ' ) @leftPad ( ) repeat trueish { string T , } , }")).
Eval vm_compute in ("<<<M1957>>>" ++ check (runes_of_ascii "

  packet A
    {	Inner{match

    k as n
	{
    [ 1
    ,22 ,007 ] :
    B  ,  }
	,
} ,
}
")).
Eval vm_compute in ("<<<M1581>>>" ++ check (runes_of_ascii "// top
root packet P {
    // c3
    repeat char cs,
    u8 x,// c10a
    // c10b
}
// c11")).
Eval vm_compute in ("<<<M2009>>>" ++ check (runes_of_ascii "packet
A

{Logon{
    repeat

char[42
]falsey	`a\`
	,  repeat  int32 T
,
} ,

    }
")).
Eval vm_compute in ("<<<M831>>>" ++ check (runes_of_ascii "packet A {
  match k as n {
    [""a"", 22, ""c c"", 4, ""e"", 66] : B,
    2 : C
  },
}")).
Eval vm_compute in ("<<<M1225>>>" ++ check (runes_of_ascii "packet o { @tag( 42 ) repeat x {
// c
char[ 0123456789 ] i64_ , } , } options { }")).
Eval vm_compute in ("<<<M1093>>>" ++ check (runes_of_ascii "packet A { u16 // a
 len // b
 @lengthOf( // c
 body // d
 ) // e
 `d` // f
 , }")).
Eval vm_compute in ("<<<M1940>>>" ++ check (runes_of_ascii "MetaData matchKey {
    u64 chars,
    i16 lengthOf `// not a comment`,//	t
}")).
Eval vm_compute in ("<<<M821>>>" ++ check (runes_of_ascii "packet A {
  match k as n {
    [1, 22, ""c c"", 4, 5] : B
    2 : C
  },
}")).
Eval vm_compute in ("<<<M876>>>" ++ check (runes_of_ascii "packet A { Inner { match k as n { [1,22,007,4,5,66,7,8,9] : B, }, }, }")).
Eval vm_compute in ("<<<M863>>>" ++ check (runes_of_ascii "packet A { Inner { match k as n { [1,22,007,4,5,66,7,8] : B, }, }, }")).
Eval vm_compute in ("<<<M783>>>" ++ check (runes_of_ascii "packet A {
  match k as n {
    [""a"", 22] : B,
    2 : C
  },
}")).
Eval vm_compute in ("<<<M223>>>" ++ check (runes_of_ascii "options //	t
{  MetaDataX = // " ++ [128512]%N ++ runes_of_ascii " emoji
'0';  } /// triple")).
Eval vm_compute in ("<<<M356>>>" ++ check (runes_of_ascii "packet
    x_y_z {
i8 As@calculatedFrom(""a	b""	)  ,}")).
Eval vm_compute in ("<<<M355>>>" ++ check (runes_of_ascii "root
    packet repeatCount {	A	,
    } 	 ")).
Eval vm_compute in ("<<<M1117>>>" ++ check (runes_of_ascii "MetaData zchar { zchar[ 3 ] Pad
// c
, }")).
Eval vm_compute in ("<<<M1896>>>" ++ check (runes_of_ascii "packet A {
    u8 x,// c
    u8 y,
}")).
Eval vm_compute in ("<<<M1916>>>" ++ check (runes_of_ascii "packet A {
    u8 x `d" ++ [65279]%N ++ runes_of_ascii "`,// c" ++ [65279]%N ++ runes_of_ascii "
}")).
Eval vm_compute in ("<<<M1057>>>" ++ check (runes_of_ascii "packet A {
 u8 x `d" ++ [6158]%N ++ runes_of_ascii "`, // c" ++ [6158]%N ++ runes_of_ascii "
}")).
Eval vm_compute in ("<<<M1079>>>" ++ check (runes_of_ascii "options { a = 1 // a
 ; }")).
Eval vm_compute in ("<<<M760>>>" ++ check ([8]%N ++ runes_of_ascii "9" ++ [65533]%N ++ runes_of_ascii "?/" ++ [3; 65533]%N ++ runes_of_ascii "D" ++ [65533; 65533]%N ++ runes_of_ascii "z2" ++ [65533]%N ++ runes_of_ascii "[:" ++ [65533; 65533]%N ++ runes_of_ascii "DW" ++ [647]%N ++ runes_of_ascii "|1")).
Eval vm_compute in ("<<<M1827>>>" ++ check (runes_of_ascii "root packet Z9_ {
}")).
Eval vm_compute in ("<<<M1045>>>" ++ check (runes_of_ascii "packet A {
}
// c" ++ [8203]%N)).
Eval vm_compute in ("<<<M1743>>>" ++ check (runes_of_ascii "MetaData i64_ {
}")).
Eval vm_compute in ("<<<M395>>>" ++ check (runes_of_ascii "options")).
Eval vm_compute in ("<<<M727>>>" ++ check (runes_of_ascii "		")).
