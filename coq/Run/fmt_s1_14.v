From FP Require Import Lexer Parser ShowPT Digest Formatter.
From Coq Require Import String List NArith.
Import ListNotations.
Open Scope string_scope.
Set Printing Width 100000000.
Set Printing Depth 100000000.
Definition show_fres (r : fres) : string :=
  match r with
  | FOk s => "OK:" ++ sh_escaped s ""
  | FErr s => "ERR:" ++ sh_escaped s ""
  | FPanic p => "PANIC:" ++ p
  end.
Definition check (rs : list rune) : string := digest (show_fres (format_res rs)).
Definition full (rs : list rune) : string := show_fres (format_res rs).
Eval vm_compute in ("<<<M4192>>>" ++ check (runes_of_ascii "
options{
	Logon

    =int64
zchar
=

    '0' ;x_y_z
= ""abc"" ; }
root  packet
	Packet

{ @calculatedFrom(  ""// no comment"")
char[]
o // c
  	,@lengthOf(
uint8x  )

i32 
metadata 
,
@rightPad(

' '
)
repeat
	Foo	{BodyLength{
	i8i8

    `{ , }`,
}
,match
_x
as charz

    {42 :
Pad,
},Pad zchar

    ,string

charz
, 

// trailing space 
	},
char[
1 
] Foo ,	@lengthOf(	f32a  )@leftPad
( '\x00' )

    match

calculatedFrom 
as
u8x	{0123456789 :
Packet	""a\""b""// packet A { u8 x, }
:  //
charz ,
    4294967296 :
f32a	[
""packet""]
:zchar 
, ""packet""
	:
    a1 
,
}
    , _x {repeat  char[0 
] len
	,
}
    ,

    zchar[
//	t
    // c
0123456789
]pack 
@lengthOf( asx )	,	}packet
    Pad { 

    // trailing space 
	  //	t

	@lengthOf(

u8x

) char[ 
0

    ] options1 `it's` ,
	@lengthOf(body

)

    u128

    {  Z9_ { 
string_ @calculatedFrom(

    ""CRC32"")`" ++ [233]%N ++ runes_of_ascii "`
,} //	t
  	,match Header as	o

{

""packet"" : i64_

    ,
	""" ++ [28040; 24687]%N ++ runes_of_ascii """ : leftPad

,  3	:
    i64_,  }

    ,

    int8
body

@calculatedFrom(

    ""a\\""
)`
` , repeat
Pad
{ 	 // " ++ [128512]%N ++ runes_of_ascii " emoji
    zchar[
	1 ]
    metadata @lengthOf( 
Z9_)	`// not a comment` 
,	rootA
metadata ,	u32 i8i8

    @lengthOf(
    roots	)

    ,
repeat 
	    //	t
	// @lengthOf(
  uint64
pack , 
}
,
	} 
,
    char[
    0

    ] chars
        // " ++ [128512]%N ++ runes_of_ascii " emoji
    // `tick` ""quote"" 'q'
    ,
	i8 msg_type  `" ++ [233]%N ++ runes_of_ascii "` 
, match u	as
	body// c
{
42
:
zchar

}

,
    @leftPad ( ' '
)  asx
{ repeat
repeatCount
	Z9_  ,
	repeat 	 //	t
    zchar[4294967296 
]  //
      Pad, } ,
	@tag( 
255
	) 
@tag(
	255	) char[

    0123456789
] u8x, 
//	t
  @calculatedFrom(

    ""CRC32""	)  // trailing space 
      char[	3

]
	Pad `" ++ [233]%N ++ runes_of_ascii "`	,

    @lengthOf( 
x_y_z

)  @rightPad (// `tick` ""quote"" 'q'
  )
@rightPad
    ( 
/// triple
	)Foo{
match
asx 
as	lengthOf
	{

[	""""	,00
	,  ""1""
,
	""// no comment""
	, 4294967296

,
007 , ""{,}"" ]
	: MetaDataX , }
,

} ,  }// c

	root packet
crc  
      // " ++ [27880; 37322]%N ++ runes_of_ascii "
    //x
  { repeat  i32
body
,	float64
    // c
	Header 
`u8 x,`  ,string 
Foo@lengthOf( packetx  // trailing space 
    	),

char[]

    As

    `" ++ [28040; 24687; 31867; 22411]%N ++ runes_of_ascii "` ,

string_	@calculatedFrom( ""\" ++ [233]%N ++ runes_of_ascii """
	)`it's`
,	@calculatedFrom(	""CRC32""	)
@tag(
    1 
)

    repeat
	trueish packetx  // @lengthOf(
    , }

MetaData 
f32a {
char[]

    Header
    ,}")).
Eval vm_compute in ("<<<M184>>>" ++ check (runes_of_ascii "MetaData float {
    lengthOf u128 `tab	here` ,u x ,
metadata crc `line1
line2` ,
} root
packet//
trueish { @leftPad (
'0'
    ) repeat zchar[ 10 ] lengthOf `u8 x,`
    ,@leftPad
// " ++ [27880; 37322]%N ++ runes_of_ascii "
// trailing space 
('\x00'	) zchar[ 255 ] tag
// a // b
// @lengthOf(
,
@leftPad	(
    ) u128 trueish, chars@lengthOf(
    i64_
) `it's` //	t
,
    @tag( 10 ) zchar[
    007 ] asx, char[
1]
    zchar,
// `tick` ""quote"" 'q'
// trailing space 
@tag( 7
    // packet A { u8 x, }
    ) @calculatedFrom(""packet""
    )	match  f32a as
uint8x{
00  :Header , 007// trailing space 
: charz ,[ 255 , """ ++ [233]%N ++ runes_of_ascii "t" ++ [233]%N ++ runes_of_ascii """ ] :
rootA
    // `tick` ""quote"" 'q'
    ""it's"" :
    lengthOf
,""x y"" :
pack //x
,
""" ++ [28040; 24687]%N ++ runes_of_ascii """
: _x , } , repeat Header { char[ 7] i8i8 ,char  msg_type @lengthOf(pack ) `line1
line2`
,
// packet A { u8 x, }
// a // b
uint8
crc @lengthOf(
zchar ) `line1
line2` ,} , } packet Foo
    { } packet// @lengthOf(
Foo { zchar[0123456789
    ]
    packetx
    @calculatedFrom(
""packet"" // packet A { u8 x, }
)
    `doc`  , zchar @calculatedFrom( ""\n""//	t
)
`
` , @leftPad  ( '\x00' )
    @tag( // trailing space 
65535 ) char[ 0
/// triple
// c
] metadata@calculatedFrom( ""a\""b"" ), repeat
    lengthOf{ lengthOf
`" ++ [233]%N ++ runes_of_ascii "`
    // `tick` ""quote"" 'q'
    ,
} , As , }
packet BodyLength {//x
@calculatedFrom( ""a\""b""
)
    @lengthOf( x ) @tag( 00
) Packet zchar
    `` ,
@tag(0123456789 )	repeat	char[ 255 ]  x `it's`,// a // b
u
// " ++ [128512]%N ++ runes_of_ascii " emoji
// c
{ match BodyLength
as
// packet A { u8 x, }
// `tick` ""quote"" 'q'
tag
    {3
: matchKey ,} ,
} ,@tag( 0123456789 )
    // " ++ [128512]%N ++ runes_of_ascii " emoji
    char	asx `line1
line2`,@lengthOf( chars ) @calculatedFrom(
""a	b"" )f64 len
    , match int as //x
BodyLength { 1
:
    Header ,[ 0 ] :// c
tag
""" ++ [28040; 24687]%N ++ runes_of_ascii """ :asx, } , @leftPad
( ' '
    ) metadata `crlf
line` ,
// `tick` ""quote"" 'q'
// trailing space 
len
@lengthOf( metadata
    ), zchar[  65535 ]
    A
@lengthOf( // c
trueish )
,@leftPad ( '0'
)
repeatCount Z9_
    `" ++ [233]%N ++ runes_of_ascii "`  ,
} 	 ")).
Eval vm_compute in ("<<<M4499>>>" ++ check (runes_of_ascii "root packet zchar {
    repeatCount @lengthOf(asx),
    match string_ as o {
        7 : packetx,
        7 : Pad,
    },// packet A { u8 x, }
    zchar[65535] T @calculatedFrom(""" ++ [128512]%N ++ runes_of_ascii """),
    tag @lengthOf(u) `crlf
        line`,
    @calculatedFrom("""")
    _x @calculatedFrom(""a	b"") `// not a comment`,
    match Z9_ as float {
        0123456789 : calculatedFrom,
        ""{,}"" : u,
    },
    @leftPad()
    @tag(255)
    @lengthOf(i8i8)
    match tag as trueish {
        4294967296 : uint8x,
        [65535] : u8x,
        10 : i64_,
        """" : metadata,
    },
    int64 T,
}

root packet len {
    @tag(0)
    Logon,
    @tag(255)
    repeat u64 packetx `it's`,
    @tag(4294967296)
    zchar[007] repeatCount `a\`,
    char[4294967296] asx @calculatedFrom(""it's""),
}

root packet asx {
    uint16 options1 @lengthOf(matchKey) `it's`,
}

root packet Logon {
    @lengthOf(asx)
    @calculatedFrom(""packet"")
    Z9_ @calculatedFrom(""" ++ [28040; 24687]%N ++ runes_of_ascii """),
    @tag(007)
    zchar[0123456789] i64_,
    msg_type `line1
        line2`,
    repeat zchar[007] Pad `
        `,
    falsey {
        chars lengthOf ``,
        match Header as lengthOf {
            """ ++ [233]%N ++ runes_of_ascii "t" ++ [233]%N ++ runes_of_ascii """ : falsey,
            42 : uint8x,
            [
                007, 65535, 42, ""abc"", ""abc"",
                ""a\\"", ""a\""b"", ""{,}""
            ] : charz,
        },
        int64 Foo,
        Z9_ @lengthOf(int) `it's`,
    },
    @rightPad()
    // trailing space 
    string As @calculatedFrom(""" ++ [28040; 24687]%N ++ runes_of_ascii """),
    // c
    match matchKey as repeatCount {
        4294967296 : msg_type,
        """ ++ [28040; 24687]%N ++ runes_of_ascii """ : zchar,
        3 : u8x,
        """" : asx,
    },
}")).
Eval vm_compute in ("<<<M766>>>" ++ check (runes_of_ascii "
packet Packet {
@tag( 10 // a // b
) match trueish as x_y_z
{ ""it's"" : i8i8 ,
// " ++ [27880; 37322]%N ++ runes_of_ascii "
// " ++ [27880; 37322]%N ++ runes_of_ascii "
00: asx } , zchar[ 007] u
@calculatedFrom( ""`tick`"")`line1
line2`  ,
    /// triple
    chars @calculatedFrom( """"),
    match
    zchar
as _x
{00 : rootA
""\" ++ [233]%N ++ runes_of_ascii """: metadata
// c
// trailing space 
,	}
// a // b
//
, body
    {
    u32 u128 @calculatedFrom( ""{,}"" ) , repeat char[
    //x
    4294967296	]u `say ""hi""` ,
} // c
,
    @lengthOf(stringy
    ) float
{string//x
leftPad, repeat	uint16 Pad ,char u // @lengthOf(
, // " ++ [128512]%N ++ runes_of_ascii " emoji
i8i8 u ,
    } ,	match o as
x
    {  [ ""`tick`"" ,
""1"" , 10 ,
//
// c
1 , 00, 0 , 255] :uint8x//
, 0 : T , //
1 :trueish 1
: rootA, } // @lengthOf(
, zchar[ //	t
255 ] T`line1
line2` , @leftPad ( '0' // c
) @leftPad
( '\x00')
@tag(	007 ) match T
as
    u8x{ [ 007
]
: A , 0 :x,[ 4294967296 ] :
charz,"""" : As //
, 7
    :// `tick` ""quote"" 'q'
int ,
65535: x_y_z
,
    }, // trailing space 
} options{ /// triple
x
= '\x00' ; // packet A { u8 x, }
}
    // " ++ [128512]%N ++ runes_of_ascii " emoji
    root packet i64_ {  @tag(4294967296  ) falsey options1// `tick` ""quote"" 'q'
, uint64 Pad `doc` , @tag(
65535 )
    char
// " ++ [128512]%N ++ runes_of_ascii " emoji
/// triple
Logon @calculatedFrom(
    """"
// @lengthOf(
// c
)
    ,char[ 0 // @lengthOf(
]MetaDataX `a\` /// triple
, //
metadata f32a `tab	here` , stringy Header ,
    @leftPad () //x
@calculatedFrom(// c
""\" ++ [233]%N ++ runes_of_ascii """ ) @calculatedFrom(""" ++ [128512]%N ++ runes_of_ascii """ )
    char[] body @calculatedFrom( ""a	b"" )	`a\` , }")).
Eval vm_compute in ("<<<M1103>>>" ++ check (runes_of_ascii "packet body {
@tag(00) options1 @calculatedFrom(""1""
)
    ,@calculatedFrom(
// " ++ [27880; 37322]%N ++ runes_of_ascii "
// packet A { u8 x, }
""abc"" )
uint8x
    {o
    //	t
    , // c
u16 float
`a\` ,} , @tag( 1 ) u `u8 x,` ,crc { zchar{ match/// triple
i8i8 as // trailing space 
int {	""`tick`"": x_y_z,
}, repeat uint8 f32a,
    }
,// c
i8 As@lengthOf( Foo  ) `it's`
,charz@calculatedFrom(
""it's"") , char[ 4294967296 ] Packet `it's` , } ,
    @lengthOf( Z9_
)  crc  { repeat options1 {
match // `tick` ""quote"" 'q'
MetaDataX
as
    pack
    { [
//	t
//
""a\\"" ]
: i8i8 ,""a\\""  :falsey [""packet""
] : Logon,	[ 4294967296 ,
    ""abc"" ,""{,}"",//x
3 , """ ++ [128512]%N ++ runes_of_ascii """ , 7 ,00
,
    7
    ] : matchKey ,
0 : trueish ,
} ,x_y_z repeatCount , repeat uint16 repeatCount //
, },
options1
, // " ++ [128512]%N ++ runes_of_ascii " emoji
falsey{ char[]
    u `u8 x,` ,  } , }
,
} root packet Pad { match o // trailing space 
as a1{ [
"""" ,
""packet""
    // c
    , 1 ,
    //	t
    0123456789 // trailing space 
]
    : charz
,// trailing space 
""a\""b""
:
x_y_z ,
[
    ""CRC32""
, 007, 255
] :
float , 4294967296 : int ,
""{,}"" :stringy ,
    4294967296: A,
} ,	@rightPad
    () @tag(
    7 //
) match // packet A { u8 x, }
uint8x
as
crc{  255
: pack , }
    ,repeat int8
i8i8 ,} packet a1
{ string As  @calculatedFrom(
    ""a	b""
    ),} MetaData u {  }
    //x
    root packet f32a {	}")).
Eval vm_compute in ("<<<M4397>>>" ++ check (runes_of_ascii "packet lengthOf {
    matchKey `doc`,
    i8i8 {
        match crc as zchar {
            [1, 0, 0123456789, 65535, ""abc""] : chars,
            ""\n"" : uint8x,
            ""a\""b"" : int,
            [
                4294967296, 4294967296, ""`tick`"", ""a	b"", ""a	b"",
                """", ""a\""b""
            ] : string_,
            0123456789 : A,
            ""packet"" : asx,
        },
        char[00] u8x `u8 x,`,
        u8x {
            uint32 float @calculatedFrom(""{,}""),
            //	t
            // " ++ [128512]%N ++ runes_of_ascii " emoji
            char[0] zchar,
        },
        falsey @calculatedFrom(""" ++ [128512]%N ++ runes_of_ascii """),
    },
    @calculatedFrom(""1"")
    zchar[255] metadata @lengthOf(packetx),
    Header @calculatedFrom(""CRC32""),
    // c
    // trailing space 
    float @lengthOf(crc) ``,
    @tag(42)
    @lengthOf(A)
    @lengthOf(u128)
    stringy `" ++ [233]%N ++ runes_of_ascii "`,
    @leftPad('0')
    char[4294967296] float,
    u `" ++ [233]%N ++ runes_of_ascii "`,
    @lengthOf(falsey)
    @lengthOf(lengthOf)
    repeat f32 matchKey `line1
    line2`,
}

options {
    lengthOf = string;
}

packet falsey {
    @tag(1)
    int16 repeatCount @lengthOf(charz) `a\`,
    repeat u64 MetaDataX `say ""hi""`,
}

options {
    x = ""abc""
}

MetaData BodyLength {
    zchar[4294967296] zchar,
}")).
Eval vm_compute in ("<<<M127>>>" ++ check (runes_of_ascii "root packet As// `tick` ""quote"" 'q'
{
    @calculatedFrom( ""{,}""	)zchar[ 4294967296
    // packet A { u8 x, }
    ]As ,@tag( 7 ) repeat
    pack
    {body
    {// trailing space 
zchar[
65535 //x
] MetaDataX `doc`
, string_ @lengthOf( // " ++ [27880; 37322]%N ++ runes_of_ascii "
Logon  ) , i64 MetaDataX@calculatedFrom( """" )// " ++ [27880; 37322]%N ++ runes_of_ascii "
`a\`, //x
repeat char[] Foo,	} ,
/// triple
// packet A { u8 x, }
},@lengthOf( MetaDataX
    ) @calculatedFrom(
""\n""	) @lengthOf( float )
char[ 0123456789 ] a1 @calculatedFrom( ""a\""b"") ,
repeat msg_type  { // `tick` ""quote"" 'q'
repeat f64 Packet`a\` , int64 asx@calculatedFrom( ""{,}"" )`" ++ [233]%N ++ runes_of_ascii "`  ,zchar[3  ]
    metadata	,	zchar[
00 ] x_y_z
    @calculatedFrom( ""CRC32""
) , }, } packet calculatedFrom // a // b
{ match calculatedFrom as BodyLength{ 65535
: Foo ,
    }, match
    int as falsey {  42 : body, [ ""abc""
// " ++ [128512]%N ++ runes_of_ascii " emoji
// " ++ [27880; 37322]%N ++ runes_of_ascii "
,
    ""\n"" , ""abc""
,""" ++ [28040; 24687]%N ++ runes_of_ascii """	]:stringy
    // `tick` ""quote"" 'q'
    , [0123456789
, ""{,}""
,
42
    , 1
]// " ++ [27880; 37322]%N ++ runes_of_ascii "
: trueish , ""`tick`"" :metadata ,  [ ""1"" , ""a	b"" , 42
]
: zchar}
    ,repeat zchar[  4294967296 ]stringy `line1
line2`
, } options // @lengthOf(
{stringy= // packet A { u8 x, }
' '/// triple
; }")).
Eval vm_compute in ("<<<M3670>>>" ++ check (runes_of_ascii "packet Packet {
    MetaDataX {
        // " ++ [128512]%N ++ runes_of_ascii " emoji
        // trailing space 
        zchar[255] crc @calculatedFrom(""`tick`"") `doc`,// c
    },
    u32 As `
    `,
    @lengthOf(chars)
    f64 leftPad `// not a comment`,
    repeat char[3] len `doc`,
    match u8x as chars {
        4294967296 : f32a,
        [255, 4294967296] : string_,
        0 : chars,
        // packet A { u8 x, }
        ""a\""b"" : options1,
        7 : falsey,
    },
    @lengthOf(len)
    repeat char[10] Header `crlf
    line`,// " ++ [27880; 37322]%N ++ runes_of_ascii "
    rootA asx `two words`,
}

packet Packet {
    @tag(00)
    u16 asx,
    @calculatedFrom(""a\""b"")
    charz @lengthOf(a1),
    @lengthOf(asx)
    repeat string falsey,
    u32 options1 @lengthOf(packetx) `it's`,
}

packet metadata {
    int16 i8i8,
    i32 tag `line1
    line2`,
    @calculatedFrom(""a\\"")
    @lengthOf(repeatCount)
    MetaDataX {
        repeat x_y_z,
    },
    lengthOf tag `" ++ [233]%N ++ runes_of_ascii "`,
}

MetaData Foo {
    body chars,
    char[] asx `// not a comment`,
    char u8x,
    x trueish `crlf
    line`,
    char[] options1 `u8 x,`,
}")).
Eval vm_compute in ("<<<M3607>>>" ++ check (runes_of_ascii "options {
    LittleEndian = true;
    StringPrefixLenType = u16;
    ArrayPrefixLenType = u8;
    FixedStringPadChar = '0';
}
packet Logout {
    repeat i16 f1,
    string Ref,
    @rightPad('\x00') char[9] Tail,
    repeat char[6] Flags,
    repeat char[3] Acct,
}
packet Party {
    char[2] f1,
    u8 Side2,
    @leftPad(' ') char[1] venue,
}
packet Order {
    repeat i64 Ref,
    InPx62 {
        i32 OrderId,
    },
    InNote53 {
        InClordid80 {
            char[] Acct,
            u32 Px,
            repeat Party,
        },
        InPrice12 {
            u8 pad0,
        },
        repeat Logout,
        InFlags23 {
            repeat string seqNo,
            string sym,
            int8 Flags,
            zchar[5] lastPx,
            zchar[6] Px,
        },
        char[10] Acct,
        InPx18 {
            zchar[2] count,
            Party,
        },
    },
    char[5] Side2,
    char[1] Acct,
}
root packet Ack {
    u32 Tail,
    repeat char[4] msgKind,
    repeat Logout,
}
")).
Eval vm_compute in ("<<<M3609>>>" ++ check (runes_of_ascii "options	{

    LittleEndian  =
true

;StringPrefixLenType =u16 ;
ArrayPrefixLenType	= u8

;
	FixedStringPadChar
= '0'

    ; }

    packet  Logout {

repeat i16	f1
	,
string
    Ref,
    @rightPad  (

    '\x00'	) char[
    9

    ]Tail
    , repeat char[
6
]
Flags

,

repeat
char[ 3] 
Acct ,
} packet	Party 
{ 
char[
	2
] f1 
,	u8
	Side2

,
	@leftPad(

' ')
	char[

1] venue	,}	packet  Order{	repeat
    i64
    Ref

    , InPx62
{  i32 OrderId , 
} ,InNote53
{	InClordid80

    { char[]  Acct
    ,
    u32

    Px
,
    repeat  Party 
,}  ,
InPrice12
{

    u8

    pad0, }
,  repeat 
Logout ,InFlags23 { repeat

string
    seqNo	,
    string
	sym

    ,
int8

Flags
,
    zchar[5]lastPx

    ,zchar[
6	]  Px , } ,
char[
	10 ]Acct
,InPx18{
zchar[2 ]
count 
,Party , },

}	,
char[

5 
]
Side2 ,
char[

    1

]
Acct 
, }
    root
packet	Ack	{ u32  Tail	, repeat
char[4]  msgKind,  repeat Logout

, }

")).
Eval vm_compute in ("<<<M261>>>" ++ check (runes_of_ascii "root packet pack { match MetaDataX as Packet { 7: trueish , /// triple
""" ++ [233]%N ++ runes_of_ascii "t" ++ [233]%N ++ runes_of_ascii """: MetaDataX
,4294967296
:msg_type  65535 : metadata ,3: x_y_z 42 :
//
/// triple
_x// trailing space 
,}	, } packet x_y_z
    {repeat crc	metadata,match A as u8x  { [""it's"" ,""\" ++ [233]%N ++ runes_of_ascii """ ,
0123456789  , ""1"" ,""abc""
,""// no comment"", 4294967296 ]
: pack ,007 : tag , } , } packet
// c
//x
repeatCount  { @lengthOf(stringy )
uint8 f32a , }options
{
BodyLength
    =  '\x00' ; body
    = ' ' ; } packet
    charz { repeat Z9_ rootA `two words` , //
@calculatedFrom( ""a\\""  ) f32a @lengthOf( msg_type
    )	`say ""hi""` ,int8 As , string	stringy
@lengthOf(options1 )
`crlf
line`,	i8 i8i8
, f32a options1,
@leftPad(
    '\x00' )
u
    @calculatedFrom( """ ++ [128512]%N ++ runes_of_ascii """
) ,
@calculatedFrom(
""\" ++ [233]%N ++ runes_of_ascii """ ) @tag(  00 ) @tag(
0)
int64 trueish@calculatedFrom(""`tick`"" // trailing space 
)
, @leftPad (
' ' )
    zchar@lengthOf( Z9_ )
,} // " ++ [27880; 37322]%N)).
Eval vm_compute in ("<<<M4365>>>" ++ check (runes_of_ascii "packet
    int
    {

@tag(

00 ) float ,	@leftPad (	'0'
	)	@calculatedFrom( """ ++ [28040; 24687]%N ++ runes_of_ascii """	) match
    crc 
as body	{ ""`tick`""
	: msg_type	} 	 // @lengthOf(
    ,

    Logon  ,
repeat

    u8x

    ,  // " ++ [27880; 37322]%N ++ runes_of_ascii "

}

    packet
    MetaDataX 
{
	}packet
    string_ {	repeat	//
Header Header 
,	// trailing space 

}
packet

A
	{ @rightPad	// " ++ [27880; 37322]%N ++ runes_of_ascii "
	(
'\x00'	// trailing space 
  )@leftPad (
	' ' ) 
repeat
uint64	matchKey// trailing space 

	, f32 
len 	 // @lengthOf(
    	,	// trailing space 
	repeat 
tag { i64 
    // @lengthOf(
    // " ++ [27880; 37322]%N ++ runes_of_ascii "
  	roots 
    // " ++ [27880; 37322]%N ++ runes_of_ascii "

  @lengthOf(
metadata )  , }  ,	@tag(
65535

)

char[ 	 //
    00

    ] 
// a // b
/// triple
a1
,

repeat

    i16

i8i8 ,

char[

    3]

int
	@calculatedFrom(	""a\\"" 
)

    ,// a // b
	@calculatedFrom(

""" ++ [28040; 24687]%N ++ runes_of_ascii """

) Pad// " ++ [128512]%N ++ runes_of_ascii " emoji
	@lengthOf(
    stringy	) ,  /// triple
  }
")).
Eval vm_compute in ("<<<M1249>>>" ++ check (runes_of_ascii "packet x_y_z { @leftPad ()
    int8
//x
// trailing space 
x_y_z , @lengthOf( f32a ) repeat
// c
// trailing space 
char[ 7 // trailing space 
]len , int64 matchKey
    @calculatedFrom( // `tick` ""quote"" 'q'
""// no comment""
)
, @lengthOf(
roots )
@lengthOf(
MetaDataX	)
int32
Packet ,// a // b
@rightPad( ' ') i8i8
    // " ++ [128512]%N ++ runes_of_ascii " emoji
    { char Packet @lengthOf(
//x
//x
crc ) `" ++ [28040; 24687; 31867; 22411]%N ++ runes_of_ascii "`
,} ,@calculatedFrom( """" )repeat zchar[	255]
i64_ , @tag( 0123456789
) Logon // " ++ [27880; 37322]%N ++ runes_of_ascii "
, @lengthOf(  options1 )
    int32
Header // `tick` ""quote"" 'q'
,
@leftPad (
    )
int64 crc
    , @lengthOf(As )match  trueish as BodyLength { ""\" ++ [233]%N ++ runes_of_ascii """
// trailing space 
// @lengthOf(
: x 0123456789
:
/// triple
// trailing space 
stringy[ 255,	0 ,
    """ ++ [128512]%N ++ runes_of_ascii """ , ""packet""]
    : _x, ""packet"":
o, 42 :stringy , ""abc"" :
    Logon ,
}  ,}")).
Eval vm_compute in ("<<<M10>>>" ++ check (runes_of_ascii "
options{
crc
// " ++ [128512]%N ++ runes_of_ascii " emoji
// trailing space 
= uint8} packet len {uint8x @calculatedFrom( ""x y"" ), @lengthOf(
    rootA  )
    @lengthOf( body
// `tick` ""quote"" 'q'
// `tick` ""quote"" 'q'
)@calculatedFrom(  ""x y""
) Packet  @calculatedFrom(// `tick` ""quote"" 'q'
""\n"" )
`
`
, Packet ,  repeat
    // trailing space 
    i8	Z9_ , @tag(255 )
falsey `
` ,	i64 int `line1
line2` ,@calculatedFrom(
    ""\n""
// packet A { u8 x, }
/// triple
) @leftPad()
@calculatedFrom(//	t
""abc"" )// packet A { u8 x, }
BodyLength ,uint8 u , @calculatedFrom(
    ""a\""b""
) @lengthOf( metadata ) @rightPad (' ') // packet A { u8 x, }
char[10] f32a , }  packet repeatCount { }options  {
string_ =  i32 ;
o =	""a	b"" ;
    i8i8	=
    ""a\""b"" ; uint8x =
uint16
    // " ++ [128512]%N ++ runes_of_ascii " emoji
    ;
}")).
Eval vm_compute in ("<<<M344>>>" ++ check (runes_of_ascii "// " ++ [27880; 37322]%N ++ runes_of_ascii "
root packet _x {
//	t
// packet A { u8 x, }
@rightPad (
) zchar[
    007]
    Logon @calculatedFrom(""x y""),zchar[
7]
string_ @lengthOf(
Packet /// triple
)
`two words`,
@tag( 007 )	@calculatedFrom(
    ""x y"" )repeat
calculatedFrom { // packet A { u8 x, }
zchar @calculatedFrom( """ ++ [233]%N ++ runes_of_ascii "t" ++ [233]%N ++ runes_of_ascii """
    // `tick` ""quote"" 'q'
    )	,
int32 leftPad , } ,repeat body chars ,	@lengthOf(
options1
    ) repeat
    //	t
    char[
255] Foo  ,
// c
//
repeat MetaDataX
    { pack, } ,char[
7 ] repeatCount @calculatedFrom(""it's""  ) , }
    // trailing space 
    packet Packet {
    Header
// " ++ [27880; 37322]%N ++ runes_of_ascii "
// @lengthOf(
@lengthOf( uint8x ) `two words` ,} options//	t
{  } root
    // " ++ [27880; 37322]%N ++ runes_of_ascii "
    packet msg_type
{int32 //x
body`" ++ [28040; 24687; 31867; 22411]%N ++ runes_of_ascii "`,
    }
")).
Eval vm_compute in ("<<<M927>>>" ++ check (runes_of_ascii "packet msg_type{ trueish	float ,zchar[ 0123456789 ]
    trueish @lengthOf( i8i8 )
, i64  Pad ,
//x
/// triple
i64_  @lengthOf(	_x )
    // a // b
    ``
, // `tick` ""quote"" 'q'
match Foo  as As { [ """ ++ [28040; 24687]%N ++ runes_of_ascii """  , //
""packet""
    ,
    1 , 7
//
/// triple
,3
, ""a	b""
    ,  7 ] :
_x 255
: Foo , ""x y"" :  i64_ ,
1 :
options1 // trailing space 
,} , lengthOf { //	t
char[] u128 , u32 o , }
    ,
    }
options {} MetaData len
    {
char Logon
    //	t
    ,
repeatCount lengthOf ,
    Z9_  o ,
    string MetaDataX
`
` , uint32 repeatCount , Header falsey ,
//	t
// trailing space 
} // `tick` ""quote"" 'q'
MetaData calculatedFrom{ string	Packet `crlf
line`
, }
// packet A { u8 x, }
")).
Eval vm_compute in ("<<<M325>>>" ++ check (runes_of_ascii "
root// packet A { u8 x, }
packet As
// c
// packet A { u8 x, }
{}	packet charz {metadata @calculatedFrom(
""{,}"" )
,repeat
zchar[	007
] T
`tab	here`, repeat tag
{
int8 crc `two words` , repeat o// @lengthOf(
{ repeat
// " ++ [128512]%N ++ runes_of_ascii " emoji
// trailing space 
f32a,
} , repeat i16 Z9_ `say ""hi""` , zchar[ // @lengthOf(
3] body @lengthOf( Packet )
,} , @lengthOf(
    o ) match uint8x as As
    {
255	:
T ,	},
f32a
    @lengthOf( leftPad )
    // `tick` ""quote"" 'q'
    ,BodyLength _x `u8 x,` ,
} packet BodyLength
{ }
packet
leftPad
{ @leftPad(
// " ++ [128512]%N ++ runes_of_ascii " emoji
// packet A { u8 x, }
' ') repeat zchar[ 10
]	_x ,}
    options{ int =65535 ;
    }
")).
Eval vm_compute in ("<<<M602>>>" ++ check (runes_of_ascii "options
{
    x
// " ++ [27880; 37322]%N ++ runes_of_ascii "
// " ++ [128512]%N ++ runes_of_ascii " emoji
= true trueish =007 ;float =
    // trailing space 
    int64;/// triple
metadata= true //	t
} options  { As= ""{,}""	;} packet
    As{ @rightPad
    ( '0' ) @leftPad // " ++ [27880; 37322]%N ++ runes_of_ascii "
( '0' ) char[ 10
]trueish
// c
//	t
, @calculatedFrom( ""`tick`"" ) Foo
{
int64 packetx @calculatedFrom(	""a\""b"" ) `" ++ [28040; 24687; 31867; 22411]%N ++ runes_of_ascii "`
, repeat int64 int // a // b
, zchar[007
    ] Header
//
//
, repeat
    body
    , // " ++ [27880; 37322]%N ++ runes_of_ascii "
}
    , repeat char[0  ] u8x // packet A { u8 x, }
, Pad ,
@rightPad ( '0'  )
f64 leftPad//	t
`a\`	, repeat
    rootA repeatCount `{ , }` , rootA float
// packet A { u8 x, }
//x
`doc`, }")).
Eval vm_compute in ("<<<M4341>>>" ++ check (runes_of_ascii "packet matchKey {
    match Header as chars {
        [0, """ ++ [233]%N ++ runes_of_ascii "t" ++ [233]%N ++ runes_of_ascii """] : body,
        [42, 10] : msg_type,
        """ ++ [128512]%N ++ runes_of_ascii """ : options1,
        7 : roots,
        ""\n"" : packetx,
    },
    zchar[0] A @lengthOf(int),
    char[] Header `
    `,// trailing space 
    repeat float {
        repeat o,// `tick` ""quote"" 'q'
        repeat int32 x_y_z `
        `,
    },
    @tag(0)
    u64 string_ @calculatedFrom(""`tick`"") `two words`,
    calculatedFrom {
        matchKey,// packet A { u8 x, }
        rootA,
    },
}

options {
    chars = """";
    As = true;
    Foo = 7;
    lengthOf = ""a\\""
}")).
Eval vm_compute in ("<<<M1352>>>" ++ check (runes_of_ascii "options {tag =""`tick`"" }
options { chars
// c
//
=
255 ;
    // packet A { u8 x, }
    int =
""abc"" string_
=
    true
    ;
    body
=  false asx = """ ++ [233]%N ++ runes_of_ascii "t" ++ [233]%N ++ runes_of_ascii """ ;// packet A { u8 x, }
}
    packet _x //x
{
repeat
o  { char[ 00
] f32a@calculatedFrom(
    """"
)	,
f32a `a\`  , } , }packet falsey {
} packet Z9_
{ @tag( 0 ) @calculatedFrom( ""`tick`"" )
    // a // b
    @tag( 00 ) char[ 3 // " ++ [27880; 37322]%N ++ runes_of_ascii "
] x @calculatedFrom( """"	) ,
// @lengthOf(
// packet A { u8 x, }
Pad  @calculatedFrom( ""\" ++ [233]%N ++ runes_of_ascii """) ,@rightPad (  '0' ) char[]
    trueish @lengthOf( packetx
)
, }
// c
")).
Eval vm_compute in ("<<<M4305>>>" ++ check (runes_of_ascii "packet tag
	{

    match  asx

as
    u128 {
    ""1""
: T	0123456789 	 // trailing space 
:
    rootA ,
7 : i8i8 ,	65535 
:  // `tick` ""quote"" 'q'
	chars,

}
	,  zchar[

    7 ]
    options1
    , zchar[ 255 ]

    asx  ,@leftPad (

'0'

)
stringy
	`" ++ [28040; 24687; 31867; 22411]%N ++ runes_of_ascii "`

, 
u64  zchar
    @calculatedFrom( 
        // c
  ""\n""  )	, len
    // `tick` ""quote"" 'q'
	// c
    @calculatedFrom( ""// no comment"" )

    `" ++ [28040; 24687; 31867; 22411]%N ++ runes_of_ascii "` //	t
  ,
@leftPad(

'0' )tag
    @lengthOf(
calculatedFrom ),	repeat 
    //
	  uint64 
metadata
`a\`
	,
	} ")).
Eval vm_compute in ("<<<M3637>>>" ++ check (runes_of_ascii "options {
    LittleEndian = false;
    ArrayPrefixLenType = u64;
    FixedStringPadChar = '0';
}
packet Quote {
    repeat InFlags37 {
        char[] lastPx,
    },
    i16 tag7,
    char[] f1,
    zchar[6] Note,
}
packet Order {
    u8 Ref,
    repeat Quote,
    repeat string Acct,
}
root packet Heartbeat {
    repeat Quote,
    @leftPad('0') char[11] OrderId,
    zchar[8] Ref,
    u32 Flags,
    u32 Tail @lengthOf(Body),
    match Flags as Body {
        156 : Order,
        7 : Quote,
    },
}
")).
Eval vm_compute in ("<<<M4106>>>" ++ check (runes_of_ascii "root packet Foo {
    match As as rootA {
        ""CRC32"" : packetx,
        4294967296 : Header,
        [0123456789, 255, 0, ""\n"", ""packet""] : BodyLength,
        [
            7, 255, 65535, 00, 3,
            ""packet"", ""abc""
        ] : f32a,
    },
    f32 calculatedFrom @lengthOf(metadata) `crlf
    line`,
}//	t

options {
    // c
    x_y_z = 7
    body = zchar[1];
}

packet i8i8 {
    string_ {
        u32 options1 @calculatedFrom(""1""),
    },
}// `tick` ""quote"" 'q'")).
Eval vm_compute in ("<<<M143>>>" ++ check (runes_of_ascii "root packet crc {@calculatedFrom(
""" ++ [128512]%N ++ runes_of_ascii """)
BodyLength{x_y_z i8i8
//
//
, int32 uint8x
`two words` ,	rootA tag , zchar[
7] matchKey
    `" ++ [233]%N ++ runes_of_ascii "` ,} , T { x@calculatedFrom( ""a	b"" )
`// not a comment` ,zchar[ // " ++ [128512]%N ++ runes_of_ascii " emoji
42 ] /// triple
A
, match chars
as
    //x
    len {""packet"" :crc 3//x
:
chars [
0123456789 , ""packet"" ]
    : pack	[""packet""
,
00// " ++ [27880; 37322]%N ++ runes_of_ascii "
,
    7 ,""" ++ [28040; 24687]%N ++ runes_of_ascii """, 3
,  ""packet"",
    42, 0123456789
    ] :
repeatCount	""{,}"" :
chars
    ,/// triple
} ,
} ,
}")).
Eval vm_compute in ("<<<M191>>>" ++ check (runes_of_ascii "packet x
{ repeat
    string_
    { repeat asx	Foo
    /// triple
    ,int16 i8i8 , char[] matchKey ,
// @lengthOf(
// trailing space 
match calculatedFrom as // a // b
roots  { 3
: x_y_z , }
    , }
, @lengthOf(x ) repeat o `say ""hi""`
    ,//	t
char[] string_	`" ++ [28040; 24687; 31867; 22411]%N ++ runes_of_ascii "`
, @lengthOf( f32a )	match
    Pad as
    A //	t
{ ""a	b"": u128 , [""\" ++ [233]%N ++ runes_of_ascii """ ,
65535
    , 255
,""CRC32""
,
1 ]
    : i8i8
0123456789 : falsey //	t
, } , }packet zchar { }
")).
Eval vm_compute in ("<<<M408>>>" ++ check (runes_of_ascii "packet body{ @tag(42 )
rootA Logon `line1
line2`
, repeatCount{ repeat lengthOf x_y_z , Pad
    , repeat falsey packetx
    ,	string rootA`` /// triple
,} ,
@leftPad
    // a // b
    ('\x00' )char[
0
]
    roots , msg_type
,
u128 charz
    ,
    string crc`" ++ [28040; 24687; 31867; 22411]%N ++ runes_of_ascii "`
    , match Header as Packet
    {
10  :x , [
//x
// `tick` ""quote"" 'q'
""1""] : matchKey
, 10
: // @lengthOf(
i64_ 255// a // b
:T , } ,
} packet	o { }")).
Eval vm_compute in ("<<<M4491>>>" ++ check (runes_of_ascii "packet packetx {
    lengthOf @lengthOf(T) `// not a comment`,
    char[42] Header `two words`,
}

packet Logon {
    repeat string i64_ `u8 x,`,
    @rightPad()
    match calculatedFrom as stringy {
        [0123456789, 7, 1, ""1"", ""`tick`""] : zchar,
        3 : packetx,
        [10, ""CRC32""] : x,
        [7] : Foo,
        [10, 65535, 7, ""CRC32"", ""{,}""] : A,
        00 : rootA,
    },
}

options {
}")).
Eval vm_compute in ("<<<M1364>>>" ++ check (runes_of_ascii "  MetaData
matchKey { //	t
}packet
    u8x{ len
{	_x,  } , } packet Logon{ u64 falsey @calculatedFrom( ""x y"" ) , @calculatedFrom(
    """ ++ [233]%N ++ runes_of_ascii "t" ++ [233]%N ++ runes_of_ascii """ ) @rightPad// trailing space 
(
' '
    // `tick` ""quote"" 'q'
    )
repeat float32 Foo ,
    uint8 i64_
    @lengthOf(u ) , zchar[ // " ++ [128512]%N ++ runes_of_ascii " emoji
3  ]Header @calculatedFrom(
    ""1"")
// `tick` ""quote"" 'q'
//x
, repeat chars u128 `u8 x,`
    , }")).
Eval vm_compute in ("<<<M652>>>" ++ check (runes_of_ascii "packet u128{ }
    // " ++ [128512]%N ++ runes_of_ascii " emoji
    root
packet
rootA{ @tag( // " ++ [27880; 37322]%N ++ runes_of_ascii "
007 )
match uint8x as
    crc {	""a\""b"" :
    charz ,},
    // packet A { u8 x, }
    uint64 repeatCount ,@tag(007//x
)
    uint8 f32a
, @rightPad (
' ' ) @leftPad
( '\x00')  @lengthOf( stringy ) T@lengthOf( charz
    ), metadata matchKey , }
    packet msg_type {
    stringy zchar `" ++ [28040; 24687; 31867; 22411]%N ++ runes_of_ascii "` , }
")).
Eval vm_compute in ("<<<M1344>>>" ++ check (runes_of_ascii "packet x { @tag(7 // " ++ [27880; 37322]%N ++ runes_of_ascii "
) @calculatedFrom(""{,}"")
    int16
    Packet @calculatedFrom(
""it's""
    ) `a\`
    ,charz f32a// @lengthOf(
, match metadata
    as BodyLength{ [ 65535 , 3, 1 ,00,// `tick` ""quote"" 'q'
""a	b""	]: // " ++ [27880; 37322]%N ++ runes_of_ascii "
stringy , /// triple
[ ""`tick`""
] :
//
// packet A { u8 x, }
float },
@tag(  007 ) @tag(7)leftPad @lengthOf(pack) , }
")).
Eval vm_compute in ("<<<M4318>>>" ++ check (runes_of_ascii "MetaData float {
    u8 Packet,
    string i64_ `" ++ [28040; 24687; 31867; 22411]%N ++ runes_of_ascii "`,
    charz pack,
    char rootA,
    char[0123456789] msg_type,
    uint8 calculatedFrom,
}

packet Pad {
}

root packet len {
    // c
    matchKey @calculatedFrom(""a\""b"") `u8 x,`,//x
    @leftPad()
    match roots as u128 {
        [4294967296, 007] : body,
    },
    charz,
}")).
Eval vm_compute in ("<<<M65>>>" ++ check (runes_of_ascii "  options	{ string_
=true; } options
{ T
= false}
packet
u8x { @lengthOf( int
    //
    )
zchar[ 255 ] BodyLength , } // trailing space 
root
packet
    f32a  { }packet roots
{ Foo
    , repeat char[ 007 ] Pad
,repeat  int8
packetx
    ,
    match Z9_ as T	{
00 :A , ""a\""b"" :
    falsey  , //
""CRC32""
:a1
,
    }	, }
")).
Eval vm_compute in ("<<<M2028>>>" ++ check (runes_of_ascii "MetaData
    u { }  options {
// c
// @lengthOf(
float = int8 ;rootA =false ; As =	int16 // `tick` ""quote"" 'q'
repeatCount
    // trailing space 
    =
    int16
; u8x =
    //	t
    '\x00' ; } options	{
    repeatCount
= 0
u128
    //
    = false packet i64_
// trailing space 
// `tick` ""quote"" 'q'
= '0' ; //	t
}
")).
Eval vm_compute in ("<<<M1966>>>" ++ check (runes_of_ascii "MetaData
    u { }  options {
// c
// @lengthOf(
float = int8 ;rootA =false ; As =	int16 // `tick` ""quote"" 'q'
repeatCount
    // trailing space 
    =
    int16
; u8x = =
    //	t
    '\x00' ; } options	{
    repeatCount
= 0
u128
    //
    = false ; i64_
// trailing space 
// `tick` ""quote"" 'q'
= '0' ; //	t
}
")).
Eval vm_compute in ("<<<M2070>>>" ++ check (runes_of_ascii "MetaData
    u { }  options {
// c
// @lengthOf(
float = int8 ;rootA =false ; As =	int16 // `tick` ""quote"" 'q'
repeatCount
    // trailing space 
    =
    int16
; u8x =
    //	<t
    '\x00' ; } options	{
    repeatCount
= 0
u128
    //
    = false ; i64_
// trailing space 
// `tick` ""quote"" 'q'
= '0' ; //	t
}
")).
Eval vm_compute in ("<<<M1978>>>" ++ check (runes_of_ascii "MetaData
    u { }  options {
// c
// @lengthOf(
float = int8 ;rootA =false ; As =	int16 // `tick` ""quote"" 'q'
repeatCount
    // trailing space 
    =
    int16
; u8x =
    //	t
    '\x00' , } options	{
    repeatCount
= 0
u128
    //
    = false ; i64_
// trailing space 
// `tick` ""quote"" 'q'
= '0' ; //	t
}
")).
Eval vm_compute in ("<<<M1980>>>" ++ check (runes_of_ascii "MetaData
    u { }  options {
// c
// @lengthOf(
float = int8 ;rootA =false ; As =	int16 // `tick` ""quote"" 'q'
repeatCount
    // trailing space 
    =
    int16
; u8x =
    //	t
    '\x00' ;  options	{
    repeatCount
= 0
u128
    //
    = false ; i64_
// trailing space 
// `tick` ""quote"" 'q'
= '0' ; //	t
}
")).
Eval vm_compute in ("<<<M2020>>>" ++ check (runes_of_ascii "MetaData
    u { }  options {
// c
// @lengthOf(
float = int8 ;rootA =false ; As =	int16 // `tick` ""quote"" 'q'
repeatCount
    // trailing space 
    =
    int16
; u8x =
    //	t
    '\x00' ; } options	{
    repeatCount
= 0
u128
    //
    =  ; i64_
// trailing space 
// `tick` ""quote"" 'q'
= '0' ; //	t
}
")).
Eval vm_compute in ("<<<M40>>>" ++ check (runes_of_ascii "packet// " ++ [128512]%N ++ runes_of_ascii " emoji
charz
    {
repeat options1 {char x_y_z
/// triple
//x
, T	{ string_ @calculatedFrom(""1"") , } ,
f64
    crc ,
u64 A
// trailing space 
/// triple
@calculatedFrom(""CRC32""	), } ,} MetaData MetaDataX //	t
{
}
root packet
u128{ string_  {
    repeat pack {
As matchKey , } ,} ,
}
")).
Eval vm_compute in ("<<<M305>>>" ++ check (runes_of_ascii "options
{
}
root
    // a // b
    packet x //	t
{ match
    len as x{ [	7 , 42 ,	007 , //x
255 // trailing space 
, ""// no comment""
// `tick` ""quote"" 'q'
// " ++ [128512]%N ++ runes_of_ascii " emoji
]:x_y_z, ""`tick`"" : u128
, 3 : string_
    /// triple
    ,
[	""CRC32""  ] : trueish ,4294967296 :Foo ,
[ 0 ]
: lengthOf } , }")).
Eval vm_compute in ("<<<M3712>>>" ++ check (runes_of_ascii "packet Foo {
    @calculatedFrom(""" ++ [233]%N ++ runes_of_ascii "t" ++ [233]%N ++ runes_of_ascii """)
    repeatCount stringy,
    u32 u8x @calculatedFrom(""{,}"") `
        `,
    repeat float64 Foo,
    char[] T `{ , }`,
}

packet f32a {
    @tag(007)
    uint64 falsey,
}

MetaData Foo {
    u16 T,
    crc tag,
    A falsey `tab	here`,
}")).
Eval vm_compute in ("<<<M72>>>" ++ check (runes_of_ascii "MetaData len //	t
{ f64 calculatedFrom , x_y_z	x
,} packet repeatCount { @lengthOf(pack ) match
x_y_z as o // " ++ [27880; 37322]%N ++ runes_of_ascii "
{ 7:
Header
// `tick` ""quote"" 'q'
// a // b
} , } options { lengthOf  = true; }
packet  leftPad
    {
    MetaDataX @lengthOf( T ) `two words` ,
    }")).
Eval vm_compute in ("<<<M1114>>>" ++ check (runes_of_ascii "
packet calculatedFrom
{
@lengthOf( rootA
    )
    @tag( 0 )  repeat  lengthOf
    // trailing space 
    Pad `doc`,
} // packet A { u8 x, }
options
    {
lengthOf	= false x_y_z= true  ;_x = u8; zchar=
    char[ 10 ] MetaDataX
    =
    true } packet	T { }")).
Eval vm_compute in ("<<<M1667>>>" ++ check (runes_of_ascii "packet
//	t
// trailing space 
_x {
// packet A { u8 x, }
// c
char[
3
    ] u8x @lengthOf(
u8x ) , @calculatedFrom(""" ++ [128512]%N ++ runes_of_ascii """ // @lengthOf(
)
i16	Foo
@lengthOf(	string_
    )`doc`	, repeat	'1'i64 metadata , @lengthOf( string_
) i8 // c
u  `line1
line2`	,
}
")).
Eval vm_compute in ("<<<M1664>>>" ++ check (runes_of_ascii "packet
//	t
// trailing space 
_x {
// packet A { u8 x, }
// c
char[
3
    ] u8x @lengthOf(
u8x ) , @calculatedFrom(""" ++ [128512]%N ++ runes_of_ascii """ // @lengthOf(
)
i16	Foo
@lengthOf(	string_
 #   )`doc`	, repeat	i64 metadata , @lengthOf( string_
) i8 // c
u  `line1
line2`	,
}
")).
Eval vm_compute in ("<<<M1585>>>" ++ check (runes_of_ascii "packet
//	t
// trailing space 
_x {
// packet A { u8 x, }
// c
char[
3
    ] u8x @lengthOf(
u8x ) , @calculatedFrom(""" ++ [128512]%N ++ runes_of_ascii """ // @lengthOf(
)
i16	Foo
@lengthOf(	string_
    )int16	, repeat	i64 metadata , @lengthOf( string_
) i8 // c
u  `line1
line2`	,
}
")).
Eval vm_compute in ("<<<M1632>>>" ++ check (runes_of_ascii "packet
//	t
// trailing space 
_x {
// packet A { u8 x, }
// c
char[
3
    ] u8x @lengthOf(
u8x ) , @calculatedFrom(""" ++ [128512]%N ++ runes_of_ascii """ // @lengthOf(
)
i16	Foo
@lengthOf(	string_
    )`doc`	, repeat	i64 metadata , @lengthOf( string_
) i8 // c
  `line1
line2`	,
}
")).
Eval vm_compute in ("<<<M848>>>" ++ check (runes_of_ascii "packet// `tick` ""quote"" 'q'
zchar { // c
} MetaData Header {Z9_ // a // b
pack , } MetaData asx { //	t
u Header
    ,
    zchar[ 3
    ]o
,
    As repeatCount
`" ++ [28040; 24687; 31867; 22411]%N ++ runes_of_ascii "`	,
//	t
//	t
rootA
tag //x
`u8 x,`
    , float64 options1 , char[] uint8x , }
")).
Eval vm_compute in ("<<<M923>>>" ++ check (runes_of_ascii "packet options1 { @leftPad
    (
    '0' )
repeat char[1 ] // " ++ [27880; 37322]%N ++ runes_of_ascii "
roots  `
` , i32 A`
`, repeat
    char[ 3] stringy // `tick` ""quote"" 'q'
, repeat	f64
    Z9_
`tab	here`, }
    packet T	{
    @tag( 00	)repeat float
`say ""hi""`,} /// triple")).
Eval vm_compute in ("<<<M468>>>" ++ check (runes_of_ascii "options { i64_	= ""\n""; BodyLength
    = float64 i64_ =
    false ; }MetaData  Packet  {	uint16 A `u8 x,` ,
    zchar[ 007 ]i64_ , char[ 007	]
chars ,
    float64
x_y_z,MetaDataX stringy`// not a comment`, }
MetaData
msg_type { }")).
Eval vm_compute in ("<<<M527>>>" ++ check (runes_of_ascii "root packet repeatCount{ T {
char[ 255 ] T
// c
// packet A { u8 x, }
`a\`,zchar[ 00// trailing space 
]Foo	@lengthOf( repeatCount
    )// " ++ [128512]%N ++ runes_of_ascii " emoji
, Foo x_y_z
, packetx @calculatedFrom( ""packet""
    )// " ++ [27880; 37322]%N ++ runes_of_ascii "
,
}
    , }
")).
Eval vm_compute in ("<<<M488>>>" ++ check (runes_of_ascii "MetaData x	{ uint32 u8x `" ++ [28040; 24687; 31867; 22411]%N ++ runes_of_ascii "`
    ,}
// packet A { u8 x, }
// " ++ [128512]%N ++ runes_of_ascii " emoji
MetaData o {
    }
    // packet A { u8 x, }
    packet
pack	{ // packet A { u8 x, }
repeat
    zchar[
4294967296 // a // b
]
roots
    , }")).
Eval vm_compute in ("<<<M1722>>>" ++ check (runes_of_ascii "options { trueish = ""`tick`"" ; string_= """ ++ [233]%N ++ runes_of_ascii "t" ++ [233]%N ++ runes_of_ascii """
    // c
    } root root
    packet body { stringy @calculatedFrom(
""a	b"" ) `line1
line2` , }
packet Logon {
    @leftPad(
    ' ' ) //	t
u16 string_ `u8 x,` ,
}
")).
Eval vm_compute in ("<<<M1797>>>" ++ check (runes_of_ascii "options { trueish = ""`tick`"" ; string_= """ ++ [233]%N ++ runes_of_ascii "t" ++ [233]%N ++ runes_of_ascii """
    // c
    } root
    packet body { stringy @calculatedFrom(
""a	b"" ) `line1
line2` , }
packet Logon {
    @leftPad( (
    ' ' ) //	t
u16 string_ `u8 x,` ,
}
")).
Eval vm_compute in ("<<<M1688>>>" ++ check (runes_of_ascii "options { trueish ""`tick`"" = ; string_= """ ++ [233]%N ++ runes_of_ascii "t" ++ [233]%N ++ runes_of_ascii """
    // c
    } root
    packet body { stringy @calculatedFrom(
""a	b"" ) `line1
line2` , }
packet Logon {
    @leftPad(
    ' ' ) //	t
u16 string_ `u8 x,` ,
}
")).
Eval vm_compute in ("<<<M1823>>>" ++ check (runes_of_ascii "options { trueish = ""`tick`"" ; string_= """ ++ [233]%N ++ runes_of_ascii "t" ++ [233]%N ++ runes_of_ascii """
    // c
    } root
    packet body { stringy @calculatedFrom(
""a	b"" ) `line1
line2` , }
packet Logon {
    @leftPad(
    ' ' ) //	t
u16 string_ , `u8 x,`
}
")).
Eval vm_compute in ("<<<M1012>>>" ++ check (runes_of_ascii "options {
trueish =
    i32 A= ""\" ++ [233]%N ++ runes_of_ascii """// `tick` ""quote"" 'q'
int =// `tick` ""quote"" 'q'
char[ 007  ]//x
; }
    MetaData MetaDataX { falsey float ,Logon matchKey
``
    ,
string stringy ,	u64
    T
,
}
")).
Eval vm_compute in ("<<<M1816>>>" ++ check (runes_of_ascii "options { trueish = ""`tick`"" ; string_= """ ++ [233]%N ++ runes_of_ascii "t" ++ [233]%N ++ runes_of_ascii """
    // c
    } root
    packet body { stringy @calculatedFrom(
""a	b"" ) `line1
line2` , }
packet Logon {
    @leftPad(
    ' ' ) //	t
u16  `u8 x,` ,
}
")).
Eval vm_compute in ("<<<M1374>>>" ++ check (runes_of_ascii "root
// a // b
// c
packet	i8i8 { }packet roots { // trailing space 
f64 uint8x ,@lengthOf(
    lengthOf // c
) roots @calculatedFrom( // a // b
""" ++ [128512]%N ++ runes_of_ascii """ )  `{ , }` //x
, i32 falsey,
    //
    }
")).
Eval vm_compute in ("<<<M1601>>>" ++ check (runes_of_ascii "packet
//	t
// trailing space 
_x {
// packet A { u8 x, }
// c
char[
3
    ] u8x @lengthOf(
u8x ) , @calculatedFrom(""" ++ [128512]%N ++ runes_of_ascii """ // @lengthOf(
)
i16	Foo
@lengthOf(	string_
    )`doc`	, repeat")).
Eval vm_compute in ("<<<M4155>>>" ++ check (runes_of_ascii "
// top
packet// c0a
	// c0b

x 
    // c1
	{@rightPad
	    // c3
  (  // c4a
  // c4b
  )
repeat
	roots

    // c7
  Logon// c8
		`doc`
    // c9
  ,}// c11a
// c11b
")).
Eval vm_compute in ("<<<M1238>>>" ++ check (runes_of_ascii "packet	body {
    // @lengthOf(
    body
    trueish , repeat MetaDataX
string_,  char[] asx `say ""hi""`
, char
// a // b
// " ++ [128512]%N ++ runes_of_ascii " emoji
int@calculatedFrom(""packet""
    )
,}
")).
Eval vm_compute in ("<<<M250>>>" ++ check (runes_of_ascii "packet tag
{@rightPad( )	zchar[ 00
    //x
    ] //x
MetaDataX `" ++ [233]%N ++ runes_of_ascii "` ,
    float32 Header `say ""hi""`
// " ++ [128512]%N ++ runes_of_ascii " emoji
// `tick` ""quote"" 'q'
, } MetaData
T{int lengthOf  ,}")).
Eval vm_compute in ("<<<M2204>>>" ++ check (runes_of_ascii "options{
_x
= true
} options
{ o	= /// triple
false
    ; chars
= ""\n"" } root packet	Pad
/// triple@leftpad
// packet A { u8 x, }
{	chars
    // a // b
    ,}")).
Eval vm_compute in ("<<<M2117>>>" ++ check (runes_of_ascii "options{
_x
= true
} options
{ string	= /// triple
false
    ; chars
= ""\n"" } root packet	Pad
/// triple
// packet A { u8 x, }
{	chars
    // a // b
    ,}")).
Eval vm_compute in ("<<<M2423>>>" ++ check (runes_of_ascii "// c
packet x { @lengthOf( metadata ) repeat lengthOf
,a1{
trueish	,// c
repeat//	t
MetaDataX , u16 , zchar[
    42	] rootA // `tick` ""quote"" 'q'
,
    }
")).
Eval vm_compute in ("<<<M2203>>>" ++ check (runes_of_ascii "options{
_x
= true
} options
{ o	= /// triple
false
    ; $ chars
= ""\n"" } root packet	Pad
/// triple
// packet A { u8 x, }
{	chars
    // a // b
    ,}")).
Eval vm_compute in ("<<<M2196>>>" ++ check (runes_of_ascii "options{
_x
= true
} options
{ o	= /// triple
false
" ++ [0]%N ++ runes_of_ascii "    ; chars
= ""\n"" } root packet	Pad
/// triple
// packet A { u8 x, }
{	chars
    // a // b
    ,}")).
Eval vm_compute in ("<<<M2141>>>" ++ check (runes_of_ascii "options{
_x
= true
} options
{ o	= /// triple
false
    ; chars
""\n"" = } root packet	Pad
/// triple
// packet A { u8 x, }
{	chars
    // a // b
    ,}")).
Eval vm_compute in ("<<<M2315>>>" ++ check (runes_of_ascii "// c
packet x { @lengthOf( metadata ) repeat lengthOf
,a1{
trueish	,// c
repeat//	t
`" ++ [28040; 24687; 31867; 22411]%N ++ runes_of_ascii "` , } , zchar[
    42	] rootA // `tick` ""quote"" 'q'
,
    }
")).
Eval vm_compute in ("<<<M2349>>>" ++ check (runes_of_ascii "// c
packet x { @lengthOf( metadata ) repeat lengthOf
,a1{
trueish	,// c
repeat//	t
MetaDataX , } , 
    42	] rootA // `tick` ""quote"" 'q'
,
    }
")).
Eval vm_compute in ("<<<M772>>>" ++ check (runes_of_ascii "
MetaData string_ //	t
{ stringy metadata
    , // packet A { u8 x, }
lengthOf int
``,
    f32a u8x	,
u32//
tag ,	falsey repeatCount ,
    }
")).
Eval vm_compute in ("<<<M4043>>>" ++ check (runes_of_ascii "packet trueish {
    match falsey as leftPad {
        // " ++ [128512]%N ++ runes_of_ascii " emoji
        ""// no comment"" : leftPad,
    },
    repeatCount string_ `{ , }`,
}")).
Eval vm_compute in ("<<<M796>>>" ++ check (runes_of_ascii "//
MetaData  u{uint64	string_
`doc` ,A metadata`u8 x,`
, string Logon `u8 x,` , float64 float ,
    char[] T
`crlf
line` , u8 Logon, }
")).
Eval vm_compute in ("<<<M4083>>>" ++ check (runes_of_ascii "packet A {
    match k as n {
        [
            1, 007, 5, 7, ""bb"",
            ""d"", ""f""
        ] : B,
        2 : C,
    },
}")).
Eval vm_compute in ("<<<M4463>>>" ++ check (runes_of_ascii "packet A {
    match k as n {
        [
            1, 22, 007, 4, 5,
            66, 7
        ] : B,
        2 : C,
    },
}")).
Eval vm_compute in ("<<<M4006>>>" ++ check (runes_of_ascii "// " ++ [27880; 37322]%N ++ runes_of_ascii "
MetaData int {
    char[4294967296] packetx `line1
    line2`,
    rootA matchKey `two words`,
    matchKey Packet,
}")).
Eval vm_compute in ("<<<M3319>>>" ++ check (runes_of_ascii "root packet matchKey {
// c
zchar[ 3 ] pack @calculatedFrom( ""a	b"" ) `doc` , } options { } MetaData A { int8 msg_type , }")).
Eval vm_compute in ("<<<M3351>>>" ++ check (runes_of_ascii "root packet matchKey { zchar[ 3 ] pack @calculatedFrom( ""a	b"" ) `doc` , } options { } MetaData A {
// c
int8 msg_type , }")).
Eval vm_compute in ("<<<M1472>>>" ++ check (runes_of_ascii "
packet
    falsey { Header@calculatedFrom(""packet""  ) , char[
    0123456789 ] packetx
    , } // `tick` ""quote""" ++ [0]%N ++ runes_of_ascii " 'q'")).
Eval vm_compute in ("<<<M1459>>>" ++ check (runes_of_ascii "
packet
    falsey { Header@calculatedFrom(""packet""  ) , char[
    0123456789 ] packetx
    } , // `tick` ""quote"" 'q'")).
Eval vm_compute in ("<<<M2368>>>" ++ check (runes_of_ascii "// c
packet x { @lengthOf( metadata ) repeat lengthOf
,a1{
trueish	,// c
repeat//	t
MetaDataX , } , zchar[
    42")).
Eval vm_compute in ("<<<M1412>>>" ++ check (runes_of_ascii "
packet
    falsey { @calculatedFrom(""packet""  ) , char[
    0123456789 ] packetx
    , } // `tick` ""quote"" 'q'")).
Eval vm_compute in ("<<<M213>>>" ++ check (runes_of_ascii "root packet repeatCount
// c
// " ++ [128512]%N ++ runes_of_ascii " emoji
{
msg_type// `tick` ""quote"" 'q'
{
float64 lengthOf
`" ++ [233]%N ++ runes_of_ascii "`,
}
    ,  }")).
Eval vm_compute in ("<<<M4113>>>" ++ check (runes_of_ascii "root packet rootA {
    @lengthOf(A)
    zchar[65535] len `a\`,
}

root packet packetx {
    uint8 i8i8,
}")).
Eval vm_compute in ("<<<M205>>>" ++ check (runes_of_ascii "  root packet// " ++ [128512]%N ++ runes_of_ascii " emoji
o
    {
    @calculatedFrom( ""a\""b"" //x
) repeat crc ,	@tag( 10  )
x_y_z, }
")).
Eval vm_compute in ("<<<M18>>>" ++ check (runes_of_ascii "// packet A { u8 x, }
options{lengthOf= 255 // " ++ [27880; 37322]%N ++ runes_of_ascii "
; /// triple
}packet MetaDataX {int32  body
, }")).
Eval vm_compute in ("<<<M4378>>>" ++ check (runes_of_ascii "  root	packet
    SimpleMessage {	uint16 
MsgType`" ++ [28040; 24687; 31867; 22411]%N ++ runes_of_ascii "`	, string
    JsonBody
`Json" ++ [23383; 31526; 20018; 28040; 24687; 20307]%N ++ runes_of_ascii "`
,
}
")).
Eval vm_compute in ("<<<M2302>>>" ++ check (runes_of_ascii "options
{ } options { BodyLength= u16 Header= f64 ; u128 =
    true
    ; } // a // b@leftpad")).
Eval vm_compute in ("<<<M809>>>" ++ check (runes_of_ascii "
options  {u =	uint16
i8i8 =i8 ; string_ = false ;asx= true lengthOf
=
0123456789
    ;
}
")).
Eval vm_compute in ("<<<M3854>>>" ++ check (runes_of_ascii "packet
A  { 
match 
k
as 
n
	{ [

    1  , 22
	,  007
,
    4] :B 
2
	:	C }

    ,}
")).
Eval vm_compute in ("<<<M3287>>>" ++ check (runes_of_ascii "MetaData float { float64 charz `
` , } root packet // c
chars { @rightPad ( '0' ) Foo , }")).
Eval vm_compute in ("<<<M3498>>>" ++ check (runes_of_ascii "packet chars { } packet MetaDataX {
// c
@tag( 42 ) i16 string_ , repeat x `say ""hi""` , }")).
Eval vm_compute in ("<<<M2262>>>" ++ check (runes_of_ascii "options
{ } options { BodyLength= u16 Header= f64 ; ; u128 =
    true
    ; } // a // b")).
Eval vm_compute in ("<<<M2307>>>" ++ check (runes_of_ascii "options
{ } options { BodyLength= u16 Header= f64 ; #u128 =
    true
    ; } // a // b")).
Eval vm_compute in ("<<<M2263>>>" ++ check (runes_of_ascii "options
{ } options { BodyLength= u16 Header= f64 u128 ; =
    true
    ; } // a // b")).
Eval vm_compute in ("<<<M3237>>>" ++ check (runes_of_ascii "packet metadata { Logon { A `" ++ [28040; 24687; 31867; 22411]%N ++ runes_of_ascii "` , tag o , } , // c
zchar len `// not a comment` , }")).
Eval vm_compute in ("<<<M2944>>>" ++ check (runes_of_ascii "packet A {
  match k as n {
    [1, 22, ""c c"", 4, 5, ""f"", 7, 8] : B,
    2 : C
  },
}")).
Eval vm_compute in ("<<<M3457>>>" ++ check (runes_of_ascii "packet o { repeat Logon uint8x , } options { asx = zchar[ 3 ] // c
stringy = '\x00' }")).
Eval vm_compute in ("<<<M1745>>>" ++ check (runes_of_ascii "options { trueish = ""`tick`"" ; string_= """ ++ [233]%N ++ runes_of_ascii "t" ++ [233]%N ++ runes_of_ascii """
    // c
    } root
    packet body {")).
Eval vm_compute in ("<<<M3402>>>" ++ check (runes_of_ascii "MetaData body { i64 pack // c
`it's` , } packet stringy { int16 calculatedFrom , }")).
Eval vm_compute in ("<<<M3589>>>" ++ check (runes_of_ascii "packet orderItem {
    u8 a,
}
root packet newOrder {
    orderItem,
    u8 x,
}
")).
Eval vm_compute in ("<<<M3826>>>" ++ check (runes_of_ascii "
packet

    A {match 
k 
as
n{ 
[
1 ,	22 , 007
] 
:
B 2:

C 
} ,
    }

")).
Eval vm_compute in ("<<<M2911>>>" ++ check (runes_of_ascii "packet A {
  match k as n {
    [1, 22, 007, 4, 5, 66] : B
    2 : C
  },
}")).
Eval vm_compute in ("<<<M2889>>>" ++ check (runes_of_ascii "packet A {
  match k as n {
    [1, ""bb"", 007, ""d""] : B
    2 : C
  },
}")).
Eval vm_compute in ("<<<M2351>>>" ++ check (runes_of_ascii "// c
packet x { @lengthOf( metadata ) repeat lengthOf
,a1{
trueish	,")).
Eval vm_compute in ("<<<M4315>>>" ++ check (runes_of_ascii "  options{matchKey = 0	Header= 
// " ++ [128512]%N ++ runes_of_ascii " emoji
    // c
    ""CRC32"" }
")).
Eval vm_compute in ("<<<M2865>>>" ++ check (runes_of_ascii "packet A {
  match k as n {
    [""a"", ""bb""] : B
    2 : C
  },
}")).
Eval vm_compute in ("<<<M1446>>>" ++ check (runes_of_ascii "
packet
    falsey { Header@calculatedFrom(""packet""  ) , char[")).
Eval vm_compute in ("<<<M3175>>>" ++ check (runes_of_ascii "packet A { @leftPad() char[4] x, @rightPad( ) zchar[2] y, }")).
Eval vm_compute in ("<<<M3377>>>" ++ check (runes_of_ascii "packet x { @rightPad ( ) repeat // c
roots Logon `doc` , }")).
Eval vm_compute in ("<<<M1441>>>" ++ check (runes_of_ascii "
packet
    falsey { Header@calculatedFrom(""packet""  ) ,")).
Eval vm_compute in ("<<<M4141>>>" ++ check (runes_of_ascii "packet 
A

{ char[ 	 // a
  	3// b
  ]// c
    x	, } ")).
Eval vm_compute in ("<<<M262>>>" ++ check (runes_of_ascii "MetaData u128 { uint8x msg_type `line1
line2`	, }")).
Eval vm_compute in ("<<<M346>>>" ++ check (runes_of_ascii "MetaData leftPad // `tick` ""quote"" 'q'
{
    }")).
Eval vm_compute in ("<<<M4179>>>" ++ check (runes_of_ascii "root packet u128 {
    char[007] MetaDataX,
}")).
Eval vm_compute in ("<<<M728>>>" ++ check (runes_of_ascii "options { options1 = float64
    ; } // " ++ [27880; 37322]%N)).
Eval vm_compute in ("<<<M2702>>>" ++ check ([11]%N ++ runes_of_ascii "d" ++ [65533]%N ++ runes_of_ascii "g" ++ [65533; 65533; 65533; 65533]%N ++ runes_of_ascii "(" ++ [29]%N ++ runes_of_ascii "0" ++ [65533; 65533]%N ++ runes_of_ascii "O" ++ [65533]%N ++ runes_of_ascii "[Y" ++ [65533; 65533]%N ++ runes_of_ascii "1p" ++ [65533]%N ++ runes_of_ascii "f" ++ [65533; 65533; 14]%N ++ runes_of_ascii "}`" ++ [7]%N ++ runes_of_ascii "g" ++ [65533; 65533]%N ++ runes_of_ascii "#k" ++ [65533; 65533; 65533; 65533]%N ++ runes_of_ascii "L")).
Eval vm_compute in ("<<<M4332>>>" ++ check (runes_of_ascii "MetaData x {
    int32 a1 `say ""hi""`,
}")).
Eval vm_compute in ("<<<M243>>>" ++ check (runes_of_ascii "// c
root packet
calculatedFrom { }
")).
Eval vm_compute in ("<<<M2783>>>" ++ check ([14]%N ++ runes_of_ascii "2" ++ [65533; 12]%N ++ runes_of_ascii "p[kGJ" ++ [1244; 65533; 65533]%N ++ runes_of_ascii "_*Q`" ++ [65533; 6; 65533]%N ++ runes_of_ascii "VT;" ++ [65533; 65533; 65533]%N ++ runes_of_ascii "85:r" ++ [65533]%N ++ runes_of_ascii "V" ++ [65533; 65533; 65533; 65533]%N)).
Eval vm_compute in ("<<<M4214>>>" ++ check (runes_of_ascii "packet A {
    @tag(1)
    u8 x,
}")).
Eval vm_compute in ("<<<M2811>>>" ++ check (runes_of_ascii "@lengthOf( @tag( ( `a\` i16 ( as")).
Eval vm_compute in ("<<<M2728>>>" ++ check ([12; 1143; 65533]%N ++ runes_of_ascii ",j^" ++ [65533; 65533]%N ++ runes_of_ascii "t" ++ [65533; 65533; 19; 65533; 65533; 65533; 65533; 65533]%N ++ runes_of_ascii "-
" ++ [65533; 1407; 65533]%N ++ runes_of_ascii "}^$" ++ [65533; 65533]%N ++ runes_of_ascii "O " ++ [65533]%N)).
Eval vm_compute in ("<<<M2814>>>" ++ check (runes_of_ascii " y!?qy-V\MAcTKR_L,7(1t1T$HN/[")).
Eval vm_compute in ("<<<M2748>>>" ++ check (runes_of_ascii "L" ++ [1964; 65533; 65533]%N ++ runes_of_ascii "@" ++ [65533; 1940; 24]%N ++ runes_of_ascii "C" ++ [65533]%N ++ runes_of_ascii "e" ++ [65533]%N ++ runes_of_ascii "|=" ++ [65533; 65533; 820; 65533]%N ++ runes_of_ascii "d" ++ [65533]%N ++ runes_of_ascii "#" ++ [65533; 16]%N ++ runes_of_ascii "M" ++ [65533]%N ++ runes_of_ascii "p^")).
Eval vm_compute in ("<<<M1093>>>" ++ check (runes_of_ascii "options { }
options { }
")).
Eval vm_compute in ("<<<M2668>>>" ++ check (runes_of_ascii "options { options = 1; }")).
Eval vm_compute in ("<<<M214>>>" ++ check (runes_of_ascii "  root packet charz{}")).
Eval vm_compute in ("<<<M2788>>>" ++ check (runes_of_ascii "20eb,uu[8$`5hB(bTQC<")).
Eval vm_compute in ("<<<M3125>>>" ++ check (runes_of_ascii "packet A {
}
// c 	")).
Eval vm_compute in ("<<<M3066>>>" ++ check (runes_of_ascii "// c" ++ [12288]%N ++ runes_of_ascii "
packet A {
}")).
Eval vm_compute in ("<<<M3167>>>" ++ check (runes_of_ascii "packet A { // a
 }")).
Eval vm_compute in ("<<<M3128>>>" ++ check (runes_of_ascii "packet A {
}// c" ++ [8203]%N)).
Eval vm_compute in ("<<<M3156>>>" ++ check (runes_of_ascii "

  packet A {}")).
Eval vm_compute in ("<<<M1334>>>" ++ check (runes_of_ascii "options
{ }
")).
Eval vm_compute in ("<<<M2704>>>" ++ check (runes_of_ascii ") char[] ,")).
Eval vm_compute in ("<<<M363>>>" ++ check (runes_of_ascii "// c


")).
Eval vm_compute in ("<<<M2473>>>" ++ check (runes_of_ascii "'\x00'")).
Eval vm_compute in ("<<<M2675>>>" ++ check (runes_of_ascii "u8 x,")).
Eval vm_compute in ("<<<M2501>>>" ++ check (runes_of_ascii "// x")).
Eval vm_compute in ("<<<M2509>>>" ++ check (runes_of_ascii """a\")).
Eval vm_compute in ("<<<M2498>>>" ++ check (runes_of_ascii "//")).
Eval vm_compute in ("<<<M2687>>>" ++ check ([65279]%N)).
