From FP Require Import Lexer Parser ShowPT Digest Formatter.
From Coq Require Import String List NArith.
Import ListNotations.
Open Scope string_scope.
Set Printing Width 100000000.
Set Printing Depth 100000000.
Definition show_fres (r : fres) : string :=
  match r with
  | FOk s => "OK:" ++ sh_escaped s ""
  | FErr s => "ERR:" ++ sh_escaped s ""
  | FPanic p => "PANIC:" ++ p
  end.
Definition check (rs : list rune) : string := digest (show_fres (format_res rs)).
Definition full (rs : list rune) : string := show_fres (format_res rs).
Eval vm_compute in ("<<<M1571>>>" ++ check (runes_of_ascii "options {
    ArrayPrefixLenType = u16;
    FixedStringPadFromLeft = true;
    JavaPackage = ""com.example.msg"";
    GoPackage = ""msg"";
    GoModule = ""example.com/msg"";
}
MetaData Meta {
    u32 SeqNum `sequence number`,
    char[8] Symbol `symbol`,
    zchar[5] ZSym `z symbol`,
    string Note,
    Symbol AltSymbol `alias of symbol`,
    f64 Price,
}
packet Inner {
    u8 a,
    i16 b,
    string c,
}
packet Inner2 {
    u8 a2,
    char[3] c2,
}
packet Logon {
    u8 x,
    string user,
    repeat u16 codes,
}
packet Logout {
    u16 reason,
}
packet Empty {
}
root packet Msg {
    u8 su8,
    uint8 luint8,
    u16 su16,
    uint16 luint16,
    u32 su32,
    uint32 luint32,
    u64 su64,
    uint64 luint64,
    i8 si8,
    int8 lint8,
    i16 si16,
    int16 lint16,
    i32 si32,
    int32 lint32,
    i64 si64,
    int64 lint64,
    f32 sf32,
    float32 lfloat32,
    f64 sf64,
    float64 lfloat64,
    char[6] fsplain,
    @leftPad('0') char[4] fs0,
    @rightPad('0') char[5] fs1,
    @leftPad(' ') char[6] fs2,
    @rightPad(' ') char[7] fs3,
    @leftPad('\x00') char[8] fs4,
    @rightPad('\x00') char[9] fs5,
    @leftPad() char[10] fs6,
    @rightPad() char[11] fs7,
    zchar[7] fz,
    @leftPad('0') zchar[3] fzl0,
    string s1 `doc`,
    char[] s2,
    Inner,
    Sub {
        u8 q,
        string w,
        Deep {
            u16 z,
            repeat i32 zs,
        },
    },
    repeat u8 ru8,
    repeat u16 ru16,
    repeat u32 ru32,
    repeat u64 ru64,
    repeat i8 ri8,
    repeat i16 ri16,
    repeat i32 ri32,
    repeat i64 ri64,
    repeat f32 rf32,
    repeat f64 rf64,
    repeat string rstr,
    repeat char[] rstr2,
    repeat char[3] rfs,
    repeat zchar[3] rfz,
    repeat Inner2,
    repeat Grp {
        u8 k,
        char[2] v,
    },
    SeqNum,
    SeqNum seq2,
    repeat SeqNum seqs,
    Symbol,
    AltSymbol alt,
    ZSym,
    Note,
    repeat Symbol syms,
    Price px,
    u16 MsgType,
    u32 BodyLen @lengthOf(Body),
    match MsgType as Body {
        1 : Logon,
        [2, 3] : Logout,
        7 : Logon,
        9 : Empty,
    },
    u32 Checksum @calculatedFrom(""CRC32""),
}
")).
Eval vm_compute in ("<<<M68>>>" ++ check (runes_of_ascii "MetaData
len { i8 BodyLength , u32
    u `tab	here`,
    // `tick` ""quote"" 'q'
    calculatedFrom	asx `" ++ [28040; 24687; 31867; 22411]%N ++ runes_of_ascii "` /// triple
,
Logon Packet `// not a comment`
    ,
    } //
root packet string_ { zchar[ 00
]
options1	, match
x_y_z as msg_type{	""it's""
    // c
    :  T 0123456789: a1 10 :
trueish
, } ,} packet
len { int64 crc ,  body {
f64 leftPad , a1, }
    , repeat uint8x {repeat f32
string_`" ++ [28040; 24687; 31867; 22411]%N ++ runes_of_ascii "`
    , int8 T @calculatedFrom( """"
    ) `line1
line2` ,
uint8 repeatCount	,
} , u64 Foo `line1
line2`	, @tag(1 ) repeat
matchKey
{ i8	x_y_z @lengthOf(Z9_ )// packet A { u8 x, }
`tab	here` , calculatedFrom
trueish// trailing space 
, uint16 charz
    // packet A { u8 x, }
    @calculatedFrom(
    ""{,}"" )`line1
line2`	, } ,
// @lengthOf(
//
uint32
    metadata, @lengthOf( msg_type )repeat Packet { zchar[
255
]u8x @calculatedFrom( ""x y"")
//
// packet A { u8 x, }
`crlf
line`	, repeat
// `tick` ""quote"" 'q'
//
u128 ,// packet A { u8 x, }
float64 int ,
    repeat Header	{ char[ 42 ]roots
    @calculatedFrom(
    //	t
    ""CRC32"") `two words`,
roots @calculatedFrom( ""a	b"" ) `two words`
// packet A { u8 x, }
// c
, u32
    // c
    packetx
@lengthOf( roots
) , repeat float	BodyLength	`" ++ [233]%N ++ runes_of_ascii "` , } , }	,match
float
as A
{	[ 7 , ""a	b"" ]
:	Header ,[
007	, ""1""
    ]
// @lengthOf(
// @lengthOf(
: charz
    , ""\" ++ [233]%N ++ runes_of_ascii """ : i8i8 00 :	charz // packet A { u8 x, }
42	:i64_
, } , match
// `tick` ""quote"" 'q'
//
uint8x as u8x{ 255 :
    int } ,	}
")).
Eval vm_compute in ("<<<M1525>>>" ++ check (runes_of_ascii "packet Frame
    // c1
{ // c2a
  // c2b
u8
    // c3
HK
    // c4
, // c5a
  // c5b
u8 BK
    // c7
, u8 TK
    // c10
, // c11a
  // c11b
match // c12
HK // c13
as // c14
Hdr // c15a
  // c15b
{
    // c16
1 // c17
: HdrA , // c20a
  // c20b
2
    // c21
: // c22
HdrB // c23a
  // c23b
, } // c25
,
    // c26
match
    // c27
BK // c28a
  // c28b
as Body // c30a
  // c30b
{
    // c31
1 // c32a
  // c32b
:
    // c33
BodyA // c34a
  // c34b
, // c35
2 : // c37a
  // c37b
BodyB
    // c38
,
    // c39
} , // c41
match
    // c42
TK
    // c43
as
    // c44
Trl {
    // c46
1 : TrlA // c49
, } // c51a
  // c51b
, // c52
} // c53
packet HdrA // c55
{ u8
    // c57
a ,
    // c59
} packet
    // c61
HdrB // c62
{ u16
    // c64
b // c65a
  // c65b
, } // c67a
  // c67b
packet // c68
BodyA // c69a
  // c69b
{
    // c70
u32 c
    // c72
,
    // c73
}
    // c74
packet
    // c75
BodyB // c76
{
    // c77
u64 d
    // c79
, // c80
}
    // c81
packet
    // c82
TrlA // c83a
  // c83b
{ u8 e
    // c86
, } root // c89a
  // c89b
packet
    // c90
Msg // c91a
  // c91b
{ Frame , u8 // c95a
  // c95b
x // c96a
  // c96b
, } // c98
")).
Eval vm_compute in ("<<<M1731>>>" ++ check (runes_of_ascii "  options
{
	T

    = ' '}
MetaData Pad
	    //x
  {
    string_
    u128  ,
u64  // @lengthOf(

	uint8x
`two words` ,

int8 repeatCount 
, }

    packet 
len
{
	Packet	`
`
	, @calculatedFrom( ""a\""b"" 
)
    zchar[
	42

]rootA ,

@calculatedFrom( ""packet""
    )

    @calculatedFrom(	""\n""
)

    Packet

    @calculatedFrom( 
""\" ++ [233]%N ++ runes_of_ascii """ 
)

`" ++ [28040; 24687; 31867; 22411]%N ++ runes_of_ascii "`

    , 
@leftPad (  '\x00')
@leftPad
	( )  @rightPad (

)
repeat

    string_{	match
	asx // c
  as rootA
    {
[  ""`tick`""
    ,
65535
    ] 
:falsey ,
    }
,
	trueish , 
char
    Z9_
`// not a comment`
	,  Packet

Logon

    `{ , }` ,}

,
	@tag( 1	)

match x
	as
pack	//	t

	{
    1: stringy// `tick` ""quote"" 'q'
	  ,
	[  42  ]
:x 
}

,  repeat//x
	i8 u8x , @calculatedFrom(""packet""  )

string_ 	 // c
	@lengthOf(

rootA 
)
    ,

    falsey

@lengthOf(	x ),
	}
    options

    {
}

    root

    packet
u	{@lengthOf(
x_y_z )
u
	@calculatedFrom(
	"""" 
) `two words`

    ,

} ")).
Eval vm_compute in ("<<<M77>>>" ++ check (runes_of_ascii "  options
{  T
= ' ' }
MetaData Pad
    //x
    {
string_ u128  , u64 // @lengthOf(
uint8x `two words` , int8 repeatCount
, }
    packet
len{
    Packet
    `
`
,@calculatedFrom( ""a\""b""
) zchar[
    42 ]
rootA ,
    @calculatedFrom(
""packet"" )
@calculatedFrom( ""\n"" ) Packet @calculatedFrom( ""\" ++ [233]%N ++ runes_of_ascii """  )
    `" ++ [28040; 24687; 31867; 22411]%N ++ runes_of_ascii "`, @leftPad
    (
    '\x00' )
@leftPad (	)
@rightPad (
)
repeat string_
    {match asx // c
as rootA {[
""`tick`"",65535	]:
falsey ,} , trueish
, char Z9_`// not a comment` ,
    Packet Logon `{ , }`, } ,@tag( 1 )
    match x as pack//	t
{
1 :stringy // `tick` ""quote"" 'q'
, [	42 ]:  x }  ,
repeat//x
i8 u8x , @calculatedFrom(""packet"") string_ // c
@lengthOf( rootA ),	falsey
@lengthOf( x )
,} options
{}
root packet u { @lengthOf(x_y_z )	u
    @calculatedFrom( """"
)
`two words`, }")).
Eval vm_compute in ("<<<M57>>>" ++ check (runes_of_ascii "root
packet string_{ i32 uint8x @calculatedFrom( ""\" ++ [233]%N ++ runes_of_ascii """ ) , body ,@tag(// a // b
0  ) Z9_
    @calculatedFrom(
""" ++ [28040; 24687]%N ++ runes_of_ascii """),
@lengthOf( stringy	)  falsey
    { repeat trueish { u64 i8i8 , }
,  } ,
char[] leftPad
@lengthOf( falsey
    // c
    ),	@calculatedFrom(	""a	b""
    )
//x
// " ++ [27880; 37322]%N ++ runes_of_ascii "
char[]  BodyLength,//x
match
falsey as crc{255 :falsey ,[
//x
// @lengthOf(
7,7] // @lengthOf(
:
//
//x
crc, ""a	b""// `tick` ""quote"" 'q'
: i8i8,255  : a1
, } ,Logon@lengthOf( _x // `tick` ""quote"" 'q'
)
, match	lengthOf as  o{ ""packet"" :	x_y_z ,} , } options
{
//	t
// `tick` ""quote"" 'q'
calculatedFrom
=
""// no comment""  ;
    x
    ='\x00' a1
= ""abc"" ; x_y_z=
65535 ; } packet Foo
{ } packet o { }")).
Eval vm_compute in ("<<<M359>>>" ++ check (runes_of_ascii "  root
    packet o
{ a1 a1	, char[
3 ] i8i8 `
` , @calculatedFrom( ""a\""b"" )// packet A { u8 x, }
repeat /// triple
Pad
    , }
// `tick` ""quote"" 'q'
// `tick` ""quote"" 'q'
packet
    tag{ i8i8 @calculatedFrom( ""x y"" )
`it's`
, @lengthOf(x_y_z
) @calculatedFrom(
//
//	t
""a\""b""
    ) u {
match	a1 as
    Logon { ""\n"" : Pad
,3
:	body , """"
:// `tick` ""quote"" 'q'
Logon ,
""\n"" : T
, ""`tick`""
:
    tag ,
[ """ ++ [233]%N ++ runes_of_ascii "t" ++ [233]%N ++ runes_of_ascii """/// triple
,
7,
""a\""b""	, 0123456789
,""abc"" , """ ++ [28040; 24687]%N ++ runes_of_ascii """ ,0 ] : Z9_
    },
    char[ 00  ]//
string_@lengthOf( asx ), char[
    1 ]falsey , } ,match	crc
as
    lengthOf {
    4294967296 : a1
}, }
")).
Eval vm_compute in ("<<<M1117>>>" ++ check (runes_of_ascii "// top
options
    // c0
{
    // c1
charz
    // c2
=
    // c3
f64
    // c4
;
    // c5
metadata
    // c6
=
    // c7
7
    // c8
;
    // c9
}
    // c10
options
    // c11
{
    // c12
u128
    // c13
=
    // c14
10
    // c15
options1
    // c16
=
    // c17
true
    // c18
;
    // c19
zchar
    // c20
=
    // c21
uint16
    // c22
;
    // c23
lengthOf
    // c24
=
    // c25
true
    // c26
;
    // c27
}
    // c28
options
    // c29
{
    // c30
len
    // c31
=
    // c32
1
    // c33
}
    // c34
")).
Eval vm_compute in ("<<<M2099>>>" ++ check (runes_of_ascii "options {
    LittleEndian = true;
    StringPrefixLenType = u16;
    ArrayPrefixLenType = u64;
}

packet Fill {
}

packet Logon {
    repeat char[3] Tail,
    zchar[6] venue,
    repeat string Side2,
}

root packet Cancel {
    char[] Flags,
    char[] OrderId,
    zchar[6] msgKind,
    Fill,
    char[] Acct,
    u8 f1,
    match f1 as Body {
        188 : Fill,
        5 : Logon,
    },
    u32 clOrdID @calculatedFrom(""CR\
        C32""),
}")).
Eval vm_compute in ("<<<M122>>>" ++ check (runes_of_ascii "
packet  u
    //	t
    {uint32 metadata	,	@lengthOf( metadata // " ++ [27880; 37322]%N ++ runes_of_ascii "
)
// `tick` ""quote"" 'q'
// c
repeat Logon
    ,x_y_z// a // b
, @lengthOf(
    tag )
// " ++ [128512]%N ++ runes_of_ascii " emoji
// c
float msg_type	,}MetaData chars { u8x
    matchKey
// " ++ [27880; 37322]%N ++ runes_of_ascii "
//x
,
    uint8
    x_y_z `u8 x,`, zchar x_y_z `doc` ,	char i64_ `a\` ,f32 tag//	t
, } MetaData _x {
// trailing space 
// `tick` ""quote"" 'q'
} options { }
")).
Eval vm_compute in ("<<<M1786>>>" ++ check (runes_of_ascii "
root packet

    roots
{@tag(	7// `tick` ""quote"" 'q'
    )int64 A 
,}
    //
	//
	packet
u128
// a // b

  {

    msg_type
    Pad `line1
line2` ,

    }options
    {crc =""\" ++ [233]%N ++ runes_of_ascii """
;  }root packet

    _x	{ @lengthOf(
pack// " ++ [27880; 37322]%N ++ runes_of_ascii "
      )i16 MetaDataX 
, calculatedFrom
	{	packetx

@lengthOf(	BodyLength
)`{ , }` ,  }	// a // b
    ,
}

")).
Eval vm_compute in ("<<<M1432>>>" ++ check (runes_of_ascii "// top
packet // c0
float // c1
{ // c2
repeat // c3
i8i8 // c4
MetaDataX // c5
`it's` // c6
, // c7
rootA // c8
, // c9
repeat // c10
int8 // c11
int // c12
, // c13
match // c14
repeatCount // c15
as // c16
x_y_z // c17
{ // c18
""{,}"" // c19
: // c20
Logon // c21
, // c22
} // c23
, // c24
} // c25
")).
Eval vm_compute in ("<<<M1120>>>" ++ check (runes_of_ascii "// top
packet
    // c0
metadata
    // c1
{
    // c2
Logon
    // c3
{
    // c4
A
    // c5
`" ++ [28040; 24687; 31867; 22411]%N ++ runes_of_ascii "`
    // c6
,
    // c7
tag
    // c8
o
    // c9
,
    // c10
}
    // c11
,
    // c12
zchar
    // c13
len
    // c14
`// not a comment`
    // c15
,
    // c16
}
    // c17
")).
Eval vm_compute in ("<<<M646>>>" ++ check (runes_of_ascii "root packet tag { }  packet MetaDataX{char[007	]
// c
/// triple
asx  @calculatedFrom( ""a\""b""
) `say ""hi""`// " ++ [27880; 37322]%N ++ runes_of_ascii "
,  @tag(4294967296 )
    char[1//x
] packetx @calculatedFrom(""a\""b""
    ) ,
// " ++ [128512]%N ++ runes_of_ascii " emoji
// a // b
@calculatedFrom(""" ++ [233]%N ++ runes_of_ascii "t" ++ [233]%N ++ runes_of_ascii """  ) repeat pack // " ++ [27880; 37322]%N ++ runes_of_ascii "
@tag(
    } // c")).
Eval vm_compute in ("<<<M292>>>" ++ check (runes_of_ascii "options { asx = ""{,}"" } packet len{repeat	float
    As, char[] Packet ,
i8 body @lengthOf( T
) //
,
}// @lengthOf(
packet
    Pad {uint32
u8x // packet A { u8 x, }
, /// triple
@tag( 4294967296 ) @tag(65535)
@rightPad(
    )rootA
    trueish `{ , }`
    ,
    } 	 ")).
Eval vm_compute in ("<<<M545>>>" ++ check (runes_of_ascii "root packet tag { }  packet MetaDataX{char[007	]
// c
/// triple
asx  @calculatedFrom( )
""a\""b"" `say ""hi""`// " ++ [27880; 37322]%N ++ runes_of_ascii "
,  @tag(4294967296 )
    char[1//x
] packetx @calculatedFrom(""a\""b""
    ) ,
// " ++ [128512]%N ++ runes_of_ascii " emoji
// a // b
@calculatedFrom(""" ++ [233]%N ++ runes_of_ascii "t" ++ [233]%N ++ runes_of_ascii """  ) repeat pack // " ++ [27880; 37322]%N ++ runes_of_ascii "
,
    } // c")).
Eval vm_compute in ("<<<M613>>>" ++ check (runes_of_ascii "root packet tag { }  packet MetaDataX{char[007	]
// c
/// triple
asx  @calculatedFrom( ""a\""b""
) `say ""hi""`// " ++ [27880; 37322]%N ++ runes_of_ascii "
,  @tag(4294967296 )
    char[1//x
] packetx @calculatedFrom(""a\""b""
    ) 
// " ++ [128512]%N ++ runes_of_ascii " emoji
// a // b
@calculatedFrom(""" ++ [233]%N ++ runes_of_ascii "t" ++ [233]%N ++ runes_of_ascii """  ) repeat pack // " ++ [27880; 37322]%N ++ runes_of_ascii "
,
    } // c")).
Eval vm_compute in ("<<<M671>>>" ++ check (runes_of_ascii "root packet tag { }  packet MetaDataX{char[007	]
// c
/// triple
asx  @calculatedFrom( ""a\""b""
) `say ""hi""`// " ++ [27880; 37322]%N ++ runes_of_ascii "
,  @tag(4294967296 )
    char[1//x
] x" ++ [178]%N ++ runes_of_ascii " @calculatedFrom(""a\""b""
    ) ,
// " ++ [128512]%N ++ runes_of_ascii " emoji
// a // b
@calculatedFrom(""" ++ [233]%N ++ runes_of_ascii "t" ++ [233]%N ++ runes_of_ascii """  ) repeat pack // " ++ [27880; 37322]%N ++ runes_of_ascii "
,
    } // c")).
Eval vm_compute in ("<<<M1959>>>" ++ check (runes_of_ascii "// top
packet float {
    // c2
    repeat i8i8 MetaDataX `it's`,
    // c7
    rootA,
    // c9
    repeat int8 int,
    // c13
    match repeatCount as x_y_z {
        // c18
        ""{,}"" : Logon,
        // c22
    },
    // c24
}
// c25")).
Eval vm_compute in ("<<<M1448>>>" ++ check (runes_of_ascii "// top
packet // c0a
  // c0b
Inner // c1
{ // c2
u8 a // c4a
  // c4b
, // c5a
  // c5b
} root // c7a
  // c7b
packet
    // c8
P
    // c9
{ repeat Inner items // c13a
  // c13b
, // c14
u8 x
    // c16
, // c17
} ")).
Eval vm_compute in ("<<<M110>>>" ++ check (runes_of_ascii "packet i64_
{	@tag( // a // b
0123456789) x_y_z@calculatedFrom( ""it's"" ) , @rightPad ( ' ' ) @tag( 007
    ) leftPad {
    zchar[00 ]Pad , }
,int32 _x@lengthOf( BodyLength
/// triple
//
) ,
}
")).
Eval vm_compute in ("<<<M372>>>" ++ check (runes_of_ascii "MetaData // " ++ [128512]%N ++ runes_of_ascii " emoji
chars { int64 metadata	,
char[00] stringy
//
// c
,
    f64 Foo ,} options {	} options {As = char[ 4294967296
]A =
""x y""options1=	float32 Logon =  '\x00' ;	}
")).
Eval vm_compute in ("<<<M2118>>>" ++ check (runes_of_ascii "MetaData stringy {
    i16 f32a,
    string crc `crlf
    line`,
    f32 o `doc`,
    float64 calculatedFrom,
}

packet o {
    @leftPad()
    string_ @lengthOf(packetx),
}")).
Eval vm_compute in ("<<<M474>>>" ++ check (runes_of_ascii "packet
    // `tick` ""quote"" 'q'
    crc
// packet A { u8 x, }
//	t
{
u32 a1 ,
    // trailing space 
    roots
charz //
`two words`,	}
    MetaData int {
} /// triple|")).
Eval vm_compute in ("<<<M697>>>" ++ check (runes_of_ascii "root packet len // trailing space 
{
// " ++ [27880; 37322]%N ++ runes_of_ascii "
//	t
char[10
] metadata	@lengthOf( o ) `crlf
line`,
    (
@rightPad ' '
) string
    Header @calculatedFrom( ""a\\""
    ), }
")).
Eval vm_compute in ("<<<M389>>>" ++ check (runes_of_ascii "packet
    // `tick` ""quote"" 'q'
    
// packet A { u8 x, }
//	t
{
u32 a1 ,
    // trailing space 
    roots
charz //
`two words`,	}
    MetaData int {
} /// triple")).
Eval vm_compute in ("<<<M1994>>>" ++ check (runes_of_ascii "//
	packet int  { @leftPad(
'\x00'  ) 
MetaDataX
	@lengthOf(
u128 
)
	, u	a1 `doc` , @calculatedFrom(
""a\""b"" )

i16 repeatCount // @lengthOf(
  	`tab	here`
	, }")).
Eval vm_compute in ("<<<M597>>>" ++ check (runes_of_ascii "root packet tag { }  packet MetaDataX{char[007	]
// c
/// triple
asx  @calculatedFrom( ""a\""b""
) `say ""hi""`// " ++ [27880; 37322]%N ++ runes_of_ascii "
,  @tag(4294967296 )
    char[1//x
]")).
Eval vm_compute in ("<<<M1716>>>" ++ check (runes_of_ascii "
packet A
{ match k
	as  n
{
[ 1 ,
    22
	,
	""c c"" 
,4

,

    5
,	""f""
	,  7
,
    8 
,	""i""

,

10
	]

:B
    2
:

    C }
	,
	} ")).
Eval vm_compute in ("<<<M335>>>" ++ check (runes_of_ascii "MetaData u { BodyLength repeatCount // packet A { u8 x, }
,
} options {
string_
= false ; i8i8=10 ;}
    root packet float { } //")).
Eval vm_compute in ("<<<M1269>>>" ++ check (runes_of_ascii "root packet matchKey { zchar[ 3 ] pack @calculatedFrom( ""a	b"" ) `doc` , } options { } MetaData A { int8 msg_type , } // c
")).
Eval vm_compute in ("<<<M1248>>>" ++ check (runes_of_ascii "root packet matchKey { zchar[ 3 ] pack @calculatedFrom( ""a	b"" ) `doc` ,
// c
} options { } MetaData A { int8 msg_type , }")).
Eval vm_compute in ("<<<M965>>>" ++ check (runes_of_ascii "packet A {
    match k as n {
        ""x\
y"" : B,
        [""x\
y"", 1] : C,
        [1,2,3,4,5,""x\
y""] : D,
    },
}")).
Eval vm_compute in ("<<<M888>>>" ++ check (runes_of_ascii "packet A {
  match k as n {
    [""a"", ""bb"", ""c c"", ""d"", ""e"", ""f"", ""g"", ""h"", ""i"", ""j"", ""k""] : B,
    2 : C
  },
}")).
Eval vm_compute in ("<<<M914>>>" ++ check (runes_of_ascii "packet A {
    u16 len @lengthOf(body) `a
b`,
    u32 crc @calculatedFrom(""CRC32"") `a
b`,
    string body,
}")).
Eval vm_compute in ("<<<M892>>>" ++ check (runes_of_ascii "packet A {
  match k as n {
    [""a"", 22, ""c c"", 4, ""e"", 66, ""g"", 8, ""i"", 10, ""k""] : B,
    2 : C
  },
}")).
Eval vm_compute in ("<<<M1512>>>" ++ check (runes_of_ascii "packet FooBar {
    u8 a,
}
packet foo_bar {
    u16 b,
}
root packet R {
    FooBar,
    foo_bar,
}
")).
Eval vm_compute in ("<<<M91>>>" ++ check (runes_of_ascii "// trailing space 
MetaData u8x
{
i64_
    i64_ `doc`,i16 Z9_ `say ""hi""` , BodyLength
roots ,
}")).
Eval vm_compute in ("<<<M1470>>>" ++ check (runes_of_ascii "options { 
FixedStringPadFromLeft	= true
	; }

    root	packet

P{
	char[4]
	z
    ,
    }
")).
Eval vm_compute in ("<<<M851>>>" ++ check (runes_of_ascii "packet A {
  match k as n {
    [1, ""bb"", 007, ""d"", 5, ""f"", 7, ""h""] : B,
    2 : C
  },
}")).
Eval vm_compute in ("<<<M1207>>>" ++ check (runes_of_ascii "MetaData float { float64 charz `
` , } root packet chars { @rightPad (
// c
'0' ) Foo , }")).
Eval vm_compute in ("<<<M1418>>>" ++ check (runes_of_ascii "packet chars { } packet MetaDataX { @tag( 42 ) i16 string_ // c
, repeat x `say ""hi""` , }")).
Eval vm_compute in ("<<<M1820>>>" ++ check (runes_of_ascii "packet
    A
	{Inner

    {
	u8 x

`x
`
,	Deep
{ u8 y`x
`

    , 
}	,
	}
    , }

")).
Eval vm_compute in ("<<<M1148>>>" ++ check (runes_of_ascii "packet metadata { Logon { A `" ++ [28040; 24687; 31867; 22411]%N ++ runes_of_ascii "` , tag o , } , // c
zchar len `// not a comment` , }")).
Eval vm_compute in ("<<<M1353>>>" ++ check (runes_of_ascii "packet o { repeat Logon uint8x ,
// c
} options { asx = zchar[ 3 ] stringy = '\x00' }")).
Eval vm_compute in ("<<<M1497>>>" ++ check (runes_of_ascii "packet order_item {
    u8 a,
}
root packet new_order {
    order_item,
    u8 x,
}
")).
Eval vm_compute in ("<<<M1314>>>" ++ check (runes_of_ascii "MetaData body { i64 pack
// c
`it's` , } packet stringy { int16 calculatedFrom , }")).
Eval vm_compute in ("<<<M1777>>>" ++ check (runes_of_ascii "
MetaData
Packet 
{
    string
Logon `" ++ [233]%N ++ runes_of_ascii "`  ,	int8
	_x
//	t
  // " ++ [27880; 37322]%N ++ runes_of_ascii "
    ,
    } ")).
Eval vm_compute in ("<<<M821>>>" ++ check (runes_of_ascii "packet A {
  match k as n {
    [1, 22, 007, 4, 5, 66] : B,
    2 : C
  },
}")).
Eval vm_compute in ("<<<M809>>>" ++ check (runes_of_ascii "packet A {
  match k as n {
    [1, 22, 007, 4, 5] : B
    2 : C
  },
}")).
Eval vm_compute in ("<<<M1475>>>" ++ check (runes_of_ascii "root packet P {
    u16 a,
    u32 Sum @calculatedFrom(""CRC32""),
}
")).
Eval vm_compute in ("<<<M302>>>" ++ check (runes_of_ascii "
packet
    // a // b
    matchKey{ @tag(//
0 ) repeat u ,}

")).
Eval vm_compute in ("<<<M1160>>>" ++ check (runes_of_ascii "// top
root // c0
packet // c1
pack // c2
{ // c3
} // c4
")).
Eval vm_compute in ("<<<M1092>>>" ++ check (runes_of_ascii "packet A {
    match k as n {
        1 : B,// c
    },
}")).
Eval vm_compute in ("<<<M1481>>>" ++ check (runes_of_ascii "

  root

    packet
P

{ string
s

    ,	}
")).
Eval vm_compute in ("<<<M1380>>>" ++ check (runes_of_ascii "// top
MetaData // c0
o // c1
{ }
    // c3
")).
Eval vm_compute in ("<<<M1102>>>" ++ check (runes_of_ascii "root packet // c
u128 { chars `it's` , }")).
Eval vm_compute in ("<<<M1672>>>" ++ check (runes_of_ascii "packet float {
}

packet body {
}
//x")).
Eval vm_compute in ("<<<M1038>>>" ++ check (runes_of_ascii "packet A {
 u8 x `d 	`, // c 	
}")).
Eval vm_compute in ("<<<M1048>>>" ++ check (runes_of_ascii "packet A {
 u8 x `d" ++ [65279]%N ++ runes_of_ascii "`, // c" ++ [65279]%N ++ runes_of_ascii "
}")).
Eval vm_compute in ("<<<M1173>>>" ++ check (runes_of_ascii "root packet pack { } // c
")).
Eval vm_compute in ("<<<M1064>>>" ++ check (runes_of_ascii "// a// bpacket A {}")).
Eval vm_compute in ("<<<M981>>>" ++ check (runes_of_ascii "packet A {
}
// c" ++ [160]%N)).
Eval vm_compute in ("<<<M151>>>" ++ check (runes_of_ascii "packet  float{ }
")).
Eval vm_compute in ("<<<M315>>>" ++ check (runes_of_ascii "MetaData As{ }")).
Eval vm_compute in ("<<<M286>>>" ++ check (runes_of_ascii " //	t")).
Eval vm_compute in ("<<<M14>>>" ++ check (runes_of_ascii "
")).
