From FP Require Import Lexer Parser ShowPT Digest Formatter.
From Coq Require Import String List NArith.
Import ListNotations.
Open Scope string_scope.
Set Printing Width 100000000.
Set Printing Depth 100000000.
Definition show_fres (r : fres) : string :=
  match r with
  | FOk s => "OK:" ++ sh_escaped s ""
  | FErr s => "ERR:" ++ sh_escaped s ""
  | FPanic p => "PANIC:" ++ p
  end.
Definition check (rs : list rune) : string := digest (show_fres (format_res rs)).
Definition full (rs : list rune) : string := show_fres (format_res rs).
Eval vm_compute in ("<<<M974>>>" ++ check (runes_of_ascii "options
    { As
= false}packet
stringy { @calculatedFrom( """ ++ [128512]%N ++ runes_of_ascii """ ) @calculatedFrom( ""\n"" ) MetaDataX metadata
, @tag(
7 ) u64
    packetx
, u
    // trailing space 
    charz `// not a comment` , @rightPad
(
    ) repeat
    i16	As`{ , }`
// c
//	t
,@rightPad
    (  ' '
) /// triple
@lengthOf(
uint8x )
msg_type { repeat options1 // " ++ [27880; 37322]%N ++ runes_of_ascii "
{ //	t
string
body , } , repeat int8 T//
,float32 len ,  pack
/// triple
// trailing space 
{repeat u16 lengthOf `line1
line2` ,  i32 len@lengthOf(	MetaDataX)
    `" ++ [233]%N ++ runes_of_ascii "`
,uint8x	{ BodyLength
    @lengthOf(
x
) , zchar[255]falsey	@lengthOf(Logon ) `crlf
line` , /// triple
},u8x
, } , /// triple
}
    // " ++ [27880; 37322]%N ++ runes_of_ascii "
    , @lengthOf( matchKey
) int ,} root packet Packet { uint16 u `a\`
,
    @leftPad ( '0'  )repeat
//x
// c
msg_type
{ falsey { repeatCount { uint32 As /// triple
, char[] repeatCount ,} ,}
, }
    ,@leftPad (
'0' )
@tag(
3) match
    calculatedFrom as asx { ""{,}""  : float, 1 : MetaDataX
""\" ++ [233]%N ++ runes_of_ascii """ // " ++ [27880; 37322]%N ++ runes_of_ascii "
:	_x
, 10
    :
string_ 0 : lengthOf
} /// triple
, u body
    , f32 Pad
    @lengthOf( MetaDataX )
    // c
    `" ++ [28040; 24687; 31867; 22411]%N ++ runes_of_ascii "` ,
    zchar[ 42 ]
u `{ , }`	, @calculatedFrom( ""\n"" )
    // c
    string
T
@lengthOf( tag //x
)
`say ""hi""` , // c
@rightPad // c
('0'
    )
match body as uint8x { [4294967296
, 1 , 00,
""x y""]
    : a1 ,} , } packet
a1 {@tag(
    42
)
    u16 tag @lengthOf(MetaDataX
    )
,
    uint64 int `tab	here` , string float
    @lengthOf( packetx )// " ++ [128512]%N ++ runes_of_ascii " emoji
`crlf
line`
    , float32 options1`it's` , @calculatedFrom( ""CRC32""	) uint8 crc , @tag( 1
) metadata f32a
    `" ++ [233]%N ++ runes_of_ascii "`
, @rightPad( // packet A { u8 x, }
'\x00'
)
@lengthOf(pack)	@tag( 0123456789 )float32 uint8x
    @lengthOf(
    u ) // packet A { u8 x, }
,
    //
    } root packet i8i8
{
    match
MetaDataX
as
o { ""// no comment""
: options1
,
7
: i8i8 [""{,}"", ""// no comment"",
""" ++ [128512]%N ++ runes_of_ascii """ , 10 , ""\n""	,  ""// no comment"" ,
""abc""
    ] : As ,
[ ""packet""
    /// triple
    ,  ""a\""b"", 10,""x y"",	""{,}"" ,
007
, 1,
""// no comment""
    ] :
BodyLength ,
} , // `tick` ""quote"" 'q'
@tag( 42 )
repeat string x_y_z	, f32a @calculatedFrom(
""""	) ,match u128 // a // b
as // a // b
Z9_ { """ ++ [28040; 24687]%N ++ runes_of_ascii """ : lengthOf ""\" ++ [233]%N ++ runes_of_ascii """
//
// `tick` ""quote"" 'q'
: string_ ,}, @tag( 4294967296	)  u64 f32a , string	roots@calculatedFrom(	""\" ++ [233]%N ++ runes_of_ascii """ ) // `tick` ""quote"" 'q'
`// not a comment`
, //	t
}
")).
Eval vm_compute in ("<<<M28>>>" ++ check (runes_of_ascii "packet
tag { repeat
    //
    T MetaDataX
    , @calculatedFrom(
//
/// triple
""`tick`""  ) @tag( 007 ) leftPad `tab	here` , @tag( 0123456789  )
char x , @tag(0 ) u64 tag
    ,
i8 roots
    // a // b
    ,
    @lengthOf(
float ) @tag( 10 )
// c
// `tick` ""quote"" 'q'
body { chars
{repeat int8  body , }  , repeat Header {char[]
    leftPad	, },	match  Logon as zchar  { 4294967296 :
    len , ""a\""b"":A //
00
: x_y_z,
} , repeat i16	options1
, }
    , @calculatedFrom( """ ++ [128512]%N ++ runes_of_ascii """)@rightPad ( '0'
) i16 Pad , //
int64
    As @lengthOf(
crc ) , } MetaData x_y_z {u crc
, } root packet
Z9_{ @calculatedFrom( ""{,}"" ) tag, @lengthOf( lengthOf ) zchar[  42 ] crc //x
`" ++ [233]%N ++ runes_of_ascii "`
// a // b
// @lengthOf(
, char[ 007 ] options1 ,
}packet
    // `tick` ""quote"" 'q'
    x {char	trueish
    ,	char[] packetx @calculatedFrom(""" ++ [28040; 24687]%N ++ runes_of_ascii """)
    `line1
line2` ,  zchar[
1
    ]
    Foo // " ++ [128512]%N ++ runes_of_ascii " emoji
, zchar[ 00 ]
A , match msg_type as tag { """" : leftPad , [ """ ++ [128512]%N ++ runes_of_ascii """ ,
    0 ,10
    ,  3//	t
] :
Z9_,  ""it's"":	float , 10 : calculatedFrom ""x y"" // @lengthOf(
:
    f32a
    007	: roots
    , } // `tick` ""quote"" 'q'
,} packet
    u{ // trailing space 
@calculatedFrom( ""\n"" ) @calculatedFrom( ""a\""b"" )	i64_
rootA , match // @lengthOf(
x as Logon {
    1
:
    body,
""a\\"" /// triple
: _x ""packet"" : BodyLength,
},
    //x
    @rightPad ( '\x00'//x
) @calculatedFrom( """ ++ [128512]%N ++ runes_of_ascii """ )	repeat stringy { match
//x
// packet A { u8 x, }
T as float { ""a\\"" : len
    0:
BodyLength , [ ""it's""
, ""{,}"" , 255 // a // b
, 0123456789, ""a\\"" ] :
    Logon, 3:rootA
    // " ++ [27880; 37322]%N ++ runes_of_ascii "
    ,
    }
//
// packet A { u8 x, }
,
} ,//
u16 uint8x `{ , }`,
// trailing space 
//x
@leftPad
    // a // b
    (
'0' )  string i64_@lengthOf(  stringy  ),
// `tick` ""quote"" 'q'
// @lengthOf(
u64 leftPad@calculatedFrom( // " ++ [27880; 37322]%N ++ runes_of_ascii "
""a	b"" ) , repeat // @lengthOf(
Header MetaDataX `a\`
, @lengthOf(stringy
    )	Packet
leftPad , @tag( 00 ) repeat zchar _x `tab	here` , i32	matchKey , }
")).
Eval vm_compute in ("<<<M3904>>>" ++ check (runes_of_ascii "  options 
{
metadata
= char[
4294967296

];
	} packet  f32a

    { 
match Z9_
as repeatCount
	{

    3:

    crc
	, ""{,}""
    : 
pack, },
	char[]calculatedFrom 
@lengthOf(	// @lengthOf(
    MetaDataX) , @calculatedFrom(
""`tick`""
    )	// " ++ [128512]%N ++ runes_of_ascii " emoji
	x_y_z 
	    // " ++ [27880; 37322]%N ++ runes_of_ascii "
      , 
i8 leftPad
    ,i8  uint8x
    @calculatedFrom( ""packet""  ) // trailing space 
  `// not a comment`
,

@calculatedFrom(  """" ) @tag( 007	)char[
10

]
    T
	@calculatedFrom(
	""""//

) ,
    u8x
{zchar @lengthOf(// packet A { u8 x, }
      u) `{ , }` 
// c
  ,
} , 
float
    `say ""hi""` 
, 
i64

    packetx
,
    @lengthOf( BodyLength  ) string	calculatedFrom
,

    }packet  MetaDataX // " ++ [27880; 37322]%N ++ runes_of_ascii "
    {  @calculatedFrom( ""{,}""  ) 
match	/// triple
metadata

    as 	 //
  _x  {
""1"":  // c

uint8x,

""{,}""
	:falsey	}	,
    }
packet // " ++ [27880; 37322]%N ++ runes_of_ascii "
  Logon
    {
    o

@lengthOf(
i8i8
    )

    ,
@rightPad(

'0' )
	int64 msg_type
, char
    calculatedFrom
	,
@tag(255 
)

i8i8

@calculatedFrom(
""x y""	)

    ,
i8i8  // @lengthOf(
    	@calculatedFrom( ""\" ++ [233]%N ++ runes_of_ascii """ )

    , 
@tag( 0123456789

)lengthOf,

@lengthOf( // `tick` ""quote"" 'q'
  o)
@tag( 10
) match options1 as 
u {

    ""1""
    : Pad
	, // c
  ""\" ++ [233]%N ++ runes_of_ascii """	: metadata ,	// @lengthOf(
	} ,
	@tag( // " ++ [128512]%N ++ runes_of_ascii " emoji
	1

    )  @tag(	65535 )
	@lengthOf( Packet 
) repeat  T,
	@tag( 
4294967296
    ) 
match
x_y_z 
as 
uint8x
{
""{,}""
:

uint8x
	7: metadata,	7
	: i64_

    [  """ ++ [233]%N ++ runes_of_ascii "t" ++ [233]%N ++ runes_of_ascii """,

    ""CRC32"", 	 // trailing space 
    ""packet""
    ,
00 , 
65535
	, ""x y""
,	// " ++ [27880; 37322]%N ++ runes_of_ascii "

	""packet"" 	 //x
] :	metadata ,	// packet A { u8 x, }
	""packet"" :uint8x 
,	}
    , repeat

    x

    ,
    }

")).
Eval vm_compute in ("<<<M948>>>" ++ check (runes_of_ascii "options { o // c
= ""it's""; }
/// triple
/// triple
packet calculatedFrom { int32 Header @calculatedFrom( ""x y""
)
    `" ++ [28040; 24687; 31867; 22411]%N ++ runes_of_ascii "`	,
    @tag( // a // b
0 ) @lengthOf( f32a // " ++ [128512]%N ++ runes_of_ascii " emoji
)match i64_ as T
    // " ++ [27880; 37322]%N ++ runes_of_ascii "
    { 255
    :
Foo 1
: T
,
    ""a	b"":  Header , 1 : x, } , } root packet options1 {
@leftPad ( // a // b
' ' )
    match
uint8x as lengthOf  { ""`tick`""
    // c
    :
x_y_z ,
} , @calculatedFrom( ""a\""b""
)repeat
// trailing space 
// " ++ [27880; 37322]%N ++ runes_of_ascii "
body`
`  ,
char[ 10 ] float
    // c
    ,match
stringy as repeatCount {[
42
// c
/// triple
, ""`tick`""
    ]:
    float , //	t
""abc"": matchKey
, // a // b
7
    :	As
    255
: pack
,
""{,}"" : len
,
3
:	metadata	, } ,char[3 ] trueish @calculatedFrom(
""CRC32""
    )
,
    repeat charz { match Pad	as Z9_ { ""packet"" : f32a , ""{,}""
: f32a 7 : _x ,  00 :repeatCount , 4294967296 : asx , ""CRC32""
    : u128//x
} ,
    char[ 42 ] //	t
crc `two words` ,
// @lengthOf(
//	t
repeat Foo // @lengthOf(
`doc` // a // b
,} , } options // `tick` ""quote"" 'q'
{ falsey =
    false ;// trailing space 
Header
=true ; // `tick` ""quote"" 'q'
packetx = u64
    ; calculatedFrom
//
// a // b
= ""\n"";
    } packet
    body {@tag( 42  ) repeat
i16
    u128`// not a comment`
    ,@tag( 0 )@tag(  0123456789 ) @calculatedFrom( ""\n""	)
zchar[ 255 ] x_y_z @lengthOf( stringy	) ,
f32a @lengthOf(
Logon
    )
,  repeat zchar[ 10] _x , float64 charz
`` ,
Pad
@lengthOf(
    u ) , body ``, }
")).
Eval vm_compute in ("<<<M4036>>>" ++ check (runes_of_ascii "
packet 
Packet {

MetaDataX{ 
	    // " ++ [128512]%N ++ runes_of_ascii " emoji
// trailing space 
  zchar[ 

// @lengthOf(
	255 ]
crc
@calculatedFrom( ""`tick`""  )
`doc` , 	 // c
  }
    , u32  As
    `
`

    ,
@lengthOf(
chars )f64

leftPad `// not a comment` ,

    repeat char[ 3
	]
len 
`doc`, 
match
    u8x
    as chars {  4294967296 
:
f32a

,

    [ 255 
,4294967296 
]: string_
	0 :	chars
	,  // packet A { u8 x, }
""a\""b""	:
    options1

    7 :  falsey

    ,

},
	@lengthOf(	// c
    len 
    // `tick` ""quote"" 'q'
  // @lengthOf(

) 
repeat
	char[
10  
      // " ++ [27880; 37322]%N ++ runes_of_ascii "
  	] Header
    `crlf
line` 
,  // " ++ [27880; 37322]%N ++ runes_of_ascii "

	rootA
asx
`two words` , }

packet //x
    	Packet {

@tag(//
	00)u16 asx,
	@calculatedFrom(

""a\""b""

    )
charz  @lengthOf(
	a1
	),
    @lengthOf( asx
	)
repeat
string

    falsey ,u32
options1

@lengthOf(
packetx	) `it's`	//x
  	,
} packet  metadata{ 
int16
    i8i8	, i32 tag 

//x

  //
    `line1
line2`
	, @calculatedFrom(
	""a\\"" 

//x
	//	t
    ) 	 // trailing space 
    @lengthOf(
repeatCount
) 
MetaDataX
    {
repeat

    x_y_z , }
,
    lengthOf
tag `" ++ [233]%N ++ runes_of_ascii "` ,
}  MetaData//	t
  Foo
    {
	body 
chars
, char[] asx
    `// not a comment`
, char

u8x 

    //
	  // a // b
	,
	x 
trueish `crlf
line`

,

char[]
	options1 `u8 x,`
, } ")).
Eval vm_compute in ("<<<M867>>>" ++ check (runes_of_ascii "packet asx { a1
{ match
pack
//	t
//	t
as
body {
    255:	rootA , } ,
x_y_z
//x
//	t
@calculatedFrom(
"""" ) ,repeat A metadata, }
,	match
    // `tick` ""quote"" 'q'
    stringy
as BodyLength { 00
// @lengthOf(
// `tick` ""quote"" 'q'
:charz ,
[00
,
    65535
, ""a\\"",
    ""{,}""
,0
    // trailing space 
    ]
:
lengthOf ,	[ ""\" ++ [233]%N ++ runes_of_ascii """ ] :
chars [4294967296 , 4294967296 ,
/// triple
//	t
""\n"" , """ ++ [233]%N ++ runes_of_ascii "t" ++ [233]%N ++ runes_of_ascii """ ]  :	Foo , [ 42
    ,00//x
, ""// no comment""
    ,
    """",""`tick`""
    , ""1"" , 3,
""packet"" ]:
matchKey , /// triple
""\n"" :
repeatCount
, }	, repeat chars , repeat o lengthOf//
`it's` , x { uint16
A`doc` ,match	A as
pack	{
    ""abc"" :u8x ,007 :BodyLength,	""a\""b"" : charz, 7: _x ,
0 :Logon , } ,
string_, Logon @calculatedFrom( """ ++ [128512]%N ++ runes_of_ascii """
)  `` , }// c
, @calculatedFrom(""" ++ [28040; 24687]%N ++ runes_of_ascii """ )
    // `tick` ""quote"" 'q'
    @lengthOf( body
    // a // b
    ) char[] a1 // c
`a\` , repeat uint8x msg_type
    , repeat char[ 0123456789
    ]
/// triple
/// triple
len ,char[ 10 ] uint8x@calculatedFrom( ""CRC32""
)
,  }
packet Header {
// c
// @lengthOf(
@tag(65535 )options1 ,  @rightPad
( '\x00'
)repeat
_x ,
@calculatedFrom(// c
""\" ++ [233]%N ++ runes_of_ascii """
    // " ++ [27880; 37322]%N ++ runes_of_ascii "
    )int16 len	`crlf
line` ,
f32 trueish,
}")).
Eval vm_compute in ("<<<M1394>>>" ++ check (runes_of_ascii "options {
	StringPrefixLenType = u16;
	ArrayPrefixLenType = u16;
}

packet SampleBinary {
	uint16 MsgType `" ++ [28040; 24687; 31867; 22411]%N ++ runes_of_ascii "`,
	u16 BodyLenght @lengthOf(Body) `" ++ [28040; 24687; 20307; 38271; 24230]%N ++ runes_of_ascii "`,
	match MsgType as Body {
		1 : Logon,
		2 : Logout,
		3 : Heartbeat,
		4 : RiskControlRequest,
		5 : RiskControlResponse,
	},
	@calculatedFrom(""CRC32"")
	u32 Ckecksum `" ++ [26657; 39564; 21644]%N ++ runes_of_ascii "`,
}

packet Logon {
	@leftPad('0')
	char[10] UserName `" ++ [29992; 25143; 21517]%N ++ runes_of_ascii "`,
	string Password `" ++ [23494; 30721]%N ++ runes_of_ascii "`,
	uint64 ClientId `" ++ [23458; 25143; 31471]%N ++ runes_of_ascii "ID`,
	u16 HeartbeatInterval `" ++ [24515; 36339; 38388; 38548]%N ++ runes_of_ascii "`,
}

packet Logout {
	@rightPad('0')
	char[10] UserName `" ++ [29992; 25143; 21517]%N ++ runes_of_ascii "`,
	uint64 ClientId `" ++ [23458; 25143; 31471]%N ++ runes_of_ascii "ID`,
}

packet Heartbeat {
}

packet RiskControlRequest {
	string UniqueOrderId `" ++ [21807; 19968; 35746; 21333; 21495]%N ++ runes_of_ascii "`,
	char[16] ClOrdID `" ++ [23458; 25143; 35746; 21333; 21495]%N ++ runes_of_ascii "`,
	char[3] MarketID `" ++ [24066; 22330]%N ++ runes_of_ascii "id`,
	char[12] SecurityID `" ++ [35777; 21048; 20195; 30721]%N ++ runes_of_ascii "`,
	char Side `" ++ [20080; 21334; 26041; 21521]%N ++ runes_of_ascii "`,
	char OrderType `" ++ [35746; 21333; 31867; 22411]%N ++ runes_of_ascii "`,
	u64 Price `" ++ [20215; 26684]%N ++ runes_of_ascii "`,
	u32 Qty `" ++ [25968; 37327]%N ++ runes_of_ascii "`,
	repeat string ExtraInfo `" ++ [38468; 21152; 20449; 24687]%N ++ runes_of_ascii "`,
	repeat SubOrder {
		char[16] ClOrdID `" ++ [23376; 35746; 21333; 21495]%N ++ runes_of_ascii "`,
		u64 Price `" ++ [23376; 35746; 21333; 20215; 26684]%N ++ runes_of_ascii "`,
		u32 Qty `" ++ [23376; 35746; 21333; 25968; 37327]%N ++ runes_of_ascii "`,
	},
}

packet RiskControlResponse {
	string UniqueOrderId `" ++ [21807; 19968; 35746; 21333; 21495]%N ++ runes_of_ascii "`,
	i32 Status `" ++ [29366; 24577]%N ++ runes_of_ascii "`,
	string Msg `" ++ [32467; 26524; 20449; 24687]%N ++ runes_of_ascii "`,
	repeat Detail,
}

packet Detail {
	string RuleName `" ++ [35268; 21017; 21517; 31216]%N ++ runes_of_ascii "`,
	u16 Code `" ++ [21407; 22240; 20195; 30721]%N ++ runes_of_ascii "`,
}")).
Eval vm_compute in ("<<<M674>>>" ++ check (runes_of_ascii "root packet  Foo	{
repeat
Packet { match i64_ as f32a{ ""1"" : Z9_, } ,
match
    // " ++ [128512]%N ++ runes_of_ascii " emoji
    options1  as stringy{
[
1
] :Foo	1 : x_y_z
    // trailing space 
    ,
// packet A { u8 x, }
// packet A { u8 x, }
[ 7 , 42
,
""1""  , """ ++ [233]%N ++ runes_of_ascii "t" ++ [233]%N ++ runes_of_ascii """ ,
""\" ++ [233]%N ++ runes_of_ascii """
, """ ++ [128512]%N ++ runes_of_ascii """ , ""{,}"" ] // packet A { u8 x, }
: float,
0123456789 : x ,	} , }
, @lengthOf(// `tick` ""quote"" 'q'
u // " ++ [128512]%N ++ runes_of_ascii " emoji
) char[] // " ++ [128512]%N ++ runes_of_ascii " emoji
MetaDataX ,@tag( 4294967296
) u128 , @calculatedFrom( """ ++ [128512]%N ++ runes_of_ascii """ )@tag( 4294967296 ) MetaDataX
    // @lengthOf(
    @calculatedFrom( """ ++ [128512]%N ++ runes_of_ascii """
) `tab	here` ,
    } packet BodyLength
    {
    char[ 0]u128	``// packet A { u8 x, }
, i64_
    ,
    repeat//
matchKey{
    char[]
x  `u8 x,`
, u128 f32a `u8 x,`
, char[	42 ]  calculatedFrom ,packetx @calculatedFrom(// packet A { u8 x, }
""" ++ [128512]%N ++ runes_of_ascii """ ) `a\`  , } , @lengthOf( Foo ) @rightPad
(
    // trailing space 
    '0'  ) int64	o
// trailing space 
// `tick` ""quote"" 'q'
@lengthOf( float	) , }
    MetaData
// a // b
// `tick` ""quote"" 'q'
_x
// @lengthOf(
// " ++ [27880; 37322]%N ++ runes_of_ascii "
{
u16 x_y_z ,
    //x
    zchar[ 42 ] falsey , }")).
Eval vm_compute in ("<<<M4262>>>" ++ check (runes_of_ascii "packet zchar {
    uint8x {
        MetaDataX,
        match stringy as calculatedFrom {
            """" : options1,
            ""// no comment"" : u,
            ""\" ++ [233]%N ++ runes_of_ascii """ : body,
            [""abc"", ""it's"", 007] : packetx,
            65535 : roots,
        },
        zchar[10] lengthOf `two words`,
    },
    //
    // packet A { u8 x, }
}

root packet Header {
    repeat f32a o `two words`,
    @lengthOf(f32a)
    char[42] uint8x,
    @tag(42)
    float @lengthOf(MetaDataX),
    string T,
    match _x as leftPad {
        0123456789 : stringy,
    },
    @leftPad()
    repeat uint8x {
        string_ {
            char[255] a1 @calculatedFrom(""abc""),
            metadata @lengthOf(asx),
        },
        repeat falsey,
        Logon {
            As,
            repeat char[] u,
        },
    },
    @leftPad(' ')
    char[10] charz @lengthOf(float),
    @calculatedFrom(""" ++ [233]%N ++ runes_of_ascii "t" ++ [233]%N ++ runes_of_ascii """)
    i64 trueish `two words`,
}

options {
    options1 = 7;
    u = """";
}")).
Eval vm_compute in ("<<<M712>>>" ++ check (runes_of_ascii "root packet //
Pad {
    char[
00
]
stringy @calculatedFrom( ""\" ++ [233]%N ++ runes_of_ascii """ ) `it's`,zchar{
falsey
Header // @lengthOf(
`two words` , Packet
@lengthOf( int ) `` ,charz
asx , u32 A , }	, string
    metadata, repeat
char[
1 ]	crc`
`
, Foo `it's` ,}packet
    // c
    rootA
    { repeat
    i32 matchKey , repeat x_y_z `// not a comment`, roots
    @calculatedFrom(
""\n"" ),
x_y_z {
    zchar[ 42]
// packet A { u8 x, }
// " ++ [27880; 37322]%N ++ runes_of_ascii "
charz@lengthOf( u128 ) // " ++ [128512]%N ++ runes_of_ascii " emoji
, leftPad`line1
line2` ,}
, falsey crc`crlf
line`,
    repeat
// " ++ [128512]%N ++ runes_of_ascii " emoji
// c
char
i64_ `a\` , }
    packet Packet { repeat //	t
i64_{ repeat metadata  { repeatCount `{ , }`,  int16// c
o , },
    //	t
    repeat uint64	A , float @calculatedFrom(
""a\""b""
    )
, zchar[	7 ]
T , }
, @leftPad
( '\x00')
    repeatCount	`a\` , } MetaData o // " ++ [27880; 37322]%N ++ runes_of_ascii "
{
    // a // b
    int
// packet A { u8 x, }
// @lengthOf(
repeatCount`line1
line2` ,} options	{ msg_type
=
00//x
}")).
Eval vm_compute in ("<<<M747>>>" ++ check (runes_of_ascii "packet u8x {@tag( 0)
match Header as	packetx
// " ++ [128512]%N ++ runes_of_ascii " emoji
//x
{""\n"":	o , 0 :
    Foo ,4294967296: rootA
,
    255 /// triple
:i8i8 }
,// `tick` ""quote"" 'q'
repeat //	t
uint8 stringy , chars ,
uint64 options1 `say ""hi""`
,@lengthOf( float )
    string leftPad ,  x body // packet A { u8 x, }
`line1
line2`
, @calculatedFrom(  ""// no comment"" ) uint16// a // b
chars @calculatedFrom(
""`tick`"" ) , }packet
    Header {@calculatedFrom(
    ""\" ++ [233]%N ++ runes_of_ascii """
)
zchar[ 007 ] As @lengthOf(
    // @lengthOf(
    Header )
, Header
// a // b
//x
@lengthOf( leftPad ) `doc` ,
    repeat zchar	calculatedFrom ,	@lengthOf( float// `tick` ""quote"" 'q'
) zchar[ 0123456789
    ] trueish`` /// triple
,
    match x as
string_ {
[
255] : A ,
""abc"" : Packet , [//x
""`tick`""
    ,10
    ]
: Pad,
    }
,}  packet len {// " ++ [128512]%N ++ runes_of_ascii " emoji
i8i8 body , } MetaData x
    {float32 Header , uint8 A ,i8i8
o , }

")).
Eval vm_compute in ("<<<M4136>>>" ++ check (runes_of_ascii "

  packet 
Pad{@leftPad  (	'\x00'	)

    @tag(  42
)

@rightPad  (
' ' )uint8 
asx
// c
  ,	@rightPad
    ( )string
a1
	,
u8x
@calculatedFrom(
	""" ++ [128512]%N ++ runes_of_ascii """) 
, 
@tag(1
	)
    zchar[
    255 ]u128
, @tag(
00 )
match
//x
      //	t
  u128 as
    zchar {
    3
	:
	tag  , 
[ """ ++ [233]%N ++ runes_of_ascii "t" ++ [233]%N ++ runes_of_ascii """

]  : // " ++ [27880; 37322]%N ++ runes_of_ascii "
	  int

    ,
    } , @leftPad
    (	) zchar[
    7]
zchar @lengthOf(
lengthOf	)  , 
repeat
Packet Foo
`a\` , @lengthOf(msg_type 
)@rightPad
	(	'0' ) @tag(

255 )string	tag

//	t
	//
@lengthOf(roots // a // b
  ) `say ""hi""`,	repeat 	 // " ++ [128512]%N ++ runes_of_ascii " emoji
    	Logon f32a, }packet uint8x  {
    // trailing space 
	@rightPad
	( ' '

) 
@lengthOf(
Header
) zchar[ 7] u,
	} // " ++ [128512]%N ++ runes_of_ascii " emoji
    MetaData
    a1 {rootA msg_type

    ,
u16  
  /// triple
    	lengthOf `it's`
	,
	f32

    u8x,	}  
  // c
  packet	trueish

{
}
")).
Eval vm_compute in ("<<<M4210>>>" ++ check (runes_of_ascii "packet f32a {
    @calculatedFrom(""1"")
    _x {
        string metadata @calculatedFrom(""`tick`"") `// not a comment`,
        match Foo as len {
            42 : Z9_,
            //x
        },
    },
}

packet options1 {
    @lengthOf(A)
    roots @lengthOf(msg_type) `line1
        line2`,
    int32 a1 `it's`,
    @calculatedFrom(""packet"")
    repeat string T,
    @lengthOf(i64_)
    @calculatedFrom(""packet"")
    @tag(007)
    int16 asx @calculatedFrom(""it's"") `doc`,
    repeat i32 charz,
    metadata `// not a comment`,
}

packet Logon {
}

options {
}

root packet tag {
    @lengthOf(Logon)
    charz {
        string stringy `// not a comment`,
        uint64 int,
        char i64_ `it's`,
    },
    //	t
    //
    u8 i64_,
    zchar[1] float,
}/// triple")).
Eval vm_compute in ("<<<M4017>>>" ++ check (runes_of_ascii "  options

    {leftPad

    =
	""{,}"" f32a
    =
true trueish= 
zchar[ 007 
]
	; 
crc
    // " ++ [27880; 37322]%N ++ runes_of_ascii "

	// @lengthOf(
  = ""`tick`""
    ; // c
	}//x
	root
packet body

{
asx

    @lengthOf( f32a	// `tick` ""quote"" 'q'
)	`` ,f64  body
@lengthOf(
int
    )
	,

    zchar[ 255  ]	BodyLength ,

    zchar[
	7

    ]leftPad
    /// triple
	// packet A { u8 x, }
	`line1
line2`,
@lengthOf(	asx)u128
	@lengthOf(  BodyLength ) 
`// not a comment`
    ,

@lengthOf(  As
    )	char[
	42

]_x

    @lengthOf(i8i8 )`line1
line2` 
,
    char[1 //	t
	] 
      // a // b
	options1 
@calculatedFrom(

""packet"")

    `say ""hi""`  ,}  options

{leftPad 
= 007 ;
charz=false repeatCount 
=""// no comment""
u  // a // b
=
	0123456789
	} ")).
Eval vm_compute in ("<<<M546>>>" ++ check (runes_of_ascii "// a // b
packet  rootA
{
@lengthOf( Packet
    )	Logon { char[ 7 ]
    /// triple
    T //
`
`
    // @lengthOf(
    ,}, @lengthOf(  rootA
) repeat zchar[00 ]	Header ,
// c
// packet A { u8 x, }
repeat i8i8 {
match Foo as i8i8 {
[ 4294967296
, 1 ,7, ""\" ++ [233]%N ++ runes_of_ascii """, ""\n"" ,
42 , 255 ,007
] : options1
    ,
4294967296 : pack
""""
:u8x,[
65535 ,  ""\n""
] :  pack , ""`tick`"" : Z9_ },float64 stringy ,} ,	@calculatedFrom(
""`tick`""
)x
{
A @lengthOf(
    crc
    ), char[ 00
] roots
, }, @lengthOf( int
) // " ++ [27880; 37322]%N ++ runes_of_ascii "
@lengthOf(
    u8x	)// @lengthOf(
@lengthOf(
    a1 ) uint16 trueish
    @calculatedFrom(
    ""a\\""
) //x
, Header@lengthOf(MetaDataX )
    `say ""hi""`  , roots	@lengthOf( a1 ),
    }
// " ++ [128512]%N ++ runes_of_ascii " emoji
")).
Eval vm_compute in ("<<<M579>>>" ++ check (runes_of_ascii "packet
    A{
    repeatCount
    {
    // " ++ [27880; 37322]%N ++ runes_of_ascii "
    repeat string//	t
falsey
`" ++ [233]%N ++ runes_of_ascii "` , x Z9_ //x
,rootA repeatCount`a\` , repeat // " ++ [128512]%N ++ runes_of_ascii " emoji
char[]
x_y_z
``, }
,} root packet
    //
    int
    { @calculatedFrom( ""\n"") @calculatedFrom(
    ""a\\"" // trailing space 
) repeat lengthOf repeatCount `two words`
// packet A { u8 x, }
// c
,} root packet
BodyLength {
@calculatedFrom( ""`tick`"" ) repeat asx { zchar[ 10 ]
MetaDataX , repeat
    char[ 4294967296 ] rootA`say ""hi""`
    , uint64 As
`" ++ [233]%N ++ runes_of_ascii "` ,
chars
u , } ,@tag( 0123456789	) @tag( 0 )string
roots	`" ++ [28040; 24687; 31867; 22411]%N ++ runes_of_ascii "` ,
    u8 crc /// triple
`{ , }` , // a // b
@calculatedFrom(
    ""CRC32"")repeat i64_ _x ,
char Packet , }")).
Eval vm_compute in ("<<<M3975>>>" ++ check (runes_of_ascii "packet i8i8 {
}

options {
    options1 = true;// " ++ [27880; 37322]%N ++ runes_of_ascii "
}

packet pack {
    //	t
    lengthOf {
        char[10] len @calculatedFrom(""\" ++ [233]%N ++ runes_of_ascii """) `a\`,
    },
}

root packet repeatCount {
    u128 len `line1
        line2`,
    @calculatedFrom(""// no comment"")
    repeat char[] zchar `// not a comment`,
    a1,
    repeat zchar[1] u `crlf
        line`,
}

packet lengthOf {
    @calculatedFrom(""packet"")
    // a // b
    float64 trueish @lengthOf(Z9_),
    @leftPad()
    match options1 as A {
        ""it's"" : len,
        [""""] : T,
        [00] : calculatedFrom,
        1 : MetaDataX,
        4294967296 : u,
    },
}
//")).
Eval vm_compute in ("<<<M386>>>" ++ check (runes_of_ascii "// @lengthOf(
root packet uint8x { repeat
x_y_z //	t
{ zchar[ 10
] stringy@calculatedFrom(// `tick` ""quote"" 'q'
""x y"" ) , // a // b
}//	t
,
    i64
body @lengthOf( options1
    ) `u8 x,` ,lengthOf  {
    // packet A { u8 x, }
    match T
as
len {007
    :
    BodyLength 1 :	_x ""\n"" :	chars , 255
: /// triple
a1 , } , f64 roots
@lengthOf(  Foo)
    , lengthOf @lengthOf(  x_y_z
    )`
`,	repeat // `tick` ""quote"" 'q'
string tag
`tab	here` , } , // @lengthOf(
} options
{
    falsey = char[ 0123456789
    ]roots
    // `tick` ""quote"" 'q'
    = int64 // packet A { u8 x, }
; A	= 007 }
")).
Eval vm_compute in ("<<<M3826>>>" ++ check (runes_of_ascii "// @lengthOf(
root packet uint8x {
    repeat x_y_z {
        zchar[10] stringy @calculatedFrom(""x y""),// a // b
    },
    i64 body @lengthOf(options1) `u8 x,`,
    lengthOf {
        // packet A { u8 x, }
        match T as len {
            007 : BodyLength,
            1 : _x,
            ""\n"" : chars,
            255 : a1,
        },
        f64 roots @lengthOf(Foo),
        lengthOf @lengthOf(x_y_z) `
                `,
        repeat string tag `tab	here`,
    },// @lengthOf(
}

options {
    falsey = char[0123456789]
    roots = int64;
    A = 007
}")).
Eval vm_compute in ("<<<M310>>>" ++ check (runes_of_ascii "packet  T{ i8 MetaDataX	,
    repeat x
    {
int32 lengthOf ,
char[ 007 ]repeatCount
`" ++ [233]%N ++ runes_of_ascii "`
, string // " ++ [27880; 37322]%N ++ runes_of_ascii "
Header @lengthOf(
    len ),	}
,	@rightPad (
' '
    ) @tag(	3  )
@tag(
00 ) char[ 00 ]rootA	, f64 string_ , @calculatedFrom( ""it's""
// " ++ [27880; 37322]%N ++ runes_of_ascii "
//
) char[]falsey ``	,
repeat
    a1 {	i64_ u128 ,
    zchar[
4294967296 ]
i8i8 ,
Logon @lengthOf( packetx
    // trailing space 
    ) ,} , lengthOf float
, @calculatedFrom( ""{,}""
    ) u@lengthOf( rootA
) `say ""hi""`
//
//x
,	zchar[
    //	t
    10
    ] metadata `` ,}
options { } //	t")).
Eval vm_compute in ("<<<M1209>>>" ++ check (runes_of_ascii "options { rootA = false ; }MetaData /// triple
float { u16 falsey ``
,  char[ 1 ]
options1 , uint32 stringy `` , f32
leftPad  `it's`	,
    /// triple
    x repeatCount ,asx
    repeatCount
`{ , }` ,
    }  packet
    rootA { @tag(
    7 ) len string_ , } packet As
{@leftPad ( ' '
    // " ++ [128512]%N ++ runes_of_ascii " emoji
    ) repeat chars { f32 leftPad @lengthOf( Packet ) `a\` ,
    int32
    //x
    T `tab	here`	, match string_ as len { 65535
: rootA ,} , A { falsey @calculatedFrom(
    ""CRC32"" ) ,
    uint8x
,
zchar ,} , } , }
")).
Eval vm_compute in ("<<<M4194>>>" ++ check (runes_of_ascii "
packet
    string_{zchar[ 3 ] 	 // c
stringy
@lengthOf(packetx	) `u8 x,` 	 //
    , // `tick` ""quote"" 'q'
  f64 
string_ ``
	, 
} 
MetaData 
leftPad{
	char[ 1 ]

    MetaDataX  `crlf
line`

    ,
metadata	a1

    `tab	here`,T
    o
	`line1
line2` , 	 // " ++ [128512]%N ++ runes_of_ascii " emoji
	  o
	trueish,

} 
options
{

    }

    MetaData
    // @lengthOf(

  T  {Foo
Logon ,
	Logon	lengthOf
	,
char[ 00 
]

pack ,

    char[

    7]
// @lengthOf(

// trailing space 
	i8i8

    ``
,

    }

")).
Eval vm_compute in ("<<<M4113>>>" ++ check (runes_of_ascii "
// top
		options // c0
	{	// c1
    	charz  // c2
=  // c3
	f64 // c4
; 	 // c5
    metadata	// c6
=// c7
  	7	// c8
	; // c9
}  // c10
  options// c11
    	{	// c12

	u128 	 // c13
    =// c14

  10 	 // c15
  options1  // c16
	= // c17
true// c18

;// c19
  	zchar  // c20

= // c21
	uint16	// c22

	; // c23
	lengthOf// c24
	= 	 // c25
	true  // c26

;// c27
	}  // c28
options// c29
  { 	 // c30
  	len // c31
    =  // c32
  1 	 // c33
	}	// c34
")).
Eval vm_compute in ("<<<M401>>>" ++ check (runes_of_ascii "// " ++ [128512]%N ++ runes_of_ascii " emoji
packet
    roots
{x_y_z @lengthOf(
    u128
) ,
    @calculatedFrom( ""it's"")match
a1
as
    Pad
{ ""`tick`"" : x_y_z ,1
: leftPad 00
:
u8x
7 //x
:falsey , ""1"" :Packet ,
//x
// trailing space 
""`tick`""
    : As//x
}	, @tag(	007 )  char[]MetaDataX ,string chars @calculatedFrom( ""`tick`"" )
    , } root packet calculatedFrom
    { repeat zchar[ 255 ] matchKey `doc` , char[ 4294967296 ]  options1 @lengthOf(
stringy//	t
) , } // a // b")).
Eval vm_compute in ("<<<M4480>>>" ++ check (runes_of_ascii "packet roots {
    repeat u8x `two words`,
    repeat roots {
        // " ++ [27880; 37322]%N ++ runes_of_ascii "
        char[1] Z9_ `it's`,// " ++ [128512]%N ++ runes_of_ascii " emoji
        char[42] float `" ++ [28040; 24687; 31867; 22411]%N ++ runes_of_ascii "`,
    },
    char[] As `a\`,
    calculatedFrom {
        repeat uint64 trueish,
    },
    repeat i64 MetaDataX,
    repeat string uint8x `say ""hi""`,
    _x A `
    `,
    @lengthOf(Packet)
    @tag(7)
    @leftPad()
    Header {
        u128,
        repeat char[] trueish `a\`,
    },
}")).
Eval vm_compute in ("<<<M218>>>" ++ check (runes_of_ascii "packet lengthOf {
f64 lengthOf
@lengthOf(a1
)
`" ++ [28040; 24687; 31867; 22411]%N ++ runes_of_ascii "`
, uint64 Logon `" ++ [233]%N ++ runes_of_ascii "`
,	string Pad@calculatedFrom( ""\n"" )
/// triple
// trailing space 
,zchar[ 0123456789
    ] Foo @lengthOf( charz )	`// not a comment` ,
@rightPad ()match falsey
    as Packet{ """"
    :
u ,
65535 :
float ,[  4294967296
] :	trueish // trailing space 
,	[10 ,0123456789 ]  :
Logon , 1 : roots [  7 ,
""\" ++ [233]%N ++ runes_of_ascii """ , 00
    //
    ]:
float , } ,}
")).
Eval vm_compute in ("<<<M1335>>>" ++ check (runes_of_ascii "packet //	t
metadata
    /// triple
    {
@calculatedFrom( ""a\\""
) // @lengthOf(
@rightPad // trailing space 
( '\x00' ) @rightPad (
// a // b
// " ++ [27880; 37322]%N ++ runes_of_ascii "
'\x00' ) repeat	x	, }
    MetaData
T { int32 lengthOf
// `tick` ""quote"" 'q'
// packet A { u8 x, }
, trueish T `` , rootA crc`a\`
    , Pad A `{ , }`
, }
    MetaData
    float { repeatCount
string_  `" ++ [233]%N ++ runes_of_ascii "` , }
    MetaData u128{ a1 BodyLength ,}
")).
Eval vm_compute in ("<<<M94>>>" ++ check (runes_of_ascii "options { o =
    ' ' ; lengthOf= ""it's"" string_= """ ++ [28040; 24687]%N ++ runes_of_ascii """	;i8i8 // c
=  uint32 } packet Logon{	Pad	@lengthOf(
    stringy),@rightPad (	'\x00'
) Header stringy `a\` , T { match	a1
    as Logon{  42 :
chars }	, },stringy {
zchar[ 7 // trailing space 
] x_y_z, }, uint8x BodyLength
, repeat zchar ,	@tag( 7 ) repeat // packet A { u8 x, }
u64 u128`" ++ [28040; 24687; 31867; 22411]%N ++ runes_of_ascii "` // packet A { u8 x, }
, }")).
Eval vm_compute in ("<<<M175>>>" ++ check (runes_of_ascii "packet f32a
{
    repeat calculatedFrom u128//	t
,
    T @calculatedFrom( ""a\\"" ) `crlf
line` ,
string /// triple
charz, @leftPad (
    //x
    ) repeat
pack // a // b
T
    ,	}MetaData
charz { } packet	i8i8{A
x ,match A
as
leftPad { ""abc""	: msg_type , ""a	b""
    //	t
    :
    T }	,f64 i8i8
    ,
char charz`" ++ [233]%N ++ runes_of_ascii "`
    // `tick` ""quote"" 'q'
    ,} // " ++ [128512]%N ++ runes_of_ascii " emoji")).
Eval vm_compute in ("<<<M3656>>>" ++ check (runes_of_ascii "options {
    FixedStringPadFromLeft = true;
    FixedStringPadChar = ' ';
}
packet Reject {
}
packet Fill {
    repeat i16 Tail,
}
root packet Trade {
    float64 Ref,
    Fill,
    u8 Note,
    u16 count @lengthOf(Body),
    match Note as Body {
        [98, 101] : Fill,
        34 : Reject,
    },
    u32 x @calculatedFrom(""CR\
C32""),
}
")).
Eval vm_compute in ("<<<M4281>>>" ++ check (runes_of_ascii "options {
    // @lengthOf(
    // " ++ [128512]%N ++ runes_of_ascii " emoji
    x = 10;
    x_y_z = true;
    Logon = i32
    T = 0
}

MetaData f32a {
    zchar len,
}

options {
    string_ = zchar[007];
    x_y_z = '0';
}

MetaData msg_type {
    lengthOf msg_type `two words`,
    i64 crc,
    packetx zchar `// not a comment`,
    string falsey `tab	here`,
}")).
Eval vm_compute in ("<<<M2021>>>" ++ check (runes_of_ascii "MetaData
    u { }  options {
// c
// @lengthOf(
float = int8 ;rootA =false ; As =	int16 // `tick` ""quote"" 'q'
repeatCount
    // trailing space 
    =
    int16
; u8x =
    //	t
    '\x00' ; } options	{
    repeatCount
= 0
u128
    //
    = false false ; i64_
// trailing space 
// `tick` ""quote"" 'q'
= '0' ; //	t
}
")).
Eval vm_compute in ("<<<M1871>>>" ++ check (runes_of_ascii "MetaData
    u { } }  options {
// c
// @lengthOf(
float = int8 ;rootA =false ; As =	int16 // `tick` ""quote"" 'q'
repeatCount
    // trailing space 
    =
    int16
; u8x =
    //	t
    '\x00' ; } options	{
    repeatCount
= 0
u128
    //
    = false ; i64_
// trailing space 
// `tick` ""quote"" 'q'
= '0' ; //	t
}
")).
Eval vm_compute in ("<<<M3867>>>" ++ check (runes_of_ascii "// `tick` ""quote"" 'q'
MetaData pack {
    string MetaDataX,//
    zchar[65535] i8i8,
    pack rootA `say ""hi""`,
    string_ Header `crlf
        line`,
    int64 string_,
    /// triple
    //	t
    char[] packetx,
}

options {
    trueish = ' ';
    i64_ = i16
    pack = u16;
    len = false
}

MetaData i64_ {
}")).
Eval vm_compute in ("<<<M1933>>>" ++ check (runes_of_ascii "MetaData
    u { }  options {
// c
// @lengthOf(
float = int8 ;rootA =false ; As :	int16 // `tick` ""quote"" 'q'
repeatCount
    // trailing space 
    =
    int16
; u8x =
    //	t
    '\x00' ; } options	{
    repeatCount
= 0
u128
    //
    = false ; i64_
// trailing space 
// `tick` ""quote"" 'q'
= '0' ; //	t
}
")).
Eval vm_compute in ("<<<M1860>>>" ++ check (runes_of_ascii "MetaData
     { }  options {
// c
// @lengthOf(
float = int8 ;rootA =false ; As =	int16 // `tick` ""quote"" 'q'
repeatCount
    // trailing space 
    =
    int16
; u8x =
    //	t
    '\x00' ; } options	{
    repeatCount
= 0
u128
    //
    = false ; i64_
// trailing space 
// `tick` ""quote"" 'q'
= '0' ; //	t
}
")).
Eval vm_compute in ("<<<M1960>>>" ++ check (runes_of_ascii "MetaData
    u { }  options {
// c
// @lengthOf(
float = int8 ;rootA =false ; As =	int16 // `tick` ""quote"" 'q'
repeatCount
    // trailing space 
    =
    int16
;  =
    //	t
    '\x00' ; } options	{
    repeatCount
= 0
u128
    //
    = false ; i64_
// trailing space 
// `tick` ""quote"" 'q'
= '0' ; //	t
}
")).
Eval vm_compute in ("<<<M3978>>>" ++ check (runes_of_ascii "packet A {
    u8 a,
}

packet B {
    u16 b,
}

packet C {
    u32 c,
}

root packet M {
    u16 Kc,
    u16 Kb,
    u16 Ka,
    match Kc as X {
        9 : A,
        10 : B,
    },
    match Kb as Y {
        2 : C,
        1 : A,
    },
    match Ka as Z {
        1 : B,
    },
    A,
    B,
    C,
}")).
Eval vm_compute in ("<<<M1283>>>" ++ check (runes_of_ascii "MetaData  T {
} root packet MetaDataX {
// packet A { u8 x, }
// `tick` ""quote"" 'q'
@lengthOf( trueish
)repeat
//
//	t
BodyLength ``  , }MetaData
    A // `tick` ""quote"" 'q'
{ float32 trueish , } packet
o
    //x
    {
    @lengthOf( Foo)  i8i8 stringy
    ,}MetaData trueish	{
    string o , }")).
Eval vm_compute in ("<<<M782>>>" ++ check (runes_of_ascii "root packet
    i8i8
{ i8 crc,
    // @lengthOf(
    @rightPad () uint64 u128`two words`
//
//	t
,//	t
uint64
_x	`{ , }` ,
// c
//x
} options {
As =""abc""leftPad
// " ++ [128512]%N ++ runes_of_ascii " emoji
/// triple
= ""CRC32""
charz =	char[ 65535 ] //	t
;x_y_z // trailing space 
= true ; }// @lengthOf(
options { }
")).
Eval vm_compute in ("<<<M3861>>>" ++ check (runes_of_ascii "root packet pack {
    match Pad as f32a {
        [""""] : leftPad,
        [""" ++ [233]%N ++ runes_of_ascii "t" ++ [233]%N ++ runes_of_ascii """, 007] : f32a,
        65535 : body,
        // @lengthOf(
        10 : u128,
        42 : pack,
    },
}

options {
    // " ++ [27880; 37322]%N ++ runes_of_ascii "
    o = f64;
    x_y_z = u32
    len = 42;
    falsey = true;
}")).
Eval vm_compute in ("<<<M1568>>>" ++ check (runes_of_ascii "packet
//	t
// trailing space 
_x {
// packet A { u8 x, }
// c
char[
3
    ] u8x @lengthOf(
u8x ) , @calculatedFrom(""" ++ [128512]%N ++ runes_of_ascii """ // @lengthOf(
)
i16	Foo
@lengthOf( @lengthOf(	string_
    )`doc`	, repeat	i64 metadata , @lengthOf( string_
) i8 // c
u  `line1
line2`	,
}
")).
Eval vm_compute in ("<<<M2039>>>" ++ check (runes_of_ascii "MetaData
    u { }  options {
// c
// @lengthOf(
float = int8 ;rootA =false ; As =	int16 // `tick` ""quote"" 'q'
repeatCount
    // trailing space 
    =
    int16
; u8x =
    //	t
    '\x00' ; } options	{
    repeatCount
= 0
u128
    //
    = false ; i64_")).
Eval vm_compute in ("<<<M1588>>>" ++ check (runes_of_ascii "packet
//	t
// trailing space 
_x {
// packet A { u8 x, }
// c
char[
3
    ] u8x @lengthOf(
u8x ) , @calculatedFrom(""" ++ [128512]%N ++ runes_of_ascii """ // @lengthOf(
)
i16	Foo
@lengthOf(	string_
    )`doc`	, , repeat	i64 metadata , @lengthOf( string_
) i8 // c
u  `line1
line2`	,
}
")).
Eval vm_compute in ("<<<M1490>>>" ++ check (runes_of_ascii "_x
//	t
// trailing space 
packet {
// packet A { u8 x, }
// c
char[
3
    ] u8x @lengthOf(
u8x ) , @calculatedFrom(""" ++ [128512]%N ++ runes_of_ascii """ // @lengthOf(
)
i16	Foo
@lengthOf(	string_
    )`doc`	, repeat	i64 metadata , @lengthOf( string_
) i8 // c
u  `line1
line2`	,
}
")).
Eval vm_compute in ("<<<M1634>>>" ++ check (runes_of_ascii "packet
//	t
// trailing space 
_x {
// packet A { u8 x, }
// c
char[
3
    ] u8x @lengthOf(
u8x ) , @calculatedFrom(""" ++ [128512]%N ++ runes_of_ascii """ // @lengthOf(
)
i16	Foo
@lengthOf(	string_
    )`doc`	, repeat	i64 metadata , @lengthOf( string_
) i8 // c
`line1
line2`  u	,
}
")).
Eval vm_compute in ("<<<M1517>>>" ++ check (runes_of_ascii "packet
//	t
// trailing space 
_x {
// packet A { u8 x, }
// c
char[
3
    ]  @lengthOf(
u8x ) , @calculatedFrom(""" ++ [128512]%N ++ runes_of_ascii """ // @lengthOf(
)
i16	Foo
@lengthOf(	string_
    )`doc`	, repeat	i64 metadata , @lengthOf( string_
) i8 // c
u  `line1
line2`	,
}
")).
Eval vm_compute in ("<<<M1213>>>" ++ check (runes_of_ascii "options { string_ = char[] ;
}
packet Z9_
{
// " ++ [27880; 37322]%N ++ runes_of_ascii "
// a // b
@tag( 1 ) matchKey matchKey
    ,
}	root packet
    // `tick` ""quote"" 'q'
    Z9_ {	@leftPad
    ( '\x00' ) @rightPad // " ++ [27880; 37322]%N ++ runes_of_ascii "
(
'\x00'// packet A { u8 x, }
)
float64 chars `it's` , }")).
Eval vm_compute in ("<<<M1230>>>" ++ check (runes_of_ascii "root packet roots { } // `tick` ""quote"" 'q'
MetaData As
{ string u
`{ , }` ,	zchar[ 3 ]
x_y_z, i32 roots ,
u16 rootA
    `line1
line2` ,
// `tick` ""quote"" 'q'
// a // b
i32// @lengthOf(
matchKey
    `doc`, u _x //	t
`{ , }` , }
")).
Eval vm_compute in ("<<<M2014>>>" ++ check (runes_of_ascii "MetaData
    u { }  options {
// c
// @lengthOf(
float = int8 ;rootA =false ; As =	int16 // `tick` ""quote"" 'q'
repeatCount
    // trailing space 
    =
    int16
; u8x =
    //	t
    '\x00' ; } options	{
    repeatCount
= 0")).
Eval vm_compute in ("<<<M1626>>>" ++ check (runes_of_ascii "packet
//	t
// trailing space 
_x {
// packet A { u8 x, }
// c
char[
3
    ] u8x @lengthOf(
u8x ) , @calculatedFrom(""" ++ [128512]%N ++ runes_of_ascii """ // @lengthOf(
)
i16	Foo
@lengthOf(	string_
    )`doc`	, repeat	i64 metadata , @lengthOf( string_")).
Eval vm_compute in ("<<<M115>>>" ++ check (runes_of_ascii "
MetaData stringy
{
    i16
    f32a , string  crc `crlf
line`
, f32 o `doc` , float64
calculatedFrom , }	packet o
{ @leftPad // `tick` ""quote"" 'q'
( )string_
    @lengthOf(packetx // `tick` ""quote"" 'q'
), }
")).
Eval vm_compute in ("<<<M818>>>" ++ check (runes_of_ascii "packet calculatedFrom{ body, } packet Packet {repeat
    _x // a // b
asx ,@tag(
3 )
    @calculatedFrom(
""" ++ [128512]%N ++ runes_of_ascii """
)
    char[3 ]
    body, f64
    MetaDataX `u8 x,` ,
    //x
    @tag(0 )repeat
    roots i8i8 ,	}")).
Eval vm_compute in ("<<<M1797>>>" ++ check (runes_of_ascii "options { trueish = ""`tick`"" ; string_= """ ++ [233]%N ++ runes_of_ascii "t" ++ [233]%N ++ runes_of_ascii """
    // c
    } root
    packet body { stringy @calculatedFrom(
""a	b"" ) `line1
line2` , }
packet Logon {
    @leftPad( (
    ' ' ) //	t
u16 string_ `u8 x,` ,
}
")).
Eval vm_compute in ("<<<M1688>>>" ++ check (runes_of_ascii "options { trueish ""`tick`"" = ; string_= """ ++ [233]%N ++ runes_of_ascii "t" ++ [233]%N ++ runes_of_ascii """
    // c
    } root
    packet body { stringy @calculatedFrom(
""a	b"" ) `line1
line2` , }
packet Logon {
    @leftPad(
    ' ' ) //	t
u16 string_ `u8 x,` ,
}
")).
Eval vm_compute in ("<<<M1823>>>" ++ check (runes_of_ascii "options { trueish = ""`tick`"" ; string_= """ ++ [233]%N ++ runes_of_ascii "t" ++ [233]%N ++ runes_of_ascii """
    // c
    } root
    packet body { stringy @calculatedFrom(
""a	b"" ) `line1
line2` , }
packet Logon {
    @leftPad(
    ' ' ) //	t
u16 string_ , `u8 x,`
}
")).
Eval vm_compute in ("<<<M1714>>>" ++ check (runes_of_ascii "options { trueish = ""`tick`"" ; string_= (
    // c
    } root
    packet body { stringy @calculatedFrom(
""a	b"" ) `line1
line2` , }
packet Logon {
    @leftPad(
    ' ' ) //	t
u16 string_ `u8 x,` ,
}
")).
Eval vm_compute in ("<<<M1821>>>" ++ check (runes_of_ascii "options { trueish = ""`tick`"" ; string_= """ ++ [233]%N ++ runes_of_ascii "t" ++ [233]%N ++ runes_of_ascii """
    // c
    } root
    packet body { stringy @calculatedFrom(
""a	b"" ) `line1
line2` , }
packet Logon {
    @leftPad(
    ' ' ) //	t
u16 string_  ,
}
")).
Eval vm_compute in ("<<<M886>>>" ++ check (runes_of_ascii "packet tag	{ BodyLength
    // @lengthOf(
    @lengthOf( options1
    )
,} options
{trueish
    = ""a\\""	matchKey
= 0123456789 // trailing space 
;
    BodyLength = '\x00' charz = """ ++ [233]%N ++ runes_of_ascii "t" ++ [233]%N ++ runes_of_ascii """
; }
")).
Eval vm_compute in ("<<<M1601>>>" ++ check (runes_of_ascii "packet
//	t
// trailing space 
_x {
// packet A { u8 x, }
// c
char[
3
    ] u8x @lengthOf(
u8x ) , @calculatedFrom(""" ++ [128512]%N ++ runes_of_ascii """ // @lengthOf(
)
i16	Foo
@lengthOf(	string_
    )`doc`	, repeat")).
Eval vm_compute in ("<<<M1596>>>" ++ check (runes_of_ascii "packet
//	t
// trailing space 
_x {
// packet A { u8 x, }
// c
char[
3
    ] u8x @lengthOf(
u8x ) , @calculatedFrom(""" ++ [128512]%N ++ runes_of_ascii """ // @lengthOf(
)
i16	Foo
@lengthOf(	string_
    )`doc`	,")).
Eval vm_compute in ("<<<M4371>>>" ++ check (runes_of_ascii "packet zchar {
    @calculatedFrom(""// no comment"")
    i32 x_y_z,
}

options {
    int = i8;
    MetaDataX = char[];
    Logon = false;
    roots = 0//
    Pad = false;
}")).
Eval vm_compute in ("<<<M392>>>" ++ check (runes_of_ascii "
root
packet
calculatedFrom
/// triple
// packet A { u8 x, }
{ i64_
    // @lengthOf(
    Packet `a\` ,
zchar[ 42] Foo@lengthOf(
tag) /// triple
`crlf
line`
, }
")).
Eval vm_compute in ("<<<M4240>>>" ++ check (runes_of_ascii "// top
MetaData float {
    // c2
    float64 charz `
        `,// c6
}// c7

root packet chars {
    // c11
    @rightPad('0')
    // c15
    Foo,// c17
}// c18")).
Eval vm_compute in ("<<<M1315>>>" ++ check (runes_of_ascii "/// triple
MetaData T {
    string_ falsey `u8 x,`, // packet A { u8 x, }
matchKey chars `u8 x,`, calculatedFrom
f32a `doc` ,
/// triple
// trailing space 
}")).
Eval vm_compute in ("<<<M2399>>>" ++ check (runes_of_ascii "// c
packet x { @lengthOf( metadata ) repeat lengthOf
,a1{ {
trueish	,// c
repeat//	t
MetaDataX , } , zchar[
    42	] rootA // `tick` ""quote"" 'q'
,
    }
")).
Eval vm_compute in ("<<<M2140>>>" ++ check (runes_of_ascii "options{
_x
= true
} options
{ o	= /// triple
false
    ; chars
= = ""\n"" } root packet	Pad
/// triple
// packet A { u8 x, }
{	chars
    // a // b
    ,}")).
Eval vm_compute in ("<<<M2191>>>" ++ check (runes_of_ascii "options{
_x
= true
} options
/{ o	= /// triple
false
    ; chars
= ""\n"" } root packet	Pad
/// triple
// packet A { u8 x, }
{	chars
    // a // b
    ,}")).
Eval vm_compute in ("<<<M2116>>>" ++ check (runes_of_ascii "options{
_x
= true
} options
{ =	o /// triple
false
    ; chars
= ""\n"" } root packet	Pad
/// triple
// packet A { u8 x, }
{	chars
    // a // b
    ,}")).
Eval vm_compute in ("<<<M2114>>>" ++ check (runes_of_ascii "options{
_x
= true
} options
{ 	= /// triple
false
    ; chars
= ""\n"" } root packet	Pad
/// triple
// packet A { u8 x, }
{	chars
    // a // b
    ,}")).
Eval vm_compute in ("<<<M3675>>>" ++ check (runes_of_ascii "packet A {
    match k as n {
        [
            ""a"", ""bb"", ""c c"", ""d"", ""e"",
            ""f"", ""g"", ""h"", ""i""
        ] : B,
        2 : C,
    },
}")).
Eval vm_compute in ("<<<M2384>>>" ++ check (runes_of_ascii "// c
packet x { @lengthOf( metadata ) repeat lengthOf
,a1{
trueish	,// c
repeat//	t
MetaDataX , } , zchar[
    42	] rootA // `tick` ""quote"" 'q'
,")).
Eval vm_compute in ("<<<M4286>>>" ++ check (runes_of_ascii "
packet A
    {	match	k	as n {  [ 
""a""
	,

    ""bb"" 
, ""c c"" 
,""d""	,
""e""	,""f"", 
""g""

    , 
""h"" , ""i"",	""j""
    ] : 
B  2  :

C

    } ,} ")).
Eval vm_compute in ("<<<M324>>>" ++ check (runes_of_ascii "MetaData metadata {
//x
// " ++ [128512]%N ++ runes_of_ascii " emoji
}
    root packet chars {
    @lengthOf(Packet
    // @lengthOf(
    ) // c
repeat int16 roots `
` ,	}")).
Eval vm_compute in ("<<<M3960>>>" ++ check (runes_of_ascii "

  packet
A { 
u16
    len@lengthOf(  body)`a
    b
  c`  ,u32
	crc@calculatedFrom(
""CRC32""

)	`a
    b
  c`, string
	body 
,

}
")).
Eval vm_compute in ("<<<M954>>>" ++ check (runes_of_ascii "packet Z9_ {
@tag(
    00	)
    @tag(7) @lengthOf(
    //x
    Logon)zchar[
0123456789
]
x_y_z@calculatedFrom( ""a\\""  ) , }
")).
Eval vm_compute in ("<<<M4564>>>" ++ check (runes_of_ascii "root packet matchKey {
    zchar[3] pack @calculatedFrom(""a	b"") `doc`,
}

options {
}

MetaData A {
    int8 msg_type,
}// c")).
Eval vm_compute in ("<<<M3313>>>" ++ check (runes_of_ascii "root
// c
packet matchKey { zchar[ 3 ] pack @calculatedFrom( ""a	b"" ) `doc` , } options { } MetaData A { int8 msg_type , }")).
Eval vm_compute in ("<<<M3345>>>" ++ check (runes_of_ascii "root packet matchKey { zchar[ 3 ] pack @calculatedFrom( ""a	b"" ) `doc` , } options { }
// c
MetaData A { int8 msg_type , }")).
Eval vm_compute in ("<<<M1556>>>" ++ check (runes_of_ascii "packet
//	t
// trailing space 
_x {
// packet A { u8 x, }
// c
char[
3
    ] u8x @lengthOf(
u8x ) , @calculatedFrom(""" ++ [128512]%N ++ runes_of_ascii """")).
Eval vm_compute in ("<<<M1410>>>" ++ check (runes_of_ascii "
packet
    falsey : Header@calculatedFrom(""packet""  ) , char[
    0123456789 ] packetx
    , } // `tick` ""quote"" 'q'")).
Eval vm_compute in ("<<<M3528>>>" ++ check (runes_of_ascii "// top
root // c0a
  // c0b
packet P // c2a
  // c2b
{ // c3
repeat // c4
char cs , u8 x // c9a
  // c9b
, // c10
} ")).
Eval vm_compute in ("<<<M4302>>>" ++ check (runes_of_ascii "packet A {
    u16 len @lengthOf(body) `
    `,
    u32 crc @calculatedFrom(""CRC32"") `
    `,
    string body,
}")).
Eval vm_compute in ("<<<M3808>>>" ++ check (runes_of_ascii "MetaData float {
    float64 charz `
        `,
}

root packet chars {
    // c
    @rightPad('0')
    Foo,
}")).
Eval vm_compute in ("<<<M3033>>>" ++ check (runes_of_ascii "packet A {
    u16 len @lengthOf(body) `x
`,
    u32 crc @calculatedFrom(""CRC32"") `x
`,
    string body,
}")).
Eval vm_compute in ("<<<M3010>>>" ++ check (runes_of_ascii "packet A {
    Inner {
        u8 x `a
b`,
        Deep {
            u8 y `a
b`,
        },
    },
}")).
Eval vm_compute in ("<<<M4330>>>" ++ check (runes_of_ascii "// c
MetaData float {
    float64 charz `
    `,
}

root packet chars {
    @rightPad('0')
    Foo,
}")).
Eval vm_compute in ("<<<M876>>>" ++ check (runes_of_ascii "packet repeatCount{ }
root packet uint8x {
    @rightPad ( '\x00' )
options1//x
As , // a // b
}
")).
Eval vm_compute in ("<<<M3738>>>" ++ check (runes_of_ascii "MetaData float {
    float64 charz `
    `,
}

root packet chars {
    @rightPad('0')
    Foo,
}")).
Eval vm_compute in ("<<<M2247>>>" ++ check (runes_of_ascii "options
{ } options { BodyLength= u16 Header Header= f64 ; u128 =
    true
    ; } // a // b")).
Eval vm_compute in ("<<<M2954>>>" ++ check (runes_of_ascii "packet A {
  match k as n {
    [1, ""bb"", 007, ""d"", 5, ""f"", 7, ""h"", 9] : B
    2 : C
  },
}")).
Eval vm_compute in ("<<<M2254>>>" ++ check (runes_of_ascii "options
{ } options { BodyLength= u16 Header""\" ++ [233]%N ++ runes_of_ascii """ f64 ; u128 =
    true
    ; } // a // b")).
Eval vm_compute in ("<<<M3293>>>" ++ check (runes_of_ascii "MetaData float { float64 charz `
` , } root packet chars { @rightPad // c
( '0' ) Foo , }")).
Eval vm_compute in ("<<<M3504>>>" ++ check (runes_of_ascii "packet chars { } packet MetaDataX { @tag( 42 )
// c
i16 string_ , repeat x `say ""hi""` , }")).
Eval vm_compute in ("<<<M2294>>>" ++ check (runes_of_ascii "options
{ } options { BodyLength= @ u16 Header= f64 ; u128 =
    true
    ; } // a // b")).
Eval vm_compute in ("<<<M3247>>>" ++ check (runes_of_ascii "packet metadata { Logon { A `" ++ [28040; 24687; 31867; 22411]%N ++ runes_of_ascii "` , tag o , } , zchar len `// not a comment` , } // c
")).
Eval vm_compute in ("<<<M3211>>>" ++ check (runes_of_ascii "// c
packet metadata { Logon { A `" ++ [28040; 24687; 31867; 22411]%N ++ runes_of_ascii "` , tag o , } , zchar len `// not a comment` , }")).
Eval vm_compute in ("<<<M3244>>>" ++ check (runes_of_ascii "packet metadata { Logon { A `" ++ [28040; 24687; 31867; 22411]%N ++ runes_of_ascii "` , tag o , } , zchar len `// not a comment`
// c
, }")).
Eval vm_compute in ("<<<M3435>>>" ++ check (runes_of_ascii "packet o { repeat // c
Logon uint8x , } options { asx = zchar[ 3 ] stringy = '\x00' }")).
Eval vm_compute in ("<<<M4114>>>" ++ check (runes_of_ascii "

  packet A {

    match
k
    as

n
    {

    1 : B // c
	  ,// d
  },
	}

")).
Eval vm_compute in ("<<<M3422>>>" ++ check (runes_of_ascii "MetaData body { i64 pack `it's` , } packet stringy { int16 calculatedFrom , } // c
")).
Eval vm_compute in ("<<<M3410>>>" ++ check (runes_of_ascii "MetaData body { i64 pack `it's` , } packet // c
stringy { int16 calculatedFrom , }")).
Eval vm_compute in ("<<<M4270>>>" ++ check (runes_of_ascii "packet A {
    B b `
        `,
    B `
        `,
    repeat B bs `
        `,
}")).
Eval vm_compute in ("<<<M2903>>>" ++ check (runes_of_ascii "packet A {
  match k as n {
    [""a"", 22, ""c c"", 4, ""e""] : B,
    2 : C
  },
}")).
Eval vm_compute in ("<<<M2902>>>" ++ check (runes_of_ascii "packet A {
  match k as n {
    [1, ""bb"", 007, ""d"", 5] : B
    2 : C
  },
}")).
Eval vm_compute in ("<<<M2839>>>" ++ check (runes_of_ascii "false false char char[ root repeat ""`tick`"" [ MetaData { int32 '0' char[")).
Eval vm_compute in ("<<<M2961>>>" ++ check (runes_of_ascii "packet A { Inner { match k as n { [1,22,007,4,5,66,7,8,9] : B, }, }, }")).
Eval vm_compute in ("<<<M2739>>>" ++ check (runes_of_ascii "packet int32 ""packet"" = int64 uint64 : char[] 42 `{ , }` options 10")).
Eval vm_compute in ("<<<M321>>>" ++ check (runes_of_ascii "MetaData // " ++ [128512]%N ++ runes_of_ascii " emoji
Header { // trailing space 
u64 falsey ,
}")).
Eval vm_compute in ("<<<M765>>>" ++ check (runes_of_ascii "// trailing space 
packet x_y_z { @tag( 255 )char[] float ,
}")).
Eval vm_compute in ("<<<M1029>>>" ++ check (runes_of_ascii "// packet A { u8 x, }
MetaData MetaDataX {
    u8 roots , }")).
Eval vm_compute in ("<<<M3369>>>" ++ check (runes_of_ascii "packet x { // c
@rightPad ( ) repeat roots Logon `doc` , }")).
Eval vm_compute in ("<<<M4420>>>" ++ check (runes_of_ascii "options {
    falsey = ""\" ++ [233]%N ++ runes_of_ascii """;
    lengthOf = 0;
    // c
}")).
Eval vm_compute in ("<<<M1172>>>" ++ check (runes_of_ascii "options
    { Logon
= ' ' } MetaData
BodyLength{  }
")).
Eval vm_compute in ("<<<M1245>>>" ++ check (runes_of_ascii "options{
i8i8 =u32
    ; msg_type  = //
true
}

")).
Eval vm_compute in ("<<<M4460>>>" ++ check (runes_of_ascii "  options{  lengthOf

    =
    false
    ; }")).
Eval vm_compute in ("<<<M3788>>>" ++ check (runes_of_ascii "options {
    T = false;
    tag = char[0];
}")).
Eval vm_compute in ("<<<M2734>>>" ++ check (runes_of_ascii "@tag( @lengthOf( , @calculatedFrom( u16 as")).
Eval vm_compute in ("<<<M3191>>>" ++ check (runes_of_ascii "root packet // c
u128 { chars `it's` , }")).
Eval vm_compute in ("<<<M1158>>>" ++ check (runes_of_ascii "options {
zchar =  int32 ; T = false}
")).
Eval vm_compute in ("<<<M2694>>>" ++ check ([65533; 8]%N ++ runes_of_ascii "w!67" ++ [65533; 65533; 65533; 65533; 65533; 65533; 23; 65533; 28; 65533]%N ++ runes_of_ascii "k3 k" ++ [65533; 65533; 65533; 65533; 28; 65533; 65533; 65533; 1656; 65533; 16]%N ++ runes_of_ascii "J" ++ [65533]%N ++ runes_of_ascii "F" ++ [65533; 65533]%N)).
Eval vm_compute in ("<<<M4381>>>" ++ check (runes_of_ascii "
packet A
{ }	// a
		// b
    // c")).
Eval vm_compute in ("<<<M2613>>>" ++ check (runes_of_ascii "packet A { match k n { 1 : B }, }")).
Eval vm_compute in ("<<<M4239>>>" ++ check (runes_of_ascii "packet int {
}

packet roots {
}")).
Eval vm_compute in ("<<<M3062>>>" ++ check (runes_of_ascii "packet A {
 u8 x `d `, // c 
}")).
Eval vm_compute in ("<<<M3985>>>" ++ check (runes_of_ascii "packet

    f32a 
{
    }
")).
Eval vm_compute in ("<<<M2786>>>" ++ check (runes_of_ascii "MetaData zchar[ repeatCount")).
Eval vm_compute in ("<<<M1120>>>" ++ check (runes_of_ascii "packet
    Logon
{Foo , }")).
Eval vm_compute in ("<<<M1141>>>" ++ check (runes_of_ascii "root packet len
    { }
")).
Eval vm_compute in ("<<<M2639>>>" ++ check (runes_of_ascii "root root packet A { }")).
Eval vm_compute in ("<<<M2108>>>" ++ check (runes_of_ascii "options{
_x
= true
}")).
Eval vm_compute in ("<<<M2640>>>" ++ check (runes_of_ascii "root MetaData M { }")).
Eval vm_compute in ("<<<M3061>>>" ++ check (runes_of_ascii "// c 
packet A {
}")).
Eval vm_compute in ("<<<M3143>>>" ++ check (runes_of_ascii "packet A {
}// c x")).
Eval vm_compute in ("<<<M3118>>>" ++ check (runes_of_ascii "packet A {
}// c" ++ [12]%N)).
Eval vm_compute in ("<<<M2853>>>" ++ check (runes_of_ascii "X788AH5itKe=;k[")).
Eval vm_compute in ("<<<M1179>>>" ++ check (runes_of_ascii "/// triple

")).
Eval vm_compute in ("<<<M2704>>>" ++ check (runes_of_ascii ") char[] ,")).
Eval vm_compute in ("<<<M2429>>>" ++ check (runes_of_ascii "char[]x")).
Eval vm_compute in ("<<<M2805>>>" ++ check (runes_of_ascii "as f64")).
Eval vm_compute in ("<<<M3084>>>" ++ check (runes_of_ascii "// c" ++ [8192]%N)).
Eval vm_compute in ("<<<M2539>>>" ++ check (runes_of_ascii "A1b2")).
Eval vm_compute in ("<<<M2544>>>" ++ check (runes_of_ascii "a	b")).
Eval vm_compute in ("<<<M2548>>>" ++ check (runes_of_ascii "	a")).
