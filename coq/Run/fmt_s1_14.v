From FP Require Import Lexer Parser ShowPT Digest Formatter.
From Coq Require Import String List NArith.
Import ListNotations.
Open Scope string_scope.
Set Printing Width 100000000.
Set Printing Depth 100000000.
Definition show_fres (r : fres) : string :=
  match r with
  | FOk s => "OK:" ++ sh_escaped s ""
  | FErr s => "ERR:" ++ sh_escaped s ""
  | FPanic p => "PANIC:" ++ p
  end.
Definition check (rs : list rune) : string := digest (show_fres (format_res rs)).
Definition full (rs : list rune) : string := show_fres (format_res rs).
Eval vm_compute in ("<<<M3711>>>" ++ check (runes_of_ascii "root packet body {
    o {
        a1 rootA,
    },
    @leftPad(' ')
    // packet A { u8 x, }
    charz int,
    repeat packetx {
        repeat Z9_ {
            lengthOf @calculatedFrom(""`tick`"") `a\`,
        },
        int8 i64_,
    },
    @lengthOf(len)
    repeat zchar {
        /// triple
        Pad a1,
        int16 a1 @calculatedFrom(""1"") ``,
        rootA {
            match a1 as options1 {
                4294967296 : Header,
                ""{,}"" : i8i8,
                [""" ++ [28040; 24687]%N ++ runes_of_ascii """, 7] : x,
                """" : i64_,
            },
            f32a {
                repeat a1,
                // c
                len @calculatedFrom(""abc""),
            },// `tick` ""quote"" 'q'
            repeat zchar[10] stringy `a\`,
            repeat calculatedFrom {
                repeat repeatCount,
                repeat i32 Pad `" ++ [28040; 24687; 31867; 22411]%N ++ runes_of_ascii "`,
            },
        },
        lengthOf {
            lengthOf @calculatedFrom(""it's""),
            char[] Pad `say ""hi""`,
        },
    },
    zchar[0123456789] chars,
    float @lengthOf(asx),
    zchar {
        match msg_type as Packet {
            ""packet"" : packetx,
            1 : chars,
            0123456789 : metadata,
            255 : lengthOf,
            ""// no comment"" : a1,
            // 50% %s
            4294967296 : pack,
        },
    },
    @leftPad()
    char[00] rootA,
    MetaDataX {
        match float as body {
            // `tick` ""quote"" 'q'
            // @lengthOf(
            [""a\""b"", 007] : _x,
        },
        match calculatedFrom as x_y_z {
            // a // b
            0123456789 : o,
            0 : a1,
        },
        _x {
            match body as As {
                7 : pack,
                // trailing space 
                // `tick` ""quote"" 'q'
                ""it's"" : f32a,
            },
        },
        repeat char[] x `a\`,
    },
}

packet x_y_z {
    repeat Pad {
        int32 int @calculatedFrom(""CRC32""),
    },
    @tag(3)
    @lengthOf(roots)
    @tag(00)
    match rootA as u {
        [7] : string_,
        [10, ""CRC32"", 007] : Logon,
        007 : metadata,
        255 : As,
        [""packet""] : zchar,
    },
}

packet roots {
    float64 Packet,
}")).
Eval vm_compute in ("<<<M593>>>" ++ check (runes_of_ascii "packet lengthOf { } root packet
    repeatCount { // 50% %s
@tag( 42 ) @tag(0 ) @calculatedFrom(
""it's""
)// `tick` ""quote"" 'q'
char[
    //x
    65535 ]
charz @lengthOf( falsey )
`" ++ [28040; 24687; 31867; 22411]%N ++ runes_of_ascii "` , } packet//	t
crc {@calculatedFrom( ""packet""
) @calculatedFrom( """ ++ [233]%N ++ runes_of_ascii "t" ++ [233]%N ++ runes_of_ascii """) @lengthOf( A
) match float as chars
    {
    //	t
    [ 65535 , """ ++ [233]%N ++ runes_of_ascii "t" ++ [233]%N ++ runes_of_ascii """
    , ""CRC32""
,0123456789
] : u ,
    } ,zchar[ 255 ]
chars @calculatedFrom(
    // @lengthOf(
    """ ++ [28040; 24687]%N ++ runes_of_ascii """ ),
@lengthOf( asx )@rightPad ( // 50% %s
'\x00'
) repeat
lengthOf `crlf
line`,// `tick` ""quote"" 'q'
repeat // trailing space 
string_ { match Z9_
//	t
// " ++ [27880; 37322]%N ++ runes_of_ascii "
as
roots {
3  : T, [ """" ,
10,  00 ]:packetx , }
, }	, i8 Header @lengthOf(
    charz )  `it's` ,repeat calculatedFrom
    //x
    {
// `tick` ""quote"" 'q'
// `tick` ""quote"" 'q'
match repeatCount as
len { 7: lengthOf // trailing space 
, [  """ ++ [233]%N ++ runes_of_ascii "t" ++ [233]%N ++ runes_of_ascii """ ] : MetaDataX
    , ""abc"": Packet
// c
// `tick` ""quote"" 'q'
,
65535 : i64_ ,
    007 : Packet },  stringy o  `
`//
,zchar[ /// triple
7
    ]
    u
// packet A { u8 x, }
// `tick` ""quote"" 'q'
,	}, @lengthOf(lengthOf
    )
match f32a as  Z9_	{ ""1"" : o  ,} , }
packet body { } //x
root packet
    Z9_
    {
match packetx as f32a	{ 0 // a // b
: metadata , }
    , char[] leftPad
    ``
    // @lengthOf(
    ,repeat
    uint8 x_y_z`100% of %d`  ,
string BodyLength@calculatedFrom(
""" ++ [128512]%N ++ runes_of_ascii """) ,	Pad	, @tag(
    255 )
    @lengthOf(
// @lengthOf(
// packet A { u8 x, }
roots ) @calculatedFrom(  """ ++ [128512]%N ++ runes_of_ascii """
)
    repeat crc { repeat char //	t
trueish
    , }	,
    zchar[
    4294967296 ]options1
@calculatedFrom(""CRC32"" ) , // 50% %s
match packetx as lengthOf { ""a\""b""  : options1	,
// trailing space 
// " ++ [128512]%N ++ runes_of_ascii " emoji
0123456789
: Foo
,  ""a\\"": trueish	, 3
    :
    string_ , ""\n"" :
    /// triple
    zchar , [ 65535 ]
: u128
} ,@tag( 42 ) @leftPad ( '\x00' ) i16 crc ,
    zchar[7]	_x  @lengthOf(falsey  )
,
}
")).
Eval vm_compute in ("<<<M3683>>>" ++ check (runes_of_ascii "
MetaData  _x

    {
    string
	Packet `// not a comment` ,
    o Logon  
  // " ++ [27880; 37322]%N ++ runes_of_ascii "
	, 
packetx uint8x ,

} root 

// a // b
  // a // b
  packet
    MetaDataX{
    repeat
	char[255 ] // " ++ [128512]%N ++ runes_of_ascii " emoji
  x_y_z

    `doc`	,	@calculatedFrom( ""{,}""
	) 
match 
      // " ++ [128512]%N ++ runes_of_ascii " emoji
  asx
as

A	// trailing space 
{
4294967296
:  Pad	10

    : a1,
} ,  zchar[ 3
	]asx	`{ , }`,match 
msg_type as
i8i8 {[0
	,

1 ,

    007,

""a\\"", 
""\" ++ [233]%N ++ runes_of_ascii """ ,  65535

    ]:calculatedFrom
, 
	// 50% %s
  007 	 // trailing space 
	:T 
255
    :	repeatCount
,

[	// trailing space 
0123456789
,
""it's"" 
]

: chars

,	}

    , u128,
    string

A  @lengthOf( Packet	)

    `tab	here`,
char[ 
0123456789 ]// trailing space 
      uint8x
@lengthOf( x_y_z)
    ,

asx`" ++ [28040; 24687; 31867; 22411]%N ++ runes_of_ascii "`
, 
} packet
    a1

    {
i8 trueish
, }
packet matchKey
	{ 
match  a1 as 
string_
    {	10	:pack 
// trailing space 
// a // b

  ,
}	,  
      // @lengthOf(
// a // b
	char[ 10

]
falsey
    `" ++ [233]%N ++ runes_of_ascii "`
    ,
    pack
    { 
i8i8{  repeat lengthOf

    {
    //	t
  tag	asx,
	match
    rootA

as
matchKey	// packet A { u8 x, }
    {
    ""CRC32""

    :
u
	42:	lengthOf
,	// c
	  }
,

repeat 
// packet A { u8 x, }
  // @lengthOf(
  	uint64
	packetx `
` 
,
zchar[  0
]	/// triple
	options1 @lengthOf( Packet)

`doc` ,

}

,}	// trailing space 
    	, }  ,} 
  // `tick` ""quote"" 'q'
	  //
MetaData
options1	{
	string_// packet A { u8 x, }
  zchar , 
Z9_ repeatCount

    `crlf
line`
	,
uint64 
Logon

    , uint64  a1
,string_
Foo ,
}
")).
Eval vm_compute in ("<<<M651>>>" ++ check (runes_of_ascii "packet trueish {
    char[// a // b
007 ] asx  @lengthOf(a1
) `a\`, @tag(	00 ) @leftPad ( ' ' ) repeat zchar[ 7
// " ++ [128512]%N ++ runes_of_ascii " emoji
//
]// 50% %s
charz ,int64 len @calculatedFrom(	""\" ++ [233]%N ++ runes_of_ascii """ ) , u64
f32a , /// triple
@lengthOf(
    Pad ) u @calculatedFrom(""packet"")
    `line1
line2` ,@calculatedFrom(  """ ++ [28040; 24687]%N ++ runes_of_ascii """  )
// @lengthOf(
//
@lengthOf( Foo
    ) @calculatedFrom( ""abc""
)
    u64 zchar
// @lengthOf(
// trailing space 
,
    match body as
    body {
0 :
    charz ""packet"": charz , 0123456789 : repeatCount
    //	t
    , ""\" ++ [233]%N ++ runes_of_ascii """	:  Foo}
    ,}
packet
    u128
    {
    //x
    u8x `two words`// trailing space 
,
} packet options1
    { @calculatedFrom( """"
) repeat  Foo metadata
, @tag(42	) f32a
uint8x `u8 x,` , crc , @leftPad (
    // `tick` ""quote"" 'q'
    '\x00'
    )
    @lengthOf(pack //
)
    @calculatedFrom( """ ++ [28040; 24687]%N ++ runes_of_ascii """  )
    // a // b
    Pad  @lengthOf( uint8x )  ,
repeat
u { uint8x
    packetx	, chars
    @calculatedFrom( ""x y"" ) , repeat
    Header
{char[4294967296  ] // trailing space 
i64_, tag {
    string
msg_type@calculatedFrom(
""a\\""
) , }, f32a o`100% of %d`
    ,
    } ,} // c
, char[ 7]f32a , string charz ,
} MetaData chars { zchar[3 //	t
] _x, falsey u8x
    /// triple
    , char[ 255 ]
    matchKey , uint32 charz
//
// " ++ [27880; 37322]%N ++ runes_of_ascii "
,float32 Logon , u  MetaDataX  ,} options { Pad
=// packet A { u8 x, }
' ' ;  }")).
Eval vm_compute in ("<<<M434>>>" ++ check (runes_of_ascii "// `tick` ""quote"" 'q'
MetaData	packetx { u64 string_ ,
} packet rootA
{leftPad
    {match
packetx as zchar
{ 10 :
rootA 007 : Foo ,10 :trueish ,3 :
repeatCount , }
,
    // packet A { u8 x, }
    char[]Packet @calculatedFrom( ""CRC32""
    // c
    ) ,},
@rightPad  ( ' '	)
chars @lengthOf(zchar )
`doc` , //	t
packetx { match matchKey as calculatedFrom{
    10 : asx , 65535 :
    pack[
""{,}"" ,
    ""\n"" , ""1"" ,	007
, 65535
, ""a\""b"", 4294967296 ] :asx , }
    ,	string_ asx
    `100% of %d`
, }
,}
    options
// 50% %s
// a // b
{ tag
= true;	} packet
Packet { @lengthOf(
    i64_
)	u32 crc,
u16 MetaDataX `doc` ,
@calculatedFrom( ""// no comment""	)
    repeat int64  packetx`line1
line2` ,  @leftPad (  ' ' //	t
)
repeat BodyLength { char[]As, char[] i64_	@calculatedFrom( ""it's"" )
    , i64
As , Header
`it's`
    , //	t
} , @leftPad ()
zchar[10
] falsey ,
// " ++ [27880; 37322]%N ++ runes_of_ascii "
// " ++ [27880; 37322]%N ++ runes_of_ascii "
@calculatedFrom( """ ++ [128512]%N ++ runes_of_ascii """ )pack
, A {	repeat//
u8x tag , int64 T@lengthOf(Packet // @lengthOf(
) //x
,// packet A { u8 x, }
x
Logon ,
    options1 @calculatedFrom( ""a	b"" )
,} , @lengthOf(
//x
// `tick` ""quote"" 'q'
A )
@leftPad// 50% %s
( '\x00'	) zchar[ 65535 ]
    MetaDataX `// not a comment` ,repeat f32
    Packet `" ++ [233]%N ++ runes_of_ascii "` ,
    }
MetaData	chars {
}
")).
Eval vm_compute in ("<<<M677>>>" ++ check (runes_of_ascii "options { chars =
'0'
;
} root packet x { match Logon
as calculatedFrom { [ ""`tick`"" // packet A { u8 x, }
, 0123456789 ] :Packet
    } ,
    // packet A { u8 x, }
    char[ 0123456789 // " ++ [128512]%N ++ runes_of_ascii " emoji
] u8x , @tag(00	) string
metadata`say ""hi""` , i64  A `" ++ [28040; 24687; 31867; 22411]%N ++ runes_of_ascii "`, @lengthOf(/// triple
calculatedFrom ) float
@calculatedFrom( ""{,}""
) // " ++ [27880; 37322]%N ++ runes_of_ascii "
,}
    packet
crc { @tag( 0123456789 ) uint32  tag `line1
line2` , repeat zchar[  4294967296
    ] BodyLength `" ++ [28040; 24687; 31867; 22411]%N ++ runes_of_ascii "` ,  repeat calculatedFrom  `two words`
    , uint32 repeatCount
, leftPad BodyLength `" ++ [233]%N ++ runes_of_ascii "`  ,
    options1 Logon ``  ,@leftPad ( ' ' )
repeat metadata string_// c
, char[ 0123456789 ]
trueish @calculatedFrom( ""a\""b"" ) `say ""hi""`
,
    @calculatedFrom(
""\n""
)pack , } packet leftPad { @tag(7
    ) options1 {repeat
pack, } ,  u
`` , packetx @lengthOf( MetaDataX)
, asx
    // trailing space 
    {
repeat
    repeatCount Z9_ ,
    repeat zchar[
4294967296  ] Pad , }	, @tag( 255 ) @tag(
    255
)  char[	0123456789 ]  u8x // packet A { u8 x, }
, //
@calculatedFrom(""CRC32""
    ) char[
    3 ] Pad `tab	here`
, MetaDataX ,@leftPad	( ' ' )  char[] Foo
@calculatedFrom(
    """ ++ [28040; 24687]%N ++ runes_of_ascii """) , }

")).
Eval vm_compute in ("<<<M4288>>>" ++ check (runes_of_ascii "packet options1  {
	} packet
o

    { 
o

Header	``,
@calculatedFrom(  ""\n""
) int32 
MetaDataX	, 
	    // @lengthOf(
		//	t
  rootA
{ 
match  tag

    as  Header{""x y"" 
:

string_

, 00
:  roots

    4294967296  :

    trueish // @lengthOf(
	""a\""b""

: u
, ""a\""b""	:packetx

""\n""
: float 
    //	t
    /// triple
    ,

}
, }	, 
match	//
      x_y_z
    as float{""a	b""  : float , // trailing space 
	  [
7 // " ++ [128512]%N ++ runes_of_ascii " emoji
	  ,	0123456789 
,4294967296

    ,""x y"" ,
7, ""a\""b""
, 
7 
]:
Header ,  ""x y""

    :

    Pad
	,

""`tick`"":
len

    } 
,	@calculatedFrom(
""packet""	)	repeat string As
	, 
Foo{

    int16 trueish ,
	repeat
	int16

metadata`{ , }`
,match 
lengthOf
	    //
	// `tick` ""quote"" 'q'

as
Pad{""\" ++ [233]%N ++ runes_of_ascii """
:
	metadata 	 // a // b
  	,	},

Foo @calculatedFrom(
    ""\n"" ) 	 // `tick` ""quote"" 'q'
  `crlf
line` , 	 // 50% %s
  }
,
    u @lengthOf(
repeatCount	) `doc` ,

    T@lengthOf(  calculatedFrom
)  ,}
MetaData 
trueish
{ }
	    // " ++ [128512]%N ++ runes_of_ascii " emoji
	// packet A { u8 x, }
	options	{

    trueish

=uint8;

}
	MetaData 
Pad { 
}
")).
Eval vm_compute in ("<<<M994>>>" ++ check (runes_of_ascii "root
packet falsey {// c
@rightPad ('0')// a // b
zchar[ 4294967296 // @lengthOf(
] charz `two words`
,
@lengthOf(o ) @calculatedFrom(""abc"" //x
)repeat uint32
x ,
    @calculatedFrom(
    """ ++ [28040; 24687]%N ++ runes_of_ascii """
)
    match Logon// a // b
as msg_type { 65535 :int ""`tick`""
: int ,
10 : string_ 007  : asx [
//	t
// 50% %s
42 , ""\" ++ [233]%N ++ runes_of_ascii """ ] :chars ,/// triple
} ,options1
@calculatedFrom( ""a\""b"" )
    // `tick` ""quote"" 'q'
    `tab	here` // trailing space 
,
@calculatedFrom( ""a	b"" ) @calculatedFrom(// a // b
""" ++ [128512]%N ++ runes_of_ascii """// @lengthOf(
) metadata //
,
rootA
{ zchar[
    // " ++ [128512]%N ++ runes_of_ascii " emoji
    00 ]// 50% %s
u @lengthOf( T )
`// not a comment` , }
    // a // b
    , match
    f32a as repeatCount
    { [ ""it's"",
""`tick`"" ,
""it's"" ] : T
    ,
    255 : _x
""packet""
    :	pack // " ++ [128512]%N ++ runes_of_ascii " emoji
, 007 :falsey ,
    0
    :trueish
, }
, int8 T // " ++ [27880; 37322]%N ++ runes_of_ascii "
@calculatedFrom(
""\" ++ [233]%N ++ runes_of_ascii """ )`crlf
line` , string // @lengthOf(
crc@calculatedFrom(
    ""\" ++ [233]%N ++ runes_of_ascii """ ) , zchar[ 10 ] u	@calculatedFrom(
""a\\"" ) `u8 x,` ,
    //
    }packet msg_type { BodyLength	@lengthOf(
x ) ,
}")).
Eval vm_compute in ("<<<M56>>>" ++ check (runes_of_ascii "packet MetaDataX {i8
u128
    @lengthOf( Z9_
)  `line1
line2`  ,@calculatedFrom(
""1"") match Foo as body
    {
42 :
lengthOf ,
""`tick`"" : trueish, }, @tag(10 ) @leftPad ( ) char[] T
    @lengthOf(
body )	`" ++ [28040; 24687; 31867; 22411]%N ++ runes_of_ascii "`,
zchar[ 0123456789 ]matchKey `{ , }`
,
    }options {
    u8x
= true ; zchar=int32 ; o
    =
""a\\""
; body
=false; } root
    packet
//	t
// a // b
rootA
    { @tag(
    3) @tag(4294967296
)@lengthOf( // @lengthOf(
f32a) _x
    Foo `say ""hi""` , } packet Foo
    // trailing space 
    {@tag( 7 ) @lengthOf( u128
)u16 u128@calculatedFrom(	""a\""b""
) // " ++ [128512]%N ++ runes_of_ascii " emoji
`u8 x,`
,
    //x
    @lengthOf(
    Pad ) @lengthOf(
    f32a )
@calculatedFrom( """ ++ [28040; 24687]%N ++ runes_of_ascii """ )
uint16 a1	, @leftPad
(' ' )
A
    {	int64
Pad
`crlf
line` , uint64 Z9_ @calculatedFrom(""a	b"")
,
    // a // b
    repeat options1
,
char[// " ++ [128512]%N ++ runes_of_ascii " emoji
4294967296 ]falsey , } ,
zchar[
    65535 ]
chars	``,
    @calculatedFrom(
    """"
// " ++ [27880; 37322]%N ++ runes_of_ascii "
// " ++ [27880; 37322]%N ++ runes_of_ascii "
)
    @calculatedFrom( ""1""
) uint8 a1
,//x
}
")).
Eval vm_compute in ("<<<M1324>>>" ++ check (runes_of_ascii "
options { float = f64 ; x_y_z= 10 ; Z9_
// trailing space 
// @lengthOf(
=
    string
//
//	t
}packet
trueish
// 50% %s
// " ++ [27880; 37322]%N ++ runes_of_ascii "
{ f32a { match	options1 as pack {
    65535 :options1 , } , repeat
    // c
    A
`two words` ,  repeat
string float	,
    repeat trueish crc// trailing space 
`doc`
, }, } MetaData repeatCount // " ++ [27880; 37322]%N ++ runes_of_ascii "
{ string options1 `" ++ [28040; 24687; 31867; 22411]%N ++ runes_of_ascii "`	,
// " ++ [27880; 37322]%N ++ runes_of_ascii "
// " ++ [27880; 37322]%N ++ runes_of_ascii "
string o , crc f32a , T _x ,
    u32 i64_ `
`
    , // @lengthOf(
}packet Z9_ {
@tag( //x
0
) repeat zchar[
7
]  BodyLength , } packet Logon { @rightPad ( ) u8 len`it's`
    , repeat // " ++ [128512]%N ++ runes_of_ascii " emoji
u8x f32a , u ,match int as
chars {[
0  ] :stringy , [  ""`tick`"" , 4294967296 , 7
    ,
//
// 50% %s
""it's"" ,
    //	t
    """ ++ [233]%N ++ runes_of_ascii "t" ++ [233]%N ++ runes_of_ascii """, 0123456789 ]:
falsey , ""a\""b""//
:
packetx , } , @rightPad
(	) x @lengthOf( chars
) `// not a comment` ,
    @rightPad
    ( ) @rightPad(
' ' )
// " ++ [27880; 37322]%N ++ runes_of_ascii "
// @lengthOf(
@lengthOf(x )
rootA ,  char[] // " ++ [27880; 37322]%N ++ runes_of_ascii "
_x , } 	 ")).
Eval vm_compute in ("<<<M72>>>" ++ check (runes_of_ascii "packet // packet A { u8 x, }
uint8x {
calculatedFrom
    {
repeat
options1{ char[42 ] packetx ,	len {
repeat	_x `
` , int8 rootA // 50% %s
@calculatedFrom(  ""abc"") `" ++ [28040; 24687; 31867; 22411]%N ++ runes_of_ascii "`, MetaDataX // trailing space 
@calculatedFrom( ""\n"" )
    `
`
    , match
leftPad
as zchar {
[
""// no comment""
//
// " ++ [27880; 37322]%N ++ runes_of_ascii "
,0	, """ ++ [128512]%N ++ runes_of_ascii """ ,/// triple
""" ++ [28040; 24687]%N ++ runes_of_ascii """ ] : MetaDataX ,
[ """"] :  stringy ,42
: calculatedFrom ,  65535
: options1
    /// triple
    ,
//	t
// " ++ [128512]%N ++ runes_of_ascii " emoji
} ,
},	f32 MetaDataX ,//x
} , lengthOf
    Foo , } , @rightPad (
' '
) //
char[]options1 @calculatedFrom( ""a\""b"" ) , // 50% %s
@rightPad
(' '
) @tag(	00)  match matchKey
    as	msg_type { [ ""1"" ] : tag} , zchar[ 00 ]  a1 @lengthOf(asx )
``
    ,
char[ 007 ]
    A
    , //	t
Pad
, @leftPad ( // @lengthOf(
'\x00' ) @calculatedFrom( ""a\\"" )
@calculatedFrom( ""{,}"" )  repeat	trueish {
MetaDataX@lengthOf(zchar ) ,
} ,
}
")).
Eval vm_compute in ("<<<M875>>>" ++ check (runes_of_ascii "
MetaData BodyLength { zchar[ 1 ] MetaDataX
,	}options {
}
// 50% %s
// @lengthOf(
options{ options1  =
    true
;
falsey
=
    '0'
; Foo = ""packet"" u // " ++ [27880; 37322]%N ++ runes_of_ascii "
= ""// no comment""/// triple
;}
packet matchKey
    { @lengthOf(
    zchar )char[] u8x
@lengthOf( len)`// not a comment`
    ,@tag( 42
    ) @rightPad
// @lengthOf(
// `tick` ""quote"" 'q'
( '0') @rightPad ( '0'
    ) repeat// trailing space 
char[] zchar , repeat pack,
@leftPad
    // packet A { u8 x, }
    (
'\x00' /// triple
)
    f32a @calculatedFrom( ""a	b"" )`a\` , @lengthOf( x_y_z ) uint8 _x  @calculatedFrom(
//x
// c
""" ++ [233]%N ++ runes_of_ascii "t" ++ [233]%N ++ runes_of_ascii """ )
,
_x { repeat
    char[
    10 ] f32a ,}
    , uint16 len , }
MetaData charz{ char[]o , uint8x tag
`crlf
line`, Header
    i64_, metadata MetaDataX`a\`, zchar[ 255] calculatedFrom ,u16 Foo  `tab	here`,// trailing space 
}")).
Eval vm_compute in ("<<<M1028>>>" ++ check (runes_of_ascii "packet // 50% %s
asx {float32 repeatCount
    // 50% %s
    @lengthOf( asx ) `say ""hi""` ,
    //x
    @calculatedFrom( ""packet"" )
    @lengthOf(
x )
    repeat f32a
    ,
//x
// " ++ [128512]%N ++ runes_of_ascii " emoji
@lengthOf( calculatedFrom ) @tag( 65535// a // b
)a1 len , }MetaData chars  {zchar[
1 // trailing space 
]// a // b
stringy ,
zchar[ 4294967296 ] // packet A { u8 x, }
stringy `" ++ [233]%N ++ runes_of_ascii "` , }
// 50% %s
// @lengthOf(
packet asx  { repeat uint64 o ,	repeat int8 matchKey `a\`, @lengthOf( matchKey)
repeat metadata{ repeat options1{ x rootA, A @lengthOf( repeatCount
    ) ,// a // b
pack,	},
    } , @tag(4294967296) repeat	int64 matchKey
    `crlf
line`, @tag( 1 )repeat zchar[65535 ]  _x `line1
line2` ,@leftPad ( '\x00' ) @tag( 255)
    @tag( 0
)zchar[
    // " ++ [128512]%N ++ runes_of_ascii " emoji
    255
    ] trueish , }
")).
Eval vm_compute in ("<<<M4388>>>" ++ check (runes_of_ascii "MetaData asx {
    // " ++ [27880; 37322]%N ++ runes_of_ascii "
    charz _x,
    int8 x_y_z `two words`,
    i32 charz,
    repeatCount i64_,
    u8x calculatedFrom,
    i8 roots,
}

MetaData x {
}

MetaData len {
    matchKey packetx,
    uint8 uint8x,
}

root packet body {
    u128 @calculatedFrom(""""),
    repeat trueish {
        char[] asx @lengthOf(body) `u8 x,`,
        match body as i8i8 {
            ""a\""b"" : packetx,
            ""a	b"" : i64_,
            ["""", 42] : MetaDataX,
            [""" ++ [28040; 24687]%N ++ runes_of_ascii """] : pack,
            3 : x,
            [0, 007] : Z9_,
        },
        char[10] int `// not a comment`,
        u repeatCount `{ , }`,
    },
    @lengthOf(trueish)
    char asx `doc`,
    @tag(0)
    i64_,
}

MetaData lengthOf {
    char[] float `crlf
    line`,// " ++ [128512]%N ++ runes_of_ascii " emoji
}")).
Eval vm_compute in ("<<<M559>>>" ++ check (runes_of_ascii "// " ++ [27880; 37322]%N ++ runes_of_ascii "
packet
    //	t
    chars
{ Z9_, @tag(
    7
)//x
leftPad@lengthOf( asx	) //
`crlf
line` ,	char Z9_ `crlf
line`	,	T
matchKey ,
    repeat
    uint64	crc`
`	, } root packet Header {
    @tag( 42 ) len {match asx as len {// trailing space 
[
/// triple
// `tick` ""quote"" 'q'
65535 , ""\n""
    ,
""1"", ""1""  ,4294967296
    /// triple
    ,  255 ] : pack
,
""\" ++ [233]%N ++ runes_of_ascii """ // trailing space 
: o
    // " ++ [128512]%N ++ runes_of_ascii " emoji
    , },
// 50% %s
//
u32 crc
    `crlf
line` , char[
1 ] int //	t
, string_	{
    // packet A { u8 x, }
    repeat
leftPad	T `" ++ [233]%N ++ runes_of_ascii "`
    , match asx	as Pad{ 255//	t
: packetx 7 :
/// triple
// a // b
trueish
    , [
3 ] :
int , ""// no comment"" :
    // " ++ [27880; 37322]%N ++ runes_of_ascii "
    chars//
}
    , repeat int16
Header
,
    }, } ,} 	 ")).
Eval vm_compute in ("<<<M3450>>>" ++ check (runes_of_ascii "options {
    LittleEndian = true;
    StringPrefixLenType = u8;
    FixedStringPadFromLeft = false;
    FixedStringPadChar = '0';
}
packet Order {
    repeat string Px,
    repeat char[2] Qty,
    string Tail,
    char[] OrderId,
    int8 tag7,
    int64 Flags,
}
packet Party {
    Order,
    f32 lastPx,
    f32 Note,
    string x,
}
packet Logon {
    uint8 OrderId,
    string msgKind,
    int32 lastPx,
}
packet Ack {
}
packet Cancel {
    repeat char[5] Note,
    repeat i32 x,
    Ack,
    repeat InF16 {
        repeat i8 sym,
    },
    char[1] Acct,
}
root packet Fill {
    i32 price,
    @leftPad(' ') char[8] msgKind,
    char[] Acct,
    char[] Note,
    uint64 venue,
}
")).
Eval vm_compute in ("<<<M817>>>" ++ check (runes_of_ascii "root
    packet
    u8x { } //
packet Header
{ @calculatedFrom( ""{,}""/// triple
)
repeat a1
body	`// not a comment` ,
} root packet o // c
{
    uint8 Header`" ++ [233]%N ++ runes_of_ascii "` , }packet tag {
repeat x_y_z { uint16
msg_type //x
,
}
, }	root packet Z9_ {zchar[
4294967296]
    options1 ,
// @lengthOf(
// packet A { u8 x, }
@tag(
    // `tick` ""quote"" 'q'
    0123456789 ) u32
    i64_
    @calculatedFrom( ""abc"" )	`a\` , match leftPad  as // 50% %s
packetx { 00
: metadata
    ,
    65535: chars, ""// no comment""
    :  options1,},// packet A { u8 x, }
repeat zchar[1
]
    pack
    ,	@lengthOf(trueish )	repeat i32
    crc
    `
` , int16 crc@lengthOf( zchar )
, }
")).
Eval vm_compute in ("<<<M3578>>>" ++ check (runes_of_ascii "packet repeatCount {
    matchKey roots `crlf
    line`,
    char int @lengthOf(x_y_z),
    calculatedFrom @calculatedFrom(""a\""b""),
}

root packet f32a {
    /// triple
    // trailing space 
    @rightPad('0')
    repeat u8 Pad,
    trueish calculatedFrom,
    @calculatedFrom(""" ++ [28040; 24687]%N ++ runes_of_ascii """)
    match msg_type as pack {
        ""abc"" : repeatCount,
        ""{,}"" : repeatCount,
        ""a	b"" : calculatedFrom,
    },
}

root packet repeatCount {
    int32 stringy,/// triple
}

root packet BodyLength {
    @lengthOf(As)
    //x
    repeat charz {
        match chars as chars {
            0 : MetaDataX,
            ""\n"" : crc,
        },
    },
}")).
Eval vm_compute in ("<<<M3424>>>" ++ check (runes_of_ascii "// top
options // c0
{
    // c1
FixedStringPadChar =
    // c3
'0'
    // c4
; // c5a
  // c5b
}
    // c6
packet // c7
Q // c8
{ // c9
zchar[ // c10a
  // c10b
4 ] z ,
    // c14
@rightPad ( '\x00' // c17
) // c18a
  // c18b
char[ // c19a
  // c19b
3
    // c20
] // c21a
  // c21b
n // c22
, // c23a
  // c23b
char[
    // c24
5 // c25
] d // c27
,
    // c28
}
    // c29
root // c30
packet // c31
R {
    // c33
Q // c34
, // c35a
  // c35b
zchar[ // c36a
  // c36b
8 // c37a
  // c37b
] // c38
top , // c40
repeat zchar[
    // c42
2
    // c43
] // c44a
  // c44b
zs // c45a
  // c45b
,
    // c46
} // c47
")).
Eval vm_compute in ("<<<M978>>>" ++ check (runes_of_ascii "
MetaData
// c
// 50% %s
calculatedFrom {
    zchar[10
    ]charz //	t
`100% of %d` , zchar[
//
// " ++ [128512]%N ++ runes_of_ascii " emoji
7 ] chars
,
o leftPad//
`
`, Packet float `
`  , f32 chars, string u , } packet Foo {
} root
packet
leftPad	{ tag @lengthOf( As ) `crlf
line` ,
char[] As `
` , repeat char[ 007	]
    // " ++ [27880; 37322]%N ++ runes_of_ascii "
    u8x, repeat body { stringy { char
string_
, }
    ,} ,
    }
    //x
    root packet Z9_ { }
    root
    packet charz
{
    //x
    @tag(// 50% %s
255 /// triple
) repeat f32a{
zchar[ 0 ]// trailing space 
Z9_
    // `tick` ""quote"" 'q'
    @lengthOf(	Z9_ ) `tab	here` , }/// triple
, }
")).
Eval vm_compute in ("<<<M4000>>>" ++ check (runes_of_ascii "MetaData o {
    char[] a1 `// not a comment`,
    metadata rootA `// not a comment`,
    int8 matchKey `{ , }`,
    i64 Packet,
    i16 pack,
    len trueish,
}// @lengthOf(

packet Packet {
    // 50% %s
    @calculatedFrom(""// no comment"")
    char[0] zchar @calculatedFrom(""x y"") `100% of %d`,
    @lengthOf(o)
    @rightPad('0')
    @calculatedFrom(""\" ++ [233]%N ++ runes_of_ascii """)
    match lengthOf as Packet {
        // trailing space 
        [00, 4294967296, ""a\\"", ""{,}""] : _x,
    },
    @leftPad('0')
    @lengthOf(matchKey)
    x repeatCount,
    string_ `line1
        line2`,
}// " ++ [27880; 37322]%N)).
Eval vm_compute in ("<<<M1075>>>" ++ check (runes_of_ascii "packet A {
// trailing space 
// @lengthOf(
@rightPad ( )float64 crc
    @lengthOf( //
packetx )
    ,
@tag(
4294967296 )
char[	255 ]	f32a @calculatedFrom(""" ++ [28040; 24687]%N ++ runes_of_ascii """
)// @lengthOf(
``
,
packetx	{
repeat
    chars {
repeat	zchar[
3 ]charz, // @lengthOf(
char[ // 50% %s
007
]	falsey `u8 x,` , }, metadata `{ , }` , T{ char[]	uint8x
,
uint8
    MetaDataX`100% of %d`// c
, _x @calculatedFrom( ""a\\""  ) , }	, },
    // " ++ [27880; 37322]%N ++ runes_of_ascii "
    repeat i16 metadata `u8 x,`
    , u8
stringy
    @calculatedFrom(
    """ ++ [233]%N ++ runes_of_ascii "t" ++ [233]%N ++ runes_of_ascii """
    ) , string u128	@lengthOf(x_y_z  ) `doc`
    ,}")).
Eval vm_compute in ("<<<M3762>>>" ++ check (runes_of_ascii "packet a1 {
    u8 Packet `it's`,
    @leftPad()
    msg_type,
    @lengthOf(crc)
    As repeatCount,
    // 50% %s
    // c
    @calculatedFrom(""a\\"")
    @calculatedFrom(""" ++ [233]%N ++ runes_of_ascii "t" ++ [233]%N ++ runes_of_ascii """)
    @tag(00)
    i16 As,
    @lengthOf(int)
    matchKey {
        len {
            zchar[255] crc,
            repeat char[] charz,
            repeat i8 x_y_z `{ , }`,
            rootA @calculatedFrom(""" ++ [28040; 24687]%N ++ runes_of_ascii """) `
            `,
        },
    },
}

// a // b
MetaData metadata {
    u16 x,
    i8i8 crc,
    f32 Packet,
    float64 chars,
}")).
Eval vm_compute in ("<<<M205>>>" ++ check (runes_of_ascii "packet pack// " ++ [27880; 37322]%N ++ runes_of_ascii "
{ zchar[	007] chars
, int {
char[] asx `two words` , zchar[ 42]a1`crlf
line`
    , tag
Packet, tag @lengthOf( i8i8 )	`crlf
line`
, } ,
uint16 Packet`two words` ,	@calculatedFrom( ""abc"" ) @calculatedFrom(
// c
// " ++ [128512]%N ++ runes_of_ascii " emoji
""" ++ [28040; 24687]%N ++ runes_of_ascii """
)// `tick` ""quote"" 'q'
@lengthOf(
MetaDataX )
char[7
]
    roots  @lengthOf(
matchKey ) , }
options { tag =  '0' packetx =""packet"";
matchKey
= char[ 3 ]
;
    MetaDataX = true
    } root	packet	repeatCount { T
@lengthOf(	int) // @lengthOf(
, }
")).
Eval vm_compute in ("<<<M3436>>>" ++ check (runes_of_ascii "root packet // c1
Frame // c2
{ u8 K , // c6
Logon
    // c7
first
    // c8
, // c9a
  // c9b
match
    // c10
K // c11
as // c12a
  // c12b
Body {
    // c14
1 // c15a
  // c15b
: // c16
Logon // c17
, 2
    // c19
: // c20
Logout // c21a
  // c21b
, // c22a
  // c22b
} // c23a
  // c23b
, // c24
} packet
    // c26
Logon // c27
{ // c28a
  // c28b
string
    // c29
user // c30
, // c31a
  // c31b
} packet Logout // c34
{
    // c35
u16 // c36
reason
    // c37
, } ")).
Eval vm_compute in ("<<<M1358>>>" ++ check (runes_of_ascii "root packet
len { @lengthOf(MetaDataX
    ) int
@lengthOf( // c
u8x ) `" ++ [233]%N ++ runes_of_ascii "` , @calculatedFrom(""1""
//
// c
) @lengthOf(Packet ) u128@lengthOf(
    Foo )	`line1
line2` , zchar[ 10 ]u128 // `tick` ""quote"" 'q'
@lengthOf( i64_
), rootA uint8x ,
    // 50% %s
    f64 falsey`a\` ,  repeat char[]asx ,
repeat
chars As `crlf
line` ,int	{ repeat matchKey
`` , } ,
    // " ++ [128512]%N ++ runes_of_ascii " emoji
    match lengthOf
as
trueish{	""\n"":
    Foo ,
""\" ++ [233]%N ++ runes_of_ascii """:
i8i8,} ,}	options
{
}")).
Eval vm_compute in ("<<<M672>>>" ++ check (runes_of_ascii "packet body	{}
    //x
    packet Z9_
    // packet A { u8 x, }
    { zchar[  10	] _x
    `two words` , @tag(
    // `tick` ""quote"" 'q'
    3) Z9_`" ++ [233]%N ++ runes_of_ascii "`
    , @leftPad ( ' ') @lengthOf(
lengthOf
)
repeat char[ 00 ]u , i32 u128
`{ , }` , }
root packet stringy { match Foo
as _x {255// " ++ [27880; 37322]%N ++ runes_of_ascii "
: int , [42,""1"" ,""1""	,"""" ,  ""\" ++ [233]%N ++ runes_of_ascii """ , ""it's"" , 65535 ,
""" ++ [28040; 24687]%N ++ runes_of_ascii """ ] : body,[ 007
//x
// packet A { u8 x, }
] /// triple
: msg_type ,} ,
}
// " ++ [128512]%N ++ runes_of_ascii " emoji
")).
Eval vm_compute in ("<<<M489>>>" ++ check (runes_of_ascii "  packet
Packet {
    //
    @calculatedFrom( ""packet"")
    repeat charz`doc`, } root packet // 50% %s
body { leftPad//x
{
repeat calculatedFrom{repeat
char[] calculatedFrom ,
Header { uint8
x	@calculatedFrom(
    """ ++ [28040; 24687]%N ++ runes_of_ascii """) , lengthOf @lengthOf(
x )  ,}, // " ++ [128512]%N ++ runes_of_ascii " emoji
} , match packetx as i8i8// @lengthOf(
{
255 :
a1
,00
    : Header , },// packet A { u8 x, }
},  }
    options	{
    Z9_ = char[ 0 /// triple
]
}")).
Eval vm_compute in ("<<<M4257>>>" ++ check (runes_of_ascii "MetaData	// `tick` ""quote"" 'q'
Packet
	{
calculatedFrom
	BodyLength `{ , }` ,
	int64  i8i8 `{ , }` 
, // `tick` ""quote"" 'q'
  	} packet chars	{  
  //
	// `tick` ""quote"" 'q'
	} 	 // a // b
    	root
    packet

    tag

{
@rightPad( 	 // trailing space 
) 
char[ 7]  roots 

// 50% %s
@calculatedFrom(

""it's"") 
	    // c

// @lengthOf(
`it's`	, 
	    // @lengthOf(
	// trailing space 

	}")).
Eval vm_compute in ("<<<M3827>>>" ++ check (runes_of_ascii "packet 
falsey

    {
char 
Logon	@calculatedFrom(

""" ++ [128512]%N ++ runes_of_ascii """)	,	repeat

    leftPad Header

    ,
} packet	Header
{ 
char[3

]	// " ++ [128512]%N ++ runes_of_ascii " emoji

tag @lengthOf(  trueish )
    `two words` ,

    match packetx as options1{ 7
	:	i64_ 	 // c
		""{,}"" :	x 
,
[

    """ ++ [28040; 24687]%N ++ runes_of_ascii """

    ,0 ,
""packet""

    ]:

    _x
    [

7

,
00 ]
: i64_ // trailing space 
  ""a\""b"": 
As,
    },
    }

")).
Eval vm_compute in ("<<<M681>>>" ++ check (runes_of_ascii "MetaData  repeatCount{
}  root
//x
// 50% %s
packet
A {@tag( // @lengthOf(
0) @tag( 10	)
    match metadata as
tag {
007 : u [ 10 , ""a\\""
    , ""a\""b"" , 00 , 255
    , ""it's""
    , 3
    ] :
    f32a  } ,char[
    // c
    0123456789 ] int , }
    packet trueish{ float { zchar[ 00]MetaDataX @lengthOf(leftPad ) `it's`,}
// @lengthOf(
// `tick` ""quote"" 'q'
,
}
")).
Eval vm_compute in ("<<<M74>>>" ++ check (runes_of_ascii "// `tick` ""quote"" 'q'
packet
u { }  MetaData Packet { int64 u128//
, x crc `
` ,
    float64 len ,
f32
// @lengthOf(
//
A `
`, // 50% %s
}
//x
// `tick` ""quote"" 'q'
root
packet
crc { body {
    f64
leftPad , a1  , }
    , repeat uint8x{ repeat f32 string_ `
` ,
int8
    // " ++ [27880; 37322]%N ++ runes_of_ascii "
    T @calculatedFrom(
"""" ) `say ""hi""` ,
uint8 repeatCount ,} , }
")).
Eval vm_compute in ("<<<M4219>>>" ++ check (runes_of_ascii "root packet x_y_z {
    repeat options1 {
        int8 len,
        zchar[00] A @calculatedFrom(""CRC32""),
        zchar[255] body `line1
                line2`,
        char[3] MetaDataX,
    },
    string zchar @calculatedFrom(""\" ++ [233]%N ++ runes_of_ascii """),
}

packet roots {
    @rightPad('\x00')
    repeat len,
    string options1,
    string As `" ++ [233]%N ++ runes_of_ascii "`,
}")).
Eval vm_compute in ("<<<M1197>>>" ++ check (runes_of_ascii "
root packet
    packetx	{@calculatedFrom( ""abc"")
    As@calculatedFrom( """ ++ [233]%N ++ runes_of_ascii "t" ++ [233]%N ++ runes_of_ascii """ ) ,
@lengthOf(
A  ) @rightPad ( '0')@calculatedFrom(
""it's""	)
    uint8 u // trailing space 
@lengthOf( u8x ) ,  @leftPad (	'0'
) @tag( 0
) @lengthOf(Packet ) string_
// 50% %s
//
,
    // a // b
    matchKey @calculatedFrom( ""abc"" )
,}
")).
Eval vm_compute in ("<<<M774>>>" ++ check (runes_of_ascii "packet a1{@calculatedFrom( """ ++ [128512]%N ++ runes_of_ascii """
) @calculatedFrom(
    ""`tick`""
) // " ++ [128512]%N ++ runes_of_ascii " emoji
@leftPad ( ) u16 rootA `{ , }` ,
    char
    Z9_ `" ++ [233]%N ++ runes_of_ascii "`	, repeat calculatedFrom
    `` // @lengthOf(
, // @lengthOf(
@lengthOf( MetaDataX	)  @calculatedFrom( ""CRC32"") @rightPad(	'\x00'  ) zchar[ 1
]msg_type`say ""hi""`
    ,}
//x
")).
Eval vm_compute in ("<<<M567>>>" ++ check (runes_of_ascii "MetaData  T { float32 pack `` ,
i64_ i64_
    `" ++ [233]%N ++ runes_of_ascii "` , Packet o ,
//	t
//
i64_ Logon , As A , //
} packet a1
{@tag(/// triple
0123456789
) match lengthOf as As // 50% %s
{
    ""a\\"" :
repeatCount """ ++ [128512]%N ++ runes_of_ascii """
    :
x
[
65535 , 42
    ]
    : roots ,
[ 10 ,
0] : lengthOf // trailing space 
, }
,} 	 ")).
Eval vm_compute in ("<<<M3571>>>" ++ check (runes_of_ascii "// top
packet roots {
    // c2
    @lengthOf(Pad)
    char[4294967296] options1 @calculatedFrom(""`tick`""),
    // c13
    lengthOf,// c15
    @tag(7)
    // c18
    repeat T,// c21
    @calculatedFrom(""a	b"")
    // c24a
    // c24b
    char[] Packet @lengthOf(_x) `doc`,// c31
}")).
Eval vm_compute in ("<<<M1517>>>" ++ check (runes_of_ascii "// 50% %s
packet packet	a1
    { zchar[
// a // b
// 50% %s
007]
T `it's`
    ,@rightPad
    // a // b
    (
'\x00')
    o repeatCount , }  packet Logon {  }packet	Logon //x
{ repeat // " ++ [128512]%N ++ runes_of_ascii " emoji
uint16 u128
    //
    `a\`,
falsey
@calculatedFrom(""packet"" ) ,
    } 	 ")).
Eval vm_compute in ("<<<M1664>>>" ++ check (runes_of_ascii "// 50% %s
packet	a1
    { zchar[
// a // b
// 50% %s
007]
T `it's`
    ,@rightPad
    // a // b
    (
'\x00')
    o repeatCount , }  packet Logon {  }packet	Logon //x
{ repeat // " ++ [128512]%N ++ runes_of_ascii " emoji
uint16 u128
    //
    `a\`,
@lengthOf(
@calculatedFrom(""packet"" ) ,
    } 	 ")).
Eval vm_compute in ("<<<M1696>>>" ++ check (runes_of_ascii "// 50% %s
packet	a1
    { zchar[
// a // b
// 50% %s
007]
T `it's`
    ,@rightPad
    // a // b
    (
'\x00')
    o repeatCount , }  packet Logon {  }packet	Logon //x
{ repeat // " ++ [128512]%N ++ runes_of_ascii " emoji
uint16 u128
    //
    "" `a\`,
falsey
@calculatedFrom(""packet"" ) ,
    } 	 ")).
Eval vm_compute in ("<<<M1578>>>" ++ check (runes_of_ascii "// 50% %s
packet	a1
    { zchar[
// a // b
// 50% %s
007]
T `it's`
    ,@rightPad
    // a // b
    (
'\x00'o
    ) repeatCount , }  packet Logon {  }packet	Logon //x
{ repeat // " ++ [128512]%N ++ runes_of_ascii " emoji
uint16 u128
    //
    `a\`,
falsey
@calculatedFrom(""packet"" ) ,
    } 	 ")).
Eval vm_compute in ("<<<M1576>>>" ++ check (runes_of_ascii "// 50% %s
packet	a1
    { zchar[
// a // b
// 50% %s
007]
T `it's`
    ,@rightPad
    // a // b
    (
'\x00'
    o repeatCount , }  packet Logon {  }packet	Logon //x
{ repeat // " ++ [128512]%N ++ runes_of_ascii " emoji
uint16 u128
    //
    `a\`,
falsey
@calculatedFrom(""packet"" ) ,
    } 	 ")).
Eval vm_compute in ("<<<M1651>>>" ++ check (runes_of_ascii "// 50% %s
packet	a1
    { zchar[
// a // b
// 50% %s
007]
T `it's`
    ,@rightPad
    // a // b
    (
'\x00')
    o repeatCount , }  packet Logon {  }packet	Logon //x
{ repeat // " ++ [128512]%N ++ runes_of_ascii " emoji
uint16 u128
    //
    ,
falsey
@calculatedFrom(""packet"" ) ,
    } 	 ")).
Eval vm_compute in ("<<<M1689>>>" ++ check (runes_of_ascii "// 50% %s
packet	a1
    { zchar[
// a // b
// 50% %s
007]
T `it's`
    ,@rightPad
    // a // b
    (
'\x00')
    o repeatCount , }  packet Logon {  }packet	Logon //x
{ repeat // " ++ [128512]%N ++ runes_of_ascii " emoji
uint16 u128
    //
    `a\`,
falsey
@calculatedFrom(""packet"" ) ,")).
Eval vm_compute in ("<<<M3609>>>" ++ check (runes_of_ascii "packet  u8x 
{options1

    {
	u32

    roots

@lengthOf(zchar
	)
    ,
	char[ 4294967296 ]	Packet 
@lengthOf(
	A
)

    `{ , }`

    ,
float
	@lengthOf( options1
    )	// 50% %s
  ,
u
@lengthOf( x )

`crlf
line` ,// " ++ [27880; 37322]%N ++ runes_of_ascii "
	}

    ,  }")).
Eval vm_compute in ("<<<M25>>>" ++ check (runes_of_ascii "root packet zchar{
@calculatedFrom( ""\" ++ [233]%N ++ runes_of_ascii """)
@rightPad (
    // a // b
    )
@rightPad	( '\x00' ) int8 Foo ,
    } packet calculatedFrom { u8x `doc`
    , }	MetaData x {
}options{ repeatCount
    = ""x y"" ;leftPad = """ ++ [128512]%N ++ runes_of_ascii """
tag= uint8}
//	t
")).
Eval vm_compute in ("<<<M187>>>" ++ check (runes_of_ascii "
MetaData lengthOf
    { zchar[ 007
    ] u8x `u8 x,` // packet A { u8 x, }
,	char[ 0123456789 ]
Logon `{ , }`
    ,
//
//
f64 o  `{ , }`
, char[
007 //	t
]	tag, char stringy// c
`100% of %d` ,
Pad uint8x
    ,}
/// triple
")).
Eval vm_compute in ("<<<M4001>>>" ++ check (runes_of_ascii "packet

tag{ // @lengthOf(
  match
zchar  as 
A  {
0123456789
    :
body, 
255 :Z9_ 3:  _x} , int16

pack
@lengthOf(
x_y_z 	 //
  )  , } MetaData

    lengthOf	{ 
char[
255 
]
	Header

`" ++ [233]%N ++ runes_of_ascii "` //x
    	,  // c

}
")).
Eval vm_compute in ("<<<M711>>>" ++ check (runes_of_ascii "packet falsey { }
MetaData
Logon
    //
    { }  packet//	t
x_y_z
    {
} packet repeatCount {
    lengthOf
@calculatedFrom( """ ++ [28040; 24687]%N ++ runes_of_ascii """) `u8 x,`
, }options { Z9_= false ;
Foo=
float64  ; }
// packet A { u8 x, }
")).
Eval vm_compute in ("<<<M3287>>>" ++ check (runes_of_ascii "// top
packet
    // c0
u8x
    // c1
{
    // c2
}
    // c3
MetaData
    // c4
crc
    // c5
{
    // c6
char[
    // c7
4294967296
    // c8
]
    // c9
Foo
    // c10
,
    // c11
}
    // c12
")).
Eval vm_compute in ("<<<M3423>>>" ++ check (runes_of_ascii "options {
    FixedStringPadChar = '0';
}
packet Q {
    zchar[4] z,
    @rightPad('\x00') char[3] n,
    char[5] d,
}
root packet R {
    Q,
    zchar[8] top,
    repeat zchar[2] zs,
}
")).
Eval vm_compute in ("<<<M81>>>" ++ check (runes_of_ascii "
packet Logon  {
match o
as x_y_z {// `tick` ""quote"" 'q'
""x y""
    /// triple
    : matchKey , ""\n"" :
pack """ ++ [128512]%N ++ runes_of_ascii """ :	int[ """ ++ [128512]%N ++ runes_of_ascii """ //	t
,
""// no comment""
] :  x }// @lengthOf(
,} // c")).
Eval vm_compute in ("<<<M1235>>>" ++ check (runes_of_ascii "
root packet
    f32a { } MetaData tag { }
    //	t
    packet i8i8{
    @lengthOf(options1
) zchar[ 1 ] BodyLength @lengthOf( u
    // `tick` ""quote"" 'q'
    )
    ,	}")).
Eval vm_compute in ("<<<M676>>>" ++ check (runes_of_ascii "
options
    {
options1
=false ; x_y_z =
""abc"";A =  ""packet""
    trueish = // " ++ [128512]%N ++ runes_of_ascii " emoji
42
    ; } options // " ++ [27880; 37322]%N ++ runes_of_ascii "
{ rootA = true }MetaData i64_{ string
uint8x ,}")).
Eval vm_compute in ("<<<M3936>>>" ++ check (runes_of_ascii "options {
    trueish = 42
    int = ' '
    Packet = 007;
    asx = string;
}

root packet u8x {
}

MetaData int {
    string charz,// `tick` ""quote"" 'q'
}")).
Eval vm_compute in ("<<<M2126>>>" ++ check (runes_of_ascii "MetaData BodyLength
{ int8 Foo
, string
    MetaDataX , float zchar ,pack options1
,asx string_ string_, }
packet u8x {Foo@lengthOf(charz )
`" ++ [28040; 24687; 31867; 22411]%N ++ runes_of_ascii "`,  }
")).
Eval vm_compute in ("<<<M585>>>" ++ check (runes_of_ascii "// packet A { u8 x, }
options	{ calculatedFrom	= 0123456789 } // packet A { u8 x, }
packet // a // b
Pad { }
    // 50% %s
    packet zchar	{
}
")).
Eval vm_compute in ("<<<M879>>>" ++ check (runes_of_ascii "options { // packet A { u8 x, }
f32a
=
string// " ++ [27880; 37322]%N ++ runes_of_ascii "
; // @lengthOf(
} MetaData
    // `tick` ""quote"" 'q'
    T
{ calculatedFrom  BodyLength	, }")).
Eval vm_compute in ("<<<M2062>>>" ++ check (runes_of_ascii "MetaData BodyLength
{ Foo int8
, string
    MetaDataX , float zchar ,pack options1
,asx string_, }
packet u8x {Foo@lengthOf(charz )
`" ++ [28040; 24687; 31867; 22411]%N ++ runes_of_ascii "`,  }
")).
Eval vm_compute in ("<<<M1296>>>" ++ check (runes_of_ascii "// `tick` ""quote"" 'q'
MetaData chars {	i16 tag,
len // a // b
string_,
i64 i8i8
`tab	here` , char[3 ]
chars , rootA asx , char
options1, } 	 ")).
Eval vm_compute in ("<<<M2274>>>" ++ check (runes_of_ascii "options
    {
x_y_z// " ++ [27880; 37322]%N ++ runes_of_ascii "
= 10 ; }
packet body {
    @calculatedFrom(
// trailing space 
// " ++ [27880; 37322]%N ++ runes_of_ascii "
""1""
)	match match T as Foo
    {
255 :T , }
,}")).
Eval vm_compute in ("<<<M1979>>>" ++ check (runes_of_ascii "
packet leftPad {
@leftPad( '0')
u32
i64_ `100% of %d` true repeat// 50% %s
i8 chars
    ,
} MetaData
    f32a
{ // packet A { u8 x, }
}")).
Eval vm_compute in ("<<<M2184>>>" ++ check (runes_of_ascii "MetaData BodyLength
{ int8 Foo
, string
    MetaDataX , float zchar ,pack options1
,asx string_, }
packet u8x {Foo@lengthOf(charz )
`" ++ [28040; 24687; 31867; 22411]%N ++ runes_of_ascii "`")).
Eval vm_compute in ("<<<M2279>>>" ++ check (runes_of_ascii "options
    {
x_y_z// " ++ [27880; 37322]%N ++ runes_of_ascii "
= 10 ; }
packet body {
    @calculatedFrom(
// trailing space 
// " ++ [27880; 37322]%N ++ runes_of_ascii "
""1""
)	match T T as Foo
    {
255 :T , }
,}")).
Eval vm_compute in ("<<<M2340>>>" ++ check (runes_of_ascii "options
    {
x_y_z// " ++ [27880; 37322]%N ++ runes_of_ascii "
= 10 ; }
packet body {
    @calculatedFrom(
// trailing spac@e 
// " ++ [27880; 37322]%N ++ runes_of_ascii "
""1""
)	match T as Foo
    {
255 :T , }
,}")).
Eval vm_compute in ("<<<M2023>>>" ++ check (runes_of_ascii "
packet leftPad {
@leftPad( '0')
u32
i64_ `100% of %d` ,repeat// 50% %s
i8 chars
    ,
} MetaData
    f32a
{ // packet A { u8 x, }
=")).
Eval vm_compute in ("<<<M3628>>>" ++ check (runes_of_ascii "
options {

    string_=  """ ++ [128512]%N ++ runes_of_ascii """
	; lengthOf=string T  // c
      =
uint16

;int
	=zchar[ 
    //x
      3 
] ;
    A =	""1""

    ;}
")).
Eval vm_compute in ("<<<M2328>>>" ++ check (runes_of_ascii "options
    {
x_y_z// " ++ [27880; 37322]%N ++ runes_of_ascii "
= 10 ; }
packet body {
    @calculatedFrom(
// trailing space 
// " ++ [27880; 37322]%N ++ runes_of_ascii "
""1""
)	match T as Foo
    {
255 :T , }
,")).
Eval vm_compute in ("<<<M2011>>>" ++ check (runes_of_ascii "
packet leftPad {
@leftPad( '0')
u32
i64_ `100% of %d` ,repeat// 50% %s
i8 chars
    ,
} MetaData
    
{ // packet A { u8 x, }
}")).
Eval vm_compute in ("<<<M1981>>>" ++ check (runes_of_ascii "
packet leftPad {
@leftPad( '0')
u32
i64_ `100% of %d` ,// 50% %s
i8 chars
    ,
} MetaData
    f32a
{ // packet A { u8 x, }
}")).
Eval vm_compute in ("<<<M2415>>>" ++ check (runes_of_ascii "MetaData
    calculatedFrom
{ zchar[   ]
    As`tab	here`,
    }// trailing space 
options  { roots ='\x00' ; } packet A
{ }
")).
Eval vm_compute in ("<<<M2334>>>" ++ check (runes_of_ascii "options
    {
x_y_z// " ++ [27880; 37322]%N ++ runes_of_ascii "
= 10 ; }
packet body {
    @calculatedFrom(
// trailing space 
// " ++ [27880; 37322]%N ++ runes_of_ascii "
""1""
)	match T as Foo
    {
2")).
Eval vm_compute in ("<<<M3381>>>" ++ check (runes_of_ascii "
packet	B 
{
	u8 a
,string
s ,

    } root packet P {  u16 
L @lengthOf( B

)

    ,
	B , 
u8

    t
    ,
	} ")).
Eval vm_compute in ("<<<M1840>>>" ++ check (runes_of_ascii "packet o ' '
    roots `it's`
// trailing space 
//x
, char[ 42
    ]  A, // " ++ [27880; 37322]%N ++ runes_of_ascii "
f64
repeatCount
    `crlf
line`
,}")).
Eval vm_compute in ("<<<M1923>>>" ++ check (runes_of_ascii "packet o {
    roots `it's`
// trailing space 
//x
, char[ 42
    ]  A"", // " ++ [27880; 37322]%N ++ runes_of_ascii "
f64
repeatCount
    `crlf
line`
,}")).
Eval vm_compute in ("<<<M106>>>" ++ check (runes_of_ascii "
options { options1 =
i64 matchKey// `tick` ""quote"" 'q'
= true ;
matchKey// c
=
    i16 ;
    u8x =
    ""{,}""; }
")).
Eval vm_compute in ("<<<M4119>>>" ++ check (runes_of_ascii "MetaData BodyLength {
    int8 Foo,
    string MetaDataX,
    float zchar,
    pack options1,
    asx string_,
}")).
Eval vm_compute in ("<<<M1857>>>" ++ check (runes_of_ascii "packet o {
    roots `it's`
// trailing space 
//x
,  42
    ]  A, // " ++ [27880; 37322]%N ++ runes_of_ascii "
f64
repeatCount
    `crlf
line`
,}")).
Eval vm_compute in ("<<<M3050>>>" ++ check (runes_of_ascii "packet A {
    u16 len @lengthOf(body) `
x`,
    u32 crc @calculatedFrom(""CRC32"") `
x`,
    string body,
}")).
Eval vm_compute in ("<<<M2993>>>" ++ check (runes_of_ascii "packet A {
  match k as n {
    [""a"", 22, ""c c"", 4, ""e"", 66, ""g"", 8, ""i"", 10, ""k""] : B
    2 : C
  },
}")).
Eval vm_compute in ("<<<M3863>>>" ++ check (runes_of_ascii "

  packet
	leftPad {
@leftPad
    ( '0' )	u32 i64_	`100% of %d`,
	repeat  // 50% %s
i8 chars 
,
} ")).
Eval vm_compute in ("<<<M2995>>>" ++ check (runes_of_ascii "packet A {
  match k as n {
    [1, 22, ""c c"", 4, 5, ""f"", 7, 8, ""i"", 10, 11] : B
    2 : C
  },
}")).
Eval vm_compute in ("<<<M2966>>>" ++ check (runes_of_ascii "packet A {
  match k as n {
    [""a"", 22, ""c c"", 4, ""e"", 66, ""g"", 8, ""i""] : B,
    2 : C
  },
}")).
Eval vm_compute in ("<<<M2958>>>" ++ check (runes_of_ascii "packet A {
  match k as n {
    [""a"", ""bb"", 007, ""d"", ""e"", 66, ""g"", ""h""] : B
    2 : C
  },
}")).
Eval vm_compute in ("<<<M2936>>>" ++ check (runes_of_ascii "packet A {
  match k as n {
    [""a"", ""bb"", ""c c"", ""d"", ""e"", ""f"", ""g""] : B,
    2 : C
  },
}")).
Eval vm_compute in ("<<<M1410>>>" ++ check (runes_of_ascii "root packet SimpleMessage {
    uint16 MsgType `" ++ [28040; 24687; 31867; 22411]%N ++ runes_of_ascii "`,
    string JsonBody `Json" ++ [23383; 31526; 20018; 28040; 24687; 20307]%N ++ runes_of_ascii "`,
}")).
Eval vm_compute in ("<<<M548>>>" ++ check (runes_of_ascii "packet
    // @lengthOf(
    int {
    @calculatedFrom(
""a\\"" ) char calculatedFrom ,	}

")).
Eval vm_compute in ("<<<M2945>>>" ++ check (runes_of_ascii "packet A {
  match k as n {
    [""a"", ""bb"", 007, ""d"", ""e"", 66, ""g""] : B
    2 : C
  },
}")).
Eval vm_compute in ("<<<M1746>>>" ++ check (runes_of_ascii "options{  lengthOf =//x
i16;
    BodyLength = = 0 ; pack
= false;
    A = char[ 3 ] }")).
Eval vm_compute in ("<<<M1814>>>" ++ check (runes_of_ascii "options{  lengthOf =//x/
i16;
    BodyLength = 0 ; pack
= false;
    A = char[ 3 ] }")).
Eval vm_compute in ("<<<M1797>>>" ++ check (runes_of_ascii "options{  lengthOf =//x
i16;
    BodyLength = 0 ; pack
= false;
    A = char[ ] 3 }")).
Eval vm_compute in ("<<<M3874>>>" ++ check (runes_of_ascii "packet A {
    match k as n {
        // b
        1 : B,
        // f
    },// h
}")).
Eval vm_compute in ("<<<M766>>>" ++ check (runes_of_ascii "packet
    matchKey
    { f32a
    @calculatedFrom( // a // b
""abc"" //x
)
,//
}
")).
Eval vm_compute in ("<<<M3085>>>" ++ check (runes_of_ascii "packet A {
    u32 crc @calculatedFrom(""\
""),
    @calculatedFrom(""\
"") u8 y,
}")).
Eval vm_compute in ("<<<M3275>>>" ++ check (runes_of_ascii "MetaData Foo { zchar[ 0 ] matchKey , } options { lengthOf = i32 u = // c
00 ; }")).
Eval vm_compute in ("<<<M1442>>>" ++ check (runes_of_ascii "packet
T
{ match repeatCount as	
{ [65535 ]	: As	,
} ,}
// trailing space 
")).
Eval vm_compute in ("<<<M262>>>" ++ check (runes_of_ascii "root packet uint8x
    {
char[]pack  @calculatedFrom( ""`tick`"" ) ,
    }")).
Eval vm_compute in ("<<<M468>>>" ++ check (runes_of_ascii "// packet A { u8 x, }
options// @lengthOf(
{ chars = ""// no comment"" }
")).
Eval vm_compute in ("<<<M2109>>>" ++ check (runes_of_ascii "MetaData BodyLength
{ int8 Foo
, string
    MetaDataX , float zchar ,")).
Eval vm_compute in ("<<<M2887>>>" ++ check (runes_of_ascii "packet A {
  match k as n {
    [1, ""bb"", 007] : B
    2 : C
  },
}")).
Eval vm_compute in ("<<<M3573>>>" ++ check (runes_of_ascii "

  packet

MetaDataX
    {
	body
, @tag(

00  )	options1`a\`,}
")).
Eval vm_compute in ("<<<M2878>>>" ++ check (runes_of_ascii "packet A {
  match k as n {
    [1, ""bb""] : B
    2 : C
  },
}")).
Eval vm_compute in ("<<<M3299>>>" ++ check (runes_of_ascii "packet u8x { } MetaData // c
crc { char[ 4294967296 ] Foo , }")).
Eval vm_compute in ("<<<M4427>>>" ++ check (runes_of_ascii "packet 
	    // 50% %s
//	t
  int
{

    } 	 // " ++ [128512]%N ++ runes_of_ascii " emoji")).
Eval vm_compute in ("<<<M3534>>>" ++ check (runes_of_ascii "

  packet
Header

    {
repeat  int32 options1 , 
}//x")).
Eval vm_compute in ("<<<M2818>>>" ++ check (runes_of_ascii "[ false i8 [ int8 string = `tab	here` int64 repeat true")).
Eval vm_compute in ("<<<M1861>>>" ++ check (runes_of_ascii "packet o {
    roots `it's`
// trailing space 
//x
,")).
Eval vm_compute in ("<<<M2713>>>" ++ check (runes_of_ascii "u16 [ root ' ' options ( [ ] `" ++ [28040; 24687; 31867; 22411]%N ++ runes_of_ascii "` f64 i16 int32")).
Eval vm_compute in ("<<<M792>>>" ++ check (runes_of_ascii "packet u8x// a // b
{	} MetaData repeatCount{}")).
Eval vm_compute in ("<<<M2353>>>" ++ check (runes_of_ascii "MetaData MetaData
Foo {Header //
pack ,	} 	 ")).
Eval vm_compute in ("<<<M2366>>>" ++ check (runes_of_ascii "MetaData
Foo {Header Header //
pack ,	} 	 ")).
Eval vm_compute in ("<<<M2382>>>" ++ check (runes_of_ascii "MetaData
Foo {Header //
pack ,	uint16 	 ")).
Eval vm_compute in ("<<<M3229>>>" ++ check (runes_of_ascii "root packet u128 { chars // c
`doc` , }")).
Eval vm_compute in ("<<<M966>>>" ++ check (runes_of_ascii "// a // b
MetaData x
//x
// a // b
{}")).
Eval vm_compute in ("<<<M2397>>>" ++ check (runes_of_ascii "MetaData
F$oo {Header //
pack ,	} 	 ")).
Eval vm_compute in ("<<<M2701>>>" ++ check (runes_of_ascii "u64 ; ""// no comment"" options f64 =")).
Eval vm_compute in ("<<<M3837>>>" ++ check (runes_of_ascii "MetaData i8i8 {
    char[1] Foo,
}")).
Eval vm_compute in ("<<<M2749>>>" ++ check (runes_of_ascii "eR}" ++ [65533]%N ++ runes_of_ascii ">" ++ [65533]%N ++ runes_of_ascii "V" ++ [65533]%N ++ runes_of_ascii "Y" ++ [65533; 65533]%N ++ runes_of_ascii "g" ++ [65533]%N ++ runes_of_ascii "73T" ++ [65533]%N ++ runes_of_ascii "?D" ++ [65533; 65533]%N ++ runes_of_ascii "Q(/X" ++ [65533]%N ++ runes_of_ascii "!" ++ [29]%N ++ runes_of_ascii "B" ++ [65533]%N ++ runes_of_ascii "f" ++ [65533]%N)).
Eval vm_compute in ("<<<M3054>>>" ++ check (runes_of_ascii "packet A {
    u8 x `tab
	x`,
}")).
Eval vm_compute in ("<<<M442>>>" ++ check (runes_of_ascii "options { int =zchar[ 1 ] }
")).
Eval vm_compute in ("<<<M2852>>>" ++ check (runes_of_ascii "+:7GE=qxYH$][}Bx[~rJt+""HuUpc")).
Eval vm_compute in ("<<<M3042>>>" ++ check (runes_of_ascii "packet A {
    u8 x `x
`,
}")).
Eval vm_compute in ("<<<M1496>>>" ++ check (runes_of_ascii "packet
T
{ match repeatC")).
Eval vm_compute in ("<<<M4355>>>" ++ check (runes_of_ascii "root packet metadata {
}")).
Eval vm_compute in ("<<<M4289>>>" ++ check (runes_of_ascii "
// packet A { u8 x, }")).
Eval vm_compute in ("<<<M1186>>>" ++ check (runes_of_ascii "MetaData
    Z9_ { }")).
Eval vm_compute in ("<<<M2828>>>" ++ check (runes_of_ascii "o7D*" ++ [65533; 65533]%N ++ runes_of_ascii ",t" ++ [65533; 65533; 65533]%N ++ runes_of_ascii "@" ++ [65533; 65533]%N ++ runes_of_ascii "8" ++ [65533; 11]%N ++ runes_of_ascii "G" ++ [23]%N)).
Eval vm_compute in ("<<<M3113>>>" ++ check (runes_of_ascii "// c" ++ [5760]%N ++ runes_of_ascii "
packet A {
}")).
Eval vm_compute in ("<<<M993>>>" ++ check (runes_of_ascii "
options	{
    }
")).
Eval vm_compute in ("<<<M3517>>>" ++ check (runes_of_ascii "

  options{
	}
")).
Eval vm_compute in ("<<<M2716>>>" ++ check (runes_of_ascii "f64 , @rightPad")).
Eval vm_compute in ("<<<M242>>>" ++ check (runes_of_ascii "packet	a1 {}")).
Eval vm_compute in ("<<<M2494>>>" ++ check (runes_of_ascii "@lengthOf(")).
Eval vm_compute in ("<<<M2473>>>" ++ check (runes_of_ascii "metadata")).
Eval vm_compute in ("<<<M2459>>>" ++ check (runes_of_ascii "falsey")).
Eval vm_compute in ("<<<M2497>>>" ++ check (runes_of_ascii "@tag(")).
Eval vm_compute in ("<<<M2452>>>" ++ check (runes_of_ascii "i8i8")).
Eval vm_compute in ("<<<M2478>>>" ++ check (runes_of_ascii "'0'")).
Eval vm_compute in ("<<<M2460>>>" ++ check (runes_of_ascii "as")).
Eval vm_compute in ("<<<M2685>>>" ++ check (runes_of_ascii ",")).
