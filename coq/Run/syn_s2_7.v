From FP Require Import Lexer Parser ShowPT Digest.
From Coq Require Import String List NArith.
Import ListNotations.
Open Scope string_scope.
Set Printing Width 100000000.
Set Printing Depth 100000000.
Definition nl : string := String (Ascii.ascii_of_nat 10) EmptyString.
Definition model_lex (rs : list rune) : string := show_toks (lex rs).
Definition model_parse (rs : list rune) : string :=
  show_pt (match lex rs with Some ts => parse ts | None => None end).
(* coqc is slow at printing long strings: digests first (Digest.v), full texts on demand *)
Definition check (rs : list rune) : string :=
  digest (model_lex rs) ++ " " ++ digest (model_parse rs).
Definition full (rs : list rune) : string := model_lex rs ++ nl ++ model_parse rs.
Definition terms (ts : list tok) (t : pt) : string :=
  digest (show_toks (Some ts)) ++ " " ++ digest (show_pt (Some t)) ++ " " ++ digest (show_pt (parse ts)).
Definition terms_full (ts : list tok) (t : pt) : string :=
  show_toks (Some ts) ++ nl ++ show_pt (Some t) ++ nl ++ show_pt (parse ts).
Eval vm_compute in ("<<<M7>>>" ++ check (runes_of_ascii "MetaData trueish {	tag Foo `say ""hi""` , zchar[ 4294967296 ]
    charz // packet A { u8 x, }
,
/// triple
// a // b
Z9_ _x ,
char[	0123456789 ] lengthOf
    , i64 u8x `// not a comment` , f32a a1 `doc`,	}
")).
Eval vm_compute in ("<<<M17>>>" ++ check (runes_of_ascii "  root
//
// `tick` ""quote"" 'q'
packet lengthOf {repeat char[]asx`// not a comment` // trailing space 
,	lengthOf{ string options1	, char[] A @calculatedFrom( ""\n"" )
    ,	int16 trueish , },repeat  int16	stringy  , string Logon `{ , }`
, @lengthOf(	metadata )
match trueish	as
    Foo { 00
:
T , 7
: Z9_ , } ,
string_ a1
`" ++ [28040; 24687; 31867; 22411]%N ++ runes_of_ascii "`// packet A { u8 x, }
, } packet zchar { @calculatedFrom(
    ""x y"" //x
) repeatCount`
`, match
    //
    stringy as u {255 // `tick` ""quote"" 'q'
:charz } , zchar[ 0123456789]
    // a // b
    Z9_
@lengthOf(
    crc )
`it's` , @leftPad
    ( '\x00' )zchar[
    0 ]rootA @calculatedFrom( ""CRC32"" ) , @lengthOf( leftPad )
    // packet A { u8 x, }
    Foo @calculatedFrom(
""{,}"" ) ,
uint32 Foo
`// not a comment` , f32 float , repeat matchKey ,
Logon @lengthOf(
    rootA
) `" ++ [28040; 24687; 31867; 22411]%N ++ runes_of_ascii "` ,
    }
")).
Eval vm_compute in ("<<<M27>>>" ++ check (runes_of_ascii "packet
    MetaDataX {
    match Header as // a // b
zchar { 0
: pack	[ 42
// packet A { u8 x, }
// c
,	65535 ]
:
crc } , // @lengthOf(
@tag(
    1 )@rightPad (' ' // " ++ [27880; 37322]%N ++ runes_of_ascii "
)
int64  Foo, } // packet A { u8 x, }")).
Eval vm_compute in ("<<<T27>>>" ++ terms [mkTok 35 "packet" 1 0 false; mkTok 42 "MetaDataX" 2 4 false; mkTok 2 "{" 2 14 false; mkTok 38 "match" 3 4 false; mkTok 42 "Header" 3 10 false; mkTok 17 "as" 3 17 false; mkTok 44 "// a // b" 3 20 true; mkTok 42 "zchar" 4 0 false; mkTok 2 "{" 4 6 false; mkTok 30 "0" 4 8 false; mkTok 39 ":" 5 0 false; mkTok 42 "pack" 5 2 false; mkTok 18 "[" 5 7 false; mkTok 30 "42" 5 9 false; mkTok 44 "// packet A { u8 x, }" 6 0 true; mkTok 44 "// c" 7 0 true; mkTok 40 "," 8 0 false; mkTok 30 "65535" 8 2 false; mkTok 13 "]" 8 8 false; mkTok 39 ":" 9 0 false; mkTok 42 "crc" 10 0 false; mkTok 3 "}" 10 4 false; mkTok 40 "," 10 6 false; mkTok 44 "// @lengthOf(" 10 8 true; mkTok 9 "@tag(" 11 0 false; mkTok 30 "1" 12 4 false; mkTok 6 ")" 12 6 false; mkTok 32 "@rightPad" 12 7 false; mkTok 8 "(" 12 17 false; mkTok 33 "' '" 12 18 false; mkTok 44 (string_of_bytes [47; 47; 32; 230; 179; 168; 233; 135; 138]%N) 12 22 true; mkTok 6 ")" 13 0 false; mkTok 27 "int64" 14 0 false; mkTok 42 "Foo" 14 7 false; mkTok 40 "," 14 10 false; mkTok 3 "}" 14 12 false; mkTok 44 "// packet A { u8 x, }" 14 14 true; mkTok 0 "<EOF>" 14 35 false] (mkPacket (mkPtok 35 "packet" 1 0 0) (Some (mkPtok 3 "}" 14 12 35)) [(DPacket (mkPacketDef (mkSpan (mkPtok 35 "packet" 1 0 0) (mkPtok 3 "}" 14 12 35)) None (mkPtok 35 "packet" 1 0 0) (mkPtok 42 "MetaDataX" 2 4 1) (mkPtok 2 "{" 2 14 2) [(mkFieldWithAttr (mkSpan (mkPtok 38 "match" 3 4 3) (mkPtok 40 "," 10 6 22)) [] (MatchField (mkSpan (mkPtok 38 "match" 3 4 3) (mkPtok 40 "," 10 6 22)) (mkMatchFieldDecl (mkSpan (mkPtok 38 "match" 3 4 3) (mkPtok 3 "}" 10 4 21)) (mkPtok 38 "match" 3 4 3) (mkPtok 42 "Header" 3 10 4) (mkPtok 17 "as" 3 17 5) (mkPtok 42 "zchar" 4 0 7) (mkPtok 2 "{" 4 6 8) [(mkMatchPair (mkSpan (mkPtok 30 "0" 4 8 9) (mkPtok 42 "pack" 5 2 11)) (MKDigits (mkPtok 30 "0" 4 8 9)) (mkPtok 39 ":" 5 0 10) (mkPtok 42 "pack" 5 2 11) None); (mkMatchPair (mkSpan (mkPtok 18 "[" 5 7 12) (mkPtok 42 "crc" 10 0 20)) (MKList (mkKeyList (mkSpan (mkPtok 18 "[" 5 7 12) (mkPtok 13 "]" 8 8 18)) (mkPtok 18 "[" 5 7 12) (mkPtok 30 "42" 5 9 13) [((mkPtok 40 "," 8 0 16), (mkPtok 30 "65535" 8 2 17))] (mkPtok 13 "]" 8 8 18))) (mkPtok 39 ":" 9 0 19) (mkPtok 42 "crc" 10 0 20) None)] (mkPtok 3 "}" 10 4 21)) (mkPtok 40 "," 10 6 22))); (mkFieldWithAttr (mkSpan (mkPtok 9 "@tag(" 11 0 24) (mkPtok 40 "," 14 10 34)) [(FATag (mkSpan (mkPtok 9 "@tag(" 11 0 24) (mkPtok 6 ")" 12 6 26)) (mkTagAttr (mkSpan (mkPtok 9 "@tag(" 11 0 24) (mkPtok 6 ")" 12 6 26)) (mkPtok 9 "@tag(" 11 0 24) (mkPtok 30 "1" 12 4 25) (mkPtok 6 ")" 12 6 26))); (FAPadding (mkSpan (mkPtok 32 "@rightPad" 12 7 27) (mkPtok 6 ")" 13 0 31)) (mkPaddingAttr (mkSpan (mkPtok 32 "@rightPad" 12 7 27) (mkPtok 6 ")" 13 0 31)) (mkPtok 32 "@rightPad" 12 7 27) (mkPtok 8 "(" 12 17 28) (Some (mkPtok 33 "' '" 12 18 29)) (mkPtok 6 ")" 13 0 31)))] (MetaField (mkSpan (mkPtok 27 "int64" 14 0 32) (mkPtok 40 "," 14 10 34)) None (mkMetaDecl (mkSpan (mkPtok 27 "int64" 14 0 32) (mkPtok 40 "," 14 10 34)) (TyBasic (mkSpan (mkPtok 27 "int64" 14 0 32) (mkPtok 27 "int64" 14 0 32)) (mkBasicType (mkSpan (mkPtok 27 "int64" 14 0 32) (mkPtok 27 "int64" 14 0 32)) (mkPtok 27 "int64" 14 0 32))) (mkPtok 42 "Foo" 14 7 33) None (mkPtok 40 "," 14 10 34))))] (mkPtok 3 "}" 14 12 35)))])).
Eval vm_compute in ("<<<M37>>>" ++ check (runes_of_ascii "
")).
Eval vm_compute in ("<<<M47>>>" ++ check (runes_of_ascii "
packet stringy
{	falsey @lengthOf( MetaDataX )`crlf
line`
,match tag as uint8x{
""a\""b"" : charz
    , 00 :
    repeatCount , 10
: Header
    ""a	b""
    /// triple
    : Pad
,65535
    :
metadata
    ,
},
    @calculatedFrom( ""a\""b""
    )
    //x
    char[
    255 ]falsey , x_y_z
@calculatedFrom(  ""packet"")
    `tab	here` , }
")).
Eval vm_compute in ("<<<M57>>>" ++ check (runes_of_ascii "  MetaData
u128{ uint32 lengthOf ,
    }
")).
Eval vm_compute in ("<<<M67>>>" ++ check (runes_of_ascii "// trailing space 
options{
    asx = """ ++ [233]%N ++ runes_of_ascii "t" ++ [233]%N ++ runes_of_ascii """ zchar = 7 i8i8=65535 ;	Pad =i8
; } // a // b
MetaData
    string_  { //	t
char[ 0 // packet A { u8 x, }
]zchar ,// `tick` ""quote"" 'q'
char[ 4294967296] msg_type ,
u16
MetaDataX `" ++ [233]%N ++ runes_of_ascii "`,} root packet Foo{	f64
BodyLength
@lengthOf(
repeatCount ) ,
repeat asx {
char[ 00] stringy // `tick` ""quote"" 'q'
@lengthOf( Foo)
    ,  i8 string_,}
    ,
float64 i8i8 `say ""hi""` ,  @tag( 0 ) MetaDataX
    {// " ++ [27880; 37322]%N ++ runes_of_ascii "
repeat uint16 stringy
,	repeat x_y_z , asx, } ,
    @rightPad( '\x00' ) repeat
    char[7
] metadata
// a // b
// " ++ [27880; 37322]%N ++ runes_of_ascii "
, i16 x
, match falsey
    as
asx	{""a\""b""
:
    u ,} // @lengthOf(
,// trailing space 
@calculatedFrom(  """"//
)
match f32a
as
u8x {
//x
//
""a\""b"":matchKey , } //
,
x `" ++ [233]%N ++ runes_of_ascii "`  ,char[
65535 ]
string_ `u8 x,` , }
// c
")).
Eval vm_compute in ("<<<M77>>>" ++ check (runes_of_ascii "packet
Header//	t
{ float32
repeatCount @lengthOf(
f32a
/// triple
// a // b
) , }options{ As	= true; } packet Pad
{ @rightPad
( ' ' ) leftPad
    , }
")).
Eval vm_compute in ("<<<M87>>>" ++ check (runes_of_ascii "root packet
x_y_z {
    @leftPad
    (
' ')uint8x { float32 len @calculatedFrom(""it's""
    //
    )
`" ++ [233]%N ++ runes_of_ascii "` ,match o as stringy{ [""{,}""
    ] : x
    , }
    ,
}
, }
")).
Eval vm_compute in ("<<<M97>>>" ++ check (runes_of_ascii "options{
T
    =
""x y"" ; } packet Z9_ { @leftPad
    ('0' )
int16
Header @calculatedFrom(
""1""
    ) , options1 @lengthOf(
    u8x )
`// not a comment`
,
    @calculatedFrom(""// no comment"" ) @lengthOf(pack //	t
) Header {
i32 // trailing space 
u
`{ , }`
, _x	, char[
    7 ] crc @lengthOf(i64_)  ,
    }
// a // b
// c
, // `tick` ""quote"" 'q'
float
@lengthOf(
roots ) `it's`  , } packet stringy { @rightPad( '\x00' //
) @rightPad ( //
'0' )
// " ++ [27880; 37322]%N ++ runes_of_ascii "
// packet A { u8 x, }
@calculatedFrom( """ ++ [28040; 24687]%N ++ runes_of_ascii """ ) string a1 ,
    f32
uint8x // packet A { u8 x, }
@lengthOf( charz
// c
// " ++ [128512]%N ++ runes_of_ascii " emoji
) `two words`
,
int32
x_y_z	@lengthOf( string_  ) //	t
,
}
")).
Eval vm_compute in ("<<<T97>>>" ++ terms [mkTok 1 "options" 1 0 false; mkTok 2 "{" 1 7 false; mkTok 42 "T" 2 0 false; mkTok 4 "=" 3 4 false; mkTok 31 """x y""" 4 0 false; mkTok 41 ";" 4 6 false; mkTok 3 "}" 4 8 false; mkTok 35 "packet" 4 10 false; mkTok 42 "Z9_" 4 17 false; mkTok 2 "{" 4 21 false; mkTok 32 "@leftPad" 4 23 false; mkTok 8 "(" 5 4 false; mkTok 33 "'0'" 5 5 false; mkTok 6 ")" 5 9 false; mkTok 25 "int16" 6 0 false; mkTok 42 "Header" 7 0 false; mkTok 5 "@calculatedFrom(" 7 7 false; mkTok 31 """1""" 8 0 false; mkTok 6 ")" 9 4 false; mkTok 40 "," 9 6 false; mkTok 42 "options1" 9 8 false; mkTok 7 "@lengthOf(" 9 17 false; mkTok 42 "u8x" 10 4 false; mkTok 6 ")" 10 8 false; mkTok 43 "`// not a comment`" 11 0 false; mkTok 40 "," 12 0 false; mkTok 5 "@calculatedFrom(" 13 4 false; mkTok 31 """// no comment""" 13 20 false; mkTok 6 ")" 13 36 false; mkTok 7 "@lengthOf(" 13 38 false; mkTok 42 "pack" 13 48 false; mkTok 44 (string_of_bytes [47; 47; 9; 116]%N) 13 53 true; mkTok 6 ")" 14 0 false; mkTok 42 "Header" 14 2 false; mkTok 2 "{" 14 9 false; mkTok 26 "i32" 15 0 false; mkTok 44 "// trailing space " 15 4 true; mkTok 42 "u" 16 0 false; mkTok 43 "`{ , }`" 17 0 false; mkTok 40 "," 18 0 false; mkTok 42 "_x" 18 2 false; mkTok 40 "," 18 5 false; mkTok 12 "char[" 18 7 false; mkTok 30 "7" 19 4 false; mkTok 13 "]" 19 6 false; mkTok 42 "crc" 19 8 false; mkTok 7 "@lengthOf(" 19 12 false; mkTok 42 "i64_" 19 22 false; mkTok 6 ")" 19 26 false; mkTok 40 "," 19 29 false; mkTok 3 "}" 20 4 false; mkTok 44 "// a // b" 21 0 true; mkTok 44 "// c" 22 0 true; mkTok 40 "," 23 0 false; mkTok 44 "// `tick` ""quote"" 'q'" 23 2 true; mkTok 42 "float" 24 0 false; mkTok 7 "@lengthOf(" 25 0 false; mkTok 42 "roots" 26 0 false; mkTok 6 ")" 26 6 false; mkTok 43 "`it's`" 26 8 false; mkTok 40 "," 26 16 false; mkTok 3 "}" 26 18 false; mkTok 35 "packet" 26 20 false; mkTok 42 "stringy" 26 27 false; mkTok 2 "{" 26 35 false; mkTok 32 "@rightPad" 26 37 false; mkTok 8 "(" 26 46 false; mkTok 33 "'\x00'" 26 48 false; mkTok 44 "//" 26 55 true; mkTok 6 ")" 27 0 false; mkTok 32 "@rightPad" 27 2 false; mkTok 8 "(" 27 12 false; mkTok 44 "//" 27 14 true; mkTok 33 "'0'" 28 0 false; mkTok 6 ")" 28 4 false; mkTok 44 (string_of_bytes [47; 47; 32; 230; 179; 168; 233; 135; 138]%N) 29 0 true; mkTok 44 "// packet A { u8 x, }" 30 0 true; mkTok 5 "@calculatedFrom(" 31 0 false; mkTok 31 (string_of_bytes [34; 230; 182; 136; 230; 129; 175; 34]%N) 31 17 false; mkTok 6 ")" 31 22 false; mkTok 15 "string" 31 24 false; mkTok 42 "a1" 31 31 false; mkTok 40 "," 31 34 false; mkTok 28 "f32" 32 4 false; mkTok 42 "uint8x" 33 0 false; mkTok 44 "// packet A { u8 x, }" 33 7 true; mkTok 7 "@lengthOf(" 34 0 false; mkTok 42 "charz" 34 11 false; mkTok 44 "// c" 35 0 true; mkTok 44 (string_of_bytes [47; 47; 32; 240; 159; 152; 128; 32; 101; 109; 111; 106; 105]%N) 36 0 true; mkTok 6 ")" 37 0 false; mkTok 43 "`two words`" 37 2 false; mkTok 40 "," 38 0 false; mkTok 26 "int32" 39 0 false; mkTok 42 "x_y_z" 40 0 false; mkTok 7 "@lengthOf(" 40 6 false; mkTok 42 "string_" 40 17 false; mkTok 6 ")" 40 26 false; mkTok 44 (string_of_bytes [47; 47; 9; 116]%N) 40 28 true; mkTok 40 "," 41 0 false; mkTok 3 "}" 42 0 false; mkTok 0 "<EOF>" 43 0 false] (mkPacket (mkPtok 1 "options" 1 0 0) (Some (mkPtok 3 "}" 42 0 100)) [(DOption (mkOptionDef (mkSpan (mkPtok 1 "options" 1 0 0) (mkPtok 3 "}" 4 8 6)) (mkPtok 1 "options" 1 0 0) (mkPtok 2 "{" 1 7 1) [(mkOptionDecl (mkSpan (mkPtok 42 "T" 2 0 2) (mkPtok 41 ";" 4 6 5)) (mkPtok 42 "T" 2 0 2) (mkPtok 4 "=" 3 4 3) (VString (mkSpan (mkPtok 31 """x y""" 4 0 4) (mkPtok 31 """x y""" 4 0 4)) (mkPtok 31 """x y""" 4 0 4)) (Some (mkPtok 41 ";" 4 6 5)))] (mkPtok 3 "}" 4 8 6))); (DPacket (mkPacketDef (mkSpan (mkPtok 35 "packet" 4 10 7) (mkPtok 3 "}" 26 18 61)) None (mkPtok 35 "packet" 4 10 7) (mkPtok 42 "Z9_" 4 17 8) (mkPtok 2 "{" 4 21 9) [(mkFieldWithAttr (mkSpan (mkPtok 32 "@leftPad" 4 23 10) (mkPtok 40 "," 9 6 19)) [(FAPadding (mkSpan (mkPtok 32 "@leftPad" 4 23 10) (mkPtok 6 ")" 5 9 13)) (mkPaddingAttr (mkSpan (mkPtok 32 "@leftPad" 4 23 10) (mkPtok 6 ")" 5 9 13)) (mkPtok 32 "@leftPad" 4 23 10) (mkPtok 8 "(" 5 4 11) (Some (mkPtok 33 "'0'" 5 5 12)) (mkPtok 6 ")" 5 9 13)))] (CheckSumField (mkSpan (mkPtok 25 "int16" 6 0 14) (mkPtok 40 "," 9 6 19)) (mkChecksumFieldDecl (mkSpan (mkPtok 25 "int16" 6 0 14) (mkPtok 40 "," 9 6 19)) (Some (TyBasic (mkSpan (mkPtok 25 "int16" 6 0 14) (mkPtok 25 "int16" 6 0 14)) (mkBasicType (mkSpan (mkPtok 25 "int16" 6 0 14) (mkPtok 25 "int16" 6 0 14)) (mkPtok 25 "int16" 6 0 14)))) (mkPtok 42 "Header" 7 0 15) (mkCalculatedFrom (mkSpan (mkPtok 5 "@calculatedFrom(" 7 7 16) (mkPtok 6 ")" 9 4 18)) (mkPtok 5 "@calculatedFrom(" 7 7 16) (mkPtok 31 """1""" 8 0 17) (mkPtok 6 ")" 9 4 18)) None (mkPtok 40 "," 9 6 19)))); (mkFieldWithAttr (mkSpan (mkPtok 42 "options1" 9 8 20) (mkPtok 40 "," 12 0 25)) [] (LengthField (mkSpan (mkPtok 42 "options1" 9 8 20) (mkPtok 40 "," 12 0 25)) (mkLengthFieldDecl (mkSpan (mkPtok 42 "options1" 9 8 20) (mkPtok 40 "," 12 0 25)) None (mkPtok 42 "options1" 9 8 20) (mkLengthOf (mkSpan (mkPtok 7 "@lengthOf(" 9 17 21) (mkPtok 6 ")" 10 8 23)) (mkPtok 7 "@lengthOf(" 9 17 21) (mkPtok 42 "u8x" 10 4 22) (mkPtok 6 ")" 10 8 23)) (Some (mkPtok 43 "`// not a comment`" 11 0 24)) (mkPtok 40 "," 12 0 25)))); (mkFieldWithAttr (mkSpan (mkPtok 5 "@calculatedFrom(" 13 4 26) (mkPtok 40 "," 23 0 53)) [(FACalculatedFrom (mkSpan (mkPtok 5 "@calculatedFrom(" 13 4 26) (mkPtok 6 ")" 13 36 28)) (mkCalculatedFrom (mkSpan (mkPtok 5 "@calculatedFrom(" 13 4 26) (mkPtok 6 ")" 13 36 28)) (mkPtok 5 "@calculatedFrom(" 13 4 26) (mkPtok 31 """// no comment""" 13 20 27) (mkPtok 6 ")" 13 36 28))); (FALengthOf (mkSpan (mkPtok 7 "@lengthOf(" 13 38 29) (mkPtok 6 ")" 14 0 32)) (mkLengthOf (mkSpan (mkPtok 7 "@lengthOf(" 13 38 29) (mkPtok 6 ")" 14 0 32)) (mkPtok 7 "@lengthOf(" 13 38 29) (mkPtok 42 "pack" 13 48 30) (mkPtok 6 ")" 14 0 32)))] (InerObjectField (mkSpan (mkPtok 42 "Header" 14 2 33) (mkPtok 40 "," 23 0 53)) None (InerObjectDecl (mkSpan (mkPtok 42 "Header" 14 2 33) (mkPtok 3 "}" 20 4 50)) (mkPtok 42 "Header" 14 2 33) (mkPtok 2 "{" 14 9 34) [(MetaField (mkSpan (mkPtok 26 "i32" 15 0 35) (mkPtok 40 "," 18 0 39)) None (mkMetaDecl (mkSpan (mkPtok 26 "i32" 15 0 35) (mkPtok 40 "," 18 0 39)) (TyBasic (mkSpan (mkPtok 26 "i32" 15 0 35) (mkPtok 26 "i32" 15 0 35)) (mkBasicType (mkSpan (mkPtok 26 "i32" 15 0 35) (mkPtok 26 "i32" 15 0 35)) (mkPtok 26 "i32" 15 0 35))) (mkPtok 42 "u" 16 0 37) (Some (mkPtok 43 "`{ , }`" 17 0 38)) (mkPtok 40 "," 18 0 39))); (ObjectField (mkSpan (mkPtok 42 "_x" 18 2 40) (mkPtok 40 "," 18 5 41)) None (mkPtok 42 "_x" 18 2 40) None None (mkPtok 40 "," 18 5 41)); (LengthField (mkSpan (mkPtok 12 "char[" 18 7 42) (mkPtok 40 "," 19 29 49)) (mkLengthFieldDecl (mkSpan (mkPtok 12 "char[" 18 7 42) (mkPtok 40 "," 19 29 49)) (Some (TyFixed (mkSpan (mkPtok 12 "char[" 18 7 42) (mkPtok 13 "]" 19 6 44)) (mkFixedString (mkSpan (mkPtok 12 "char[" 18 7 42) (mkPtok 13 "]" 19 6 44)) (mkPtok 12 "char[" 18 7 42) (mkPtok 30 "7" 19 4 43) (mkPtok 13 "]" 19 6 44)))) (mkPtok 42 "crc" 19 8 45) (mkLengthOf (mkSpan (mkPtok 7 "@lengthOf(" 19 12 46) (mkPtok 6 ")" 19 26 48)) (mkPtok 7 "@lengthOf(" 19 12 46) (mkPtok 42 "i64_" 19 22 47) (mkPtok 6 ")" 19 26 48)) None (mkPtok 40 "," 19 29 49)))] (mkPtok 3 "}" 20 4 50)) (mkPtok 40 "," 23 0 53))); (mkFieldWithAttr (mkSpan (mkPtok 42 "float" 24 0 55) (mkPtok 40 "," 26 16 60)) [] (LengthField (mkSpan (mkPtok 42 "float" 24 0 55) (mkPtok 40 "," 26 16 60)) (mkLengthFieldDecl (mkSpan (mkPtok 42 "float" 24 0 55) (mkPtok 40 "," 26 16 60)) None (mkPtok 42 "float" 24 0 55) (mkLengthOf (mkSpan (mkPtok 7 "@lengthOf(" 25 0 56) (mkPtok 6 ")" 26 6 58)) (mkPtok 7 "@lengthOf(" 25 0 56) (mkPtok 42 "roots" 26 0 57) (mkPtok 6 ")" 26 6 58)) (Some (mkPtok 43 "`it's`" 26 8 59)) (mkPtok 40 "," 26 16 60))))] (mkPtok 3 "}" 26 18 61))); (DPacket (mkPacketDef (mkSpan (mkPtok 35 "packet" 26 20 62) (mkPtok 3 "}" 42 0 100)) None (mkPtok 35 "packet" 26 20 62) (mkPtok 42 "stringy" 26 27 63) (mkPtok 2 "{" 26 35 64) [(mkFieldWithAttr (mkSpan (mkPtok 32 "@rightPad" 26 37 65) (mkPtok 40 "," 31 34 82)) [(FAPadding (mkSpan (mkPtok 32 "@rightPad" 26 37 65) (mkPtok 6 ")" 27 0 69)) (mkPaddingAttr (mkSpan (mkPtok 32 "@rightPad" 26 37 65) (mkPtok 6 ")" 27 0 69)) (mkPtok 32 "@rightPad" 26 37 65) (mkPtok 8 "(" 26 46 66) (Some (mkPtok 33 "'\x00'" 26 48 67)) (mkPtok 6 ")" 27 0 69))); (FAPadding (mkSpan (mkPtok 32 "@rightPad" 27 2 70) (mkPtok 6 ")" 28 4 74)) (mkPaddingAttr (mkSpan (mkPtok 32 "@rightPad" 27 2 70) (mkPtok 6 ")" 28 4 74)) (mkPtok 32 "@rightPad" 27 2 70) (mkPtok 8 "(" 27 12 71) (Some (mkPtok 33 "'0'" 28 0 73)) (mkPtok 6 ")" 28 4 74))); (FACalculatedFrom (mkSpan (mkPtok 5 "@calculatedFrom(" 31 0 77) (mkPtok 6 ")" 31 22 79)) (mkCalculatedFrom (mkSpan (mkPtok 5 "@calculatedFrom(" 31 0 77) (mkPtok 6 ")" 31 22 79)) (mkPtok 5 "@calculatedFrom(" 31 0 77) (mkPtok 31 (string_of_bytes [34; 230; 182; 136; 230; 129; 175; 34]%N) 31 17 78) (mkPtok 6 ")" 31 22 79)))] (MetaField (mkSpan (mkPtok 15 "string" 31 24 80) (mkPtok 40 "," 31 34 82)) None (mkMetaDecl (mkSpan (mkPtok 15 "string" 31 24 80) (mkPtok 40 "," 31 34 82)) (TyDynamic (mkSpan (mkPtok 15 "string" 31 24 80) (mkPtok 15 "string" 31 24 80)) (mkDynamicString (mkSpan (mkPtok 15 "string" 31 24 80) (mkPtok 15 "string" 31 24 80)) (mkPtok 15 "string" 31 24 80))) (mkPtok 42 "a1" 31 31 81) None (mkPtok 40 "," 31 34 82)))); (mkFieldWithAttr (mkSpan (mkPtok 28 "f32" 32 4 83) (mkPtok 40 "," 38 0 92)) [] (LengthField (mkSpan (mkPtok 28 "f32" 32 4 83) (mkPtok 40 "," 38 0 92)) (mkLengthFieldDecl (mkSpan (mkPtok 28 "f32" 32 4 83) (mkPtok 40 "," 38 0 92)) (Some (TyBasic (mkSpan (mkPtok 28 "f32" 32 4 83) (mkPtok 28 "f32" 32 4 83)) (mkBasicType (mkSpan (mkPtok 28 "f32" 32 4 83) (mkPtok 28 "f32" 32 4 83)) (mkPtok 28 "f32" 32 4 83)))) (mkPtok 42 "uint8x" 33 0 84) (mkLengthOf (mkSpan (mkPtok 7 "@lengthOf(" 34 0 86) (mkPtok 6 ")" 37 0 90)) (mkPtok 7 "@lengthOf(" 34 0 86) (mkPtok 42 "charz" 34 11 87) (mkPtok 6 ")" 37 0 90)) (Some (mkPtok 43 "`two words`" 37 2 91)) (mkPtok 40 "," 38 0 92)))); (mkFieldWithAttr (mkSpan (mkPtok 26 "int32" 39 0 93) (mkPtok 40 "," 41 0 99)) [] (LengthField (mkSpan (mkPtok 26 "int32" 39 0 93) (mkPtok 40 "," 41 0 99)) (mkLengthFieldDecl (mkSpan (mkPtok 26 "int32" 39 0 93) (mkPtok 40 "," 41 0 99)) (Some (TyBasic (mkSpan (mkPtok 26 "int32" 39 0 93) (mkPtok 26 "int32" 39 0 93)) (mkBasicType (mkSpan (mkPtok 26 "int32" 39 0 93) (mkPtok 26 "int32" 39 0 93)) (mkPtok 26 "int32" 39 0 93)))) (mkPtok 42 "x_y_z" 40 0 94) (mkLengthOf (mkSpan (mkPtok 7 "@lengthOf(" 40 6 95) (mkPtok 6 ")" 40 26 97)) (mkPtok 7 "@lengthOf(" 40 6 95) (mkPtok 42 "string_" 40 17 96) (mkPtok 6 ")" 40 26 97)) None (mkPtok 40 "," 41 0 99))))] (mkPtok 3 "}" 42 0 100)))])).
Eval vm_compute in ("<<<M107>>>" ++ check (runes_of_ascii "MetaData
    asx
{ }
    options{
body =
//x
// @lengthOf(
char[] ;// @lengthOf(
repeatCount =true ;
    packetx= ""a\""b""; float
=
""x y"" ; zchar
    // @lengthOf(
    = ""\" ++ [233]%N ++ runes_of_ascii """ ; } MetaData _x{
u16 falsey  `` , } root packet
    metadata {  }	packet Foo { repeat
    // trailing space 
    u128
    , @tag(// trailing space 
7
) uint16
MetaDataX
    , @tag(1 )
    /// triple
    falsey `say ""hi""` , @rightPad ( //	t
) @tag(3 ) u , @lengthOf( roots// " ++ [128512]%N ++ runes_of_ascii " emoji
) match body as repeatCount
{ ""CRC32"" // " ++ [27880; 37322]%N ++ runes_of_ascii "
: asx  , 42	:  msg_type
} ,// packet A { u8 x, }
stringy {repeat char[
    // c
    3
] uint8x ,	match
Logon
as	A{ ""abc"" :i8i8 , }  ,match BodyLength as len
    { [0123456789 ,
//
// @lengthOf(
007
    ,4294967296,""{,}""
]:// " ++ [128512]%N ++ runes_of_ascii " emoji
Foo , } //	t
, } , @leftPad ( '0'  ) uint8x
@lengthOf(i8i8) ,//	t
_x
    {repeat x  `line1
line2` , }, @tag( 42 )
falsey
    // trailing space 
    u128 // trailing space 
, int64 MetaDataX ,}
")).
Eval vm_compute in ("<<<M117>>>" ++ check (runes_of_ascii "root packet Pad {@tag(  3
)
    @calculatedFrom(
""a\""b""
    )repeat zchar[
    // " ++ [128512]%N ++ runes_of_ascii " emoji
    00 ] repeatCount , }")).
Eval vm_compute in ("<<<M127>>>" ++ check (runes_of_ascii "root
packet Header
    // packet A { u8 x, }
    { // " ++ [27880; 37322]%N ++ runes_of_ascii "
@lengthOf(
rootA // a // b
) int8 Foo//
@lengthOf(	uint8x)`tab	here`
,}
")).
Eval vm_compute in ("<<<M137>>>" ++ check (runes_of_ascii "root packet options1
{ @lengthOf(	msg_type ) Logon @lengthOf( packetx )`
` , As  {
repeat	T
`
`
    ,float64 Foo	`crlf
line`
//x
// a // b
,repeat repeatCount x_y_z`a\` ,	int8 msg_type
,
    } , // `tick` ""quote"" 'q'
msg_type @lengthOf( body ) , u64 rootA @calculatedFrom(
""" ++ [128512]%N ++ runes_of_ascii """
    ) ,@calculatedFrom(""packet""	) i32
    Header ,	uint32 BodyLength @lengthOf(
trueish //x
)
, @lengthOf(
f32a ) f32
    Z9_ `{ , }`, } // a // b")).
Eval vm_compute in ("<<<M147>>>" ++ check (runes_of_ascii "MetaData
    /// triple
    falsey { uint16 Z9_ ,
}")).
Eval vm_compute in ("<<<M157>>>" ++ check (runes_of_ascii "packet i8i8 //x
{int16 // trailing space 
stringy // " ++ [128512]%N ++ runes_of_ascii " emoji
@calculatedFrom(
""// no comment"" ),
} packet
_x {
    }
")).
Eval vm_compute in ("<<<M167>>>" ++ check (runes_of_ascii "packet Packet { zchar[ /// triple
00] u
@lengthOf(tag
    ),	repeat // " ++ [128512]%N ++ runes_of_ascii " emoji
string u8x `u8 x,`
    , packetx { repeat uint8 leftPad `doc` ,
}	,// " ++ [27880; 37322]%N ++ runes_of_ascii "
@tag(	0123456789
)char[] chars@lengthOf(rootA
// trailing space 
// c
) `{ , }` , uint8 Packet ,
repeat a1 `two words`
//
//
,@calculatedFrom(
    //	t
    ""it's"") string_ {u16 A
// packet A { u8 x, }
// a // b
`crlf
line` , repeat
string // " ++ [27880; 37322]%N ++ runes_of_ascii "
uint8x
    , string u128 ,
    } , }	packet MetaDataX{
    //x
    @tag( 0123456789 ) char[ // packet A { u8 x, }
3
    ] Packet , } MetaData
    repeatCount {  } root packet  u8x
    // `tick` ""quote"" 'q'
    { x_y_z// " ++ [27880; 37322]%N ++ runes_of_ascii "
@lengthOf(
    // a // b
    o ) `two words` , // " ++ [27880; 37322]%N ++ runes_of_ascii "
repeat zchar[ 0123456789
] len `" ++ [233]%N ++ runes_of_ascii "` , }
//
")).
Eval vm_compute in ("<<<T167>>>" ++ terms [mkTok 35 "packet" 1 0 false; mkTok 42 "Packet" 1 7 false; mkTok 2 "{" 1 14 false; mkTok 14 "zchar[" 1 16 false; mkTok 44 "/// triple" 1 23 true; mkTok 30 "00" 2 0 false; mkTok 13 "]" 2 2 false; mkTok 42 "u" 2 4 false; mkTok 7 "@lengthOf(" 3 0 false; mkTok 42 "tag" 3 10 false; mkTok 6 ")" 4 4 false; mkTok 40 "," 4 5 false; mkTok 36 "repeat" 4 7 false; mkTok 44 (string_of_bytes [47; 47; 32; 240; 159; 152; 128; 32; 101; 109; 111; 106; 105]%N) 4 14 true; mkTok 15 "string" 5 0 false; mkTok 42 "u8x" 5 7 false; mkTok 43 "`u8 x,`" 5 11 false; mkTok 40 "," 6 4 false; mkTok 42 "packetx" 6 6 false; mkTok 2 "{" 6 14 false; mkTok 36 "repeat" 6 16 false; mkTok 20 "uint8" 6 23 false; mkTok 42 "leftPad" 6 29 false; mkTok 43 "`doc`" 6 37 false; mkTok 40 "," 6 43 false; mkTok 3 "}" 7 0 false; mkTok 40 "," 7 2 false; mkTok 44 (string_of_bytes [47; 47; 32; 230; 179; 168; 233; 135; 138]%N) 7 3 true; mkTok 9 "@tag(" 8 0 false; mkTok 30 "0123456789" 8 6 false; mkTok 6 ")" 9 0 false; mkTok 16 "char[]" 9 1 false; mkTok 42 "chars" 9 8 false; mkTok 7 "@lengthOf(" 9 13 false; mkTok 42 "rootA" 9 23 false; mkTok 44 "// trailing space " 10 0 true; mkTok 44 "// c" 11 0 true; mkTok 6 ")" 12 0 false; mkTok 43 "`{ , }`" 12 2 false; mkTok 40 "," 12 10 false; mkTok 20 "uint8" 12 12 false; mkTok 42 "Packet" 12 18 false; mkTok 40 "," 12 25 false; mkTok 36 "repeat" 13 0 false; mkTok 42 "a1" 13 7 false; mkTok 43 "`two words`" 13 10 false; mkTok 44 "//" 14 0 true; mkTok 44 "//" 15 0 true; mkTok 40 "," 16 0 false; mkTok 5 "@calculatedFrom(" 16 1 false; mkTok 44 (string_of_bytes [47; 47; 9; 116]%N) 17 4 true; mkTok 31 """it's""" 18 4 false; mkTok 6 ")" 18 10 false; mkTok 42 "string_" 18 12 false; mkTok 2 "{" 18 20 false; mkTok 21 "u16" 18 21 false; mkTok 42 "A" 18 25 false; mkTok 44 "// packet A { u8 x, }" 19 0 true; mkTok 44 "// a // b" 20 0 true; mkTok 43 (string_of_bytes [96; 99; 114; 108; 102; 13; 10; 108; 105; 110; 101; 96]%N) 21 0 false; mkTok 40 "," 22 6 false; mkTok 36 "repeat" 22 8 false; mkTok 15 "string" 23 0 false; mkTok 44 (string_of_bytes [47; 47; 32; 230; 179; 168; 233; 135; 138]%N) 23 7 true; mkTok 42 "uint8x" 24 0 false; mkTok 40 "," 25 4 false; mkTok 15 "string" 25 6 false; mkTok 42 "u128" 25 13 false; mkTok 40 "," 25 18 false; mkTok 3 "}" 26 4 false; mkTok 40 "," 26 6 false; mkTok 3 "}" 26 8 false; mkTok 35 "packet" 26 10 false; mkTok 42 "MetaDataX" 26 17 false; mkTok 2 "{" 26 26 false; mkTok 44 "//x" 27 4 true; mkTok 9 "@tag(" 28 4 false; mkTok 30 "0123456789" 28 10 false; mkTok 6 ")" 28 21 false; mkTok 12 "char[" 28 23 false; mkTok 44 "// packet A { u8 x, }" 28 29 true; mkTok 30 "3" 29 0 false; mkTok 13 "]" 30 4 false; mkTok 42 "Packet" 30 6 false; mkTok 40 "," 30 13 false; mkTok 3 "}" 30 15 false; mkTok 37 "MetaData" 30 17 false; mkTok 42 "repeatCount" 31 4 false; mkTok 2 "{" 31 16 false; mkTok 3 "}" 31 19 false; mkTok 34 "root" 31 21 false; mkTok 35 "packet" 31 26 false; mkTok 42 "u8x" 31 34 false; mkTok 44 "// `tick` ""quote"" 'q'" 32 4 true; mkTok 2 "{" 33 4 false; mkTok 42 "x_y_z" 33 6 false; mkTok 44 (string_of_bytes [47; 47; 32; 230; 179; 168; 233; 135; 138]%N) 33 11 true; mkTok 7 "@lengthOf(" 34 0 false; mkTok 44 "// a // b" 35 4 true; mkTok 42 "o" 36 4 false; mkTok 6 ")" 36 6 false; mkTok 43 "`two words`" 36 8 false; mkTok 40 "," 36 20 false; mkTok 44 (string_of_bytes [47; 47; 32; 230; 179; 168; 233; 135; 138]%N) 36 22 true; mkTok 36 "repeat" 37 0 false; mkTok 14 "zchar[" 37 7 false; mkTok 30 "0123456789" 37 14 false; mkTok 13 "]" 38 0 false; mkTok 42 "len" 38 2 false; mkTok 43 (string_of_bytes [96; 195; 169; 96]%N) 38 6 false; mkTok 40 "," 38 10 false; mkTok 3 "}" 38 12 false; mkTok 44 "//" 39 0 true; mkTok 0 "<EOF>" 40 0 false] (mkPacket (mkPtok 35 "packet" 1 0 0) (Some (mkPtok 3 "}" 38 12 111)) [(DPacket (mkPacketDef (mkSpan (mkPtok 35 "packet" 1 0 0) (mkPtok 3 "}" 26 8 71)) None (mkPtok 35 "packet" 1 0 0) (mkPtok 42 "Packet" 1 7 1) (mkPtok 2 "{" 1 14 2) [(mkFieldWithAttr (mkSpan (mkPtok 14 "zchar[" 1 16 3) (mkPtok 40 "," 4 5 11)) [] (LengthField (mkSpan (mkPtok 14 "zchar[" 1 16 3) (mkPtok 40 "," 4 5 11)) (mkLengthFieldDecl (mkSpan (mkPtok 14 "zchar[" 1 16 3) (mkPtok 40 "," 4 5 11)) (Some (TyFixed (mkSpan (mkPtok 14 "zchar[" 1 16 3) (mkPtok 13 "]" 2 2 6)) (mkFixedString (mkSpan (mkPtok 14 "zchar[" 1 16 3) (mkPtok 13 "]" 2 2 6)) (mkPtok 14 "zchar[" 1 16 3) (mkPtok 30 "00" 2 0 5) (mkPtok 13 "]" 2 2 6)))) (mkPtok 42 "u" 2 4 7) (mkLengthOf (mkSpan (mkPtok 7 "@lengthOf(" 3 0 8) (mkPtok 6 ")" 4 4 10)) (mkPtok 7 "@lengthOf(" 3 0 8) (mkPtok 42 "tag" 3 10 9) (mkPtok 6 ")" 4 4 10)) None (mkPtok 40 "," 4 5 11)))); (mkFieldWithAttr (mkSpan (mkPtok 36 "repeat" 4 7 12) (mkPtok 40 "," 6 4 17)) [] (MetaField (mkSpan (mkPtok 36 "repeat" 4 7 12) (mkPtok 40 "," 6 4 17)) (Some (mkPtok 36 "repeat" 4 7 12)) (mkMetaDecl (mkSpan (mkPtok 15 "string" 5 0 14) (mkPtok 40 "," 6 4 17)) (TyDynamic (mkSpan (mkPtok 15 "string" 5 0 14) (mkPtok 15 "string" 5 0 14)) (mkDynamicString (mkSpan (mkPtok 15 "string" 5 0 14) (mkPtok 15 "string" 5 0 14)) (mkPtok 15 "string" 5 0 14))) (mkPtok 42 "u8x" 5 7 15) (Some (mkPtok 43 "`u8 x,`" 5 11 16)) (mkPtok 40 "," 6 4 17)))); (mkFieldWithAttr (mkSpan (mkPtok 42 "packetx" 6 6 18) (mkPtok 40 "," 7 2 26)) [] (InerObjectField (mkSpan (mkPtok 42 "packetx" 6 6 18) (mkPtok 40 "," 7 2 26)) None (InerObjectDecl (mkSpan (mkPtok 42 "packetx" 6 6 18) (mkPtok 3 "}" 7 0 25)) (mkPtok 42 "packetx" 6 6 18) (mkPtok 2 "{" 6 14 19) [(MetaField (mkSpan (mkPtok 36 "repeat" 6 16 20) (mkPtok 40 "," 6 43 24)) (Some (mkPtok 36 "repeat" 6 16 20)) (mkMetaDecl (mkSpan (mkPtok 20 "uint8" 6 23 21) (mkPtok 40 "," 6 43 24)) (TyBasic (mkSpan (mkPtok 20 "uint8" 6 23 21) (mkPtok 20 "uint8" 6 23 21)) (mkBasicType (mkSpan (mkPtok 20 "uint8" 6 23 21) (mkPtok 20 "uint8" 6 23 21)) (mkPtok 20 "uint8" 6 23 21))) (mkPtok 42 "leftPad" 6 29 22) (Some (mkPtok 43 "`doc`" 6 37 23)) (mkPtok 40 "," 6 43 24)))] (mkPtok 3 "}" 7 0 25)) (mkPtok 40 "," 7 2 26))); (mkFieldWithAttr (mkSpan (mkPtok 9 "@tag(" 8 0 28) (mkPtok 40 "," 12 10 39)) [(FATag (mkSpan (mkPtok 9 "@tag(" 8 0 28) (mkPtok 6 ")" 9 0 30)) (mkTagAttr (mkSpan (mkPtok 9 "@tag(" 8 0 28) (mkPtok 6 ")" 9 0 30)) (mkPtok 9 "@tag(" 8 0 28) (mkPtok 30 "0123456789" 8 6 29) (mkPtok 6 ")" 9 0 30)))] (LengthField (mkSpan (mkPtok 16 "char[]" 9 1 31) (mkPtok 40 "," 12 10 39)) (mkLengthFieldDecl (mkSpan (mkPtok 16 "char[]" 9 1 31) (mkPtok 40 "," 12 10 39)) (Some (TyDynamic (mkSpan (mkPtok 16 "char[]" 9 1 31) (mkPtok 16 "char[]" 9 1 31)) (mkDynamicString (mkSpan (mkPtok 16 "char[]" 9 1 31) (mkPtok 16 "char[]" 9 1 31)) (mkPtok 16 "char[]" 9 1 31)))) (mkPtok 42 "chars" 9 8 32) (mkLengthOf (mkSpan (mkPtok 7 "@lengthOf(" 9 13 33) (mkPtok 6 ")" 12 0 37)) (mkPtok 7 "@lengthOf(" 9 13 33) (mkPtok 42 "rootA" 9 23 34) (mkPtok 6 ")" 12 0 37)) (Some (mkPtok 43 "`{ , }`" 12 2 38)) (mkPtok 40 "," 12 10 39)))); (mkFieldWithAttr (mkSpan (mkPtok 20 "uint8" 12 12 40) (mkPtok 40 "," 12 25 42)) [] (MetaField (mkSpan (mkPtok 20 "uint8" 12 12 40) (mkPtok 40 "," 12 25 42)) None (mkMetaDecl (mkSpan (mkPtok 20 "uint8" 12 12 40) (mkPtok 40 "," 12 25 42)) (TyBasic (mkSpan (mkPtok 20 "uint8" 12 12 40) (mkPtok 20 "uint8" 12 12 40)) (mkBasicType (mkSpan (mkPtok 20 "uint8" 12 12 40) (mkPtok 20 "uint8" 12 12 40)) (mkPtok 20 "uint8" 12 12 40))) (mkPtok 42 "Packet" 12 18 41) None (mkPtok 40 "," 12 25 42)))); (mkFieldWithAttr (mkSpan (mkPtok 36 "repeat" 13 0 43) (mkPtok 40 "," 16 0 48)) [] (ObjectField (mkSpan (mkPtok 36 "repeat" 13 0 43) (mkPtok 40 "," 16 0 48)) (Some (mkPtok 36 "repeat" 13 0 43)) (mkPtok 42 "a1" 13 7 44) None (Some (mkPtok 43 "`two words`" 13 10 45)) (mkPtok 40 "," 16 0 48))); (mkFieldWithAttr (mkSpan (mkPtok 5 "@calculatedFrom(" 16 1 49) (mkPtok 40 "," 26 6 70)) [(FACalculatedFrom (mkSpan (mkPtok 5 "@calculatedFrom(" 16 1 49) (mkPtok 6 ")" 18 10 52)) (mkCalculatedFrom (mkSpan (mkPtok 5 "@calculatedFrom(" 16 1 49) (mkPtok 6 ")" 18 10 52)) (mkPtok 5 "@calculatedFrom(" 16 1 49) (mkPtok 31 """it's""" 18 4 51) (mkPtok 6 ")" 18 10 52)))] (InerObjectField (mkSpan (mkPtok 42 "string_" 18 12 53) (mkPtok 40 "," 26 6 70)) None (InerObjectDecl (mkSpan (mkPtok 42 "string_" 18 12 53) (mkPtok 3 "}" 26 4 69)) (mkPtok 42 "string_" 18 12 53) (mkPtok 2 "{" 18 20 54) [(MetaField (mkSpan (mkPtok 21 "u16" 18 21 55) (mkPtok 40 "," 22 6 60)) None (mkMetaDecl (mkSpan (mkPtok 21 "u16" 18 21 55) (mkPtok 40 "," 22 6 60)) (TyBasic (mkSpan (mkPtok 21 "u16" 18 21 55) (mkPtok 21 "u16" 18 21 55)) (mkBasicType (mkSpan (mkPtok 21 "u16" 18 21 55) (mkPtok 21 "u16" 18 21 55)) (mkPtok 21 "u16" 18 21 55))) (mkPtok 42 "A" 18 25 56) (Some (mkPtok 43 (string_of_bytes [96; 99; 114; 108; 102; 13; 10; 108; 105; 110; 101; 96]%N) 21 0 59)) (mkPtok 40 "," 22 6 60))); (MetaField (mkSpan (mkPtok 36 "repeat" 22 8 61) (mkPtok 40 "," 25 4 65)) (Some (mkPtok 36 "repeat" 22 8 61)) (mkMetaDecl (mkSpan (mkPtok 15 "string" 23 0 62) (mkPtok 40 "," 25 4 65)) (TyDynamic (mkSpan (mkPtok 15 "string" 23 0 62) (mkPtok 15 "string" 23 0 62)) (mkDynamicString (mkSpan (mkPtok 15 "string" 23 0 62) (mkPtok 15 "string" 23 0 62)) (mkPtok 15 "string" 23 0 62))) (mkPtok 42 "uint8x" 24 0 64) None (mkPtok 40 "," 25 4 65))); (MetaField (mkSpan (mkPtok 15 "string" 25 6 66) (mkPtok 40 "," 25 18 68)) None (mkMetaDecl (mkSpan (mkPtok 15 "string" 25 6 66) (mkPtok 40 "," 25 18 68)) (TyDynamic (mkSpan (mkPtok 15 "string" 25 6 66) (mkPtok 15 "string" 25 6 66)) (mkDynamicString (mkSpan (mkPtok 15 "string" 25 6 66) (mkPtok 15 "string" 25 6 66)) (mkPtok 15 "string" 25 6 66))) (mkPtok 42 "u128" 25 13 67) None (mkPtok 40 "," 25 18 68)))] (mkPtok 3 "}" 26 4 69)) (mkPtok 40 "," 26 6 70)))] (mkPtok 3 "}" 26 8 71))); (DPacket (mkPacketDef (mkSpan (mkPtok 35 "packet" 26 10 72) (mkPtok 3 "}" 30 15 85)) None (mkPtok 35 "packet" 26 10 72) (mkPtok 42 "MetaDataX" 26 17 73) (mkPtok 2 "{" 26 26 74) [(mkFieldWithAttr (mkSpan (mkPtok 9 "@tag(" 28 4 76) (mkPtok 40 "," 30 13 84)) [(FATag (mkSpan (mkPtok 9 "@tag(" 28 4 76) (mkPtok 6 ")" 28 21 78)) (mkTagAttr (mkSpan (mkPtok 9 "@tag(" 28 4 76) (mkPtok 6 ")" 28 21 78)) (mkPtok 9 "@tag(" 28 4 76) (mkPtok 30 "0123456789" 28 10 77) (mkPtok 6 ")" 28 21 78)))] (MetaField (mkSpan (mkPtok 12 "char[" 28 23 79) (mkPtok 40 "," 30 13 84)) None (mkMetaDecl (mkSpan (mkPtok 12 "char[" 28 23 79) (mkPtok 40 "," 30 13 84)) (TyFixed (mkSpan (mkPtok 12 "char[" 28 23 79) (mkPtok 13 "]" 30 4 82)) (mkFixedString (mkSpan (mkPtok 12 "char[" 28 23 79) (mkPtok 13 "]" 30 4 82)) (mkPtok 12 "char[" 28 23 79) (mkPtok 30 "3" 29 0 81) (mkPtok 13 "]" 30 4 82))) (mkPtok 42 "Packet" 30 6 83) None (mkPtok 40 "," 30 13 84))))] (mkPtok 3 "}" 30 15 85))); (DMeta (mkMetaDef (mkSpan (mkPtok 37 "MetaData" 30 17 86) (mkPtok 3 "}" 31 19 89)) (mkPtok 37 "MetaData" 30 17 86) (mkPtok 42 "repeatCount" 31 4 87) (mkPtok 2 "{" 31 16 88) [] (mkPtok 3 "}" 31 19 89))); (DPacket (mkPacketDef (mkSpan (mkPtok 34 "root" 31 21 90) (mkPtok 3 "}" 38 12 111)) (Some (mkPtok 34 "root" 31 21 90)) (mkPtok 35 "packet" 31 26 91) (mkPtok 42 "u8x" 31 34 92) (mkPtok 2 "{" 33 4 94) [(mkFieldWithAttr (mkSpan (mkPtok 42 "x_y_z" 33 6 95) (mkPtok 40 "," 36 20 102)) [] (LengthField (mkSpan (mkPtok 42 "x_y_z" 33 6 95) (mkPtok 40 "," 36 20 102)) (mkLengthFieldDecl (mkSpan (mkPtok 42 "x_y_z" 33 6 95) (mkPtok 40 "," 36 20 102)) None (mkPtok 42 "x_y_z" 33 6 95) (mkLengthOf (mkSpan (mkPtok 7 "@lengthOf(" 34 0 97) (mkPtok 6 ")" 36 6 100)) (mkPtok 7 "@lengthOf(" 34 0 97) (mkPtok 42 "o" 36 4 99) (mkPtok 6 ")" 36 6 100)) (Some (mkPtok 43 "`two words`" 36 8 101)) (mkPtok 40 "," 36 20 102)))); (mkFieldWithAttr (mkSpan (mkPtok 36 "repeat" 37 0 104) (mkPtok 40 "," 38 10 110)) [] (MetaField (mkSpan (mkPtok 36 "repeat" 37 0 104) (mkPtok 40 "," 38 10 110)) (Some (mkPtok 36 "repeat" 37 0 104)) (mkMetaDecl (mkSpan (mkPtok 14 "zchar[" 37 7 105) (mkPtok 40 "," 38 10 110)) (TyFixed (mkSpan (mkPtok 14 "zchar[" 37 7 105) (mkPtok 13 "]" 38 0 107)) (mkFixedString (mkSpan (mkPtok 14 "zchar[" 37 7 105) (mkPtok 13 "]" 38 0 107)) (mkPtok 14 "zchar[" 37 7 105) (mkPtok 30 "0123456789" 37 14 106) (mkPtok 13 "]" 38 0 107))) (mkPtok 42 "len" 38 2 108) (Some (mkPtok 43 (string_of_bytes [96; 195; 169; 96]%N) 38 6 109)) (mkPtok 40 "," 38 10 110))))] (mkPtok 3 "}" 38 12 111)))])).
Eval vm_compute in ("<<<M177>>>" ++ check (runes_of_ascii "packet u128 {
@rightPad (
    ' '
    //x
    )// c
Packet , f64
//
// @lengthOf(
Pad `it's` , }packet i64_{ } packet trueish { @leftPad	( '\x00')leftPad
@calculatedFrom( // " ++ [27880; 37322]%N ++ runes_of_ascii "
""`tick`"" ) `u8 x,` , }
")).
Eval vm_compute in ("<<<M187>>>" ++ check (runes_of_ascii "MetaData
x_y_z
{
Logon
    repeatCount `say ""hi""`,  crc
    x_y_z
,
    char[	10 ] Foo  ,
}
")).
Eval vm_compute in ("<<<M197>>>" ++ check (runes_of_ascii "options {  Logon =
    ""{,}"" } //	t
MetaData leftPad { i8 zchar `// not a comment`, } MetaData len
    {char[] u128	,} // " ++ [27880; 37322]%N ++ runes_of_ascii "
root
    packet Pad
{
    }")).
Eval vm_compute in ("<<<M207>>>" ++ check (runes_of_ascii "// " ++ [128512]%N ++ runes_of_ascii " emoji
packet// @lengthOf(
int { match zchar
as _x {	[ 4294967296 ]
    :
x_y_z ,[
""a\""b"" // @lengthOf(
]  :chars ,
    [
    ""it's"" , ""\" ++ [233]%N ++ runes_of_ascii """ , ""packet""
    ,""{,}"" ] :
f32a
}, x { repeat asx{ zchar[  0123456789
]crc `crlf
line`, msg_type	i8i8`crlf
line` ,
    uint16
rootA @calculatedFrom( ""a\\"" )
    // @lengthOf(
    , Logon x_y_z
`" ++ [233]%N ++ runes_of_ascii "` , },
} , } packet
u{ match
    pack as trueish //x
{ ""1"" : len """ ++ [128512]%N ++ runes_of_ascii """ : leftPad ,4294967296 // @lengthOf(
:	metadata
, }
    ,int T  `line1
line2` ,f32 Logon
    , } options {
    }
")).
Eval vm_compute in ("<<<M217>>>" ++ check (runes_of_ascii "packet i64_ {
    @leftPad( ) @tag(	4294967296
) repeat	string Logon `{ , }`
    ,@lengthOf(
    float )u16
    //x
    matchKey @lengthOf(
body
) , repeat
    /// triple
    char[  4294967296 ]
tag , @lengthOf(asx )
repeat
    trueish , repeat
    lengthOf
len
,// packet A { u8 x, }
match asx
    as
    crc {
    [ // a // b
""" ++ [28040; 24687]%N ++ runes_of_ascii """
// trailing space 
// c
, ""abc"" ] :
roots
, },	match
    uint8x as
repeatCount
    { [
0123456789
    ]:
    /// triple
    Foo ,""a\""b""
    : Packet
    42  :
    stringy , [ // `tick` ""quote"" 'q'
0123456789 , 007
] : f32a , //x
42: x }
    // @lengthOf(
    ,
@lengthOf( msg_type )
uint8x , repeat metadata// " ++ [27880; 37322]%N ++ runes_of_ascii "
,} MetaData float { char[ 42
] Logon
`a\` , stringy packetx , int32 pack,rootA
x
    , Logon Foo , u16 A
//	t
//x
, } //x
packet
    //	t
    Header{  @calculatedFrom(
    ""1"" ) u
,@tag( 65535
// a // b
// trailing space 
)
pack { string trueish `" ++ [28040; 24687; 31867; 22411]%N ++ runes_of_ascii "`
    , match
stringy
    as tag
{  ""a\\"" : float
    // `tick` ""quote"" 'q'
    ,
    ""abc"" :Z9_ ,007 :	metadata, // c
[ 10 ] :matchKey // " ++ [27880; 37322]%N ++ runes_of_ascii "
, ""a	b"" : _x 7// " ++ [128512]%N ++ runes_of_ascii " emoji
:Pad } ,  repeat body
, f32 int , } ,  MetaDataX u128 `doc` , }
options {}
")).
Eval vm_compute in ("<<<M227>>>" ++ check (runes_of_ascii "
")).
Eval vm_compute in ("<<<M237>>>" ++ check (runes_of_ascii "MetaData float { }  options {
msg_type=""a	b""
    i8i8	= true stringy = ""CRC32""
    } options { len
= ""\" ++ [233]%N ++ runes_of_ascii """ }")).
Eval vm_compute in ("<<<T237>>>" ++ terms [mkTok 37 "MetaData" 1 0 false; mkTok 42 "float" 1 9 false; mkTok 2 "{" 1 15 false; mkTok 3 "}" 1 17 false; mkTok 1 "options" 1 20 false; mkTok 2 "{" 1 28 false; mkTok 42 "msg_type" 2 0 false; mkTok 4 "=" 2 8 false; mkTok 31 (string_of_bytes [34; 97; 9; 98; 34]%N) 2 9 false; mkTok 42 "i8i8" 3 4 false; mkTok 4 "=" 3 9 false; mkTok 10 "true" 3 11 false; mkTok 42 "stringy" 3 16 false; mkTok 4 "=" 3 24 false; mkTok 31 """CRC32""" 3 26 false; mkTok 3 "}" 4 4 false; mkTok 1 "options" 4 6 false; mkTok 2 "{" 4 14 false; mkTok 42 "len" 4 16 false; mkTok 4 "=" 5 0 false; mkTok 31 (string_of_bytes [34; 92; 195; 169; 34]%N) 5 2 false; mkTok 3 "}" 5 7 false; mkTok 0 "<EOF>" 5 8 false] (mkPacket (mkPtok 37 "MetaData" 1 0 0) (Some (mkPtok 3 "}" 5 7 21)) [(DMeta (mkMetaDef (mkSpan (mkPtok 37 "MetaData" 1 0 0) (mkPtok 3 "}" 1 17 3)) (mkPtok 37 "MetaData" 1 0 0) (mkPtok 42 "float" 1 9 1) (mkPtok 2 "{" 1 15 2) [] (mkPtok 3 "}" 1 17 3))); (DOption (mkOptionDef (mkSpan (mkPtok 1 "options" 1 20 4) (mkPtok 3 "}" 4 4 15)) (mkPtok 1 "options" 1 20 4) (mkPtok 2 "{" 1 28 5) [(mkOptionDecl (mkSpan (mkPtok 42 "msg_type" 2 0 6) (mkPtok 31 (string_of_bytes [34; 97; 9; 98; 34]%N) 2 9 8)) (mkPtok 42 "msg_type" 2 0 6) (mkPtok 4 "=" 2 8 7) (VString (mkSpan (mkPtok 31 (string_of_bytes [34; 97; 9; 98; 34]%N) 2 9 8) (mkPtok 31 (string_of_bytes [34; 97; 9; 98; 34]%N) 2 9 8)) (mkPtok 31 (string_of_bytes [34; 97; 9; 98; 34]%N) 2 9 8)) None); (mkOptionDecl (mkSpan (mkPtok 42 "i8i8" 3 4 9) (mkPtok 10 "true" 3 11 11)) (mkPtok 42 "i8i8" 3 4 9) (mkPtok 4 "=" 3 9 10) (VTrue (mkSpan (mkPtok 10 "true" 3 11 11) (mkPtok 10 "true" 3 11 11)) (mkPtok 10 "true" 3 11 11)) None); (mkOptionDecl (mkSpan (mkPtok 42 "stringy" 3 16 12) (mkPtok 31 """CRC32""" 3 26 14)) (mkPtok 42 "stringy" 3 16 12) (mkPtok 4 "=" 3 24 13) (VString (mkSpan (mkPtok 31 """CRC32""" 3 26 14) (mkPtok 31 """CRC32""" 3 26 14)) (mkPtok 31 """CRC32""" 3 26 14)) None)] (mkPtok 3 "}" 4 4 15))); (DOption (mkOptionDef (mkSpan (mkPtok 1 "options" 4 6 16) (mkPtok 3 "}" 5 7 21)) (mkPtok 1 "options" 4 6 16) (mkPtok 2 "{" 4 14 17) [(mkOptionDecl (mkSpan (mkPtok 42 "len" 4 16 18) (mkPtok 31 (string_of_bytes [34; 92; 195; 169; 34]%N) 5 2 20)) (mkPtok 42 "len" 4 16 18) (mkPtok 4 "=" 5 0 19) (VString (mkSpan (mkPtok 31 (string_of_bytes [34; 92; 195; 169; 34]%N) 5 2 20) (mkPtok 31 (string_of_bytes [34; 92; 195; 169; 34]%N) 5 2 20)) (mkPtok 31 (string_of_bytes [34; 92; 195; 169; 34]%N) 5 2 20)) None)] (mkPtok 3 "}" 5 7 21)))])).
Eval vm_compute in ("<<<M247>>>" ++ check (runes_of_ascii "packet
    string_ { match charz as  len {
7 : Pad
    // @lengthOf(
    } ,
    match //	t
i64_ as string_ { // @lengthOf(
007:float [0 ]:Packet
// `tick` ""quote"" 'q'
//
, 10 : leftPad
,
}
,
char[]
// trailing space 
// @lengthOf(
roots, char[ 3 ] Header `it's` ,
options1 @calculatedFrom( ""packet"" )`" ++ [233]%N ++ runes_of_ascii "`
,
BodyLength
// @lengthOf(
//x
, repeat char[	65535 // " ++ [27880; 37322]%N ++ runes_of_ascii "
]  body , char[ 42 ]
// a // b
// " ++ [128512]%N ++ runes_of_ascii " emoji
Packet// packet A { u8 x, }
`" ++ [233]%N ++ runes_of_ascii "`  , repeat/// triple
f64 float	`it's`, packetx
matchKey , }
")).
Eval vm_compute in ("<<<M257>>>" ++ check (runes_of_ascii "  options{
    // trailing space 
    A = ' '
    ; calculatedFrom
// c
// a // b
=
    ""a\""b""
;
msg_type  =	char[ 4294967296] ;
    //
    rootA
= '\x00' msg_type	= false }")).
Eval vm_compute in ("<<<M267>>>" ++ check (runes_of_ascii " 	 ")).
Eval vm_compute in ("<<<M277>>>" ++ check (runes_of_ascii "packet// " ++ [128512]%N ++ runes_of_ascii " emoji
BodyLength {@calculatedFrom( ""it's"" ) zchar[ 0123456789] Z9_ `it's` , } packet zchar{ @lengthOf(
rootA )@rightPad ( '0' )// " ++ [27880; 37322]%N ++ runes_of_ascii "
repeat
int64
stringy
,@lengthOf( lengthOf ) match Pad as o
// a // b
//x
{ [ 10
    , ""a\""b""] :
BodyLength, """ ++ [233]%N ++ runes_of_ascii "t" ++ [233]%N ++ runes_of_ascii """ :zchar  3:T },
} MetaData Logon { uint8x i64_ , } root packet
/// triple
// `tick` ""quote"" 'q'
zchar {
charz `" ++ [28040; 24687; 31867; 22411]%N ++ runes_of_ascii "` , } packet i64_
{	u
`two words`
// `tick` ""quote"" 'q'
// c
, @calculatedFrom(""it's""
)char[
    // trailing space 
    0123456789	] body`it's`
    ,char[ 255 ]leftPad `two words` , }")).
Eval vm_compute in ("<<<M287>>>" ++ check (runes_of_ascii "packet BodyLength { @tag(	007
)
char[ 65535
]
    string_
`u8 x,`,
    // @lengthOf(
    }")).
Eval vm_compute in ("<<<M297>>>" ++ check (runes_of_ascii "options{
    metadata
= '0' int = 007 ; zchar
// " ++ [27880; 37322]%N ++ runes_of_ascii "
// `tick` ""quote"" 'q'
=
'\x00' ;
    }
    packet charz {
@leftPad
    ( '0'
    ) @tag(
42
    // " ++ [128512]%N ++ runes_of_ascii " emoji
    ) @calculatedFrom(
    // " ++ [27880; 37322]%N ++ runes_of_ascii "
    ""a\""b"" )char[]
    packetx
    @calculatedFrom(""\" ++ [233]%N ++ runes_of_ascii """
    )`
`
,	match charz as msg_type  {
//
// trailing space 
4294967296:
o 0123456789: // packet A { u8 x, }
trueish ,  ""// no comment"" : asx //x
[ 65535 ,
65535 ,
    3,""a\""b""
,	""a\\""	,""" ++ [28040; 24687]%N ++ runes_of_ascii """
, 0123456789 ,
    ""a	b"" ]
: T
,
}
, @rightPad (
' '
    )
crc , repeat char[]
    // packet A { u8 x, }
    stringy  `a\` , }
// " ++ [128512]%N ++ runes_of_ascii " emoji
// " ++ [128512]%N ++ runes_of_ascii " emoji
MetaData// c
tag { uint64 metadata ,int64 trueish `{ , }`,
uint32 a1 , f32 Packet `// not a comment` , }
")).
Eval vm_compute in ("<<<M307>>>" ++ check (runes_of_ascii "root packet SimpleMessage {
    uint16 MsgType `" ++ [28040; 24687; 31867; 22411]%N ++ runes_of_ascii "`,
    string JsonBody `Json" ++ [23383; 31526; 20018; 28040; 24687; 20307]%N ++ runes_of_ascii "`,
}")).
Eval vm_compute in ("<<<T307>>>" ++ terms [mkTok 34 "root" 1 0 false; mkTok 35 "packet" 1 5 false; mkTok 42 "SimpleMessage" 1 12 false; mkTok 2 "{" 1 26 false; mkTok 21 "uint16" 2 4 false; mkTok 42 "MsgType" 2 11 false; mkTok 43 (string_of_bytes [96; 230; 182; 136; 230; 129; 175; 231; 177; 187; 229; 158; 139; 96]%N) 2 19 false; mkTok 40 "," 2 25 false; mkTok 15 "string" 3 4 false; mkTok 42 "JsonBody" 3 11 false; mkTok 43 (string_of_bytes [96; 74; 115; 111; 110; 229; 173; 151; 231; 172; 166; 228; 184; 178; 230; 182; 136; 230; 129; 175; 228; 189; 147; 96]%N) 3 20 false; mkTok 40 "," 3 32 false; mkTok 3 "}" 4 0 false; mkTok 0 "<EOF>" 4 1 false] (mkPacket (mkPtok 34 "root" 1 0 0) (Some (mkPtok 3 "}" 4 0 12)) [(DPacket (mkPacketDef (mkSpan (mkPtok 34 "root" 1 0 0) (mkPtok 3 "}" 4 0 12)) (Some (mkPtok 34 "root" 1 0 0)) (mkPtok 35 "packet" 1 5 1) (mkPtok 42 "SimpleMessage" 1 12 2) (mkPtok 2 "{" 1 26 3) [(mkFieldWithAttr (mkSpan (mkPtok 21 "uint16" 2 4 4) (mkPtok 40 "," 2 25 7)) [] (MetaField (mkSpan (mkPtok 21 "uint16" 2 4 4) (mkPtok 40 "," 2 25 7)) None (mkMetaDecl (mkSpan (mkPtok 21 "uint16" 2 4 4) (mkPtok 40 "," 2 25 7)) (TyBasic (mkSpan (mkPtok 21 "uint16" 2 4 4) (mkPtok 21 "uint16" 2 4 4)) (mkBasicType (mkSpan (mkPtok 21 "uint16" 2 4 4) (mkPtok 21 "uint16" 2 4 4)) (mkPtok 21 "uint16" 2 4 4))) (mkPtok 42 "MsgType" 2 11 5) (Some (mkPtok 43 (string_of_bytes [96; 230; 182; 136; 230; 129; 175; 231; 177; 187; 229; 158; 139; 96]%N) 2 19 6)) (mkPtok 40 "," 2 25 7)))); (mkFieldWithAttr (mkSpan (mkPtok 15 "string" 3 4 8) (mkPtok 40 "," 3 32 11)) [] (MetaField (mkSpan (mkPtok 15 "string" 3 4 8) (mkPtok 40 "," 3 32 11)) None (mkMetaDecl (mkSpan (mkPtok 15 "string" 3 4 8) (mkPtok 40 "," 3 32 11)) (TyDynamic (mkSpan (mkPtok 15 "string" 3 4 8) (mkPtok 15 "string" 3 4 8)) (mkDynamicString (mkSpan (mkPtok 15 "string" 3 4 8) (mkPtok 15 "string" 3 4 8)) (mkPtok 15 "string" 3 4 8))) (mkPtok 42 "JsonBody" 3 11 9) (Some (mkPtok 43 (string_of_bytes [96; 74; 115; 111; 110; 229; 173; 151; 231; 172; 166; 228; 184; 178; 230; 182; 136; 230; 129; 175; 228; 189; 147; 96]%N) 3 20 10)) (mkPtok 40 "," 3 32 11))))] (mkPtok 3 "}" 4 0 12)))])).
Eval vm_compute in ("<<<M317>>>" ++ check (runes_of_ascii "root : asx { @tag(007 ) // @lengthOf(
repeat
    u64  leftPad , } packet
i64_{ // packet A { u8 x, }
@calculatedFrom(
""a\""b"" )
    zchar[
    10]
    chars,
    }
    MetaData A { charz
uint8x
    // trailing space 
    , len uint8x , u8
    charz,	string_ msg_type ,}
")).
Eval vm_compute in ("<<<M327>>>" ++ check (runes_of_ascii "root packet asx match @tag(007 ) // @lengthOf(
repeat
    u64  leftPad , } packet
i64_{ // packet A { u8 x, }
@calculatedFrom(
""a\""b"" )
    zchar[
    10]
    chars,
    }
    MetaData A { charz
uint8x
    // trailing space 
    , len uint8x , u8
    charz,	string_ msg_type ,}
")).
Eval vm_compute in ("<<<M337>>>" ++ check (runes_of_ascii "root packet asx { @tag(: ) // @lengthOf(
repeat
    u64  leftPad , } packet
i64_{ // packet A { u8 x, }
@calculatedFrom(
""a\""b"" )
    zchar[
    10]
    chars,
    }
    MetaData A { charz
uint8x
    // trailing space 
    , len uint8x , u8
    charz,	string_ msg_type ,}
")).
Eval vm_compute in ("<<<M347>>>" ++ check (runes_of_ascii "root packet asx { @tag(007 ) // @lengthOf(
@leftPad
    u64  leftPad , } packet
i64_{ // packet A { u8 x, }
@calculatedFrom(
""a\""b"" )
    zchar[
    10]
    chars,
    }
    MetaData A { charz
uint8x
    // trailing space 
    , len uint8x , u8
    charz,	string_ msg_type ,}
")).
Eval vm_compute in ("<<<M357>>>" ++ check (runes_of_ascii "root packet asx { @tag(007 ) // @lengthOf(
repeat
    u64  options , } packet
i64_{ // packet A { u8 x, }
@calculatedFrom(
""a\""b"" )
    zchar[
    10]
    chars,
    }
    MetaData A { charz
uint8x
    // trailing space 
    , len uint8x , u8
    charz,	string_ msg_type ,}
")).
Eval vm_compute in ("<<<M367>>>" ++ check (runes_of_ascii "root packet asx { @tag(007 ) // @lengthOf(
repeat
    u64  leftPad , @leftPad packet
i64_{ // packet A { u8 x, }
@calculatedFrom(
""a\""b"" )
    zchar[
    10]
    chars,
    }
    MetaData A { charz
uint8x
    // trailing space 
    , len uint8x , u8
    charz,	string_ msg_type ,}
")).
Eval vm_compute in ("<<<M377>>>" ++ check (runes_of_ascii "root packet asx { @tag(007 ) // @lengthOf(
repeat
    u64  leftPad , } packet
){ // packet A { u8 x, }
@calculatedFrom(
""a\""b"" )
    zchar[
    10]
    chars,
    }
    MetaData A { charz
uint8x
    // trailing space 
    , len uint8x , u8
    charz,	string_ msg_type ,}
")).
Eval vm_compute in ("<<<M387>>>" ++ check (runes_of_ascii "root packet asx { @tag(007 ) // @lengthOf(
repeat
    u64  leftPad , } packet
i64_{ // packet A { u8 x, }
(
""a\""b"" )
    zchar[
    10]
    chars,
    }
    MetaData A { charz
uint8x
    // trailing space 
    , len uint8x , u8
    charz,	string_ msg_type ,}
")).
Eval vm_compute in ("<<<M397>>>" ++ check (runes_of_ascii "root packet asx { @tag(007 ) // @lengthOf(
repeat
    u64  leftPad , } packet
i64_{ // packet A { u8 x, }
@calculatedFrom(
""a\""b"" as
    zchar[
    10]
    chars,
    }
    MetaData A { charz
uint8x
    // trailing space 
    , len uint8x , u8
    charz,	string_ msg_type ,}
")).
Eval vm_compute in ("<<<M407>>>" ++ check (runes_of_ascii "root packet asx { @tag(007 ) // @lengthOf(
repeat
    u64  leftPad , } packet
i64_{ // packet A { u8 x, }
@calculatedFrom(
""a\""b"" )
    zchar[
    @calculatedFrom(]
    chars,
    }
    MetaData A { charz
uint8x
    // trailing space 
    , len uint8x , u8
    charz,	string_ msg_type ,}
")).
Eval vm_compute in ("<<<M417>>>" ++ check (runes_of_ascii "root packet asx { @tag(007 ) // @lengthOf(
repeat
    u64  leftPad , } packet
i64_{ // packet A { u8 x, }
@calculatedFrom(
""a\""b"" )
    zchar[
    10]
    f32,
    }
    MetaData A { charz
uint8x
    // trailing space 
    , len uint8x , u8
    charz,	string_ msg_type ,}
")).
Eval vm_compute in ("<<<M427>>>" ++ check (runes_of_ascii "root packet asx { @tag(007 ) // @lengthOf(
repeat
    u64  leftPad , } packet
i64_{ // packet A { u8 x, }
@calculatedFrom(
""a\""b"" )
    zchar[
    10]
    chars,
    options
    MetaData A { charz
uint8x
    // trailing space 
    , len uint8x , u8
    charz,	string_ msg_type ,}
")).
Eval vm_compute in ("<<<M437>>>" ++ check (runes_of_ascii "root packet asx { @tag(007 ) // @lengthOf(
repeat
    u64  leftPad , } packet
i64_{ // packet A { u8 x, }
@calculatedFrom(
""a\""b"" )
    zchar[
    10]
    chars,
    }
    MetaData @leftPad { charz
uint8x
    // trailing space 
    , len uint8x , u8
    charz,	string_ msg_type ,}
")).
Eval vm_compute in ("<<<M447>>>" ++ check (runes_of_ascii "root packet asx { @tag(007 ) // @lengthOf(
repeat
    u64  leftPad , } packet
i64_{ // packet A { u8 x, }
@calculatedFrom(
""a\""b"" )
    zchar[
    10]
    chars,
    }
    MetaData A { match
uint8x
    // trailing space 
    , len uint8x , u8
    charz,	string_ msg_type ,}
")).
Eval vm_compute in ("<<<M457>>>" ++ check (runes_of_ascii "root packet asx { @tag(007 ) // @lengthOf(
repeat
    u64  leftPad , } packet
i64_{ // packet A { u8 x, }
@calculatedFrom(
""a\""b"" )
    zchar[
    10]
    chars,
    }
    MetaData A { charz
uint8x
    // trailing space 
    match len uint8x , u8
    charz,	string_ msg_type ,}
")).
Eval vm_compute in ("<<<M467>>>" ++ check (runes_of_ascii "root packet asx { @tag(007 ) // @lengthOf(
repeat
    u64  leftPad , } packet
i64_{ // packet A { u8 x, }
@calculatedFrom(
""a\""b"" )
    zchar[
    10]
    chars,
    }
    MetaData A { charz
uint8x
    // trailing space 
    , len ) , u8
    charz,	string_ msg_type ,}
")).
Eval vm_compute in ("<<<M477>>>" ++ check (runes_of_ascii "root packet asx { @tag(007 ) // @lengthOf(
repeat
    u64  leftPad , } packet
i64_{ // packet A { u8 x, }
@calculatedFrom(
""a\""b"" )
    zchar[
    10]
    chars,
    }
    MetaData A { charz
uint8x
    // trailing space 
    , len uint8x , char
    charz,	string_ msg_type ,}
")).
Eval vm_compute in ("<<<M487>>>" ++ check (runes_of_ascii "root packet asx { @tag(007 ) // @lengthOf(
repeat
    u64  leftPad , } packet
i64_{ // packet A { u8 x, }
@calculatedFrom(
""a\""b"" )
    zchar[
    10]
    chars,
    }
    MetaData A { charz
uint8x
    // trailing space 
    , len uint8x , u8
    charz}	string_ msg_type ,}
")).
Eval vm_compute in ("<<<M497>>>" ++ check (runes_of_ascii "root packet asx { @tag(007 ) // @lengthOf(
repeat
    u64  leftPad , } packet
i64_{ // packet A { u8 x, }
@calculatedFrom(
""a\""b"" )
    zchar[
    10]
    chars,
    }
    MetaData A { charz
uint8x
    // trailing space 
    , len uint8x , u8
    charz,	string_ options ,}
")).
Eval vm_compute in ("<<<M507>>>" ++ check (runes_of_ascii "root packet asx { @tag(007 ) // @lengthOf(
repeat
    u64  leftPad , } packet
i64_{ // packet A { u8 x, }
@calculatedFrom(
""a\""b"" )
    zchar[
    10]
    chars,
    }
    MetaData A { charz
uint8x
    // trailing space 
    , len uint8x , u8
    charz,	string_ msg_type ,")).
Eval vm_compute in ("<<<M517>>>" ++ check (runes_of_ascii "root packet asx { @tag(007 ) // @lengthOf(
repeat
    u64  leftPad , } packet
i64_{ // packet A { u8 x, }
@calculatedFrom(
""a\""b"" )
    zchar[
    10]
    / chars,
    }
    MetaData A { charz
uint8x
    // trailing space 
    , len uint8x , u8
    charz,	string_ msg_type ,}
")).
Eval vm_compute in ("<<<M527>>>" ++ check (runes_of_ascii "root packet asx { @tag(007 ) // @lengthOf(
repeat
    u64  leftPad , } packet
i64_{ // packet A { u8 x, }
@calculatedFrom(
""a\""b"" )
    zchar[
    10]
    chars,
    }
    MetaData A { charz
uint8x
    // trailing space 
    , len uint8x , u8
    " ++ [21517; 23383]%N ++ runes_of_ascii ",	string_ msg_type ,}
")).
Eval vm_compute in ("<<<M537>>>" ++ check (runes_of_ascii "MetaData asx
{ zchar[ 7
] roots
,leftPad
Foo
    `" ++ [233]%N ++ runes_of_ascii "`
, Header Header Header , int16
falsey , // `tick` ""quote"" 'q'
u16 Packet , int64 packetx// " ++ [128512]%N ++ runes_of_ascii " emoji
,}")).
Eval vm_compute in ("<<<M547>>>" ++ check (runes_of_ascii "MetaData asx
{ zchar[ 7
] roots
,leftPad
Foo
    `" ++ [233]%N ++ runes_of_ascii "`
, Header Header , int16
falsey  // `tick` ""quote"" 'q'
u16 Packet , int64 packetx// " ++ [128512]%N ++ runes_of_ascii " emoji
,}")).
Eval vm_compute in ("<<<M557>>>" ++ check (runes_of_ascii "MetaData asx
{ zchar[ 7
] roots
,leftPad

    `" ++ [233]%N ++ runes_of_ascii "`
, Header Header , int16
falsey , // `tick` ""quote"" 'q'
u16 Packet , int64 packetx// " ++ [128512]%N ++ runes_of_ascii " emoji
,}")).
Eval vm_compute in ("<<<M567>>>" ++ check (runes_of_ascii "")).
Eval vm_compute in ("<<<M577>>>" ++ check ([65533; 65533]%N ++ runes_of_ascii "C$" ++ [65533; 65533; 65533; 65533; 65533; 0]%N ++ runes_of_ascii "d9W")).
Eval vm_compute in ("<<<M587>>>" ++ check (runes_of_ascii "MetaData } _x string u32 int16 :")).
Eval vm_compute in ("<<<M597>>>" ++ check ([65533]%N ++ runes_of_ascii "D" ++ [65533; 65533]%N ++ runes_of_ascii "is" ++ [65533; 65533; 65533]%N ++ runes_of_ascii "*" ++ [65533]%N ++ runes_of_ascii "." ++ [6]%N ++ runes_of_ascii "v" ++ [26]%N ++ runes_of_ascii "Y" ++ [65533]%N ++ runes_of_ascii "9" ++ [65533; 65533]%N ++ runes_of_ascii "Y" ++ [65533]%N)).
