From FP Require Import Lexer Parser ShowPT Digest.
From Coq Require Import String List NArith.
Import ListNotations.
Open Scope string_scope.
Set Printing Width 100000000.
Set Printing Depth 100000000.
Definition nl : string := String (Ascii.ascii_of_nat 10) EmptyString.
Definition model_lex (rs : list rune) : string := show_toks (lex rs).
Definition model_parse (rs : list rune) : string :=
  show_pt (match lex rs with Some ts => parse ts | None => None end).
(* coqc is slow at printing long strings: digests first (Digest.v), full texts on demand *)
Definition check (rs : list rune) : string :=
  digest (model_lex rs) ++ " " ++ digest (model_parse rs).
Definition full (rs : list rune) : string := model_lex rs ++ nl ++ model_parse rs.
Definition terms (ts : list tok) (t : pt) : string :=
  digest (show_toks (Some ts)) ++ " " ++ digest (show_pt (Some t)) ++ " " ++ digest (show_pt (parse ts)).
Definition terms_full (ts : list tok) (t : pt) : string :=
  show_toks (Some ts) ++ nl ++ show_pt (Some t) ++ nl ++ show_pt (parse ts).
Eval vm_compute in ("<<<M1>>>" ++ check (runes_of_ascii "// a // b
options {
Logon
= true
    // " ++ [27880; 37322]%N ++ runes_of_ascii "
    ; }")).
Eval vm_compute in ("<<<M11>>>" ++ check (runes_of_ascii "root packet  roots{ char[	007 ]	falsey	, // " ++ [27880; 37322]%N ++ runes_of_ascii "
} packet x_y_z//	t
{repeat char Logon, repeat zchar[ 65535
]uint8x
    ,@calculatedFrom( ""a\""b""
    )
packetx options1`line1
line2`
, } root packet
    /// triple
    _x
{ i16
    T @calculatedFrom( ""packet""  )
,
    } packet options1 { @lengthOf( i8i8 ) //	t
string repeatCount @lengthOf(stringy )
, }
options{ int
    = f64;}
")).
Eval vm_compute in ("<<<M21>>>" ++ check (runes_of_ascii "options{ } MetaData len
{
char[
7  ]
    i8i8 ,
    }
packet Pad { repeat
uint64
    x `crlf
line`, @tag(65535 )
    match
repeatCount as// " ++ [27880; 37322]%N ++ runes_of_ascii "
MetaDataX { [ ""a	b""
    // " ++ [27880; 37322]%N ++ runes_of_ascii "
    ,	""a\\"" ,
    4294967296 , 007 ,
""\" ++ [233]%N ++ runes_of_ascii """ ]:Z9_
    , [ 4294967296, ""abc""
    , ""\n"" , ""// no comment"" ]
:x 4294967296
//
//	t
: options1
,
//
// @lengthOf(
255 :
    falsey , }
    , }")).
Eval vm_compute in ("<<<M31>>>" ++ check (runes_of_ascii "packet string_ {@lengthOf( //	t
trueish
    ) u64 falsey `u8 x,`  , uint8 int`{ , }`,match calculatedFrom as
string_ { ""x y"" : i8i8 ,
[ 42 ] : _x
255/// triple
:
roots
    // " ++ [27880; 37322]%N ++ runes_of_ascii "
    ,  """ ++ [128512]%N ++ runes_of_ascii """ :
    msg_type , } , repeat
    char[ 65535 ]
    charz ,
@calculatedFrom( ""x y""
    // " ++ [128512]%N ++ runes_of_ascii " emoji
    ) // " ++ [27880; 37322]%N ++ runes_of_ascii "
_x{ f32a
`line1
line2`
,	} , uint8 packetx ,  @rightPad
( )//x
u32
zchar // " ++ [27880; 37322]%N ++ runes_of_ascii "
@lengthOf( Pad)
`` , @lengthOf( As) char
    lengthOf ,char o @lengthOf( body
)
    , @leftPad	(	)
int8
T `line1
line2` ,
    } root packet // @lengthOf(
BodyLength{ zchar
,
// trailing space 
// " ++ [27880; 37322]%N ++ runes_of_ascii "
} options {}
")).
Eval vm_compute in ("<<<M41>>>" ++ check (runes_of_ascii "root packet T{} // `tick` ""quote"" 'q'
root packet
    i64_
    {
@rightPad (
    //
    ' '
)	o
{char[
10 ]
    MetaDataX
    // trailing space 
    ,
repeat
    leftPad
`say ""hi""` ,	char[]
    stringy `crlf
line`, Logon @lengthOf( x_y_z)
    ,
// `tick` ""quote"" 'q'
/// triple
} , zchar[0123456789 ]metadata ,
@lengthOf(
    pack )repeat
u128 _x, repeatCount { repeat x {
Header roots	,
    } , repeat
charz A,
string options1 ,
// c
// trailing space 
trueish Z9_ , } ,
char[ 3]  metadata , @lengthOf(	stringy ) options1 {u16 leftPad `tab	here`, repeat As
{Logon Z9_ `
` , }
//
//x
,
i64 float@lengthOf( crc ) , x_y_z  @lengthOf( // " ++ [27880; 37322]%N ++ runes_of_ascii "
roots),// `tick` ""quote"" 'q'
}
    // trailing space 
    , }
")).
Eval vm_compute in ("<<<T41>>>" ++ terms [mkTok 34 "root" 1 0 false; mkTok 35 "packet" 1 5 false; mkTok 42 "T" 1 12 false; mkTok 2 "{" 1 13 false; mkTok 3 "}" 1 14 false; mkTok 44 "// `tick` ""quote"" 'q'" 1 16 true; mkTok 34 "root" 2 0 false; mkTok 35 "packet" 2 5 false; mkTok 42 "i64_" 3 4 false; mkTok 2 "{" 4 4 false; mkTok 32 "@rightPad" 5 0 false; mkTok 8 "(" 5 10 false; mkTok 44 "//" 6 4 true; mkTok 33 "' '" 7 4 false; mkTok 6 ")" 8 0 false; mkTok 42 "o" 8 2 false; mkTok 2 "{" 9 0 false; mkTok 12 "char[" 9 1 false; mkTok 30 "10" 10 0 false; mkTok 13 "]" 10 3 false; mkTok 42 "MetaDataX" 11 4 false; mkTok 44 "// trailing space " 12 4 true; mkTok 40 "," 13 4 false; mkTok 36 "repeat" 14 0 false; mkTok 42 "leftPad" 15 4 false; mkTok 43 "`say ""hi""`" 16 0 false; mkTok 40 "," 16 11 false; mkTok 16 "char[]" 16 13 false; mkTok 42 "stringy" 17 4 false; mkTok 43 (string_of_bytes [96; 99; 114; 108; 102; 13; 10; 108; 105; 110; 101; 96]%N) 17 12 false; mkTok 40 "," 18 5 false; mkTok 42 "Logon" 18 7 false; mkTok 7 "@lengthOf(" 18 13 false; mkTok 42 "x_y_z" 18 24 false; mkTok 6 ")" 18 29 false; mkTok 40 "," 19 4 false; mkTok 44 "// `tick` ""quote"" 'q'" 20 0 true; mkTok 44 "/// triple" 21 0 true; mkTok 3 "}" 22 0 false; mkTok 40 "," 22 2 false; mkTok 14 "zchar[" 22 4 false; mkTok 30 "0123456789" 22 10 false; mkTok 13 "]" 22 21 false; mkTok 42 "metadata" 22 22 false; mkTok 40 "," 22 31 false; mkTok 7 "@lengthOf(" 23 0 false; mkTok 42 "pack" 24 4 false; mkTok 6 ")" 24 9 false; mkTok 36 "repeat" 24 10 false; mkTok 42 "u128" 25 0 false; mkTok 42 "_x" 25 5 false; mkTok 40 "," 25 7 false; mkTok 42 "repeatCount" 25 9 false; mkTok 2 "{" 25 21 false; mkTok 36 "repeat" 25 23 false; mkTok 42 "x" 25 30 false; mkTok 2 "{" 25 32 false; mkTok 42 "Header" 26 0 false; mkTok 42 "roots" 26 7 false; mkTok 40 "," 26 13 false; mkTok 3 "}" 27 4 false; mkTok 40 "," 27 6 false; mkTok 36 "repeat" 27 8 false; mkTok 42 "charz" 28 0 false; mkTok 42 "A" 28 6 false; mkTok 40 "," 28 7 false; mkTok 15 "string" 29 0 false; mkTok 42 "options1" 29 7 false; mkTok 40 "," 29 16 false; mkTok 44 "// c" 30 0 true; mkTok 44 "// trailing space " 31 0 true; mkTok 42 "trueish" 32 0 false; mkTok 42 "Z9_" 32 8 false; mkTok 40 "," 32 12 false; mkTok 3 "}" 32 14 false; mkTok 40 "," 32 16 false; mkTok 12 "char[" 33 0 false; mkTok 30 "3" 33 6 false; mkTok 13 "]" 33 7 false; mkTok 42 "metadata" 33 10 false; mkTok 40 "," 33 19 false; mkTok 7 "@lengthOf(" 33 21 false; mkTok 42 "stringy" 33 32 false; mkTok 6 ")" 33 40 false; mkTok 42 "options1" 33 42 false; mkTok 2 "{" 33 51 false; mkTok 21 "u16" 33 52 false; mkTok 42 "leftPad" 33 56 false; mkTok 43 (string_of_bytes [96; 116; 97; 98; 9; 104; 101; 114; 101; 96]%N) 33 64 false; mkTok 40 "," 33 74 false; mkTok 36 "repeat" 33 76 false; mkTok 42 "As" 33 83 false; mkTok 2 "{" 34 0 false; mkTok 42 "Logon" 34 1 false; mkTok 42 "Z9_" 34 7 false; mkTok 43 (string_of_bytes [96; 10; 96]%N) 34 11 false; mkTok 40 "," 35 2 false; mkTok 3 "}" 35 4 false; mkTok 44 "//" 36 0 true; mkTok 44 "//x" 37 0 true; mkTok 40 "," 38 0 false; mkTok 27 "i64" 39 0 false; mkTok 42 "float" 39 4 false; mkTok 7 "@lengthOf(" 39 9 false; mkTok 42 "crc" 39 20 false; mkTok 6 ")" 39 24 false; mkTok 40 "," 39 26 false; mkTok 42 "x_y_z" 39 28 false; mkTok 7 "@lengthOf(" 39 35 false; mkTok 44 (string_of_bytes [47; 47; 32; 230; 179; 168; 233; 135; 138]%N) 39 46 true; mkTok 42 "roots" 40 0 false; mkTok 6 ")" 40 5 false; mkTok 40 "," 40 6 false; mkTok 44 "// `tick` ""quote"" 'q'" 40 7 true; mkTok 3 "}" 41 0 false; mkTok 44 "// trailing space " 42 4 true; mkTok 40 "," 43 4 false; mkTok 3 "}" 43 6 false; mkTok 0 "<EOF>" 44 0 false] (mkPacket (mkPtok 34 "root" 1 0 0) (Some (mkPtok 3 "}" 43 6 117)) [(DPacket (mkPacketDef (mkSpan (mkPtok 34 "root" 1 0 0) (mkPtok 3 "}" 1 14 4)) (Some (mkPtok 34 "root" 1 0 0)) (mkPtok 35 "packet" 1 5 1) (mkPtok 42 "T" 1 12 2) (mkPtok 2 "{" 1 13 3) [] (mkPtok 3 "}" 1 14 4))); (DPacket (mkPacketDef (mkSpan (mkPtok 34 "root" 2 0 6) (mkPtok 3 "}" 43 6 117)) (Some (mkPtok 34 "root" 2 0 6)) (mkPtok 35 "packet" 2 5 7) (mkPtok 42 "i64_" 3 4 8) (mkPtok 2 "{" 4 4 9) [(mkFieldWithAttr (mkSpan (mkPtok 32 "@rightPad" 5 0 10) (mkPtok 40 "," 22 2 39)) [(FAPadding (mkSpan (mkPtok 32 "@rightPad" 5 0 10) (mkPtok 6 ")" 8 0 14)) (mkPaddingAttr (mkSpan (mkPtok 32 "@rightPad" 5 0 10) (mkPtok 6 ")" 8 0 14)) (mkPtok 32 "@rightPad" 5 0 10) (mkPtok 8 "(" 5 10 11) (Some (mkPtok 33 "' '" 7 4 13)) (mkPtok 6 ")" 8 0 14)))] (InerObjectField (mkSpan (mkPtok 42 "o" 8 2 15) (mkPtok 40 "," 22 2 39)) None (InerObjectDecl (mkSpan (mkPtok 42 "o" 8 2 15) (mkPtok 3 "}" 22 0 38)) (mkPtok 42 "o" 8 2 15) (mkPtok 2 "{" 9 0 16) [(MetaField (mkSpan (mkPtok 12 "char[" 9 1 17) (mkPtok 40 "," 13 4 22)) None (mkMetaDecl (mkSpan (mkPtok 12 "char[" 9 1 17) (mkPtok 40 "," 13 4 22)) (TyFixed (mkSpan (mkPtok 12 "char[" 9 1 17) (mkPtok 13 "]" 10 3 19)) (mkFixedString (mkSpan (mkPtok 12 "char[" 9 1 17) (mkPtok 13 "]" 10 3 19)) (mkPtok 12 "char[" 9 1 17) (mkPtok 30 "10" 10 0 18) (mkPtok 13 "]" 10 3 19))) (mkPtok 42 "MetaDataX" 11 4 20) None (mkPtok 40 "," 13 4 22))); (ObjectField (mkSpan (mkPtok 36 "repeat" 14 0 23) (mkPtok 40 "," 16 11 26)) (Some (mkPtok 36 "repeat" 14 0 23)) (mkPtok 42 "leftPad" 15 4 24) None (Some (mkPtok 43 "`say ""hi""`" 16 0 25)) (mkPtok 40 "," 16 11 26)); (MetaField (mkSpan (mkPtok 16 "char[]" 16 13 27) (mkPtok 40 "," 18 5 30)) None (mkMetaDecl (mkSpan (mkPtok 16 "char[]" 16 13 27) (mkPtok 40 "," 18 5 30)) (TyDynamic (mkSpan (mkPtok 16 "char[]" 16 13 27) (mkPtok 16 "char[]" 16 13 27)) (mkDynamicString (mkSpan (mkPtok 16 "char[]" 16 13 27) (mkPtok 16 "char[]" 16 13 27)) (mkPtok 16 "char[]" 16 13 27))) (mkPtok 42 "stringy" 17 4 28) (Some (mkPtok 43 (string_of_bytes [96; 99; 114; 108; 102; 13; 10; 108; 105; 110; 101; 96]%N) 17 12 29)) (mkPtok 40 "," 18 5 30))); (LengthField (mkSpan (mkPtok 42 "Logon" 18 7 31) (mkPtok 40 "," 19 4 35)) (mkLengthFieldDecl (mkSpan (mkPtok 42 "Logon" 18 7 31) (mkPtok 40 "," 19 4 35)) None (mkPtok 42 "Logon" 18 7 31) (mkLengthOf (mkSpan (mkPtok 7 "@lengthOf(" 18 13 32) (mkPtok 6 ")" 18 29 34)) (mkPtok 7 "@lengthOf(" 18 13 32) (mkPtok 42 "x_y_z" 18 24 33) (mkPtok 6 ")" 18 29 34)) None (mkPtok 40 "," 19 4 35)))] (mkPtok 3 "}" 22 0 38)) (mkPtok 40 "," 22 2 39))); (mkFieldWithAttr (mkSpan (mkPtok 14 "zchar[" 22 4 40) (mkPtok 40 "," 22 31 44)) [] (MetaField (mkSpan (mkPtok 14 "zchar[" 22 4 40) (mkPtok 40 "," 22 31 44)) None (mkMetaDecl (mkSpan (mkPtok 14 "zchar[" 22 4 40) (mkPtok 40 "," 22 31 44)) (TyFixed (mkSpan (mkPtok 14 "zchar[" 22 4 40) (mkPtok 13 "]" 22 21 42)) (mkFixedString (mkSpan (mkPtok 14 "zchar[" 22 4 40) (mkPtok 13 "]" 22 21 42)) (mkPtok 14 "zchar[" 22 4 40) (mkPtok 30 "0123456789" 22 10 41) (mkPtok 13 "]" 22 21 42))) (mkPtok 42 "metadata" 22 22 43) None (mkPtok 40 "," 22 31 44)))); (mkFieldWithAttr (mkSpan (mkPtok 7 "@lengthOf(" 23 0 45) (mkPtok 40 "," 25 7 51)) [(FALengthOf (mkSpan (mkPtok 7 "@lengthOf(" 23 0 45) (mkPtok 6 ")" 24 9 47)) (mkLengthOf (mkSpan (mkPtok 7 "@lengthOf(" 23 0 45) (mkPtok 6 ")" 24 9 47)) (mkPtok 7 "@lengthOf(" 23 0 45) (mkPtok 42 "pack" 24 4 46) (mkPtok 6 ")" 24 9 47)))] (ObjectField (mkSpan (mkPtok 36 "repeat" 24 10 48) (mkPtok 40 "," 25 7 51)) (Some (mkPtok 36 "repeat" 24 10 48)) (mkPtok 42 "u128" 25 0 49) (Some (mkPtok 42 "_x" 25 5 50)) None (mkPtok 40 "," 25 7 51))); (mkFieldWithAttr (mkSpan (mkPtok 42 "repeatCount" 25 9 52) (mkPtok 40 "," 32 16 75)) [] (InerObjectField (mkSpan (mkPtok 42 "repeatCount" 25 9 52) (mkPtok 40 "," 32 16 75)) None (InerObjectDecl (mkSpan (mkPtok 42 "repeatCount" 25 9 52) (mkPtok 3 "}" 32 14 74)) (mkPtok 42 "repeatCount" 25 9 52) (mkPtok 2 "{" 25 21 53) [(InerObjectField (mkSpan (mkPtok 36 "repeat" 25 23 54) (mkPtok 40 "," 27 6 61)) (Some (mkPtok 36 "repeat" 25 23 54)) (InerObjectDecl (mkSpan (mkPtok 42 "x" 25 30 55) (mkPtok 3 "}" 27 4 60)) (mkPtok 42 "x" 25 30 55) (mkPtok 2 "{" 25 32 56) [(ObjectField (mkSpan (mkPtok 42 "Header" 26 0 57) (mkPtok 40 "," 26 13 59)) None (mkPtok 42 "Header" 26 0 57) (Some (mkPtok 42 "roots" 26 7 58)) None (mkPtok 40 "," 26 13 59))] (mkPtok 3 "}" 27 4 60)) (mkPtok 40 "," 27 6 61)); (ObjectField (mkSpan (mkPtok 36 "repeat" 27 8 62) (mkPtok 40 "," 28 7 65)) (Some (mkPtok 36 "repeat" 27 8 62)) (mkPtok 42 "charz" 28 0 63) (Some (mkPtok 42 "A" 28 6 64)) None (mkPtok 40 "," 28 7 65)); (MetaField (mkSpan (mkPtok 15 "string" 29 0 66) (mkPtok 40 "," 29 16 68)) None (mkMetaDecl (mkSpan (mkPtok 15 "string" 29 0 66) (mkPtok 40 "," 29 16 68)) (TyDynamic (mkSpan (mkPtok 15 "string" 29 0 66) (mkPtok 15 "string" 29 0 66)) (mkDynamicString (mkSpan (mkPtok 15 "string" 29 0 66) (mkPtok 15 "string" 29 0 66)) (mkPtok 15 "string" 29 0 66))) (mkPtok 42 "options1" 29 7 67) None (mkPtok 40 "," 29 16 68))); (ObjectField (mkSpan (mkPtok 42 "trueish" 32 0 71) (mkPtok 40 "," 32 12 73)) None (mkPtok 42 "trueish" 32 0 71) (Some (mkPtok 42 "Z9_" 32 8 72)) None (mkPtok 40 "," 32 12 73))] (mkPtok 3 "}" 32 14 74)) (mkPtok 40 "," 32 16 75))); (mkFieldWithAttr (mkSpan (mkPtok 12 "char[" 33 0 76) (mkPtok 40 "," 33 19 80)) [] (MetaField (mkSpan (mkPtok 12 "char[" 33 0 76) (mkPtok 40 "," 33 19 80)) None (mkMetaDecl (mkSpan (mkPtok 12 "char[" 33 0 76) (mkPtok 40 "," 33 19 80)) (TyFixed (mkSpan (mkPtok 12 "char[" 33 0 76) (mkPtok 13 "]" 33 7 78)) (mkFixedString (mkSpan (mkPtok 12 "char[" 33 0 76) (mkPtok 13 "]" 33 7 78)) (mkPtok 12 "char[" 33 0 76) (mkPtok 30 "3" 33 6 77) (mkPtok 13 "]" 33 7 78))) (mkPtok 42 "metadata" 33 10 79) None (mkPtok 40 "," 33 19 80)))); (mkFieldWithAttr (mkSpan (mkPtok 7 "@lengthOf(" 33 21 81) (mkPtok 40 "," 43 4 116)) [(FALengthOf (mkSpan (mkPtok 7 "@lengthOf(" 33 21 81) (mkPtok 6 ")" 33 40 83)) (mkLengthOf (mkSpan (mkPtok 7 "@lengthOf(" 33 21 81) (mkPtok 6 ")" 33 40 83)) (mkPtok 7 "@lengthOf(" 33 21 81) (mkPtok 42 "stringy" 33 32 82) (mkPtok 6 ")" 33 40 83)))] (InerObjectField (mkSpan (mkPtok 42 "options1" 33 42 84) (mkPtok 40 "," 43 4 116)) None (InerObjectDecl (mkSpan (mkPtok 42 "options1" 33 42 84) (mkPtok 3 "}" 41 0 114)) (mkPtok 42 "options1" 33 42 84) (mkPtok 2 "{" 33 51 85) [(MetaField (mkSpan (mkPtok 21 "u16" 33 52 86) (mkPtok 40 "," 33 74 89)) None (mkMetaDecl (mkSpan (mkPtok 21 "u16" 33 52 86) (mkPtok 40 "," 33 74 89)) (TyBasic (mkSpan (mkPtok 21 "u16" 33 52 86) (mkPtok 21 "u16" 33 52 86)) (mkBasicType (mkSpan (mkPtok 21 "u16" 33 52 86) (mkPtok 21 "u16" 33 52 86)) (mkPtok 21 "u16" 33 52 86))) (mkPtok 42 "leftPad" 33 56 87) (Some (mkPtok 43 (string_of_bytes [96; 116; 97; 98; 9; 104; 101; 114; 101; 96]%N) 33 64 88)) (mkPtok 40 "," 33 74 89))); (InerObjectField (mkSpan (mkPtok 36 "repeat" 33 76 90) (mkPtok 40 "," 38 0 100)) (Some (mkPtok 36 "repeat" 33 76 90)) (InerObjectDecl (mkSpan (mkPtok 42 "As" 33 83 91) (mkPtok 3 "}" 35 4 97)) (mkPtok 42 "As" 33 83 91) (mkPtok 2 "{" 34 0 92) [(ObjectField (mkSpan (mkPtok 42 "Logon" 34 1 93) (mkPtok 40 "," 35 2 96)) None (mkPtok 42 "Logon" 34 1 93) (Some (mkPtok 42 "Z9_" 34 7 94)) (Some (mkPtok 43 (string_of_bytes [96; 10; 96]%N) 34 11 95)) (mkPtok 40 "," 35 2 96))] (mkPtok 3 "}" 35 4 97)) (mkPtok 40 "," 38 0 100)); (LengthField (mkSpan (mkPtok 27 "i64" 39 0 101) (mkPtok 40 "," 39 26 106)) (mkLengthFieldDecl (mkSpan (mkPtok 27 "i64" 39 0 101) (mkPtok 40 "," 39 26 106)) (Some (TyBasic (mkSpan (mkPtok 27 "i64" 39 0 101) (mkPtok 27 "i64" 39 0 101)) (mkBasicType (mkSpan (mkPtok 27 "i64" 39 0 101) (mkPtok 27 "i64" 39 0 101)) (mkPtok 27 "i64" 39 0 101)))) (mkPtok 42 "float" 39 4 102) (mkLengthOf (mkSpan (mkPtok 7 "@lengthOf(" 39 9 103) (mkPtok 6 ")" 39 24 105)) (mkPtok 7 "@lengthOf(" 39 9 103) (mkPtok 42 "crc" 39 20 104) (mkPtok 6 ")" 39 24 105)) None (mkPtok 40 "," 39 26 106))); (LengthField (mkSpan (mkPtok 42 "x_y_z" 39 28 107) (mkPtok 40 "," 40 6 112)) (mkLengthFieldDecl (mkSpan (mkPtok 42 "x_y_z" 39 28 107) (mkPtok 40 "," 40 6 112)) None (mkPtok 42 "x_y_z" 39 28 107) (mkLengthOf (mkSpan (mkPtok 7 "@lengthOf(" 39 35 108) (mkPtok 6 ")" 40 5 111)) (mkPtok 7 "@lengthOf(" 39 35 108) (mkPtok 42 "roots" 40 0 110) (mkPtok 6 ")" 40 5 111)) None (mkPtok 40 "," 40 6 112)))] (mkPtok 3 "}" 41 0 114)) (mkPtok 40 "," 43 4 116)))] (mkPtok 3 "}" 43 6 117)))])).
Eval vm_compute in ("<<<M51>>>" ++ check (runes_of_ascii "
packet o
    { // @lengthOf(
repeat matchKey { string_ string_
    `say ""hi""`
, lengthOf
    // `tick` ""quote"" 'q'
    `// not a comment`	,
uint64	x@calculatedFrom(
""x y"" ), repeat matchKey repeatCount , } ,
@lengthOf(
    options1 ) repeat string u,} packet trueish
    // " ++ [128512]%N ++ runes_of_ascii " emoji
    { string charz , }
")).
Eval vm_compute in ("<<<M61>>>" ++ check (runes_of_ascii "options {// packet A { u8 x, }
falsey // `tick` ""quote"" 'q'
= 00 ;a1 = """ ++ [128512]%N ++ runes_of_ascii """uint8x
=	""" ++ [128512]%N ++ runes_of_ascii """}
packet charz {@rightPad(
) repeat char[7 ]matchKey , @rightPad // trailing space 
(
// a // b
// trailing space 
'\x00'//	t
)
int8
len , int8 msg_type @calculatedFrom( ""packet"") , stringy {zchar[ 7
]zchar
    ,uint8
charz`say ""hi""` ,
}
    // @lengthOf(
    , @tag( // a // b
0 ) i64 len @lengthOf( uint8x ) , match
// a // b
//x
x_y_z as
string_	{ ""abc""
: options1	,// a // b
[ 4294967296 , ""packet"" ] : calculatedFrom} ,} //	t
packet asx {
@tag( 4294967296 ) char[
    10
    ] o
,
// `tick` ""quote"" 'q'
// " ++ [27880; 37322]%N ++ runes_of_ascii "
} packet packetx { @tag( 65535
)	x_y_z // c
@calculatedFrom( ""abc"" ) , uint8x repeatCount `say ""hi""` ,@lengthOf( uint8x// " ++ [128512]%N ++ runes_of_ascii " emoji
) zchar[ 10
]f32a ,@lengthOf(	chars
    ) string
    x , zchar[0123456789
] float `tab	here`	, zchar[ 42] stringy
`crlf
line` ,falsey @calculatedFrom( """" )
    , @tag( 255
    )
float32 _x ,
/// triple
// packet A { u8 x, }
@calculatedFrom(  """" )
repeat _x, char[ 00
] //x
asx
@calculatedFrom(
    ""x y"" ) , }
")).
Eval vm_compute in ("<<<M71>>>" ++ check (runes_of_ascii " /// triple")).
Eval vm_compute in ("<<<M81>>>" ++ check (runes_of_ascii "
root packet int { @tag( //
0123456789 /// triple
) i32 repeatCount @lengthOf(
    crc ) , }packet int { @tag(
    0
    ) f64 zchar@lengthOf( // @lengthOf(
calculatedFrom	) //
, }
// @lengthOf(
")).
Eval vm_compute in ("<<<M91>>>" ++ check (runes_of_ascii "// @lengthOf(
packet i8i8{ zchar[4294967296 ] Z9_ @calculatedFrom( ""1"") ,  @calculatedFrom( ""a\""b""// " ++ [27880; 37322]%N ++ runes_of_ascii "
)
i8i8 @lengthOf(
lengthOf) `a\`,uint8x	@calculatedFrom( """ ++ [128512]%N ++ runes_of_ascii """ )
, i32 int ,}")).
Eval vm_compute in ("<<<M101>>>" ++ check (runes_of_ascii "
MetaData
    options1 {	i64 crc
, }
")).
Eval vm_compute in ("<<<M111>>>" ++ check (runes_of_ascii "packet msg_type {}packet metadata {@rightPad ('\x00'
) zchar[ 65535  ] body
// " ++ [128512]%N ++ runes_of_ascii " emoji
// trailing space 
, @tag(
// trailing space 
// a // b
00
) // c
@tag(4294967296) @lengthOf(
repeatCount
) repeat falsey
    , repeat msg_type{
    char[65535
/// triple
/// triple
]roots
, f32a , } //
, @leftPad
    (
    //
    ) i8i8// @lengthOf(
@calculatedFrom( """ ++ [233]%N ++ runes_of_ascii "t" ++ [233]%N ++ runes_of_ascii """), } packet T { leftPad i64_, repeat uint64 // @lengthOf(
tag
    ,
string
    pack `doc` , }
")).
Eval vm_compute in ("<<<T111>>>" ++ terms [mkTok 35 "packet" 1 0 false; mkTok 42 "msg_type" 1 7 false; mkTok 2 "{" 1 16 false; mkTok 3 "}" 1 17 false; mkTok 35 "packet" 1 18 false; mkTok 42 "metadata" 1 25 false; mkTok 2 "{" 1 34 false; mkTok 32 "@rightPad" 1 35 false; mkTok 8 "(" 1 45 false; mkTok 33 "'\x00'" 1 46 false; mkTok 6 ")" 2 0 false; mkTok 14 "zchar[" 2 2 false; mkTok 30 "65535" 2 9 false; mkTok 13 "]" 2 16 false; mkTok 42 "body" 2 18 false; mkTok 44 (string_of_bytes [47; 47; 32; 240; 159; 152; 128; 32; 101; 109; 111; 106; 105]%N) 3 0 true; mkTok 44 "// trailing space " 4 0 true; mkTok 40 "," 5 0 false; mkTok 9 "@tag(" 5 2 false; mkTok 44 "// trailing space " 6 0 true; mkTok 44 "// a // b" 7 0 true; mkTok 30 "00" 8 0 false; mkTok 6 ")" 9 0 false; mkTok 44 "// c" 9 2 true; mkTok 9 "@tag(" 10 0 false; mkTok 30 "4294967296" 10 5 false; mkTok 6 ")" 10 15 false; mkTok 7 "@lengthOf(" 10 17 false; mkTok 42 "repeatCount" 11 0 false; mkTok 6 ")" 12 0 false; mkTok 36 "repeat" 12 2 false; mkTok 42 "falsey" 12 9 false; mkTok 40 "," 13 4 false; mkTok 36 "repeat" 13 6 false; mkTok 42 "msg_type" 13 13 false; mkTok 2 "{" 13 21 false; mkTok 12 "char[" 14 4 false; mkTok 30 "65535" 14 9 false; mkTok 44 "/// triple" 15 0 true; mkTok 44 "/// triple" 16 0 true; mkTok 13 "]" 17 0 false; mkTok 42 "roots" 17 1 false; mkTok 40 "," 18 0 false; mkTok 42 "f32a" 18 2 false; mkTok 40 "," 18 7 false; mkTok 3 "}" 18 9 false; mkTok 44 "//" 18 11 true; mkTok 40 "," 19 0 false; mkTok 32 "@leftPad" 19 2 false; mkTok 8 "(" 20 4 false; mkTok 44 "//" 21 4 true; mkTok 6 ")" 22 4 false; mkTok 42 "i8i8" 22 6 false; mkTok 44 "// @lengthOf(" 22 10 true; mkTok 5 "@calculatedFrom(" 23 0 false; mkTok 31 (string_of_bytes [34; 195; 169; 116; 195; 169; 34]%N) 23 17 false; mkTok 6 ")" 23 22 false; mkTok 40 "," 23 23 false; mkTok 3 "}" 23 25 false; mkTok 35 "packet" 23 27 false; mkTok 42 "T" 23 34 false; mkTok 2 "{" 23 36 false; mkTok 42 "leftPad" 23 38 false; mkTok 42 "i64_" 23 46 false; mkTok 40 "," 23 50 false; mkTok 36 "repeat" 23 52 false; mkTok 23 "uint64" 23 59 false; mkTok 44 "// @lengthOf(" 23 66 true; mkTok 42 "tag" 24 0 false; mkTok 40 "," 25 4 false; mkTok 15 "string" 26 0 false; mkTok 42 "pack" 27 4 false; mkTok 43 "`doc`" 27 9 false; mkTok 40 "," 27 15 false; mkTok 3 "}" 27 17 false; mkTok 0 "<EOF>" 28 0 false] (mkPacket (mkPtok 35 "packet" 1 0 0) (Some (mkPtok 3 "}" 27 17 74)) [(DPacket (mkPacketDef (mkSpan (mkPtok 35 "packet" 1 0 0) (mkPtok 3 "}" 1 17 3)) None (mkPtok 35 "packet" 1 0 0) (mkPtok 42 "msg_type" 1 7 1) (mkPtok 2 "{" 1 16 2) [] (mkPtok 3 "}" 1 17 3))); (DPacket (mkPacketDef (mkSpan (mkPtok 35 "packet" 1 18 4) (mkPtok 3 "}" 23 25 58)) None (mkPtok 35 "packet" 1 18 4) (mkPtok 42 "metadata" 1 25 5) (mkPtok 2 "{" 1 34 6) [(mkFieldWithAttr (mkSpan (mkPtok 32 "@rightPad" 1 35 7) (mkPtok 40 "," 5 0 17)) [(FAPadding (mkSpan (mkPtok 32 "@rightPad" 1 35 7) (mkPtok 6 ")" 2 0 10)) (mkPaddingAttr (mkSpan (mkPtok 32 "@rightPad" 1 35 7) (mkPtok 6 ")" 2 0 10)) (mkPtok 32 "@rightPad" 1 35 7) (mkPtok 8 "(" 1 45 8) (Some (mkPtok 33 "'\x00'" 1 46 9)) (mkPtok 6 ")" 2 0 10)))] (MetaField (mkSpan (mkPtok 14 "zchar[" 2 2 11) (mkPtok 40 "," 5 0 17)) None (mkMetaDecl (mkSpan (mkPtok 14 "zchar[" 2 2 11) (mkPtok 40 "," 5 0 17)) (TyFixed (mkSpan (mkPtok 14 "zchar[" 2 2 11) (mkPtok 13 "]" 2 16 13)) (mkFixedString (mkSpan (mkPtok 14 "zchar[" 2 2 11) (mkPtok 13 "]" 2 16 13)) (mkPtok 14 "zchar[" 2 2 11) (mkPtok 30 "65535" 2 9 12) (mkPtok 13 "]" 2 16 13))) (mkPtok 42 "body" 2 18 14) None (mkPtok 40 "," 5 0 17)))); (mkFieldWithAttr (mkSpan (mkPtok 9 "@tag(" 5 2 18) (mkPtok 40 "," 13 4 32)) [(FATag (mkSpan (mkPtok 9 "@tag(" 5 2 18) (mkPtok 6 ")" 9 0 22)) (mkTagAttr (mkSpan (mkPtok 9 "@tag(" 5 2 18) (mkPtok 6 ")" 9 0 22)) (mkPtok 9 "@tag(" 5 2 18) (mkPtok 30 "00" 8 0 21) (mkPtok 6 ")" 9 0 22))); (FATag (mkSpan (mkPtok 9 "@tag(" 10 0 24) (mkPtok 6 ")" 10 15 26)) (mkTagAttr (mkSpan (mkPtok 9 "@tag(" 10 0 24) (mkPtok 6 ")" 10 15 26)) (mkPtok 9 "@tag(" 10 0 24) (mkPtok 30 "4294967296" 10 5 25) (mkPtok 6 ")" 10 15 26))); (FALengthOf (mkSpan (mkPtok 7 "@lengthOf(" 10 17 27) (mkPtok 6 ")" 12 0 29)) (mkLengthOf (mkSpan (mkPtok 7 "@lengthOf(" 10 17 27) (mkPtok 6 ")" 12 0 29)) (mkPtok 7 "@lengthOf(" 10 17 27) (mkPtok 42 "repeatCount" 11 0 28) (mkPtok 6 ")" 12 0 29)))] (ObjectField (mkSpan (mkPtok 36 "repeat" 12 2 30) (mkPtok 40 "," 13 4 32)) (Some (mkPtok 36 "repeat" 12 2 30)) (mkPtok 42 "falsey" 12 9 31) None None (mkPtok 40 "," 13 4 32))); (mkFieldWithAttr (mkSpan (mkPtok 36 "repeat" 13 6 33) (mkPtok 40 "," 19 0 47)) [] (InerObjectField (mkSpan (mkPtok 36 "repeat" 13 6 33) (mkPtok 40 "," 19 0 47)) (Some (mkPtok 36 "repeat" 13 6 33)) (InerObjectDecl (mkSpan (mkPtok 42 "msg_type" 13 13 34) (mkPtok 3 "}" 18 9 45)) (mkPtok 42 "msg_type" 13 13 34) (mkPtok 2 "{" 13 21 35) [(MetaField (mkSpan (mkPtok 12 "char[" 14 4 36) (mkPtok 40 "," 18 0 42)) None (mkMetaDecl (mkSpan (mkPtok 12 "char[" 14 4 36) (mkPtok 40 "," 18 0 42)) (TyFixed (mkSpan (mkPtok 12 "char[" 14 4 36) (mkPtok 13 "]" 17 0 40)) (mkFixedString (mkSpan (mkPtok 12 "char[" 14 4 36) (mkPtok 13 "]" 17 0 40)) (mkPtok 12 "char[" 14 4 36) (mkPtok 30 "65535" 14 9 37) (mkPtok 13 "]" 17 0 40))) (mkPtok 42 "roots" 17 1 41) None (mkPtok 40 "," 18 0 42))); (ObjectField (mkSpan (mkPtok 42 "f32a" 18 2 43) (mkPtok 40 "," 18 7 44)) None (mkPtok 42 "f32a" 18 2 43) None None (mkPtok 40 "," 18 7 44))] (mkPtok 3 "}" 18 9 45)) (mkPtok 40 "," 19 0 47))); (mkFieldWithAttr (mkSpan (mkPtok 32 "@leftPad" 19 2 48) (mkPtok 40 "," 23 23 57)) [(FAPadding (mkSpan (mkPtok 32 "@leftPad" 19 2 48) (mkPtok 6 ")" 22 4 51)) (mkPaddingAttr (mkSpan (mkPtok 32 "@leftPad" 19 2 48) (mkPtok 6 ")" 22 4 51)) (mkPtok 32 "@leftPad" 19 2 48) (mkPtok 8 "(" 20 4 49) None (mkPtok 6 ")" 22 4 51)))] (CheckSumField (mkSpan (mkPtok 42 "i8i8" 22 6 52) (mkPtok 40 "," 23 23 57)) (mkChecksumFieldDecl (mkSpan (mkPtok 42 "i8i8" 22 6 52) (mkPtok 40 "," 23 23 57)) None (mkPtok 42 "i8i8" 22 6 52) (mkCalculatedFrom (mkSpan (mkPtok 5 "@calculatedFrom(" 23 0 54) (mkPtok 6 ")" 23 22 56)) (mkPtok 5 "@calculatedFrom(" 23 0 54) (mkPtok 31 (string_of_bytes [34; 195; 169; 116; 195; 169; 34]%N) 23 17 55) (mkPtok 6 ")" 23 22 56)) None (mkPtok 40 "," 23 23 57))))] (mkPtok 3 "}" 23 25 58))); (DPacket (mkPacketDef (mkSpan (mkPtok 35 "packet" 23 27 59) (mkPtok 3 "}" 27 17 74)) None (mkPtok 35 "packet" 23 27 59) (mkPtok 42 "T" 23 34 60) (mkPtok 2 "{" 23 36 61) [(mkFieldWithAttr (mkSpan (mkPtok 42 "leftPad" 23 38 62) (mkPtok 40 "," 23 50 64)) [] (ObjectField (mkSpan (mkPtok 42 "leftPad" 23 38 62) (mkPtok 40 "," 23 50 64)) None (mkPtok 42 "leftPad" 23 38 62) (Some (mkPtok 42 "i64_" 23 46 63)) None (mkPtok 40 "," 23 50 64))); (mkFieldWithAttr (mkSpan (mkPtok 36 "repeat" 23 52 65) (mkPtok 40 "," 25 4 69)) [] (MetaField (mkSpan (mkPtok 36 "repeat" 23 52 65) (mkPtok 40 "," 25 4 69)) (Some (mkPtok 36 "repeat" 23 52 65)) (mkMetaDecl (mkSpan (mkPtok 23 "uint64" 23 59 66) (mkPtok 40 "," 25 4 69)) (TyBasic (mkSpan (mkPtok 23 "uint64" 23 59 66) (mkPtok 23 "uint64" 23 59 66)) (mkBasicType (mkSpan (mkPtok 23 "uint64" 23 59 66) (mkPtok 23 "uint64" 23 59 66)) (mkPtok 23 "uint64" 23 59 66))) (mkPtok 42 "tag" 24 0 68) None (mkPtok 40 "," 25 4 69)))); (mkFieldWithAttr (mkSpan (mkPtok 15 "string" 26 0 70) (mkPtok 40 "," 27 15 73)) [] (MetaField (mkSpan (mkPtok 15 "string" 26 0 70) (mkPtok 40 "," 27 15 73)) None (mkMetaDecl (mkSpan (mkPtok 15 "string" 26 0 70) (mkPtok 40 "," 27 15 73)) (TyDynamic (mkSpan (mkPtok 15 "string" 26 0 70) (mkPtok 15 "string" 26 0 70)) (mkDynamicString (mkSpan (mkPtok 15 "string" 26 0 70) (mkPtok 15 "string" 26 0 70)) (mkPtok 15 "string" 26 0 70))) (mkPtok 42 "pack" 27 4 71) (Some (mkPtok 43 "`doc`" 27 9 72)) (mkPtok 40 "," 27 15 73))))] (mkPtok 3 "}" 27 17 74)))])).
Eval vm_compute in ("<<<M121>>>" ++ check (runes_of_ascii "root packet pack
{
char[
7	]
    i64_
, @calculatedFrom(	""it's"" )@tag( 0123456789  )	repeat uint8 u8x `" ++ [28040; 24687; 31867; 22411]%N ++ runes_of_ascii "`,char[ 4294967296 ]
    f32a
    `a\` //	t
, char[ 10]
x_y_z
,f32a
    , // trailing space 
match u128 as i64_
{10
:leftPad , [	""abc"" ,
3
,
// trailing space 
// packet A { u8 x, }
""`tick`""/// triple
, 00 , ""x y""
] : lengthOf , // packet A { u8 x, }
1
    :/// triple
rootA ,
""a	b"" : options1 , ""a\""b""
//
// @lengthOf(
: // trailing space 
asx , [
""// no comment"" ]:
lengthOf ,
    } ,
@tag( 3
) i16
Z9_`crlf
line` ,
    float len `tab	here` , @tag(
00 )
BodyLength
,}")).
Eval vm_compute in ("<<<M131>>>" ++ check (runes_of_ascii "
options { int
    = false Logon	='0';
}
root
packet leftPad {
    zchar[ 42]
    x//x
`u8 x,`, x_y_z
{ falsey trueish
,
falsey{repeat
    Foo u128  , }
    // a // b
    ,i32 trueish @lengthOf(BodyLength ) `a\`
    , repeat zchar
{
match zchar as
    // trailing space 
    zchar { """" : zchar ,
    [ ""1"",	""`tick`""
    ,""// no comment""
, //	t
""// no comment"", ""// no comment""
]: body, ""`tick`"":i64_ ""abc"" : metadata ,[	""// no comment"",
// @lengthOf(
/// triple
""" ++ [233]%N ++ runes_of_ascii "t" ++ [233]%N ++ runes_of_ascii """ ]: Foo ""it's""
:	Logon , } ,
    repeat zchar[
    0123456789] x_y_z `it's`// packet A { u8 x, }
, u32
    i64_ , int
    , // " ++ [27880; 37322]%N ++ runes_of_ascii "
} , } ,
    @tag(1
    ) char[
    3
//
// a // b
] falsey @calculatedFrom( """ ++ [233]%N ++ runes_of_ascii "t" ++ [233]%N ++ runes_of_ascii """ )
,// " ++ [27880; 37322]%N ++ runes_of_ascii "
@tag(007 ) repeat msg_type
{ zchar[1
] f32a
, }, pack
x_y_z, int8 Logon
    //
    @calculatedFrom(//	t
""\n"" ) ,
float32
    u8x @lengthOf( body )`crlf
line` ,  repeat
    packetx
    // " ++ [128512]%N ++ runes_of_ascii " emoji
    {uint8x
    { repeat
msg_type
{x_y_z calculatedFrom ,match tag
as
float{
3 :
int ,
[
7
    , ""packet""
]
    : u128
,
    ""it's""
:
    o, 007 :
MetaDataX, } , /// triple
}, }/// triple
,
    Packet
@calculatedFrom( ""// no comment""
    ), }, zchar[65535
    ]falsey
@lengthOf( leftPad)
    ,
    // " ++ [128512]%N ++ runes_of_ascii " emoji
    } packet x_y_z{
    char[]	metadata
,
    @lengthOf(u128
)
    match As
    as calculatedFrom
    {	""" ++ [233]%N ++ runes_of_ascii "t" ++ [233]%N ++ runes_of_ascii """ // c
:
i8i8, } , repeat zchar[ 7// c
]Packet
// c
// " ++ [27880; 37322]%N ++ runes_of_ascii "
`doc`, repeat
    string
u128
,repeat // " ++ [27880; 37322]%N ++ runes_of_ascii "
int32 _x
,crc A, @lengthOf( matchKey
    )//	t
tag	{
    match rootA  as MetaDataX	{ 10
: BodyLength 255 : asx ,	""// no comment""// trailing space 
:  float , ""`tick`"" :
//
//	t
roots 00  : stringy , } ,} , }packet uint8x {@leftPad // trailing space 
( '\x00'	)
char[]  Packet, repeat
int {  repeat	int8
leftPad , msg_type
    @lengthOf(
T) , //	t
repeat
    i16 As
// @lengthOf(
// a // b
`{ , }`
    // `tick` ""quote"" 'q'
    , match calculatedFrom as
    Packet // `tick` ""quote"" 'q'
{ [ ""packet""
,
// `tick` ""quote"" 'q'
// packet A { u8 x, }
""""
    ,
""a\""b"" , ""packet"",
""a\""b"" ,  0	, 00
] : Z9_	, [	4294967296 ] :
    len ,
}
    // c
    , } ,	@tag( 10
)uint64
u8x
@calculatedFrom(	"""" ) , char[ 007
    ] a1 `
` ,
    @leftPad ( )
    char[	4294967296 ] pack  ,  }")).
Eval vm_compute in ("<<<M141>>>" ++ check (runes_of_ascii "
root packet
rootA {
    @leftPad  ( ) @rightPad ( '\x00'
)
    char[
    42]leftPad ,  repeat zchar[10 ] chars  `line1
line2` ,}
")).
Eval vm_compute in ("<<<M151>>>" ++ check (runes_of_ascii "//
MetaData _x{ int32 options1
,} 	 ")).
Eval vm_compute in ("<<<M161>>>" ++ check (runes_of_ascii "root packet
int{ } MetaData
    _x {i16 repeatCount ``
,	As
o
// @lengthOf(
// " ++ [27880; 37322]%N ++ runes_of_ascii "
, zchar[0123456789  ] T //	t
, matchKey a1 , i16
Z9_
,
    }
")).
Eval vm_compute in ("<<<M171>>>" ++ check (runes_of_ascii "// " ++ [128512]%N ++ runes_of_ascii " emoji
options
{ zchar=""`tick`""
; // @lengthOf(
a1 = // " ++ [27880; 37322]%N ++ runes_of_ascii "
'\x00'
    ;}")).
Eval vm_compute in ("<<<M181>>>" ++ check (runes_of_ascii "packet Foo
{ repeat zchar{
    Logon ``
, uint8 trueish@calculatedFrom(""\" ++ [233]%N ++ runes_of_ascii """ ), match u	as  chars { 0123456789 // c
: Header, 3
    : calculatedFrom ""a\\"" : Logon [42
    // `tick` ""quote"" 'q'
    , 007, """ ++ [128512]%N ++ runes_of_ascii """
,
""`tick`""/// triple
,""" ++ [28040; 24687]%N ++ runes_of_ascii """, 1 ,
""a\\"", 007// @lengthOf(
]
    :
// c
// packet A { u8 x, }
charz } // trailing space 
,},
    @lengthOf( roots // c
) match
    _x// " ++ [27880; 37322]%N ++ runes_of_ascii "
as zchar
{
""" ++ [233]%N ++ runes_of_ascii "t" ++ [233]%N ++ runes_of_ascii """:i8i8
, } ,
// `tick` ""quote"" 'q'
//
@calculatedFrom( """ ++ [233]%N ++ runes_of_ascii "t" ++ [233]%N ++ runes_of_ascii """)  @lengthOf(
chars
) @tag(
    1)
    // " ++ [27880; 37322]%N ++ runes_of_ascii "
    match u8x as
float { [ ""abc""
]: rootA , [ 00
,
    ""a\\"" , ""\" ++ [233]%N ++ runes_of_ascii """,
10 ,""a	b""
    , 42,
// packet A { u8 x, }
/// triple
""" ++ [28040; 24687]%N ++ runes_of_ascii """ ,// @lengthOf(
""\" ++ [233]%N ++ runes_of_ascii """ // packet A { u8 x, }
] : crc
    , } , match
    falsey as body { 1: x_y_z, ""it's"":
    body, [ ""1"", ""packet""
// " ++ [128512]%N ++ runes_of_ascii " emoji
/// triple
,""" ++ [28040; 24687]%N ++ runes_of_ascii """ ]
    :	rootA, 0
    : u128 ,// c
""packet"" : uint8x,}, u64 a1@lengthOf( // " ++ [27880; 37322]%N ++ runes_of_ascii "
packetx
    ) `a\`
,
Logon, @tag(
1	) // packet A { u8 x, }
@lengthOf(
    // @lengthOf(
    u8x ) string_ uint8x
    , repeat leftPad// packet A { u8 x, }
`u8 x,`
, repeat// trailing space 
metadata
    Logon, } packet len {
int  @calculatedFrom( ""it's""
    )`" ++ [28040; 24687; 31867; 22411]%N ++ runes_of_ascii "` ,
/// triple
// `tick` ""quote"" 'q'
leftPad
{ match float	as rootA{ //
007 :rootA , //	t
255  :
matchKey ""abc""
:
options1 ,3 :
    zchar } , } ,	} packet
i64_ { match	options1  as options1 { 4294967296
://
asx 255:
len	, [ 42 ,""\" ++ [233]%N ++ runes_of_ascii """
,""a\""b"" , 0, ""abc"" ,"""",
""x y"" , ""abc"" ]
    :f32a ""a	b""
: lengthOf ,
} ,
}
")).
Eval vm_compute in ("<<<T181>>>" ++ terms [mkTok 35 "packet" 1 0 false; mkTok 42 "Foo" 1 7 false; mkTok 2 "{" 2 0 false; mkTok 36 "repeat" 2 2 false; mkTok 42 "zchar" 2 9 false; mkTok 2 "{" 2 14 false; mkTok 42 "Logon" 3 4 false; mkTok 43 "``" 3 10 false; mkTok 40 "," 4 0 false; mkTok 20 "uint8" 4 2 false; mkTok 42 "trueish" 4 8 false; mkTok 5 "@calculatedFrom(" 4 15 false; mkTok 31 (string_of_bytes [34; 92; 195; 169; 34]%N) 4 31 false; mkTok 6 ")" 4 36 false; mkTok 40 "," 4 37 false; mkTok 38 "match" 4 39 false; mkTok 42 "u" 4 45 false; mkTok 17 "as" 4 47 false; mkTok 42 "chars" 4 51 false; mkTok 2 "{" 4 57 false; mkTok 30 "0123456789" 4 59 false; mkTok 44 "// c" 4 70 true; mkTok 39 ":" 5 0 false; mkTok 42 "Header" 5 2 false; mkTok 40 "," 5 8 false; mkTok 30 "3" 5 10 false; mkTok 39 ":" 6 4 false; mkTok 42 "calculatedFrom" 6 6 false; mkTok 31 """a\\""" 6 21 false; mkTok 39 ":" 6 27 false; mkTok 42 "Logon" 6 29 false; mkTok 18 "[" 6 35 false; mkTok 30 "42" 6 36 false; mkTok 44 "// `tick` ""quote"" 'q'" 7 4 true; mkTok 40 "," 8 4 false; mkTok 30 "007" 8 6 false; mkTok 40 "," 8 9 false; mkTok 31 (string_of_bytes [34; 240; 159; 152; 128; 34]%N) 8 11 false; mkTok 40 "," 9 0 false; mkTok 31 """`tick`""" 10 0 false; mkTok 44 "/// triple" 10 8 true; mkTok 40 "," 11 0 false; mkTok 31 (string_of_bytes [34; 230; 182; 136; 230; 129; 175; 34]%N) 11 1 false; mkTok 40 "," 11 5 false; mkTok 30 "1" 11 7 false; mkTok 40 "," 11 9 false; mkTok 31 """a\\""" 12 0 false; mkTok 40 "," 12 5 false; mkTok 30 "007" 12 7 false; mkTok 44 "// @lengthOf(" 12 10 true; mkTok 13 "]" 13 0 false; mkTok 39 ":" 14 4 false; mkTok 44 "// c" 15 0 true; mkTok 44 "// packet A { u8 x, }" 16 0 true; mkTok 42 "charz" 17 0 false; mkTok 3 "}" 17 6 false; mkTok 44 "// trailing space " 17 8 true; mkTok 40 "," 18 0 false; mkTok 3 "}" 18 1 false; mkTok 40 "," 18 2 false; mkTok 7 "@lengthOf(" 19 4 false; mkTok 42 "roots" 19 15 false; mkTok 44 "// c" 19 21 true; mkTok 6 ")" 20 0 false; mkTok 38 "match" 20 2 false; mkTok 42 "_x" 21 4 false; mkTok 44 (string_of_bytes [47; 47; 32; 230; 179; 168; 233; 135; 138]%N) 21 6 true; mkTok 17 "as" 22 0 false; mkTok 42 "zchar" 22 3 false; mkTok 2 "{" 23 0 false; mkTok 31 (string_of_bytes [34; 195; 169; 116; 195; 169; 34]%N) 24 0 false; mkTok 39 ":" 24 5 false; mkTok 42 "i8i8" 24 6 false; mkTok 40 "," 25 0 false; mkTok 3 "}" 25 2 false; mkTok 40 "," 25 4 false; mkTok 44 "// `tick` ""quote"" 'q'" 26 0 true; mkTok 44 "//" 27 0 true; mkTok 5 "@calculatedFrom(" 28 0 false; mkTok 31 (string_of_bytes [34; 195; 169; 116; 195; 169; 34]%N) 28 17 false; mkTok 6 ")" 28 22 false; mkTok 7 "@lengthOf(" 28 25 false; mkTok 42 "chars" 29 0 false; mkTok 6 ")" 30 0 false; mkTok 9 "@tag(" 30 2 false; mkTok 30 "1" 31 4 false; mkTok 6 ")" 31 5 false; mkTok 44 (string_of_bytes [47; 47; 32; 230; 179; 168; 233; 135; 138]%N) 32 4 true; mkTok 38 "match" 33 4 false; mkTok 42 "u8x" 33 10 false; mkTok 17 "as" 33 14 false; mkTok 42 "float" 34 0 false; mkTok 2 "{" 34 6 false; mkTok 18 "[" 34 8 false; mkTok 31 """abc""" 34 10 false; mkTok 13 "]" 35 0 false; mkTok 39 ":" 35 1 false; mkTok 42 "rootA" 35 3 false; mkTok 40 "," 35 9 false; mkTok 18 "[" 35 11 false; mkTok 30 "00" 35 13 false; mkTok 40 "," 36 0 false; mkTok 31 """a\\""" 37 4 false; mkTok 40 "," 37 10 false; mkTok 31 (string_of_bytes [34; 92; 195; 169; 34]%N) 37 12 false; mkTok 40 "," 37 16 false; mkTok 30 "10" 38 0 false; mkTok 40 "," 38 3 false; mkTok 31 (string_of_bytes [34; 97; 9; 98; 34]%N) 38 4 false; mkTok 40 "," 39 4 false; mkTok 30 "42" 39 6 false; mkTok 40 "," 39 8 false; mkTok 44 "// packet A { u8 x, }" 40 0 true; mkTok 44 "/// triple" 41 0 true; mkTok 31 (string_of_bytes [34; 230; 182; 136; 230; 129; 175; 34]%N) 42 0 false; mkTok 40 "," 42 5 false; mkTok 44 "// @lengthOf(" 42 6 true; mkTok 31 (string_of_bytes [34; 92; 195; 169; 34]%N) 43 0 false; mkTok 44 "// packet A { u8 x, }" 43 5 true; mkTok 13 "]" 44 0 false; mkTok 39 ":" 44 2 false; mkTok 42 "crc" 44 4 false; mkTok 40 "," 45 4 false; mkTok 3 "}" 45 6 false; mkTok 40 "," 45 8 false; mkTok 38 "match" 45 10 false; mkTok 42 "falsey" 46 4 false; mkTok 17 "as" 46 11 false; mkTok 42 "body" 46 14 false; mkTok 2 "{" 46 19 false; mkTok 30 "1" 46 21 false; mkTok 39 ":" 46 22 false; mkTok 42 "x_y_z" 46 24 false; mkTok 40 "," 46 29 false; mkTok 31 """it's""" 46 31 false; mkTok 39 ":" 46 37 false; mkTok 42 "body" 47 4 false; mkTok 40 "," 47 8 false; mkTok 18 "[" 47 10 false; mkTok 31 """1""" 47 12 false; mkTok 40 "," 47 15 false; mkTok 31 """packet""" 47 17 false; mkTok 44 (string_of_bytes [47; 47; 32; 240; 159; 152; 128; 32; 101; 109; 111; 106; 105]%N) 48 0 true; mkTok 44 "/// triple" 49 0 true; mkTok 40 "," 50 0 false; mkTok 31 (string_of_bytes [34; 230; 182; 136; 230; 129; 175; 34]%N) 50 1 false; mkTok 13 "]" 50 6 false; mkTok 39 ":" 51 4 false; mkTok 42 "rootA" 51 6 false; mkTok 40 "," 51 11 false; mkTok 30 "0" 51 13 false; mkTok 39 ":" 52 4 false; mkTok 42 "u128" 52 6 false; mkTok 40 "," 52 11 false; mkTok 44 "// c" 52 12 true; mkTok 31 """packet""" 53 0 false; mkTok 39 ":" 53 9 false; mkTok 42 "uint8x" 53 11 false; mkTok 40 "," 53 17 false; mkTok 3 "}" 53 18 false; mkTok 40 "," 53 19 false; mkTok 23 "u64" 53 21 false; mkTok 42 "a1" 53 25 false; mkTok 7 "@lengthOf(" 53 27 false; mkTok 44 (string_of_bytes [47; 47; 32; 230; 179; 168; 233; 135; 138]%N) 53 38 true; mkTok 42 "packetx" 54 0 false; mkTok 6 ")" 55 4 false; mkTok 43 "`a\`" 55 6 false; mkTok 40 "," 56 0 false; mkTok 42 "Logon" 57 0 false; mkTok 40 "," 57 5 false; mkTok 9 "@tag(" 57 7 false; mkTok 30 "1" 58 0 false; mkTok 6 ")" 58 2 false; mkTok 44 "// packet A { u8 x, }" 58 4 true; mkTok 7 "@lengthOf(" 59 0 false; mkTok 44 "// @lengthOf(" 60 4 true; mkTok 42 "u8x" 61 4 false; mkTok 6 ")" 61 8 false; mkTok 42 "string_" 61 10 false; mkTok 42 "uint8x" 61 18 false; mkTok 40 "," 62 4 false; mkTok 36 "repeat" 62 6 false; mkTok 42 "leftPad" 62 13 false; mkTok 44 "// packet A { u8 x, }" 62 20 true; mkTok 43 "`u8 x,`" 63 0 false; mkTok 40 "," 64 0 false; mkTok 36 "repeat" 64 2 false; mkTok 44 "// trailing space " 64 8 true; mkTok 42 "metadata" 65 0 false; mkTok 42 "Logon" 66 4 false; mkTok 40 "," 66 9 false; mkTok 3 "}" 66 11 false; mkTok 35 "packet" 66 13 false; mkTok 42 "len" 66 20 false; mkTok 2 "{" 66 24 false; mkTok 42 "int" 67 0 false; mkTok 5 "@calculatedFrom(" 67 5 false; mkTok 31 """it's""" 67 22 false; mkTok 6 ")" 68 4 false; mkTok 43 (string_of_bytes [96; 230; 182; 136; 230; 129; 175; 231; 177; 187; 229; 158; 139; 96]%N) 68 5 false; mkTok 40 "," 68 12 false; mkTok 44 "/// triple" 69 0 true; mkTok 44 "// `tick` ""quote"" 'q'" 70 0 true; mkTok 42 "leftPad" 71 0 false; mkTok 2 "{" 72 0 false; mkTok 38 "match" 72 2 false; mkTok 42 "float" 72 8 false; mkTok 17 "as" 72 14 false; mkTok 42 "rootA" 72 17 false; mkTok 2 "{" 72 22 false; mkTok 44 "//" 72 24 true; mkTok 30 "007" 73 0 false; mkTok 39 ":" 73 4 false; mkTok 42 "rootA" 73 5 false; mkTok 40 "," 73 11 false; mkTok 44 (string_of_bytes [47; 47; 9; 116]%N) 73 13 true; mkTok 30 "255" 74 0 false; mkTok 39 ":" 74 5 false; mkTok 42 "matchKey" 75 0 false; mkTok 31 """abc""" 75 9 false; mkTok 39 ":" 76 0 false; mkTok 42 "options1" 77 0 false; mkTok 40 "," 77 9 false; mkTok 30 "3" 77 10 false; mkTok 39 ":" 77 12 false; mkTok 42 "zchar" 78 4 false; mkTok 3 "}" 78 10 false; mkTok 40 "," 78 12 false; mkTok 3 "}" 78 14 false; mkTok 40 "," 78 16 false; mkTok 3 "}" 78 18 false; mkTok 35 "packet" 78 20 false; mkTok 42 "i64_" 79 0 false; mkTok 2 "{" 79 5 false; mkTok 38 "match" 79 7 false; mkTok 42 "options1" 79 13 false; mkTok 17 "as" 79 23 false; mkTok 42 "options1" 79 26 false; mkTok 2 "{" 79 35 false; mkTok 30 "4294967296" 79 37 false; mkTok 39 ":" 80 0 false; mkTok 44 "//" 80 1 true; mkTok 42 "asx" 81 0 false; mkTok 30 "255" 81 4 false; mkTok 39 ":" 81 7 false; mkTok 42 "len" 82 0 false; mkTok 40 "," 82 4 false; mkTok 18 "[" 82 6 false; mkTok 30 "42" 82 8 false; mkTok 40 "," 82 11 false; mkTok 31 (string_of_bytes [34; 92; 195; 169; 34]%N) 82 12 false; mkTok 40 "," 83 0 false; mkTok 31 """a\""b""" 83 1 false; mkTok 40 "," 83 8 false; mkTok 30 "0" 83 10 false; mkTok 40 "," 83 11 false; mkTok 31 """abc""" 83 13 false; mkTok 40 "," 83 19 false; mkTok 31 """""" 83 20 false; mkTok 40 "," 83 22 false; mkTok 31 """x y""" 84 0 false; mkTok 40 "," 84 6 false; mkTok 31 """abc""" 84 8 false; mkTok 13 "]" 84 14 false; mkTok 39 ":" 85 4 false; mkTok 42 "f32a" 85 5 false; mkTok 31 (string_of_bytes [34; 97; 9; 98; 34]%N) 85 10 false; mkTok 39 ":" 86 0 false; mkTok 42 "lengthOf" 86 2 false; mkTok 40 "," 86 11 false; mkTok 3 "}" 87 0 false; mkTok 40 "," 87 2 false; mkTok 3 "}" 88 0 false; mkTok 0 "<EOF>" 89 0 false] (mkPacket (mkPtok 35 "packet" 1 0 0) (Some (mkPtok 3 "}" 88 0 273)) [(DPacket (mkPacketDef (mkSpan (mkPtok 35 "packet" 1 0 0) (mkPtok 3 "}" 66 11 192)) None (mkPtok 35 "packet" 1 0 0) (mkPtok 42 "Foo" 1 7 1) (mkPtok 2 "{" 2 0 2) [(mkFieldWithAttr (mkSpan (mkPtok 36 "repeat" 2 2 3) (mkPtok 40 "," 18 2 59)) [] (InerObjectField (mkSpan (mkPtok 36 "repeat" 2 2 3) (mkPtok 40 "," 18 2 59)) (Some (mkPtok 36 "repeat" 2 2 3)) (InerObjectDecl (mkSpan (mkPtok 42 "zchar" 2 9 4) (mkPtok 3 "}" 18 1 58)) (mkPtok 42 "zchar" 2 9 4) (mkPtok 2 "{" 2 14 5) [(ObjectField (mkSpan (mkPtok 42 "Logon" 3 4 6) (mkPtok 40 "," 4 0 8)) None (mkPtok 42 "Logon" 3 4 6) None (Some (mkPtok 43 "``" 3 10 7)) (mkPtok 40 "," 4 0 8)); (CheckSumField (mkSpan (mkPtok 20 "uint8" 4 2 9) (mkPtok 40 "," 4 37 14)) (mkChecksumFieldDecl (mkSpan (mkPtok 20 "uint8" 4 2 9) (mkPtok 40 "," 4 37 14)) (Some (TyBasic (mkSpan (mkPtok 20 "uint8" 4 2 9) (mkPtok 20 "uint8" 4 2 9)) (mkBasicType (mkSpan (mkPtok 20 "uint8" 4 2 9) (mkPtok 20 "uint8" 4 2 9)) (mkPtok 20 "uint8" 4 2 9)))) (mkPtok 42 "trueish" 4 8 10) (mkCalculatedFrom (mkSpan (mkPtok 5 "@calculatedFrom(" 4 15 11) (mkPtok 6 ")" 4 36 13)) (mkPtok 5 "@calculatedFrom(" 4 15 11) (mkPtok 31 (string_of_bytes [34; 92; 195; 169; 34]%N) 4 31 12) (mkPtok 6 ")" 4 36 13)) None (mkPtok 40 "," 4 37 14))); (MatchField (mkSpan (mkPtok 38 "match" 4 39 15) (mkPtok 40 "," 18 0 57)) (mkMatchFieldDecl (mkSpan (mkPtok 38 "match" 4 39 15) (mkPtok 3 "}" 17 6 55)) (mkPtok 38 "match" 4 39 15) (mkPtok 42 "u" 4 45 16) (mkPtok 17 "as" 4 47 17) (mkPtok 42 "chars" 4 51 18) (mkPtok 2 "{" 4 57 19) [(mkMatchPair (mkSpan (mkPtok 30 "0123456789" 4 59 20) (mkPtok 40 "," 5 8 24)) (MKDigits (mkPtok 30 "0123456789" 4 59 20)) (mkPtok 39 ":" 5 0 22) (mkPtok 42 "Header" 5 2 23) (Some (mkPtok 40 "," 5 8 24))); (mkMatchPair (mkSpan (mkPtok 30 "3" 5 10 25) (mkPtok 42 "calculatedFrom" 6 6 27)) (MKDigits (mkPtok 30 "3" 5 10 25)) (mkPtok 39 ":" 6 4 26) (mkPtok 42 "calculatedFrom" 6 6 27) None); (mkMatchPair (mkSpan (mkPtok 31 """a\\""" 6 21 28) (mkPtok 42 "Logon" 6 29 30)) (MKString (mkPtok 31 """a\\""" 6 21 28)) (mkPtok 39 ":" 6 27 29) (mkPtok 42 "Logon" 6 29 30) None); (mkMatchPair (mkSpan (mkPtok 18 "[" 6 35 31) (mkPtok 42 "charz" 17 0 54)) (MKList (mkKeyList (mkSpan (mkPtok 18 "[" 6 35 31) (mkPtok 13 "]" 13 0 50)) (mkPtok 18 "[" 6 35 31) (mkPtok 30 "42" 6 36 32) [((mkPtok 40 "," 8 4 34), (mkPtok 30 "007" 8 6 35)); ((mkPtok 40 "," 8 9 36), (mkPtok 31 (string_of_bytes [34; 240; 159; 152; 128; 34]%N) 8 11 37)); ((mkPtok 40 "," 9 0 38), (mkPtok 31 """`tick`""" 10 0 39)); ((mkPtok 40 "," 11 0 41), (mkPtok 31 (string_of_bytes [34; 230; 182; 136; 230; 129; 175; 34]%N) 11 1 42)); ((mkPtok 40 "," 11 5 43), (mkPtok 30 "1" 11 7 44)); ((mkPtok 40 "," 11 9 45), (mkPtok 31 """a\\""" 12 0 46)); ((mkPtok 40 "," 12 5 47), (mkPtok 30 "007" 12 7 48))] (mkPtok 13 "]" 13 0 50))) (mkPtok 39 ":" 14 4 51) (mkPtok 42 "charz" 17 0 54) None)] (mkPtok 3 "}" 17 6 55)) (mkPtok 40 "," 18 0 57))] (mkPtok 3 "}" 18 1 58)) (mkPtok 40 "," 18 2 59))); (mkFieldWithAttr (mkSpan (mkPtok 7 "@lengthOf(" 19 4 60) (mkPtok 40 "," 25 4 75)) [(FALengthOf (mkSpan (mkPtok 7 "@lengthOf(" 19 4 60) (mkPtok 6 ")" 20 0 63)) (mkLengthOf (mkSpan (mkPtok 7 "@lengthOf(" 19 4 60) (mkPtok 6 ")" 20 0 63)) (mkPtok 7 "@lengthOf(" 19 4 60) (mkPtok 42 "roots" 19 15 61) (mkPtok 6 ")" 20 0 63)))] (MatchField (mkSpan (mkPtok 38 "match" 20 2 64) (mkPtok 40 "," 25 4 75)) (mkMatchFieldDecl (mkSpan (mkPtok 38 "match" 20 2 64) (mkPtok 3 "}" 25 2 74)) (mkPtok 38 "match" 20 2 64) (mkPtok 42 "_x" 21 4 65) (mkPtok 17 "as" 22 0 67) (mkPtok 42 "zchar" 22 3 68) (mkPtok 2 "{" 23 0 69) [(mkMatchPair (mkSpan (mkPtok 31 (string_of_bytes [34; 195; 169; 116; 195; 169; 34]%N) 24 0 70) (mkPtok 40 "," 25 0 73)) (MKString (mkPtok 31 (string_of_bytes [34; 195; 169; 116; 195; 169; 34]%N) 24 0 70)) (mkPtok 39 ":" 24 5 71) (mkPtok 42 "i8i8" 24 6 72) (Some (mkPtok 40 "," 25 0 73)))] (mkPtok 3 "}" 25 2 74)) (mkPtok 40 "," 25 4 75))); (mkFieldWithAttr (mkSpan (mkPtok 5 "@calculatedFrom(" 28 0 78) (mkPtok 40 "," 45 8 124)) [(FACalculatedFrom (mkSpan (mkPtok 5 "@calculatedFrom(" 28 0 78) (mkPtok 6 ")" 28 22 80)) (mkCalculatedFrom (mkSpan (mkPtok 5 "@calculatedFrom(" 28 0 78) (mkPtok 6 ")" 28 22 80)) (mkPtok 5 "@calculatedFrom(" 28 0 78) (mkPtok 31 (string_of_bytes [34; 195; 169; 116; 195; 169; 34]%N) 28 17 79) (mkPtok 6 ")" 28 22 80))); (FALengthOf (mkSpan (mkPtok 7 "@lengthOf(" 28 25 81) (mkPtok 6 ")" 30 0 83)) (mkLengthOf (mkSpan (mkPtok 7 "@lengthOf(" 28 25 81) (mkPtok 6 ")" 30 0 83)) (mkPtok 7 "@lengthOf(" 28 25 81) (mkPtok 42 "chars" 29 0 82) (mkPtok 6 ")" 30 0 83))); (FATag (mkSpan (mkPtok 9 "@tag(" 30 2 84) (mkPtok 6 ")" 31 5 86)) (mkTagAttr (mkSpan (mkPtok 9 "@tag(" 30 2 84) (mkPtok 6 ")" 31 5 86)) (mkPtok 9 "@tag(" 30 2 84) (mkPtok 30 "1" 31 4 85) (mkPtok 6 ")" 31 5 86)))] (MatchField (mkSpan (mkPtok 38 "match" 33 4 88) (mkPtok 40 "," 45 8 124)) (mkMatchFieldDecl (mkSpan (mkPtok 38 "match" 33 4 88) (mkPtok 3 "}" 45 6 123)) (mkPtok 38 "match" 33 4 88) (mkPtok 42 "u8x" 33 10 89) (mkPtok 17 "as" 33 14 90) (mkPtok 42 "float" 34 0 91) (mkPtok 2 "{" 34 6 92) [(mkMatchPair (mkSpan (mkPtok 18 "[" 34 8 93) (mkPtok 40 "," 35 9 98)) (MKList (mkKeyList (mkSpan (mkPtok 18 "[" 34 8 93) (mkPtok 13 "]" 35 0 95)) (mkPtok 18 "[" 34 8 93) (mkPtok 31 """abc""" 34 10 94) [] (mkPtok 13 "]" 35 0 95))) (mkPtok 39 ":" 35 1 96) (mkPtok 42 "rootA" 35 3 97) (Some (mkPtok 40 "," 35 9 98))); (mkMatchPair (mkSpan (mkPtok 18 "[" 35 11 99) (mkPtok 40 "," 45 4 122)) (MKList (mkKeyList (mkSpan (mkPtok 18 "[" 35 11 99) (mkPtok 13 "]" 44 0 119)) (mkPtok 18 "[" 35 11 99) (mkPtok 30 "00" 35 13 100) [((mkPtok 40 "," 36 0 101), (mkPtok 31 """a\\""" 37 4 102)); ((mkPtok 40 "," 37 10 103), (mkPtok 31 (string_of_bytes [34; 92; 195; 169; 34]%N) 37 12 104)); ((mkPtok 40 "," 37 16 105), (mkPtok 30 "10" 38 0 106)); ((mkPtok 40 "," 38 3 107), (mkPtok 31 (string_of_bytes [34; 97; 9; 98; 34]%N) 38 4 108)); ((mkPtok 40 "," 39 4 109), (mkPtok 30 "42" 39 6 110)); ((mkPtok 40 "," 39 8 111), (mkPtok 31 (string_of_bytes [34; 230; 182; 136; 230; 129; 175; 34]%N) 42 0 114)); ((mkPtok 40 "," 42 5 115), (mkPtok 31 (string_of_bytes [34; 92; 195; 169; 34]%N) 43 0 117))] (mkPtok 13 "]" 44 0 119))) (mkPtok 39 ":" 44 2 120) (mkPtok 42 "crc" 44 4 121) (Some (mkPtok 40 "," 45 4 122)))] (mkPtok 3 "}" 45 6 123)) (mkPtok 40 "," 45 8 124))); (mkFieldWithAttr (mkSpan (mkPtok 38 "match" 45 10 125) (mkPtok 40 "," 53 19 160)) [] (MatchField (mkSpan (mkPtok 38 "match" 45 10 125) (mkPtok 40 "," 53 19 160)) (mkMatchFieldDecl (mkSpan (mkPtok 38 "match" 45 10 125) (mkPtok 3 "}" 53 18 159)) (mkPtok 38 "match" 45 10 125) (mkPtok 42 "falsey" 46 4 126) (mkPtok 17 "as" 46 11 127) (mkPtok 42 "body" 46 14 128) (mkPtok 2 "{" 46 19 129) [(mkMatchPair (mkSpan (mkPtok 30 "1" 46 21 130) (mkPtok 40 "," 46 29 133)) (MKDigits (mkPtok 30 "1" 46 21 130)) (mkPtok 39 ":" 46 22 131) (mkPtok 42 "x_y_z" 46 24 132) (Some (mkPtok 40 "," 46 29 133))); (mkMatchPair (mkSpan (mkPtok 31 """it's""" 46 31 134) (mkPtok 40 "," 47 8 137)) (MKString (mkPtok 31 """it's""" 46 31 134)) (mkPtok 39 ":" 46 37 135) (mkPtok 42 "body" 47 4 136) (Some (mkPtok 40 "," 47 8 137))); (mkMatchPair (mkSpan (mkPtok 18 "[" 47 10 138) (mkPtok 40 "," 51 11 149)) (MKList (mkKeyList (mkSpan (mkPtok 18 "[" 47 10 138) (mkPtok 13 "]" 50 6 146)) (mkPtok 18 "[" 47 10 138) (mkPtok 31 """1""" 47 12 139) [((mkPtok 40 "," 47 15 140), (mkPtok 31 """packet""" 47 17 141)); ((mkPtok 40 "," 50 0 144), (mkPtok 31 (string_of_bytes [34; 230; 182; 136; 230; 129; 175; 34]%N) 50 1 145))] (mkPtok 13 "]" 50 6 146))) (mkPtok 39 ":" 51 4 147) (mkPtok 42 "rootA" 51 6 148) (Some (mkPtok 40 "," 51 11 149))); (mkMatchPair (mkSpan (mkPtok 30 "0" 51 13 150) (mkPtok 40 "," 52 11 153)) (MKDigits (mkPtok 30 "0" 51 13 150)) (mkPtok 39 ":" 52 4 151) (mkPtok 42 "u128" 52 6 152) (Some (mkPtok 40 "," 52 11 153))); (mkMatchPair (mkSpan (mkPtok 31 """packet""" 53 0 155) (mkPtok 40 "," 53 17 158)) (MKString (mkPtok 31 """packet""" 53 0 155)) (mkPtok 39 ":" 53 9 156) (mkPtok 42 "uint8x" 53 11 157) (Some (mkPtok 40 "," 53 17 158)))] (mkPtok 3 "}" 53 18 159)) (mkPtok 40 "," 53 19 160))); (mkFieldWithAttr (mkSpan (mkPtok 23 "u64" 53 21 161) (mkPtok 40 "," 56 0 168)) [] (LengthField (mkSpan (mkPtok 23 "u64" 53 21 161) (mkPtok 40 "," 56 0 168)) (mkLengthFieldDecl (mkSpan (mkPtok 23 "u64" 53 21 161) (mkPtok 40 "," 56 0 168)) (Some (TyBasic (mkSpan (mkPtok 23 "u64" 53 21 161) (mkPtok 23 "u64" 53 21 161)) (mkBasicType (mkSpan (mkPtok 23 "u64" 53 21 161) (mkPtok 23 "u64" 53 21 161)) (mkPtok 23 "u64" 53 21 161)))) (mkPtok 42 "a1" 53 25 162) (mkLengthOf (mkSpan (mkPtok 7 "@lengthOf(" 53 27 163) (mkPtok 6 ")" 55 4 166)) (mkPtok 7 "@lengthOf(" 53 27 163) (mkPtok 42 "packetx" 54 0 165) (mkPtok 6 ")" 55 4 166)) (Some (mkPtok 43 "`a\`" 55 6 167)) (mkPtok 40 "," 56 0 168)))); (mkFieldWithAttr (mkSpan (mkPtok 42 "Logon" 57 0 169) (mkPtok 40 "," 57 5 170)) [] (ObjectField (mkSpan (mkPtok 42 "Logon" 57 0 169) (mkPtok 40 "," 57 5 170)) None (mkPtok 42 "Logon" 57 0 169) None None (mkPtok 40 "," 57 5 170))); (mkFieldWithAttr (mkSpan (mkPtok 9 "@tag(" 57 7 171) (mkPtok 40 "," 62 4 181)) [(FATag (mkSpan (mkPtok 9 "@tag(" 57 7 171) (mkPtok 6 ")" 58 2 173)) (mkTagAttr (mkSpan (mkPtok 9 "@tag(" 57 7 171) (mkPtok 6 ")" 58 2 173)) (mkPtok 9 "@tag(" 57 7 171) (mkPtok 30 "1" 58 0 172) (mkPtok 6 ")" 58 2 173))); (FALengthOf (mkSpan (mkPtok 7 "@lengthOf(" 59 0 175) (mkPtok 6 ")" 61 8 178)) (mkLengthOf (mkSpan (mkPtok 7 "@lengthOf(" 59 0 175) (mkPtok 6 ")" 61 8 178)) (mkPtok 7 "@lengthOf(" 59 0 175) (mkPtok 42 "u8x" 61 4 177) (mkPtok 6 ")" 61 8 178)))] (ObjectField (mkSpan (mkPtok 42 "string_" 61 10 179) (mkPtok 40 "," 62 4 181)) None (mkPtok 42 "string_" 61 10 179) (Some (mkPtok 42 "uint8x" 61 18 180)) None (mkPtok 40 "," 62 4 181))); (mkFieldWithAttr (mkSpan (mkPtok 36 "repeat" 62 6 182) (mkPtok 40 "," 64 0 186)) [] (ObjectField (mkSpan (mkPtok 36 "repeat" 62 6 182) (mkPtok 40 "," 64 0 186)) (Some (mkPtok 36 "repeat" 62 6 182)) (mkPtok 42 "leftPad" 62 13 183) None (Some (mkPtok 43 "`u8 x,`" 63 0 185)) (mkPtok 40 "," 64 0 186))); (mkFieldWithAttr (mkSpan (mkPtok 36 "repeat" 64 2 187) (mkPtok 40 "," 66 9 191)) [] (ObjectField (mkSpan (mkPtok 36 "repeat" 64 2 187) (mkPtok 40 "," 66 9 191)) (Some (mkPtok 36 "repeat" 64 2 187)) (mkPtok 42 "metadata" 65 0 189) (Some (mkPtok 42 "Logon" 66 4 190)) None (mkPtok 40 "," 66 9 191)))] (mkPtok 3 "}" 66 11 192))); (DPacket (mkPacketDef (mkSpan (mkPtok 35 "packet" 66 13 193) (mkPtok 3 "}" 78 18 231)) None (mkPtok 35 "packet" 66 13 193) (mkPtok 42 "len" 66 20 194) (mkPtok 2 "{" 66 24 195) [(mkFieldWithAttr (mkSpan (mkPtok 42 "int" 67 0 196) (mkPtok 40 "," 68 12 201)) [] (CheckSumField (mkSpan (mkPtok 42 "int" 67 0 196) (mkPtok 40 "," 68 12 201)) (mkChecksumFieldDecl (mkSpan (mkPtok 42 "int" 67 0 196) (mkPtok 40 "," 68 12 201)) None (mkPtok 42 "int" 67 0 196) (mkCalculatedFrom (mkSpan (mkPtok 5 "@calculatedFrom(" 67 5 197) (mkPtok 6 ")" 68 4 199)) (mkPtok 5 "@calculatedFrom(" 67 5 197) (mkPtok 31 """it's""" 67 22 198) (mkPtok 6 ")" 68 4 199)) (Some (mkPtok 43 (string_of_bytes [96; 230; 182; 136; 230; 129; 175; 231; 177; 187; 229; 158; 139; 96]%N) 68 5 200)) (mkPtok 40 "," 68 12 201)))); (mkFieldWithAttr (mkSpan (mkPtok 42 "leftPad" 71 0 204) (mkPtok 40 "," 78 16 230)) [] (InerObjectField (mkSpan (mkPtok 42 "leftPad" 71 0 204) (mkPtok 40 "," 78 16 230)) None (InerObjectDecl (mkSpan (mkPtok 42 "leftPad" 71 0 204) (mkPtok 3 "}" 78 14 229)) (mkPtok 42 "leftPad" 71 0 204) (mkPtok 2 "{" 72 0 205) [(MatchField (mkSpan (mkPtok 38 "match" 72 2 206) (mkPtok 40 "," 78 12 228)) (mkMatchFieldDecl (mkSpan (mkPtok 38 "match" 72 2 206) (mkPtok 3 "}" 78 10 227)) (mkPtok 38 "match" 72 2 206) (mkPtok 42 "float" 72 8 207) (mkPtok 17 "as" 72 14 208) (mkPtok 42 "rootA" 72 17 209) (mkPtok 2 "{" 72 22 210) [(mkMatchPair (mkSpan (mkPtok 30 "007" 73 0 212) (mkPtok 40 "," 73 11 215)) (MKDigits (mkPtok 30 "007" 73 0 212)) (mkPtok 39 ":" 73 4 213) (mkPtok 42 "rootA" 73 5 214) (Some (mkPtok 40 "," 73 11 215))); (mkMatchPair (mkSpan (mkPtok 30 "255" 74 0 217) (mkPtok 42 "matchKey" 75 0 219)) (MKDigits (mkPtok 30 "255" 74 0 217)) (mkPtok 39 ":" 74 5 218) (mkPtok 42 "matchKey" 75 0 219) None); (mkMatchPair (mkSpan (mkPtok 31 """abc""" 75 9 220) (mkPtok 40 "," 77 9 223)) (MKString (mkPtok 31 """abc""" 75 9 220)) (mkPtok 39 ":" 76 0 221) (mkPtok 42 "options1" 77 0 222) (Some (mkPtok 40 "," 77 9 223))); (mkMatchPair (mkSpan (mkPtok 30 "3" 77 10 224) (mkPtok 42 "zchar" 78 4 226)) (MKDigits (mkPtok 30 "3" 77 10 224)) (mkPtok 39 ":" 77 12 225) (mkPtok 42 "zchar" 78 4 226) None)] (mkPtok 3 "}" 78 10 227)) (mkPtok 40 "," 78 12 228))] (mkPtok 3 "}" 78 14 229)) (mkPtok 40 "," 78 16 230)))] (mkPtok 3 "}" 78 18 231))); (DPacket (mkPacketDef (mkSpan (mkPtok 35 "packet" 78 20 232) (mkPtok 3 "}" 88 0 273)) None (mkPtok 35 "packet" 78 20 232) (mkPtok 42 "i64_" 79 0 233) (mkPtok 2 "{" 79 5 234) [(mkFieldWithAttr (mkSpan (mkPtok 38 "match" 79 7 235) (mkPtok 40 "," 87 2 272)) [] (MatchField (mkSpan (mkPtok 38 "match" 79 7 235) (mkPtok 40 "," 87 2 272)) (mkMatchFieldDecl (mkSpan (mkPtok 38 "match" 79 7 235) (mkPtok 3 "}" 87 0 271)) (mkPtok 38 "match" 79 7 235) (mkPtok 42 "options1" 79 13 236) (mkPtok 17 "as" 79 23 237) (mkPtok 42 "options1" 79 26 238) (mkPtok 2 "{" 79 35 239) [(mkMatchPair (mkSpan (mkPtok 30 "4294967296" 79 37 240) (mkPtok 42 "asx" 81 0 243)) (MKDigits (mkPtok 30 "4294967296" 79 37 240)) (mkPtok 39 ":" 80 0 241) (mkPtok 42 "asx" 81 0 243) None); (mkMatchPair (mkSpan (mkPtok 30 "255" 81 4 244) (mkPtok 40 "," 82 4 247)) (MKDigits (mkPtok 30 "255" 81 4 244)) (mkPtok 39 ":" 81 7 245) (mkPtok 42 "len" 82 0 246) (Some (mkPtok 40 "," 82 4 247))); (mkMatchPair (mkSpan (mkPtok 18 "[" 82 6 248) (mkPtok 42 "f32a" 85 5 266)) (MKList (mkKeyList (mkSpan (mkPtok 18 "[" 82 6 248) (mkPtok 13 "]" 84 14 264)) (mkPtok 18 "[" 82 6 248) (mkPtok 30 "42" 82 8 249) [((mkPtok 40 "," 82 11 250), (mkPtok 31 (string_of_bytes [34; 92; 195; 169; 34]%N) 82 12 251)); ((mkPtok 40 "," 83 0 252), (mkPtok 31 """a\""b""" 83 1 253)); ((mkPtok 40 "," 83 8 254), (mkPtok 30 "0" 83 10 255)); ((mkPtok 40 "," 83 11 256), (mkPtok 31 """abc""" 83 13 257)); ((mkPtok 40 "," 83 19 258), (mkPtok 31 """""" 83 20 259)); ((mkPtok 40 "," 83 22 260), (mkPtok 31 """x y""" 84 0 261)); ((mkPtok 40 "," 84 6 262), (mkPtok 31 """abc""" 84 8 263))] (mkPtok 13 "]" 84 14 264))) (mkPtok 39 ":" 85 4 265) (mkPtok 42 "f32a" 85 5 266) None); (mkMatchPair (mkSpan (mkPtok 31 (string_of_bytes [34; 97; 9; 98; 34]%N) 85 10 267) (mkPtok 40 "," 86 11 270)) (MKString (mkPtok 31 (string_of_bytes [34; 97; 9; 98; 34]%N) 85 10 267)) (mkPtok 39 ":" 86 0 268) (mkPtok 42 "lengthOf" 86 2 269) (Some (mkPtok 40 "," 86 11 270)))] (mkPtok 3 "}" 87 0 271)) (mkPtok 40 "," 87 2 272)))] (mkPtok 3 "}" 88 0 273)))])).
Eval vm_compute in ("<<<M191>>>" ++ check (runes_of_ascii "options { falsey =
char[255] ; options1  =  ""a\""b"" metadata
// " ++ [128512]%N ++ runes_of_ascii " emoji
// " ++ [128512]%N ++ runes_of_ascii " emoji
= ""// no comment"" }  packet x_y_z { @leftPad (  )
pack `// not a comment` ,repeat //
i8i8 `line1
line2` //	t
, len
    tag`line1
line2`,
    uint8
    i64_ `` ,@tag( 3 ) @leftPad (
' '
) float32
zchar `tab	here` , @tag( 0123456789	)match // " ++ [128512]%N ++ runes_of_ascii " emoji
Foo as// trailing space 
string_ { """ ++ [28040; 24687]%N ++ runes_of_ascii """ : crc , }, f32 charz	`tab	here` , @calculatedFrom( ""packet"" )  x {// " ++ [27880; 37322]%N ++ runes_of_ascii "
uint64 zchar `say ""hi""`
, }
    , }root
packet
    options1{ asx,
// packet A { u8 x, }
// packet A { u8 x, }
}
//x
//
root packet len{ }
")).
Eval vm_compute in ("<<<M201>>>" ++ check (runes_of_ascii "root packet
Foo {	@rightPad( '\x00'
    ) @lengthOf( As	)  o {
    Z9_
a1 , }
    //x
    , @tag( 0123456789)
    u8 u8x,@calculatedFrom( ""a\\""  ) match A	as  roots
{42
    :
calculatedFrom,
    //x
    [ //
0 , 3 ,00 ] : As } , } packet  falsey{ falsey , }
options { } // a // b")).
Eval vm_compute in ("<<<M211>>>" ++ check (runes_of_ascii "root packet roots {
//
// packet A { u8 x, }
}
packet
i64_{ char[7 ] u , int8 falsey , //
@tag(
//x
// packet A { u8 x, }
00 )uint8x
falsey
    // @lengthOf(
    ,  @calculatedFrom( ""it's""  )
Pad
    ,
    }options { float =zchar[ 007]
; u128 = 007;
Packet
    = 65535
;	}
    packet Pad { int64 repeatCount @lengthOf( float	)  , u16 trueish
@lengthOf(  packetx ) `crlf
line` , o { a1@calculatedFrom(""" ++ [28040; 24687]%N ++ runes_of_ascii """ )
    , zchar[0123456789
] float ,	T i64_`" ++ [28040; 24687; 31867; 22411]%N ++ runes_of_ascii "` ,	} , @lengthOf(
    i64_
) repeat char[]
    MetaDataX ,BodyLength, @tag( 65535) string
f32a
    , repeat
    u32 x_y_z, } MetaData Pad
{metadata
// trailing space 
// " ++ [128512]%N ++ runes_of_ascii " emoji
falsey  ,}")).
Eval vm_compute in ("<<<M221>>>" ++ check (runes_of_ascii "options {
    } options { o
= // a // b
'\x00' ;
    // " ++ [27880; 37322]%N ++ runes_of_ascii "
    }
")).
Eval vm_compute in ("<<<M231>>>" ++ check (runes_of_ascii "MetaData
// trailing space 
// packet A { u8 x, }
body{x  body	`" ++ [28040; 24687; 31867; 22411]%N ++ runes_of_ascii "` , }
")).
Eval vm_compute in ("<<<M241>>>" ++ check (runes_of_ascii "options { u8x =  ""\n""
    ;zchar = '\x00' ; }root
packet
packetx // " ++ [128512]%N ++ runes_of_ascii " emoji
{ T `{ , }` ,
}
    // c
    options {
asx
    = uint16 x_y_z
=  """ ++ [233]%N ++ runes_of_ascii "t" ++ [233]%N ++ runes_of_ascii """ }	options {
    // a // b
    Header = zchar[1 ]	;//x
repeatCount
    = // trailing space 
3; Packet= int64 Header= """ ++ [28040; 24687]%N ++ runes_of_ascii """ ; }
// a // b
")).
Eval vm_compute in ("<<<M251>>>" ++ check (runes_of_ascii "
packet x { @lengthOf(
roots  ) @calculatedFrom(""x y"" )char[ 42 ]
f32a
    `doc` ,	match options1 as metadata
{ 00 : leftPad , } , float64 MetaDataX , @tag(  00 // trailing space 
) T
    f32a  , repeat int16
    calculatedFrom`crlf
line`,
}
")).
Eval vm_compute in ("<<<T251>>>" ++ terms [mkTok 35 "packet" 2 0 false; mkTok 42 "x" 2 7 false; mkTok 2 "{" 2 9 false; mkTok 7 "@lengthOf(" 2 11 false; mkTok 42 "roots" 3 0 false; mkTok 6 ")" 3 7 false; mkTok 5 "@calculatedFrom(" 3 9 false; mkTok 31 """x y""" 3 25 false; mkTok 6 ")" 3 31 false; mkTok 12 "char[" 3 32 false; mkTok 30 "42" 3 38 false; mkTok 13 "]" 3 41 false; mkTok 42 "f32a" 4 0 false; mkTok 43 "`doc`" 5 4 false; mkTok 40 "," 5 10 false; mkTok 38 "match" 5 12 false; mkTok 42 "options1" 5 18 false; mkTok 17 "as" 5 27 false; mkTok 42 "metadata" 5 30 false; mkTok 2 "{" 6 0 false; mkTok 30 "00" 6 2 false; mkTok 39 ":" 6 5 false; mkTok 42 "leftPad" 6 7 false; mkTok 40 "," 6 15 false; mkTok 3 "}" 6 17 false; mkTok 40 "," 6 19 false; mkTok 29 "float64" 6 21 false; mkTok 42 "MetaDataX" 6 29 false; mkTok 40 "," 6 39 false; mkTok 9 "@tag(" 6 41 false; mkTok 30 "00" 6 48 false; mkTok 44 "// trailing space " 6 51 true; mkTok 6 ")" 7 0 false; mkTok 42 "T" 7 2 false; mkTok 42 "f32a" 8 4 false; mkTok 40 "," 8 10 false; mkTok 36 "repeat" 8 12 false; mkTok 25 "int16" 8 19 false; mkTok 42 "calculatedFrom" 9 4 false; mkTok 43 (string_of_bytes [96; 99; 114; 108; 102; 13; 10; 108; 105; 110; 101; 96]%N) 9 18 false; mkTok 40 "," 10 5 false; mkTok 3 "}" 11 0 false; mkTok 0 "<EOF>" 12 0 false] (mkPacket (mkPtok 35 "packet" 2 0 0) (Some (mkPtok 3 "}" 11 0 41)) [(DPacket (mkPacketDef (mkSpan (mkPtok 35 "packet" 2 0 0) (mkPtok 3 "}" 11 0 41)) None (mkPtok 35 "packet" 2 0 0) (mkPtok 42 "x" 2 7 1) (mkPtok 2 "{" 2 9 2) [(mkFieldWithAttr (mkSpan (mkPtok 7 "@lengthOf(" 2 11 3) (mkPtok 40 "," 5 10 14)) [(FALengthOf (mkSpan (mkPtok 7 "@lengthOf(" 2 11 3) (mkPtok 6 ")" 3 7 5)) (mkLengthOf (mkSpan (mkPtok 7 "@lengthOf(" 2 11 3) (mkPtok 6 ")" 3 7 5)) (mkPtok 7 "@lengthOf(" 2 11 3) (mkPtok 42 "roots" 3 0 4) (mkPtok 6 ")" 3 7 5))); (FACalculatedFrom (mkSpan (mkPtok 5 "@calculatedFrom(" 3 9 6) (mkPtok 6 ")" 3 31 8)) (mkCalculatedFrom (mkSpan (mkPtok 5 "@calculatedFrom(" 3 9 6) (mkPtok 6 ")" 3 31 8)) (mkPtok 5 "@calculatedFrom(" 3 9 6) (mkPtok 31 """x y""" 3 25 7) (mkPtok 6 ")" 3 31 8)))] (MetaField (mkSpan (mkPtok 12 "char[" 3 32 9) (mkPtok 40 "," 5 10 14)) None (mkMetaDecl (mkSpan (mkPtok 12 "char[" 3 32 9) (mkPtok 40 "," 5 10 14)) (TyFixed (mkSpan (mkPtok 12 "char[" 3 32 9) (mkPtok 13 "]" 3 41 11)) (mkFixedString (mkSpan (mkPtok 12 "char[" 3 32 9) (mkPtok 13 "]" 3 41 11)) (mkPtok 12 "char[" 3 32 9) (mkPtok 30 "42" 3 38 10) (mkPtok 13 "]" 3 41 11))) (mkPtok 42 "f32a" 4 0 12) (Some (mkPtok 43 "`doc`" 5 4 13)) (mkPtok 40 "," 5 10 14)))); (mkFieldWithAttr (mkSpan (mkPtok 38 "match" 5 12 15) (mkPtok 40 "," 6 19 25)) [] (MatchField (mkSpan (mkPtok 38 "match" 5 12 15) (mkPtok 40 "," 6 19 25)) (mkMatchFieldDecl (mkSpan (mkPtok 38 "match" 5 12 15) (mkPtok 3 "}" 6 17 24)) (mkPtok 38 "match" 5 12 15) (mkPtok 42 "options1" 5 18 16) (mkPtok 17 "as" 5 27 17) (mkPtok 42 "metadata" 5 30 18) (mkPtok 2 "{" 6 0 19) [(mkMatchPair (mkSpan (mkPtok 30 "00" 6 2 20) (mkPtok 40 "," 6 15 23)) (MKDigits (mkPtok 30 "00" 6 2 20)) (mkPtok 39 ":" 6 5 21) (mkPtok 42 "leftPad" 6 7 22) (Some (mkPtok 40 "," 6 15 23)))] (mkPtok 3 "}" 6 17 24)) (mkPtok 40 "," 6 19 25))); (mkFieldWithAttr (mkSpan (mkPtok 29 "float64" 6 21 26) (mkPtok 40 "," 6 39 28)) [] (MetaField (mkSpan (mkPtok 29 "float64" 6 21 26) (mkPtok 40 "," 6 39 28)) None (mkMetaDecl (mkSpan (mkPtok 29 "float64" 6 21 26) (mkPtok 40 "," 6 39 28)) (TyBasic (mkSpan (mkPtok 29 "float64" 6 21 26) (mkPtok 29 "float64" 6 21 26)) (mkBasicType (mkSpan (mkPtok 29 "float64" 6 21 26) (mkPtok 29 "float64" 6 21 26)) (mkPtok 29 "float64" 6 21 26))) (mkPtok 42 "MetaDataX" 6 29 27) None (mkPtok 40 "," 6 39 28)))); (mkFieldWithAttr (mkSpan (mkPtok 9 "@tag(" 6 41 29) (mkPtok 40 "," 8 10 35)) [(FATag (mkSpan (mkPtok 9 "@tag(" 6 41 29) (mkPtok 6 ")" 7 0 32)) (mkTagAttr (mkSpan (mkPtok 9 "@tag(" 6 41 29) (mkPtok 6 ")" 7 0 32)) (mkPtok 9 "@tag(" 6 41 29) (mkPtok 30 "00" 6 48 30) (mkPtok 6 ")" 7 0 32)))] (ObjectField (mkSpan (mkPtok 42 "T" 7 2 33) (mkPtok 40 "," 8 10 35)) None (mkPtok 42 "T" 7 2 33) (Some (mkPtok 42 "f32a" 8 4 34)) None (mkPtok 40 "," 8 10 35))); (mkFieldWithAttr (mkSpan (mkPtok 36 "repeat" 8 12 36) (mkPtok 40 "," 10 5 40)) [] (MetaField (mkSpan (mkPtok 36 "repeat" 8 12 36) (mkPtok 40 "," 10 5 40)) (Some (mkPtok 36 "repeat" 8 12 36)) (mkMetaDecl (mkSpan (mkPtok 25 "int16" 8 19 37) (mkPtok 40 "," 10 5 40)) (TyBasic (mkSpan (mkPtok 25 "int16" 8 19 37) (mkPtok 25 "int16" 8 19 37)) (mkBasicType (mkSpan (mkPtok 25 "int16" 8 19 37) (mkPtok 25 "int16" 8 19 37)) (mkPtok 25 "int16" 8 19 37))) (mkPtok 42 "calculatedFrom" 9 4 38) (Some (mkPtok 43 (string_of_bytes [96; 99; 114; 108; 102; 13; 10; 108; 105; 110; 101; 96]%N) 9 18 39)) (mkPtok 40 "," 10 5 40))))] (mkPtok 3 "}" 11 0 41)))])).
Eval vm_compute in ("<<<M261>>>" ++ check (runes_of_ascii "// " ++ [27880; 37322]%N ++ runes_of_ascii "
packet
matchKey
{// " ++ [27880; 37322]%N ++ runes_of_ascii "
@rightPad (
    '\x00'
    ) zchar[
255 ]float @lengthOf(
roots ) ,
@lengthOf(
    metadata)
    char[] roots , char[]i64_ , zchar[ /// triple
1 ]
    Foo
    ,
} packet //	t
zchar  {//
@tag( 3 )uint8 rootA	@lengthOf( chars ) `two words`  , repeat
string_// @lengthOf(
string_ ,
    @calculatedFrom(""CRC32"" )	uint32	charz
    ,} packet packetx { i64_ //x
{ zchar[ //x
00
// " ++ [27880; 37322]%N ++ runes_of_ascii "
//x
] MetaDataX `crlf
line`
, repeat lengthOf ,
char[] T ,
char[ 0] u8x @calculatedFrom( ""it's"")
    , }
    , @tag( 7 )repeat
u32  MetaDataX , }
")).
Eval vm_compute in ("<<<M271>>>" ++ check (runes_of_ascii "MetaData msg_type
{ zchar[ 3 ]rootA, }
packet packetx { repeat //
float {	uint8
Logon @lengthOf( roots)
    , repeat
u8x `crlf
line` , } ,@lengthOf( asx ) uint8
    i8i8
@lengthOf( u ) `" ++ [233]%N ++ runes_of_ascii "` ,
match u8x as	u128 {
"""" : body ,	4294967296 :	o , },@lengthOf( a1) @tag( // c
4294967296 ) @tag( 007)  f64 Header , // c
zchar[0 ]
    x `{ , }` , }")).
Eval vm_compute in ("<<<M281>>>" ++ check (runes_of_ascii "
packet tag{
    @leftPad ()
i8i8 {metadata
    i8i8
`a\` , }//x
, u16 i64_ `doc` , repeat calculatedFrom `it's` , char[] uint8x @calculatedFrom( ""\" ++ [233]%N ++ runes_of_ascii """ ) `u8 x,`
,
@rightPad  ( )
    @lengthOf( Header )
    match i64_ as A
    { 007: f32a , 00 : Logon ""\n"":
    rootA [ 00
] : Logon} ,f32 Header
    `doc` , @leftPad (// @lengthOf(
) _x {char[ 0
] o@calculatedFrom(""it's"" /// triple
) , match a1
    as i8i8 // " ++ [27880; 37322]%N ++ runes_of_ascii "
{ [
    0 , /// triple
7]
    //	t
    : _x	,[
""a\""b""// `tick` ""quote"" 'q'
,""abc"" ,""CRC32"" , ""\n"" ]	: options1 , 007:
    BodyLength} , } , @rightPad( '\x00' )
    char[ 00 /// triple
]Header
, @leftPad ('0' )
int16
rootA `two words` ,
}
    MetaData options1 { f32a tag ,rootA MetaDataX, o falsey , Logon zchar// `tick` ""quote"" 'q'
``
    ,}	packet	options1 {@tag( 42 ) @tag( 7 )//	t
f32 matchKey
, @lengthOf( leftPad ) @leftPad
(' '	)i32	uint8x `a\` ,  charz
{
i64_
@lengthOf(uint8x ), match lengthOf as	msg_type	{ """ ++ [128512]%N ++ runes_of_ascii """//x
:
//
/// triple
pack	} , repeat zchar[
    0//
] i64_
    `say ""hi""`,
    A, }
, @rightPad ( ' ' )
    @leftPad ( '\x00' )@leftPad
(
' '  ) matchKey chars `{ , }`
// " ++ [27880; 37322]%N ++ runes_of_ascii "
/// triple
,	@tag(
    65535)  @rightPad ( '\x00' )@tag( 1
) match
u
    // packet A { u8 x, }
    as calculatedFrom { 007//x
: packetx , 255 : As ,""{,}"" // packet A { u8 x, }
:metadata [ """ ++ [28040; 24687]%N ++ runes_of_ascii """] : // c
BodyLength, 10 :
tag } // trailing space 
, repeat
char[
    0123456789]
    Z9_ , }
options { As
= ""CRC32""  ;matchKey =' '
    ;	_x = 007 zchar =	'0'
;
//	t
// " ++ [128512]%N ++ runes_of_ascii " emoji
matchKey= ""`tick`"";
    } MetaData
options1 { zchar[
255]
    trueish , char[] pack `// not a comment` , i32 crc	, }")).
Eval vm_compute in ("<<<M291>>>" ++ check (runes_of_ascii "root  packet
Header {
    repeat repeatCount	{ pack
    {
u16 BodyLength @lengthOf(
    tag
) , repeat
    Foo tag
,}
    ,uint8 u @calculatedFrom(""" ++ [128512]%N ++ runes_of_ascii """//	t
)// `tick` ""quote"" 'q'
`crlf
line`
    ,	}
,
// a // b
/// triple
}
options {// a // b
} MetaData chars{ }")).
Eval vm_compute in ("<<<M301>>>" ++ check (runes_of_ascii "options {
	StringPrefixLenType = u16;
	ArrayPrefixLenType = u16;
}

packet SampleBinary {
    uint16 MsgType `" ++ [28040; 24687; 31867; 22411]%N ++ runes_of_ascii "`,
    u16 BodyLenght @lengthOf(Body) `" ++ [28040; 24687; 20307; 38271; 24230]%N ++ runes_of_ascii "`,
    match MsgType as Body {
        1 : Logon,
        2 : Logout,
        3 : Heartbeat,
        4 : RiskControlRequest,
        5 : RiskControlResponse,
    },
        @calculatedFrom(""CRC32"")
    u32 Ckecksum `" ++ [26657; 39564; 21644]%N ++ runes_of_ascii "`,
}

packet Logon {
     @leftPad('0')
    char[10] UserName `" ++ [29992; 25143; 21517]%N ++ runes_of_ascii "`,
    string Password `" ++ [23494; 30721]%N ++ runes_of_ascii "`,
    uint64 ClientId `" ++ [23458; 25143; 31471]%N ++ runes_of_ascii "ID`,
    u16 HeartbeatInterval `" ++ [24515; 36339; 38388; 38548]%N ++ runes_of_ascii "`,
}

packet Logout {
      @rightPad('0')
    char[10] UserName `" ++ [29992; 25143; 21517]%N ++ runes_of_ascii "`,
    uint64 ClientId `" ++ [23458; 25143; 31471]%N ++ runes_of_ascii "ID`,
}

packet Heartbeat {
}

packet RiskControlRequest {
    string UniqueOrderId `" ++ [21807; 19968; 35746; 21333; 21495]%N ++ runes_of_ascii "`,
    char[16] ClOrdID `" ++ [23458; 25143; 35746; 21333; 21495]%N ++ runes_of_ascii "`,
    char[3] MarketID `" ++ [24066; 22330]%N ++ runes_of_ascii "id`,
    char[12] SecurityID `" ++ [35777; 21048; 20195; 30721]%N ++ runes_of_ascii "`,
    char Side `" ++ [20080; 21334; 26041; 21521]%N ++ runes_of_ascii "`,
    char OrderType `" ++ [35746; 21333; 31867; 22411]%N ++ runes_of_ascii "`,
    u64 Price `" ++ [20215; 26684]%N ++ runes_of_ascii "`,
    u32 Qty `" ++ [25968; 37327]%N ++ runes_of_ascii "`,
    repeat string ExtraInfo `" ++ [38468; 21152; 20449; 24687]%N ++ runes_of_ascii "`,
    repeat SubOrder {
    		char[16] ClOrdID `" ++ [23376; 35746; 21333; 21495]%N ++ runes_of_ascii "`,
    		u64 Price `" ++ [23376; 35746; 21333; 20215; 26684]%N ++ runes_of_ascii "`,
    		u32 Qty `" ++ [23376; 35746; 21333; 25968; 37327]%N ++ runes_of_ascii "`,
    	},
}

packet RiskControlResponse {
    string UniqueOrderId `" ++ [21807; 19968; 35746; 21333; 21495]%N ++ runes_of_ascii "`,
    i32 Status `" ++ [29366; 24577]%N ++ runes_of_ascii "`,
    string Msg `" ++ [32467; 26524; 20449; 24687]%N ++ runes_of_ascii "`,
    repeat Detail,
}

packet Detail {
    string RuleName `" ++ [35268; 21017; 21517; 31216]%N ++ runes_of_ascii "`,
    u16 Code `" ++ [21407; 22240; 20195; 30721]%N ++ runes_of_ascii "`,
}")).
Eval vm_compute in ("<<<M311>>>" ++ check (runes_of_ascii "calculatedFrom  packet{ @rightPad(	' '
    )@lengthOf( uint8x
)	i32  options1 ,u ,
    //	t
    len @lengthOf(
int // trailing space 
)
    , @tag( 42 ) repeat uint32 u ,
    }")).
Eval vm_compute in ("<<<M321>>>" ++ check (runes_of_ascii "packet  calculatedFrom@rightPad {(	' '
    )@lengthOf( uint8x
)	i32  options1 ,u ,
    //	t
    len @lengthOf(
int // trailing space 
)
    , @tag( 42 ) repeat uint32 u ,
    }")).
Eval vm_compute in ("<<<M331>>>" ++ check (runes_of_ascii "packet  calculatedFrom{ @rightPad' '	(
    )@lengthOf( uint8x
)	i32  options1 ,u ,
    //	t
    len @lengthOf(
int // trailing space 
)
    , @tag( 42 ) repeat uint32 u ,
    }")).
Eval vm_compute in ("<<<M341>>>" ++ check (runes_of_ascii "packet  calculatedFrom{ @rightPad(	' '
    @lengthOf() uint8x
)	i32  options1 ,u ,
    //	t
    len @lengthOf(
int // trailing space 
)
    , @tag( 42 ) repeat uint32 u ,
    }")).
Eval vm_compute in ("<<<M351>>>" ++ check (runes_of_ascii "packet  calculatedFrom{ @rightPad(	' '
    )@lengthOf( )
uint8x	i32  options1 ,u ,
    //	t
    len @lengthOf(
int // trailing space 
)
    , @tag( 42 ) repeat uint32 u ,
    }")).
Eval vm_compute in ("<<<M361>>>" ++ check (runes_of_ascii "packet  calculatedFrom{ @rightPad(	' '
    )@lengthOf( uint8x
)	options1  i32 ,u ,
    //	t
    len @lengthOf(
int // trailing space 
)
    , @tag( 42 ) repeat uint32 u ,
    }")).
Eval vm_compute in ("<<<M371>>>" ++ check (runes_of_ascii "packet  calculatedFrom{ @rightPad(	' '
    )@lengthOf( uint8x
)	i32  options1 u, ,
    //	t
    len @lengthOf(
int // trailing space 
)
    , @tag( 42 ) repeat uint32 u ,
    }")).
Eval vm_compute in ("<<<M381>>>" ++ check (runes_of_ascii "packet  calculatedFrom{ @rightPad(	' '
    )@lengthOf( uint8x
)	i32  options1 ,u len
    //	t
    , @lengthOf(
int // trailing space 
)
    , @tag( 42 ) repeat uint32 u ,
    }")).
Eval vm_compute in ("<<<M391>>>" ++ check (runes_of_ascii "packet  calculatedFrom{ @rightPad(	' '
    )@lengthOf( uint8x
)	i32  options1 ,u ,
    //	t
    len int
@lengthOf( // trailing space 
)
    , @tag( 42 ) repeat uint32 u ,
    }")).
Eval vm_compute in ("<<<M401>>>" ++ check (runes_of_ascii "packet  calculatedFrom{ @rightPad(	' '
    )@lengthOf( uint8x
)	i32  options1 ,u ,
    //	t
    len @lengthOf(
int // trailing space 
,
    ) @tag( 42 ) repeat uint32 u ,
    }")).
Eval vm_compute in ("<<<M411>>>" ++ check (runes_of_ascii "packet  calculatedFrom{ @rightPad(	' '
    )@lengthOf( uint8x
)	i32  options1 ,u ,
    //	t
    len @lengthOf(
int // trailing space 
)
    , 42 @tag( ) repeat uint32 u ,
    }")).
Eval vm_compute in ("<<<M421>>>" ++ check (runes_of_ascii "packet  calculatedFrom{ @rightPad(	' '
    )@lengthOf( uint8x
)	i32  options1 ,u ,
    //	t
    len @lengthOf(
int // trailing space 
)
    , @tag( 42 repeat ) uint32 u ,
    }")).
Eval vm_compute in ("<<<M431>>>" ++ check (runes_of_ascii "packet  calculatedFrom{ @rightPad(	' '
    )@lengthOf( uint8x
)	i32  options1 ,u ,
    //	t
    len @lengthOf(
int // trailing space 
)
    , @tag( 42 ) repeat u uint32 ,
    }")).
Eval vm_compute in ("<<<M441>>>" ++ check (runes_of_ascii "packet  calculatedFrom{ @rightPad(	' '
    )@lengthOf( uint8x
)	i32  options1 ,u ,
    //	t
    len @lengthOf(
int // trailing space 
)
    , @tag( 42 ) repeat uint32 u }
    ,")).
Eval vm_compute in ("<<<M451>>>" ++ check (runes_of_ascii "packet  calculatedFrom{ @rightPad(	' '
    )@lengthOf( uint8x
)	i32  options1 ,u ,
    //	t
    len @lengthOf(
int // trailing space 
)
    , @tag( 42 )")).
Eval vm_compute in ("<<<M461>>>" ++ check (runes_of_ascii "packet  calculatedFrom{ @rightPad(	' '
    )@lengthOf( uint8x
)	i32  options1 ,u @lengthOf ,
    //	t
    len @lengthOf(
int // trailing space 
)
    , @tag( 42 ) repeat uint32 u ,
    }")).
Eval vm_compute in ("<<<M471>>>" ++ check (runes_of_ascii "MetaData u// packet A { u8 x, }
{ A
// c
//	t
i64_ ,char[ 255 ]
    repeatCount , zchar[
65535 ]
    tag `" ++ [233]%N ++ runes_of_ascii "`
    ,int32 lengthOf	, } }
")).
Eval vm_compute in ("<<<M481>>>" ++ check (runes_of_ascii "MetaData u// packet A { u8 x, }
{ A
// c
//	t
i64_ ,char[ 255 }
    repeatCount , zchar[
65535 ]
    tag `" ++ [233]%N ++ runes_of_ascii "`
    ,int32 lengthOf	, }
")).
Eval vm_compute in ("<<<M491>>>" ++ check (runes_of_ascii "MetaData u// packet A { u8 x, }
{ A
// c
//	t
i64_ ,char[ 255 ]
    repeatCount , zchar[
65535 ]
    @tag tag `" ++ [233]%N ++ runes_of_ascii "`
    ,int32 lengthOf	, }
")).
Eval vm_compute in ("<<<M501>>>" ++ check (runes_of_ascii "MetaData u// packet A { u8 x, }
{ A
// c
//	t
i64_ ,255 char[ ]
    repeatCount , zchar[
65535 ]
    tag `" ++ [233]%N ++ runes_of_ascii "`
    ,int32 lengthOf	, }
")).
Eval vm_compute in ("<<<M511>>>" ++ check (runes_of_ascii "MetaData u// packet A { u8 x, }
{ A
// c
//	t
i64_")).
Eval vm_compute in ("<<<M521>>>" ++ check (runes_of_ascii " u// packet A { u8 x, }
{ A
// c
//	t
i64_ ,char[ 255 ]
    repeatCount , zchar[
65535 ]
    tag `" ++ [233]%N ++ runes_of_ascii "`
    ,int32 lengthOf	, }
")).
Eval vm_compute in ("<<<M531>>>" ++ check (runes_of_ascii "MetaData u// packet A { u8 x, }
{ A
// c
//	t
i64_ ,char[ 255 ] ]
    repeatCount , zchar[
65535 ]
    tag `" ++ [233]%N ++ runes_of_ascii "`
    ,int32 lengthOf	, }
")).
Eval vm_compute in ("<<<M541>>>" ++ check (runes_of_ascii "MetaData u// packet A { u8 x, }
{ A
// c
//	t
i64_ ,char[ 255 ]
    repeatCount , zchar[
65535 ]
    tag `" ++ [233]%N ++ runes_of_ascii "`
    ,int32 lengthOf	} ,
")).
Eval vm_compute in ("<<<M551>>>" ++ check (runes_of_ascii "MetaData u// packet A { u8 x, }
{ uint64
// c
//	t
i64_ ,char[ 255 ]
    repeatCount , zchar[
65535 ]
    tag `" ++ [233]%N ++ runes_of_ascii "`
    ,int32 lengthOf	, }
")).
Eval vm_compute in ("<<<M561>>>" ++ check (runes_of_ascii "MetaData u u// packet A { u8 x, }
{ A
// c
//	t
i64_ ,char[ 255 ]
    repeatCount , zchar[
65535 ]
    tag `" ++ [233]%N ++ runes_of_ascii "`
    ,int32 lengthOf	, }
")).
Eval vm_compute in ("<<<M571>>>" ++ check (runes_of_ascii "/")).
Eval vm_compute in ("<<<M581>>>" ++ check (runes_of_ascii "q" ++ [65533; 65533]%N ++ runes_of_ascii "L" ++ [65533; 65533; 65533]%N ++ runes_of_ascii "+5m" ++ [65533; 4]%N ++ runes_of_ascii "	H " ++ [65533]%N ++ runes_of_ascii "n" ++ [65533; 65533]%N)).
Eval vm_compute in ("<<<M591>>>" ++ check (runes_of_ascii "} float32 i32")).
