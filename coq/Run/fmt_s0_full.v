From FP Require Import Lexer Parser ShowPT Digest Formatter.
From Coq Require Import String List NArith.
Import ListNotations.
Open Scope string_scope.
Set Printing Width 100000000.
Set Printing Depth 100000000.
Definition show_fres (r : fres) : string :=
  match r with
  | FOk s => "OK:" ++ sh_escaped s ""
  | FErr s => "ERR:" ++ sh_escaped s ""
  | FPanic p => "PANIC:" ++ p
  end.
Definition check (rs : list rune) : string := digest (show_fres (format_res rs)).
Definition full (rs : list rune) : string := show_fres (format_res rs).
Eval vm_compute in ("<<<M19>>>" ++ full (runes_of_ascii "
")).
Eval vm_compute in ("<<<M29>>>" ++ full (runes_of_ascii "// " ++ [27880; 37322]%N ++ runes_of_ascii "

")).
Eval vm_compute in ("<<<M46>>>" ++ full (runes_of_ascii "//x

// a // b
")).
Eval vm_compute in ("<<<M56>>>" ++ full (runes_of_ascii " 	 ")).
Eval vm_compute in ("<<<M72>>>" ++ full (@nil rune)).
Eval vm_compute in ("<<<M84>>>" ++ full (runes_of_ascii " // " ++ [27880; 37322]%N)).
Eval vm_compute in ("<<<M86>>>" ++ full (runes_of_ascii "  ")).
Eval vm_compute in ("<<<M99>>>" ++ full (runes_of_ascii "
 // " ++ [128512]%N ++ runes_of_ascii " emoji")).
Eval vm_compute in ("<<<M111>>>" ++ full (runes_of_ascii "

")).
Eval vm_compute in ("<<<M153>>>" ++ full (runes_of_ascii "// trailing space 

")).
Eval vm_compute in ("<<<M157>>>" ++ full (runes_of_ascii "//

")).
Eval vm_compute in ("<<<M241>>>" ++ full (runes_of_ascii "/// triple
")).
Eval vm_compute in ("<<<M252>>>" ++ full (runes_of_ascii " // c")).
Eval vm_compute in ("<<<M255>>>" ++ full (runes_of_ascii " /// triple")).
Eval vm_compute in ("<<<M268>>>" ++ full (runes_of_ascii " // packet A { u8 x, }")).
Eval vm_compute in ("<<<M286>>>" ++ full (runes_of_ascii " // `tick` ""quote"" 'q'")).
Eval vm_compute in ("<<<M293>>>" ++ full (runes_of_ascii "  

")).
Eval vm_compute in ("<<<M297>>>" ++ full (runes_of_ascii "// " ++ [128512]%N ++ runes_of_ascii " emoji


")).
Eval vm_compute in ("<<<M376>>>" ++ full (runes_of_ascii "
// " ++ [128512]%N ++ runes_of_ascii " emoji
")).
Eval vm_compute in ("<<<M378>>>" ++ full (runes_of_ascii "// @lengthOf(

")).
