From FP Require Import Lexer Parser ShowPT Digest Formatter.
From Coq Require Import String List NArith.
Import ListNotations.
Open Scope string_scope.
Set Printing Width 100000000.
Set Printing Depth 100000000.
Definition show_fres (r : fres) : string :=
  match r with
  | FOk s => "OK:" ++ sh_escaped s ""
  | FErr s => "ERR:" ++ sh_escaped s ""
  | FPanic p => "PANIC:" ++ p
  end.
Definition check (rs : list rune) : string := digest (show_fres (format_res rs)).
Definition full (rs : list rune) : string := show_fres (format_res rs).
Eval vm_compute in ("<<<M40>>>" ++ full (runes_of_ascii "packet
    len { // " ++ [27880; 37322]%N ++ runes_of_ascii "
@leftPad( '0'
    ) // trailing space 
Logon @lengthOf( _x)
`100% of %d`
,char
    rootA
, @calculatedFrom( """ ++ [28040; 24687]%N ++ runes_of_ascii """ )
@leftPad
    (' ' ) // `tick` ""quote"" 'q'
i8
crc , msg_type
@calculatedFrom( """"	)
`
`
, // `tick` ""quote"" 'q'
}	options//x
{}
options { u8x =true }
")).
Eval vm_compute in ("<<<M58>>>" ++ full (runes_of_ascii "packet o { zchar[ 7 ] /// triple
f32a@calculatedFrom( ""a\""b"")	, @lengthOf( pack
)
    options1 ,@calculatedFrom(""abc""
)
    Header , @lengthOf( Logon )zchar[4294967296
    ] asx // packet A { u8 x, }
@lengthOf(
// a // b
// packet A { u8 x, }
u )
`100% of %d`	, @leftPad (' ' // trailing space 
)	@calculatedFrom( ""`tick`"" )
uint16 x_y_z`doc` , @tag( 00 )zchar[ //	t
1 ] // c
u,@calculatedFrom(""a\""b"" ) //
u8x uint8x,
char[1 ]
metadata , }
")).
Eval vm_compute in ("<<<M77>>>" ++ full (runes_of_ascii "packet string_ /// triple
{ match
MetaDataX as
    /// triple
    matchKey {[ ""1"" , ""x y"" ]
: chars,
}, @leftPad
    ( ) char[]
// c
//	t
body @lengthOf( // `tick` ""quote"" 'q'
int ) , int16
T
, string
// 50% %s
/// triple
int  @lengthOf( uint8x ),repeat chars Foo // `tick` ""quote"" 'q'
, }	options {
    msg_type
    // a // b
    =true
    f32a =  ""packet"" } root packet u128{	zchar[
007] metadata  @lengthOf( int)
`100% of %d`,
    }")).
Eval vm_compute in ("<<<M95>>>" ++ full (runes_of_ascii "root packet leftPad  {T
@lengthOf(	A )
`" ++ [28040; 24687; 31867; 22411]%N ++ runes_of_ascii "` , Header@lengthOf( // trailing space 
As  ) ,
string calculatedFrom
`" ++ [233]%N ++ runes_of_ascii "` , @calculatedFrom(// " ++ [128512]%N ++ runes_of_ascii " emoji
""a	b"") repeat x_y_z {
    char[]T , uint8x { char[
007]
    Packet @calculatedFrom( ""`tick`""
)`100% of %d`
,
    } ,
} ,
char[]
    T @lengthOf( f32a
) ,
    //x
    options1 Z9_//	t
,
char[ 007 ] body `it's` , repeat zchar[42 ]
Packet `{ , }` , } // a // b")).
Eval vm_compute in ("<<<M261>>>" ++ full (runes_of_ascii "packet u8x { char[]
f32a @lengthOf(Foo ) `100% of %d` , repeat
i8i8 {  A f32a , x `say ""hi""`,
    // @lengthOf(
    repeat body rootA `
`
    , }
, }

")).
Eval vm_compute in ("<<<M264>>>" ++ full (runes_of_ascii "root packet u8x
    {
    // trailing space 
    repeat u64 Pad
    , i64_ @calculatedFrom(
""x y"" /// triple
) `100% of %d`
// @lengthOf(
// a // b
, @calculatedFrom(
""a	b"" ) @lengthOf( Header ) @lengthOf( zchar ) i32
    A @lengthOf( falsey)//x
,	repeat zchar[// a // b
10 ]
f32a  `
` ,  repeat
    f64
rootA
    `line1
line2`
, // packet A { u8 x, }
match string_
    as
    o { 65535 : // a // b
options1 ,
// a // b
// " ++ [128512]%N ++ runes_of_ascii " emoji
""// no comment"": packetx ""\" ++ [233]%N ++ runes_of_ascii """
// c
//x
: lengthOf, 65535 :
BodyLength ,
""packet"":
a1
, }
    , @tag(
4294967296) @tag( 7
    )@rightPad (	'\x00'
    )
    repeat uint64 i8i8 , char[
    42 ]string_
`// not a comment` , } MetaData pack
    {x o
    `two words` , x As,uint64 BodyLength
    `// not a comment`,x a1`` , T
int
`it's` ,
} MetaData falsey
// a // b
// 50% %s
{ Header BodyLength `` , }root packet trueish {i16 // @lengthOf(
trueish	@calculatedFrom( ""`tick`"")`line1
line2`
, f64 As ,string T	@lengthOf(
    pack )	`100% of %d` , @lengthOf(
    matchKey )repeat // " ++ [128512]%N ++ runes_of_ascii " emoji
char[ 00 ]
    lengthOf
// packet A { u8 x, }
// c
`line1
line2` , zchar[ 3 ]_x @calculatedFrom(
""`tick`"" )
    // " ++ [128512]%N ++ runes_of_ascii " emoji
    ,
// " ++ [27880; 37322]%N ++ runes_of_ascii "
// trailing space 
@tag( 00) //	t
zchar[4294967296
]  msg_type , repeat body,
Logon , @tag( 1
    ) @calculatedFrom( ""packet"")
zchar[ 3 ] Z9_ , }
")).
Eval vm_compute in ("<<<M267>>>" ++ full (runes_of_ascii "// " ++ [128512]%N ++ runes_of_ascii " emoji
packet  Header {metadata
, T @calculatedFrom( ""// no comment""
)
    `100% of %d` , // " ++ [128512]%N ++ runes_of_ascii " emoji
options1
i64_ , } options
{
    /// triple
    len =	' ' int = /// triple
i64 tag
=0123456789 calculatedFrom
= // packet A { u8 x, }
""\" ++ [233]%N ++ runes_of_ascii """
} options
{As  = false matchKey =""\n"" ; }options {
pack
= ""a\\"" ; float = """ ++ [28040; 24687]%N ++ runes_of_ascii """ A =
7 i8i8 =	42; }
")).
Eval vm_compute in ("<<<M268>>>" ++ full (runes_of_ascii "packet x_y_z {repeat
asx { falsey	@lengthOf( u )`100% of %d`
    ,repeat
matchKey { x_y_z@calculatedFrom(""a\\""
// trailing space 
// trailing space 
)
, i64
// 50% %s
//
calculatedFrom @calculatedFrom( ""// no comment"" )  `{ , }` , }// 50% %s
,
// c
//	t
char[ // 50% %s
007 ] Foo @calculatedFrom( ""abc""
), }
    , repeat
    uint32 Pad, repeat Logon
{
Logon
    {
    char[] packetx @calculatedFrom(
// " ++ [128512]%N ++ runes_of_ascii " emoji
// `tick` ""quote"" 'q'
""it's"" )
`
` ,
}, i8 len, asx , } , }
")).
Eval vm_compute in ("<<<M368>>>" ++ full (runes_of_ascii "root packet a1 {i8 A @calculatedFrom( //
""\" ++ [233]%N ++ runes_of_ascii """ )
, @lengthOf( int ) @lengthOf(  len) @lengthOf( f32a )
string
u8x `say ""hi""`
//	t
// " ++ [128512]%N ++ runes_of_ascii " emoji
, char[
    00 ]  As@lengthOf(  Z9_ )
, repeat leftPad ,  repeat  x_y_z
, @rightPad( '0') f64 lengthOf @calculatedFrom( ""`tick`"" ) `100% of %d`// " ++ [27880; 37322]%N ++ runes_of_ascii "
, repeat char  Foo// " ++ [27880; 37322]%N ++ runes_of_ascii "
, match msg_type as x_y_z
    { [ 255 , 7  ,10 ,
""a	b""
] : Foo,
    // a // b
    } ,
}
")).
Eval vm_compute in ("<<<M965>>>" ++ full (runes_of_ascii "packet A {
    u16 len @lengthOf(body) `100% of %s %d %v`,
    u32 crc @calculatedFrom(""CRC32"") `100% of %s %d %v`,
    string body,
}")).
Eval vm_compute in ("<<<M971>>>" ++ full (runes_of_ascii "packet A {
    u16 len @lengthOf(body) `%`,
    u32 crc @calculatedFrom(""CRC32"") `%`,
    string body,
}")).
Eval vm_compute in ("<<<M977>>>" ++ full (runes_of_ascii "packet A {
    u16 len @lengthOf(body) `%%d%!`,
    u32 crc @calculatedFrom(""CRC32"") `%%d%!`,
    string body,
}")).
Eval vm_compute in ("<<<M1431>>>" ++ full (runes_of_ascii "packet A {
    u16 len @lengthOf(body) `%!d(MISSING)%!!(MISSING)!(MISSING)`,
    u32 crc @calculatedFrom(""CRC32"") `%!d(MISSING)%!!(MISSING)!(MISSING)`,
    string body,
}")).
Eval vm_compute in ("<<<M1659>>>" ++ full (runes_of_ascii "root packet u8x {
    // trailing space 
    repeat u64 Pad,
    i64_ @calculatedFrom(""x y"") `100%!o(MISSING)f %!d(MISSING)`,
    @calculatedFrom(""a	b"")
    @lengthOf(Header)
    @lengthOf(zchar)
    i32 A @lengthOf(falsey),
    repeat zchar[10] f32a `
    `,
    repeat f64 rootA `line1
    line2`,// packet A { u8 x, }
    match string_ as o {
        65535 : options1,
        // a // b
        // " ++ [128512]%N ++ runes_of_ascii " emoji
        ""// no comment"" : packetx,
        ""\" ++ [233]%N ++ runes_of_ascii """ : lengthOf,
        65535 : BodyLength,
        ""packet"" : a1,
    },
    @tag(4294967296)
    @tag(7)
    @rightPad('\x00')
    repeat uint64 i8i8,
    char[42] string_ `// not a comment`,
}

MetaData pack {
    x o `two words`,
    x As,
    uint64 BodyLength `// not a comment`,
    x a1 ``,
    T int `it's`,
}

MetaData falsey {
    Header BodyLength ``,
}

root packet trueish {
    i16 trueish @calculatedFrom(""`tick`"") `line1
    line2`,
    f64 As,
    string T @lengthOf(pack) `100%!o(MISSING)f %!d(MISSING)`,
    @lengthOf(matchKey)
    repeat char[00] lengthOf `line1
    line2`,
    zchar[3] _x @calculatedFrom(""`tick`""),
    // " ++ [27880; 37322]%N ++ runes_of_ascii "
    // trailing space 
    @tag(00)
    //	t
    zchar[4294967296] msg_type,
    repeat body,
    Logon,
    @tag(1)
    @calculatedFrom(""packet"")
    zchar[3] Z9_,
}")).
Eval vm_compute in ("<<<M1702>>>" ++ full (runes_of_ascii "packet o {
    zchar[7] f32a @calculatedFrom(""a\""b""),
    @lengthOf(pack)
    options1,
    @calculatedFrom(""abc"")
    Header,
    @lengthOf(Logon)
    zchar[4294967296] asx @lengthOf(u) `100%!!(MISSING)o(MISSING)f %!!(MISSING)d(MISSING)`,
    @leftPad(' ')
    @calculatedFrom(""`tick`"")
    uint16 x_y_z `doc`,
    @tag(00)
    zchar[1] u,
    @calculatedFrom(""a\""b"")
    //
    u8x uint8x,
    char[1] metadata,
}")).
Eval vm_compute in ("<<<M1703>>>" ++ full (runes_of_ascii "packet x_y_z {
    repeat asx {
        falsey @lengthOf(u) `100%!o(MISSING)f %!d(MISSING)`,
        repeat matchKey {
            x_y_z @calculatedFrom(""a\\""),
            i64 calculatedFrom @calculatedFrom(""// no comment"") `{ , }`,
        },
        // c
        //	t
        char[007] Foo @calculatedFrom(""abc""),
    },
    repeat uint32 Pad,
    repeat Logon {
        Logon {
            char[] packetx @calculatedFrom(""it's"") `
            `,
        },
        i8 len,
        asx,
    },
}")).
Eval vm_compute in ("<<<M1716>>>" ++ full (runes_of_ascii "  packet
x_y_z
    {repeat
asx{

    falsey@lengthOf(	u ) `100% of %d`
, repeat

matchKey { 
x_y_z
	@calculatedFrom( ""a\\"" 
        // trailing space 
  	// trailing space 
)

, i64 
// 50% %s
  //
		calculatedFrom  @calculatedFrom(
""// no comment"" )`{ , }`  ,
} 	 // 50% %s
	,
// c
  //	t

  char[  // 50% %s
    007]Foo	@calculatedFrom(

    ""abc""

    )  ,

}
,repeat
uint32  Pad
    ,

repeat Logon

{
Logon

{
	char[] packetx  @calculatedFrom( 

// " ++ [128512]%N ++ runes_of_ascii " emoji
	  // `tick` ""quote"" 'q'

  ""it's"" )	`
`	,	} ,
    i8

len
    ,	asx	, 
} ,

    }
")).
Eval vm_compute in ("<<<M1746>>>" ++ full (runes_of_ascii "// " ++ [128512]%N ++ runes_of_ascii " emoji
packet Header {
    metadata,
    T @calculatedFrom(""// no comment"") `100%!!(MISSING)o(MISSING)f %!!(MISSING)d(MISSING)`,// " ++ [128512]%N ++ runes_of_ascii " emoji
    options1 i64_,
}

options {
    /// triple
    len = ' '
    int = i64
    tag = 0123456789
    calculatedFrom = ""\" ++ [233]%N ++ runes_of_ascii """
}

options {
    As = false
    matchKey = ""\n"";
}

options {
    pack = ""a\\"";
    float = """ ++ [28040; 24687]%N ++ runes_of_ascii """
    A = 7
    i8i8 = 42;
}")).
Eval vm_compute in ("<<<M1778>>>" ++ full (runes_of_ascii "packet A {
    u16 len @lengthOf(body) `100%!!(MISSING)o(MISSING)f %!!(MISSING)s(MISSING) %!!(MISSING)d(MISSING) %!!(MISSING)v(MISSING)`,
    u32 crc @calculatedFrom(""CRC32"") `100%!!(MISSING)o(MISSING)f %!!(MISSING)s(MISSING) %!!(MISSING)d(MISSING) %!!(MISSING)v(MISSING)`,
    string body,
}")).
Eval vm_compute in ("<<<M1793>>>" ++ full (runes_of_ascii "root packet leftPad {
    T @lengthOf(A) `" ++ [28040; 24687; 31867; 22411]%N ++ runes_of_ascii "`,
    Header @lengthOf(As),
    string calculatedFrom `" ++ [233]%N ++ runes_of_ascii "`,
    @calculatedFrom(""a	b"")
    repeat x_y_z {
        char[] T,
        uint8x {
            char[007] Packet @calculatedFrom(""`tick`"") `100%!!(MISSING)o(MISSING)f %!!(MISSING)d(MISSING)`,
        },
    },
    char[] T @lengthOf(f32a),
    //x
    options1 Z9_,
    char[007] body `it's`,
    repeat zchar[42] Packet `{ , }`,
}// a // b")).
