From FP Require Import Lexer Parser ShowPT Digest Formatter.
From Coq Require Import String List NArith.
Import ListNotations.
Open Scope string_scope.
Set Printing Width 100000000.
Set Printing Depth 100000000.
Definition show_fres (r : fres) : string :=
  match r with
  | FOk s => "OK:" ++ sh_escaped s ""
  | FErr s => "ERR:" ++ sh_escaped s ""
  | FPanic p => "PANIC:" ++ p
  end.
Definition check (rs : list rune) : string := digest (show_fres (format_res rs)).
Definition full (rs : list rune) : string := show_fres (format_res rs).
Eval vm_compute in ("<<<M1>>>" ++ full (runes_of_ascii "root packet
    len { match x as metadata// " ++ [27880; 37322]%N ++ runes_of_ascii "
{ [
    1
// packet A { u8 x, }
//x
,
    0 ,	"""" , ""a	b"",00 ]
    :	pack , [""// no comment"" , ""x y""
, """ ++ [233]%N ++ runes_of_ascii "t" ++ [233]%N ++ runes_of_ascii """ ]:	Packet //
,	} , repeat lengthOf u128, @calculatedFrom(
    // " ++ [128512]%N ++ runes_of_ascii " emoji
    ""it's""
) @lengthOf( calculatedFrom
// trailing space 
// 50% %s
) @lengthOf( u )	metadata
{ int8 lengthOf
    `crlf
line` ,} ,
@tag(// trailing space 
4294967296 ) calculatedFrom {f32 i64_ // packet A { u8 x, }
`" ++ [233]%N ++ runes_of_ascii "`,} ,@lengthOf(
BodyLength  )	repeat//x
char[65535 ] float
// `tick` ""quote"" 'q'
// c
,@calculatedFrom(
""\" ++ [233]%N ++ runes_of_ascii """) i64_ { match
stringy as
    _x{ //	t
[ 4294967296 ,
    3 ]
:	i8i8
, [ ""a\""b"" ]: x_y_z ,
    3:len , }
    , }  , @tag( // trailing space 
0)
zchar[
    7
] x_y_z ,@lengthOf( Header )
repeat
// 50% %s
/// triple
u64 As `
` ,// " ++ [27880; 37322]%N ++ runes_of_ascii "
@rightPad
    ( ) /// triple
@rightPad (  '\x00') u16
Header	`{ , }` , }
")).
Eval vm_compute in ("<<<M7>>>" ++ full (runes_of_ascii "options// @lengthOf(
{
    rootA=	""x y"";
trueish// a // b
=
    0 Header =""1"" }
    root packet packetx{ u32 uint8x ,
u A ,// " ++ [128512]%N ++ runes_of_ascii " emoji
i16 body @lengthOf(A )
,
@lengthOf(
    u8x
    // 50% %s
    )
    u8x @calculatedFrom( /// triple
""abc"" ) ,  @tag(
    42
)match	float as a1	{ [ """" ] : pack ,""""
: leftPad ,7
:f32a , 3
:
    i8i8
, 255
: string_	, } // c
, metadata``	, /// triple
uint8 rootA// packet A { u8 x, }
, }// trailing space 
packet zchar { // c
@calculatedFrom( ""it's"") uint64
//	t
// packet A { u8 x, }
int
, char
int ,i16 float // @lengthOf(
, asx	, // c
char[	7] Packet
    @lengthOf( body)
    `" ++ [28040; 24687; 31867; 22411]%N ++ runes_of_ascii "`
, } packet stringy
// " ++ [128512]%N ++ runes_of_ascii " emoji
//	t
{
//x
//	t
@calculatedFrom(""abc"" ) zchar[
65535 /// triple
] Packet ,// @lengthOf(
@tag(42 // " ++ [27880; 37322]%N ++ runes_of_ascii "
)
    // `tick` ""quote"" 'q'
    @leftPad()
    char[]
falsey ,i8i8
x `" ++ [28040; 24687; 31867; 22411]%N ++ runes_of_ascii "`,@tag(
255 ) u128
    {
    f32 //
uint8x
`u8 x,`, o @calculatedFrom( ""a\""b"")
// 50% %s
//x
, char[] charz `
` , }, @calculatedFrom(
""1"" )
    repeat i8i8 { zchar[0 ] int , } , @tag( 007 )repeat i64
Logon
`
` , repeat
    char[ 0 ] matchKey `crlf
line` ,@calculatedFrom(  ""a\\"") @tag(
    42
)	@leftPad // 50% %s
(
'0'  ) match o as
x_y_z
    // " ++ [27880; 37322]%N ++ runes_of_ascii "
    { [ // `tick` ""quote"" 'q'
""" ++ [128512]%N ++ runes_of_ascii """ , ""x y"" , 0123456789 , ""CRC32""// c
,""it's"",
    //
    007
,
3 ,
007 // " ++ [27880; 37322]%N ++ runes_of_ascii "
]
:Packet [
    255 ,  ""x y""	]: x_y_z ,} ,}
//	t
")).
Eval vm_compute in ("<<<M9>>>" ++ full (runes_of_ascii "packet roots { u16 packetx`say ""hi""` ,  @tag( 00 )string trueish ,
// 50% %s
// @lengthOf(
}	packet falsey {match o
as zchar {
[7
,
    // a // b
    """ ++ [233]%N ++ runes_of_ascii "t" ++ [233]%N ++ runes_of_ascii """ ]:leftPad ,
    ""a	b"" : f32a ,
[""`tick`""
, 10
    /// triple
    ,
// @lengthOf(
// `tick` ""quote"" 'q'
4294967296, 255 ,
10
, ""{,}""
// a // b
//
, """"
    ]
    : // a // b
i64_
, 00 : len , [ 10,
    0,0123456789//x
]
:float }, repeat // 50% %s
char[] BodyLength ,
    @rightPad (
    '0'
    ) @calculatedFrom( // trailing space 
""a	b""
)match Foo as chars {	""" ++ [28040; 24687]%N ++ runes_of_ascii """ : asx, ""packet""	: _x , },} root /// triple
packet x
    { @calculatedFrom( """ ++ [233]%N ++ runes_of_ascii "t" ++ [233]%N ++ runes_of_ascii """
)// c
uint16 calculatedFrom , asx rootA `{ , }` , @calculatedFrom(	""" ++ [28040; 24687]%N ++ runes_of_ascii """ )	x A ,@lengthOf( u8x) @calculatedFrom(
""1"" ) @lengthOf(
    //x
    uint8x )
    zchar[ 65535]lengthOf
`tab	here`,}")).
Eval vm_compute in ("<<<M11>>>" ++ full (runes_of_ascii "root packet repeatCount
    {repeat tag As  , Logon @calculatedFrom(
""it's"" )
, @calculatedFrom( ""`tick`""
) string uint8x , repeat /// triple
Pad u8x `line1
line2`
,@leftPad( )char[
    007
    ] string_
    , @lengthOf(Packet ) repeat
    int8 Header `it's`,
    // `tick` ""quote"" 'q'
    } root packet pack{
    uint64  Packet @calculatedFrom(	""\n""
    )
, }
    options {	pack	=
    ""// no comment"" //x
;
body // " ++ [128512]%N ++ runes_of_ascii " emoji
= ""a	b""
;} // trailing space 
packet Logon// trailing space 
{ u8x{
    // 50% %s
    trueish
@lengthOf(tag) `two words` , match body
    // trailing space 
    as
int  {// trailing space 
0 :i8i8 } ,
    repeat uint8x o
, } //	t
,
@tag(65535)
int16 falsey, zchar[ 10] float `100% of %d`
    , repeat
    // packet A { u8 x, }
    calculatedFrom
`a\` , zchar[ 10]	crc
@lengthOf(
    repeatCount
)
`" ++ [28040; 24687; 31867; 22411]%N ++ runes_of_ascii "` , // `tick` ""quote"" 'q'
match
// trailing space 
// " ++ [128512]%N ++ runes_of_ascii " emoji
rootA as repeatCount  {
3: crc
""CRC32""
    : //x
x
    //x
    , 007
    :A 7: chars
    ,	[
    007 ]: x ,  [
    //x
    007// " ++ [27880; 37322]%N ++ runes_of_ascii "
, 255  ,""" ++ [28040; 24687]%N ++ runes_of_ascii """ , 42 ]: Z9_
    , } ,  @tag(
007//	t
)
repeat string len , int	, Foo  {
match
roots
as
    _x
    { ""// no comment"" : o, [ 4294967296, """ ++ [233]%N ++ runes_of_ascii "t" ++ [233]%N ++ runes_of_ascii """ , 4294967296 , 7  , ""packet""
,
    3
] : string_ ,""x y""// " ++ [27880; 37322]%N ++ runes_of_ascii "
:float [ ""a\""b"" //x
,
""1""
] // packet A { u8 x, }
: zchar  ,}
    , rootA { repeat metadata{ repeat
char[
    1 ] i64_
`100% of %d`, match matchKey as stringy{ [ ""`tick`"" ] :x ,
[
    3 , 65535 ,255 ,  ""a\\"",""a\\"" , ""x y"" //x
] : _x,} , }
, }	,
repeat char stringy ,
    A `crlf
line`
, //	t
}, @leftPad ( ) Header{	i32 asx @lengthOf(
    lengthOf
)
,
} , }
")).
Eval vm_compute in ("<<<M13>>>" ++ full (runes_of_ascii "MetaData u128 {} MetaData a1 {}// " ++ [128512]%N ++ runes_of_ascii " emoji
root packet o
{
char[ 10 ] stringy@lengthOf(
/// triple
// 50% %s
Z9_ //	t
) ,
    match x_y_z as	stringy { 3 : float ,	} , @leftPad	(
' ' )u128 {
    repeat i32
msg_type `it's` , x ,
repeat char[ //
65535 ] T
, match  A as i8i8 { """ ++ [128512]%N ++ runes_of_ascii """ : Logon , },} , }MetaData x_y_z { // @lengthOf(
options1 a1 , u8x  x_y_z
`tab	here` ,	char MetaDataX , // " ++ [27880; 37322]%N ++ runes_of_ascii "
zchar[ 65535
    ] chars
    , char[]
crc`doc`	, }")).
Eval vm_compute in ("<<<M14>>>" ++ full (runes_of_ascii "
packet Pad { @calculatedFrom( ""x y"") repeat f64 x
`tab	here`, @rightPad
    ( ) char[]
float@calculatedFrom(
""" ++ [233]%N ++ runes_of_ascii "t" ++ [233]%N ++ runes_of_ascii """ ) ,match uint8x as
falsey//x
{ ""CRC32""
:
    leftPad } ,@tag(
    //	t
    10 )
    repeat Pad {
    // " ++ [128512]%N ++ runes_of_ascii " emoji
    zchar[42 ] uint8x@lengthOf( o)
,
// `tick` ""quote"" 'q'
//x
i16 x_y_z , stringy
    @calculatedFrom(
""`tick`""
) `a\` ,}, Header// c
repeatCount ,
i64_	, @lengthOf( //x
uint8x
    ) match options1 as BodyLength
{ 0
    :
    chars //x
, 255: BodyLength 0123456789
    :Foo
    , [ 65535
    , 42 , 42 ,
    65535 ,
255// " ++ [27880; 37322]%N ++ runes_of_ascii "
, 1
    // @lengthOf(
    , ""1"",
""\n""] : pack
} , repeat
    i8i8 msg_type , @lengthOf(f32a	) // @lengthOf(
T BodyLength
, }
")).
Eval vm_compute in ("<<<M16>>>" ++ full (runes_of_ascii "packet pack {@rightPad (
    '\x00' )	options1  ,repeat
f32
    Packet`u8 x,`
, repeat  Logon { repeat
    a1 {char[  0 ]
    tag
,
u64 leftPad,
    } // 50% %s
, repeatCount ,repeat // packet A { u8 x, }
BodyLength /// triple
, }
    , repeat char[] packetx,
char[
00]tag@lengthOf(o
) , }packet matchKey { repeat As	u8x `it's` , }options{}MetaData
string_
{ msg_type
    Z9_ `line1
line2` ,} //x")).
Eval vm_compute in ("<<<M23>>>" ++ full (runes_of_ascii "root packet
u128 { @lengthOf(
    A// " ++ [27880; 37322]%N ++ runes_of_ascii "
)pack@calculatedFrom( ""`tick`"" ),
repeat
    char[]	As `crlf
line`
    // " ++ [27880; 37322]%N ++ runes_of_ascii "
    , @tag( 4294967296 ) @rightPad
('\x00'	) @calculatedFrom( ""a\\"" ) tag { repeat string o
    ,char[]  calculatedFrom `u8 x,`
,
u
    // " ++ [128512]%N ++ runes_of_ascii " emoji
    { u64
    body
    `say ""hi""`
    ,	repeat f32
    int ,repeat rootA { repeat string i64_ `it's`
    //	t
    ,As
    @calculatedFrom(
"""" ) `" ++ [233]%N ++ runes_of_ascii "`
    ,tag `" ++ [233]%N ++ runes_of_ascii "`, } , zchar[ 65535 ] trueish
    , } ,}	, @lengthOf( Logon )i8// @lengthOf(
Packet , @tag(
3 ) @lengthOf( chars ) @tag( 10 ) u8
    Foo ,
    // " ++ [128512]%N ++ runes_of_ascii " emoji
    i64_
    _x`crlf
line`,
    u32
    A , match a1 as i8i8 { [""1"" ,4294967296
]  :
a1, """" :a1	, 007
: a1, [ ""CRC32""
]
: Header
    }
    , int64
As , } root	packet
chars { x_y_z {
    // a // b
    u32 u128 ,
float64 metadata
    , trueish
    @calculatedFrom(""it's"" ) `u8 x,`,
    } , @calculatedFrom( ""\n"" )
repeat
    // c
    Foo
pack, string
    asx
@lengthOf( x_y_z ) `a\` ,
    uint8 // `tick` ""quote"" 'q'
trueish @calculatedFrom( ""a\""b""
)  , @leftPad
( ) char[
007 ] a1
    @lengthOf(
a1)
    `crlf
line`
,rootA msg_type, zchar[ 1
]  u8x @calculatedFrom( ""`tick`""
) , }
    options
{ } packet crc {// a // b
@lengthOf(leftPad ) @tag( 7
    )//	t
@lengthOf(
options1  )
int32 asx , @rightPad
( )
pack roots , string
a1
    `say ""hi""` , match body
    // packet A { u8 x, }
    as matchKey
    {[
""`tick`""
    // @lengthOf(
    ]:	string_
    },
    //	t
    repeat uint16 Packet , repeat uint8 i64_ , @lengthOf( Pad	) /// triple
A // trailing space 
`// not a comment` ,
char[]u8x
    , repeat
    char[ 007 ] pack	, A
    { // " ++ [27880; 37322]%N ++ runes_of_ascii "
x { string
    uint8x @lengthOf( leftPad  )`say ""hi""` // packet A { u8 x, }
,Packet T
// `tick` ""quote"" 'q'
// c
, As @lengthOf(
// " ++ [27880; 37322]%N ++ runes_of_ascii "
// c
string_ ) `// not a comment` , }, char[] _x@lengthOf(
o )
    // 50% %s
    ,
    len x , },
    //
    }
")).
Eval vm_compute in ("<<<M24>>>" ++ full (runes_of_ascii "packet float
// trailing space 
// c
{ @leftPad (' ')repeat char[] MetaDataX , @leftPad (
)
    i16 x_y_z @calculatedFrom( ""CRC32""
)
, }packet chars {
    } packet asx
{
@tag( 255)
@tag( 4294967296 ) @calculatedFrom(
""{,}""
    // c
    )
matchKey /// triple
o `
` ,}
")).
Eval vm_compute in ("<<<M28>>>" ++ full (runes_of_ascii "options {
Foo =
true ; len = '\x00'
asx =
'0' ; asx = // packet A { u8 x, }
3 ;
// " ++ [128512]%N ++ runes_of_ascii " emoji
//
} //	t
packet	u128{
    uint8 crc `doc`,
    Z9_ ,repeat
i8 roots,	@lengthOf( crc) repeat As `two words` , zchar[	007 ]
    //x
    tag `// not a comment` ,} packet pack// c
{ string msg_type ,@calculatedFrom(	""""	)
    repeat string
tag`u8 x,`
    ,int16 leftPad ,
@tag(1
    // " ++ [27880; 37322]%N ++ runes_of_ascii "
    ) crc ,}
/// triple
// a // b
root packet packetx {
@rightPad
(	'0'	) float64 o
    // a // b
    `two words`
,
repeat //	t
string_
    crc , i64
    As`line1
line2` ,@lengthOf( rootA //
)
u32
Logon @lengthOf(a1
) , @calculatedFrom(""""
    ) @leftPad
//x
// @lengthOf(
(' '
) uint16 i8i8
@calculatedFrom( ""// no comment"") , repeat char[]a1
, u128 {
// packet A { u8 x, }
// trailing space 
falsey @lengthOf( pack ) , int16
packetx ,
i64_ @calculatedFrom(""\" ++ [233]%N ++ runes_of_ascii """
    ) `{ , }`
    // " ++ [27880; 37322]%N ++ runes_of_ascii "
    , int64 i8i8 `a\`,
    }
, }")).
Eval vm_compute in ("<<<M35>>>" ++ full (runes_of_ascii "options {  stringy =
// packet A { u8 x, }
// a // b
true
;
    x_y_z
=
    false x ='\x00' //x
;
matchKey  =
    i64
; // c
}root packet o {@lengthOf( float ) int32 As
,
}
    root
/// triple
// trailing space 
packet x
{ // a // b
@rightPad
( ) i8i8 @calculatedFrom( ""x y"")//x
, } MetaData
u  { A
    /// triple
    u8x ,
} options {
    u8x = i64 _x  =""CRC32"" ; MetaDataX = u8 }
")).
Eval vm_compute in ("<<<M37>>>" ++ full (runes_of_ascii "options {
packetx/// triple
= 42; }
    root packet falsey {@tag( 1 )
crc { repeat	char[ 007 ] charz // 50% %s
`it's` , repeat	u8
    len `
`
    , crc trueish	, }	, match
float as string_ {""x y"" :
// " ++ [27880; 37322]%N ++ runes_of_ascii "
//
zchar , """ ++ [128512]%N ++ runes_of_ascii """
    // " ++ [128512]%N ++ runes_of_ascii " emoji
    : string_
// trailing space 
// @lengthOf(
,""CRC32""  : options1
, [""1"" // c
] :
crc
    , ""packet"" // " ++ [27880; 37322]%N ++ runes_of_ascii "
: options1 ,  [ 42
, ""a	b""
,
    // trailing space 
    """ ++ [233]%N ++ runes_of_ascii "t" ++ [233]%N ++ runes_of_ascii """ /// triple
, ""abc""
,0123456789, ""{,}""
, // trailing space 
00	,""" ++ [233]%N ++ runes_of_ascii "t" ++ [233]%N ++ runes_of_ascii """ // packet A { u8 x, }
]:	asx },repeat  f64	charz
, @tag( 10 ) repeat charz
Logon , @lengthOf( u8x
) @calculatedFrom( ""a\""b"" )
    @rightPad // @lengthOf(
(
' '
    ) u8 a1
`u8 x,` ,	}
packet	falsey  {
    repeat
char[] zchar, @tag( 255 )@calculatedFrom( ""`tick`""
    )
char[] asx `say ""hi""`
    ,
    u8  As `u8 x,` , // 50% %s
zchar[00 ]	uint8x @lengthOf( // packet A { u8 x, }
zchar ) , char[ 255  ]
uint8x , Pad @lengthOf(
    // packet A { u8 x, }
    _x
    )	`" ++ [233]%N ++ runes_of_ascii "` ,
    _x,@rightPad (
    ' ' ) uint16
BodyLength/// triple
, @lengthOf( int// " ++ [128512]%N ++ runes_of_ascii " emoji
) metadata tag , int64	string_ `
`
, } root
packet
o {} options// packet A { u8 x, }
{	}
")).
Eval vm_compute in ("<<<M40>>>" ++ full (runes_of_ascii "packet
    len { // " ++ [27880; 37322]%N ++ runes_of_ascii "
@leftPad( '0'
    ) // trailing space 
Logon @lengthOf( _x)
`100% of %d`
,char
    rootA
, @calculatedFrom( """ ++ [28040; 24687]%N ++ runes_of_ascii """ )
@leftPad
    (' ' ) // `tick` ""quote"" 'q'
i8
crc , msg_type
@calculatedFrom( """"	)
`
`
, // `tick` ""quote"" 'q'
}	options//x
{}
options { u8x =true }
")).
Eval vm_compute in ("<<<M42>>>" ++ full (runes_of_ascii "
root packet  x  {
@rightPad
( '\x00' ) repeat
    uint32 crc , } options{
Packet
    // @lengthOf(
    =char[] }	MetaData o
    {}
")).
Eval vm_compute in ("<<<M43>>>" ++ full (runes_of_ascii "packet u {match x_y_z as
leftPad
    { 0123456789
    :	x_y_z	,},@rightPad ()
    u64 trueish ,	repeat u64 trueish
`line1
line2`	,@rightPad ( ) // a // b
char[ 255
    ]
    _x
`// not a comment`
// packet A { u8 x, }
// 50% %s
,	zchar[7]leftPad ,match chars  as
    //x
    lengthOf {1
    :o 42  : chars ,} // trailing space 
,}
")).
Eval vm_compute in ("<<<M44>>>" ++ full (runes_of_ascii "MetaData BodyLength {} packet x_y_z
{
@lengthOf(  roots )
    A { // " ++ [128512]%N ++ runes_of_ascii " emoji
repeat
    zchar[0123456789  ]
    Z9_`a\`, },
}
    options // packet A { u8 x, }
{ Pad =
    ""x y"" ; // trailing space 
trueish
=
true body =
3 ; matchKey=
true //x
; i64_ =
    char[] ; }packet Packet  {char[]
// " ++ [128512]%N ++ runes_of_ascii " emoji
// `tick` ""quote"" 'q'
float@calculatedFrom( ""`tick`"" ) ,char[] charz @calculatedFrom( ""abc"" ) ,match As as
    // packet A { u8 x, }
    asx // @lengthOf(
{ [ """ ++ [28040; 24687]%N ++ runes_of_ascii """, ""`tick`""
, ""{,}"" ,
""{,}"" , ""a	b""
    // " ++ [27880; 37322]%N ++ runes_of_ascii "
    , 1
, ""\" ++ [233]%N ++ runes_of_ascii """	] :	rootA
,
    255:	asx 42
    : a1 , 42 : x_y_z  """" :
    msg_type
,7 : f32a ,	}
,  @leftPad
( '0'
) repeatCount crc `// not a comment`
    ,
@lengthOf(MetaDataX) float64 falsey@calculatedFrom( ""\" ++ [233]%N ++ runes_of_ascii """ ) `" ++ [233]%N ++ runes_of_ascii "` , }

")).
Eval vm_compute in ("<<<M46>>>" ++ full (runes_of_ascii "packet u8x  { @leftPad ( //	t
'0'//x
)
    uint8x lengthOf
    `line1
line2`
    // 50% %s
    ,
}
packet msg_type{
}MetaData u {
}

")).
Eval vm_compute in ("<<<M51>>>" ++ full (runes_of_ascii "options {lengthOf // " ++ [128512]%N ++ runes_of_ascii " emoji
=// `tick` ""quote"" 'q'
true ; string_ =
    ""a\\"" ;}
root packet zchar
{string_ // " ++ [27880; 37322]%N ++ runes_of_ascii "
{ match
//
//x
x as string_{
    //	t
    0: zchar  ,
} ,
    }
    ,	@calculatedFrom(	""CRC32"" ) @tag( 42
) repeat
char[
    4294967296 ] u `say ""hi""` ,
    // 50% %s
    @tag( 3 )  @leftPad ( ' ' ) @tag( // `tick` ""quote"" 'q'
42	) match Header
as A { 42 : Logon ,  } ,
@tag(
4294967296
)i64_ `doc` ,} root packet
x_y_z { @calculatedFrom( ""// no comment"" ) @leftPad ( ) @lengthOf( int)//	t
u8x `" ++ [28040; 24687; 31867; 22411]%N ++ runes_of_ascii "`
    ,
    }
")).
Eval vm_compute in ("<<<M54>>>" ++ full (runes_of_ascii "// trailing space 
packet
stringy
{	repeat char[]  roots , @leftPad
    //x
    (// c
' '  )char T `// not a comment`
    ,//
}
")).
Eval vm_compute in ("<<<M58>>>" ++ full (runes_of_ascii "packet o { zchar[ 7 ] /// triple
f32a@calculatedFrom( ""a\""b"")	, @lengthOf( pack
)
    options1 ,@calculatedFrom(""abc""
)
    Header , @lengthOf( Logon )zchar[4294967296
    ] asx // packet A { u8 x, }
@lengthOf(
// a // b
// packet A { u8 x, }
u )
`100% of %d`	, @leftPad (' ' // trailing space 
)	@calculatedFrom( ""`tick`"" )
uint16 x_y_z`doc` , @tag( 00 )zchar[ //	t
1 ] // c
u,@calculatedFrom(""a\""b"" ) //
u8x uint8x,
char[1 ]
metadata , }
")).
