From FP Require Import Lexer Parser ShowPT Digest Formatter.
From Coq Require Import String List NArith.
Import ListNotations.
Open Scope string_scope.
Set Printing Width 100000000.
Set Printing Depth 100000000.
Definition show_fres (r : fres) : string :=
  match r with
  | FOk s => "OK:" ++ sh_escaped s ""
  | FErr s => "ERR:" ++ sh_escaped s ""
  | FPanic p => "PANIC:" ++ p
  end.
Definition check (rs : list rune) : string := digest (show_fres (format_res rs)).
Definition full (rs : list rune) : string := show_fres (format_res rs).
Eval vm_compute in ("<<<M1437>>>" ++ full (runes_of_ascii "

  // 50% %s

  packet
	crc{ char[65535 ]
    Foo`" ++ [233]%N ++ runes_of_ascii "`	, calculatedFrom Header ,
stringy
MetaDataX  , @lengthOf(
//
    BodyLength ) 
lengthOf
	{  f32
	u

`100% of %d`  ,

T
@lengthOf(
	leftPad)
	,  f32
// 50% %s
	  f32a `it's`	, zchar[  255
]  crc
    ,  }
,
Pad
@calculatedFrom(
	""abc"") , @lengthOf(
repeatCount

) @rightPad

    (	) 
@tag( 
1 // trailing space 
	  )//	t
  char[7
]

MetaDataX @calculatedFrom(

""\n"" )	,
	repeat

    uint64
pack,
	@calculatedFrom(	""CRC32"")repeat
    x_y_z  msg_type
    `say ""hi""` 
,
	}

")).
Eval vm_compute in ("<<<M1462>>>" ++ full (runes_of_ascii "
// c

packet
	BodyLength
	{
@tag(
42 )Header	tag	`u8 x,`
    ,

    }	options{  }

packet 
string_
	{	float32
rootA , uint8

MetaDataX	`crlf
line`

    , charz
    // " ++ [128512]%N ++ runes_of_ascii " emoji
, @tag(
4294967296
	)
    @rightPad	(

'\x00')

@tag(

    7
)

    // c
u32	u128 	 //x
  @calculatedFrom(

    ""\" ++ [233]%N ++ runes_of_ascii """),}
")).
Eval vm_compute in ("<<<M1485>>>" ++ full (runes_of_ascii "
// c" ++ [12288]%N ++ runes_of_ascii "

	packet A
	{  }

")).
Eval vm_compute in ("<<<M1490>>>" ++ full (runes_of_ascii "  // c" ++ [8287]%N ++ runes_of_ascii "

  packet

    A {
}
")).
Eval vm_compute in ("<<<M1694>>>" ++ full (runes_of_ascii "
// top

options  // c0
	{// c1

  A // c2
    =// c3
  ""// no comment""	// c4
    }	// c5
")).
Eval vm_compute in ("<<<M1796>>>" ++ full (runes_of_ascii "// top

	packet 	 // c0
      B 	 // c1
      {  
      // c2
  u8	a	// c4

  ,
    // c5
    } // c6a
    // c6b
	root 
  // c7
  packet  // c8a
	// c8b
  P  // c9a
	// c9b
    {
	u8 K // c12a
  // c12b
, // c13
    u64 // c14a
  // c14b
    L	// c15

@lengthOf(	// c16
		Body	// c17
)  // c18
	, match// c20a
  // c20b
    K // c21
as	// c22
  Body
{  // c24a
    	// c24b
  1	// c25a

// c25b
      :  // c26
B
, // c28a
	// c28b
	}  ,	// c30a
    	// c30b
	}  // c31a
// c31b
")).
Eval vm_compute in ("<<<M1891>>>" ++ full (runes_of_ascii "/// triple

  packet  falsey{ }packet
	Logon

    {
@tag(// @lengthOf(

	1	) // c
	body

a1
    ,
	repeat

    BodyLength ,repeat 
Foo
{ 
match	rootA	as x	{[ 
3 
] 
: 
//
	  i8i8 },
    match
    charz 
as  // a // b
  charz

    {  007
	: 
Packet ,	[ ""// no comment""
	] 	 // trailing space 

:	/// triple

  A,
[

    10]:  float
	,

    [	""`tick`"" ,  10]:
    int

    ,

    } 
, }

    ,  // " ++ [27880; 37322]%N ++ runes_of_ascii "

	repeat

    u8x
,asx

    { int32
    Packet
	@calculatedFrom( 

// 50% %s
// a // b
  ""// no comment"")
, }
	,
    @lengthOf(
leftPad )	int8
	float 
	    //

  // @lengthOf(
  	@calculatedFrom(  ""CRC32"" )

    ,
    lengthOf 	 // packet A { u8 x, }
  {
char[ 65535] string_@calculatedFrom(
"""" ) 	 // a // b
    ,
}
	, len@calculatedFrom(""" ++ [233]%N ++ runes_of_ascii "t" ++ [233]%N ++ runes_of_ascii """ )
,  @lengthOf(

    As
) 
char[
	1	]
    BodyLength// " ++ [27880; 37322]%N ++ runes_of_ascii "
  , }	// a // b
")).
Eval vm_compute in ("<<<M1930>>>" ++ full (runes_of_ascii "//	t

packet 
MetaDataX

{@leftPad(  )
repeat

    float64 
asx 
, } MetaData 
Foo
{  // a // b
	char[
65535
	]Pad , }
    packet body  // 50% %s
{

    match 
asx	as
    charz
{  // `tick` ""quote"" 'q'
	  10
: u8x	,

    ""it's""
    : 
leftPad

    , 3
: metadata 
        // trailing space 
    //x
  	, ""it's""
    : x, [ 65535 ,  """ ++ [233]%N ++ runes_of_ascii "t" ++ [233]%N ++ runes_of_ascii """
]
	:
    u128  ,
    10

:	// @lengthOf(

len
	},repeat
f32  rootA
	``

    , // 50% %s
  @leftPad( 

//
  ' '
    )

repeat

    i64  BodyLength // c
  , repeatCount

    {
i16  crc
@lengthOf(	u128

)  ,
    }
    ,
u16  // " ++ [27880; 37322]%N ++ runes_of_ascii "
	  u  @lengthOf( f32a

    ) 
`// not a comment` , // trailing space 
  len
{

match
    Logon
as // @lengthOf(
      Foo
	{""" ++ [233]%N ++ runes_of_ascii "t" ++ [233]%N ++ runes_of_ascii """
	: stringy

    ,
10 :msg_type ,  //	t
	[
""\n""
,""`tick`""
,
""abc""

,""""  ,  007  ,  1 
,	""a\""b""
	]  :
i64_ 	 // packet A { u8 x, }

  ,255  
  //x
    : T
    ,

""{,}"":
f32a
    },

string

    tag @lengthOf(Z9_ ), 
  // a // b
u32 charz
    `crlf
line`	,
u8x @lengthOf( 	 /// triple
      rootA
    )
,}, float
	,
int8  repeatCount
@lengthOf(f32a

)
`crlf
line`

    ,
    zchar[
    // packet A { u8 x, }
      7  // a // b
	]
    BodyLength 
@lengthOf(  string_  // a // b

)	,

    } 
packet u128  {	x  `// not a comment`,
}//

packet

x { 
A`doc`

    ,
	Packet 
@calculatedFrom(	// `tick` ""quote"" 'q'
    ""\" ++ [233]%N ++ runes_of_ascii """
    )

`say ""hi""` , repeat  string
asx 
, @lengthOf(

MetaDataX

)
	repeat char[4294967296  //
		] 
string_	`u8 x,`

,
@lengthOf( charz ) char[

    0123456789
	]
	f32a
    `say ""hi""`
,  }

")).
Eval vm_compute in ("<<<M1961>>>" ++ full (runes_of_ascii "

  // c

MetaData

tag

    { 
}
")).
