From FP Require Import Lexer Parser ShowPT Digest Formatter.
From Coq Require Import String List NArith.
Import ListNotations.
Open Scope string_scope.
Set Printing Width 100000000.
Set Printing Depth 100000000.
Definition show_fres (r : fres) : string :=
  match r with
  | FOk s => "OK:" ++ sh_escaped s ""
  | FErr s => "ERR:" ++ sh_escaped s ""
  | FPanic p => "PANIC:" ++ p
  end.
Definition check (rs : list rune) : string := digest (show_fres (format_res rs)).
Definition full (rs : list rune) : string := show_fres (format_res rs).
Eval vm_compute in ("<<<M13>>>" ++ full (runes_of_ascii "root
    packet	roots{ // `tick` ""quote"" 'q'
} options	{	asx =
    ""\n"" ; x_y_z =
3 ;rootA = ""CRC32""
    ;float=char  T = false
; }
packet falsey {
body { match u8x as /// triple
string_{ [
42,7 ,65535
    ,
    3 ,
    42 ,7 , ""1""
    , ""packet"" ]:
    // `tick` ""quote"" 'q'
    i64_ , [ ""abc""]
    :  Foo ,	""a\\""
    :
roots ,
    4294967296 :	stringy	}
    , //x
asx
`{ , }` // " ++ [128512]%N ++ runes_of_ascii " emoji
, i8
charz@lengthOf( // trailing space 
x_y_z)// trailing space 
`a\` ,}
    // @lengthOf(
    , @tag( 65535 ) i64_ @lengthOf( tag )`u8 x,`
// a // b
//	t
,Z9_@lengthOf( int )
, @calculatedFrom( ""a\""b""
)uint16  stringy @lengthOf( trueish ) , Logon	{string  Logon `say ""hi""` , packetx
i64_ , match msg_type as	float
{ ""\n"" : i64_,	[
""" ++ [128512]%N ++ runes_of_ascii """
    ]
:
metadata , // `tick` ""quote"" 'q'
[
// trailing space 
// " ++ [128512]%N ++ runes_of_ascii " emoji
10, ""1""  ]
:zchar ,
}
    , //x
}
    //x
    , Packet
    @calculatedFrom(""CRC32"" ), }
")).
Eval vm_compute in ("<<<M30>>>" ++ full (runes_of_ascii "packet
repeatCount
    {@calculatedFrom(	""abc"" ) zchar[
    // @lengthOf(
    0
] // `tick` ""quote"" 'q'
MetaDataX  `
`	, string_
@calculatedFrom( ""1""
    ) ,	match string_
    as msg_type{ [// a // b
65535	,// a // b
""a	b""
    , 7
    ,	255 ]:
matchKey , 10 :
    options1 , 3 :Logon
    , } ,
    // " ++ [27880; 37322]%N ++ runes_of_ascii "
    packetx `a\` ,}
")).
Eval vm_compute in ("<<<M33>>>" ++ full (runes_of_ascii "packet
int {zchar[ 007 ] metadata ,i16	matchKey,
@rightPad('0')
@lengthOf(
    metadata) repeat zchar[
    10 ]
//
// " ++ [128512]%N ++ runes_of_ascii " emoji
charz
    // trailing space 
    ,	} packet int { @tag( 65535 )
u32 x @calculatedFrom(
    ""x y""// " ++ [27880; 37322]%N ++ runes_of_ascii "
),match pack as MetaDataX
{
    [	""abc"" ,
    // " ++ [27880; 37322]%N ++ runes_of_ascii "
    0123456789 , ""`tick`"" ] :
body}	, @lengthOf( zchar ) match leftPad as u8x{
    10:  u8x ,
[
007
    // " ++ [128512]%N ++ runes_of_ascii " emoji
    , 255
    ]
    :
    chars	"""" :
    body ,42 : trueish , }, }")).
Eval vm_compute in ("<<<M53>>>" ++ full (runes_of_ascii "root
packet u {
    char[007 ]x_y_z
`two words` , int16 u8x
    @calculatedFrom( ""packet""
    )
    // @lengthOf(
    ,
    float64
    falsey
@calculatedFrom( ""\" ++ [233]%N ++ runes_of_ascii """ ) `u8 x,`
    ,
    trueish @calculatedFrom(
    """ ++ [233]%N ++ runes_of_ascii "t" ++ [233]%N ++ runes_of_ascii """ )
`tab	here` , @tag( 1	) repeat char[
4294967296 ]
    // " ++ [128512]%N ++ runes_of_ascii " emoji
    u , match
    // " ++ [27880; 37322]%N ++ runes_of_ascii "
    i8i8
    //
    as // " ++ [128512]%N ++ runes_of_ascii " emoji
o
    { [""a\\""
    ]:
    matchKey,[ 0123456789
    //x
    , ""x y""  , 0 ,
/// triple
/// triple
00 , ""a	b"" ,""{,}"" , // a // b
""{,}"" ,
007 ] :
u8x,
255 : u128 , [
""" ++ [28040; 24687]%N ++ runes_of_ascii """
    , 0123456789	,65535 ,
    // a // b
    ""\n"" ] : _x, 7 :
falsey} , @leftPad ( )// " ++ [128512]%N ++ runes_of_ascii " emoji
charz @lengthOf(A ) , // `tick` ""quote"" 'q'
} root packet stringy
{
    repeat
    MetaDataX {float32
T , string
    x_y_z `a\`
, repeat	_x  zchar`u8 x,` , }
    , } packet Foo {
    @lengthOf(  roots
    ) calculatedFrom a1, zchar[ 0123456789]	_x,
// @lengthOf(
// trailing space 
match //
roots as MetaDataX // c
{ /// triple
42 :	_x ,
3// a // b
:msg_type  7 : a1, """"	:i8i8 , //x
[ """ ++ [233]%N ++ runes_of_ascii "t" ++ [233]%N ++ runes_of_ascii """ ]: i8i8 , 00 : leftPad ,
    } , @calculatedFrom( // @lengthOf(
"""" ) char[  00 // c
]
Foo
@lengthOf( uint8x) ,  f32 chars , }packet
    metadata
    //	t
    { } MetaData i64_ // packet A { u8 x, }
{ lengthOf options1 ,
// @lengthOf(
//x
a1 A,
    x Header ,
    }
")).
Eval vm_compute in ("<<<M68>>>" ++ full (runes_of_ascii "
packet
    Header {  match roots  as packetx
// " ++ [27880; 37322]%N ++ runes_of_ascii "
//	t
{
    // `tick` ""quote"" 'q'
    [
""" ++ [28040; 24687]%N ++ runes_of_ascii """ ,
    0123456789 ]:packetx,
//
// c
4294967296
    : Logon ,	[ ""\n""
    ,""x y"" , // " ++ [128512]%N ++ runes_of_ascii " emoji
""packet"" , ""packet"" ] : i8i8 , 42 // `tick` ""quote"" 'q'
:Foo
    ,
}, //	t
@calculatedFrom( ""x y""	) f64 Logon ,} options
    {
    // " ++ [128512]%N ++ runes_of_ascii " emoji
    chars=
' '
    ; repeatCount =
""" ++ [233]%N ++ runes_of_ascii "t" ++ [233]%N ++ runes_of_ascii """ x	= ""\n"" ; calculatedFrom = ""`tick`"" //x
; }
")).
Eval vm_compute in ("<<<M78>>>" ++ full (runes_of_ascii "options {
Header	=u32; } options {
i8i8	=
    f64 ; body
    =  zchar[
// " ++ [128512]%N ++ runes_of_ascii " emoji
/// triple
00//
] ; }
    //
    MetaData BodyLength  { // trailing space 
}// " ++ [27880; 37322]%N ++ runes_of_ascii "
options
{ Logon= u64 As =
    true i64_
= '\x00' ;
} root packet asx {
@tag(
// `tick` ""quote"" 'q'
//	t
4294967296
    )
    roots @lengthOf( A ) ,repeat uint8 u128
    , int32 i64_  ,
    u8 u `` ,
@lengthOf(
// c
// c
len ) uint64
    //x
    matchKey ,	match rootA
    as stringy {
1 : string_, 7 : charz , 255 : u128, [ // trailing space 
0
,0123456789 ,1,007  ]: len
    , 10
    :trueish } ,
@rightPad	()
    char[ 7] int //
@lengthOf(
x ) `two words`
, }")).
Eval vm_compute in ("<<<M104>>>" ++ full (runes_of_ascii "options{  matchKey = ""x y""
    ;	MetaDataX
= '0'
;
} packet // c
msg_type { @rightPad ( ' '  )repeat u128 body	, match body	as /// triple
pack{ [ ""\" ++ [233]%N ++ runes_of_ascii """ , ""1"" ]: BodyLength
, [ 255
, ""a	b"" , ""a\\"" , ""{,}""
,  007 , 007 ,
    0123456789
] : options1	,	} ,@leftPad
()@lengthOf(charz	)
@tag(	42
) o{	i32 msg_type @lengthOf( A )// " ++ [27880; 37322]%N ++ runes_of_ascii "
`doc` ,zchar[ 1] charz  , // c
i8 packetx`{ , }`,
msg_type `crlf
line`
    , }	,
@calculatedFrom( ""\" ++ [233]%N ++ runes_of_ascii """ ) Z9_ @calculatedFrom(
""" ++ [128512]%N ++ runes_of_ascii """ )`tab	here` ,
repeat char[] Foo ,
repeat zchar[ 0123456789]	u128
, }	packet f32a{
    f32a @lengthOf( matchKey )//x
, @rightPad (
    ' ' // " ++ [27880; 37322]%N ++ runes_of_ascii "
)@lengthOf( chars ) _x Foo  `` ,  match
    body // c
as
    body
    {	[4294967296
    , ""packet"", 3 , """ ++ [128512]%N ++ runes_of_ascii """
,
0123456789  ]
: T [ ""a\\"" ]// `tick` ""quote"" 'q'
: T
, ""\n""
:
u8x , }
//	t
//x
,} //x
root packet lengthOf
{ }
")).
Eval vm_compute in ("<<<M107>>>" ++ full (runes_of_ascii "packet falsey { i64_ ,	charz  {
match Packet  as Pad { ""\n"" :Packet
    , ""// no comment"" // " ++ [128512]%N ++ runes_of_ascii " emoji
:
f32a// `tick` ""quote"" 'q'
, [
    /// triple
    3  ,4294967296,
    10 ,//
7 , 10	]
: u
, // trailing space 
""`tick`"": u8x
,
[ 7 , ""it's"" ]:Packet, 0 : len
    //
    , }
    , }, /// triple
@lengthOf(	f32a) char[ 3 ]options1
    @lengthOf(
Pad)
, zchar[ 0123456789 ]// trailing space 
T ``
,
} packet
Pad
{
    // c
    o roots `{ , }` // " ++ [128512]%N ++ runes_of_ascii " emoji
, }packet f32a {
_x//
@calculatedFrom(	""x y"") //x
,@tag( 65535
) //	t
char pack @lengthOf( zchar  ) ,repeat //
int64 falsey  ,repeat len {match A
    as rootA {[ 42,  ""\n"" ]:
Z9_ , }
,repeat i16
A , repeat zchar[ 65535 ] tag `
` ,
f64 float
    @lengthOf( f32a ) ``  ,
// `tick` ""quote"" 'q'
// packet A { u8 x, }
} , x
    u8x
, @tag(  42	) repeat As Packet	, @lengthOf( Pad
    )repeat
    f64 rootA ,// @lengthOf(
}")).
Eval vm_compute in ("<<<M129>>>" ++ full (runes_of_ascii "packet
MetaDataX { metadata trueish`" ++ [233]%N ++ runes_of_ascii "`
//x
//x
,// trailing space 
@calculatedFrom(""`tick`"" )uint8x
    // c
    @calculatedFrom(  """ ++ [128512]%N ++ runes_of_ascii """  ) `{ , }`
    , @calculatedFrom( ""a\""b"" ) // packet A { u8 x, }
match Packet as
    body { 3
    : repeatCount
,""x y""
    /// triple
    :lengthOf// `tick` ""quote"" 'q'
4294967296 :
    packetx
    , [ ""abc""
, ""// no comment""
    ,
""abc"" ,
""\n"" //	t
, ""1""
]: u128 [ 00 , 65535 ,""x y"" ,""{,}""  ]
: calculatedFrom ,
    7 :	i8i8  }, u8x ,match int as	matchKey{
[1 ,""CRC32""]
    // trailing space 
    :// @lengthOf(
asx,	}
    , @lengthOf( // " ++ [128512]%N ++ runes_of_ascii " emoji
a1) string x `it's` , repeat // @lengthOf(
char matchKey  ,
    // a // b
    @leftPad // trailing space 
( )@rightPad ( ) match
metadata	as  Packet { [ 65535  ] : Header , }, @tag( 255)
zchar[ 3 ] crc `u8 x,` ,} MetaData
    rootA // trailing space 
{
i8i8	Pad , int8
packetx `{ , }`
,
    int8 stringy,
    // `tick` ""quote"" 'q'
    body _x  , body o , }")).
Eval vm_compute in ("<<<M135>>>" ++ full (runes_of_ascii "
packet crc
    {@tag(	0)  @calculatedFrom(
    ""{,}""	) @rightPad ( ' ')	repeat uint8 lengthOf // a // b
,
    char[	42 ] float ,
    repeat a1 // packet A { u8 x, }
{ match
x_y_z as charz
    { [
00
, 4294967296,
//x
// a // b
""it's"",""" ++ [28040; 24687]%N ++ runes_of_ascii """ ] ://x
zchar,	[
    ""packet"" ,// c
""x y"",
""it's"" ,""abc"" ,
""it's""
    ] :string_ , 0 : Z9_
}
    // `tick` ""quote"" 'q'
    , // `tick` ""quote"" 'q'
} ,match u8x
as//x
pack {[ 0123456789
, ""x y""
] : // c
trueish /// triple
, }	,
    @calculatedFrom( ""a\""b""
    // c
    ) repeat string_ `a\`,
packetx@calculatedFrom(
""`tick`"" ) , int64 chars `say ""hi""` , @calculatedFrom(
""a	b"" )@leftPad (  '\x00'
) @lengthOf(
    repeatCount)u64
    falsey@calculatedFrom( ""\" ++ [233]%N ++ runes_of_ascii """
    )
,
repeat Header { repeat
    metadata , char[] chars`" ++ [28040; 24687; 31867; 22411]%N ++ runes_of_ascii "` , zchar[ 10] x_y_z `a\` ,	},
// trailing space 
// c
}
")).
Eval vm_compute in ("<<<M143>>>" ++ full (runes_of_ascii "
packet  lengthOf
{  @tag( 65535
/// triple
//	t
)@tag( //	t
3 ) @tag( 0123456789) options1 @calculatedFrom(""abc""
    ) , @rightPad
( '0')falsey @lengthOf( a1  )
    ,
    @lengthOf(Pad
)body @calculatedFrom( // " ++ [128512]%N ++ runes_of_ascii " emoji
""packet"" ) // trailing space 
,
} packet int
{ string Foo @calculatedFrom(""CRC32"" ) ,}
root
// trailing space 
//	t
packet uint8x
    {}
root packet len { x_y_z
_x ,
    BodyLength rootA
/// triple
//
,
match f32a as Logon
    {[ ""a\""b"" ,
""" ++ [28040; 24687]%N ++ runes_of_ascii """
    ,
    """ ++ [128512]%N ++ runes_of_ascii """
,65535, 00 ,4294967296
    ,
"""" ,""abc"" ]
    : roots,[
    00 ] :
A ,  [
    65535
// a // b
// trailing space 
,
// trailing space 
// " ++ [128512]%N ++ runes_of_ascii " emoji
65535
, """" ]
// c
// packet A { u8 x, }
:
// " ++ [128512]%N ++ runes_of_ascii " emoji
// trailing space 
pack ,
    }
    // trailing space 
    ,repeat Pad `say ""hi""` ,
    /// triple
    a1 calculatedFrom
    ,
@lengthOf( stringy )char[] As @calculatedFrom( ""\" ++ [233]%N ++ runes_of_ascii """ )
, zchar[ 0123456789 ] Z9_
    @lengthOf( repeatCount ) // packet A { u8 x, }
`a\`
, repeat // `tick` ""quote"" 'q'
string lengthOf , //x
u8 falsey @calculatedFrom(
""a\\"" )  ,@calculatedFrom( ""it's"") string calculatedFrom @lengthOf( MetaDataX ) ,}")).
Eval vm_compute in ("<<<M146>>>" ++ full (runes_of_ascii "MetaData
chars {	int8 Z9_,	float rootA	`tab	here`// @lengthOf(
,
//x
// @lengthOf(
T o `it's` ,
roots int , // c
repeatCount MetaDataX, float32
    falsey `say ""hi""`,} packet
    msg_type
{ repeat f32
o // `tick` ""quote"" 'q'
, @tag( 0
)char[]  A	,  repeat char[] tag `say ""hi""` ,repeat char[ 0 ] Z9_ ,
zchar[ 1 ] lengthOf ,
i64 T , match float as
leftPad {
    007 : len /// triple
, ""it's"" : len
    , ""it's"" : // @lengthOf(
float
    [ 255 ,
00
, ""abc"", ""abc""
,
1
, """ ++ [28040; 24687]%N ++ runes_of_ascii """ // `tick` ""quote"" 'q'
, ""x y"" , """" // a // b
] :	_x ,
    """" : len ,""\" ++ [233]%N ++ runes_of_ascii """  : // a // b
i64_
, //	t
}, roots{ char[ 1
]// @lengthOf(
Header
@lengthOf( x_y_z )
    , body u128 , // `tick` ""quote"" 'q'
char[]
float ,chars@lengthOf( x  )
    `doc` ,}
,
    crc `it's`
    // `tick` ""quote"" 'q'
    , @calculatedFrom(""" ++ [128512]%N ++ runes_of_ascii """
    )
    BodyLength `" ++ [28040; 24687; 31867; 22411]%N ++ runes_of_ascii "` , }
    packet
    u128{  lengthOf ,pack
@lengthOf( u8x// c
)`// not a comment`// " ++ [27880; 37322]%N ++ runes_of_ascii "
,@leftPad
    (
' ' ) float{match
    asx as
    charz
{ [ 4294967296,""""
, 255 ,42
    ,""1""  ] : u8x ""{,}""	: Foo 42  :
leftPad[ // trailing space 
255 ,
    // " ++ [128512]%N ++ runes_of_ascii " emoji
    ""a\""b"" , ""it's""  , 4294967296 ] : stringy , 3
:Header ,
} ,match o // `tick` ""quote"" 'q'
as
    Pad
    // trailing space 
    { 3 :
    i64_//x
, } ,repeat
    string msg_type ,
    match
packetx // " ++ [27880; 37322]%N ++ runes_of_ascii "
as
lengthOf
    { [ ""x y"","""" ]
:x_y_z
// " ++ [27880; 37322]%N ++ runes_of_ascii "
// c
}, } ,i64 float,repeat
    zchar[ 3  ] rootA
    `crlf
line`, match msg_type as len{
""CRC32"":
MetaDataX
,
} ,
    f32
A , char[
0123456789 ] chars// " ++ [27880; 37322]%N ++ runes_of_ascii "
`{ , }` , /// triple
@calculatedFrom( ""a\""b""
) string
string_
    `" ++ [233]%N ++ runes_of_ascii "` ,}
")).
Eval vm_compute in ("<<<M149>>>" ++ full (runes_of_ascii "// trailing space 
packet
    charz {	@calculatedFrom( ""1""
)match x
as tag
    {	[
7 , // @lengthOf(
0
, 65535	,
    // `tick` ""quote"" 'q'
    ""it's""/// triple
,0
    ,
""x y"", 255 ] :tag  , [ ""1"" // a // b
, //	t
3  , 007, // " ++ [27880; 37322]%N ++ runes_of_ascii "
255 ,  ""x y""
    // @lengthOf(
    ] :pack ,[""" ++ [233]%N ++ runes_of_ascii "t" ++ [233]%N ++ runes_of_ascii """	, 7  , 10  , 3
, 0
    , ""a\""b"" ] :
    // packet A { u8 x, }
    leftPad, [ 65535
    // " ++ [27880; 37322]%N ++ runes_of_ascii "
    ,
""x y""]
: chars [ ""\n"" ,65535 , ""a\\""
] :
A	, ""\n"" :
    lengthOf , } ,
match string_
    as	i8i8 { 7 :msg_type , // c
""abc"" :
tag ,""a\""b"" :metadata, 255
    : matchKey	,
    [""CRC32"" ,""1""
// " ++ [27880; 37322]%N ++ runes_of_ascii "
// " ++ [128512]%N ++ runes_of_ascii " emoji
, 007 , ""packet"" ,""a\\"" /// triple
,	""a\""b""
    // " ++ [128512]%N ++ runes_of_ascii " emoji
    , 007 , 4294967296 ] : lengthOf , }
,uint16
pack , string Pad@lengthOf( o ) `say ""hi""` ,repeat i8 body
    ,
@lengthOf( //x
crc ) float64 body `// not a comment`
, repeat rootA { int16 x_y_z `tab	here` ,
falsey @calculatedFrom( ""{,}"" ), trueish @lengthOf(
crc) `{ , }` , }
, match Pad as
Header
{
    4294967296: Header,""\n"" :msg_type,""a	b"" :
    x_y_z
    , }
,
    //	t
    Logon
, } 	 ")).
Eval vm_compute in ("<<<M196>>>" ++ full (runes_of_ascii "root  packet u { match //x
T as body// c
{
[
""a\""b""
    , 3 ] :
stringy  ""a	b"" : charz // a // b
,
    10:  lengthOf// " ++ [128512]%N ++ runes_of_ascii " emoji
, ""CRC32"" : falsey
,
    0123456789 : _x ,
    } , body @lengthOf( i64_ )
, u64 chars
`u8 x,` ,T {i64_ string_,
    u32 metadata , zchar[ 1
]Z9_,}
    // c
    ,@calculatedFrom( ""a\\"" ) rootA // " ++ [128512]%N ++ runes_of_ascii " emoji
x_y_z
`u8 x,` ,
    zchar[ 007 ]body @calculatedFrom(
""\n""
) ,
    @leftPad (
'0') @rightPad
    ( '0' )
@calculatedFrom( """ ++ [233]%N ++ runes_of_ascii "t" ++ [233]%N ++ runes_of_ascii """
    )	repeat uint64 A	, repeat  u8x
    { match
o
as
x
    {
    10	:charz
// " ++ [27880; 37322]%N ++ runes_of_ascii "
// " ++ [27880; 37322]%N ++ runes_of_ascii "
,""a	b"": matchKey
, ""x y""
:
    trueish ,[ """ ++ [233]%N ++ runes_of_ascii "t" ++ [233]%N ++ runes_of_ascii """ ] : zchar,""1"" : charz // " ++ [27880; 37322]%N ++ runes_of_ascii "
,
[ ""a\""b"" ,
""abc""
, ""a\\"", ""abc"" ,
// packet A { u8 x, }
// " ++ [128512]%N ++ runes_of_ascii " emoji
""""
// packet A { u8 x, }
/// triple
] : u8x, } ,	},repeat falsey { rootA
    tag ,
    zchar[/// triple
0 ] falsey ,  }
    , charz a1 `{ , }`
, } root
packet /// triple
Header{}
")).
Eval vm_compute in ("<<<M225>>>" ++ full (runes_of_ascii "packet T
    // " ++ [128512]%N ++ runes_of_ascii " emoji
    { match repeatCount as
Packet {
    ""packet"" : msg_type , 00 :
    Foo
    ,""" ++ [128512]%N ++ runes_of_ascii """ : trueish, """": repeatCount
    [ // packet A { u8 x, }
4294967296 , 65535 ] :	u ,	}, @calculatedFrom( ""a\\"" )
    float32 len @lengthOf(// " ++ [128512]%N ++ runes_of_ascii " emoji
string_
    ), stringy Pad, roots{ repeat x_y_z
    `// not a comment`
, T
`" ++ [233]%N ++ runes_of_ascii "` , }, @tag(
007 )  _x
{// " ++ [128512]%N ++ runes_of_ascii " emoji
char[] body
@calculatedFrom( """ ++ [233]%N ++ runes_of_ascii "t" ++ [233]%N ++ runes_of_ascii """
    //	t
    ) ,repeat Pad// packet A { u8 x, }
``
// c
/// triple
, }
    //x
    , match	u as packetx{// `tick` ""quote"" 'q'
[ ""// no comment"" ,
007]	: T
, [  ""\" ++ [233]%N ++ runes_of_ascii """// " ++ [27880; 37322]%N ++ runes_of_ascii "
] :// trailing space 
u8x } , @rightPad( ) int8 _x , @lengthOf(
A	)match/// triple
crc
as metadata { [ 00,
    //	t
    ""a\""b"" ,3
    , 1
    ,
10 ] : Packet , //	t
[
4294967296	, ""abc"" , """"] // @lengthOf(
:
// `tick` ""quote"" 'q'
// " ++ [27880; 37322]%N ++ runes_of_ascii "
a1 , """ ++ [28040; 24687]%N ++ runes_of_ascii """ // `tick` ""quote"" 'q'
:
    repeatCount  , } , }options { }MetaData Header
{  trueish Pad ,
    } MetaData Z9_ { char[]
metadata ,
// " ++ [128512]%N ++ runes_of_ascii " emoji
// packet A { u8 x, }
Header A
`doc`
// a // b
// a // b
, //x
uint32 // " ++ [27880; 37322]%N ++ runes_of_ascii "
packetx ,
int16 uint8x
    //
    , Header// @lengthOf(
leftPad
    , // packet A { u8 x, }
}
// trailing space 
")).
Eval vm_compute in ("<<<M263>>>" ++ full (runes_of_ascii "
packet Z9_ //x
{ @calculatedFrom( ""1"" )
match
body as u8x{ [ 7 ] :
u ,
[7
,00, ""a\""b""
, """" , ""\n"" , 00
] : charz , 1	: // c
Packet
, """ ++ [28040; 24687]%N ++ runes_of_ascii """ :
f32a ,  00 : // trailing space 
len } ,@lengthOf(calculatedFrom )	MetaDataX
    , Packet	@lengthOf(
    int ) , repeat // `tick` ""quote"" 'q'
char[ 7 ]calculatedFrom, @calculatedFrom(""a\\"" ) zchar[ //
255 // " ++ [128512]%N ++ runes_of_ascii " emoji
] f32a @calculatedFrom( """ ++ [233]%N ++ runes_of_ascii "t" ++ [233]%N ++ runes_of_ascii """ ) ,	@calculatedFrom( ""a\""b"" // packet A { u8 x, }
)char[7
    //	t
    ] i8i8 @calculatedFrom(""a\\"") `crlf
line` ,zchar[
    0123456789	]
x `line1
line2`
,@leftPad () repeat
u64 stringy , @lengthOf( x	) repeat
body
{//	t
Z9_ {
repeat asx , repeat crc i64_ // " ++ [27880; 37322]%N ++ runes_of_ascii "
, repeat rootA { repeat rootA MetaDataX `line1
line2`
    // `tick` ""quote"" 'q'
    ,match
i64_ as
calculatedFrom {
    7
:
x[ 7 ] : stringy , ""1"": i8i8 , [
""1"" , 42 ,
// trailing space 
/// triple
""" ++ [233]%N ++ runes_of_ascii "t" ++ [233]%N ++ runes_of_ascii """ , 10 ,
255 , 0 , 10 ]
: u ,
""x y""
:
    i8i8 }
// `tick` ""quote"" 'q'
//x
,uint64 _x `
` ,char[ 0 ] i64_ @calculatedFrom( ""CRC32""
)
    , }, x_y_z {
char[] T
// a // b
// @lengthOf(
,} ,} ,repeat  u64 Foo `a\`,
    uint8
uint8x,
match
//	t
// trailing space 
roots
as chars {1
    : _x ""a\""b"" :uint8x, 42 : metadata // " ++ [128512]%N ++ runes_of_ascii " emoji
, // `tick` ""quote"" 'q'
[// @lengthOf(
""\n"" ,
255]
: zchar
[ """ ++ [233]%N ++ runes_of_ascii "t" ++ [233]%N ++ runes_of_ascii """ ,3
, 4294967296 ,// trailing space 
0123456789 , ""x y"" ] : metadata[ // c
""it's"" , ""// no comment""
]  :Z9_
    , }
,	}
    , } // a // b
MetaData rootA	{ char[ 4294967296 ] msg_type,// @lengthOf(
char[]  u128, uint64 a1 , int8 crc , Pad
    msg_type `doc`
,
}
//	t
/// triple
packet x_y_z
    {@lengthOf( crc) match packetx as f32a	{ 0123456789:A
,	00 :	u // @lengthOf(
}, }
")).
Eval vm_compute in ("<<<M266>>>" ++ full (runes_of_ascii "packet metadata { repeat f64 // " ++ [128512]%N ++ runes_of_ascii " emoji
Foo , repeat
Logon
    f32a`
` , @calculatedFrom( ""1"" ) repeat
    uint8 // trailing space 
calculatedFrom `u8 x,`
, char[]
    packetx , // packet A { u8 x, }
@calculatedFrom(
""abc"" ) Pad
@lengthOf(msg_type  )`line1
line2` ,
@rightPad
(
' ' )
tag`" ++ [233]%N ++ runes_of_ascii "` ,@tag( 10
    /// triple
    )u8x
@calculatedFrom( ""CRC32"" ),match
// trailing space 
// trailing space 
metadata
as msg_type
//
// " ++ [27880; 37322]%N ++ runes_of_ascii "
{[
""\n"" //x
, 0123456789// c
] : options1
,
    ""\n""
    :
    float ,},} packet
// " ++ [128512]%N ++ runes_of_ascii " emoji
// " ++ [128512]%N ++ runes_of_ascii " emoji
MetaDataX {string string_ `doc`
,
@rightPad
    (
    '0' ) zchar[
// " ++ [128512]%N ++ runes_of_ascii " emoji
// `tick` ""quote"" 'q'
00 ]
zchar `a\`
,} options {leftPad = 0 float = 4294967296 ;
}// `tick` ""quote"" 'q'
root packet body{ @calculatedFrom( ""1"" ) @lengthOf( int ) match float as Z9_  {
// packet A { u8 x, }
// trailing space 
42
: x
""packet"" :// `tick` ""quote"" 'q'
matchKey	, """ ++ [28040; 24687]%N ++ runes_of_ascii """
/// triple
// packet A { u8 x, }
: o ,	255 :	float }
, @tag( 0123456789 ) match	calculatedFrom as // @lengthOf(
trueish { [ ""packet"" , ""`tick`"" //x
,	""" ++ [233]%N ++ runes_of_ascii "t" ++ [233]%N ++ runes_of_ascii """ ] : MetaDataX 4294967296 :trueish
, 3 :
// trailing space 
// packet A { u8 x, }
i64_ , 0123456789 :
f32a , [ 7, //	t
10	,	""CRC32"" ,	""x y"" , ""\n""
    // `tick` ""quote"" 'q'
    , ""CRC32""
    , ""`tick`""
    ]// `tick` ""quote"" 'q'
: body , }, char[ 1//
]Foo // " ++ [128512]%N ++ runes_of_ascii " emoji
, @rightPad( ' ' ) @calculatedFrom( // " ++ [27880; 37322]%N ++ runes_of_ascii "
""a	b""
) repeat string_ { repeat Logon // @lengthOf(
,	Z9_	i8i8 ,match Z9_ as
    A {[ 42
    ] :Logon , [ ""CRC32"" , 1 , ""a\""b"" , 4294967296 , 0, ""\" ++ [233]%N ++ runes_of_ascii """ ] : roots ""a\""b"" : MetaDataX , 255
: _x
,
    65535
    :
    rootA , }	,match _x as Foo {[ 255
    , """ ++ [28040; 24687]%N ++ runes_of_ascii """ ,// packet A { u8 x, }
""CRC32"" ,
    // c
    """ ++ [233]%N ++ runes_of_ascii "t" ++ [233]%N ++ runes_of_ascii """ ,
    ""abc"" ] : len""a\\""
: Pad  0
: falsey,3 :	u128
    ,
} ,// a // b
} , repeat // packet A { u8 x, }
options1 int `{ , }`
// packet A { u8 x, }
//
,
}")).
Eval vm_compute in ("<<<M279>>>" ++ full (runes_of_ascii "  root packet
    crc {	uint32
repeatCount //
@lengthOf( // a // b
MetaDataX	) `say ""hi""` ,
    @tag( 65535 ) A {
    u128 , u8x	{ repeatCount  @lengthOf( As )// c
,// packet A { u8 x, }
i32	_x@calculatedFrom(//	t
""" ++ [128512]%N ++ runes_of_ascii """	), } , } // c
,
@lengthOf(As ) @tag(  0 ) @tag(4294967296 ) string metadata ,
string lengthOf // `tick` ""quote"" 'q'
@lengthOf(f32a) , @tag( 3 )string packetx,	@lengthOf( Pad) @lengthOf( packetx ) BodyLength @calculatedFrom( ""a	b"" )
, repeat u8x
{ zchar[ 3 ]
    tag `doc` , match As as leftPad
    { [
    10 ,
3 , 7 ,
""abc"" , 42 // @lengthOf(
]
:
A
, } , match Header as falsey { 42
// `tick` ""quote"" 'q'
// trailing space 
:
    msg_type
    , 00
: A
1 :
charz ,""// no comment"" : int // @lengthOf(
,	0123456789 :chars , 4294967296
: x } ,
}
    /// triple
    , @tag(
10 ) @tag(//x
007 )
@calculatedFrom( ""`tick`""
    )i8i8 @lengthOf(
    //
    charz ),
    char[ 7] Header
, } packet
lengthOf // @lengthOf(
{match metadata
    // " ++ [128512]%N ++ runes_of_ascii " emoji
    as asx{ 7 // packet A { u8 x, }
: //
float  ,
    // " ++ [128512]%N ++ runes_of_ascii " emoji
    """ ++ [233]%N ++ runes_of_ascii "t" ++ [233]%N ++ runes_of_ascii """:
stringy
, """ ++ [28040; 24687]%N ++ runes_of_ascii """ :
BodyLength , 7 : leftPad , } , @lengthOf(MetaDataX
)repeat zchar[ 7 ]float , @tag( 0
    )matchKey @calculatedFrom(""packet""
    ) // packet A { u8 x, }
, }packet Pad{ options1 @lengthOf(rootA ),} root // c
packet BodyLength{
string uint8x
//
// " ++ [27880; 37322]%N ++ runes_of_ascii "
@lengthOf( Z9_) , } // c")).
Eval vm_compute in ("<<<M288>>>" ++ full (runes_of_ascii "// packet A { u8 x, }
MetaData
    _x
{ //
char[] len
    ,}options
// @lengthOf(
//
{ repeatCount =""""
    ; }// c
root packet chars {
    char[ 255
]u8x,	repeat
/// triple
// c
string repeatCount
`" ++ [28040; 24687; 31867; 22411]%N ++ runes_of_ascii "` ,
repeat zchar[ 10
]
string_ , @tag( // trailing space 
255
    ) i8i8{// packet A { u8 x, }
options1
calculatedFrom `u8 x,`
,
    i64
len,
    roots // c
{ // @lengthOf(
repeat
    // a // b
    i64_ zchar //
,
    } ,
    }
, match chars as Packet	{
""a\""b"": Pad
,[ ""{,}""
    ]
:
calculatedFrom // a // b
,
""" ++ [233]%N ++ runes_of_ascii "t" ++ [233]%N ++ runes_of_ascii """
//x
// `tick` ""quote"" 'q'
: uint8x ,[ // packet A { u8 x, }
""`tick`"" ,0
    , 42
    ] : _x[ 0123456789	, ""\" ++ [233]%N ++ runes_of_ascii """
    ] :
i8i8,	} ,	}
")).
Eval vm_compute in ("<<<M328>>>" ++ full (runes_of_ascii "
packet
Logon { repeatCount { BodyLength
    `crlf
line`, }
    , zchar a1 `u8 x,`  ,
match Foo as Foo { ""\n"" :i8i8,[
""abc""
    , // trailing space 
""CRC32"" ]
/// triple
// " ++ [128512]%N ++ runes_of_ascii " emoji
: // @lengthOf(
crc
    [ 3 ,
//
// " ++ [128512]%N ++ runes_of_ascii " emoji
""x y"", 42 , ""`tick`""
, 1 , ""a\""b"",
    ""CRC32"" , 255 ]:repeatCount , [// " ++ [128512]%N ++ runes_of_ascii " emoji
1
// a // b
// " ++ [27880; 37322]%N ++ runes_of_ascii "
,007 ,
""\n"",007 , 7 , ""// no comment"" ,
255 ] :
    uint8x 00
: f32a , } ,
    // a // b
    uint16 Pad @lengthOf( uint8x)// packet A { u8 x, }
`doc`  ,
}")).
