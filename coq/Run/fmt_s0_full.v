From FP Require Import Lexer Parser ShowPT Digest Formatter.
From Coq Require Import String List NArith.
Import ListNotations.
Open Scope string_scope.
Set Printing Width 100000000.
Set Printing Depth 100000000.
Definition show_fres (r : fres) : string :=
  match r with
  | FOk s => "OK:" ++ sh_escaped s ""
  | FErr s => "ERR:" ++ sh_escaped s ""
  | FPanic p => "PANIC:" ++ p
  end.
Definition check (rs : list rune) : string := digest (show_fres (format_res rs)).
Definition full (rs : list rune) : string := show_fres (format_res rs).
Eval vm_compute in ("<<<M17>>>" ++ full (runes_of_ascii "
")).
Eval vm_compute in ("<<<M39>>>" ++ full (runes_of_ascii "
")).
Eval vm_compute in ("<<<M115>>>" ++ full (runes_of_ascii "

")).
Eval vm_compute in ("<<<M159>>>" ++ full (runes_of_ascii "  
")).
Eval vm_compute in ("<<<M160>>>" ++ full (@nil rune)).
Eval vm_compute in ("<<<M170>>>" ++ full (runes_of_ascii " 	 ")).
Eval vm_compute in ("<<<M240>>>" ++ full (runes_of_ascii "/// triple

")).
Eval vm_compute in ("<<<M289>>>" ++ full (runes_of_ascii "// `tick` ""quote"" 'q'

")).
Eval vm_compute in ("<<<M310>>>" ++ full (runes_of_ascii "
//
")).
Eval vm_compute in ("<<<M331>>>" ++ full (runes_of_ascii "
 // `tick` ""quote"" 'q'")).
Eval vm_compute in ("<<<M367>>>" ++ full (runes_of_ascii "
 // @lengthOf(")).
Eval vm_compute in ("<<<M723>>>" ++ full (runes_of_ascii " ")).
Eval vm_compute in ("<<<M724>>>" ++ full (runes_of_ascii "
	 ")).
Eval vm_compute in ("<<<M725>>>" ++ full (runes_of_ascii "")).
Eval vm_compute in ("<<<M726>>>" ++ full (runes_of_ascii "		")).
Eval vm_compute in ("<<<M727>>>" ++ full (runes_of_ascii "// only a comment")).
Eval vm_compute in ("<<<M728>>>" ++ full (runes_of_ascii "//")).
Eval vm_compute in ("<<<M730>>>" ++ full (runes_of_ascii "// a
// b
")).
Eval vm_compute in ("<<<M731>>>" ++ full (runes_of_ascii "


")).
Eval vm_compute in ("<<<M994>>>" ++ full (runes_of_ascii "// c ")).
