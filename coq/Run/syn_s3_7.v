From FP Require Import Lexer Parser ShowPT Digest.
From Coq Require Import String List NArith.
Import ListNotations.
Open Scope string_scope.
Set Printing Width 100000000.
Set Printing Depth 100000000.
Definition nl : string := String (Ascii.ascii_of_nat 10) EmptyString.
Definition model_lex (rs : list rune) : string := show_toks (lex rs).
Definition model_parse (rs : list rune) : string :=
  show_pt (match lex rs with Some ts => parse ts | None => None end).
(* coqc is slow at printing long strings: digests first (Digest.v), full texts on demand *)
Definition check (rs : list rune) : string :=
  digest (model_lex rs) ++ " " ++ digest (model_parse rs).
Definition full (rs : list rune) : string := model_lex rs ++ nl ++ model_parse rs.
Definition terms (ts : list tok) (t : pt) : string :=
  digest (show_toks (Some ts)) ++ " " ++ digest (show_pt (Some t)) ++ " " ++ digest (show_pt (parse ts)).
Definition terms_full (ts : list tok) (t : pt) : string :=
  show_toks (Some ts) ++ nl ++ show_pt (Some t) ++ nl ++ show_pt (parse ts).
Eval vm_compute in ("<<<M7>>>" ++ check (runes_of_ascii "MetaData// trailing space 
Foo { }
    packet
    trueish{	@lengthOf(uint8x ) u16 leftPad
,  @rightPad  ( )
float32
    //x
    packetx `" ++ [233]%N ++ runes_of_ascii "`, options1 ,
char[
    //
    0 ] A `a\`	, @rightPad// trailing space 
( )repeat A
{	match
    // " ++ [27880; 37322]%N ++ runes_of_ascii "
    msg_type as float{""it's"" :
u8x /// triple
,
""it's"" :asx  , //	t
} , }
, // `tick` ""quote"" 'q'
}")).
Eval vm_compute in ("<<<M17>>>" ++ check (@nil rune)).
Eval vm_compute in ("<<<M27>>>" ++ check (runes_of_ascii "  MetaData options1
{/// triple
zchar[ 0123456789 ] int ,
_x BodyLength `a\` ,char[]  T
`" ++ [233]%N ++ runes_of_ascii "` ,
msg_type i64_
`two words`, i8
zchar	`tab	here`
, crc u128 ,	}  MetaData u128
    { trueish metadata ,char[ 10 ] a1 ,zchar[ 42 ] A
, a1	asx ,i16 tag, int64 Logon , }
    MetaData Foo{ MetaDataX Header , }
")).
Eval vm_compute in ("<<<T27>>>" ++ terms [mkTok 37 "MetaData" 1 2 false; mkTok 42 "options1" 1 11 false; mkTok 2 "{" 2 0 false; mkTok 44 "/// triple" 2 1 true; mkTok 14 "zchar[" 3 0 false; mkTok 30 "0123456789" 3 7 false; mkTok 13 "]" 3 18 false; mkTok 42 "int" 3 20 false; mkTok 40 "," 3 24 false; mkTok 42 "_x" 4 0 false; mkTok 42 "BodyLength" 4 3 false; mkTok 43 "`a\`" 4 14 false; mkTok 40 "," 4 19 false; mkTok 16 "char[]" 4 20 false; mkTok 42 "T" 4 28 false; mkTok 43 (string_of_bytes [96; 195; 169; 96]%N) 5 0 false; mkTok 40 "," 5 4 false; mkTok 42 "msg_type" 6 0 false; mkTok 42 "i64_" 6 9 false; mkTok 43 "`two words`" 7 0 false; mkTok 40 "," 7 11 false; mkTok 24 "i8" 7 13 false; mkTok 42 "zchar" 8 0 false; mkTok 43 (string_of_bytes [96; 116; 97; 98; 9; 104; 101; 114; 101; 96]%N) 8 6 false; mkTok 40 "," 9 0 false; mkTok 42 "crc" 9 2 false; mkTok 42 "u128" 9 6 false; mkTok 40 "," 9 11 false; mkTok 3 "}" 9 13 false; mkTok 37 "MetaData" 9 16 false; mkTok 42 "u128" 9 25 false; mkTok 2 "{" 10 4 false; mkTok 42 "trueish" 10 6 false; mkTok 42 "metadata" 10 14 false; mkTok 40 "," 10 23 false; mkTok 12 "char[" 10 24 false; mkTok 30 "10" 10 30 false; mkTok 13 "]" 10 33 false; mkTok 42 "a1" 10 35 false; mkTok 40 "," 10 38 false; mkTok 14 "zchar[" 10 39 false; mkTok 30 "42" 10 46 false; mkTok 13 "]" 10 49 false; mkTok 42 "A" 10 51 false; mkTok 40 "," 11 0 false; mkTok 42 "a1" 11 2 false; mkTok 42 "asx" 11 5 false; mkTok 40 "," 11 9 false; mkTok 25 "i16" 11 10 false; mkTok 42 "tag" 11 14 false; mkTok 40 "," 11 17 false; mkTok 27 "int64" 11 19 false; mkTok 42 "Logon" 11 25 false; mkTok 40 "," 11 31 false; mkTok 3 "}" 11 33 false; mkTok 37 "MetaData" 12 4 false; mkTok 42 "Foo" 12 13 false; mkTok 2 "{" 12 16 false; mkTok 42 "MetaDataX" 12 18 false; mkTok 42 "Header" 12 28 false; mkTok 40 "," 12 35 false; mkTok 3 "}" 12 37 false; mkTok 0 "<EOF>" 13 0 false] (mkPacket (mkPtok 37 "MetaData" 1 2 0) (Some (mkPtok 3 "}" 12 37 61)) [(DMeta (mkMetaDef (mkSpan (mkPtok 37 "MetaData" 1 2 0) (mkPtok 3 "}" 9 13 28)) (mkPtok 37 "MetaData" 1 2 0) (mkPtok 42 "options1" 1 11 1) (mkPtok 2 "{" 2 0 2) [(MIDecl (mkMetaDecl (mkSpan (mkPtok 14 "zchar[" 3 0 4) (mkPtok 40 "," 3 24 8)) (TyFixed (mkSpan (mkPtok 14 "zchar[" 3 0 4) (mkPtok 13 "]" 3 18 6)) (mkFixedString (mkSpan (mkPtok 14 "zchar[" 3 0 4) (mkPtok 13 "]" 3 18 6)) (mkPtok 14 "zchar[" 3 0 4) (mkPtok 30 "0123456789" 3 7 5) (mkPtok 13 "]" 3 18 6))) (mkPtok 42 "int" 3 20 7) None (mkPtok 40 "," 3 24 8))); (MIRef (mkRefMetaDecl (mkSpan (mkPtok 42 "_x" 4 0 9) (mkPtok 40 "," 4 19 12)) (mkPtok 42 "_x" 4 0 9) (mkPtok 42 "BodyLength" 4 3 10) (Some (mkPtok 43 "`a\`" 4 14 11)) (mkPtok 40 "," 4 19 12))); (MIDecl (mkMetaDecl (mkSpan (mkPtok 16 "char[]" 4 20 13) (mkPtok 40 "," 5 4 16)) (TyDynamic (mkSpan (mkPtok 16 "char[]" 4 20 13) (mkPtok 16 "char[]" 4 20 13)) (mkDynamicString (mkSpan (mkPtok 16 "char[]" 4 20 13) (mkPtok 16 "char[]" 4 20 13)) (mkPtok 16 "char[]" 4 20 13))) (mkPtok 42 "T" 4 28 14) (Some (mkPtok 43 (string_of_bytes [96; 195; 169; 96]%N) 5 0 15)) (mkPtok 40 "," 5 4 16))); (MIRef (mkRefMetaDecl (mkSpan (mkPtok 42 "msg_type" 6 0 17) (mkPtok 40 "," 7 11 20)) (mkPtok 42 "msg_type" 6 0 17) (mkPtok 42 "i64_" 6 9 18) (Some (mkPtok 43 "`two words`" 7 0 19)) (mkPtok 40 "," 7 11 20))); (MIDecl (mkMetaDecl (mkSpan (mkPtok 24 "i8" 7 13 21) (mkPtok 40 "," 9 0 24)) (TyBasic (mkSpan (mkPtok 24 "i8" 7 13 21) (mkPtok 24 "i8" 7 13 21)) (mkBasicType (mkSpan (mkPtok 24 "i8" 7 13 21) (mkPtok 24 "i8" 7 13 21)) (mkPtok 24 "i8" 7 13 21))) (mkPtok 42 "zchar" 8 0 22) (Some (mkPtok 43 (string_of_bytes [96; 116; 97; 98; 9; 104; 101; 114; 101; 96]%N) 8 6 23)) (mkPtok 40 "," 9 0 24))); (MIRef (mkRefMetaDecl (mkSpan (mkPtok 42 "crc" 9 2 25) (mkPtok 40 "," 9 11 27)) (mkPtok 42 "crc" 9 2 25) (mkPtok 42 "u128" 9 6 26) None (mkPtok 40 "," 9 11 27)))] (mkPtok 3 "}" 9 13 28))); (DMeta (mkMetaDef (mkSpan (mkPtok 37 "MetaData" 9 16 29) (mkPtok 3 "}" 11 33 54)) (mkPtok 37 "MetaData" 9 16 29) (mkPtok 42 "u128" 9 25 30) (mkPtok 2 "{" 10 4 31) [(MIRef (mkRefMetaDecl (mkSpan (mkPtok 42 "trueish" 10 6 32) (mkPtok 40 "," 10 23 34)) (mkPtok 42 "trueish" 10 6 32) (mkPtok 42 "metadata" 10 14 33) None (mkPtok 40 "," 10 23 34))); (MIDecl (mkMetaDecl (mkSpan (mkPtok 12 "char[" 10 24 35) (mkPtok 40 "," 10 38 39)) (TyFixed (mkSpan (mkPtok 12 "char[" 10 24 35) (mkPtok 13 "]" 10 33 37)) (mkFixedString (mkSpan (mkPtok 12 "char[" 10 24 35) (mkPtok 13 "]" 10 33 37)) (mkPtok 12 "char[" 10 24 35) (mkPtok 30 "10" 10 30 36) (mkPtok 13 "]" 10 33 37))) (mkPtok 42 "a1" 10 35 38) None (mkPtok 40 "," 10 38 39))); (MIDecl (mkMetaDecl (mkSpan (mkPtok 14 "zchar[" 10 39 40) (mkPtok 40 "," 11 0 44)) (TyFixed (mkSpan (mkPtok 14 "zchar[" 10 39 40) (mkPtok 13 "]" 10 49 42)) (mkFixedString (mkSpan (mkPtok 14 "zchar[" 10 39 40) (mkPtok 13 "]" 10 49 42)) (mkPtok 14 "zchar[" 10 39 40) (mkPtok 30 "42" 10 46 41) (mkPtok 13 "]" 10 49 42))) (mkPtok 42 "A" 10 51 43) None (mkPtok 40 "," 11 0 44))); (MIRef (mkRefMetaDecl (mkSpan (mkPtok 42 "a1" 11 2 45) (mkPtok 40 "," 11 9 47)) (mkPtok 42 "a1" 11 2 45) (mkPtok 42 "asx" 11 5 46) None (mkPtok 40 "," 11 9 47))); (MIDecl (mkMetaDecl (mkSpan (mkPtok 25 "i16" 11 10 48) (mkPtok 40 "," 11 17 50)) (TyBasic (mkSpan (mkPtok 25 "i16" 11 10 48) (mkPtok 25 "i16" 11 10 48)) (mkBasicType (mkSpan (mkPtok 25 "i16" 11 10 48) (mkPtok 25 "i16" 11 10 48)) (mkPtok 25 "i16" 11 10 48))) (mkPtok 42 "tag" 11 14 49) None (mkPtok 40 "," 11 17 50))); (MIDecl (mkMetaDecl (mkSpan (mkPtok 27 "int64" 11 19 51) (mkPtok 40 "," 11 31 53)) (TyBasic (mkSpan (mkPtok 27 "int64" 11 19 51) (mkPtok 27 "int64" 11 19 51)) (mkBasicType (mkSpan (mkPtok 27 "int64" 11 19 51) (mkPtok 27 "int64" 11 19 51)) (mkPtok 27 "int64" 11 19 51))) (mkPtok 42 "Logon" 11 25 52) None (mkPtok 40 "," 11 31 53)))] (mkPtok 3 "}" 11 33 54))); (DMeta (mkMetaDef (mkSpan (mkPtok 37 "MetaData" 12 4 55) (mkPtok 3 "}" 12 37 61)) (mkPtok 37 "MetaData" 12 4 55) (mkPtok 42 "Foo" 12 13 56) (mkPtok 2 "{" 12 16 57) [(MIRef (mkRefMetaDecl (mkSpan (mkPtok 42 "MetaDataX" 12 18 58) (mkPtok 40 "," 12 35 60)) (mkPtok 42 "MetaDataX" 12 18 58) (mkPtok 42 "Header" 12 28 59) None (mkPtok 40 "," 12 35 60)))] (mkPtok 3 "}" 12 37 61)))])).
Eval vm_compute in ("<<<M37>>>" ++ check (runes_of_ascii "options {
} MetaData _x { // " ++ [27880; 37322]%N ++ runes_of_ascii "
u128 a1, uint8x tag ,
    uint32
// packet A { u8 x, }
// " ++ [128512]%N ++ runes_of_ascii " emoji
crc
    `" ++ [28040; 24687; 31867; 22411]%N ++ runes_of_ascii "` , char
MetaDataX // @lengthOf(
, leftPad metadata
`u8 x,`
, string	falsey , } packet Packet {match zchar as Header
//
/// triple
{ [	""\" ++ [233]%N ++ runes_of_ascii """ , 1
    ] // a // b
:
    u128 , [007
    , 0123456789
    // `tick` ""quote"" 'q'
    , 007
,
    ""// no comment""	,
10 , 4294967296,
""// no comment"" ,""" ++ [128512]%N ++ runes_of_ascii """] :len
    } /// triple
, i64_@calculatedFrom(/// triple
""\n"" ), @lengthOf( BodyLength ) char[] lengthOf @calculatedFrom( ""it's"" ) , // c
@rightPad (//	t
'0') match As as Pad {42: Foo ""abc"" : int,  [ 255  , ""CRC32"" ]
    : zchar, //x
""1"" : packetx,0123456789
: Logon
// trailing space 
//	t
,
    } ,@calculatedFrom( ""\" ++ [233]%N ++ runes_of_ascii """ )
Logon repeatCount  , repeat pack { int32 a1
, u8 u128
@calculatedFrom(
""" ++ [233]%N ++ runes_of_ascii "t" ++ [233]%N ++ runes_of_ascii """)`// not a comment` , //x
zchar[ 0 /// triple
] falsey ,i64_ falsey	`crlf
line` ,
}  , char[ 65535
]
A ,u
    @lengthOf(stringy ) `u8 x,` ,
x	@calculatedFrom( ""packet""//x
)
, } MetaData pack { } root
packet
Pad { matchKey
    `it's`
, }
")).
Eval vm_compute in ("<<<M47>>>" ++ check (runes_of_ascii "root packet  a1 {
@lengthOf( _x
) //x
match zchar
    as string_ { 42
:
    zchar ,
    7// `tick` ""quote"" 'q'
://	t
float , ""\n"" :uint8x ,
} , } packet u8x {}options { chars =
    0123456789 // trailing space 
crc
    =true ; o
    =char[]
asx = 0 ;} packet pack {
    char matchKey  `line1
line2` , repeat string A `` ,match zchar
as As
{ 00 :
options1
    ,	3 //x
:  crc 42
: // packet A { u8 x, }
tag , } , }	packet Pad{ string T `doc` ,
    char stringy@lengthOf( f32a )
`u8 x,` ,
@calculatedFrom(
    ""x y"") @calculatedFrom( ""\" ++ [233]%N ++ runes_of_ascii """
)
@calculatedFrom( """ ++ [233]%N ++ runes_of_ascii "t" ++ [233]%N ++ runes_of_ascii """ )	float @lengthOf(  packetx) ,
// `tick` ""quote"" 'q'
// @lengthOf(
char[] a1
, }
// packet A { u8 x, }
")).
Eval vm_compute in ("<<<M57>>>" ++ check (runes_of_ascii "
options
// packet A { u8 x, }
// " ++ [27880; 37322]%N ++ runes_of_ascii "
{// trailing space 
_x = ""a\\""; } packet
a1 { @rightPad
( '\x00'	) u128 // c
@lengthOf(
Z9_
// @lengthOf(
// trailing space 
)
    `
`
    , @calculatedFrom( ""`tick`"" )
@lengthOf( string_) charz zchar, @leftPad ( '\x00'
    ) @rightPad(
'0'
//	t
// `tick` ""quote"" 'q'
)len // " ++ [27880; 37322]%N ++ runes_of_ascii "
@lengthOf( trueish // `tick` ""quote"" 'q'
) `crlf
line` ,
}options
{
_x
=
// trailing space 
// " ++ [128512]%N ++ runes_of_ascii " emoji
'0'
;	}")).
Eval vm_compute in ("<<<M67>>>" ++ check (runes_of_ascii "MetaData u {A Packet, }
")).
Eval vm_compute in ("<<<M77>>>" ++ check (runes_of_ascii " // " ++ [27880; 37322]%N)).
Eval vm_compute in ("<<<M87>>>" ++ check (@nil rune)).
Eval vm_compute in ("<<<M97>>>" ++ check (runes_of_ascii "
root
packet int
{ }	MetaData
    x { options1 MetaDataX
,
}

")).
Eval vm_compute in ("<<<T97>>>" ++ terms [mkTok 34 "root" 2 0 false; mkTok 35 "packet" 3 0 false; mkTok 42 "int" 3 7 false; mkTok 2 "{" 4 0 false; mkTok 3 "}" 4 2 false; mkTok 37 "MetaData" 4 4 false; mkTok 42 "x" 5 4 false; mkTok 2 "{" 5 6 false; mkTok 42 "options1" 5 8 false; mkTok 42 "MetaDataX" 5 17 false; mkTok 40 "," 6 0 false; mkTok 3 "}" 7 0 false; mkTok 0 "<EOF>" 9 0 false] (mkPacket (mkPtok 34 "root" 2 0 0) (Some (mkPtok 3 "}" 7 0 11)) [(DPacket (mkPacketDef (mkSpan (mkPtok 34 "root" 2 0 0) (mkPtok 3 "}" 4 2 4)) (Some (mkPtok 34 "root" 2 0 0)) (mkPtok 35 "packet" 3 0 1) (mkPtok 42 "int" 3 7 2) (mkPtok 2 "{" 4 0 3) [] (mkPtok 3 "}" 4 2 4))); (DMeta (mkMetaDef (mkSpan (mkPtok 37 "MetaData" 4 4 5) (mkPtok 3 "}" 7 0 11)) (mkPtok 37 "MetaData" 4 4 5) (mkPtok 42 "x" 5 4 6) (mkPtok 2 "{" 5 6 7) [(MIRef (mkRefMetaDecl (mkSpan (mkPtok 42 "options1" 5 8 8) (mkPtok 40 "," 6 0 10)) (mkPtok 42 "options1" 5 8 8) (mkPtok 42 "MetaDataX" 5 17 9) None (mkPtok 40 "," 6 0 10)))] (mkPtok 3 "}" 7 0 11)))])).
Eval vm_compute in ("<<<M107>>>" ++ check (runes_of_ascii "  packet	x { }
root packet
Z9_
{
@rightPad ( ) repeat // a // b
zchar[ 65535 ]crc `crlf
line` , // `tick` ""quote"" 'q'
@lengthOf(
x_y_z ) lengthOf ,	metadata { match
asx as calculatedFrom{ 1 : u ,
4294967296 :
//	t
// " ++ [128512]%N ++ runes_of_ascii " emoji
tag	, 10 : zchar , 255
: Header ,[""packet"" ] :calculatedFrom , } , } ,
@calculatedFrom( """ ++ [233]%N ++ runes_of_ascii "t" ++ [233]%N ++ runes_of_ascii """ )int32
    int,	repeat char[]
chars,	len `` ,f32 Header ,
// " ++ [128512]%N ++ runes_of_ascii " emoji
// @lengthOf(
}root // " ++ [27880; 37322]%N ++ runes_of_ascii "
packet stringy
{	@calculatedFrom(""CRC32""
)
    u8 a1
// " ++ [27880; 37322]%N ++ runes_of_ascii "
// packet A { u8 x, }
@calculatedFrom( """ ++ [128512]%N ++ runes_of_ascii """ ) ,
calculatedFrom string_
// `tick` ""quote"" 'q'
// trailing space 
,uint32/// triple
uint8x
, @leftPad (
) match BodyLength as
    // @lengthOf(
    asx {
0123456789 : rootA , [
    ""\n"" //
]:	Header , [
7 , ""// no comment"",
    ""a	b"",
    3
]
    :	o ,
    ""1""
    :  asx ,
    } ,	} root packet roots
{
    match T as chars// trailing space 
{ [ """ ++ [233]%N ++ runes_of_ascii "t" ++ [233]%N ++ runes_of_ascii """ ,65535
, ""packet""
, ""abc"" ,// @lengthOf(
""1""
//x
//x
, ""a\""b"" ] :body
""a	b""
    : chars
    , // trailing space 
65535: lengthOf	,
// packet A { u8 x, }
/// triple
""1"" :
    Z9_ ,""// no comment"":	f32a ,
    } ,
} MetaData
u	{	}")).
Eval vm_compute in ("<<<M117>>>" ++ check (runes_of_ascii "packet// c
Header {}
")).
Eval vm_compute in ("<<<M127>>>" ++ check (runes_of_ascii "// `tick` ""quote"" 'q'
options  { i64_
    =	""a\""b"" // `tick` ""quote"" 'q'
options1
    = 65535
    ;T
=
7// " ++ [128512]%N ++ runes_of_ascii " emoji
; }
")).
Eval vm_compute in ("<<<M137>>>" ++ check (runes_of_ascii "packet u8x { i64_ Pad
`
`, @leftPad (
    ) uint64 asx ,
    match matchKey
    as chars {	0: calculatedFrom , }
, Header {
string falsey
    @calculatedFrom(""" ++ [128512]%N ++ runes_of_ascii """// @lengthOf(
)`" ++ [233]%N ++ runes_of_ascii "` , char[] leftPad `{ , }` , } ,	int32 lengthOf , @calculatedFrom(
""1"")  Z9_ calculatedFrom	,	@lengthOf(
    T )	i8i8
{// " ++ [27880; 37322]%N ++ runes_of_ascii "
match charz
as _x {
10
: u8x, //x
0123456789 :
body, 42 :
    // " ++ [27880; 37322]%N ++ runes_of_ascii "
    Z9_
,
""abc"" : msg_type, 42 : T , ""// no comment"" :
Z9_ } ,
    int8
    body ,
    i8i8
{ T
// c
// trailing space 
,len
@lengthOf( body ) ,uint32
//
//x
uint8x , /// triple
}
,
match float as stringy
{ ""CRC32""
:	lengthOf
//	t
//	t
,3
:
Foo , [255 ,1 ]	:stringy , 255: roots, 7 : float , ""it's"" :
T } /// triple
,
    } ,
@lengthOf( uint8x
) uint32 repeatCount `u8 x,`, @calculatedFrom( ""it's"") u8x { repeat x  `{ , }` ,}
    ,} 	 ")).
Eval vm_compute in ("<<<M147>>>" ++ check (runes_of_ascii "MetaData leftPad { char[]
BodyLength`" ++ [28040; 24687; 31867; 22411]%N ++ runes_of_ascii "`, crc
body
`a\` , }
")).
Eval vm_compute in ("<<<M157>>>" ++ check (runes_of_ascii "options
    // @lengthOf(
    {u8x =
// " ++ [128512]%N ++ runes_of_ascii " emoji
// a // b
uint16 msg_type	=
    true metadata
= true float
= ""a	b"" ; }  options{ } options {repeatCount
    = 65535;packetx
= ""1"" ; u8x =""\n""
Z9_ = // trailing space 
3 // `tick` ""quote"" 'q'
;
roots	= 42 ;
}
")).
Eval vm_compute in ("<<<M167>>>" ++ check (runes_of_ascii "// c
options{ lengthOf =
    int16;
float =
false ; body =
u32; } 	 ")).
Eval vm_compute in ("<<<T167>>>" ++ terms [mkTok 44 "// c" 1 0 true; mkTok 1 "options" 2 0 false; mkTok 2 "{" 2 7 false; mkTok 42 "lengthOf" 2 9 false; mkTok 4 "=" 2 18 false; mkTok 25 "int16" 3 4 false; mkTok 41 ";" 3 9 false; mkTok 42 "float" 4 0 false; mkTok 4 "=" 4 6 false; mkTok 11 "false" 5 0 false; mkTok 41 ";" 5 6 false; mkTok 42 "body" 5 8 false; mkTok 4 "=" 5 13 false; mkTok 22 "u32" 6 0 false; mkTok 41 ";" 6 3 false; mkTok 3 "}" 6 5 false; mkTok 0 "<EOF>" 6 9 false] (mkPacket (mkPtok 1 "options" 2 0 1) (Some (mkPtok 3 "}" 6 5 15)) [(DOption (mkOptionDef (mkSpan (mkPtok 1 "options" 2 0 1) (mkPtok 3 "}" 6 5 15)) (mkPtok 1 "options" 2 0 1) (mkPtok 2 "{" 2 7 2) [(mkOptionDecl (mkSpan (mkPtok 42 "lengthOf" 2 9 3) (mkPtok 41 ";" 3 9 6)) (mkPtok 42 "lengthOf" 2 9 3) (mkPtok 4 "=" 2 18 4) (VType (mkSpan (mkPtok 25 "int16" 3 4 5) (mkPtok 25 "int16" 3 4 5)) (TyBasic (mkSpan (mkPtok 25 "int16" 3 4 5) (mkPtok 25 "int16" 3 4 5)) (mkBasicType (mkSpan (mkPtok 25 "int16" 3 4 5) (mkPtok 25 "int16" 3 4 5)) (mkPtok 25 "int16" 3 4 5)))) (Some (mkPtok 41 ";" 3 9 6))); (mkOptionDecl (mkSpan (mkPtok 42 "float" 4 0 7) (mkPtok 41 ";" 5 6 10)) (mkPtok 42 "float" 4 0 7) (mkPtok 4 "=" 4 6 8) (VFalse (mkSpan (mkPtok 11 "false" 5 0 9) (mkPtok 11 "false" 5 0 9)) (mkPtok 11 "false" 5 0 9)) (Some (mkPtok 41 ";" 5 6 10))); (mkOptionDecl (mkSpan (mkPtok 42 "body" 5 8 11) (mkPtok 41 ";" 6 3 14)) (mkPtok 42 "body" 5 8 11) (mkPtok 4 "=" 5 13 12) (VType (mkSpan (mkPtok 22 "u32" 6 0 13) (mkPtok 22 "u32" 6 0 13)) (TyBasic (mkSpan (mkPtok 22 "u32" 6 0 13) (mkPtok 22 "u32" 6 0 13)) (mkBasicType (mkSpan (mkPtok 22 "u32" 6 0 13) (mkPtok 22 "u32" 6 0 13)) (mkPtok 22 "u32" 6 0 13)))) (Some (mkPtok 41 ";" 6 3 14)))] (mkPtok 3 "}" 6 5 15)))])).
Eval vm_compute in ("<<<M177>>>" ++ check (runes_of_ascii "//	t
options { float =
    """"// `tick` ""quote"" 'q'
;  }packet
    As { char[ 10 ]metadata , repeat char[] A
    //x
    , // @lengthOf(
x// `tick` ""quote"" 'q'
@calculatedFrom(	""" ++ [28040; 24687]%N ++ runes_of_ascii """ )  , }
MetaData	A
// trailing space 
// @lengthOf(
{// packet A { u8 x, }
i16 // @lengthOf(
Header
,
calculatedFrom rootA
,
    zchar[ 1 ]
Pad //	t
, char[]A ,
options1 roots
    ,
// " ++ [27880; 37322]%N ++ runes_of_ascii "
//
int8 // " ++ [27880; 37322]%N ++ runes_of_ascii "
Foo , }
")).
Eval vm_compute in ("<<<M187>>>" ++ check (runes_of_ascii "
")).
Eval vm_compute in ("<<<M197>>>" ++ check (runes_of_ascii "
MetaData chars
{ }
//	t
// a // b
packet
a1
{ repeat char[
007 ]uint8x
    , zchar[ 1] T ,
int8 repeatCount,calculatedFrom @calculatedFrom(""""
    // trailing space 
    ) `crlf
line` ,zchar[
0123456789 ]Logon ,}
options { string_//
= ""// no comment"" ;
    calculatedFrom =
    0123456789
    ;
    // trailing space 
    asx //
= 4294967296 ; //	t
MetaDataX=
    '0' ; }
")).
Eval vm_compute in ("<<<M207>>>" ++ check (runes_of_ascii "packet x_y_z
{
u8 chars ,
@tag( 65535 ) match// packet A { u8 x, }
lengthOf
    as _x
{ ""a\""b"":
f32a // packet A { u8 x, }
,
    255
//x
// @lengthOf(
: x_y_z,  65535
    :len,/// triple
1 :
    x_y_z // c
,	0123456789:	u128 [ 3 ]
    // a // b
    : chars }	, int16 repeatCount@calculatedFrom( ""// no comment"" )
    ,
} packet msg_type { uint16 A
``, u32 Packet //	t
, }
")).
Eval vm_compute in ("<<<M217>>>" ++ check (runes_of_ascii "options {
i8i8
    =
    uint64;
    Foo ='0' } MetaData
//x
//
leftPad { }
    MetaData int
    { lengthOf charz, u8 i8i8 ,zchar[ 1
    ]chars
    , stringy	msg_type, uint32
i64_ // " ++ [128512]%N ++ runes_of_ascii " emoji
`line1
line2` , zchar[ 1 ]	u128 , }
// packet A { u8 x, }
")).
Eval vm_compute in ("<<<M227>>>" ++ check (runes_of_ascii "root packet o // packet A { u8 x, }
{ i16	o	`crlf
line`
, u16 x@lengthOf(
    string_ // `tick` ""quote"" 'q'
) ,
MetaDataX len `u8 x,` , repeat
    float32 MetaDataX, repeat // c
BodyLength matchKey	, packetx , }
")).
Eval vm_compute in ("<<<M237>>>" ++ check (runes_of_ascii "
MetaData
x_y_z	{ falsey metadata
, }	options{ uint8x= //	t
""CRC32"" ; Foo// trailing space 
=
    ""{,}"" ;
    x// c
= '\x00' _x
=
'\x00' ;}")).
Eval vm_compute in ("<<<T237>>>" ++ terms [mkTok 37 "MetaData" 2 0 false; mkTok 42 "x_y_z" 3 0 false; mkTok 2 "{" 3 6 false; mkTok 42 "falsey" 3 8 false; mkTok 42 "metadata" 3 15 false; mkTok 40 "," 4 0 false; mkTok 3 "}" 4 2 false; mkTok 1 "options" 4 4 false; mkTok 2 "{" 4 11 false; mkTok 42 "uint8x" 4 13 false; mkTok 4 "=" 4 19 false; mkTok 44 (string_of_bytes [47; 47; 9; 116]%N) 4 21 true; mkTok 31 """CRC32""" 5 0 false; mkTok 41 ";" 5 8 false; mkTok 42 "Foo" 5 10 false; mkTok 44 "// trailing space " 5 13 true; mkTok 4 "=" 6 0 false; mkTok 31 """{,}""" 7 4 false; mkTok 41 ";" 7 10 false; mkTok 42 "x" 8 4 false; mkTok 44 "// c" 8 5 true; mkTok 4 "=" 9 0 false; mkTok 33 "'\x00'" 9 2 false; mkTok 42 "_x" 9 9 false; mkTok 4 "=" 10 0 false; mkTok 33 "'\x00'" 11 0 false; mkTok 41 ";" 11 7 false; mkTok 3 "}" 11 8 false; mkTok 0 "<EOF>" 11 9 false] (mkPacket (mkPtok 37 "MetaData" 2 0 0) (Some (mkPtok 3 "}" 11 8 27)) [(DMeta (mkMetaDef (mkSpan (mkPtok 37 "MetaData" 2 0 0) (mkPtok 3 "}" 4 2 6)) (mkPtok 37 "MetaData" 2 0 0) (mkPtok 42 "x_y_z" 3 0 1) (mkPtok 2 "{" 3 6 2) [(MIRef (mkRefMetaDecl (mkSpan (mkPtok 42 "falsey" 3 8 3) (mkPtok 40 "," 4 0 5)) (mkPtok 42 "falsey" 3 8 3) (mkPtok 42 "metadata" 3 15 4) None (mkPtok 40 "," 4 0 5)))] (mkPtok 3 "}" 4 2 6))); (DOption (mkOptionDef (mkSpan (mkPtok 1 "options" 4 4 7) (mkPtok 3 "}" 11 8 27)) (mkPtok 1 "options" 4 4 7) (mkPtok 2 "{" 4 11 8) [(mkOptionDecl (mkSpan (mkPtok 42 "uint8x" 4 13 9) (mkPtok 41 ";" 5 8 13)) (mkPtok 42 "uint8x" 4 13 9) (mkPtok 4 "=" 4 19 10) (VString (mkSpan (mkPtok 31 """CRC32""" 5 0 12) (mkPtok 31 """CRC32""" 5 0 12)) (mkPtok 31 """CRC32""" 5 0 12)) (Some (mkPtok 41 ";" 5 8 13))); (mkOptionDecl (mkSpan (mkPtok 42 "Foo" 5 10 14) (mkPtok 41 ";" 7 10 18)) (mkPtok 42 "Foo" 5 10 14) (mkPtok 4 "=" 6 0 16) (VString (mkSpan (mkPtok 31 """{,}""" 7 4 17) (mkPtok 31 """{,}""" 7 4 17)) (mkPtok 31 """{,}""" 7 4 17)) (Some (mkPtok 41 ";" 7 10 18))); (mkOptionDecl (mkSpan (mkPtok 42 "x" 8 4 19) (mkPtok 33 "'\x00'" 9 2 22)) (mkPtok 42 "x" 8 4 19) (mkPtok 4 "=" 9 0 21) (VPaddingChar (mkSpan (mkPtok 33 "'\x00'" 9 2 22) (mkPtok 33 "'\x00'" 9 2 22)) (mkPtok 33 "'\x00'" 9 2 22)) None); (mkOptionDecl (mkSpan (mkPtok 42 "_x" 9 9 23) (mkPtok 41 ";" 11 7 26)) (mkPtok 42 "_x" 9 9 23) (mkPtok 4 "=" 10 0 24) (VPaddingChar (mkSpan (mkPtok 33 "'\x00'" 11 0 25) (mkPtok 33 "'\x00'" 11 0 25)) (mkPtok 33 "'\x00'" 11 0 25)) (Some (mkPtok 41 ";" 11 7 26)))] (mkPtok 3 "}" 11 8 27)))])).
Eval vm_compute in ("<<<M247>>>" ++ check (runes_of_ascii "root packet charz { // `tick` ""quote"" 'q'
repeat
int16 //x
i8i8 , char[ 255] A
// `tick` ""quote"" 'q'
// a // b
,@leftPad(' ')@calculatedFrom( ""\" ++ [233]%N ++ runes_of_ascii """ )
    /// triple
    i8i8	, match
    x_y_z as stringy { 00 : float , [ 42
, ""packet"" ]:metadata ,""a	b"" : rootA ,
    [  0 ]
: x_y_z , 0	:BodyLength ,} ,char[]zchar //x
`line1
line2`
, repeat rootA // a // b
, trueish
    @lengthOf(
// " ++ [128512]%N ++ runes_of_ascii " emoji
// trailing space 
u128) ,  }/// triple
options {x=
""CRC32"" packetx= ""1"" falsey =
'\x00' uint8x = 10 ;  i64_
=  true}
MetaData lengthOf {	i16 float `" ++ [233]%N ++ runes_of_ascii "`
, float
    u`it's`
    ,	uint8 Header , zchar[65535 ]	falsey , falsey BodyLength
`say ""hi""` ,  }
    packet float {}")).
Eval vm_compute in ("<<<M257>>>" ++ check (runes_of_ascii "MetaData
x_y_z {rootA int`
`
    ,i16 pack
    ,repeatCount o , /// triple
_x
f32a `// not a comment`, }

")).
Eval vm_compute in ("<<<M267>>>" ++ check (runes_of_ascii "
options
//x
// `tick` ""quote"" 'q'
{ }options {
    }packet Pad // @lengthOf(
{ @lengthOf(  options1 )match
i8i8 as u128 {
    //x
    3
:
    tag ,	[ 0 , 0
    ] :
metadata ,0:
    x ,	""x y""// c
:Z9_ 255 : calculatedFrom ,
""x y"":
    u  , }// c
,	}

")).
Eval vm_compute in ("<<<M277>>>" ++ check (runes_of_ascii "options {	options1	=65535 ;
    leftPad=""x y""T = 65535/// triple
;} options
    { }
// c
// @lengthOf(
MetaData Z9_ {
string
packetx `say ""hi""`
    , float32 chars,} // c")).
Eval vm_compute in ("<<<M287>>>" ++ check (runes_of_ascii "packet calculatedFrom { @calculatedFrom( """ ++ [128512]%N ++ runes_of_ascii """ ) repeat
    char[ 255 ] Header //x
`doc`  , repeat trueish {char[
0123456789]// " ++ [27880; 37322]%N ++ runes_of_ascii "
u `crlf
line`,uint16
len @lengthOf(zchar )
    `" ++ [28040; 24687; 31867; 22411]%N ++ runes_of_ascii "` , repeat
    string
// " ++ [128512]%N ++ runes_of_ascii " emoji
//
rootA
, //x
}
,
@rightPad(
    '0'
)float32
matchKey@lengthOf(	metadata )  `two words`
,_x`" ++ [28040; 24687; 31867; 22411]%N ++ runes_of_ascii "` //x
, zchar[ 42 ]rootA , match msg_type as
    metadata
    // packet A { u8 x, }
    {3:
    //	t
    body """ ++ [28040; 24687]%N ++ runes_of_ascii """
    : Pad , [ //	t
3 // `tick` ""quote"" 'q'
,4294967296 , 1	,//x
""// no comment"" , 65535 , ""`tick`"" ,0123456789
] : x
//	t
// c
, 0123456789: matchKey	} , }
")).
Eval vm_compute in ("<<<M297>>>" ++ check (runes_of_ascii "packet // " ++ [128512]%N ++ runes_of_ascii " emoji
Header
{ string
rootA @calculatedFrom(
    ""packet""
) `two words` ,
    roots`a\` // @lengthOf(
,	}
")).
Eval vm_compute in ("<<<M307>>>" ++ check (runes_of_ascii "root packet SimpleMessage {
    uint16 MsgType `" ++ [28040; 24687; 31867; 22411]%N ++ runes_of_ascii "`,
    string JsonBody `Json" ++ [23383; 31526; 20018; 28040; 24687; 20307]%N ++ runes_of_ascii "`,
}")).
Eval vm_compute in ("<<<T307>>>" ++ terms [mkTok 34 "root" 1 0 false; mkTok 35 "packet" 1 5 false; mkTok 42 "SimpleMessage" 1 12 false; mkTok 2 "{" 1 26 false; mkTok 21 "uint16" 2 4 false; mkTok 42 "MsgType" 2 11 false; mkTok 43 (string_of_bytes [96; 230; 182; 136; 230; 129; 175; 231; 177; 187; 229; 158; 139; 96]%N) 2 19 false; mkTok 40 "," 2 25 false; mkTok 15 "string" 3 4 false; mkTok 42 "JsonBody" 3 11 false; mkTok 43 (string_of_bytes [96; 74; 115; 111; 110; 229; 173; 151; 231; 172; 166; 228; 184; 178; 230; 182; 136; 230; 129; 175; 228; 189; 147; 96]%N) 3 20 false; mkTok 40 "," 3 32 false; mkTok 3 "}" 4 0 false; mkTok 0 "<EOF>" 4 1 false] (mkPacket (mkPtok 34 "root" 1 0 0) (Some (mkPtok 3 "}" 4 0 12)) [(DPacket (mkPacketDef (mkSpan (mkPtok 34 "root" 1 0 0) (mkPtok 3 "}" 4 0 12)) (Some (mkPtok 34 "root" 1 0 0)) (mkPtok 35 "packet" 1 5 1) (mkPtok 42 "SimpleMessage" 1 12 2) (mkPtok 2 "{" 1 26 3) [(mkFieldWithAttr (mkSpan (mkPtok 21 "uint16" 2 4 4) (mkPtok 40 "," 2 25 7)) [] (MetaField (mkSpan (mkPtok 21 "uint16" 2 4 4) (mkPtok 40 "," 2 25 7)) None (mkMetaDecl (mkSpan (mkPtok 21 "uint16" 2 4 4) (mkPtok 40 "," 2 25 7)) (TyBasic (mkSpan (mkPtok 21 "uint16" 2 4 4) (mkPtok 21 "uint16" 2 4 4)) (mkBasicType (mkSpan (mkPtok 21 "uint16" 2 4 4) (mkPtok 21 "uint16" 2 4 4)) (mkPtok 21 "uint16" 2 4 4))) (mkPtok 42 "MsgType" 2 11 5) (Some (mkPtok 43 (string_of_bytes [96; 230; 182; 136; 230; 129; 175; 231; 177; 187; 229; 158; 139; 96]%N) 2 19 6)) (mkPtok 40 "," 2 25 7)))); (mkFieldWithAttr (mkSpan (mkPtok 15 "string" 3 4 8) (mkPtok 40 "," 3 32 11)) [] (MetaField (mkSpan (mkPtok 15 "string" 3 4 8) (mkPtok 40 "," 3 32 11)) None (mkMetaDecl (mkSpan (mkPtok 15 "string" 3 4 8) (mkPtok 40 "," 3 32 11)) (TyDynamic (mkSpan (mkPtok 15 "string" 3 4 8) (mkPtok 15 "string" 3 4 8)) (mkDynamicString (mkSpan (mkPtok 15 "string" 3 4 8) (mkPtok 15 "string" 3 4 8)) (mkPtok 15 "string" 3 4 8))) (mkPtok 42 "JsonBody" 3 11 9) (Some (mkPtok 43 (string_of_bytes [96; 74; 115; 111; 110; 229; 173; 151; 231; 172; 166; 228; 184; 178; 230; 182; 136; 230; 129; 175; 228; 189; 147; 96]%N) 3 20 10)) (mkPtok 40 "," 3 32 11))))] (mkPtok 3 "}" 4 0 12)))])).
Eval vm_compute in ("<<<M317>>>" ++ check (runes_of_ascii "packet  :{ @rightPad(	' '
    )@lengthOf( uint8x
)	i32  options1 ,u ,
    //	t
    len @lengthOf(
int // trailing space 
)
    , @tag( 42 ) repeat uint32 u ,
    }")).
Eval vm_compute in ("<<<M327>>>" ++ check (runes_of_ascii "packet  calculatedFrom{ ](	' '
    )@lengthOf( uint8x
)	i32  options1 ,u ,
    //	t
    len @lengthOf(
int // trailing space 
)
    , @tag( 42 ) repeat uint32 u ,
    }")).
Eval vm_compute in ("<<<M337>>>" ++ check (runes_of_ascii "packet  calculatedFrom{ @rightPad(	i64
    )@lengthOf( uint8x
)	i32  options1 ,u ,
    //	t
    len @lengthOf(
int // trailing space 
)
    , @tag( 42 ) repeat uint32 u ,
    }")).
Eval vm_compute in ("<<<M347>>>" ++ check (runes_of_ascii "packet  calculatedFrom{ @rightPad(	' '
    )} uint8x
)	i32  options1 ,u ,
    //	t
    len @lengthOf(
int // trailing space 
)
    , @tag( 42 ) repeat uint32 u ,
    }")).
Eval vm_compute in ("<<<M357>>>" ++ check (runes_of_ascii "packet  calculatedFrom{ @rightPad(	' '
    )@lengthOf( uint8x
}	i32  options1 ,u ,
    //	t
    len @lengthOf(
int // trailing space 
)
    , @tag( 42 ) repeat uint32 u ,
    }")).
Eval vm_compute in ("<<<M367>>>" ++ check (runes_of_ascii "packet  calculatedFrom{ @rightPad(	' '
    )@lengthOf( uint8x
)	i32  @leftPad ,u ,
    //	t
    len @lengthOf(
int // trailing space 
)
    , @tag( 42 ) repeat uint32 u ,
    }")).
Eval vm_compute in ("<<<M377>>>" ++ check (runes_of_ascii "packet  calculatedFrom{ @rightPad(	' '
    )@lengthOf( uint8x
)	i32  options1 ,float64 ,
    //	t
    len @lengthOf(
int // trailing space 
)
    , @tag( 42 ) repeat uint32 u ,
    }")).
Eval vm_compute in ("<<<M387>>>" ++ check (runes_of_ascii "packet  calculatedFrom{ @rightPad(	' '
    )@lengthOf( uint8x
)	i32  options1 ,u ,
    //	t
    : @lengthOf(
int // trailing space 
)
    , @tag( 42 ) repeat uint32 u ,
    }")).
Eval vm_compute in ("<<<M397>>>" ++ check (runes_of_ascii "packet  calculatedFrom{ @rightPad(	' '
    )@lengthOf( uint8x
)	i32  options1 ,u ,
    //	t
    len @lengthOf(
: // trailing space 
)
    , @tag( 42 ) repeat uint32 u ,
    }")).
Eval vm_compute in ("<<<M407>>>" ++ check (runes_of_ascii "packet  calculatedFrom{ @rightPad(	' '
    )@lengthOf( uint8x
)	i32  options1 ,u ,
    //	t
    len @lengthOf(
int // trailing space 
)
    f32 @tag( 42 ) repeat uint32 u ,
    }")).
Eval vm_compute in ("<<<M417>>>" ++ check (runes_of_ascii "packet  calculatedFrom{ @rightPad(	' '
    )@lengthOf( uint8x
)	i32  options1 ,u ,
    //	t
    len @lengthOf(
int // trailing space 
)
    , @tag( @lengthOf( ) repeat uint32 u ,
    }")).
Eval vm_compute in ("<<<M427>>>" ++ check (runes_of_ascii "packet  calculatedFrom{ @rightPad(	' '
    )@lengthOf( uint8x
)	i32  options1 ,u ,
    //	t
    len @lengthOf(
int // trailing space 
)
    , @tag( 42 ) packet uint32 u ,
    }")).
Eval vm_compute in ("<<<M437>>>" ++ check (runes_of_ascii "packet  calculatedFrom{ @rightPad(	' '
    )@lengthOf( uint8x
)	i32  options1 ,u ,
    //	t
    len @lengthOf(
int // trailing space 
)
    , @tag( 42 ) repeat uint32 ""// no comment"" ,
    }")).
Eval vm_compute in ("<<<M447>>>" ++ check (runes_of_ascii "packet  calculatedFrom{ @rightPad(	' '
    )@lengthOf( uint8x
)	i32  options1 ,u ,
    //	t
    len @lengthOf(
int // trailing space 
)
    , @tag( 42 ) repeat uint32 u ,")).
Eval vm_compute in ("<<<M457>>>" ++ check (runes_of_ascii "packet  calculatedFrom{ @rightPad(	' '
    )@lengthOf( uint8x
)	i32  options1 ,u ,
    //	t
    len @lengthOf(
int // trailing space 
'\x01' )
    , @tag( 42 ) repeat uint32 u ,
    }")).
Eval vm_compute in ("<<<M467>>>" ++ check (runes_of_ascii "packet  calculatedFrom{ @rightPad(	' '
    )@lengthOf( uint8x
)	i32  options1 ,u ,
    //	t
    len @lengthOf(
int // trailing space 
)
    , @tag( 42 ) repeat uint32 caf" ++ [233]%N ++ runes_of_ascii "_1 ,
    }")).
Eval vm_compute in ("<<<M477>>>" ++ check (runes_of_ascii "MetaData u// packet A { u8 x, }
{ A
// c
//	t
i64_ ,char[ 255 ]
    repeatCount , zchar[
65535 ]
    tag `" ++ [65533]%N)).
Eval vm_compute in ("<<<M487>>>" ++ check (runes_of_ascii "M#etaData u// packet A { u8 x, }
{ A
// c
//	t
i64_ ,char[ 255 ]
    repeatCount , zchar[
65535 ]
    tag `" ++ [233]%N ++ runes_of_ascii "`
    ,int32 lengthOf	, }
")).
Eval vm_compute in ("<<<M497>>>" ++ check (runes_of_ascii "MetaData u// packet A { u8 x, }
{ A
// c
//	t
i64_ ,char[ 255 ]
    repeatCount /, zchar[
65535 ]
    tag `" ++ [233]%N ++ runes_of_ascii "`
    ,int32 lengthOf	, }
")).
Eval vm_compute in ("<<<M507>>>" ++ check (runes_of_ascii "MetaData u// packet A { u8 x, }
{ A
// c
//	t
i64_ ,char[ 255 ]
    repeatCount , zchar[ zchar[
65535 ]
    tag `" ++ [233]%N ++ runes_of_ascii "`
    ,int32 lengthOf	, }
")).
Eval vm_compute in ("<<<M517>>>" ++ check (runes_of_ascii "MetaData u// packet A { u8 x, }
{ A
// c
//	t
i64_ ,char[ 255 ]
    repeatCount , zchar[
' 65535 ]
    tag `" ++ [233]%N ++ runes_of_ascii "`
    ,int32 lengthOf	, }
")).
Eval vm_compute in ("<<<M527>>>" ++ check (runes_of_ascii "MetaData u// packet A { u8 x, }
{ A
// c
//	t
i64_ ,char[ 255 ]
    repeatCount , zchar[
65535 ]
    tag `" ++ [233]%N ++ runes_of_ascii "`
    ,int32 lengthOf	, 
")).
Eval vm_compute in ("<<<M537>>>" ++ check (runes_of_ascii "MetaData {// packet A { u8 x, }
u A
// c
//	t
i64_ ,char[ 255 ]
    repeatCount , zchar[
65535 ]
    tag `" ++ [233]%N ++ runes_of_ascii "`
    ,int32 lengthOf	, }
")).
Eval vm_compute in ("<<<M547>>>" ++ check (runes_of_ascii "MetaData MetaData u// packet A { u8 x, }
{ A
// c
//	t
i64_ ,char[ 255 ]
    repeatCount , zchar[
65535 ]
    tag `" ++ [233]%N ++ runes_of_ascii "`
    ,int32 lengthOf	, }
")).
Eval vm_compute in ("<<<M557>>>" ++ check (runes_of_ascii "MetaData u// packet A { u8 x, }
{ A
// c
//	t
i64_ i64_ ,char[ 255 ]
    repeatCount , zchar[
65535 ]
    tag `" ++ [233]%N ++ runes_of_ascii "`
    ,int32 lengthOf	, }
")).
Eval vm_compute in ("<<<M567>>>" ++ check (runes_of_ascii "")).
Eval vm_compute in ("<<<M577>>>" ++ check (runes_of_ascii "K" ++ [65533]%N)).
Eval vm_compute in ("<<<M587>>>" ++ check (runes_of_ascii "char false MetaData char[ uint64 ; match @calculatedFrom( ""CRC32"" zchar[ ""it's"" uint8")).
Eval vm_compute in ("<<<M597>>>" ++ check (runes_of_ascii "z" ++ [65533; 65533]%N ++ runes_of_ascii "Q" ++ [65533; 65533; 65533; 65533]%N ++ runes_of_ascii "4" ++ [65533; 65533; 65533]%N ++ runes_of_ascii "(." ++ [65533; 65533; 65533; 295]%N ++ runes_of_ascii "H" ++ [65533; 8; 65533; 65533; 65533]%N ++ runes_of_ascii "%" ++ [65533; 65533; 65533; 65533; 65533]%N ++ runes_of_ascii "," ++ [65533; 1844]%N ++ runes_of_ascii "J" ++ [65533; 65533; 0]%N)).
