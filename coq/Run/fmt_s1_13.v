From FP Require Import Lexer Parser ShowPT Digest Formatter.
From Coq Require Import String List NArith.
Import ListNotations.
Open Scope string_scope.
Set Printing Width 100000000.
Set Printing Depth 100000000.
Definition show_fres (r : fres) : string :=
  match r with
  | FOk s => "OK:" ++ sh_escaped s ""
  | FErr s => "ERR:" ++ sh_escaped s ""
  | FPanic p => "PANIC:" ++ p
  end.
Definition check (rs : list rune) : string := digest (show_fres (format_res rs)).
Definition full (rs : list rune) : string := show_fres (format_res rs).
Eval vm_compute in ("<<<M1575>>>" ++ check (runes_of_ascii "options {
    ArrayPrefixLenType = u16;
    FixedStringPadFromLeft = true;
    JavaPackage = ""co\
m.example.msg"";
    GoPackage = ""ms\
g"";
    GoModule = ""example.com/msg"";
}
MetaData Meta {
    u32 SeqNum `sequence number`,
    char[8] Symbol `symbol`,
    zchar[5] ZSym `z symbol`,
    string Note,
    Symbol AltSymbol `alias of symbol`,
    f64 Price,
}
packet Inner {
    u8 a,
    i16 b,
    string c,
}
packet Inner2 {
    u8 a2,
    char[3] c2,
}
packet Logon {
    u8 x,
    string user,
    repeat u16 codes,
}
packet Logout {
    u16 reason,
}
packet Empty {
}
root packet Msg {
    u8 su8,
    uint8 luint8,
    u16 su16,
    uint16 luint16,
    u32 su32,
    uint32 luint32,
    u64 su64,
    uint64 luint64,
    i8 si8,
    int8 lint8,
    i16 si16,
    int16 lint16,
    i32 si32,
    int32 lint32,
    i64 si64,
    int64 lint64,
    f32 sf32,
    float32 lfloat32,
    f64 sf64,
    float64 lfloat64,
    char[6] fsplain,
    @leftPad('0') char[4] fs0,
    @rightPad('0') char[5] fs1,
    @leftPad(' ') char[6] fs2,
    @rightPad(' ') char[7] fs3,
    @leftPad('\x00') char[8] fs4,
    @rightPad('\x00') char[9] fs5,
    @leftPad() char[10] fs6,
    @rightPad() char[11] fs7,
    zchar[7] fz,
    @leftPad('0') zchar[3] fzl0,
    string s1 `doc`,
    char[] s2,
    Inner,
    Sub {
        u8 q,
        string w,
        Deep {
            u16 z,
            repeat i32 zs,
        },
    },
    repeat u8 ru8,
    repeat u16 ru16,
    repeat u32 ru32,
    repeat u64 ru64,
    repeat i8 ri8,
    repeat i16 ri16,
    repeat i32 ri32,
    repeat i64 ri64,
    repeat f32 rf32,
    repeat f64 rf64,
    repeat string rstr,
    repeat char[] rstr2,
    repeat char[3] rfs,
    repeat zchar[3] rfz,
    repeat Inner2,
    repeat Grp {
        u8 k,
        char[2] v,
    },
    SeqNum,
    SeqNum seq2,
    repeat SeqNum seqs,
    Symbol,
    AltSymbol alt,
    ZSym,
    Note,
    repeat Symbol syms,
    Price px,
    u16 MsgType,
    u32 BodyLen @lengthOf(Body),
    match MsgType as Body {
        1 : Logon,
        [2, 3] : Logout,
        7 : Logon,
        9 : Empty,
    },
    u32 Checksum @calculatedFrom(""CRC32""),
}
")).
Eval vm_compute in ("<<<M120>>>" ++ check (runes_of_ascii "root packet // c
falsey { roots { repeat x_y_z ,
} , char[] T `
` , char[	3 ]T/// triple
,zchar { repeat
zchar[ 65535 ]
    rootA  `tab	here`
    , int32 leftPad , }
,
// packet A { u8 x, }
// `tick` ""quote"" 'q'
repeat
    Packet
    //	t
    ,repeat
char[ 00 ] body`" ++ [233]%N ++ runes_of_ascii "` , @tag(
00// @lengthOf(
) a1 i64_
, i8i8 BodyLength `{ , }`
    , match
    crc as u8x
// a // b
//	t
{ [
    // `tick` ""quote"" 'q'
    0 ]:
    matchKey , [ 0123456789,
""a\\""
,
""abc"" ]:As , """ ++ [128512]%N ++ runes_of_ascii """ : tag, 7 :
    u8x , 42 : f32a 00 :options1 } // trailing space 
,} packet// " ++ [27880; 37322]%N ++ runes_of_ascii "
MetaDataX{@tag( 42)@leftPad ( ) @leftPad
    //x
    ( )  body i64_ , } packet int{ @calculatedFrom(
// " ++ [27880; 37322]%N ++ runes_of_ascii "
//
""" ++ [233]%N ++ runes_of_ascii "t" ++ [233]%N ++ runes_of_ascii """)
@tag(42 ) @leftPad	( '\x00' ) repeat u8x ,  repeat len , @tag(	255	)match calculatedFrom as Z9_ {  ""CRC32"" :	len,""packet"" : falsey, [65535,
42//x
]// @lengthOf(
: charz ,
} // @lengthOf(
,i8i8 ,match
i8i8
    as Foo // trailing space 
{ ""a\\"" : x , } , @leftPad
( ) char crc `say ""hi""` ,
} options {	Pad =
    zchar[ // trailing space 
0
]; pack="""" // c
;
    } root
    packet lengthOf
{ @leftPad ('0' ) A
    // trailing space 
    @calculatedFrom(
// " ++ [27880; 37322]%N ++ runes_of_ascii "
//
""\" ++ [233]%N ++ runes_of_ascii """),@calculatedFrom( ""abc""// c
)  repeat// c
char[] a1 ,repeat int  trueish  , @rightPad(
    '\x00'
    )// a // b
zchar[4294967296 ] _x ,repeat
stringy //
x	,@tag( 00  ) @lengthOf( int )  @tag( 0) u8	T	,
@tag(1 ) @lengthOf(
a1 ) @calculatedFrom( ""it's"" ) char[ 10 ] body ,  @lengthOf( f32a )
    rootA
@calculatedFrom(""{,}"" ), // " ++ [128512]%N ++ runes_of_ascii " emoji
} 	 ")).
Eval vm_compute in ("<<<M350>>>" ++ check (runes_of_ascii "packet
matchKey
    {	zchar[ 3
    ]
// `tick` ""quote"" 'q'
// packet A { u8 x, }
A,msg_type
`a\` , MetaDataX As  , @lengthOf(
    Z9_ )repeat
    f32 _x ,
    @lengthOf(Pad ) uint32 //	t
Logon
    , // a // b
@tag( 4294967296 ) T	`doc` ,
len  ,
body { repeat
    o { match i8i8 as	body{ 65535
:lengthOf,
[ ""\n"" ] : i64_ 3
: asx , [
""packet""
,
    /// triple
    007	,
""{,}""  , ""// no comment""
] : repeatCount ,[ ""// no comment"",
    7
    ,	""\" ++ [233]%N ++ runes_of_ascii """, 0123456789 //
, ""a\""b"" ] : roots
} ,
match repeatCount as As
{ """"
    /// triple
    : //	t
o ,
    }
, } , zchar[ 0 ]BodyLength `` ,
    lengthOf,}, i16 Z9_ , } packet
    tag { @tag(
    // `tick` ""quote"" 'q'
    1 ) repeat float i8i8`" ++ [28040; 24687; 31867; 22411]%N ++ runes_of_ascii "` // `tick` ""quote"" 'q'
,  @rightPad ( )@lengthOf( _x) @rightPad ( // c
'0'
)
Packet, Foo /// triple
@lengthOf(
    u128
) `doc` ,
@tag( 007 ) // packet A { u8 x, }
string repeatCount , o {match leftPad as lengthOf {
[
    0123456789  ,
""1"" ] :
    x_y_z  , [ """ ++ [128512]%N ++ runes_of_ascii """] : i8i8
, [// @lengthOf(
""a\""b"" , ""a	b"" ]
: Foo , [ ""\" ++ [233]%N ++ runes_of_ascii """ ] : Pad,
    [ ""a	b"" , 42
//
//	t
, """ ++ [233]%N ++ runes_of_ascii "t" ++ [233]%N ++ runes_of_ascii """ ,	3 ,	""" ++ [28040; 24687]%N ++ runes_of_ascii """,
    00 ,
7 ]  : packetx ,
42
    //x
    : falsey,}
,},}packet body
{ }")).
Eval vm_compute in ("<<<M1976>>>" ++ check (runes_of_ascii "options {
    StringPrefixLenType = u64;
    ArrayPrefixLenType = u16;
    FixedStringPadChar = ' ';
}

packet Logon {
    i32 msgKind,
    repeat InOrderid65 {
        u8 pad0,
    },
    i8 tag7,
    @leftPad(' ')
    char[12] x,
}

packet Leg {
    char[] f1,
    repeat char[5] Px,
    InQty34 {
        repeat char[6] Qty,
        char[7] seqNo,
        string count,
    },
    Logon,
}

packet Party {
    @leftPad('0')
    char[10] OrderId,
    string Tail,
}

packet Fill {
    zchar[5] venue,
    zchar[3] clOrdID,
    InRef95 {
        InLastpx25 {
            u8 pad0,
        },
        float64 OrderId,
        i32 f1,
        float32 x,
        char[] seqNo,
    },
    repeat string seqNo,
}

root packet Heartbeat {
    repeat Leg,
    u32 seqNo,
    u16 tag7,
    u32 Flags @lengthOf(Body),
    match tag7 as Body {
        [195, 75] : Party,
        171 : Fill,
        78 : Logon,
        142 : Leg,
    },
    u32 Note @calculatedFrom(""CRC32""),
}")).
Eval vm_compute in ("<<<M211>>>" ++ check (runes_of_ascii "packet f32a
    { @calculatedFrom(""1"" )
_x { string
/// triple
//	t
metadata@calculatedFrom( ""`tick`""	) `// not a comment` ,  match // packet A { u8 x, }
Foo as  len { 42//
:Z9_ , //x
}  , }
,} packet /// triple
options1{ @lengthOf(A )roots
@lengthOf(// packet A { u8 x, }
msg_type ) `line1
line2` , int32/// triple
a1 `it's` , @calculatedFrom( ""packet""
    )repeat string T , @lengthOf( i64_ ) @calculatedFrom(
""packet""
) @tag( 007
) int16 asx@calculatedFrom(
""it's""
    )//	t
`doc` , repeat i32
charz, metadata // packet A { u8 x, }
`// not a comment` , }  packet
Logon{ }
options {
}
root
packet tag  { @lengthOf(
    Logon
)
charz { string stringy`// not a comment`	,
uint64 int,char
    i64_ `it's`
// packet A { u8 x, }
// a // b
, } ,
//	t
//
u8
i64_ , zchar[ 1 ] float
, } /// triple")).
Eval vm_compute in ("<<<M1839>>>" ++ check (runes_of_ascii "MetaData	metadata 
{	// `tick` ""quote"" 'q'
	msg_type
    Pad
,
int8

calculatedFrom,
}  MetaData

msg_type {// packet A { u8 x, }
	} packet// a // b
	len
    {_x  ,	}
	options

    {
	As	=  
  // a // b
// c
	true 
;// " ++ [27880; 37322]%N ++ runes_of_ascii "

repeatCount

= '\x00'; uint8x// packet A { u8 x, }
  = 
""\" ++ [233]%N ++ runes_of_ascii """

    ;	chars 
= true ; } 
        // " ++ [27880; 37322]%N ++ runes_of_ascii "

// `tick` ""quote"" 'q'
  packet crc{matchKey@lengthOf(

    float
	), @leftPad	(

    '0' )  match

    i8i8 as
    x
    {	[	// " ++ [128512]%N ++ runes_of_ascii " emoji

	65535
, 
	// trailing space 
	10  ,
    4294967296
	]  :
    repeatCount
,  ""// no comment"" 
:stringy
    ,

}
,
@calculatedFrom(""a	b"") crc 
        // " ++ [27880; 37322]%N ++ runes_of_ascii "
  // trailing space 
  ,
/// triple
	  }

")).
Eval vm_compute in ("<<<M269>>>" ++ check (runes_of_ascii "// trailing space 
packet
// packet A { u8 x, }
// packet A { u8 x, }
o {
@calculatedFrom(
""`tick`""
    //	t
    )repeat i8 rootA
, @calculatedFrom( ""`tick`""	)Logon
body`line1
line2` , // " ++ [128512]%N ++ runes_of_ascii " emoji
@lengthOf(crc )@tag( 0
) repeat
falsey string_ , @calculatedFrom(
"""" )
    lengthOf/// triple
, u16 calculatedFrom ,
    i8i8//x
tag `two words` , @tag( 1)	string rootA`u8 x,`
,match pack as int { [
""" ++ [233]%N ++ runes_of_ascii "t" ++ [233]%N ++ runes_of_ascii """
, ""\" ++ [233]%N ++ runes_of_ascii """	, 10 ,  0,
4294967296 , ""packet"" ,""" ++ [28040; 24687]%N ++ runes_of_ascii """
,""" ++ [233]%N ++ runes_of_ascii "t" ++ [233]%N ++ runes_of_ascii """ ] : int
//x
// trailing space 
, 3
    :zchar , """ ++ [128512]%N ++ runes_of_ascii """
:
options1, 00 // c
:x_y_z , 4294967296 :
chars , } ,float32 matchKey
    //x
    ,
T
,}
")).
Eval vm_compute in ("<<<M145>>>" ++ check (runes_of_ascii "root //	t
packet
BodyLength { zchar[ 10
]
u128
    ,
uint8 zchar ``
    , repeat falsey ,float64 chars@calculatedFrom( """ ++ [128512]%N ++ runes_of_ascii """
) , char[]matchKey, repeat //x
uint16 matchKey ,
@calculatedFrom( ""CRC32"" ) char[ 3 ] u `" ++ [28040; 24687; 31867; 22411]%N ++ runes_of_ascii "` , @leftPad ( '0'
    //	t
    ) u64  charz @calculatedFrom(""" ++ [128512]%N ++ runes_of_ascii """), }
root packet chars //
{} MetaData Z9_{ zchar[ 255 ] _x,int32 f32a , int8
asx `` ,
o
packetx // `tick` ""quote"" 'q'
, }
    options
// trailing space 
// c
{	A
=
4294967296
//
// packet A { u8 x, }
;
Foo = ""x y"" ;Foo =  ' ' } //	t")).
Eval vm_compute in ("<<<M17>>>" ++ check (runes_of_ascii "root  packet
Pad {
@tag(65535 ) @lengthOf(
matchKey) //
int32 pack
    , // `tick` ""quote"" 'q'
zchar[65535  ]
charz @calculatedFrom(""""
    )
`crlf
line` , }
MetaData
options1
    {charz crc
//
// " ++ [27880; 37322]%N ++ runes_of_ascii "
, body packetx `// not a comment`, } packet string_ { char[	7 // @lengthOf(
]
T	@calculatedFrom(""\" ++ [233]%N ++ runes_of_ascii """) // c
, @leftPad ( '\x00')@calculatedFrom(
""packet"" )
@tag( 42
// " ++ [128512]%N ++ runes_of_ascii " emoji
// " ++ [128512]%N ++ runes_of_ascii " emoji
) string string_ @calculatedFrom( """ ++ [28040; 24687]%N ++ runes_of_ascii """ ) `a\` , }
")).
Eval vm_compute in ("<<<M1896>>>" ++ check (runes_of_ascii "packet Foo {
    Logon A `a\`,
    a1 A,
    @lengthOf(tag)
    // trailing space 
    x_y_z @lengthOf(leftPad) `it's`,
    @tag(255)
    match crc as roots {
        """ ++ [233]%N ++ runes_of_ascii "t" ++ [233]%N ++ runes_of_ascii """ : Foo,
        [10, 007, """ ++ [233]%N ++ runes_of_ascii "t" ++ [233]%N ++ runes_of_ascii """, ""a	b""] : x_y_z,
    },// @lengthOf(
}

root packet As {
}

MetaData calculatedFrom {
    Z9_ _x ``,
}

MetaData tag {
    // " ++ [27880; 37322]%N ++ runes_of_ascii "
    string body,
    string options1,
    i8i8 pack,
}")).
Eval vm_compute in ("<<<M170>>>" ++ check (runes_of_ascii "// " ++ [128512]%N ++ runes_of_ascii " emoji
packet i64_ { match repeatCount
as u8x{ // packet A { u8 x, }
7 : crc , },repeat uint32 roots ,
} packet options1{ match  MetaDataX as
chars
{ ""CRC32""
    :tag , 00 : lengthOf// a // b
,	""" ++ [233]%N ++ runes_of_ascii "t" ++ [233]%N ++ runes_of_ascii """ : _x , } , uint16 trueish	,
char[ 10 ] calculatedFrom	,
@calculatedFrom( ""a\\""  ) @tag(
65535 ) @rightPad (	'\x00' ) repeat int32 len , }
")).
Eval vm_compute in ("<<<M342>>>" ++ check (runes_of_ascii "root packet roots {  @tag(7 // `tick` ""quote"" 'q'
) int64
    A ,}
//
//
packet u128
    // a // b
    { msg_type Pad
`line1
line2` , }options {crc = ""\" ++ [233]%N ++ runes_of_ascii """
; }
    root packet _x
    {
@lengthOf( pack// " ++ [27880; 37322]%N ++ runes_of_ascii "
)
    i16 MetaDataX	, calculatedFrom
    { packetx@lengthOf(BodyLength )`{ , }` , } // a // b
,}")).
Eval vm_compute in ("<<<M569>>>" ++ check (runes_of_ascii "root packet tag { }  packet MetaDataX{char[007	]
// c
/// triple
asx  @calculatedFrom( ""a\""b""
) `say ""hi""`// " ++ [27880; 37322]%N ++ runes_of_ascii "
,  @tag(4294967296 4294967296 )
    char[1//x
] packetx @calculatedFrom(""a\""b""
    ) ,
// " ++ [128512]%N ++ runes_of_ascii " emoji
// a // b
@calculatedFrom(""" ++ [233]%N ++ runes_of_ascii "t" ++ [233]%N ++ runes_of_ascii """  ) repeat pack // " ++ [27880; 37322]%N ++ runes_of_ascii "
,
    } // c")).
Eval vm_compute in ("<<<M576>>>" ++ check (runes_of_ascii "root packet tag { }  packet MetaDataX{char[007	]
// c
/// triple
asx  @calculatedFrom( ""a\""b""
) `say ""hi""`// " ++ [27880; 37322]%N ++ runes_of_ascii "
,  @tag(4294967296 char[
    char[1//x
] packetx @calculatedFrom(""a\""b""
    ) ,
// " ++ [128512]%N ++ runes_of_ascii " emoji
// a // b
@calculatedFrom(""" ++ [233]%N ++ runes_of_ascii "t" ++ [233]%N ++ runes_of_ascii """  ) repeat pack // " ++ [27880; 37322]%N ++ runes_of_ascii "
,
    } // c")).
Eval vm_compute in ("<<<M167>>>" ++ check (runes_of_ascii "options { roots
=//x
int64 }
// @lengthOf(
// @lengthOf(
packet
    int {
char  zchar, repeat len {
    f32a `" ++ [28040; 24687; 31867; 22411]%N ++ runes_of_ascii "`, } ,zchar[
007 ]As
    `it's`
,  zchar[007
    // a // b
    ] uint8x @lengthOf(
    //x
    Foo)
    ,
// packet A { u8 x, }
// packet A { u8 x, }
}
")).
Eval vm_compute in ("<<<M540>>>" ++ check (runes_of_ascii "root packet tag { }  packet MetaDataX{char[007	]
// c
/// triple
asx  ""a\""b"" @calculatedFrom(
) `say ""hi""`// " ++ [27880; 37322]%N ++ runes_of_ascii "
,  @tag(4294967296 )
    char[1//x
] packetx @calculatedFrom(""a\""b""
    ) ,
// " ++ [128512]%N ++ runes_of_ascii " emoji
// a // b
@calculatedFrom(""" ++ [233]%N ++ runes_of_ascii "t" ++ [233]%N ++ runes_of_ascii """  ) repeat pack // " ++ [27880; 37322]%N ++ runes_of_ascii "
,
    } // c")).
Eval vm_compute in ("<<<M608>>>" ++ check (runes_of_ascii "root packet tag { }  packet MetaDataX{char[007	]
// c
/// triple
asx  @calculatedFrom( ""a\""b""
) `say ""hi""`// " ++ [27880; 37322]%N ++ runes_of_ascii "
,  @tag(4294967296 )
    char[1//x
] packetx @calculatedFrom(""a\""b""
     ,
// " ++ [128512]%N ++ runes_of_ascii " emoji
// a // b
@calculatedFrom(""" ++ [233]%N ++ runes_of_ascii "t" ++ [233]%N ++ runes_of_ascii """  ) repeat pack // " ++ [27880; 37322]%N ++ runes_of_ascii "
,
    } // c")).
Eval vm_compute in ("<<<M623>>>" ++ check (runes_of_ascii "root packet tag { }  packet MetaDataX{char[007	]
// c
/// triple
asx  @calculatedFrom( ""a\""b""
) `say ""hi""`// " ++ [27880; 37322]%N ++ runes_of_ascii "
,  @tag(4294967296 )
    char[1//x
] packetx @calculatedFrom(""a\""b""
    ) ,
// " ++ [128512]%N ++ runes_of_ascii " emoji
// a // b
@calculatedFrom(  ) repeat pack // " ++ [27880; 37322]%N ++ runes_of_ascii "
,
    } // c")).
Eval vm_compute in ("<<<M642>>>" ++ check (runes_of_ascii "root packet tag { }  packet MetaDataX{char[007	]
// c
/// triple
asx  @calculatedFrom( ""a\""b""
) `say ""hi""`// " ++ [27880; 37322]%N ++ runes_of_ascii "
,  @tag(4294967296 )
    char[1//x
] packetx @calculatedFrom(""a\""b""
    ) ,
// " ++ [128512]%N ++ runes_of_ascii " emoji
// a // b
@calculatedFrom(""" ++ [233]%N ++ runes_of_ascii "t" ++ [233]%N ++ runes_of_ascii """  ) repeat")).
Eval vm_compute in ("<<<M100>>>" ++ check (runes_of_ascii "
options{ calculatedFrom = false ; } packet i64_
{
    body,
//	t
//x
}/// triple
options { float
=	true ;// @lengthOf(
charz =// a // b
char[65535 ]; u=/// triple
true ;metadata = ""\" ++ [233]%N ++ runes_of_ascii """  matchKey = '\x00'
    } // " ++ [27880; 37322]%N)).
Eval vm_compute in ("<<<M52>>>" ++ check (runes_of_ascii "  root packet _x// " ++ [128512]%N ++ runes_of_ascii " emoji
{@lengthOf(// c
Packet ) float32 stringy  @calculatedFrom(
""x y"" ) `say ""hi""`, match Pad as
x_y_z{ ""a\\"" : float , 65535 : stringy 007: /// triple
uint8x ,
    } , }
")).
Eval vm_compute in ("<<<M425>>>" ++ check (runes_of_ascii "packet
    // `tick` ""quote"" 'q'
    crc
// packet A { u8 x, }
//	t
{
u32 a1 ,
    // trailing space 
    roots
charz //
`two words` `two words`,	}
    MetaData int {
} /// triple")).
Eval vm_compute in ("<<<M2048>>>" ++ check (runes_of_ascii "
root
	packet 
// c1
  P 
    // c2
    {// c3a
    // c3b

	char  // c4a
    // c4b
		c

    ,  // c6
	u8 // c7a
    // c7b

  x

,// c9a
  	// c9b
}
        // c10
")).
Eval vm_compute in ("<<<M473>>>" ++ check (runes_of_ascii "packet
    // `tick` ""quote"" 'q'
    crc
// packet A { u8 x, }
//	t
{
u32 " ++ [127]%N ++ runes_of_ascii "a1 ,
    // trailing space 
    roots
charz //
`two words`,	}
    MetaData int {
} /// triple")).
Eval vm_compute in ("<<<M696>>>" ++ check (runes_of_ascii "root packet len // trailing space 
{
// " ++ [27880; 37322]%N ++ runes_of_ascii "
//	t
char[10
] metadata	@lengthOf( o ) `crlf
line`,
    @rightPad
' ' (
) string
    Header @calculatedFrom( ""a\\""
    ), }
")).
Eval vm_compute in ("<<<M323>>>" ++ check (runes_of_ascii "MetaData As  {
// " ++ [128512]%N ++ runes_of_ascii " emoji
// @lengthOf(
a1 Pad , zchar[ 00 ] // `tick` ""quote"" 'q'
body`// not a comment` ,
crc uint8x `// not a comment` ,uint32
packetx ``
    ,}
")).
Eval vm_compute in ("<<<M1909>>>" ++ check (runes_of_ascii "// top
MetaData float {
    // c2
    float64 charz `
        `,// c6
}// c7

root packet chars {
    // c11
    @rightPad('0')
    // c15
    Foo,// c17
}// c18")).
Eval vm_compute in ("<<<M225>>>" ++ check (runes_of_ascii "
MetaData options1 { zchar[
    007 ] // `tick` ""quote"" 'q'
zchar	`a\` , uint32 As ,
    i8i8
Foo ,
// packet A { u8 x, }
//x
}
    packet falsey { }")).
Eval vm_compute in ("<<<M176>>>" ++ check (runes_of_ascii "
packet Foo {	} packet MetaDataX
    {char[]	Logon
// trailing space 
//
,  }root packet MetaDataX { match Z9_ as zchar{
7 : zchar , } , }")).
Eval vm_compute in ("<<<M12>>>" ++ check (runes_of_ascii "packet
    charz //
{ @rightPad( '0')
repeat
    //x
    Packet//x
msg_type `" ++ [233]%N ++ runes_of_ascii "`	, } options {repeatCount
= false falsey  = int64
}")).
Eval vm_compute in ("<<<M1222>>>" ++ check (runes_of_ascii "
// c
root packet matchKey { zchar[ 3 ] pack @calculatedFrom( ""a	b"" ) `doc` , } options { } MetaData A { int8 msg_type , }")).
Eval vm_compute in ("<<<M1247>>>" ++ check (runes_of_ascii "root packet matchKey { zchar[ 3 ] pack @calculatedFrom( ""a	b"" ) `doc` , // c
} options { } MetaData A { int8 msg_type , }")).
Eval vm_compute in ("<<<M428>>>" ++ check (runes_of_ascii "packet
    // `tick` ""quote"" 'q'
    crc
// packet A { u8 x, }
//	t
{
u32 a1 ,
    // trailing space 
    roots
charz")).
Eval vm_compute in ("<<<M656>>>" ++ check (runes_of_ascii "root packet tag { }  packet MetaDataX{char[007	]
// c
/// triple
asx  @calculatedFrom( ""a\""b""
) `say ""hi""`// " ++ [65533; 65533]%N)).
Eval vm_compute in ("<<<M905>>>" ++ check (runes_of_ascii "packet A {
  match k as n {
    [""a"", 22, ""c c"", 4, ""e"", 66, ""g"", 8, ""i"", 10, ""k"", 12] : B,
    2 : C
  },
}")).
Eval vm_compute in ("<<<M107>>>" ++ check (runes_of_ascii "
packet a1{ match /// triple
T as pack
{007 : Header ,} , calculatedFrom	, } MetaData
options1
    { }")).
Eval vm_compute in ("<<<M915>>>" ++ check (runes_of_ascii "packet A {
    Inner {
        u8 x `a
b`,
        Deep {
            u8 y `a
b`,
        },
    },
}")).
Eval vm_compute in ("<<<M1771>>>" ++ check (runes_of_ascii "packet chars {
}// c

packet MetaDataX {
    @tag(42)
    i16 string_,
    repeat x `say ""hi""`,
}")).
Eval vm_compute in ("<<<M1443>>>" ++ check (runes_of_ascii "

  options
{
	LittleEndian
    =	true
; }	root packet

P

    {repeat  char cs,u8
x	, 
}")).
Eval vm_compute in ("<<<M844>>>" ++ check (runes_of_ascii "packet A {
  match k as n {
    [""a"", ""bb"", 007, ""d"", ""e"", 66, ""g""] : B,
    2 : C
  },
}")).
Eval vm_compute in ("<<<M1206>>>" ++ check (runes_of_ascii "MetaData float { float64 charz `
` , } root packet chars { @rightPad ( // c
'0' ) Foo , }")).
Eval vm_compute in ("<<<M1417>>>" ++ check (runes_of_ascii "packet chars { } packet MetaDataX { @tag( 42 ) i16
// c
string_ , repeat x `say ""hi""` , }")).
Eval vm_compute in ("<<<M1678>>>" ++ check (runes_of_ascii "packet charz {
    repeat u16 Foo `{ , }`,
    //
    //
}

options {
    crc = """ ++ [28040; 24687]%N ++ runes_of_ascii """;
}")).
Eval vm_compute in ("<<<M1147>>>" ++ check (runes_of_ascii "packet metadata { Logon { A `" ++ [28040; 24687; 31867; 22411]%N ++ runes_of_ascii "` , tag o , }
// c
, zchar len `// not a comment` , }")).
Eval vm_compute in ("<<<M1352>>>" ++ check (runes_of_ascii "packet o { repeat Logon uint8x , // c
} options { asx = zchar[ 3 ] stringy = '\x00' }")).
Eval vm_compute in ("<<<M861>>>" ++ check (runes_of_ascii "packet A {
  match k as n {
    [1, 22, 007, 4, 5, 66, 7, 8, 9] : B
    2 : C
  },
}")).
Eval vm_compute in ("<<<M1313>>>" ++ check (runes_of_ascii "MetaData body { i64 pack // c
`it's` , } packet stringy { int16 calculatedFrom , }")).
Eval vm_compute in ("<<<M1769>>>" ++ check (runes_of_ascii "packet zchar {
    @lengthOf(Header)
    f32 string_ `a\`,
}// packet A { u8 x, }")).
Eval vm_compute in ("<<<M812>>>" ++ check (runes_of_ascii "packet A {
  match k as n {
    [1, ""bb"", 007, ""d"", 5] : B,
    2 : C
  },
}")).
Eval vm_compute in ("<<<M803>>>" ++ check (runes_of_ascii "packet A {
  match k as n {
    [1, 22, ""c c"", 4] : B,
    2 : C
  },
}")).
Eval vm_compute in ("<<<M791>>>" ++ check (runes_of_ascii "packet A {
  match k as n {
    [1, 22, ""c c""] : B
    2 : C
  },
}")).
Eval vm_compute in ("<<<M235>>>" ++ check (runes_of_ascii "// " ++ [128512]%N ++ runes_of_ascii " emoji
options {repeatCount = u32 ;tag = ' ' ; } // a // b")).
Eval vm_compute in ("<<<M1084>>>" ++ check (runes_of_ascii "packet A { // a
 @tag(1) u8 x, // b
 // c
 @tag(2) u8 y, }")).
Eval vm_compute in ("<<<M1083>>>" ++ check (runes_of_ascii "packet A { @tag(1) // a
 @leftPad('0') // b
 char[4] x, }")).
Eval vm_compute in ("<<<M262>>>" ++ check (runes_of_ascii "MetaData u128 { uint8x msg_type `line1
line2`	, }")).
Eval vm_compute in ("<<<M963>>>" ++ check (runes_of_ascii "options {
    a = ""x\
y"";
    b = ""x\
y""
}")).
Eval vm_compute in ("<<<M1101>>>" ++ check (runes_of_ascii "root
// c
packet u128 { chars `it's` , }")).
Eval vm_compute in ("<<<M1631>>>" ++ check (runes_of_ascii "packet A {
    u8 x `a
        b`,
}")).
Eval vm_compute in ("<<<M953>>>" ++ check (runes_of_ascii "root packet A {
    u8 x `
x`,
}")).
Eval vm_compute in ("<<<M1043>>>" ++ check (runes_of_ascii "packet A {
 u8 x `d" ++ [8203]%N ++ runes_of_ascii "`, // c" ++ [8203]%N ++ runes_of_ascii "
}")).
Eval vm_compute in ("<<<M1164>>>" ++ check (runes_of_ascii "
// c
root packet pack { }")).
Eval vm_compute in ("<<<M1059>>>" ++ check (runes_of_ascii "packet A {
}// a// b")).
Eval vm_compute in ("<<<M977>>>" ++ check (runes_of_ascii "// c" ++ [12288]%N ++ runes_of_ascii "
packet A {
}")).
Eval vm_compute in ("<<<M1078>>>" ++ check (runes_of_ascii "packet A { // a
 }")).
Eval vm_compute in ("<<<M233>>>" ++ check (runes_of_ascii "
options { }
")).
Eval vm_compute in ("<<<M1701>>>" ++ check (runes_of_ascii "// c" ++ [160]%N ++ runes_of_ascii "
")).
Eval vm_compute in ("<<<M1945>>>" ++ check (runes_of_ascii "
")).
