From FP Require Import Lexer Parser ShowPT Digest Formatter.
From Coq Require Import String List NArith.
Import ListNotations.
Open Scope string_scope.
Set Printing Width 100000000.
Set Printing Depth 100000000.
Definition show_fres (r : fres) : string :=
  match r with
  | FOk s => "OK:" ++ sh_escaped s ""
  | FErr s => "ERR:" ++ sh_escaped s ""
  | FPanic p => "PANIC:" ++ p
  end.
Definition check (rs : list rune) : string := digest (show_fres (format_res rs)).
Definition full (rs : list rune) : string := show_fres (format_res rs).
Eval vm_compute in ("<<<M3608>>>" ++ check (runes_of_ascii "// top
options // c0
{ LittleEndian =
    // c3
true ; StringPrefixLenType
    // c6
= // c7a
  // c7b
u16 ; // c9a
  // c9b
ArrayPrefixLenType
    // c10
=
    // c11
u8 // c12
; // c13a
  // c13b
FixedStringPadChar // c14a
  // c14b
= '0' // c16a
  // c16b
; } // c18a
  // c18b
packet Logout
    // c20
{
    // c21
repeat // c22
i16 f1 ,
    // c25
string Ref // c27
, // c28
@rightPad // c29
( // c30a
  // c30b
'\x00' // c31a
  // c31b
) // c32a
  // c32b
char[
    // c33
9 ] // c35
Tail // c36
,
    // c37
repeat // c38a
  // c38b
char[
    // c39
6 // c40
] // c41
Flags
    // c42
, // c43a
  // c43b
repeat char[ // c45
3 // c46
] Acct
    // c48
, // c49
} packet // c51
Party // c52a
  // c52b
{ char[ // c54
2 // c55
]
    // c56
f1 // c57
, // c58a
  // c58b
u8 // c59a
  // c59b
Side2
    // c60
,
    // c61
@leftPad // c62
( // c63
' ' ) // c65
char[ // c66
1 // c67a
  // c67b
] // c68
venue // c69a
  // c69b
, // c70
}
    // c71
packet
    // c72
Order { // c74
repeat
    // c75
i64
    // c76
Ref // c77
, InPx62
    // c79
{ // c80a
  // c80b
i32 // c81a
  // c81b
OrderId , // c83a
  // c83b
} // c84
, InNote53
    // c86
{ InClordid80
    // c88
{
    // c89
char[] Acct // c91
,
    // c92
u32 // c93
Px // c94a
  // c94b
, // c95
repeat Party // c97a
  // c97b
, }
    // c99
, // c100
InPrice12 // c101a
  // c101b
{ // c102a
  // c102b
u8 // c103a
  // c103b
pad0
    // c104
,
    // c105
} // c106
, repeat Logout // c109
, // c110a
  // c110b
InFlags23 // c111
{
    // c112
repeat string // c114
seqNo , // c116
string // c117a
  // c117b
sym // c118a
  // c118b
, int8 Flags , zchar[
    // c123
5 // c124
] lastPx // c126
, zchar[ // c128
6 ] // c130
Px // c131
, } , char[ // c135
10
    // c136
]
    // c137
Acct // c138a
  // c138b
,
    // c139
InPx18 // c140
{ // c141a
  // c141b
zchar[ 2
    // c143
] // c144a
  // c144b
count // c145
, // c146
Party ,
    // c148
} // c149
, // c150a
  // c150b
} // c151a
  // c151b
, // c152a
  // c152b
char[ // c153
5 ]
    // c155
Side2 // c156
, // c157a
  // c157b
char[
    // c158
1 // c159
] // c160a
  // c160b
Acct , } // c163
root
    // c164
packet // c165
Ack
    // c166
{ u32 Tail , // c170a
  // c170b
repeat // c171
char[ 4 // c173
] // c174a
  // c174b
msgKind // c175
,
    // c176
repeat // c177
Logout // c178
,
    // c179
} // c180
")).
Eval vm_compute in ("<<<M837>>>" ++ check (runes_of_ascii "/// triple
packet  options1
    { @leftPad( '\x00'	) @rightPad( )	@rightPad
(	'0' ) repeat BodyLength	{a1  falsey`u8 x,`//x
,} , float32 calculatedFrom,	match trueish as
    len{ ""a	b"" : //x
Packet 7  :options1 ,
7
// trailing space 
//x
: _x , [ ""`tick`"" , 3,""" ++ [128512]%N ++ runes_of_ascii """	,
// packet A { u8 x, }
// @lengthOf(
1
, """ ++ [28040; 24687]%N ++ runes_of_ascii """,
    0123456789 ,
""{,}""
    ,
    ""1""]
:
    pack  , ""CRC32"": i8i8 , ""// no comment"" : trueish } ,metadata
rootA `" ++ [28040; 24687; 31867; 22411]%N ++ runes_of_ascii "` , i32
x_y_z `two words` ,
    repeat i32 x_y_z
`" ++ [28040; 24687; 31867; 22411]%N ++ runes_of_ascii "`  ,
@leftPad
    ( '0' ) @leftPad( '0'
    )x @calculatedFrom(
/// triple
// trailing space 
""\n"" ) `{ , }` ,
@tag( 1 )
    //
    repeat u32 asx
    ,	u8x @lengthOf( packetx
)`two words` , } packet int{
    zchar[
// `tick` ""quote"" 'q'
// c
65535
] leftPad
, @lengthOf( /// triple
repeatCount
    ) @tag( 0123456789 )match
    lengthOf  as // a // b
calculatedFrom { [ ""a\\""
] :
    trueish
,
""x y"" : A, """ ++ [233]%N ++ runes_of_ascii "t" ++ [233]%N ++ runes_of_ascii """ :
options1 , }
    , string
    uint8x
`it's` ,
    repeat uint16
u8x  , } packet zchar
{ // a // b
zchar[ 255 ]
    chars @calculatedFrom(  ""packet"" ) ,	match
    BodyLength as //x
x_y_z
    { ""\n"" :u128 , 00 :Packet
,
}
    ,@leftPad
( '\x00'
)repeat o
{ Z9_ @lengthOf(asx )
, }
    , // trailing space 
@calculatedFrom(""" ++ [28040; 24687]%N ++ runes_of_ascii """ )repeat
    // `tick` ""quote"" 'q'
    u64 trueish , i32
charz,x	`tab	here`
,
    string // c
u128// a // b
`// not a comment` ,
len {
match chars as Foo
// @lengthOf(
// packet A { u8 x, }
{
    """":u""packet"" : matchKey , ""// no comment"" :
packetx [
65535
,""it's"", """ ++ [128512]%N ++ runes_of_ascii """ , 0123456789 // trailing space 
, ""a\\"" ,  ""a\\"" ,""" ++ [28040; 24687]%N ++ runes_of_ascii """ ,
    ""{,}""  ]:
len,
    // " ++ [27880; 37322]%N ++ runes_of_ascii "
    ""\" ++ [233]%N ++ runes_of_ascii """: msg_type , ""abc"":
o // @lengthOf(
} ,} ,
@calculatedFrom( """" ) match // trailing space 
falsey
    as calculatedFrom
    { // `tick` ""quote"" 'q'
[
    1
, """ ++ [233]%N ++ runes_of_ascii "t" ++ [233]%N ++ runes_of_ascii """ ]
    : body , ""`tick`""
: calculatedFrom , 3
    :  x_y_z ,""it's"":Packet ,[ 007  ] : Foo , """ ++ [128512]%N ++ runes_of_ascii """ : Foo ,} , // " ++ [27880; 37322]%N ++ runes_of_ascii "
match leftPad as stringy {
""a\\""  : T,
} , }")).
Eval vm_compute in ("<<<M538>>>" ++ check (runes_of_ascii "options
    // c
    {
    chars =
    '0' ; Pad // " ++ [27880; 37322]%N ++ runes_of_ascii "
= 42 ;
    } packet
    roots
{@calculatedFrom( """ ++ [28040; 24687]%N ++ runes_of_ascii """ ) @calculatedFrom(// a // b
""// no comment"" ) chars, }
    packet body { @lengthOf( x  ) match msg_type as x_y_z { 0123456789 :  uint8x
, // packet A { u8 x, }
""`tick`"" :
i64_ // packet A { u8 x, }
00 //
:
    a1
""{,}"" :Header,	[255]	: falsey ,
}
, @calculatedFrom( ""\n"" ) @rightPad
() @lengthOf( BodyLength) i16	A @lengthOf( uint8x ),char[] Foo @lengthOf(
T )
, @leftPad
    (  '0' ) _x {Logon// trailing space 
@lengthOf( //x
u
), } , @leftPad	( '\x00'
) char[ 4294967296 ]
    trueish @calculatedFrom(""x y"" )
`" ++ [233]%N ++ runes_of_ascii "` ,@rightPad	(
    ' ')
    // packet A { u8 x, }
    match msg_type as pack {[
""a\""b"" , ""`tick`""]	: asx
,""x y"" :  a1 // `tick` ""quote"" 'q'
,
    """ ++ [128512]%N ++ runes_of_ascii """	:
    MetaDataX 42 :Foo	007//x
: trueish
/// triple
// @lengthOf(
""it's"" : string_	}	, repeat Header`
`, @tag(
00) f32
options1 @lengthOf( calculatedFrom) ,zchar[255 ] Logon, } root
packet packetx { @lengthOf(	calculatedFrom ) metadata	x_y_z, }
packet leftPad { match roots  as
falsey {
""x y"" : u ,""x y"" : msg_type }
    ,repeat int64 leftPad
,
u @calculatedFrom( ""x y"" ) `tab	here`
, @calculatedFrom(
""packet"" ) match
// " ++ [27880; 37322]%N ++ runes_of_ascii "
// `tick` ""quote"" 'q'
matchKey as BodyLength{ 255 :
a1 007: T , // `tick` ""quote"" 'q'
""`tick`""
//	t
// a // b
:
rootA, [ ""a\\""	,
1
,255,7 // packet A { u8 x, }
, 1 , ""it's""
, 1, 42]
:x_y_z
,
    42 :
i64_//x
, }//
, float64 x_y_z
    `doc`
,
    uint8x //x
,string
    float
//x
// " ++ [27880; 37322]%N ++ runes_of_ascii "
@calculatedFrom( ""\n"") ,
@lengthOf(
    // `tick` ""quote"" 'q'
    o
)stringy //
@lengthOf(
rootA ) , } //x")).
Eval vm_compute in ("<<<M159>>>" ++ check (runes_of_ascii "MetaData MetaDataX
    { i8i8 roots
,	zchar[	65535
    ]rootA
`// not a comment`, // a // b
x_y_z  leftPad
    //x
    `u8 x,`, char[] stringy
// c
//x
`it's` ,
} // packet A { u8 x, }
packet
    Foo {
string	lengthOf , i32 packetx@lengthOf( asx ) `{ , }`
    ,
repeat falsey`two words`, char[] roots@calculatedFrom(""" ++ [28040; 24687]%N ++ runes_of_ascii """ // " ++ [128512]%N ++ runes_of_ascii " emoji
), //
leftPad// @lengthOf(
@calculatedFrom( """ ++ [28040; 24687]%N ++ runes_of_ascii """ )`" ++ [233]%N ++ runes_of_ascii "` ,
    @tag( 42
)
zchar[
65535 ]
    As @lengthOf( a1
)
`doc`
, } root packet charz{
    @tag(
    4294967296
) string options1
    `tab	here`
    // @lengthOf(
    , }packet leftPad	{ } packet metadata { //	t
i32	BodyLength
    @calculatedFrom(
    ""it's"" ) `say ""hi""`,
@rightPad //
(	)
    // " ++ [128512]%N ++ runes_of_ascii " emoji
    chars//x
{
repeat
    falsey	{ uint64 tag @lengthOf(
len )
, char[ 42]packetx @calculatedFrom(
//x
// a // b
""abc"" )
, } , Header { zchar[ 00 //x
] charz
@calculatedFrom( ""x y"" ) // trailing space 
, uint8 calculatedFrom @calculatedFrom( ""\n"" // c
) , trueish `" ++ [28040; 24687; 31867; 22411]%N ++ runes_of_ascii "` , string_ // @lengthOf(
@calculatedFrom( ""// no comment"" ) // c
`it's` ,} , string crc ,
}  , // " ++ [128512]%N ++ runes_of_ascii " emoji
@calculatedFrom( ""1"" )
    @calculatedFrom(	""" ++ [28040; 24687]%N ++ runes_of_ascii """
    // " ++ [27880; 37322]%N ++ runes_of_ascii "
    ) @tag(7
// trailing space 
//
) i8
Foo
// @lengthOf(
// a // b
, i8 a1
//
//x
@calculatedFrom( ""{,}"" ) ``
, repeat falsey	{
o // c
@calculatedFrom( ""abc"" ) `
`  , zchar[42 ] matchKey , }	, i64 As ,
//	t
// `tick` ""quote"" 'q'
repeat As  , repeat
    int64 string_
, }
//	t
")).
Eval vm_compute in ("<<<M449>>>" ++ check (runes_of_ascii "packet f32a
{ @calculatedFrom( // " ++ [27880; 37322]%N ++ runes_of_ascii "
""" ++ [128512]%N ++ runes_of_ascii """ )	char[65535
    ] Logon , }
    packet calculatedFrom { char[ 00
// c
// @lengthOf(
]
    x `u8 x,` , repeat u8x{
repeat float64
Packet ,} ,
    repeat
    Z9_ leftPad, @calculatedFrom(""{,}"" )  repeat	Header	Foo , @tag(
    4294967296)
    @calculatedFrom(
""it's"" )@lengthOf(Logon )char[ 10
    /// triple
    ] len ``, char[ 7
    ] lengthOf
// a // b
// " ++ [128512]%N ++ runes_of_ascii " emoji
@calculatedFrom( """ ++ [28040; 24687]%N ++ runes_of_ascii """ ) `
`,
    // @lengthOf(
    @lengthOf(i8i8
)  repeat //	t
string_ trueish `doc`
    ,
    // " ++ [27880; 37322]%N ++ runes_of_ascii "
    match BodyLength // a // b
as //	t
rootA // @lengthOf(
{
""packet"": uint8x , }, match u128  as float {""" ++ [233]%N ++ runes_of_ascii "t" ++ [233]%N ++ runes_of_ascii """
: stringy	""packet"" : lengthOf , """ ++ [233]%N ++ runes_of_ascii "t" ++ [233]%N ++ runes_of_ascii """
:
    // " ++ [27880; 37322]%N ++ runes_of_ascii "
    lengthOf,""" ++ [128512]%N ++ runes_of_ascii """ :
    lengthOf,""it's"" :As [""// no comment""	]  : int
// " ++ [27880; 37322]%N ++ runes_of_ascii "
/// triple
,},
    }	root packet // " ++ [27880; 37322]%N ++ runes_of_ascii "
_x	{Header `say ""hi""` ,
@leftPad ( '\x00' )@lengthOf( Packet
    ) @rightPad	( ' '  )string msg_type
    @calculatedFrom( """ ++ [233]%N ++ runes_of_ascii "t" ++ [233]%N ++ runes_of_ascii """// " ++ [128512]%N ++ runes_of_ascii " emoji
) `tab	here` ,
i64
zchar //	t
`crlf
line`
,i32
x_y_z, @tag( 7  ) @leftPad
(' ' )
@calculatedFrom(
//
//	t
""1""
    )falsey`two words` , } // " ++ [27880; 37322]%N ++ runes_of_ascii "
packet metadata { f64 u8x,
u16  o `crlf
line`
    ,  msg_type {
u8 a1 @lengthOf( u ) `it's`  ,// trailing space 
}
,@lengthOf( rootA /// triple
) f32a { repeat
    u16 uint8x, }
,//
}
    options {
} // " ++ [128512]%N ++ runes_of_ascii " emoji")).
Eval vm_compute in ("<<<M4225>>>" ++ check (runes_of_ascii "
packet leftPad  {char[4294967296]Pad , }	packet Z9_ { repeat
int
,i64_

    @lengthOf( float 
),
repeat leftPad
    { 
string 
_x
,
char[ 65535] x@calculatedFrom(""it's"")  `crlf
line` , }	, @calculatedFrom(
""" ++ [28040; 24687]%N ++ runes_of_ascii """ )
    i32 tag/// triple
    ,string
body
	@lengthOf(body
) ``//

	,	@tag(	4294967296 ) 
uint16 Logon  @lengthOf( 
    // packet A { u8 x, }
	// packet A { u8 x, }
  leftPad )// a // b
    ``
	,

    }  root packet
repeatCount  {	}

    root

    packet	options1

    {
@lengthOf( Z9_	)

@calculatedFrom(

    ""// no comment""
	)  @calculatedFrom(
	""1""
)
	zchar	// trailing space 
	  {

u8 
repeatCount
@calculatedFrom( ""it's"" 
)
,

Packet
@lengthOf( // @lengthOf(
_x

    )
    //

	,}

, 
@calculatedFrom(
    ""// no comment""

    )
    repeat
    A

    { 
int32 crc@calculatedFrom(	""// no comment"")  `{ , }`, 
    //x
    repeat u64	//x
  	packetx  `// not a comment`

,
    }, i16  packetx @calculatedFrom(""abc"" )

`" ++ [28040; 24687; 31867; 22411]%N ++ runes_of_ascii "`
    , 
    // packet A { u8 x, }
  u16 Foo @calculatedFrom( ""CRC32"" )
    ,	//
    } 
options
    {
	Header
    //	t
  	// c
	=  '\x00';  // " ++ [27880; 37322]%N ++ runes_of_ascii "
      MetaDataX// @lengthOf(
    = 007; 
lengthOf	=	false  ;
As 
='\x00' 
} 	 /// triple
")).
Eval vm_compute in ("<<<M133>>>" ++ check (runes_of_ascii "root packet x_y_z { match Z9_ as  u{ 255:pack , 255 : u128
, 007 : float ""\n"" :options1 , [	""" ++ [28040; 24687]%N ++ runes_of_ascii """ , 1 ]
: Z9_""" ++ [28040; 24687]%N ++ runes_of_ascii """:	chars
, }, u8 _x @calculatedFrom(
    // a // b
    """ ++ [28040; 24687]%N ++ runes_of_ascii """ )`say ""hi""` ,@tag( 3 ) match a1 as msg_type { [ ""\n"" // a // b
, 255//x
, 0 ] :crc	,} , }
root packet o
{  match tag as _x
    { 007 :
    x ,	10 :charz,
""{,}""
:body	,""" ++ [233]%N ++ runes_of_ascii "t" ++ [233]%N ++ runes_of_ascii """ : len
""" ++ [128512]%N ++ runes_of_ascii """
    :
    u , }
    ,
    u64 u @calculatedFrom( ""x y""
// c
// " ++ [27880; 37322]%N ++ runes_of_ascii "
)
`it's`, @lengthOf( trueish ) repeat // packet A { u8 x, }
uint8 u8x
`" ++ [28040; 24687; 31867; 22411]%N ++ runes_of_ascii "` // a // b
, @calculatedFrom(	""\n"" )
    @rightPad() @leftPad (
    '\x00')
    repeat uint32 float, @lengthOf(	A )
    @tag(//	t
0123456789 ) @rightPad ( ' '
    ) zchar[ 10	]
    // " ++ [128512]%N ++ runes_of_ascii " emoji
    o// packet A { u8 x, }
,
    uint8x
    @calculatedFrom( ""a\\"" // " ++ [27880; 37322]%N ++ runes_of_ascii "
) `
`
,body
, repeat //	t
char[10 ]
    string_ `tab	here`
    , } root packet
    roots {  } packet u {@calculatedFrom(	""" ++ [128512]%N ++ runes_of_ascii """ )	f64 Logon// `tick` ""quote"" 'q'
@calculatedFrom( ""1""
)
    `a\` ,  int16 trueish `line1
line2`
,//
zchar[  0123456789 ]
    // a // b
    BodyLength `two words`, float32 i8i8 @lengthOf( metadata ) `// not a comment`
, i32 leftPad,	}

")).
Eval vm_compute in ("<<<M4224>>>" ++ check (runes_of_ascii "root packet Logon {
    zchar[00] roots @calculatedFrom(""a\""b""),
}

MetaData int {
    float roots,
    char u8x `// not a comment`,
    uint64 _x,
    u128 chars `
    `,
    i16 leftPad `" ++ [28040; 24687; 31867; 22411]%N ++ runes_of_ascii "`,
    u8 string_,
}

packet trueish {
    /// triple
    asx {
        msg_type {
            repeat string A `" ++ [233]%N ++ runes_of_ascii "`,
        },
    },
    @tag(65535)
    Packet _x `line1
    line2`,
    // packet A { u8 x, }
    // a // b
    repeat uint32 x_y_z `two words`,
    @calculatedFrom(""packet"")
    i64_ @lengthOf(Logon),
    @rightPad('\x00')
    match msg_type as Foo {
        [10, ""{,}"", ""a	b"", ""abc""] : u128,
        ""// no comment"" : lengthOf,
        ""a\""b"" : len,
        ""\n"" : x_y_z,
    },
    repeat int32 asx `say ""hi""`,
    @rightPad()
    @tag(00)
    @rightPad(' ')
    char[10] crc @lengthOf(metadata) `
    `,
    @lengthOf(msg_type)
    char[] charz @lengthOf(Pad) `crlf
    line`,
    zchar[65535] a1 @calculatedFrom(""a\\""),
    char[42] charz,
}

root packet BodyLength {
    @tag(3)
    @lengthOf(Header)
    len @calculatedFrom("""") `crlf
    line`,
}")).
Eval vm_compute in ("<<<M658>>>" ++ check (runes_of_ascii "// @lengthOf(
packet BodyLength { char T
    , } root packet
A
{
repeat len `say ""hi""` ,repeat Pad{ repeat char[] // " ++ [128512]%N ++ runes_of_ascii " emoji
stringy  , repeat
rootA
{ uint64
Foo @lengthOf( // `tick` ""quote"" 'q'
options1 ) // @lengthOf(
`it's` ,
//x
/// triple
zchar { zchar[
42] Z9_
,
    repeat o  i8i8 ,
uint8 x `it's` ,
    rootA Foo
`{ , }`, }
, }
,
metadata
@calculatedFrom( ""a	b"" )
, } ,  @tag(	1) string
    // c
    u `doc`
    //	t
    ,  u
@calculatedFrom(
    ""it's"")
    ``,char[ 7 ]	packetx@lengthOf( A ) `{ , }`	, string _x `
` ,
float32 _x , repeat char[ 42 ] rootA
`doc` ,} MetaData matchKey {
zchar[ 0123456789
    ]falsey
    `` , }  packet Logon
{ @lengthOf( zchar ) match leftPad as falsey
    {
3 : Packet , 007 :// `tick` ""quote"" 'q'
zchar
1 : // @lengthOf(
float ,	""it's"" :
body""CRC32""
    // " ++ [128512]%N ++ runes_of_ascii " emoji
    :  body } , @calculatedFrom(""{,}"") zchar[
    1 ] i8i8 @lengthOf(
uint8x  )
,
zchar[ 00]
    // `tick` ""quote"" 'q'
    a1
, uint64
    u , string Packet @calculatedFrom( ""packet"" ), }
")).
Eval vm_compute in ("<<<M411>>>" ++ check (runes_of_ascii "packet zchar { @calculatedFrom( ""a\\""
// @lengthOf(
// " ++ [27880; 37322]%N ++ runes_of_ascii "
)f32a`{ , }` , match // c
calculatedFrom as pack {""" ++ [233]%N ++ runes_of_ascii "t" ++ [233]%N ++ runes_of_ascii """
    // a // b
    :As , 0123456789
:
i8i8 ,4294967296	:
A , } ,
//x
// trailing space 
i32
    packetx `say ""hi""`, repeatCount
// `tick` ""quote"" 'q'
// " ++ [128512]%N ++ runes_of_ascii " emoji
{
//
/// triple
repeat falsey {rootA // c
{ T Logon	`a\`,
}
,char[
    007]
// trailing space 
// " ++ [27880; 37322]%N ++ runes_of_ascii "
A // trailing space 
, } , // trailing space 
} ,
repeat
// " ++ [128512]%N ++ runes_of_ascii " emoji
// " ++ [27880; 37322]%N ++ runes_of_ascii "
Packet
    {  int64
    matchKey
    ,
}
, // c
string _x `crlf
line` ,float
    { repeat
u8x {metadata@calculatedFrom( //
""a\\"" )`it's`
    ,
}
    , },
@lengthOf( o
)
    @tag(
00  ) @tag( 0123456789
    )
    // a // b
    falsey {repeat asx `crlf
line`, repeat // a // b
o , }  ,@tag( 00)
    match
// `tick` ""quote"" 'q'
// `tick` ""quote"" 'q'
float
    as Foo
    { """ ++ [128512]%N ++ runes_of_ascii """ : tag , } , @tag(
255 )	repeat i8i8 ,}// `tick` ""quote"" 'q'
packet As { i8 a1@lengthOf( options1/// triple
)	,}")).
Eval vm_compute in ("<<<M258>>>" ++ check (runes_of_ascii "
packet leftPad
    {}	packet u{@leftPad
( ' ' )
    char[65535 ]leftPad, int8
packetx ,
string stringy `crlf
line` ,@leftPad
( // @lengthOf(
' ' // " ++ [27880; 37322]%N ++ runes_of_ascii "
) // " ++ [128512]%N ++ runes_of_ascii " emoji
i64 x
@lengthOf( u )
    `" ++ [28040; 24687; 31867; 22411]%N ++ runes_of_ascii "`	,@lengthOf( pack )
// a // b
//
u64 asx  @lengthOf( repeatCount )
    `u8 x,` , o A ,}	root packet charz{
char[]repeatCount
    //x
    @lengthOf( tag ) ``
,
    repeat pack	`a\` , @calculatedFrom( ""// no comment""
    //x
    ) T { string rootA // " ++ [27880; 37322]%N ++ runes_of_ascii "
@calculatedFrom(""{,}"" )  ,
    }, repeat As
    Foo
, char[
3] trueish ,@calculatedFrom(""""
    )@lengthOf(
metadata)@leftPad ('0'
/// triple
//x
) repeat u64 float `{ , }`
// " ++ [27880; 37322]%N ++ runes_of_ascii "
// " ++ [128512]%N ++ runes_of_ascii " emoji
, stringy {
// packet A { u8 x, }
// c
metadata
    { u8 f32a `two words` , repeat  char[ 007 ] f32a
`
` ,
    } ,  u32 asx @calculatedFrom(""" ++ [233]%N ++ runes_of_ascii "t" ++ [233]%N ++ runes_of_ascii """
) ,float64 i8i8 ,//x
} ,
// c
// " ++ [27880; 37322]%N ++ runes_of_ascii "
match lengthOf as zchar
    /// triple
    {
    00 :o,  } , }")).
Eval vm_compute in ("<<<M895>>>" ++ check (runes_of_ascii "options { Foo =
    // trailing space 
    ""\" ++ [233]%N ++ runes_of_ascii """roots = ""`tick`""
// trailing space 
//	t
; crc = ""packet"" ; falsey= // a // b
1
float = u32	; } packet
options1	{
    match Header as Packet { [ ""abc""
    ] : Header , ""`tick`"" : i64_, [ 7 ,
/// triple
//x
"""", 3 ] : Z9_	,
    [ ""// no comment"" ,
""x y"" , """ ++ [28040; 24687]%N ++ runes_of_ascii """ , 1, ""a	b"" ] : x_y_z
,""a\""b"" :float// c
} , // @lengthOf(
i8i8 _x,  @rightPad ( '\x00')	zchar[
0
    ] string_ ,}packet u8x {@lengthOf(  packetx) char[ 42
    ]
    // `tick` ""quote"" 'q'
    _x,
    f64 matchKey `it's`
, match repeatCount
as
roots
    {
// packet A { u8 x, }
// " ++ [27880; 37322]%N ++ runes_of_ascii "
[
""CRC32""
,
""" ++ [128512]%N ++ runes_of_ascii """
    ] : i8i8 ,} ,
    // " ++ [27880; 37322]%N ++ runes_of_ascii "
    @lengthOf(
len ) @rightPad
( ' '	) u stringy	`say ""hi""` ,// @lengthOf(
repeat char[ 7  ] pack	`" ++ [28040; 24687; 31867; 22411]%N ++ runes_of_ascii "`,	@tag( 42	) string u8x`// not a comment`
    , } root packet As
    {	int32 x
@calculatedFrom( ""\n"" ) , }
")).
Eval vm_compute in ("<<<M4064>>>" ++ check (runes_of_ascii "packet body {
    @tag(255)
    int @lengthOf(matchKey) `tab	here`,
}

packet Z9_ {
    @lengthOf(As)
    repeat _x lengthOf,
    @tag(0123456789)
    repeat uint8x,
    int64 stringy @calculatedFrom(""{,}"") `crlf
    line`,//x
    @lengthOf(i8i8)
    @tag(4294967296)
    @rightPad('0')
    char[3] int,
}

packet roots {
}

root packet body {
    match f32a as u8x {
        //x
        ""\" ++ [233]%N ++ runes_of_ascii """ : chars,
    },
    @tag(255)
    @tag(00)
    trueish Header,
    @tag(1)
    match A as falsey {
        [""a\""b""] : i64_,
        // trailing space 
        [7, 4294967296, 007, ""packet"", ""{,}""] : u128,
        0 : string_,
        007 : x,
        1 : As,
    },
    @lengthOf(options1)
    repeat u16 Header ``,
    string trueish,// " ++ [128512]%N ++ runes_of_ascii " emoji
    @lengthOf(len)
    x repeatCount `crlf
    line`,
}")).
Eval vm_compute in ("<<<M3863>>>" ++ check (runes_of_ascii "packet x {
    u16 msg_type @lengthOf(BodyLength),// trailing space 
    @calculatedFrom(""" ++ [28040; 24687]%N ++ runes_of_ascii """)
    repeat Header {
        char[0123456789] repeatCount,
        zchar[7] i64_ @calculatedFrom(""" ++ [28040; 24687]%N ++ runes_of_ascii """),
        repeat T zchar `tab	here`,
    },
    uint8 body `doc`,
    repeat char[] i8i8,
    uint32 f32a @calculatedFrom(""`tick`""),
    @rightPad(' ')
    match rootA as matchKey {
        42 : lengthOf,
        // `tick` ""quote"" 'q'
        ""// no comment"" : Z9_,
        [1, ""a\\""] : len,
        10 : trueish,
    },
    f64 Logon @lengthOf(T) `crlf
        line`,
    match float as i8i8 {
        ""\n"" : i64_,
    },
    @lengthOf(u8x)
    @leftPad('\x00')
    char[007] body `it's`,
    @leftPad('0')
    string crc @calculatedFrom(""a\\"") `" ++ [28040; 24687; 31867; 22411]%N ++ runes_of_ascii "`,
}")).
Eval vm_compute in ("<<<M3753>>>" ++ check (runes_of_ascii "root packet msg_type {
    repeat A {
        repeat a1 {
            repeat len,
        },
        pack string_,
        zchar[7] msg_type @lengthOf(u),
    },
    repeat zchar[00] tag,
    u64 o @calculatedFrom(""a\\""),
}

packet charz {
    @tag(0)
    // c
    repeat u {
        char[007] T,
    },
    repeatCount @calculatedFrom(""\n""),
}

packet trueish {
    @calculatedFrom(""a\\"")
    @rightPad('0')
    @lengthOf(BodyLength)
    string asx @lengthOf(A),
    @rightPad(' ')
    match pack as leftPad {
        [1] : body,
        [""a	b""] : msg_type,
        // `tick` ""quote"" 'q'
        10 : calculatedFrom,
        7 : packetx,
        """ ++ [233]%N ++ runes_of_ascii "t" ++ [233]%N ++ runes_of_ascii """ : roots,
    },
    @calculatedFrom(""1"")
    repeat roots u8x,
}")).
Eval vm_compute in ("<<<M274>>>" ++ check (runes_of_ascii "packet  int  { @calculatedFrom( """ ++ [28040; 24687]%N ++ runes_of_ascii """  )
@tag(
    // `tick` ""quote"" 'q'
    007
    ) options1 @calculatedFrom( ""CRC32"" ) `tab	here`
, @lengthOf(
As )
    x x_y_z , repeat x
{ i64 Z9_,
zchar[
    // c
    007 ] body
//	t
// a // b
@lengthOf( uint8x
    )
    // c
    , f64  metadata @calculatedFrom( ""`tick`""	)
    `tab	here`, }	, } packet msg_type {
    repeat
// trailing space 
// c
zchar[255 ]A, int64 f32a ,// " ++ [128512]%N ++ runes_of_ascii " emoji
Pad
@lengthOf( falsey
)
,
match
    falsey
as
x_y_z {
7: // `tick` ""quote"" 'q'
len
,}
/// triple
// c
, string // " ++ [27880; 37322]%N ++ runes_of_ascii "
uint8x
    `a\`,string rootA
//x
// a // b
@lengthOf( int	) ,	}	root
/// triple
// `tick` ""quote"" 'q'
packet pack { crc i64_ , }
")).
Eval vm_compute in ("<<<M4471>>>" ++ check (runes_of_ascii "packet BodyLength {
    char[255] _x,
    match body as repeatCount {
        ""{,}"" : len,
    },
    char[0] Logon @calculatedFrom(""{,}""),
    @rightPad()
    i64_ @calculatedFrom(""it's"") `crlf
    line`,
}

packet Header {
    match As as chars {
        7 : packetx,
        [""it's""] : u128,
        [4294967296, ""{,}""] : f32a,
    },
}

packet asx {
    @calculatedFrom(""1"")
    a1,
    //
    //x
    match x_y_z as crc {
        // `tick` ""quote"" 'q'
        // `tick` ""quote"" 'q'
        ""CRC32"" : As,
        7 : o,
        //x
    },
    match msg_type as Packet {
        """ ++ [233]%N ++ runes_of_ascii "t" ++ [233]%N ++ runes_of_ascii """ : metadata,
    },
    repeat u8 i64_,// a // b
}")).
Eval vm_compute in ("<<<M4539>>>" ++ check (runes_of_ascii "packet metadata {
    f64 float `crlf
        line`,
    i32 asx @calculatedFrom(""`tick`""),
    /// triple
    // c
    A,
}

root packet zchar {
    // trailing space 
    // packet A { u8 x, }
    match matchKey as roots {
        ""a\""b"" : zchar,
        ""`tick`"" : int,
        ""\n"" : packetx,
        0 : Z9_,
    },
    int32 a1,
    @tag(42)
    @rightPad('0')
    @tag(65535)
    char[00] calculatedFrom,
    packetx @lengthOf(options1),
}

root packet body {
    match f32a as msg_type {
        [42] : matchKey,
        3 : rootA,
        [00] : packetx,
        10 : falsey,
    },
}

options {
}")).
Eval vm_compute in ("<<<M4290>>>" ++ check (runes_of_ascii "

  packet
T
{
i8
MetaDataX  ,
	repeat
	x	{
    int32  lengthOf
, char[ 007 ]  repeatCount`" ++ [233]%N ++ runes_of_ascii "` ,string// " ++ [27880; 37322]%N ++ runes_of_ascii "
  	Header @lengthOf(len

)

,  } ,
	@rightPad
    (' '
    )
	@tag( 3 )@tag(
00
) char[00]
    rootA

    ,

f64

string_ ,@calculatedFrom(  ""it's""

    // " ++ [27880; 37322]%N ++ runes_of_ascii "
	//

  )char[] falsey ``
, repeat

a1  { i64_  u128  ,
	zchar[
    4294967296 ] 
i8i8
    , Logon @lengthOf(	packetx
// trailing space 

)
,
}
    ,	lengthOf float
,  @calculatedFrom( ""{,}""	)u

@lengthOf( rootA

) `say ""hi""` 
        //

//x
    ,
    zchar[ 
	//	t

10  ]
metadata	``

,} options
	{}	//	t
")).
Eval vm_compute in ("<<<M4405>>>" ++ check (runes_of_ascii "  // top
options  
  // c0
	{
charz// c2
=  // c3a
	// c3b
  	f64 	 // c4a
	// c4b
	; // c5a
	// c5b
    metadata	= // c7
7 	 // c8a
// c8b
    	;	// c9a
    	// c9b
      } 	 // c10

options 
    // c11
  	{ 
  // c12
u128// c13
  =
	    // c14
  10  // c15
  options1 // c16
  =// c17
true 
      // c18
;  zchar // c20

	= 
  // c21

uint16 
// c22
	;
lengthOf 
	    // c24

= 
	    // c25
    true 
  // c26
  ;
	    // c27
    	} // c28a
    // c28b
  options	// c29
    {
// c30
len
= 	 // c32
1 
	    // c33
} 
	    // c34")).
Eval vm_compute in ("<<<M1036>>>" ++ check (runes_of_ascii "packet
    packetx
{@calculatedFrom( ""packet""
)
    // " ++ [27880; 37322]%N ++ runes_of_ascii "
    @calculatedFrom( ""// no comment"" ) @leftPad /// triple
(	'0') //	t
Z9_ T
, leftPad uint8x ,@tag( 4294967296
    //
    ) leftPad //
{ roots { char options1 , }, match Pad
    as int{ [
10 ]
    :roots//	t
,
[	""CRC32"" , ""1"" , 3  ,7
    ,// " ++ [27880; 37322]%N ++ runes_of_ascii "
0
, 0,
    /// triple
    ""CRC32"" , 7
// `tick` ""quote"" 'q'
// a // b
]	:Packet
,	1
    : tag ,1:
    matchKey [	42]:
_x }
, repeat	tag
// packet A { u8 x, }
// " ++ [128512]%N ++ runes_of_ascii " emoji
{ metadata `" ++ [233]%N ++ runes_of_ascii "`
,  }, //	t
u
    `a\` , } ,  }
")).
Eval vm_compute in ("<<<M648>>>" ++ check (runes_of_ascii "MetaData i8i8 { char[0123456789
    ]
    body `doc`, // c
} packet uint8x{pack { char u `crlf
line`
, float , zchar[ 007] //	t
A ,} , char[]
    /// triple
    calculatedFrom `
` , char[
    42 ] matchKey @calculatedFrom(
//
// " ++ [27880; 37322]%N ++ runes_of_ascii "
""a\\"")`` , }  root  packet int { @rightPad (
'0'// packet A { u8 x, }
) Pad  { match zchar as asx {
    [""a	b"" , 42 ] :Logon//
} ,
Packet
    {
    zchar[ 4294967296 ]
    A ,}
//	t
//
, match x as float {  ""x y""	: o
    // a // b
    ,
    1	: calculatedFrom}, } ,}
//
")).
Eval vm_compute in ("<<<M1117>>>" ++ check (runes_of_ascii "options {T = zchar[ 0123456789
    ] }root packet Pad { match repeatCount  as pack{[ 3 ,
    /// triple
    255, ""// no comment""
, """ ++ [28040; 24687]%N ++ runes_of_ascii """ , ""it's"",
255
, ""it's"" ]:
packetx
    // `tick` ""quote"" 'q'
    ,
} ,
@calculatedFrom( ""CRC32""
) @lengthOf( Header)	@lengthOf( u ) match As
    as  calculatedFrom// c
{ [	255, 00]
// trailing space 
/// triple
:// " ++ [128512]%N ++ runes_of_ascii " emoji
Z9_ ,
[""a	b""]:// packet A { u8 x, }
Header}
// trailing space 
// " ++ [128512]%N ++ runes_of_ascii " emoji
,  x_y_z
,
    // packet A { u8 x, }
    }
")).
Eval vm_compute in ("<<<M508>>>" ++ check (runes_of_ascii "packet Pad {
roots
    int , @lengthOf(string_	) repeat char[] x, @calculatedFrom( ""CRC32""
) u16 A	@lengthOf(  string_ ) `line1
line2` , i32 zchar
// `tick` ""quote"" 'q'
// " ++ [27880; 37322]%N ++ runes_of_ascii "
`say ""hi""`,match roots as i64_ /// triple
{
[ 4294967296,  ""abc"", ""x y"",// packet A { u8 x, }
""a	b"" ,
""a	b""] : Z9_ [ //x
""// no comment"" , ""\n"" , 42 ,
1 , ""\" ++ [233]%N ++ runes_of_ascii """
,1 , 7
    , 3
]:  Header  ,[ //x
""" ++ [128512]%N ++ runes_of_ascii """ , ""\" ++ [233]%N ++ runes_of_ascii """ ,
""\" ++ [233]%N ++ runes_of_ascii """
,00
    ,
    """ ++ [233]%N ++ runes_of_ascii "t" ++ [233]%N ++ runes_of_ascii """
, 1
, 00 ,	3 ] :	A , }, char[ 10
] a1
    ,	}

")).
Eval vm_compute in ("<<<M4233>>>" ++ check (runes_of_ascii "// " ++ [128512]%N ++ runes_of_ascii " emoji
packet int {
}

options {
    string_ = true
    Z9_ = '\x00';
    uint8x = false
}

packet body {
    int16 Foo,
    repeat string roots `
    `,//	t
    stringy a1 `tab	here`,
    int8 repeatCount,
    @lengthOf(chars)
    match _x as repeatCount {
        ""CRC32"" : f32a,
        [0123456789, ""it's""] : Logon,
        [10, ""// no comment"", ""a\""b""] : trueish,
        [0] : trueish,
        0 : BodyLength,
    },
}/// triple")).
Eval vm_compute in ("<<<M4575>>>" ++ check (runes_of_ascii "// top
packet MDSnapshotZZ {
    // c2
    u8 a,// c5
}

packet OrderACK {
    // c9
    u16 b,
}

// c13
packet HTTPServerInfo {
    // c16a
    // c16b
    string s,
}// c20

root packet FIXMsg {
    // c24a
    // c24b
    u8 KType,// c27
    MDSnapshotZZ,
    repeat OrderACK,// c32a
    // c32b
    match KType as Body {
        // c37a
        // c37b
        1 : HTTPServerInfo,
        2 : OrderACK,
    },
}// c48")).
Eval vm_compute in ("<<<M438>>>" ++ check (runes_of_ascii "packet Packet {
@calculatedFrom( ""a	b"" ) int16 int
    @lengthOf(
// @lengthOf(
// packet A { u8 x, }
rootA ) ,Foo{ repeat string int
    // `tick` ""quote"" 'q'
    ,
    rootA packetx
    ,match
    uint8x as Pad{ 1	:
    // packet A { u8 x, }
    Foo , 3	:
chars , 255
:
//
// `tick` ""quote"" 'q'
charz ""x y""
: lengthOf , [
    4294967296 ,	""" ++ [233]%N ++ runes_of_ascii "t" ++ [233]%N ++ runes_of_ascii """//x
] : crc } //x
,	} //	t
,
    string
msg_type , }

")).
Eval vm_compute in ("<<<M1251>>>" ++ check (runes_of_ascii "
packet
T {
uint64
rootA
    `it's`
    ,
// a // b
// packet A { u8 x, }
@tag( 255
    )
f32a
{
string
MetaDataX
`" ++ [28040; 24687; 31867; 22411]%N ++ runes_of_ascii "`
, } ,uint8x
    //x
    @lengthOf( u8x ),
match
x
    // a // b
    as As	{4294967296	: trueish , ""{,}"": Packet , 1  :float
,  007 : repeatCount , //	t
}, @leftPad (  '0' ) @lengthOf( crc ) int16 // trailing space 
u128 , calculatedFrom
asx
`u8 x,` ,
}
")).
Eval vm_compute in ("<<<M454>>>" ++ check (runes_of_ascii "//	t
packet Header
    { @tag( 0 ) float64
    //
    u128 , @tag(65535
    ) pack `line1
line2`
,
    @tag(1
    // @lengthOf(
    )trueish	{
// " ++ [128512]%N ++ runes_of_ascii " emoji
// c
repeat u `it's`  ,} , @lengthOf( repeatCount )	@calculatedFrom(""it's"" )
    @lengthOf(
a1 ) string_@lengthOf( string_ ) , }
MetaData leftPad	{ u8 pack	, // `tick` ""quote"" 'q'
} packet msg_type { Z9_,
}")).
Eval vm_compute in ("<<<M1322>>>" ++ check (runes_of_ascii "packet
    options1 { repeat
zchar[ 7
]
i8i8 ,_x { zchar[ 65535 ]i8i8 @lengthOf( uint8x ) ,match x_y_z as lengthOf
    { //x
[ 00// " ++ [27880; 37322]%N ++ runes_of_ascii "
, 1// " ++ [27880; 37322]%N ++ runes_of_ascii "
, 10 ,  ""\" ++ [233]%N ++ runes_of_ascii """ , 42 , 00
] : Pad, [4294967296 ] : asx
    0123456789:
x_y_z ,
}// trailing space 
, zchar[
0]float
    ,}
    , int16
    T @lengthOf( charz ) `` , }MetaData pack {int64 //	t
chars
,  }")).
Eval vm_compute in ("<<<M4156>>>" ++ check (runes_of_ascii "options {
}// @lengthOf(

root packet trueish {
    f32 Logon @calculatedFrom(""`tick`"") `
        `,
    zchar[0123456789] As @calculatedFrom(""a	b""),
    chars,
    char[] u128 @lengthOf(a1) `
        `,
    @tag(255)
    repeat asx,
}

MetaData lengthOf {
    _x tag,
    float32 zchar,
}

options {
    As = i64;
}

MetaData len {
}")).
Eval vm_compute in ("<<<M1252>>>" ++ check (runes_of_ascii "MetaData packetx	{
    MetaDataX zchar , calculatedFrom i64_ ,char[] BodyLength , zchar[ 4294967296 // packet A { u8 x, }
] MetaDataX``
, int BodyLength `
`, i64 i64_ , }
options
    { u8x= u32 ; } MetaData rootA{
zchar[ 4294967296 ] roots
`doc` ,
char[ 0123456789 ]
    // a // b
    uint8x `" ++ [233]%N ++ runes_of_ascii "`
    , Z9_ len	`u8 x,`	, }
")).
Eval vm_compute in ("<<<M2018>>>" ++ check (runes_of_ascii "MetaData
    u { }  options {
// c
// @lengthOf(
float = int8 ;rootA =false ; As =	int16 // `tick` ""quote"" 'q'
repeatCount
    // trailing space 
    =
    int16
; u8x =
    //	t
    '\x00' ; } options	{
    repeatCount
= 0
u128
    //
    packet false ; i64_
// trailing space 
// `tick` ""quote"" 'q'
= '0' ; //	t
}
")).
Eval vm_compute in ("<<<M1956>>>" ++ check (runes_of_ascii "MetaData
    u { }  options {
// c
// @lengthOf(
float = int8 ;rootA =false ; As =	int16 // `tick` ""quote"" 'q'
repeatCount
    // trailing space 
    =
    int16
; ; u8x =
    //	t
    '\x00' ; } options	{
    repeatCount
= 0
u128
    //
    = false ; i64_
// trailing space 
// `tick` ""quote"" 'q'
= '0' ; //	t
}
")).
Eval vm_compute in ("<<<M2067>>>" ++ check (runes_of_ascii "MetaData
    u { }  options {
// c
// @lengthOf(
float = int8 ;rootA =false ; As =	int16 // `tick` ""quote"" 'q'
repeatCount
    // trailing space 
    =
    int16
; u8x =
    //	t
    '\x00' ; } options	{
    `repeatCount
= 0
u128
    //
    = false ; i64_
// trailing space 
// `tick` ""quote"" 'q'
= '0' ; //	t
}
")).
Eval vm_compute in ("<<<M1977>>>" ++ check (runes_of_ascii "MetaData
    u { }  options {
// c
// @lengthOf(
float = int8 ;rootA =false ; As =	int16 // `tick` ""quote"" 'q'
repeatCount
    // trailing space 
    =
    int16
; u8x =
    //	t
    '\x00' } ; options	{
    repeatCount
= 0
u128
    //
    = false ; i64_
// trailing space 
// `tick` ""quote"" 'q'
= '0' ; //	t
}
")).
Eval vm_compute in ("<<<M1975>>>" ++ check (runes_of_ascii "MetaData
    u { }  options {
// c
// @lengthOf(
float = int8 ;rootA =false ; As =	int16 // `tick` ""quote"" 'q'
repeatCount
    // trailing space 
    =
    int16
; u8x =
    //	t
    '\x00'  } options	{
    repeatCount
= 0
u128
    //
    = false ; i64_
// trailing space 
// `tick` ""quote"" 'q'
= '0' ; //	t
}
")).
Eval vm_compute in ("<<<M1950>>>" ++ check (runes_of_ascii "MetaData
    u { }  options {
// c
// @lengthOf(
float = int8 ;rootA =false ; As =	int16 // `tick` ""quote"" 'q'
repeatCount
    // trailing space 
    =
    
; u8x =
    //	t
    '\x00' ; } options	{
    repeatCount
= 0
u128
    //
    = false ; i64_
// trailing space 
// `tick` ""quote"" 'q'
= '0' ; //	t
}
")).
Eval vm_compute in ("<<<M1292>>>" ++ check (runes_of_ascii "//	t
packet crc { } MetaData len  { stringy	body `line1
line2`	, u16 crc , //
zchar[007 ] Z9_ , Header T,
} packet stringy //	t
{	@lengthOf( u8x )match A as
// @lengthOf(
/// triple
BodyLength
    {
""{,}"" : o // " ++ [128512]%N ++ runes_of_ascii " emoji
} ,repeat
    //
    zchar[
255 ]packetx , A `" ++ [233]%N ++ runes_of_ascii "` , BodyLength	msg_type
    ,	}
")).
Eval vm_compute in ("<<<M4565>>>" ++ check (runes_of_ascii "
packet f32a
    {  } MetaData
	x{
	BodyLength

    zchar
,	// @lengthOf(
  }

    packet	metadata	{ @tag(
7
)@lengthOf( uint8x )body
{u8	Z9_ @calculatedFrom(/// triple
    	""it's"" 
)
	`u8 x,`
// @lengthOf(
      ,
}  ,	float32 falsey 
@lengthOf( 
u 	 //	t
		) `line1
line2` ,
	}
")).
Eval vm_compute in ("<<<M3209>>>" ++ check (runes_of_ascii "// top
packet
    // c0
metadata
    // c1
{
    // c2
Logon
    // c3
{
    // c4
A
    // c5
`" ++ [28040; 24687; 31867; 22411]%N ++ runes_of_ascii "`
    // c6
,
    // c7
tag
    // c8
o
    // c9
,
    // c10
}
    // c11
,
    // c12
zchar
    // c13
len
    // c14
`// not a comment`
    // c15
,
    // c16
}
    // c17
")).
Eval vm_compute in ("<<<M4526>>>" ++ check (runes_of_ascii "packet falsey {
    // a // b
    char[] x_y_z @lengthOf(u) `two words`,
}

MetaData Packet {
    char[3] rootA `line1
        line2`,
    string A,
}

root packet string_ {
    uint8 calculatedFrom @lengthOf(u128) `line1
        line2`,
    char[3] Z9_,
    float,
}")).
Eval vm_compute in ("<<<M73>>>" ++ check (runes_of_ascii "packet MetaDataX
{ @calculatedFrom(
    ""CRC32""
    ) @tag(	255 //
) zchar[ 007
// c
// trailing space 
] Logon , } MetaData
// " ++ [27880; 37322]%N ++ runes_of_ascii "
// `tick` ""quote"" 'q'
u8x{ char[0123456789
    // @lengthOf(
    ]	Foo , i64 x_y_z , o msg_type
    , }
// packet A { u8 x, }
")).
Eval vm_compute in ("<<<M1628>>>" ++ check (runes_of_ascii "packet
//	t
// trailing space 
_x {
// packet A { u8 x, }
// c
char[
3
    ] u8x @lengthOf(
u8x ) , @calculatedFrom(""" ++ [128512]%N ++ runes_of_ascii """ // @lengthOf(
)
i16	Foo
@lengthOf(	string_
    )`doc`	, repeat	i64 metadata , @lengthOf( string_
) i8 i8 // c
u  `line1
line2`	,
}
")).
Eval vm_compute in ("<<<M1662>>>" ++ check (runes_of_ascii "packet
//	t
// trailing space 
_x {
// packet A { u8 x, }
// c
char[
3
    ] u8x @lengthOf(
u8x ) , @calculatedFrom(""" ++ [128512]%N ++ runes_of_ascii """ " ++ [127]%N ++ runes_of_ascii "// @lengthOf(
)
i16	Foo
@lengthOf(	string_
    )`doc`	, repeat	i64 metadata , @lengthOf( string_
) i8 // c
u  `line1
line2`	,
}
")).
Eval vm_compute in ("<<<M1584>>>" ++ check (runes_of_ascii "packet
//	t
// trailing space 
_x {
// packet A { u8 x, }
// c
char[
3
    ] u8x @lengthOf(
u8x ) , @calculatedFrom(""" ++ [128512]%N ++ runes_of_ascii """ // @lengthOf(
)
i16	Foo
@lengthOf(	string_
    ),	`doc` repeat	i64 metadata , @lengthOf( string_
) i8 // c
u  `line1
line2`	,
}
")).
Eval vm_compute in ("<<<M1630>>>" ++ check (runes_of_ascii "packet
//	t
// trailing space 
_x {
// packet A { u8 x, }
// c
char[
3
    ] u8x @lengthOf(
u8x ) , @calculatedFrom(""" ++ [128512]%N ++ runes_of_ascii """ // @lengthOf(
)
i16	Foo
@lengthOf(	string_
    )`doc`	, repeat	i64 metadata , @lengthOf( string_
) ) // c
u  `line1
line2`	,
}
")).
Eval vm_compute in ("<<<M280>>>" ++ check (runes_of_ascii "
options
{charz =""x y"" calculatedFrom =	'0'	} packet msg_type {msg_type asx, string// packet A { u8 x, }
packetx ,MetaDataX,
Header { i64 packetx`tab	here`
,  }, } options { // @lengthOf(
uint8x = 0 x_y_z =	""x y""
// packet A { u8 x, }
//	t
; }")).
Eval vm_compute in ("<<<M227>>>" ++ check (runes_of_ascii "
root packet
rootA { } root packet
// a // b
// trailing space 
_x // " ++ [27880; 37322]%N ++ runes_of_ascii "
{
    i64_, // a // b
} MetaData options1{ // `tick` ""quote"" 'q'
a1 float `crlf
line`
,
    u8x
falsey // " ++ [128512]%N ++ runes_of_ascii " emoji
`" ++ [233]%N ++ runes_of_ascii "`,
f32a MetaDataX,int64 u8x, } packet f32a {}
")).
Eval vm_compute in ("<<<M4329>>>" ++ check (runes_of_ascii "packet u8x {
    //
    asx `say ""hi""`,
}

MetaData Foo {
    packetx MetaDataX `" ++ [28040; 24687; 31867; 22411]%N ++ runes_of_ascii "`,
}

packet a1 {
    @calculatedFrom(""\" ++ [233]%N ++ runes_of_ascii """)
    len ``,
    @calculatedFrom(""a\\"")
    @lengthOf(calculatedFrom)
    //	t
    string msg_type,
}")).
Eval vm_compute in ("<<<M4342>>>" ++ check (runes_of_ascii "packet body {
    As @lengthOf(string_) `two words`,
    zchar[10] i8i8 @calculatedFrom(""`tick`""),
    zchar[0] pack @calculatedFrom(""x y""),
    uint8 rootA @calculatedFrom(""a\\""),
    i32 msg_type,
    u8 repeatCount,
}")).
Eval vm_compute in ("<<<M115>>>" ++ check (runes_of_ascii "
MetaData stringy
{
    i16
    f32a , string  crc `crlf
line`
, f32 o `doc` , float64
calculatedFrom , }	packet o
{ @leftPad // `tick` ""quote"" 'q'
( )string_
    @lengthOf(packetx // `tick` ""quote"" 'q'
), }
")).
Eval vm_compute in ("<<<M1309>>>" ++ check (runes_of_ascii "MetaData rootA{ }packet BodyLength{repeat
    int32 falsey`a\`
, i64
rootA @lengthOf(
falsey
) , } root packet
x
    { u64 A  `" ++ [233]%N ++ runes_of_ascii "` ,} packet // @lengthOf(
BodyLength{}
    //x
    options { A
    =
""\n"" ; }
")).
Eval vm_compute in ("<<<M1787>>>" ++ check (runes_of_ascii "options { trueish = ""`tick`"" ; string_= """ ++ [233]%N ++ runes_of_ascii "t" ++ [233]%N ++ runes_of_ascii """
    // c
    } root
    packet body { stringy @calculatedFrom(
""a	b"" ) `line1
line2` , }
packet Logon { {
    @leftPad(
    ' ' ) //	t
u16 string_ `u8 x,` ,
}
")).
Eval vm_compute in ("<<<M1683>>>" ++ check (runes_of_ascii "options { = trueish ""`tick`"" ; string_= """ ++ [233]%N ++ runes_of_ascii "t" ++ [233]%N ++ runes_of_ascii """
    // c
    } root
    packet body { stringy @calculatedFrom(
""a	b"" ) `line1
line2` , }
packet Logon {
    @leftPad(
    ' ' ) //	t
u16 string_ `u8 x,` ,
}
")).
Eval vm_compute in ("<<<M1818>>>" ++ check (runes_of_ascii "options { trueish = ""`tick`"" ; string_= """ ++ [233]%N ++ runes_of_ascii "t" ++ [233]%N ++ runes_of_ascii """
    // c
    } root
    packet body { stringy @calculatedFrom(
""a	b"" ) `line1
line2` , }
packet Logon {
    @leftPad(
    ' ' ) //	t
u16 `u8 x,` string_ ,
}
")).
Eval vm_compute in ("<<<M4431>>>" ++ check (runes_of_ascii "// packet A { u8 x, }
    root

    packet  Logon /// triple
  { A
`doc` 
, string  len
    ,
    }MetaData len
{ int64  i8i8
`{ , }`,
    }

    packet// " ++ [27880; 37322]%N ++ runes_of_ascii "
    lengthOf
{
	i64
Header

, } //	t
")).
Eval vm_compute in ("<<<M1741>>>" ++ check (runes_of_ascii "options { trueish = ""`tick`"" ; string_= """ ++ [233]%N ++ runes_of_ascii "t" ++ [233]%N ++ runes_of_ascii """
    // c
    } root
    packet body {  @calculatedFrom(
""a	b"" ) `line1
line2` , }
packet Logon {
    @leftPad(
    ' ' ) //	t
u16 string_ `u8 x,` ,
}
")).
Eval vm_compute in ("<<<M1193>>>" ++ check (runes_of_ascii "MetaData// trailing space 
int {// " ++ [27880; 37322]%N ++ runes_of_ascii "
u128 uint8x , // a // b
string
    o ,A metadata `u8 x,`  ,
char[  10 ]
rootA
    , packetx x_y_z `doc` ,  string_ // `tick` ""quote"" 'q'
trueish`doc` , }")).
Eval vm_compute in ("<<<M1207>>>" ++ check (runes_of_ascii "//	t
options
    {
    packetx = '\x00' len =	false // packet A { u8 x, }
As =
""a\""b"" ;} packet
BodyLength {string options1  `crlf
line`
, // c
repeatCount @lengthOf( matchKey
) , }")).
Eval vm_compute in ("<<<M1596>>>" ++ check (runes_of_ascii "packet
//	t
// trailing space 
_x {
// packet A { u8 x, }
// c
char[
3
    ] u8x @lengthOf(
u8x ) , @calculatedFrom(""" ++ [128512]%N ++ runes_of_ascii """ // @lengthOf(
)
i16	Foo
@lengthOf(	string_
    )`doc`	,")).
Eval vm_compute in ("<<<M1112>>>" ++ check (runes_of_ascii "
packet	Packet {
    @calculatedFrom(
    ""1""  )
uint8x, @leftPad	('\x00'
    /// triple
    ) char[] f32a @lengthOf( /// triple
f32a // packet A { u8 x, }
) `a\` ,  }

")).
Eval vm_compute in ("<<<M4528>>>" ++ check (runes_of_ascii "packet A {
    Inner {
        match k as n {
            [
                1, 22, 007, 4, 5,
                66, 7, 8, 9, 10
            ] : B,
        },
    },
}")).
Eval vm_compute in ("<<<M2105>>>" ++ check (runes_of_ascii "options{
_x
= true
} options options
{ o	= /// triple
false
    ; chars
= ""\n"" } root packet	Pad
/// triple
// packet A { u8 x, }
{	chars
    // a // b
    ,}")).
Eval vm_compute in ("<<<M2112>>>" ++ check (runes_of_ascii "options{
_x
= true
} options
repeat o	= /// triple
false
    ; chars
= ""\n"" } root packet	Pad
/// triple
// packet A { u8 x, }
{	chars
    // a // b
    ,}")).
Eval vm_compute in ("<<<M2422>>>" ++ check (runes_of_ascii "// c
packet x { @lengthOf( metadata ) repeat lengthOf
,a1{
trueish	,// c
repeat//	t
MetaDataX , , } , zchar[
    42	] rootA // `tick` ""quote"" 'q'
,
    }
")).
Eval vm_compute in ("<<<M2201>>>" ++ check (runes_of_ascii "options{
_x
= true
} \ options
{ o	= /// triple
false
    ; chars
= ""\n"" } root packet	Pad
/// triple
// packet A { u8 x, }
{	chars
    // a // b
    ,}")).
Eval vm_compute in ("<<<M2194>>>" ++ check (runes_of_ascii "options{
_x
= true
} options
{ o	= /// triple
false
    ; chars
= ""\n"" } root packet	Pad
/// triple
// packet A { u8 x, }
{	chars
  " ++ [127]%N ++ runes_of_ascii "  // a // b
    ,}")).
Eval vm_compute in ("<<<M2136>>>" ++ check (runes_of_ascii "options{
_x
= true
} options
{ o	= /// triple
false
    ; =
chars ""\n"" } root packet	Pad
/// triple
// packet A { u8 x, }
{	chars
    // a // b
    ,}")).
Eval vm_compute in ("<<<M2207>>>" ++ check (runes_of_ascii "options{
_x
= true
} options
{ o	= /// triple
false
    ; chars
= ""\n"" } root packet	x" ++ [178]%N ++ runes_of_ascii "
/// triple
// packet A { u8 x, }
{	chars
    // a // b
    ,}")).
Eval vm_compute in ("<<<M2317>>>" ++ check (runes_of_ascii "// c
packet x { @lengthOf( metadata ) repeat lengthOf
,a1{
trueish	,// c
//	t
MetaDataX , } , zchar[
    42	] rootA // `tick` ""quote"" 'q'
,
    }
")).
Eval vm_compute in ("<<<M751>>>" ++ check (runes_of_ascii "packet rootA
{ @tag( 3
    )char[ 255]// " ++ [27880; 37322]%N ++ runes_of_ascii "
x `two words`, @lengthOf(
    zchar)i32 roots ,
    u16 Foo `say ""hi""` ,
    } // `tick` ""quote"" 'q'")).
Eval vm_compute in ("<<<M3911>>>" ++ check (runes_of_ascii "packet  A
    {
u8	a

,
    } 
packet
    B{ u16 
b 
, } root
	packet

    P

    { u8

K 
,
match

K	as
M{1 : A,
    1
    :
	B
,
}
	,
}")).
Eval vm_compute in ("<<<M210>>>" ++ check (runes_of_ascii "packet
i64_
{ f64 float,@tag( 0 ) @lengthOf(u )
    float64 _x  @calculatedFrom(
    ""x y"" )
,}
MetaData matchKey {
} packet roots { }")).
Eval vm_compute in ("<<<M3580>>>" ++ check (runes_of_ascii "packet A {
    u8 a,
}
packet B {
    u16 b,
}
root packet P {
    u8 K,
    match K as M {
        1 : A,
        1 : B,
    },
}
")).
Eval vm_compute in ("<<<M4359>>>" ++ check (runes_of_ascii "packet A {
    u16 len @lengthOf(body) `a
    
    b`,
    u32 crc @calculatedFrom(""CRC32"") `a
    
    b`,
    string body,
}")).
Eval vm_compute in ("<<<M3900>>>" ++ check (runes_of_ascii "root packet repeatCount
// c
    // " ++ [128512]%N ++ runes_of_ascii " emoji
  {

    msg_type// `tick` ""quote"" 'q'
	{
float64 lengthOf
`" ++ [233]%N ++ runes_of_ascii "`
,  }
,

}
")).
Eval vm_compute in ("<<<M3318>>>" ++ check (runes_of_ascii "root packet matchKey { // c
zchar[ 3 ] pack @calculatedFrom( ""a	b"" ) `doc` , } options { } MetaData A { int8 msg_type , }")).
Eval vm_compute in ("<<<M3350>>>" ++ check (runes_of_ascii "root packet matchKey { zchar[ 3 ] pack @calculatedFrom( ""a	b"" ) `doc` , } options { } MetaData A { // c
int8 msg_type , }")).
Eval vm_compute in ("<<<M689>>>" ++ check (runes_of_ascii "options { packetx
=
255 ; }
packet float
{ repeat
    //
    f64 metadata `
`
//	t
//	t
,}
MetaData leftPad {
} //x")).
Eval vm_compute in ("<<<M1454>>>" ++ check (runes_of_ascii "
packet
    falsey { Header@calculatedFrom(""packet""  ) , char[
    0123456789 ] ,
    packetx } // `tick` ""quote"" 'q'")).
Eval vm_compute in ("<<<M1760>>>" ++ check (runes_of_ascii "options { trueish = ""`tick`"" ; string_= """ ++ [233]%N ++ runes_of_ascii "t" ++ [233]%N ++ runes_of_ascii """
    // c
    } root
    packet body { stringy @calculatedFrom(
""a	b""")).
Eval vm_compute in ("<<<M1402>>>" ++ check (runes_of_ascii "
packet
     { Header@calculatedFrom(""packet""  ) , char[
    0123456789 ] packetx
    , } // `tick` ""quote"" 'q'")).
Eval vm_compute in ("<<<M47>>>" ++ check (runes_of_ascii "options
{ options1= uint64 ;	}
root packet /// triple
T {MetaDataX//x
`// not a comment` , } packet crc {}
")).
Eval vm_compute in ("<<<M3807>>>" ++ check (runes_of_ascii "options {
    packetx = 255;
}

packet float {
    repeat f64 metadata `
    `,
}

MetaData leftPad {
}//x")).
Eval vm_compute in ("<<<M4308>>>" ++ check (runes_of_ascii "options {
    options1 = uint64;
}

root packet T {
    MetaDataX `// not a comment`,
}

packet crc {
}")).
Eval vm_compute in ("<<<M4278>>>" ++ check (runes_of_ascii "packet A {
    @rightPad(' ')
    @calculatedFrom(""" ++ [233]%N ++ runes_of_ascii "t" ++ [233]%N ++ runes_of_ascii """)
    int16 crc `tab	here`,
}

MetaData x {
}")).
Eval vm_compute in ("<<<M4193>>>" ++ check (runes_of_ascii "packet
metadata  {

Logon
{  // c
	A`" ++ [28040; 24687; 31867; 22411]%N ++ runes_of_ascii "` 
,  tag o	,
}  ,zchar
	len
`// not a comment`
,  }
")).
Eval vm_compute in ("<<<M2222>>>" ++ check (runes_of_ascii "options
{ } options options { BodyLength= u16 Header= f64 ; u128 =
    true
    ; } // a // b")).
Eval vm_compute in ("<<<M461>>>" ++ check (runes_of_ascii "packet x_y_z {msg_type {  char[]Z9_ @lengthOf( Packet
    ) `` , }, } // packet A { u8 x, }")).
Eval vm_compute in ("<<<M3520>>>" ++ check (runes_of_ascii "packet chars { } packet MetaDataX { @tag( 42 ) i16 string_ , repeat x `say ""hi""` , }
// c
")).
Eval vm_compute in ("<<<M3286>>>" ++ check (runes_of_ascii "MetaData float { float64 charz `
` , } root
// c
packet chars { @rightPad ( '0' ) Foo , }")).
Eval vm_compute in ("<<<M3497>>>" ++ check (runes_of_ascii "packet chars { } packet MetaDataX { // c
@tag( 42 ) i16 string_ , repeat x `say ""hi""` , }")).
Eval vm_compute in ("<<<M2252>>>" ++ check (runes_of_ascii "options
{ } options { BodyLength= u16 Header= = f64 ; u128 =
    true
    ; } // a // b")).
Eval vm_compute in ("<<<M2306>>>" ++ check (runes_of_ascii "options
{ } options { BodyLength= u16 Header'= f64 ; u128 =
    true
    ; } // a // b")).
Eval vm_compute in ("<<<M2258>>>" ++ check (runes_of_ascii "options
{ } options { BodyLength= u16 Header= ; f64 u128 =
    true
    ; } // a // b")).
Eval vm_compute in ("<<<M3236>>>" ++ check (runes_of_ascii "packet metadata { Logon { A `" ++ [28040; 24687; 31867; 22411]%N ++ runes_of_ascii "` , tag o , }
// c
, zchar len `// not a comment` , }")).
Eval vm_compute in ("<<<M2292>>>" ++ check (runes_of_ascii "options
{ } options { BodyLength= u16 Header= f64 ; u128 =
    true
    ; } // a // ")).
Eval vm_compute in ("<<<M3456>>>" ++ check (runes_of_ascii "packet o { repeat Logon uint8x , } options { asx = zchar[ 3
// c
] stringy = '\x00' }")).
Eval vm_compute in ("<<<M1386>>>" ++ check (runes_of_ascii "
packet msg_type { } MetaData
leftPad { int32
calculatedFrom`
`  ,
    } /// triple")).
Eval vm_compute in ("<<<M3401>>>" ++ check (runes_of_ascii "MetaData body { i64
// c
pack `it's` , } packet stringy { int16 calculatedFrom , }")).
Eval vm_compute in ("<<<M2937>>>" ++ check (runes_of_ascii "packet A {
  match k as n {
    [1, 22, 007, 4, 5, 66, 7, 8] : B
    2 : C
  },
}")).
Eval vm_compute in ("<<<M3781>>>" ++ check (runes_of_ascii "root packet repeatCount {
    msg_type {
        float64 lengthOf `" ++ [233]%N ++ runes_of_ascii "`,
    },
}")).
Eval vm_compute in ("<<<M2902>>>" ++ check (runes_of_ascii "packet A {
  match k as n {
    [1, ""bb"", 007, ""d"", 5] : B
    2 : C
  },
}")).
Eval vm_compute in ("<<<M2873>>>" ++ check (runes_of_ascii "packet A {
  match k as n {
    [""a"", ""bb"", ""c c""] : B,
    2 : C
  },
}")).
Eval vm_compute in ("<<<M1837>>>" ++ check (runes_of_ascii "options { trueish = ""`tick`"" ; string_= """ ++ [233]%N ++ runes_of_ascii "t" ++ [233]%N ++ runes_of_ascii """
    // c
    } root
   ")).
Eval vm_compute in ("<<<M4163>>>" ++ check (runes_of_ascii "// top

root// c0a

// c0b
	packet
pack// c2a

// c2b

{ // c3
}
")).
Eval vm_compute in ("<<<M2738>>>" ++ check (runes_of_ascii "i16 0 char[ repeat zchar[ i64 : repeat `tab	here` as int8 { root")).
Eval vm_compute in ("<<<M1157>>>" ++ check (runes_of_ascii "
MetaData lengthOf
    {	uint32
T `crlf
line` ,}
/// triple
")).
Eval vm_compute in ("<<<M2896>>>" ++ check (runes_of_ascii "packet A { Inner { match k as n { [1,22,007,4] : B, }, }, }")).
Eval vm_compute in ("<<<M3376>>>" ++ check (runes_of_ascii "packet x { @rightPad ( )
// c
repeat roots Logon `doc` , }")).
Eval vm_compute in ("<<<M824>>>" ++ check (runes_of_ascii "options
    { float	=
// " ++ [128512]%N ++ runes_of_ascii " emoji
// @lengthOf(
string }
")).
Eval vm_compute in ("<<<M3844>>>" ++ check (runes_of_ascii "root	packet u128 {
    chars `it's` ,	} 
        // c")).
Eval vm_compute in ("<<<M226>>>" ++ check (runes_of_ascii "MetaData trueish { u64// trailing space 
i8i8 , }")).
Eval vm_compute in ("<<<M112>>>" ++ check (runes_of_ascii "MetaData crc { uint8x float
,}
// @lengthOf(
")).
Eval vm_compute in ("<<<M3996>>>" ++ check (runes_of_ascii "

  MetaData
    T {  int64 
i8i8
	``
,
	}
")).
Eval vm_compute in ("<<<M229>>>" ++ check (runes_of_ascii "packet float { }	packet
body
    { }
//x
")).
Eval vm_compute in ("<<<M2612>>>" ++ check (runes_of_ascii "packet A { match k as n { [[1]] : B }, }")).
Eval vm_compute in ("<<<M4215>>>" ++ check (runes_of_ascii "root packet P {
    char c,
    u8 x,
}")).
Eval vm_compute in ("<<<M137>>>" ++ check (runes_of_ascii "//x
MetaData falsey{ string Pad , }
")).
Eval vm_compute in ("<<<M2695>>>" ++ check (runes_of_ascii "@&%t""ZYSa""[h-SeOaEg6\yrr.ozSs#Cy5AO")).
Eval vm_compute in ("<<<M4173>>>" ++ check (runes_of_ascii "root packet MetaDataX {
}// a // b")).
Eval vm_compute in ("<<<M2776>>>" ++ check (runes_of_ascii "kt*o ,Ndx:NTU=^7""XUGU%zgi5(X*Kwj")).
Eval vm_compute in ("<<<M2700>>>" ++ check (runes_of_ascii "Pad as char root float32 : u16")).
Eval vm_compute in ("<<<M2756>>>" ++ check (runes_of_ascii "P={<`""w|U c%74a5s%ZJ!a{B`/*I$")).
Eval vm_compute in ("<<<M2712>>>" ++ check (runes_of_ascii """1"" char u32 @rightPad int8")).
Eval vm_compute in ("<<<M108>>>" ++ check (runes_of_ascii "packet  o {  } // " ++ [128512]%N ++ runes_of_ascii " emoji")).
Eval vm_compute in ("<<<M2664>>>" ++ check (runes_of_ascii "options { a = char[x]; }")).
Eval vm_compute in ("<<<M3789>>>" ++ check (runes_of_ascii "packet f32a

    { }")).
Eval vm_compute in ("<<<M2714>>>" ++ check ([65533; 0; 65533; 65533]%N ++ runes_of_ascii "r" ++ [65533]%N ++ runes_of_ascii "`" ++ [65533]%N ++ runes_of_ascii "o2e" ++ [65533; 65533]%N ++ runes_of_ascii "r" ++ [2]%N ++ runes_of_ascii "#" ++ [65533; 65533]%N ++ runes_of_ascii "N" ++ [65533]%N)).
Eval vm_compute in ("<<<M2848>>>" ++ check ([65533; 16; 25; 65533; 1737]%N ++ runes_of_ascii "%)I" ++ [65533; 65533]%N ++ runes_of_ascii "$" ++ [65533; 19; 65533; 65533; 6; 65533; 27; 16]%N)).
Eval vm_compute in ("<<<M3065>>>" ++ check (runes_of_ascii "packet A {
}
// c" ++ [12288]%N)).
Eval vm_compute in ("<<<M3158>>>" ++ check (runes_of_ascii "MetaData M {
}// c")).
Eval vm_compute in ("<<<M3118>>>" ++ check (runes_of_ascii "packet A {
}// c" ++ [12]%N)).
Eval vm_compute in ("<<<M3155>>>" ++ check (runes_of_ascii "packet A {
}


")).
Eval vm_compute in ("<<<M1294>>>" ++ check (runes_of_ascii "
/// triple
")).
Eval vm_compute in ("<<<M2686>>>" ++ check (runes_of_ascii "// a
// b
")).
Eval vm_compute in ("<<<M340>>>" ++ check (runes_of_ascii "// " ++ [27880; 37322]%N ++ runes_of_ascii "

")).
Eval vm_compute in ("<<<M2469>>>" ++ check (runes_of_ascii "Packet")).
Eval vm_compute in ("<<<M2522>>>" ++ check (runes_of_ascii "`a
b`")).
Eval vm_compute in ("<<<M2491>>>" ++ check (runes_of_ascii "@tag")).
Eval vm_compute in ("<<<M2502>>>" ++ check (runes_of_ascii "//")).
Eval vm_compute in ("<<<M2496>>>" ++ check (runes_of_ascii "@@")).
Eval vm_compute in ("<<<M2683>>>" ++ check (runes_of_ascii "")).
